(* C09: retained_files_exist as an invariant of the world model (Model/Gc.v), preserved by EVERY step - writes, flush, compaction,
   checkpoint and its asynchronous part, retention update + Save (including failing saves), restore / reopen, collection of
   every unreachable table object with every neighbour answer, crash, drop - for all histories whose deleting steps satisfy the
   monitor [step_ok]: a collection or a Destroy never removes a file that ANOTHER party needs (the class of finding D11 and of
   unsound ownership answers), see the definitions of [protects], [gc_ok], [destroy_ok]. What a database object does to ITSELF
   and to the durable list of its own directory is proved safe without assumption. Stdlib only. *)
From Coq Require Import List NArith Bool Lia.
From Coq Require Import ZifyN ZifyNat ZifyBool.
Import ListNotations.
From RV Require Import Base.Bytes Model.Ckpt Model.Gc Proofs.C08_Ckpt Proofs.C09_Gc.
Open Scope N_scope.

Definition kind (n : fname) : N := snd (fst n).
Definition recs (x : wdb) : list ckrec := x_ckpts x ++ x_pending x.
Definition doc_files (d : doc) : list fname := dc_wal d :: map td_name (dc_tables d).
Definition agrees (d : doc) (c : ckrec) : Prop :=
  dc_id d = c_id c /\ dc_wal d = c_wal c /\ forall n, In n (map td_name (dc_tables d)) -> In n (map t_name (c_tabs c)).

(* the names a live object can reach *)
Definition rn (x : wdb) : list fname :=
  map t_name (d_tables (x_core x)) ++ flat_map (fun c => map t_name (c_tabs c)) (x_ckpts x ++ x_pending x)
  ++ (match x_flush x with FSwap _ ts => map t_name ts | _ => [] end)
  ++ (match x_comp x with CSwap a => a | _ => [] end).
Lemma reachable_live x : x_state x = Live -> reachable_names x = rn x.
Proof. intro L. unfold reachable_names, rn. rewrite L. reflexivity. Qed.

Record safe_db (f : fsys) (hs : list (N * N)) (dr : list N) (x : wdb) : Prop := mkSafeDb {
  sd_reach : forall n, In n (rn x) -> fs_has f n = true;
  sd_docs : forall docs id d, fs_get f (x_dir x, 2, 0) = Some (FCk docs) -> find_doc docs id = Some d ->
            In (id, x_dir x) hs -> ~ In id dr -> exists c, In c (recs x) /\ agrees d c;
  sd_ids : NoDup (map c_id (recs x));
  sd_wals : NoDup (flat_map c_allw (recs x));
  sd_kw : forall c, In c (recs x) -> kind (c_wal c) = 1;
  sd_kx : forall c n, In c (recs x) -> In n (c_xw c) -> kind n = 1 /\ fst (fst n) <> x_dir x;
  sd_ko : forall o, In o (x_objs x) -> kind (o_name o) = 0;
  sd_kt : forall n, In n (rn x) -> kind n = 0;
  sd_walid : forall c, In c (recs x) -> fst (fst (c_wal c)) = x_dir x -> snd (c_wal c) < w_id (d_wal (x_core x));
  sd_inflight : forall id, In (id, true) (x_cktasks x) -> ~ In id dr ->
                exists c, In c (recs x) /\ c_id c = id /\ fs_has f (c_wal c) = true
}.

Record Safe (w : world) : Prop := mkSafe {
  sf_db : forall i x, nth_error (g_dbs w) i = Some x -> x_state x = Live -> safe_db (g_fs w) (g_handles w) (g_dropped w) x;
  sf_handles : forall id D, In (id, D) (g_handles w) -> ~ In id (g_dropped w) ->
               exists docs d, fs_get (g_fs w) (D, 2, 0) = Some (FCk docs) /\ find_doc docs id = Some d /\
                              forall n, In n (doc_files d) -> fs_has (g_fs w) n = true;
  sf_writer : forall i j x y, nth_error (g_dbs w) i = Some x -> nth_error (g_dbs w) j = Some y ->
              x_state x = Live -> x_state y = Live -> x_dir x = x_dir y -> i = j;
  sf_dirs : forall i x, nth_error (g_dbs w) i = Some x -> x_state x = Live -> x_dir x < g_nextdir w;
  sf_hdirs : forall id D, In (id, D) (g_handles w) -> D < g_nextdir w;
  sf_kinds : forall n docs d, fs_get (g_fs w) n = Some (FCk docs) -> In d docs ->
             kind (dc_wal d) = 1 /\ (forall t, In t (dc_tables d) -> kind (td_name t) = 0) /\ (forall n, In n (dc_xw d) -> kind n = 1)
}.

(* ------------------------------------------------------------------ the monitor: what a deleting step must not touch *)
(* [protects w i n]: file n is needed by a party other than the acting object number i: another live object (a table it can
   reach, the WAL of one of its checkpoints whose asynchronous part is between WAL save and list save, its checkpoints file), or
   the persisted document of a completed handle that no saved retention update dropped - unless the acting object is the live
   writer of that handle's directory (that case is proved, not assumed). *)
Definition protects (w : world) (i : nat) (n : fname) : Prop :=
  (exists j y, j <> i /\ nth_error (g_dbs w) j = Some y /\ x_state y = Live /\
     (In n (rn y) \/ (exists c id, In c (recs y) /\ c_id c = id /\ In (id, true) (x_cktasks y) /\ n = c_wal c) \/ n = (x_dir y, 2, 0)))
  \/ (exists id D docs d, In (id, D) (g_handles w) /\ ~ In id (g_dropped w) /\
        fs_get (g_fs w) (D, 2, 0) = Some (FCk docs) /\ find_doc docs id = Some d /\ (In n (doc_files d) \/ n = (D, 2, 0)) /\
        ~ (exists x, nth_error (g_dbs w) i = Some x /\ x_state x = Live /\ x_dir x = D)).

(* a collection is acceptable when no cleanup deletes a file another party needs. Finding D11 is the failure of this predicate
   by a table object CREATED by a DROPPED database object (o_fromdoc = false, x_state = Dropped); an unsound ownership /
   neighbour answer is its failure by an object opened from a document. *)
Definition gc_ok (w : world) : Prop :=
  forall i x n, nth_error (g_dbs w) i = Some x -> x_state x <> Crashed -> In n (C09_Gc.gc_one w x) -> ~ protects w i n.
Definition d11_pattern (w : world) : Prop :=
  exists i x o, nth_error (g_dbs w) i = Some x /\ x_state x = Dropped /\ In o (x_objs x) /\ o_fromdoc o = false /\ protects w i (o_name o).

Definition destroy_ok (w : world) (d : N) (x1 : wdb) : Prop :=
  forall c n, In c (x_pending x1) -> In n (c_allw c) -> ~ protects (save_write w x1) (N.to_nat d) n.
Definition retain_x1 (x : wdb) (ids : list N) : wdb :=
  with_ck x (filter (retain_keeps ids) (x_ckpts x)) (x_pending x ++ filter (fun c => negb (retain_keeps ids c)) (x_ckpts x)) (x_cktasks x).
Definition ckpt_x1 (x : wdb) (id : N) : wdb :=
  with_ck x (x_ckpts x) (x_pending x) (filter (fun t => negb (fst t =? id)) (x_cktasks x)).

Fixpoint step_ok (w : world) (o : op) : Prop :=
  match o with
  | OGc => gc_ok w
  | ORetain d ids => forall x, get_db w d = Some x -> x_state x = Live /\ destroy_ok w d (retain_x1 x ids)
  | ORetainF d ids f => forall x, get_db w d = Some x ->
      x_state x = Live /\ (snd (save_list_f w (retain_x1 x ids) f) = true -> destroy_ok w d (retain_x1 x ids))
  | OStepCkpt d id => forall x, get_db w d = Some x -> x_state x = Live /\ destroy_ok w d x
  | OStepCkptF d id f => forall x, get_db w d = Some x ->
      x_state x = Live /\ (snd (save_list_f w x f) = true -> destroy_ok w d x)
  | OCkpt d id => forall x, get_db w d = Some x -> x_state x = Live /\ ~ In id (map c_id (recs x))
  | ORestore _ id same _ _ =>
      ~ In id (g_dropped w) /\
      (same = true -> forall hd i x, handle_dir w id = Some hd -> nth_error (g_dbs w) i = Some x -> x_state x = Live -> x_dir x <> hd)
  | ORestoreM _ id dirs same _ _ =>
      ~ In id (g_dropped w) /\
      (forall d1 ds, load_docs w id dirs = inl (Some (d1 :: ds)) ->
         NoDup (map dc_wal (d1 :: ds)) /\
         (forall d, In d ds -> fst (fst (dc_wal d)) <> (if same then hd 0 dirs else g_nextdir w)) /\
         (same = false -> fst (fst (dc_wal d1)) <> g_nextdir w)) /\
      (same = true -> forall i x, nth_error (g_dbs w) i = Some x -> x_state x = Live -> x_dir x <> hd 0 dirs)
  | OStepCompact _ (CRadded names) => forall n, In n names -> kind n = 0
  | OStepCompact _ (CRswapped _ added) => forall a, In a added -> kind (fst a) = 0
  | OSeq a b => step_ok w a /\ step_ok (step w a) b
  | _ => True
  end.

Fixpoint run_ok (w : world) (ops : list op) : Prop :=
  match ops with [] => True | o :: ops' => step_ok w o /\ run_ok (step w o) ops' end.

(* ------------------------------------------------------------------ lists, the database list *)
Lemma nth_upd_same {A} (l : list A) i x y : nth_error l i = Some y -> nth_error (upd l i x) i = Some x.
Proof. revert i. induction l as [|z l IH]; intros [|i] H; try discriminate; cbn in *; [reflexivity|apply IH; exact H]. Qed.
Lemma nth_upd_other {A} (l : list A) i j x : i <> j -> nth_error (upd l i x) j = nth_error l j.
Proof.
  revert i j. induction l as [|z l IH]; intros [|i] [|j] H; cbn; try reflexivity; try congruence. apply IH. congruence.
Qed.
Lemma nth_upd_none {A} (l : list A) i x : nth_error l i = None -> upd l i x = l.
Proof. revert i. induction l as [|z l IH]; intros [|i] H; cbn in *; try reflexivity; try discriminate. f_equal. apply IH. exact H. Qed.

(* ------------------------------------------------------------------ the file map *)
Lemma fs_get_put_same f n c : fs_get (fs_put f n c) n = Some c.
Proof. unfold fs_put. cbn [fs_get]. rewrite fname_eqb_refl. reflexivity. Qed.
Lemma fs_get_put_other f n m c : fname_eqb m n = false -> fs_get (fs_put f n c) m = fs_get f m.
Proof. intro NE. unfold fs_put. cbn [fs_get]. rewrite NE. apply fs_get_del_other. exact NE. Qed.
Lemma fname_neq_kind n m : kind n <> kind m -> fname_eqb n m = false.
Proof.
  intro H. destruct (fname_eqb n m) eqn:E; [|reflexivity]. apply fname_eqb_eq in E. subst. congruence.
Qed.
Lemma fname_eqb_false n m : n <> m -> fname_eqb n m = false.
Proof. intro H. destruct (fname_eqb n m) eqn:E; [|reflexivity]. apply fname_eqb_eq in E. congruence. Qed.

Definition fs_mono (f f' : fsys) : Prop := forall n, fs_has f n = true -> fs_has f' n = true.
Definition ck_same (f f' : fsys) : Prop := forall n, kind n = 2 -> fs_get f' n = fs_get f n.
Definition ck_only2 (f : fsys) : Prop := forall n docs, fs_get f n = Some (FCk docs) -> kind n = 2.

Lemma fs_mono_refl f : fs_mono f f. Proof. intros n H. exact H. Qed.
Lemma fs_mono_trans f g h : fs_mono f g -> fs_mono g h -> fs_mono f h.
Proof. intros A B n H. apply B, A, H. Qed.
Lemma fs_mono_put f n c : fs_mono f (fs_put f n c).
Proof.
  intros m H. destruct (fname_eqb m n) eqn:E.
  - apply fname_eqb_eq in E. subst. apply fs_has_put_same.
  - rewrite fs_has_put_other by exact E. exact H.
Qed.
Lemma ck_same_put f n c : kind n <> 2 -> ck_same f (fs_put f n c).
Proof. intros K m Km. apply fs_get_put_other. apply fname_neq_kind. congruence. Qed.
Lemma ck_same_refl f : ck_same f f. Proof. intros n _. reflexivity. Qed.
Lemma ck_same_trans f g h : ck_same f g -> ck_same g h -> ck_same f h.
Proof. intros A B n K. rewrite (B n K). apply A. exact K. Qed.

Lemma fold_put_mono {A} (name : A -> fname) (cont : A -> fcontent) (l : list A) : forall f,
  fs_mono f (fold_left (fun f a => fs_put f (name a) (cont a)) l f).
Proof.
  induction l as [|a l IH]; intro f; [apply fs_mono_refl|]. cbn [fold_left].
  eapply fs_mono_trans; [apply fs_mono_put|apply IH].
Qed.
Lemma fold_put_ck_same {A} (name : A -> fname) (cont : A -> fcontent) (l : list A) : forall f,
  (forall a, In a l -> kind (name a) <> 2) -> ck_same f (fold_left (fun f a => fs_put f (name a) (cont a)) l f).
Proof.
  induction l as [|a l IH]; intros f H; [apply ck_same_refl|]. cbn [fold_left].
  eapply ck_same_trans; [apply ck_same_put; apply H; left; reflexivity|apply IH; intros b Hb; apply H; right; exact Hb].
Qed.
Lemma fold_put_has {A} (name : A -> fname) (cont : A -> fcontent) (l : list A) : forall f a,
  In a l -> fs_has (fold_left (fun f a => fs_put f (name a) (cont a)) l f) (name a) = true.
Proof.
  induction l as [|b l IH]; intros f a H; [destruct H|]. cbn [fold_left]. destruct H as [->|H].
  - apply (fold_put_mono name cont l). apply fs_has_put_same.
  - apply IH. exact H.
Qed.
(* putting files of kind <> 2 whose content is not a checkpoints document keeps "documents only at kind 2" and every document *)
Lemma fold_put_get_other {A} (name : A -> fname) (cont : A -> fcontent) (l : list A) : forall f n,
  (forall a, In a l -> name a <> n) -> fs_get (fold_left (fun f a => fs_put f (name a) (cont a)) l f) n = fs_get f n.
Proof.
  induction l as [|a l IH]; intros f n H; [reflexivity|]. cbn [fold_left]. rewrite IH by (intros b Hb; apply H; right; exact Hb).
  apply fs_get_put_other. apply fname_eqb_false. intro E. apply (H a (or_introl eq_refl)). auto.
Qed.

(* ------------------------------------------------------------------ monotonicity of the per-object invariant *)
Lemma safe_db_mono' f f' hs dr dr' x :
  safe_db f hs dr x -> fs_mono f f' -> fs_get f' (x_dir x, 2, 0) = fs_get f (x_dir x, 2, 0) -> (forall id, In id dr -> In id dr') ->
  safe_db f' hs dr' x.
Proof.
  intros S M C I. destruct S. constructor; try assumption.
  - intros n H. apply M, sd_reach0, H.
  - intros docs id d G Fd Hh ND. rewrite C in G. apply (sd_docs0 docs id d G Fd Hh). intro H. apply ND, I, H.
  - intros id H ND. destruct (sd_inflight0 id H) as [c [Hc [E Hf]]]; [intro H1; apply ND, I, H1|].
    exists c. repeat split; try assumption. apply M, Hf.
Qed.
Lemma safe_db_mono f f' hs dr x :
  safe_db f hs dr x -> fs_mono f f' -> ck_same f f' -> safe_db f' hs dr x.
Proof. intros S M C. eapply safe_db_mono'; try eassumption; [apply C; reflexivity|auto]. Qed.

(* ------------------------------------------------------------------ a step that changes one object and only adds files *)
Lemma upd_nth_inv {A} (l : list A) i x' k y :
  nth_error (upd l i x') k = Some y -> exists z, nth_error l k = Some z /\ ((k = i /\ y = x') \/ (k <> i /\ y = z)).
Proof.
  revert i k. induction l as [|a l IH]; intros [|i] [|k] H; cbn in *; try discriminate.
  - inversion H; subst. exists a. split; [reflexivity|left; auto].
  - exists y. split; [exact H|right; split; [discriminate|reflexivity]].
  - inversion H; subst. exists y. split; [reflexivity|right; split; [discriminate|reflexivity]].
  - destruct (IH _ _ H) as [z [Hz [[E1 E2]|[E1 E2]]]]; exists z; (split; [exact Hz|]); [left|right]; split; congruence.
Qed.

Lemma get_db_nth w d : get_db w d = nth_error (g_dbs w) (N.to_nat d).
Proof. reflexivity. Qed.

Lemma safe_local w d x x' f' :
  Safe w -> get_db w d = Some x ->
  fs_mono (g_fs w) f' -> ck_same (g_fs w) f' ->
  (forall n docs, fs_get f' n = Some (FCk docs) -> fs_get (g_fs w) n = Some (FCk docs)) ->
  x_dir x' = x_dir x -> (x_state x' = Live -> x_state x = Live) ->
  (x_state x' = Live -> safe_db (g_fs w) (g_handles w) (g_dropped w) x -> safe_db f' (g_handles w) (g_dropped w) x') ->
  Safe (set_db (set_fs w f') d x').
Proof.
  intros S G M C K Dr St H. rewrite get_db_nth in G. destruct S.
  constructor; cbn [set_db set_fs g_fs g_dbs g_handles g_dropped g_nextdir].
  - intros i y Hy L. destruct (upd_nth_inv _ _ _ _ _ Hy) as [z [Hz [[E1 E2]|[E1 E2]]]]; subst.
    + rewrite G in Hz. inversion Hz; subst z. apply H; [exact L|]. apply (sf_db0 _ x G). apply St. exact L.
    + eapply safe_db_mono; [apply (sf_db0 _ _ Hz L)|exact M|exact C].
  - intros id D Hh ND. destruct (sf_handles0 id D Hh ND) as [docs [dd [G1 [G2 G3]]]]. exists docs, dd.
    split; [rewrite (C (D, 2, 0) eq_refl); exact G1|]. split; [exact G2|]. intros n Hn. apply M, G3, Hn.
  - intros i j a b Ha Hb La Lb E.
    destruct (upd_nth_inv _ _ _ _ _ Ha) as [za [Hza Ca]]. destruct (upd_nth_inv _ _ _ _ _ Hb) as [zb [Hzb Cb]].
    assert (x_dir a = x_dir za /\ (x_state a = Live -> x_state za = Live)) as [Da Sa].
    { destruct Ca as [[-> ->]|[_ ->]]; [|auto]. rewrite G in Hza. inversion Hza; subst. auto. }
    assert (x_dir b = x_dir zb /\ (x_state b = Live -> x_state zb = Live)) as [Db Sb].
    { destruct Cb as [[-> ->]|[_ ->]]; [|auto]. rewrite G in Hzb. inversion Hzb; subst. auto. }
    apply (sf_writer0 i j za zb Hza Hzb (Sa La) (Sb Lb)). congruence.
  - intros i a Ha La. destruct (upd_nth_inv _ _ _ _ _ Ha) as [za [Hza Ca]].
    destruct Ca as [[-> ->]|[_ ->]]; [|apply (sf_dirs0 _ _ Hza La)]. rewrite Dr. apply (sf_dirs0 _ _ G). apply St. exact La.
  - exact sf_hdirs0.
  - intros n docs dd Gn. apply (sf_kinds0 n docs dd). apply K. exact Gn.
Qed.

(* the object stops being live (crash, drop) *)
Lemma safe_unlive w d x x' :
  Safe w -> get_db w d = Some x -> x_dir x' = x_dir x -> x_state x' <> Live -> Safe (set_db w d x').
Proof.
  intros S G Dr NL.
  replace (set_db w d x') with (set_db (set_fs w (g_fs w)) d x') by (destruct w; reflexivity).
  eapply safe_local; try eassumption.
  - apply fs_mono_refl.
  - apply ck_same_refl.
  - intros n docs H. exact H.
  - intro L. contradiction.
  - intro L. contradiction.
Qed.

(* ------------------------------------------------------------------ a step of one object that keeps its checkpoint list *)
Lemma safe_db_step f f' hs dr x x' :
  safe_db f hs dr x -> fs_mono f f' -> ck_same f f' ->
  x_dir x' = x_dir x -> x_ckpts x' = x_ckpts x -> x_pending x' = x_pending x ->
  (forall id, In (id, true) (x_cktasks x') -> In (id, true) (x_cktasks x) \/ exists c, In c (recs x) /\ c_id c = id /\ fs_has f' (c_wal c) = true) ->
  (forall o, In o (x_objs x') -> In o (x_objs x) \/ kind (o_name o) = 0) ->
  (forall n, In n (rn x') -> In n (rn x) \/ (fs_has f' n = true /\ kind n = 0)) ->
  w_id (d_wal (x_core x)) <= w_id (d_wal (x_core x')) ->
  safe_db f' hs dr x'.
Proof.
  intros S M C Dr Ck Pd Tk Ob Rn Wi. destruct S.
  assert (recs x' = recs x) as ER by (unfold recs; rewrite Ck, Pd; reflexivity).
  constructor; rewrite ?ER, ?Dr; try assumption.
  - intros n H. destruct (Rn n H) as [H1|[H1 _]]; [apply M, sd_reach0, H1|exact H1].
  - intros docs id d G. rewrite (C (x_dir x, 2, 0) eq_refl) in G. apply sd_docs0. exact G.
  - intros o H. destruct (Ob o H) as [H1|H1]; [apply sd_ko0, H1|exact H1].
  - intros n H. destruct (Rn n H) as [H1|[_ H1]]; [apply sd_kt0, H1|exact H1].
  - intros c Hc E. specialize (sd_walid0 c Hc E). lia.
  - intros id H ND. destruct (Tk id H) as [H1|H1]; [|exact H1].
    destruct (sd_inflight0 id H1 ND) as [c [Hc [E Hf]]]. exists c. repeat split; try assumption. apply M, Hf.
Qed.

(* core facts *)
Lemma db_write_walid d k del v : w_id (d_wal (fst (db_write d k del v))) = w_id (d_wal d).
Proof. unfold db_write. destruct (_ || _); reflexivity. Qed.
Lemma db_write_tables d k del v : d_tables (fst (db_write d k del v)) = d_tables d.
Proof. unfold db_write. destruct (_ || _); reflexivity. Qed.

Lemma after_rotations_fields x k :
  x_core (after_rotations x k) = x_core x /\ x_dir (after_rotations x k) = x_dir x /\ x_ckpts (after_rotations x k) = x_ckpts x /\
  x_pending (after_rotations x k) = x_pending x /\ x_cktasks (after_rotations x k) = x_cktasks x /\ x_objs (after_rotations x k) = x_objs x /\
  x_state (after_rotations x k) = x_state x /\ x_comp (after_rotations x k) = x_comp x /\
  (forall n ts, x_flush (after_rotations x k) = FSwap n ts -> x_flush x = FSwap n ts).
Proof.
  unfold after_rotations. destruct k as [|k]; [repeat split; auto|].
  destruct (x_flush x) eqn:F; try (repeat split; cbn; auto; fail).
  destruct (x_flushq x =? 0)%nat; repeat split; cbn; auto; intros; try discriminate; congruence.
Qed.

Lemma rn_after_rotations x k n : In n (rn (after_rotations x k)) -> In n (rn x).
Proof.
  destruct (after_rotations_fields x k) as [Ec [_ [Ek [Ep [_ [_ [_ [Em Ef]]]]]]]].
  unfold rn. rewrite Ec, Ek, Ep, Em. intro H.
  apply in_app_or in H. apply in_or_app. destruct H as [H|H]; [left; exact H|right].
  apply in_app_or in H. apply in_or_app. destruct H as [H|H]; [left; exact H|right].
  apply in_app_or in H. apply in_or_app. destruct H as [H|H]; [left|right; exact H].
  destruct (x_flush (after_rotations x k)) eqn:F; try destruct H. rewrite (Ef _ _ eq_refl). exact H.
Qed.

Lemma db_write_at_walid d k del v rot : w_id (d_wal (db_write_at d k del v rot)) = w_id (d_wal d).
Proof. unfold db_write_at. destruct rot; reflexivity. Qed.
Lemma db_write_at_tables d k del v rot : d_tables (db_write_at d k del v rot) = d_tables d.
Proof. unfold db_write_at. destruct rot; reflexivity. Qed.

Lemma safe_write w d k del v rot : Safe w -> Safe (fst (write_op w d k del v rot)).
Proof.
  intro S. unfold write_op. destruct (get_db w d) as [x|] eqn:G; [|exact S].
  destruct (is_live x) eqn:L; [|exact S].
  set (c := db_write_at (x_core x) k del v rot). set (r := rot). cbn [fst].
  replace (set_db w d (after_rotations (with_core x c) (if r then 1%nat else 0%nat)))
    with (set_db (set_fs w (g_fs w)) d (after_rotations (with_core x c) (if r then 1%nat else 0%nat))) by (destruct w; reflexivity).
  set (k0 := if r then 1%nat else 0%nat).
  destruct (after_rotations_fields (with_core x c) k0) as [Ec [Ed [Ek [Ep [Et [Eo [Es _]]]]]]].
  eapply safe_local; try eassumption.
  - apply fs_mono_refl.
  - apply ck_same_refl.
  - auto.
  - rewrite Es. cbn. auto.
  - intros _ SD. eapply safe_db_step; try eassumption.
    + apply fs_mono_refl.
    + apply ck_same_refl.
    + rewrite Et. cbn. auto.
    + rewrite Eo. cbn. auto.
    + intros n H. left. apply rn_after_rotations in H. unfold rn in *. cbn in H.
      assert (d_tables c = d_tables (x_core x)) as E by apply db_write_at_tables.
      rewrite E in H. exact H.
    + rewrite Ec. cbn. pose proof (db_write_at_walid (x_core x) k del v rot) as T. fold c in T. lia.
Qed.

Lemma set_fs_id w : set_fs w (g_fs w) = w.
Proof. destruct w; reflexivity. Qed.

Lemma safe_local0 w d x x' :
  Safe w -> get_db w d = Some x -> x_dir x' = x_dir x -> (x_state x' = Live -> x_state x = Live) ->
  (x_state x' = Live -> safe_db (g_fs w) (g_handles w) (g_dropped w) x -> safe_db (g_fs w) (g_handles w) (g_dropped w) x') ->
  Safe (set_db w d x').
Proof.
  intros S G Dr St H. rewrite <- (set_fs_id w) at 1. eapply safe_local; try eassumption.
  - apply fs_mono_refl.
  - apply ck_same_refl.
  - auto.
Qed.

(* files that are not checkpoint documents do not create documents *)
Lemma fold_put_no_ck {A} (name : A -> fname) (cont : A -> fcontent) (l : list A) :
  (forall a docs, cont a <> FCk docs) ->
  forall f n docs, fs_get (fold_left (fun f a => fs_put f (name a) (cont a)) l f) n = Some (FCk docs) -> fs_get f n = Some (FCk docs).
Proof.
  intro NC. induction l as [|a l IH]; intros f n docs H; [exact H|]. cbn [fold_left] in H. apply IH in H.
  destruct (fname_eqb n (name a)) eqn:E.
  - apply fname_eqb_eq in E. subst. rewrite fs_get_put_same in H. inversion H. exfalso. eapply NC. eassumption.
  - rewrite fs_get_put_other in H by exact E. exact H.
Qed.

Lemma mk_tables_kind dir next ms t : In t (mk_tables dir next ms) -> kind (t_name t) = 0.
Proof. revert next. induction ms as [|m ms IH]; intro next; [intros []|]. cbn [mk_tables]. intros [<-|H]; [reflexivity|eapply IH; exact H]. Qed.

Lemma in_rn_parts x n :
  In n (rn x) <-> In n (map t_name (d_tables (x_core x))) \/ In n (flat_map (fun c => map t_name (c_tabs c)) (recs x))
                  \/ In n (match x_flush x with FSwap _ ts => map t_name ts | _ => [] end)
                  \/ In n (match x_comp x with CSwap a => a | _ => [] end).
Proof. unfold rn, recs. rewrite !in_app_iff. tauto. Qed.

Ltac easy_side := first [apply fs_mono_refl | apply ck_same_refl | reflexivity | (cbn; lia) | solve [cbn; auto]].

Lemma safe_step_flush w d : Safe w -> Safe (step w (OStepFlush d)).
Proof.
  intro S. cbn [step]. destruct (get_db w d) as [x|] eqn:G; [|exact S].
  destruct (x_flush x) as [| |n ts|] eqn:F; [exact S| | |].
  - (* begin: snapshot, write one table per sealed memtable *)
    set (ts := mk_tables (x_dir x) (x_next x) (d_sealed (x_core x))).
    assert (fs_mono (g_fs w) (fold_left (fun f t => fs_put f (t_name t) (FSst (t_es t))) ts (g_fs w))) as M
      by apply (fold_put_mono (fun t => t_name t) (fun t => FSst (t_es t))).
    assert (ck_same (g_fs w) (fold_left (fun f t => fs_put f (t_name t) (FSst (t_es t))) ts (g_fs w))) as C.
    { apply (fold_put_ck_same (fun t => t_name t) (fun t => FSst (t_es t))). intros t Ht. rewrite (mk_tables_kind _ _ _ _ Ht). discriminate. }
    eapply safe_local; try eassumption; try easy_side.
    + apply (fold_put_no_ck (fun t => t_name t) (fun t => FSst (t_es t))). intros a docs. discriminate.
    + intros _ SD. eapply safe_db_step; try eassumption; try easy_side.
      * cbn. intros o Ho. apply in_app_or in Ho. destruct Ho as [Ho|Ho]; [left; exact Ho|right].
        apply in_map_iff in Ho. destruct Ho as [t [<- Ht]]. cbn. eapply mk_tables_kind. exact Ht.
      * intros n Hn. apply in_rn_parts in Hn. cbn in Hn. destruct Hn as [Hn|[Hn|[Hn|Hn]]].
        -- left. apply in_rn_parts. auto.
        -- left. apply in_rn_parts. auto.
        -- right. apply in_map_iff in Hn. destruct Hn as [t [<- Ht]]. split; [|eapply mk_tables_kind; exact Ht].
           apply (fold_put_has (fun t => t_name t) (fun t => FSst (t_es t))). exact Ht.
        -- left. apply in_rn_parts. auto.
  - (* swap *)
    eapply safe_local0; try eassumption; try easy_side.
    intros _ SD. eapply safe_db_step; try eassumption; try easy_side.
    intros m Hm. left. apply in_rn_parts in Hm. cbn in Hm. apply in_rn_parts. rewrite F.
    destruct Hm as [Hm|[Hm|[Hm|Hm]]]; [|auto|destruct Hm|auto].
    rewrite map_app in Hm. apply in_app_or in Hm. destruct Hm; auto.
  - (* end: bookkeeping of the two queues *)
    destruct (x_flushq x) as [|q]; cbn [x_comp x_compq with_flush]; destruct (x_comp x) eqn:Cm;
      (eapply safe_local0; try eassumption; try easy_side;
       intros _ SD; eapply safe_db_step; try eassumption; try easy_side;
       intros m Hm; left; apply in_rn_parts in Hm; apply in_rn_parts; rewrite F; cbn in Hm; rewrite ?Cm in *; tauto).
Qed.

Lemma safe_step_flush_fail w d : Safe w -> Safe (step w (OStepFlushF d)).
Proof.
  intro S. cbn [step]. destruct (get_db w d) as [x|] eqn:G; [|exact S].
  destruct (x_flush x) eqn:F; try exact S.
  cbn [x_flushq with_objs]. destruct (x_flushq x) as [|q];
    (eapply safe_local0; try eassumption; try easy_side;
     intros _ SD; eapply safe_db_step; try eassumption; try easy_side;
     intros m Hm; left; apply in_rn_parts in Hm; apply in_rn_parts; rewrite F; cbn in Hm; tauto).
Qed.

Lemma safe_step_compact w d r : Safe w -> step_ok w (OStepCompact d r) -> Safe (step w (OStepCompact d r)).
Proof.
  intros S OK. cbn [step]. destruct (get_db w d) as [x|] eqn:G; [|exact S].
  destruct (x_comp x) as [| | |a|] eqn:Cm.
  - destruct r; exact S.
  - (* begin -> iter *)
    eapply safe_local0; try eassumption; try easy_side.
    intros _ SD. eapply safe_db_step; try eassumption; try easy_side.
    intros m Hm. left. apply in_rn_parts in Hm. apply in_rn_parts. rewrite Cm. cbn in Hm. tauto.
  - destruct r as [| |names|removed added]; try exact S.
    + (* nothing to compact *)
      eapply safe_local0; try eassumption; try easy_side.
      intros _ SD. eapply safe_db_step; try eassumption; try easy_side.
      intros m Hm. left. apply in_rn_parts in Hm. apply in_rn_parts. rewrite Cm. cbn in Hm. tauto.
    + (* the compaction wrote its tables *)
      cbn [step_ok] in OK.
      assert (fs_mono (g_fs w) (fold_left (fun f n => fs_put f n (FSst [])) names (g_fs w))) as M
        by apply (fold_put_mono (fun n => n) (fun _ => FSst [])).
      assert (ck_same (g_fs w) (fold_left (fun f n => fs_put f n (FSst [])) names (g_fs w))) as C.
      { apply (fold_put_ck_same (fun n => n) (fun _ => FSst [])). intros n Hn. rewrite (OK n Hn). discriminate. }
      eapply safe_local; try eassumption; try easy_side.
      * apply (fold_put_no_ck (fun n => n) (fun _ : fname => FSst [])). intros n docs. discriminate.
      * intros _ SD. eapply safe_db_step; try eassumption; try easy_side.
        -- cbn. intros o Ho. apply in_app_or in Ho. destruct Ho as [Ho|Ho]; [left; exact Ho|right].
           apply in_map_iff in Ho. destruct Ho as [n [<- Hn]]. cbn. apply OK. exact Hn.
        -- intros m Hm. apply in_rn_parts in Hm. cbn in Hm. destruct Hm as [Hm|[Hm|[Hm|Hm]]].
           ++ left. apply in_rn_parts. auto.
           ++ left. apply in_rn_parts. auto.
           ++ left. apply in_rn_parts. auto.
           ++ right. split; [|apply OK; exact Hm]. apply (fold_put_has (fun n => n) (fun _ => FSst [])). exact Hm.
  - destruct r as [| | |removed added]; try exact S.
    (* swap: the change set is applied *)
    cbn [step_ok] in OK.
    assert (fs_mono (g_fs w) (fold_left (fun f a => fs_put f (fst a) (FSst (snd a))) added (g_fs w))) as M
      by apply (fold_put_mono (fun a => fst a) (fun a => FSst (snd a))).
    assert (ck_same (g_fs w) (fold_left (fun f a => fs_put f (fst a) (FSst (snd a))) added (g_fs w))) as C.
    { apply (fold_put_ck_same (fun a => fst a) (fun a => FSst (snd a))). intros n Hn. rewrite (OK n Hn). discriminate. }
    eapply safe_local; try eassumption; try easy_side.
    + apply (fold_put_no_ck (fun a => fst a) (fun a : fname * list entry => FSst (snd a))). intros n docs. discriminate.
    + intros _ SD. eapply safe_db_step; try eassumption; try easy_side.
      intros m Hm. apply in_rn_parts in Hm. cbn in Hm. destruct Hm as [Hm|[Hm|[Hm|Hm]]].
      * rewrite map_app in Hm. apply in_app_or in Hm. destruct Hm as [Hm|Hm].
        -- left. apply in_rn_parts. left. apply in_map_iff in Hm. destruct Hm as [t [<- Ht]]. apply filter_In in Ht. apply in_map. apply Ht.
        -- right. rewrite map_map in Hm. cbn in Hm. apply in_map_iff in Hm. destruct Hm as [p [<- Hp]].
           split; [|apply OK; exact Hp]. apply (fold_put_has (fun a => fst a) (fun a => FSst (snd a))). exact Hp.
      * left. apply in_rn_parts. auto.
      * left. apply in_rn_parts. auto.
      * destruct Hm.
  - (* end *)
    destruct (x_compq x) as [|q];
      (eapply safe_local0; try eassumption; try easy_side;
       intros _ SD; eapply safe_db_step; try eassumption; try easy_side;
       intros m Hm; left; apply in_rn_parts in Hm; apply in_rn_parts; rewrite Cm; cbn in Hm; tauto).
Qed.

From Coq Require Import Permutation.

Lemma nodup_insert {A} (a b : list A) (r : A) : NoDup (a ++ b) -> ~ In r (a ++ b) -> NoDup (a ++ r :: b).
Proof.
  intros N NI. apply (Permutation_NoDup (l := r :: a ++ b)); [apply Permutation_middle|]. constructor; assumption.
Qed.

Lemma safe_step_ckpt_call w d id : Safe w -> step_ok w (OCkpt d id) -> Safe (step w (OCkpt d id)).
Proof.
  intros S OK. cbn [step]. destruct (get_db w d) as [x|] eqn:G; [|exact S].
  cbn [step_ok] in OK. destruct (OK x G) as [_ OK']. clear OK. rename OK' into OK.
  cbn [db_checkpoint].
  set (rec := mkCk id (d_tables (x_core x)) (x_dir x, 1, w_id (d_wal (x_core x))) (wal_content (d_wal (x_core x))) (d_latest (x_core x)) (d_seq (x_core x)) []).
  eapply safe_local0; try eassumption; try easy_side.
  intros _ SD. destruct SD.
  assert (forall c n, In c (recs x) -> In n (c_allw c) -> n <> c_wal rec) as WN.
  { intros c n Hc [<-|Hn] E.
    - specialize (sd_walid0 c Hc). rewrite E in sd_walid0. cbn in sd_walid0. specialize (sd_walid0 eq_refl). lia.
    - destruct (sd_kx0 c n Hc Hn) as [_ ND]. apply ND. rewrite E. reflexivity. }
  constructor; cbn [with_ck with_core x_dir x_ckpts x_pending x_cktasks x_objs x_core].
  - intros n Hn. apply sd_reach0. apply in_rn_parts in Hn. apply in_rn_parts. cbn in Hn.
    destruct Hn as [Hn|[Hn|[Hn|Hn]]]; auto. unfold recs in Hn. cbn in Hn.
    rewrite <- app_assoc in Hn. rewrite flat_map_app in Hn. apply in_app_or in Hn. destruct Hn as [Hn|Hn].
    + right. left. unfold recs. rewrite flat_map_app. apply in_or_app. left. exact Hn.
    + cbn [app flat_map c_tabs] in Hn. apply in_app_or in Hn. destruct Hn as [Hn|Hn]; [left; exact Hn|].
      right. left. unfold recs. rewrite flat_map_app. apply in_or_app. right. exact Hn.
  - intros docs id0 dd Gd Fd Hh ND. destruct (sd_docs0 docs id0 dd Gd Fd Hh ND) as [c [Hc A]]. exists c. split; [|exact A].
    unfold recs in *. cbn. apply in_app_or in Hc. rewrite <- app_assoc. apply in_or_app. destruct Hc; [left; assumption|right; right; assumption].
  - unfold recs. cbn. rewrite <- app_assoc. cbn [app]. rewrite map_app. cbn [map]. apply nodup_insert.
    + rewrite <- map_app. exact sd_ids0.
    + rewrite <- map_app. exact OK.
  - unfold recs. cbn. rewrite <- app_assoc. cbn [app]. rewrite flat_map_app. cbn [flat_map c_allw c_wal c_xw rec app]. apply nodup_insert.
    + rewrite <- flat_map_app. exact sd_wals0.
    + rewrite <- flat_map_app. intro H. apply in_flat_map in H. destruct H as [c [Hc Hn]]. exact (WN c _ Hc Hn eq_refl).
  - intros c Hc. unfold recs in Hc. cbn in Hc. rewrite <- app_assoc in Hc. apply in_app_or in Hc.
    destruct Hc as [Hc|[<-|Hc]]; [apply sd_kw0; unfold recs; apply in_or_app; auto|reflexivity|apply sd_kw0; unfold recs; apply in_or_app; auto].
  - intros c n Hc Hn. unfold recs in Hc. cbn in Hc. rewrite <- app_assoc in Hc. apply in_app_or in Hc.
    destruct Hc as [Hc|[<-|Hc]]; [apply (sd_kx0 c n); [unfold recs; apply in_or_app; auto|exact Hn]|destruct Hn|apply (sd_kx0 c n); [unfold recs; apply in_or_app; auto|exact Hn]].
  - exact sd_ko0.
  - intros n Hn. apply sd_kt0. apply in_rn_parts in Hn. apply in_rn_parts. cbn in Hn.
    destruct Hn as [Hn|[Hn|[Hn|Hn]]]; auto. unfold recs in Hn. cbn in Hn.
    rewrite <- app_assoc in Hn. rewrite flat_map_app in Hn. apply in_app_or in Hn. destruct Hn as [Hn|Hn].
    + right. left. unfold recs. rewrite flat_map_app. apply in_or_app. left. exact Hn.
    + cbn [app flat_map c_tabs] in Hn. apply in_app_or in Hn. destruct Hn as [Hn|Hn]; [left; exact Hn|].
      right. left. unfold recs. rewrite flat_map_app. apply in_or_app. right. exact Hn.
  - intros c Hc E. unfold recs in Hc. cbn in Hc. rewrite <- app_assoc in Hc. apply in_app_or in Hc. cbn [d_wal wal_rotate w_id].
    destruct Hc as [Hc|[<-|Hc]].
    + assert (In c (recs x)) as Hr by (unfold recs; apply in_or_app; auto). specialize (sd_walid0 c Hr E). lia.
    + cbn. lia.
    + assert (In c (recs x)) as Hr by (unfold recs; apply in_or_app; auto). specialize (sd_walid0 c Hr E). lia.
  - intros id0 H ND. apply in_app_or in H. destruct H as [H|[H|[]]]; [|discriminate].
    destruct (sd_inflight0 id0 H ND) as [c [Hc [E Hf]]]. exists c. split; [|auto].
    unfold recs in *. cbn. apply in_app_or in Hc. rewrite <- app_assoc. apply in_or_app. destruct Hc; [left; assumption|right; right; assumption].
Qed.

(* ------------------------------------------------------------------ CheckpointList.Save, part 1: the checkpoints file is written *)
Lemma agrees_doc_of c : agrees (doc_of c) c.
Proof. unfold agrees, doc_of. cbn. repeat split. intros n Hn. rewrite map_map in Hn. exact Hn. Qed.

Lemma find_doc_in docs id d : find_doc docs id = Some d -> In d docs /\ dc_id d = id.
Proof. unfold find_doc. intro H. apply find_some in H. destruct H as [H1 H2]. split; [exact H1|]. apply N.eqb_eq. exact H2. Qed.

Lemma find_doc_map (l : list ckrec) c : NoDup (map c_id l) -> In c l -> find_doc (map doc_of l) (c_id c) = Some (doc_of c).
Proof.
  induction l as [|a l IH]; intros N H; [destruct H|]. cbn [map find_doc find]. unfold find_doc in *. cbn [map find doc_of dc_id].
  inversion N as [|? ? NI N']; subst. destruct H as [->|H].
  - rewrite N.eqb_refl. reflexivity.
  - destruct (c_id a =? c_id c) eqn:E.
    + apply N.eqb_eq in E. exfalso. apply NI. rewrite E. apply in_map. exact H.
    + apply IH; assumption.
Qed.

Lemma find_doc_map_some (l : list ckrec) id d : find_doc (map doc_of l) id = Some d -> exists c, In c l /\ d = doc_of c /\ c_id c = id.
Proof.
  intro H. apply find_doc_in in H. destruct H as [H E]. apply in_map_iff in H. destruct H as [c [<- Hc]]. exists c. auto.
Qed.

Lemma nodup_app_l {A} (a b : list A) : NoDup (a ++ b) -> NoDup a.
Proof. induction a as [|x a IH]; intro N; [constructor|]. inversion N; subst. constructor; [intro H; apply H1; apply in_or_app; auto|apply IH; assumption]. Qed.
Lemma nodup_app_disj {A} (a b : list A) x : NoDup (a ++ b) -> In x a -> In x b -> False.
Proof.
  induction a as [|y a IH]; intros N Ha Hb; [destruct Ha|]. inversion N; subst. destruct Ha as [->|Ha].
  - apply H1. apply in_or_app. auto.
  - apply IH; assumption.
Qed.

Lemma get_db_save_write w x d : get_db (save_write w x) d = get_db w d.
Proof. reflexivity. Qed.

Lemma safe_save_write w d x :
  Safe w -> get_db w d = Some x -> x_state x = Live -> Safe (save_write w x).
Proof.
  intros S G L. pose proof (sf_db w S _ x G L) as SD. destruct S.
  set (f' := fs_put (g_fs w) (x_dir x, 2, 0) (FCk (map doc_of (x_ckpts x)))).
  assert (fs_mono (g_fs w) f') as M by apply fs_mono_put.
  assert (forall n, n <> (x_dir x, 2, 0) -> fs_get f' n = fs_get (g_fs w) n) as GO.
  { intros n NE. apply fs_get_put_other. apply fname_eqb_false. exact NE. }
  constructor; cbn [save_write add_dropped set_fs g_fs g_dbs g_handles g_dropped g_nextdir]; fold f'.
  - intros i y Hy Ly. destruct (Nat.eq_dec i (N.to_nat d)) as [->|NE].
    + rewrite get_db_nth in G. rewrite G in Hy. inversion Hy; subst y.
      destruct SD. constructor; try assumption.
      * intros n H. apply M, sd_reach0, H.
      * intros docs id dd Gd Fd Hh ND. unfold f' in Gd. rewrite fs_get_put_same in Gd. inversion Gd; subst docs.
        destruct (find_doc_map_some _ _ _ Fd) as [c [Hc [-> _]]]. exists c. split; [unfold recs; apply in_or_app; auto|apply agrees_doc_of].
      * intros id H ND. destruct (sd_inflight0 id H) as [c [Hc [E Hf]]]; [intro H1; apply ND; apply in_or_app; auto|].
        exists c. repeat split; try assumption. apply M, Hf.
    + assert (x_dir y <> x_dir x) as DN.
      { intro E. apply NE. rewrite get_db_nth in G. exact (sf_writer0 _ _ _ _ Hy G Ly L E). }
      eapply safe_db_mono'; [apply (sf_db0 _ _ Hy Ly)|exact M| |intros id H; apply in_or_app; auto].
      apply GO. congruence.
  - intros id D Hh ND. assert (~ In id (g_dropped w)) as ND0 by (intro H; apply ND; apply in_or_app; auto).
    destruct (sf_handles0 id D Hh ND0) as [docs [dd [G1 [G2 G3]]]].
    destruct (N.eq_dec D (x_dir x)) as [->|NE].
    + destruct SD. destruct (sd_docs0 docs id dd G1 G2 Hh ND0) as [c [Hc [A1 [A2 A3]]]].
      assert (c_id c = id) as Eid by (destruct (find_doc_in _ _ _ G2); congruence).
      unfold recs in Hc. apply in_app_or in Hc. destruct Hc as [Hc|Hc].
      * exists (map doc_of (x_ckpts x)), (doc_of c). split; [unfold f'; apply fs_get_put_same|]. split.
        -- rewrite <- Eid. apply find_doc_map; [|exact Hc]. unfold recs in sd_ids0. rewrite map_app in sd_ids0. eapply nodup_app_l. exact sd_ids0.
        -- intros n Hn. apply M. unfold doc_files in *. cbn [doc_of dc_wal dc_tables] in Hn. rewrite map_map in Hn. cbn in Hn.
           destruct Hn as [Hn|Hn]; [apply G3; left; rewrite A2; exact Hn|].
           apply sd_reach0. apply in_rn_parts. right. left. apply in_flat_map. exists c. split; [unfold recs; apply in_or_app; auto|exact Hn].
      * exfalso. apply ND. apply in_or_app. right. rewrite <- Eid. apply in_map. exact Hc.
    + exists docs, dd. split; [rewrite GO by congruence; exact G1|]. split; [exact G2|]. intros n Hn. apply M, G3, Hn.
  - exact sf_writer0.
  - exact sf_dirs0.
  - exact sf_hdirs0.
  - intros n docs dd Gn Hd. destruct (fname_eqb n (x_dir x, 2, 0)) eqn:E.
    + apply fname_eqb_eq in E. subst n. unfold f' in Gn. rewrite fs_get_put_same in Gn. inversion Gn; subst docs.
      apply in_map_iff in Hd. destruct Hd as [c [<- Hc]]. destruct SD. cbn [doc_of dc_wal dc_tables dc_xw]. split; [|split].
      * apply sd_kw0. unfold recs. apply in_or_app. auto.
      * intros t Ht. apply in_map_iff in Ht. destruct Ht as [tb [<- Htb]]. cbn. apply sd_kt0. apply in_rn_parts. right. left.
        apply in_flat_map. exists c. split; [unfold recs; apply in_or_app; auto|apply in_map; exact Htb].
      * intros m Hm. apply (sd_kx0 c m); [unfold recs; apply in_or_app; auto|exact Hm].
    + unfold f' in Gn. rewrite fs_get_put_other in Gn by exact E. eapply sf_kinds0; eassumption.
Qed.

(* ------------------------------------------------------------------ CheckpointList.Save, part 2: Destroy of the pending removals *)
Lemma fold_del_get_other names : forall f m, mem_name m names = false -> fs_get (fold_left fs_del names f) m = fs_get f m.
Proof.
  induction names as [|n names IH]; intros f m H; [reflexivity|]. cbn [fold_left]. cbn [mem_name existsb] in H.
  apply orb_false_iff in H. destruct H as [H1 H2]. rewrite IH by exact H2. apply fs_get_del_other. exact H1.
Qed.
Lemma fs_get_del_some f n m c : fs_get (fs_del f n) m = Some c -> fs_get f m = Some c.
Proof.
  destruct (fname_eqb m n) eqn:E.
  - apply fname_eqb_eq in E. subst. rewrite fs_get_del_same. discriminate.
  - rewrite fs_get_del_other by exact E. auto.
Qed.
Lemma fold_del_get_some names : forall f m c, fs_get (fold_left fs_del names f) m = Some c -> fs_get f m = Some c.
Proof.
  induction names as [|n names IH]; intros f m c H; [exact H|]. cbn [fold_left] in H. apply IH in H. eapply fs_get_del_some. exact H.
Qed.
Lemma mem_name_false n l : (forall m, In m l -> m <> n) -> mem_name n l = false.
Proof.
  intro H. destruct (mem_name n l) eqn:E; [|reflexivity]. apply mem_name_in in E. exfalso. exact (H n E eq_refl).
Qed.
Lemma fs_has_get f f' n : fs_get f' n = fs_get f n -> fs_has f' n = fs_has f n.
Proof. unfold fs_has. intros ->. reflexivity. Qed.

Lemma safe_destroy w d x :
  Safe w -> get_db w d = Some x -> x_state x = Live ->
  (forall c, In c (x_pending x) -> In (c_id c) (g_dropped w)) ->
  (forall c n, In c (x_pending x) -> In n (c_allw c) -> ~ protects w (N.to_nat d) n) ->
  Safe (set_db (fst (save_destroy w x)) d (snd (save_destroy w x))).
Proof.
  intros S G L DR MON. pose proof (sf_db w S _ x G L) as SD. pose proof G as G'. rewrite get_db_nth in G'. destruct S.
  unfold save_destroy. cbn [fst snd].
  set (W := flat_map c_allw (x_pending x)). set (f' := fold_left fs_del W (g_fs w)).
  assert (forall n, (forall c m, In c (x_pending x) -> In m (c_allw c) -> m <> n) -> fs_get f' n = fs_get (g_fs w) n) as KEEP.
  { intros n H. apply fold_del_get_other. apply mem_name_false. intros m Hm. apply in_flat_map in Hm. destruct Hm as [c [Hc Hm]]. eapply H; eassumption. }
  assert (forall c m, In c (x_pending x) -> In m (c_allw c) -> kind m = 1) as KW1.
  { intros c m Hc [<-|Hm]; destruct SD; [apply sd_kw0|apply (sd_kx0 c m)]; try assumption; unfold recs; apply in_or_app; auto. }
  assert (forall n, kind n <> 1 -> fs_get f' n = fs_get (g_fs w) n) as KEEPK.
  { intros n K. apply KEEP. intros c m Hc Hm E. apply K. rewrite <- E. eapply KW1; eassumption. }
  assert (forall n, protects w (N.to_nat d) n -> fs_get f' n = fs_get (g_fs w) n) as KEEPP.
  { intros n P. apply KEEP. intros c m Hc Hm E. apply (MON c m Hc Hm). rewrite E. exact P. }
  assert (forall c, In c (x_ckpts x) -> forall p m, In p (x_pending x) -> In m (c_allw p) -> m <> c_wal c) as NWK.
  { intros c Hc p m Hp Hm E. destruct SD. unfold recs in sd_wals0. rewrite flat_map_app in sd_wals0.
    eapply (nodup_app_disj _ _ (c_wal c) sd_wals0).
    - apply in_flat_map. exists c. split; [exact Hc|left; reflexivity].
    - rewrite <- E. apply in_flat_map. exists p. auto. }
  constructor; cbn [set_db set_fs g_fs g_dbs g_handles g_dropped g_nextdir]; fold f'.
  - intros i y Hy Ly. destruct (upd_nth_inv _ _ _ _ _ Hy) as [z [Hz [[E1 E2]|[E1 E2]]]]; subst.
    + (* the acting object *)
      destruct SD. constructor; cbn [with_ck x_dir x_ckpts x_pending x_cktasks x_objs x_core].
      * intros n Hn. assert (In n (rn x)) as Hn0.
        { apply in_rn_parts in Hn. apply in_rn_parts. cbn in Hn. unfold recs in *. cbn in Hn. rewrite app_nil_r in Hn.
          destruct Hn as [Hn|[Hn|[Hn|Hn]]]; auto. right. left. rewrite flat_map_app. apply in_or_app. auto. }
        rewrite (fs_has_get _ _ _ (KEEPK n ltac:(rewrite (sd_kt0 n Hn0); discriminate))). apply sd_reach0. exact Hn0.
      * intros docs id dd Gd Fd Hh ND. rewrite KEEPK in Gd by (cbn; discriminate).
        destruct (sd_docs0 docs id dd Gd Fd Hh ND) as [c [Hc A]]. exists c. split; [|exact A].
        unfold recs in *. cbn. rewrite app_nil_r. apply in_app_or in Hc. destruct Hc as [Hc|Hc]; [exact Hc|].
        exfalso. apply ND. destruct A as [A1 _]. destruct (find_doc_in _ _ _ Fd) as [_ E]. rewrite <- E, A1. apply DR. exact Hc.
      * unfold recs in *. cbn. rewrite app_nil_r. rewrite map_app in sd_ids0. eapply nodup_app_l. exact sd_ids0.
      * unfold recs in *. cbn. rewrite app_nil_r. rewrite flat_map_app in sd_wals0. eapply nodup_app_l. exact sd_wals0.
      * intros c Hc. apply sd_kw0. unfold recs in *. cbn in Hc. rewrite app_nil_r in Hc. apply in_or_app. auto.
      * intros c n Hc. apply sd_kx0. unfold recs in *. cbn in Hc. rewrite app_nil_r in Hc. apply in_or_app. auto.
      * exact sd_ko0.
      * intros n Hn. apply sd_kt0. apply in_rn_parts in Hn. apply in_rn_parts. cbn in Hn. unfold recs in *. cbn in Hn. rewrite app_nil_r in Hn.
        destruct Hn as [Hn|[Hn|[Hn|Hn]]]; auto. right. left. rewrite flat_map_app. apply in_or_app. auto.
      * intros c Hc. apply sd_walid0. unfold recs in *. cbn in Hc. rewrite app_nil_r in Hc. apply in_or_app. auto.
      * intros id H ND. destruct (sd_inflight0 id H ND) as [c [Hc [E Hf]]].
        unfold recs in Hc. apply in_app_or in Hc. destruct Hc as [Hc|Hc]; [|exfalso; apply ND; rewrite <- E; apply DR; exact Hc].
        exists c. split; [unfold recs; cbn; rewrite app_nil_r; exact Hc|]. split; [exact E|].
        rewrite (fs_has_get _ _ _ (KEEP _ (NWK c Hc))). exact Hf.
    + (* every other live object is protected by the monitor *)
      pose proof (sf_db0 _ _ Hz Ly) as SY. destruct SY.
      assert (forall n, In n (rn z) \/ (exists c id, In c (recs z) /\ c_id c = id /\ In (id, true) (x_cktasks z) /\ n = c_wal c) \/ n = (x_dir z, 2, 0) ->
              fs_get f' n = fs_get (g_fs w) n) as PY.
      { intros n H. apply KEEPP. left. exists i, z. repeat split; assumption. }
      constructor; try assumption.
      * intros n Hn. rewrite (fs_has_get _ _ _ (PY n (or_introl Hn))). apply sd_reach0. exact Hn.
      * intros docs id dd Gd. rewrite PY in Gd by auto. apply sd_docs0. exact Gd.
      * intros id H ND. destruct (sd_inflight0 id H ND) as [c [Hc [E Hf]]]. exists c. repeat split; try assumption.
        assert (In (c_wal c) (rn z) \/ (exists c0 id0, In c0 (recs z) /\ c_id c0 = id0 /\ In (id0, true) (x_cktasks z) /\ c_wal c = c_wal c0) \/ c_wal c = (x_dir z, 2, 0)) as PW
          by (right; left; exists c, id; auto).
        rewrite (fs_has_get _ _ _ (PY _ PW)). exact Hf.
  - (* completed handles *)
    intros id D Hh ND. destruct (sf_handles0 id D Hh ND) as [docs [dd [G1 [G2 G3]]]]. exists docs, dd.
    destruct (N.eq_dec D (x_dir x)) as [->|NE].
    + destruct SD. destruct (sd_docs0 docs id dd G1 G2 Hh ND) as [c [Hc [A1 [A2 A3]]]].
      assert (In c (x_ckpts x)) as Hck.
      { unfold recs in Hc. apply in_app_or in Hc. destruct Hc as [Hc|Hc]; [exact Hc|].
        exfalso. apply ND. destruct (find_doc_in _ _ _ G2) as [_ E]. rewrite <- E, A1. apply DR. exact Hc. }
      split; [rewrite KEEPK by (cbn; discriminate); exact G1|]. split; [exact G2|].
      intros n Hn. assert (forall p m, In p (x_pending x) -> In m (c_allw p) -> m <> n) as NW; [|rewrite (fs_has_get _ _ _ (KEEP _ NW)); apply G3; exact Hn].
      intros p m Hp Hm Ew. unfold doc_files in Hn. destruct Hn as [Hn|Hn].
      * apply (NWK c Hck p m Hp Hm). rewrite Ew, <- Hn. exact A2.
      * apply A3 in Hn. assert (kind n = 0) as K0.
        { apply sd_kt0. apply in_rn_parts. right. left. apply in_flat_map. exists c. split; [exact Hc|exact Hn]. }
        pose proof (KW1 p m Hp Hm) as K1. rewrite Ew in K1. lia.
    + assert (forall n, In n (doc_files dd) \/ n = (D, 2, 0) -> fs_get f' n = fs_get (g_fs w) n) as PH.
      { intros n H. apply KEEPP. right. exists id, D, docs, dd. repeat split; try assumption.
        intros [x0 [Hx0 [_ Ex0]]]. rewrite G' in Hx0. inversion Hx0; subst. apply NE. reflexivity. }
      split; [rewrite PH by auto; exact G1|]. split; [exact G2|].
      intros n Hn. rewrite (fs_has_get _ _ _ (PH n (or_introl Hn))). apply G3. exact Hn.
  - intros i j a b Ha Hb La Lb E.
    destruct (upd_nth_inv _ _ _ _ _ Ha) as [za [Hza Ca]]. destruct (upd_nth_inv _ _ _ _ _ Hb) as [zb [Hzb Cb]].
    assert (x_dir a = x_dir za /\ x_state a = x_state za) as [Da Sa].
    { destruct Ca as [[-> ->]|[_ ->]]; [|auto]. rewrite G' in Hza. inversion Hza; subst. auto. }
    assert (x_dir b = x_dir zb /\ x_state b = x_state zb) as [Db Sb].
    { destruct Cb as [[-> ->]|[_ ->]]; [|auto]. rewrite G' in Hzb. inversion Hzb; subst. auto. }
    apply (sf_writer0 i j za zb Hza Hzb); congruence.
  - intros i a Ha La. destruct (upd_nth_inv _ _ _ _ _ Ha) as [za [Hza Ca]].
    destruct Ca as [[-> ->]|[_ ->]]; [|apply (sf_dirs0 _ _ Hza La)]. cbn. apply (sf_dirs0 _ _ G' L).
  - exact sf_hdirs0.
  - intros n docs dd Gn. apply (sf_kinds0 n docs dd). eapply fold_del_get_some. exact Gn.
Qed.

(* ------------------------------------------------------------------ RetainOnly: checkpoints move from the list to the pending removals *)
Lemma perm_partition {A} (p : A -> bool) (l : list A) : Permutation l (filter p l ++ filter (fun x => negb (p x)) l).
Proof.
  induction l as [|a l IH]; [constructor|]. cbn [filter]. destruct (p a); cbn [negb app].
  - constructor. exact IH.
  - eapply perm_trans; [constructor; exact IH|]. apply Permutation_middle.
Qed.

Lemma recs_retain_perm x ids : Permutation (recs x) (recs (retain_x1 x ids)).
Proof.
  unfold recs, retain_x1. cbn [with_ck x_ckpts x_pending].
  eapply perm_trans; [apply Permutation_app_tail; apply (perm_partition (retain_keeps ids))|].
  rewrite <- app_assoc. apply Permutation_app_head. apply Permutation_app_comm.
Qed.

Lemma safe_retain_rearrange w d x ids :
  Safe w -> get_db w d = Some x -> Safe (set_db w d (retain_x1 x ids)).
Proof.
  intros S G. eapply safe_local0; try eassumption; try easy_side.
  intros _ SD. pose proof (recs_retain_perm x ids) as P.
  assert (forall c, In c (recs (retain_x1 x ids)) <-> In c (recs x)) as IE.
  { intro c. split; intro H; [eapply Permutation_in; [apply Permutation_sym; exact P|exact H]|eapply Permutation_in; [exact P|exact H]]. }
  assert (forall n, In n (rn (retain_x1 x ids)) <-> In n (rn x)) as RE.
  { intro n. rewrite !in_rn_parts. cbn [retain_x1 with_ck x_core x_flush x_comp].
    assert (In n (flat_map (fun c => map t_name (c_tabs c)) (recs (retain_x1 x ids))) <-> In n (flat_map (fun c => map t_name (c_tabs c)) (recs x))) as FE.
    { rewrite !in_flat_map. split; intros [c [Hc Hn]]; exists c; (split; [apply IE; exact Hc|exact Hn]). }
    tauto. }
  destruct SD. constructor; cbn [retain_x1 with_ck x_dir x_cktasks x_objs x_core].
  - intros n H. apply sd_reach0, RE, H.
  - intros docs id dd Gd Fd Hh ND. destruct (sd_docs0 docs id dd Gd Fd Hh ND) as [c [Hc A]]. exists c. split; [apply IE; exact Hc|exact A].
  - eapply Permutation_NoDup; [apply Permutation_map; exact P|exact sd_ids0].
  - eapply Permutation_NoDup; [apply Permutation_flat_map; exact P|exact sd_wals0].
  - intros c Hc. apply sd_kw0, IE, Hc.
  - intros c n Hc. apply sd_kx0, IE, Hc.
  - exact sd_ko0.
  - intros n H. apply sd_kt0, RE, H.
  - intros c Hc. apply sd_walid0, IE, Hc.
  - intros id H ND. destruct (sd_inflight0 id H ND) as [c [Hc R]]. exists c. split; [apply IE; exact Hc|exact R].
Qed.

(* removing a finished task from the task list *)
Lemma safe_task_removed w d x id :
  Safe w -> get_db w d = Some x -> Safe (set_db w d (ckpt_x1 x id)).
Proof.
  intros S G. eapply safe_local0; try eassumption; try easy_side.
  intros _ SD. eapply safe_db_step; try eassumption; try easy_side.
  cbn. intros id0 H. left. apply filter_In in H. apply H.
Qed.

(* ------------------------------------------------------------------ assembling Save *)
Lemma upd_upd {A} (l : list A) i x y : upd (upd l i x) i y = upd l i y.
Proof. revert i. induction l as [|a l IH]; intros [|i]; cbn; try reflexivity. f_equal. apply IH. Qed.

Lemma get_set_db_same w d x x' : get_db w d = Some x -> get_db (set_db w d x') d = Some x'.
Proof. unfold get_db, set_db. cbn. intro H. eapply nth_upd_same. exact H. Qed.

Definition pending_empty (x : wdb) : bool := match x_pending x with [] => true | _ => false end.

Lemma save_list_f_result w d x1 f :
  set_db (fst (fst (save_list_f w x1 f))) d (snd (fst (save_list_f w x1 f))) =
  if f =? 1 then set_db w d x1
  else if (f =? 2) && negb (pending_empty x1) then save_write (set_db w d x1) x1
  else set_db (fst (save_destroy (save_write (set_db w d x1) x1) x1)) d (snd (save_destroy (save_write (set_db w d x1) x1) x1)).
Proof.
  unfold save_list_f, pending_empty. destruct (f =? 1); [reflexivity|].
  destruct ((f =? 2) && negb (match x_pending x1 with [] => true | _ => false end)); cbn [fst snd].
  - destruct w; reflexivity.
  - destruct w. unfold save_destroy, save_write, set_db, set_fs, add_dropped. cbn. rewrite upd_upd. reflexivity.
Qed.

Lemma save_list_f_ok w x1 f :
  snd (save_list_f w x1 f) = if f =? 1 then false else if (f =? 2) && negb (pending_empty x1) then false else true.
Proof.
  unfold save_list_f, pending_empty. destruct (f =? 1); [reflexivity|].
  destruct ((f =? 2) && negb (match x_pending x1 with [] => true | _ => false end)); reflexivity.
Qed.

(* the acting object's own entry does not matter for what it must not touch, as long as directory and state agree *)
Lemma protects_self w d x x1 n :
  get_db w d = Some x -> x_dir x1 = x_dir x -> x_state x1 = x_state x ->
  protects (save_write (set_db w d x1) x1) (N.to_nat d) n -> protects (save_write w x1) (N.to_nat d) n.
Proof.
  intros G Dr St [[j [y [NE [Hy R]]]]|[id [D [docs [dd [Hh [ND [G1 [G2 [Hn EX]]]]]]]]]].
  - left. exists j, y. split; [exact NE|]. split; [|exact R]. cbn in Hy |- *. rewrite nth_upd_other in Hy by congruence. exact Hy.
  - right. exists id, D, docs, dd. repeat split; try assumption. intros [x0 [Hx0 [L0 D0]]]. apply EX.
    exists x1. cbn in Hx0 |- *. rewrite get_db_nth in G. rewrite G in Hx0. inversion Hx0; subst x0.
    split; [eapply nth_upd_same; exact G|]. split; congruence.
Qed.

Lemma safe_save w d x x1 f :
  Safe (set_db w d x1) -> get_db w d = Some x -> x_state x = Live -> x_dir x1 = x_dir x -> x_state x1 = x_state x ->
  (snd (save_list_f w x1 f) = true -> destroy_ok w d x1) ->
  Safe (set_db (fst (fst (save_list_f w x1 f))) d (snd (fst (save_list_f w x1 f)))).
Proof.
  intros S G L Dr St MON. rewrite save_list_f_result. rewrite save_list_f_ok in MON.
  pose proof (get_set_db_same w d x x1 G) as G1. assert (x_state x1 = Live) as L1 by congruence.
  destruct (f =? 1); [exact S|].
  destruct ((f =? 2) && negb (pending_empty x1)).
  - eapply safe_save_write; eassumption.
  - apply safe_destroy.
    + eapply safe_save_write; eassumption.
    + exact G1.
    + exact L1.
    + intros c Hc. cbn. apply in_or_app. right. apply in_map. exact Hc.
    + intros c n Hc Hn P. apply (MON eq_refl c n Hc Hn). eapply protects_self; eassumption.
Qed.

Lemma safe_step_retain w d ids f :
  Safe w ->
  (forall x, get_db w d = Some x -> x_state x = Live /\ (snd (save_list_f w (retain_x1 x ids) f) = true -> destroy_ok w d (retain_x1 x ids))) ->
  Safe (step_retain w d ids f).
Proof.
  intros S OK. unfold step_retain. destruct (get_db w d) as [x|] eqn:G; [|exact S].
  destruct (OK x eq_refl) as [L MON].
  destruct (filter (retain_keeps ids) (x_ckpts x)) as [|k0 ks] eqn:FK; [exact S|]. rewrite <- FK. fold (retain_x1 x ids).
  pose proof (safe_save w d x (retain_x1 x ids) f (safe_retain_rearrange w d x ids S G) G L eq_refl eq_refl MON) as R.
  destruct (save_list_f w (retain_x1 x ids) f) as [[w1 x2] ok]. exact R.
Qed.

(* ------------------------------------------------------------------ the asynchronous part of Checkpoint *)
Lemma upd_same {A} (l : list A) i x : nth_error l i = Some x -> upd l i x = l.
Proof. revert i. induction l as [|a l IH]; intros [|i] H; cbn in *; try discriminate; [inversion H; reflexivity|f_equal; apply IH; exact H]. Qed.
Lemma set_db_same w d x : get_db w d = Some x -> set_db w d x = w.
Proof. intro G. unfold set_db. rewrite (upd_same _ _ _ G). destruct w; reflexivity. Qed.

Lemma fs_put_no_ck f n c m docs : (forall ds, c <> FCk ds) -> fs_get (fs_put f n c) m = Some (FCk docs) -> fs_get f m = Some (FCk docs).
Proof.
  intros NC H. destruct (fname_eqb m n) eqn:E.
  - apply fname_eqb_eq in E. subst. rewrite fs_get_put_same in H. inversion H. exfalso. eapply NC. eassumption.
  - rewrite fs_get_put_other in H by exact E. exact H.
Qed.

(* the WAL save *)
Lemma safe_wal_saved w d x id c :
  Safe w -> get_db w d = Some x -> x_state x = Live -> In c (recs x) -> c_id c = id ->
  Safe (set_db (set_fs w (fs_put (g_fs w) (c_wal c) (FWal (c_content c)))) d
               (with_ck x (x_ckpts x) (x_pending x) (map (fun t => if fst t =? id then (id, true) else t) (x_cktasks x)))).
Proof.
  intros S G L Hc E. pose proof (sf_db w S _ x G L) as SD.
  assert (kind (c_wal c) = 1) as K by (destruct SD; auto).
  eapply safe_local; try eassumption; try easy_side.
  - apply fs_mono_put.
  - apply ck_same_put. rewrite K. discriminate.
  - intros n docs. apply fs_put_no_ck. intros ds. discriminate.
  - intros _ SD'. eapply safe_db_step; try eassumption; try easy_side.
    + apply fs_mono_put.
    + apply ck_same_put. rewrite K. discriminate.
    + cbn. intros id0 H. apply in_map_iff in H. destruct H as [[i b] [Eq Ht]]. cbn in Eq.
      destruct (i =? id) eqn:Ei.
      * inversion Eq; subst id0. right. exists c. split; [exact Hc|]. split; [exact E|apply fs_has_put_same].
      * inversion Eq; subst. left. exact Ht.
Qed.

Lemma save_list_f_task w x id f :
  fst (fst (save_list_f w (ckpt_x1 x id) f)) = fst (fst (save_list_f w x f)) /\
  snd (fst (save_list_f w (ckpt_x1 x id) f)) = ckpt_x1 (snd (fst (save_list_f w x f))) id /\
  snd (save_list_f w (ckpt_x1 x id) f) = snd (save_list_f w x f).
Proof.
  unfold save_list_f. cbn [ckpt_x1 with_ck x_pending]. destruct (f =? 1); [auto|].
  destruct ((f =? 2) && negb (match x_pending x with [] => true | _ => false end)); cbn; auto.
Qed.

(* after a Save that succeeded, the checkpoints file holds exactly the documents of the list *)
Lemma save_ok_file w d x f :
  snd (save_list_f w x f) = true -> (forall c n, In c (x_pending x) -> In n (c_allw c) -> kind n = 1) ->
  fs_get (g_fs (set_db (fst (fst (save_list_f w x f))) d (snd (fst (save_list_f w x f))))) (x_dir x, 2, 0) = Some (FCk (map doc_of (x_ckpts x))) /\
  x_ckpts (snd (fst (save_list_f w x f))) = x_ckpts x /\ x_dir (snd (fst (save_list_f w x f))) = x_dir x /\
  x_state (snd (fst (save_list_f w x f))) = x_state x /\ x_cktasks (snd (fst (save_list_f w x f))) = x_cktasks x /\
  x_pending (snd (fst (save_list_f w x f))) = [] /\
  g_dropped (set_db (fst (fst (save_list_f w x f))) d (snd (fst (save_list_f w x f)))) = g_dropped w ++ map c_id (x_pending x).
Proof.
  unfold save_list_f. destruct (f =? 1); [discriminate|].
  destruct ((f =? 2) && negb (match x_pending x with [] => true | _ => false end)); [discriminate|].
  intros _ K. unfold save_destroy, save_write. cbn. repeat split.
  rewrite fold_del_get_other; [apply fs_get_put_same|].
  apply mem_name_false. intros m Hm E. apply in_flat_map in Hm. destruct Hm as [c [Hc Hm]]. specialize (K c m Hc Hm). rewrite E in K. discriminate.
Qed.

Lemma safe_add_handle w d y id :
  Safe w -> get_db w d = Some y -> x_state y = Live ->
  fs_get (g_fs w) (x_dir y, 2, 0) = Some (FCk (map doc_of (x_ckpts y))) ->
  (~ In id (g_dropped w) -> exists c, In c (x_ckpts y) /\ c_id c = id /\ fs_has (g_fs w) (c_wal c) = true) ->
  Safe (add_handle w (id, x_dir y)).
Proof.
  intros S G L FILE NEW. pose proof (sf_db w S _ y G L) as SY. rewrite get_db_nth in G. destruct S.
  constructor; cbn [add_handle g_fs g_dbs g_handles g_dropped g_nextdir].
  - intros i z Hz Lz. pose proof (sf_db0 _ _ Hz Lz) as SZ. destruct SZ. constructor; try assumption.
    intros docs id0 dd Gd Fd Hh ND. apply in_app_or in Hh. destruct Hh as [Hh|[Hh|[]]]; [eapply sd_docs0; eassumption|].
    inversion Hh; subst id0. assert (i = N.to_nat d) as -> by (eapply sf_writer0; eauto).
    rewrite G in Hz. inversion Hz; subst z. rewrite FILE in Gd. inversion Gd; subst docs.
    destruct (find_doc_map_some _ _ _ Fd) as [c [Hc [-> _]]]. exists c. split; [unfold recs; apply in_or_app; auto|apply agrees_doc_of].
  - intros id0 D Hh ND. apply in_app_or in Hh. destruct Hh as [Hh|[Hh|[]]]; [apply sf_handles0; assumption|].
    inversion Hh; subst id0 D. destruct (NEW ND) as [c [Hc [E Hf]]]. destruct SY.
    exists (map doc_of (x_ckpts y)), (doc_of c). split; [exact FILE|]. split.
    + rewrite <- E. apply find_doc_map; [|exact Hc]. unfold recs in sd_ids0. rewrite map_app in sd_ids0. eapply nodup_app_l. exact sd_ids0.
    + intros n Hn. unfold doc_files in Hn. cbn [doc_of dc_wal dc_tables] in Hn. rewrite map_map in Hn. cbn in Hn.
      destruct Hn as [<-|Hn]; [exact Hf|]. apply sd_reach0. apply in_rn_parts. right. left.
      apply in_flat_map. exists c. split; [unfold recs; apply in_or_app; auto|exact Hn].
  - exact sf_writer0.
  - exact sf_dirs0.
  - intros id0 D Hh. apply in_app_or in Hh. destruct Hh as [Hh|[Hh|[]]]; [eapply sf_hdirs0; exact Hh|]. inversion Hh; subst. eapply sf_dirs0; [exact G|exact L].
  - exact sf_kinds0.
Qed.

Lemma safe_step_ckpt w d id f :
  Safe w ->
  (forall x, get_db w d = Some x -> x_state x = Live /\ (snd (save_list_f w x f) = true -> destroy_ok w d x)) ->
  Safe (step_ckpt w d id f).
Proof.
  intros S OK. unfold step_ckpt. destruct (get_db w d) as [x|] eqn:G; [|exact S].
  destruct (OK x eq_refl) as [L MON].
  destruct (find (fun t => fst t =? id) (x_cktasks x)) as [[i0 b]|] eqn:FT; [|exact S].
  apply find_some in FT. destruct FT as [HT EI]. cbn in EI. apply N.eqb_eq in EI. subst i0.
  destruct b.
  - (* list save *)
    fold (ckpt_x1 x id).
    destruct (save_list_f_task w x id f) as [E1 [E2 E3]].
    pose proof (safe_save w d x x f) as SS. rewrite (set_db_same w d x G) in SS. specialize (SS S G L eq_refl eq_refl MON).
    destruct (save_list_f w (ckpt_x1 x id) f) as [[w1 x2] ok] eqn:SV. cbn [fst snd] in E1, E2, E3. subst w1 x2 ok.
    set (w1' := fst (fst (save_list_f w x f))) in *. set (x2' := snd (fst (save_list_f w x f))) in *.
    set (R := set_db w1' d x2') in *.
    assert (get_db R d = Some x2') as GR.
    { unfold R, get_db, set_db. cbn. eapply nth_upd_same. unfold w1'. unfold save_list_f.
      destruct (f =? 1); [exact G|]. destruct ((f =? 2) && _); cbn; exact G. }
    assert (set_db w1' d (ckpt_x1 x2' id) = set_db R d (ckpt_x1 x2' id)) as EQ
      by (unfold R, set_db; cbn; rewrite upd_upd; reflexivity).
    rewrite EQ. destruct (snd (save_list_f w x f)) eqn:OKB.
    + (* the handle is returned *)
      destruct (save_ok_file w d x f OKB) as [FILE [ECK [EDR [EST [ETK [EPD EDP]]]]]].
      { intros c n Hc [<-|Hn]; destruct (sf_db w S _ x G L); [apply sd_kw0|apply (sd_kx0 c n)]; try assumption; unfold recs; apply in_or_app; auto. }
      fold w1' x2' R in FILE, ECK, EDR, EST, ETK, EPD, EDP.
      replace (add_handle (set_db R d (ckpt_x1 x2' id)) (id, x_dir x)) with (set_db (add_handle R (id, x_dir x)) d (ckpt_x1 x2' id)) by reflexivity.
      apply safe_task_removed; [|exact GR].
      rewrite <- EDR. apply (safe_add_handle R d x2' id SS GR); [congruence|rewrite EDR, ECK; exact FILE|].
      intro ND. destruct (sf_db R SS _ x2' GR ltac:(congruence)).
      destruct (sd_inflight0 id ltac:(rewrite ETK; exact HT) ND) as [c [Hc [Ec Hf]]].
      exists c. split; [|auto]. unfold recs in Hc. rewrite EPD, app_nil_r in Hc. exact Hc.
    + apply safe_task_removed; assumption.
  - (* WAL save *)
    destruct (f =? 1).
    + apply (safe_task_removed w d x id S G).
    + destruct (find (fun c => c_id c =? id) (x_ckpts x ++ x_pending x)) as [c|] eqn:FC; [|exact S].
      apply find_some in FC. destruct FC as [Hc Ec]. apply N.eqb_eq in Ec.
      apply safe_wal_saved; assumption.
Qed.

(* ------------------------------------------------------------------ crash, drop, restore *)
Lemma safe_add_dropped w ids : Safe w -> Safe (add_dropped w ids).
Proof.
  intro S. destruct S. constructor; cbn [add_dropped g_fs g_dbs g_handles g_dropped g_nextdir]; try assumption.
  - intros i x Hx L. eapply safe_db_mono'; [apply (sf_db0 _ _ Hx L)|apply fs_mono_refl|reflexivity|intros id H; apply in_or_app; auto].
  - intros id D Hh ND. apply sf_handles0; [exact Hh|]. intro H. apply ND. apply in_or_app. auto.
Qed.

Lemma nth_app_one {A} (l : list A) x i y : nth_error (l ++ [x]) i = Some y -> nth_error l i = Some y \/ (i = length l /\ y = x).
Proof.
  intro H. destruct (Nat.lt_ge_cases i (length l)) as [Lt|Ge].
  - rewrite nth_error_app1 in H by exact Lt. auto.
  - rewrite nth_error_app2 in H by exact Ge. destruct (i - length l)%nat eqn:E; cbn in H.
    + inversion H. right. split; [lia|reflexivity].
    + destruct n; discriminate.
Qed.

Lemma safe_add_db w x b :
  Safe w ->
  (x_state x = Live ->
     safe_db (g_fs w) (g_handles w) (g_dropped w) x /\
     (forall i y, nth_error (g_dbs w) i = Some y -> x_state y = Live -> x_dir y <> x_dir x) /\
     (x_dir x < (if b : bool then g_nextdir w + 1 else g_nextdir w))) ->
  Safe (add_db w x b).
Proof.
  intros S H. destruct S. constructor; cbn [add_db g_fs g_dbs g_handles g_dropped g_nextdir].
  - intros i y Hy L. destruct (nth_app_one _ _ _ _ Hy) as [Hy'|[_ ->]]; [apply (sf_db0 _ _ Hy' L)|apply H; exact L].
  - exact sf_handles0.
  - intros i j a c Ha Hc La Lc E.
    destruct (nth_app_one _ _ _ _ Ha) as [Ha'|[Ia ->]]; destruct (nth_app_one _ _ _ _ Hc) as [Hc'|[Ic ->]].
    + eapply sf_writer0; eassumption.
    + exfalso. destruct (H Lc) as [_ [NW _]]. exact (NW _ _ Ha' La E).
    + exfalso. destruct (H La) as [_ [NW _]]. apply (NW _ _ Hc' Lc). congruence.
    + congruence.
  - intros i y Hy L. destruct (nth_app_one _ _ _ _ Hy) as [Hy'|[_ ->]].
    + specialize (sf_dirs0 _ _ Hy' L). destruct b; lia.
    + apply H. exact L.
  - intros id D Hh. specialize (sf_hdirs0 _ _ Hh). destruct b; lia.
  - exact sf_kinds0.
Qed.

Lemma replay_core_fields o es : forall d, d_tables (replay_core o d es) = d_tables d /\ w_id (d_wal (replay_core o d es)) = w_id (d_wal d).
Proof.
  induction es as [|e es IH]; intro d; [auto|]. cbn [replay_core]. destruct (owns o (e_key e)); [|apply IH].
  destruct (IH (fst (db_write d (e_key e) (e_del e) (e_val e)))) as [A B]. rewrite A, B, db_write_tables, db_write_walid. auto.
Qed.

Lemma handle_dir_in w id hd : handle_dir w id = Some hd -> In (id, hd) (g_handles w).
Proof.
  unfold handle_dir. destruct (find (fun h => fst h =? id) (g_handles w)) as [[i D]|] eqn:F; [|discriminate].
  intro H. inversion H; subst. apply find_some in F. destruct F as [F E]. cbn in E. apply N.eqb_eq in E. subst. exact F.
Qed.

Lemma safe_step_restore w nd id same o nb : Safe w -> step_ok w (ORestore nd id same o nb) -> Safe (step w (ORestore nd id same o nb)).
Proof.
  intros S [ND SAME]. cbn [step].
  set (dir := if same then match handle_dir w id with Some hd => hd | None => 0 end else g_nextdir w).
  destruct (open_from w id dir o nb) as [code|x] eqn:OP.
  - apply safe_add_db; [exact S|]. cbn. discriminate.
  - (* the handle could be opened *)
    unfold open_from in OP. destruct (handle_dir w id) as [hd|] eqn:HD; [|discriminate].
    destruct (fs_get (g_fs w) (hd, 2, 0)) as [[| |docs]|] eqn:GF; try discriminate.
    destruct (find_doc docs id) as [dd|] eqn:FD; [|discriminate].
    destruct (fs_get (g_fs w) (dc_wal dd)) as [[|content|]|] eqn:GW; try discriminate.
    destruct (wal_read content (dc_after dd)) as [| |es] eqn:WR; try discriminate.
    destruct (db_restore (g_mem w) (g_walmax w) o (map (table_of_doc (g_fs w)) (dc_tables dd)) (num_of (dc_wal dd)) es) as [core rots] eqn:DR.
    inversion OP; subst x. clear OP.
    set (ts := map (table_of_doc (g_fs w)) (dc_tables dd)) in *.
    set (gone := if same then map fst (filter (fun h => (snd h =? dir) && negb (fst h =? id)) (g_handles w)) else []).
    assert (d_tables core = ts /\ w_id (d_wal core) = num_of (dc_wal dd) + 1) as [CT CW].
    { pose proof (db_replay_core o es (mkDb (tables_latest ts) [] [] ts (tables_latest ts) (wal_new (num_of (dc_wal dd) + 1)) (g_mem w) (g_walmax w))) as E.
      unfold db_restore in DR. rewrite DR in E. cbn [fst] in E. rewrite E.
      destruct (replay_core_fields o es (mkDb (tables_latest ts) [] [] ts (tables_latest ts) (wal_new (num_of (dc_wal dd) + 1)) (g_mem w) (g_walmax w))) as [A B].
      rewrite A, B. auto. }
    pose proof (handle_dir_in _ _ _ HD) as HIN.
    pose proof (safe_add_dropped w gone S) as S0.
    assert (~ In id (g_dropped w ++ gone)) as ND'.
    { intro H. apply in_app_or in H. destruct H as [H|H]; [exact (ND H)|]. unfold gone in H. destruct same; [|destruct H].
      apply in_map_iff in H. destruct H as [[i D] [Ei Hf]]. cbn in Ei. subst i. apply filter_In in Hf. destruct Hf as [_ Hf].
      cbn in Hf. rewrite N.eqb_refl in Hf. rewrite andb_false_r in Hf. discriminate. }
    destruct (sf_handles _ S0 id hd HIN ND') as [docs' [dd' [G1 [G2 G3]]]]. cbn [add_dropped g_fs] in G1, G3.
    rewrite GF in G1. inversion G1; subst docs'. rewrite FD in G2. inversion G2; subst dd'.
    destruct (sf_kinds w S _ _ dd GF (proj1 (find_doc_in _ _ _ FD))) as [KW [KT KX]].
    apply safe_add_db; [exact S0|]. intros _.
    destruct (after_rotations_fields (mkW core dir o nb
        (fold_right (fun t a => N.max (num_of (td_name t) + 1) a) 0 (dc_tables dd)) [mkCk (dc_id dd) ts (dc_wal dd) content (dc_after dd) (dc_lastseq dd) []] []
        FNone 0 CNone 0 [] (map (fun t => mkObj (td_name t) true (td_lo t) (td_hi t)) (dc_tables dd)) Live) rots)
      as [Ec [Ed [Ek [Ep [Et [Eo [Es [Em Ef]]]]]]]].
    set (x0 := mkW core dir o nb (fold_right (fun t a => N.max (num_of (td_name t) + 1) a) 0 (dc_tables dd))
                   [mkCk (dc_id dd) ts (dc_wal dd) content (dc_after dd) (dc_lastseq dd) []] [] FNone 0 CNone 0 []
                   (map (fun t => mkObj (td_name t) true (td_lo t) (td_hi t)) (dc_tables dd)) Live) in *.
    assert (map t_name ts = map td_name (dc_tables dd)) as NT by (unfold ts; rewrite map_map; reflexivity).
    split; [|split].
    + (* the invariant of the new object *)
      assert (safe_db (g_fs w) (g_handles w) (g_dropped w ++ gone) x0) as SX0.
      { constructor; unfold recs; cbn [x0 x_ckpts x_pending x_dir x_objs x_cktasks x_core app].
        - intros n Hn. apply G3. apply in_rn_parts in Hn. unfold recs in Hn. cbn in Hn. rewrite CT, !app_nil_r in Hn. unfold doc_files. right.
          rewrite <- NT. destruct Hn as [Hn|[Hn|[[]|[]]]]; exact Hn.
        - intros dcs id0 d0 Gd Fd Hh ND0. exists (mkCk (dc_id dd) ts (dc_wal dd) content (dc_after dd) (dc_lastseq dd) []). split; [left; reflexivity|].
          destruct same.
          + unfold dir in Gd, Hh. rewrite GF in Gd. inversion Gd; subst dcs.
            destruct (N.eq_dec id0 id) as [->|NE].
            * rewrite FD in Fd. inversion Fd; subst d0. unfold agrees. cbn. repeat split. intros n Hn. unfold ts. rewrite map_map. exact Hn.
            * exfalso. apply ND0. apply in_or_app. right. unfold gone. apply in_map_iff. exists (id0, hd). split; [reflexivity|].
              apply filter_In. split; [exact Hh|]. cbn. unfold dir. rewrite N.eqb_refl. cbn. apply negb_true_iff. apply N.eqb_neq. exact NE.
          + exfalso. unfold dir in Hh. pose proof (sf_hdirs w S _ _ Hh). lia.
        - constructor; [intros []|constructor].
        - constructor; [intros []|constructor].
        - intros c [<-|[]]. exact KW.
        - intros c n [<-|[]] [].
        - intros ob Hob. apply in_map_iff in Hob. destruct Hob as [t [<- Ht]]. cbn. apply KT. exact Ht.
        - intros n Hn. apply in_rn_parts in Hn. unfold recs in Hn. cbn in Hn. rewrite CT, !app_nil_r, NT in Hn.
          assert (In n (map td_name (dc_tables dd))) as Hn' by (destruct Hn as [Hn|[Hn|[[]|[]]]]; exact Hn).
          apply in_map_iff in Hn'. destruct Hn' as [t [<- Ht]]. apply KT. exact Ht.
        - intros c [<-|[]] _. cbn. rewrite CW. unfold num_of. lia.
        - intros id0 []. }
      eapply safe_db_step; [exact SX0|apply fs_mono_refl|apply ck_same_refl|exact Ed|exact Ek|exact Ep| | | |].
      * rewrite Et. intros id0 [].
      * rewrite Eo. auto.
      * intros n Hn. left. eapply rn_after_rotations. exact Hn.
      * rewrite Ec. lia.
    + (* no other live object in that directory *)
      cbn [add_dropped g_dbs]. rewrite Ed. cbn [x0 x_dir]. intros i y Hy Ly E.
      destruct same.
      * unfold dir in E. exact (SAME eq_refl hd i y eq_refl Hy Ly E).
      * unfold dir in E. pose proof (sf_dirs w S _ _ Hy Ly). lia.
    + rewrite Ed. cbn [x0 x_dir add_dropped g_nextdir]. destruct same; cbn [negb].
      * unfold dir. apply (sf_hdirs w S _ _ HIN).
      * unfold dir. lia.
Qed.

(* a further fresh database *)
Lemma safe_step_open w nd : Safe w -> Safe (step w (OOpen nd)).
Proof.
  intro S. cbn [step]. apply safe_add_db; [exact S|]. intros _. cbn [x_dir]. split; [|split].
  - constructor; unfold recs; cbn; try (intros; contradiction); try constructor; try (intros; discriminate).
    intros docs id d _ _ Hh. exfalso. pose proof (sf_hdirs w S _ _ Hh). lia.
  - intros i y Hy Ly E. pose proof (sf_dirs w S _ _ Hy Ly). lia.
  - lia.
Qed.

(* restore from the handles of several instances *)
Lemma load_docs_spec w id dirs : forall ds, load_docs w id dirs = inl (Some ds) ->
  forall d, In d ds -> exists hd docs, In (id, hd) (g_handles w) /\ fs_get (g_fs w) (hd, 2, 0) = Some (FCk docs) /\ find_doc docs id = Some d.
Proof.
  induction dirs as [|hd rest IH]; intros ds H d Hd; cbn [load_docs] in H.
  - inversion H; subst. destruct Hd.
  - destruct (existsb (fun h => (fst h =? id) && (snd h =? hd)) (g_handles w)) eqn:EX; cbn [negb] in H; [|discriminate].
    destruct (fs_get (g_fs w) (hd, 2, 0)) as [[| |docs]|] eqn:GF; try discriminate.
    destruct (find_doc docs id) as [d0|] eqn:FD; [|discriminate].
    destruct (load_docs w id rest) as [[ds0|]|c] eqn:LR; try discriminate. inversion H; subst ds.
    destruct Hd as [<-|Hd].
    + exists hd, docs. split; [|auto]. apply existsb_exists in EX. destruct EX as [[i D] [Hh E]]. cbn in E.
      apply andb_true_iff in E. destruct E as [E1 E2]. apply N.eqb_eq in E1, E2. subst. exact Hh.
    + apply (IH ds0 eq_refl d Hd).
Qed.

Lemma load_docs_head w id h1 rest d1 ds : load_docs w id (h1 :: rest) = inl (Some (d1 :: ds)) ->
  In (id, h1) (g_handles w) /\ exists docs, fs_get (g_fs w) (h1, 2, 0) = Some (FCk docs) /\ find_doc docs id = Some d1.
Proof.
  cbn [load_docs]. destruct (existsb (fun h => (fst h =? id) && (snd h =? h1)) (g_handles w)) eqn:EX; cbn [negb]; [|discriminate].
  destruct (fs_get (g_fs w) (h1, 2, 0)) as [[| |docs]|] eqn:GF; try discriminate.
  destruct (find_doc docs id) as [d0|] eqn:FD; [|discriminate].
  destruct (load_docs w id rest) as [[ds0|]|c] eqn:LR; try discriminate. intro H. inversion H; subst. split.
  - apply existsb_exists in EX. destruct EX as [[i D] [Hh E]]. cbn in E. apply andb_true_iff in E. destruct E as [E1 E2].
    apply N.eqb_eq in E1, E2. subst. exact Hh.
  - exists docs. auto.
Qed.

Lemma fold_max_ge (l : list doc) d : In d l -> num_of (dc_wal d) <= fold_right (fun d a => N.max (num_of (dc_wal d)) a) 0 l.
Proof. induction l as [|x l IH]; [intros []|]. cbn [fold_right]. intros [->|H]; [lia|]. specialize (IH H). lia. Qed.

Lemma safe_step_restoreM w nd id dirs same o nb : Safe w -> step_ok w (ORestoreM nd id dirs same o nb) -> Safe (step w (ORestoreM nd id dirs same o nb)).
Proof.
  intros S [ND [MON SAME]]. cbn [step].
  set (dir := if same then hd 0 dirs else g_nextdir w) in *.
  destruct (open_fromM w id dirs dir o nb) as [code|x] eqn:OP.
  - apply safe_add_db; [exact S|]. cbn. discriminate.
  - unfold open_fromM in OP. destruct (load_docs w id dirs) as [[[|d1 ds]|]|c] eqn:LD; try discriminate.
    destruct (replay_docs (g_fs w) (d1 :: ds)) as [[es|]|c] eqn:RP; try discriminate.
    set (tds := flat_map dc_tables (d1 :: ds)) in *. set (ts := map (table_of_doc (g_fs w)) tds) in *.
    set (walid := fold_right (fun d a => N.max (num_of (dc_wal d)) a) 0 (d1 :: ds)) in *.
    destruct (db_restore (g_mem w) (g_walmax w) o ts walid es) as [core rots] eqn:DR.
    inversion OP; subst x. clear OP.
    destruct (MON _ _ eq_refl) as [NDW [NDIR NDIR1]].
    assert (d_tables core = ts /\ w_id (d_wal core) = walid + 1) as [CT CW].
    { pose proof (db_replay_core o es (mkDb (tables_latest ts) [] [] ts (tables_latest ts) (wal_new (walid + 1)) (g_mem w) (g_walmax w))) as E.
      unfold db_restore in DR. rewrite DR in E. cbn [fst] in E. rewrite E.
      destruct (replay_core_fields o es (mkDb (tables_latest ts) [] [] ts (tables_latest ts) (wal_new (walid + 1)) (g_mem w) (g_walmax w))) as [A B].
      rewrite A, B. auto. }
    assert (forall d, In d (d1 :: ds) -> kind (dc_wal d) = 1 /\ forall t, In t (dc_tables d) -> kind (td_name t) = 0 /\ fs_has (g_fs w) (td_name t) = true) as DOCS.
    { intros d Hd. destruct (load_docs_spec w id dirs _ LD d Hd) as [hd0 [docs [Hh [GF FD]]]].
      destruct (sf_handles w S id hd0 Hh ND) as [docs' [d' [G1 [G2 G3]]]]. rewrite GF in G1. inversion G1; subst docs'. rewrite FD in G2. inversion G2; subst d'.
      destruct (sf_kinds w S _ _ d GF (proj1 (find_doc_in _ _ _ FD))) as [KW [KT _]].
      split; [exact KW|]. intros t Ht. split; [apply KT; exact Ht|]. apply G3. right. apply in_map. exact Ht. }
    assert (forall t, In t tds -> kind (td_name t) = 0 /\ fs_has (g_fs w) (td_name t) = true) as TDS.
    { intros t Ht. unfold tds in Ht. apply in_flat_map in Ht. destruct Ht as [d [Hd Ht]]. apply (proj2 (DOCS d Hd) t Ht). }
    assert (map t_name ts = map td_name tds) as NT by (unfold ts; rewrite map_map; reflexivity).
    set (gone := if same then map fst (filter (fun h => (snd h =? dir) && negb (fst h =? id)) (g_handles w)) else []).
    pose proof (safe_add_dropped w gone S) as S0.
    apply safe_add_db; [exact S0|]. intros _.
    match goal with |- context [after_rotations ?X rots] => set (x0 := X) end.
    destruct (after_rotations_fields x0 rots) as [Ec [Ed [Ek [Ep [Et [Eo [Es [Em Ef]]]]]]]].
    cbn [add_dropped g_fs g_dbs g_handles g_dropped g_nextdir].
    split; [|split].
    + assert (safe_db (g_fs w) (g_handles w) (g_dropped w ++ gone) x0) as SX0.
      { constructor; unfold recs; cbn [x0 x_ckpts x_pending x_dir x_objs x_cktasks x_core app].
        - intros n Hn. apply in_rn_parts in Hn. unfold recs in Hn. cbn in Hn. rewrite ?CT, ?app_nil_r in Hn.
          assert (In n (map td_name tds)) as Hn' by (rewrite <- NT; destruct Hn as [Hn|[Hn|[[]|[]]]]; exact Hn).
          apply in_map_iff in Hn'. destruct Hn' as [t [<- Ht]]. apply TDS. exact Ht.
        - intros dcs id0 d0 Gd Fd Hh ND0.
          destruct same.
          + (* into the directory of the first handle: its other handles are superseded *)
            destruct dirs as [|h1 rest]; [cbn in LD; discriminate|]. cbn [hd] in *. unfold dir in *.
            destruct (load_docs_head _ _ _ _ _ _ LD) as [_ [docs1 [GF1 FD1]]].
            rewrite GF1 in Gd. inversion Gd; subst dcs.
            destruct (N.eq_dec id0 id) as [->|NE].
            * rewrite FD1 in Fd. inversion Fd; subst d0. eexists. split; [left; reflexivity|].
              unfold agrees. cbn. split; [apply (proj2 (find_doc_in _ _ _ FD1))|]. split; [reflexivity|].
              intros n Hn. rewrite map_map. cbn [table_of_doc t_name]. rewrite map_app. apply in_or_app. left. exact Hn.
            * exfalso. apply ND0. apply in_or_app. right. unfold gone. apply in_map_iff. exists (id0, h1). split; [reflexivity|].
              apply filter_In. split; [exact Hh|]. cbn. rewrite N.eqb_refl. cbn. apply negb_true_iff. apply N.eqb_neq. exact NE.
          + exfalso. unfold dir in Hh. pose proof (sf_hdirs w S _ _ Hh). lia.
        - constructor; [intros []|constructor].
        - cbn [flat_map c_allw c_wal c_xw app]. rewrite app_nil_r. exact NDW.
        - intros c [<-|[]]. cbn. apply DOCS. left. reflexivity.
        - intros c n [<-|[]] Hn. cbn in Hn. apply in_map_iff in Hn. destruct Hn as [d [<- Hd]]. split.
          + apply DOCS. right. exact Hd.
          + apply NDIR. exact Hd.
        - intros ob Hob. apply in_map_iff in Hob. destruct Hob as [t [<- Ht]]. cbn. apply TDS. exact Ht.
        - intros n Hn. apply in_rn_parts in Hn. unfold recs in Hn. cbn in Hn. rewrite ?CT, ?app_nil_r in Hn.
          assert (In n (map td_name tds)) as Hn' by (rewrite <- NT; destruct Hn as [Hn|[Hn|[[]|[]]]]; exact Hn).
          apply in_map_iff in Hn'. destruct Hn' as [t [<- Ht]]. apply TDS. exact Ht.
        - intros c [<-|[]] E. cbn [c_wal] in *. destruct same.
          + rewrite CW. pose proof (fold_max_ge (d1 :: ds) d1 (or_introl eq_refl)). fold walid in H. unfold num_of in H. lia.
          + exfalso. apply (NDIR1 eq_refl). exact E.
        - intros id0 []. }
      eapply safe_db_step; [exact SX0|apply fs_mono_refl|apply ck_same_refl|exact Ed|exact Ek|exact Ep| | | |].
      * rewrite Et. intros id0 [].
      * rewrite Eo. auto.
      * intros n Hn. left. eapply rn_after_rotations. exact Hn.
      * rewrite Ec. lia.
    + rewrite Ed. cbn [x0 x_dir]. intros i y Hy Ly E. destruct same.
      * unfold dir in E. exact (SAME eq_refl i y Hy Ly E).
      * unfold dir in E. pose proof (sf_dirs w S _ _ Hy Ly). lia.
    + rewrite Ed. cbn [x0 x_dir]. destruct same; cbn [negb]; unfold dir.
      * destruct dirs as [|h1 rest]; [cbn in LD; discriminate|]. cbn [hd]. destruct (load_docs_head _ _ _ _ _ _ LD) as [Hh _]. apply (sf_hdirs w S _ _ Hh).
      * lia.
Qed.

(* ------------------------------------------------------------------ the collection *)
Definition gc_names (w : world) (x : wdb) : list fname := match x_state x with Crashed => [] | _ => C09_Gc.gc_one w x end.
Definition gc_obj (x : wdb) : wdb :=
  match x_state x with
  | Crashed => x
  | _ => with_objs x (x_next x) (filter (fun o => mem_name (o_name o) (reachable_names x)) (x_objs x))
  end.

Lemma gc_fold w l : forall f done dels,
  exists dels', fold_left (gc_db w) l (f, done, dels) = (fold_left fs_del (flat_map (gc_names w) l) f, done ++ map gc_obj l, dels').
Proof.
  induction l as [|x l IH]; intros f done dels.
  - exists dels. cbn. rewrite app_nil_r. reflexivity.
  - cbn [fold_left flat_map map]. unfold gc_db at 2. unfold gc_names at 1, gc_obj at 1, C09_Gc.gc_one.
    destruct (x_state x) eqn:St.
    + destruct (IH (fold_left fs_del (map o_name (filter (cleanup_deletes w x) (filter (fun o => negb (mem_name (o_name o) (reachable_names x))) (x_objs x)))) f)
                   (done ++ [with_objs x (x_next x) (filter (fun o => mem_name (o_name o) (reachable_names x)) (x_objs x))])
                   (dels ++ filter (fs_has f) (map o_name (filter (cleanup_deletes w x) (filter (fun o => negb (mem_name (o_name o) (reachable_names x))) (x_objs x))))))
        as [dels' E].
      exists dels'. rewrite E. rewrite fold_left_app, <- app_assoc. reflexivity.
    + destruct (IH f (done ++ [x]) dels) as [dels' E]. exists dels'. rewrite E. cbn [app fold_left]. rewrite <- app_assoc. reflexivity.
    + destruct (IH (fold_left fs_del (map o_name (filter (cleanup_deletes w x) (filter (fun o => negb (mem_name (o_name o) (reachable_names x))) (x_objs x)))) f)
                   (done ++ [with_objs x (x_next x) (filter (fun o => mem_name (o_name o) (reachable_names x)) (x_objs x))])
                   (dels ++ filter (fs_has f) (map o_name (filter (cleanup_deletes w x) (filter (fun o => negb (mem_name (o_name o) (reachable_names x))) (x_objs x))))))
        as [dels' E].
      exists dels'. rewrite E. rewrite fold_left_app, <- app_assoc. reflexivity.
Qed.

Lemma in_flat_map_nth {A B} (g : A -> list B) (l : list A) m :
  In m (flat_map g l) -> exists j z, nth_error l j = Some z /\ In m (g z).
Proof.
  intro H. apply in_flat_map in H. destruct H as [z [Hz Hm]]. apply In_nth_error in Hz. destruct Hz as [j Hj]. exists j, z. auto.
Qed.

Lemma gc_obj_fields x : x_dir (gc_obj x) = x_dir x /\ x_state (gc_obj x) = x_state x /\ x_ckpts (gc_obj x) = x_ckpts x /\
  x_pending (gc_obj x) = x_pending x /\ x_cktasks (gc_obj x) = x_cktasks x /\ x_core (gc_obj x) = x_core x /\
  x_flush (gc_obj x) = x_flush x /\ x_comp (gc_obj x) = x_comp x /\ (forall o, In o (x_objs (gc_obj x)) -> In o (x_objs x)).
Proof.
  unfold gc_obj. destruct (x_state x) eqn:St; cbn; rewrite ?St; repeat split; auto; intros o H; apply filter_In in H; apply H.
Qed.

Lemma gc_one_unreachable w x m : In m (C09_Gc.gc_one w x) -> ~ In m (reachable_names x) /\ exists o, In o (x_objs x) /\ o_name o = m.
Proof.
  intro H. split; [apply (gc_spares_own_reachable w x m H)|]. unfold C09_Gc.gc_one in H. apply in_map_iff in H. destruct H as [o [E Ho]].
  apply filter_In in Ho. destruct Ho as [Ho _]. apply filter_In in Ho. exists o. split; [apply Ho|exact E].
Qed.

Lemma safe_step_gc w : Safe w -> gc_ok w -> Safe (step w OGc).
Proof.
  intros S OK. cbn [step]. destruct (gc_fold w (g_dbs w) (g_fs w) [] []) as [dels' E]. rewrite E. cbn [app].
  set (NS := flat_map (gc_names w) (g_dbs w)). set (f' := fold_left fs_del NS (g_fs w)).
  assert (forall n, (forall j z m, nth_error (g_dbs w) j = Some z -> x_state z <> Crashed -> In m (C09_Gc.gc_one w z) -> m <> n) ->
                    fs_get f' n = fs_get (g_fs w) n) as KEEP.
  { intros n H. apply fold_del_get_other. apply mem_name_false. intros m Hm. unfold NS in Hm.
    destruct (in_flat_map_nth _ _ _ Hm) as [j [z [Hz Hmz]]]. unfold gc_names in Hmz.
    destruct (x_state z) eqn:St; [|destruct Hmz|]; apply (H j z m Hz); try exact Hmz; rewrite St; discriminate. }
  destruct S. constructor; cbn [g_fs g_dbs g_handles g_dropped g_nextdir]; fold f'.
  - intros i y Hy Ly. rewrite nth_error_map in Hy. destruct (nth_error (g_dbs w) i) as [z|] eqn:Hz; [|discriminate]. inversion Hy; subst y.
    destruct (gc_obj_fields z) as [Ed [Es [Ek [Ep [Et [Ec [Ef [Em Eo]]]]]]]].
    assert (x_state z = Live) as Lz by congruence.
    pose proof (sf_db0 _ _ Hz Lz) as SZ. destruct SZ.
    assert (forall n, In n (rn z) \/ (exists c id, In c (recs z) /\ c_id c = id /\ In (id, true) (x_cktasks z) /\ n = c_wal c) \/ n = (x_dir z, 2, 0) ->
            fs_get f' n = fs_get (g_fs w) n) as PZ.
    { intros n Hn. apply KEEP. intros j zj m Hj NC Hm Emn. subst m.
      destruct (Nat.eq_dec j i) as [->|NE].
      - rewrite Hz in Hj. inversion Hj; subst zj. destruct (gc_one_unreachable _ _ _ Hm) as [NR [ob [Hob Eob]]].
        rewrite (reachable_live z Lz) in NR. destruct Hn as [Hn|[[c [id [Hc [_ [_ En]]]]]|Hn]].
        + exact (NR Hn).
        + specialize (sd_ko0 ob Hob). specialize (sd_kw0 c Hc). rewrite Eob, En in sd_ko0. lia.
        + specialize (sd_ko0 ob Hob). rewrite Eob, Hn in sd_ko0. discriminate.
      - apply (OK j zj n Hj NC Hm). left. exists i, z. repeat split; auto. }
    assert (recs (gc_obj z) = recs z) as ER by (unfold recs; rewrite Ek, Ep; reflexivity).
    assert (forall n, In n (rn (gc_obj z)) <-> In n (rn z)) as RE by (intro n; rewrite !in_rn_parts, ER, Ec, Ef, Em; tauto).
    constructor; rewrite ?ER, ?Ed, ?Et, ?Ec; try assumption.
    + intros n Hn. apply RE in Hn. rewrite (fs_has_get _ _ _ (PZ n (or_introl Hn))). apply sd_reach0. exact Hn.
    + intros docs id dd Gd. rewrite PZ in Gd by auto. apply sd_docs0. exact Gd.
    + intros o Ho. apply sd_ko0, Eo, Ho.
    + intros n Hn. apply sd_kt0, RE, Hn.
    + intros id H ND. destruct (sd_inflight0 id H ND) as [c [Hc [Eid Hf]]]. exists c. repeat split; try assumption.
      assert (In (c_wal c) (rn z) \/ (exists c0 id0, In c0 (recs z) /\ c_id c0 = id0 /\ In (id0, true) (x_cktasks z) /\ c_wal c = c_wal c0) \/ c_wal c = (x_dir z, 2, 0)) as PW
        by (right; left; exists c, id; auto).
      rewrite (fs_has_get _ _ _ (PZ _ PW)). exact Hf.
  - intros id D Hh ND. destruct (sf_handles0 id D Hh ND) as [docs [dd [G1 [G2 G3]]]]. exists docs, dd.
    assert (forall n, In n (doc_files dd) \/ n = (D, 2, 0) -> fs_get f' n = fs_get (g_fs w) n) as PH.
    { intros n Hn. apply KEEP. intros j zj m Hj NC Hm Emn. subst m.
      destruct (N.eq_dec (x_dir zj) D) as [ED|ND'].
      - destruct (x_state zj) eqn:St; [|congruence|].
        + (* the live writer of that directory: its own documents are reachable *)
          pose proof (sf_db0 _ _ Hj St) as SJ. destruct SJ. subst D.
          destruct (sd_docs0 docs id dd G1 G2 Hh ND) as [c [Hc [A1 [A2 A3]]]].
          destruct (gc_one_unreachable _ _ _ Hm) as [NR [ob [Hob Eob]]]. rewrite (reachable_live zj St) in NR.
          specialize (sd_ko0 ob Hob). rewrite Eob in sd_ko0.
          destruct Hn as [[Hn|Hn]|Hn].
          * specialize (sd_kw0 c Hc). rewrite <- A2, Hn in sd_kw0. lia.
          * apply NR. apply in_rn_parts. right. left. apply in_flat_map. exists c. split; [exact Hc|]. apply A3. exact Hn.
          * rewrite Hn in sd_ko0. discriminate.
        + apply (OK j zj n Hj ltac:(rewrite St; discriminate) Hm). right. exists id, D, docs, dd. repeat split; try assumption.
          intros [x0 [Hx0 [L0 _]]]. rewrite Hj in Hx0. inversion Hx0; subst. congruence.
      - apply (OK j zj n Hj NC Hm). right. exists id, D, docs, dd. repeat split; try assumption.
        intros [x0 [Hx0 [_ D0]]]. rewrite Hj in Hx0. inversion Hx0; subst. congruence. }
    split; [rewrite PH by auto; exact G1|]. split; [exact G2|].
    intros n Hn. rewrite (fs_has_get _ _ _ (PH n (or_introl Hn))). apply G3. exact Hn.
  - intros i j a b Ha Hb La Lb Eab. rewrite nth_error_map in Ha, Hb.
    destruct (nth_error (g_dbs w) i) as [za|] eqn:Hza; [|discriminate]. destruct (nth_error (g_dbs w) j) as [zb|] eqn:Hzb; [|discriminate].
    inversion Ha; inversion Hb; subst a b.
    destruct (gc_obj_fields za) as [Da [Sa _]]. destruct (gc_obj_fields zb) as [Db [Sb _]].
    apply (sf_writer0 i j za zb Hza Hzb); congruence.
  - intros i a Ha La. rewrite nth_error_map in Ha. destruct (nth_error (g_dbs w) i) as [za|] eqn:Hza; [|discriminate]. inversion Ha; subst a.
    destruct (gc_obj_fields za) as [Da [Sa _]]. rewrite Da. apply (sf_dirs0 _ _ Hza). congruence.
  - exact sf_hdirs0.
  - intros n docs dd Gn. apply (sf_kinds0 n docs dd). eapply fold_del_get_some. exact Gn.
Qed.

(* ------------------------------------------------------------------ every step, every history *)
Lemma safe_init mem wm : Safe (init_world mem wm).
Proof.
  constructor; cbn [init_world g_fs g_dbs g_handles g_dropped g_nextdir].
  - intros i x Hx L. destruct i as [|i]; [|destruct i; discriminate]. inversion Hx; subst x.
    constructor; unfold recs; cbn; try (intros; contradiction); try constructor; try (intros; discriminate).
  - intros id D [].
  - intros i j x y Hx Hy _ _ _. destruct i as [|i]; [|destruct i; discriminate]. destruct j as [|j]; [reflexivity|destruct j; discriminate].
  - intros i x Hx _. destruct i as [|i]; [|destruct i; discriminate]. inversion Hx; subst x. cbn. lia.
  - intros id D [].
  - intros n docs d H. discriminate.
Qed.

Theorem safe_step o : forall w, Safe w -> step_ok w o -> Safe (step w o).
Proof.
  induction o as [d k v rot|d k rot|d id|d|d r|d id|d ids|d ids f|d id f|d|nd id same ow nb|nd id dirs same2 ow nb|nd same3|nd|d|d| |d|a IHa b IHb]; intros w S OK.
  - apply safe_write. exact S.
  - apply safe_write. exact S.
  - apply safe_step_ckpt_call; assumption.
  - apply safe_step_flush. exact S.
  - apply safe_step_compact; assumption.
  - cbn [step]. apply safe_step_ckpt; [exact S|]. intros x G. destruct (OK x G) as [L M]. split; [exact L|intros _; exact M].
  - cbn [step]. apply safe_step_retain; [exact S|]. intros x G. destruct (OK x G) as [L M]. split; [exact L|intros _; exact M].
  - cbn [step]. apply safe_step_retain; [exact S|exact OK].
  - cbn [step]. apply safe_step_ckpt; [exact S|exact OK].
  - apply safe_step_flush_fail. exact S.
  - apply safe_step_restore; assumption.
  - apply safe_step_restoreM; assumption.
  - cbn [step]. apply safe_add_db; [exact S|]. cbn. discriminate.
  - apply safe_step_open. exact S.
  - cbn [step]. destruct (get_db w d) as [x|] eqn:G; [|exact S]. eapply safe_unlive; [exact S|exact G|reflexivity|cbn; discriminate].
  - cbn [step]. destruct (get_db w d) as [x|] eqn:G; [|exact S]. eapply safe_unlive; [exact S|exact G|reflexivity|cbn; discriminate].
  - apply safe_step_gc; assumption.
  - exact S.
  - cbn [step]. destruct OK as [O1 O2]. apply IHb; [apply IHa; assumption|exact O2].
Qed.

Theorem safe_run ops : forall w, Safe w -> run_ok w ops -> Safe (run w ops).
Proof.
  induction ops as [|o ops IH]; intros w S OK; [exact S|]. destruct OK as [O1 O2]. cbn [run fold_left].
  apply IH; [apply safe_step; assumption|exact O2].
Qed.

(* retained_files_exist for every history whose deleting steps satisfy the monitor *)
Theorem retained_files_exist_invariant mem wm ops :
  run_ok (init_world mem wm) ops ->
  let w := run (init_world mem wm) ops in
  (forall id D, In (id, D) (g_handles w) -> ~ In id (g_dropped w) ->
     exists docs d, fs_get (g_fs w) (D, 2, 0) = Some (FCk docs) /\ find_doc docs id = Some d /\
                    fs_has (g_fs w) (dc_wal d) = true /\ forall t, In t (dc_tables d) -> fs_has (g_fs w) (td_name t) = true) /\
  (forall i x t, nth_error (g_dbs w) i = Some x -> x_state x = Live -> In t (d_tables (x_core x)) -> fs_has (g_fs w) (t_name t) = true).
Proof.
  intros OK w. pose proof (safe_run ops _ (safe_init mem wm) OK) as S. fold w in S. split.
  - intros id D Hh ND. destruct (sf_handles w S id D Hh ND) as [docs [d [G1 [G2 G3]]]]. exists docs, d. repeat split; try assumption.
    + apply G3. left. reflexivity.
    + intros t Ht. apply G3. right. apply in_map. exact Ht.
  - intros i x t Hx L Ht. destruct (sf_db w S i x Hx L). apply sd_reach0. apply in_rn_parts. left. apply in_map. exact Ht.
Qed.

(* the D11 pattern - a table object CREATED by a DROPPED database object whose file another party still needs - is exactly a
   way in which the monitor fails at a collection *)
Theorem d11_pattern_violates_monitor w : d11_pattern w -> ~ gc_ok w.
Proof.
  intros [i [x [o [Hx [Dp [Ho [Cr P]]]]]]] OK. apply (OK i x (o_name o) Hx); [rewrite Dp; discriminate| |exact P].
  unfold C09_Gc.gc_one. apply in_map. apply filter_In. split.
  - apply filter_In. split; [exact Ho|]. unfold reachable_names. rewrite Dp. reflexivity.
  - unfold cleanup_deletes. rewrite Cr. reflexivity.
Qed.
