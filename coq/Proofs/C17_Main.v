(* Assembly of the C17 results from the per-unit proof files. *)
From RV Require Import Model.SstTable Model.WriteRun Model.WalCodec.
From RV Require Import Proofs.C17_Codec Proofs.C17_Table Proofs.C17_Bloom Proofs.C17_Reopen Proofs.C17_WriteRun
        Proofs.C17_WriteRun2 Proofs.C17_Get Proofs.C17_History.
Open Scope N_scope.

(* Table.Get on a table fresh from the writer: the entry with that key (tombstone value dropped) or NotFound, for
   every key: present, absent between entries, before the first, after the last, bloom false positive or not *)
Theorem table_get_is_find tp es key : params_ok tp -> run_ok es -> table_get (write_table tp es) key = get_spec es key.
Proof.
  intros Hp H. apply table_get_is_find_gen; [apply Hp|exact H|intros e He; apply bloom_of_no_false_negative; assumption].
Qed.

Theorem table_get_reopen_is_find tp es key :
  params_ok tp -> run_ok es -> table_get (reopen (write_table tp es)) key = get_spec es key.
Proof.
  intros Hp H. unfold table_get. rewrite table_get_reopen_same by (try exact Hp; apply H).
  apply table_get_is_find; assumption.
Qed.

Theorem table_get_never_panics tp es key : params_ok tp -> run_ok es ->
  table_get (write_table tp es) key <> GPanic /\ table_get (write_table tp es) key <> GErr.
Proof.
  intros Hp H. apply table_get_total; [apply Hp|exact H|intros e He; apply bloom_of_no_false_negative; assumption].
Qed.

Theorem write_run_partition es target : 1 <= target ->
  concat (write_run es target) = es /\ write_run es target <> [] /\
  (es <> [] -> Forall (fun c => c <> []) (write_run es target)) /\
  size_rule target (write_run es target).
Proof.
  intros H. split; [apply write_run_concat; exact H|].
  split; [apply write_run_not_nil; exact H|]. split; [intros Hne; apply write_run_nonempty; assumption|].
  apply write_run_size_rule; exact H.
Qed.

(* every table of a split run answers point lookups and prefix scans with exactly its own chunk of the run *)
Theorem write_run_tables_read_back tp es target : params_ok tp -> 1 <= target -> run_ok es ->
  Forall (fun c => run_ok c /\
                   (forall key, table_get (write_table tp c) key = get_spec c key) /\
                   (forall key, table_get (reopen (write_table tp c)) key = get_spec c key) /\
                   (forall p, table_scan_prefix (write_table tp c) p = Some (scan_spec c p)) /\
                   (forall p, table_scan_prefix (reopen (write_table tp c)) p = Some (scan_spec c p)))
         (write_run es target).
Proof.
  intros Hp Ht (Hok & Hs & Hsz).
  assert (Hc : concat (write_run es target) = es) by (apply write_run_concat; exact Ht).
  assert (Hsorted : Forall (fun c => keys_sorted c = true) (write_run es target)).
  { destruct es as [|e es'].
    - rewrite write_run_empty by exact Ht. repeat constructor.
    - apply write_run_ranges; [exact Ht|exact Hs|discriminate]. }
  apply Forall_forall. intros c Hin.
  assert (Hrun : run_ok c).
  { apply in_split in Hin. destruct Hin as (l1 & l2 & Hl). rewrite Hl in Hc, Hsorted.
    rewrite concat_app in Hc. cbn [concat] in Hc. subst es.
    split; [|split].
    - apply Forall_app in Hok. destruct Hok as [_ Hok]. apply Forall_app in Hok. apply Hok.
    - apply Forall_app in Hsorted. destruct Hsorted as [_ Hsorted]. inversion Hsorted; assumption.
    - rewrite !ser_entries_app, !blen_app in Hsz. unfold blen in *. 
      assert (forall a b c : nat, (N.of_nat a + (N.of_nat b + N.of_nat c) < 4294967296) -> N.of_nat b < 4294967296) as Hl3
        by (intros; Lia.lia).
      eapply Hl3. exact Hsz. }
  split; [exact Hrun|]. split; [intros key; apply table_get_is_find; assumption|].
  split; [intros key; apply table_get_reopen_is_find; assumption|].
  destruct Hrun as (Ho & _ & Hz).
  split; [intros p; apply table_scan_is_filter; exact Ho|intros p; apply table_scan_reopen_is_filter; assumption].
Qed.

(* ---------- the split run read back as one sorted level ---------- *)
Lemma scan_spec_app a b p : scan_spec (a ++ b) p = scan_spec a p ++ scan_spec b p.
Proof. unfold scan_spec. rewrite filter_app, map_app. reflexivity. Qed.

Lemma find_key_app key a b :
  find_key key (a ++ b) = match find_key key a with Some e => Some e | None => find_key key b end.
Proof. induction a as [|e a IH]; [reflexivity|]. cbn [app find_key]. destruct (beqb (e_key e) key); [reflexivity|exact IH]. Qed.

Lemma level_read_chunks tp (reop : table -> table) chunks :
  Forall (fun c => (forall key, table_get (reop (write_table tp c)) key = get_spec c key) /\
                   (forall p, table_scan_prefix (reop (write_table tp c)) p = Some (scan_spec c p))) chunks ->
  (forall p, level_scan (map (fun c => reop (write_table tp c)) chunks) p = Some (scan_spec (concat chunks) p)) /\
  (forall key, level_get (map (fun c => reop (write_table tp c)) chunks) key = get_spec (concat chunks) key).
Proof.
  induction 1 as [|c cs [Hg Hs] _ [IHs IHg]]; [split; reflexivity|]. split.
  - intros p. cbn [map level_scan fold_right concat]. fold (level_scan (map (fun c => reop (write_table tp c)) cs) p).
    rewrite Hs, IHs, scan_spec_app. reflexivity.
  - intros key. cbn [map level_get concat]. rewrite Hg, IHg. unfold get_spec. rewrite find_key_app.
    destruct (find_key key c); reflexivity.
Qed.

Theorem level_reads_run_back tp es target : params_ok tp -> 1 <= target -> run_ok es ->
  (forall p, level_scan (map (write_table tp) (write_run es target)) p = Some (scan_spec es p)) /\
  (forall key, level_get (map (write_table tp) (write_run es target)) key = get_spec es key) /\
  (forall p, level_scan (map (fun c => reopen (write_table tp c)) (write_run es target)) p = Some (scan_spec es p)) /\
  (forall key, level_get (map (fun c => reopen (write_table tp c)) (write_run es target)) key = get_spec es key).
Proof.
  intros Hp Ht Hok. pose proof (write_run_tables_read_back tp es target Hp Ht Hok) as H.
  assert (Hc : concat (write_run es target) = es) by (apply write_run_concat; exact Ht).
  destruct (level_read_chunks tp (fun t => t) (write_run es target)) as [A B].
  { eapply Forall_impl; [|exact H]. intros c (_ & G & _ & S & _). split; assumption. }
  destruct (level_read_chunks tp reopen (write_run es target)) as [C D].
  { eapply Forall_impl; [|exact H]. intros c (_ & _ & G & _ & S). split; assumption. }
  rewrite Hc in A, B, C, D. rewrite map_ext with (g := write_table tp) in A, B by reflexivity.
  repeat split; assumption.
Qed.

(* ---------- EVERY way of cutting a run into consecutive chunks ----------
   Where WriteRun cuts is a writer-side policy (target, look-ahead factor); the round trip does not depend on it. *)
Lemma keys_sorted_chunks chunks : keys_sorted (concat chunks) = true -> Forall (fun c => keys_sorted c = true) chunks.
Proof.
  induction chunks as [|c cs IH]; intros H; [constructor|]. cbn [concat] in H.
  destruct (keys_sorted_app c (concat cs) H) as (Hc & Hr & _). constructor; [exact Hc|exact (IH Hr)].
Qed.

Lemma run_ok_chunks chunks : run_ok (concat chunks) -> Forall run_ok chunks.
Proof.
  intros (Hok & Hs & Hsz). pose proof (keys_sorted_chunks chunks Hs) as Hsorted.
  apply Forall_forall. intros c Hin.
  apply in_split in Hin. destruct Hin as (l1 & l2 & Hl). subst chunks.
  rewrite concat_app in Hok, Hsz. cbn [concat] in Hok, Hsz.
  split; [|split].
  - apply Forall_app in Hok. destruct Hok as [_ Hok]. apply Forall_app in Hok. apply Hok.
  - apply Forall_app in Hsorted. destruct Hsorted as [_ Hsorted]. inversion Hsorted; assumption.
  - rewrite !ser_entries_app, !blen_app in Hsz. unfold blen in *.
    assert (forall a b c : nat, (N.of_nat a + (N.of_nat b + N.of_nat c) < 4294967296) -> N.of_nat b < 4294967296) as Hl3
      by (intros; Lia.lia).
    eapply Hl3. exact Hsz.
Qed.

Theorem any_cut_reads_back tp chunks : params_ok tp -> run_ok (concat chunks) ->
  Forall (fun c => (forall key, table_get (write_table tp c) key = get_spec c key) /\
                   (forall key, table_get (reopen (write_table tp c)) key = get_spec c key) /\
                   (forall p, table_scan_prefix (write_table tp c) p = Some (scan_spec c p)) /\
                   (forall p, table_scan_prefix (reopen (write_table tp c)) p = Some (scan_spec c p))) chunks /\
  (forall p, level_scan (map (write_table tp) chunks) p = Some (scan_spec (concat chunks) p)) /\
  (forall key, level_get (map (write_table tp) chunks) key = get_spec (concat chunks) key) /\
  (forall p, level_scan (map (fun c => reopen (write_table tp c)) chunks) p = Some (scan_spec (concat chunks) p)) /\
  (forall key, level_get (map (fun c => reopen (write_table tp c)) chunks) key = get_spec (concat chunks) key).
Proof.
  intros Hp Hrun. pose proof (run_ok_chunks chunks Hrun) as Hcs.
  assert (H : Forall (fun c => (forall key, table_get (write_table tp c) key = get_spec c key) /\
                   (forall key, table_get (reopen (write_table tp c)) key = get_spec c key) /\
                   (forall p, table_scan_prefix (write_table tp c) p = Some (scan_spec c p)) /\
                   (forall p, table_scan_prefix (reopen (write_table tp c)) p = Some (scan_spec c p))) chunks).
  { eapply Forall_impl; [|exact Hcs]. intros c Hc.
    split; [intros key; apply table_get_is_find; assumption|].
    split; [intros key; apply table_get_reopen_is_find; assumption|].
    destruct Hc as (Ho & _ & Hz).
    split; [intros p; apply table_scan_is_filter; exact Ho|intros p; apply table_scan_reopen_is_filter; assumption]. }
  split; [exact H|].
  destruct (level_read_chunks tp (fun t => t) chunks) as [A B].
  { eapply Forall_impl; [|exact H]. intros c (G & _ & S & _). split; assumption. }
  destruct (level_read_chunks tp reopen chunks) as [C D].
  { eapply Forall_impl; [|exact H]. intros c (_ & G & _ & S). split; assumption. }
  rewrite map_ext with (g := write_table tp) in A, B by reflexivity.
  repeat split; assumption.
Qed.

(* non-empty consecutive chunks of a strictly sorted run have disjoint, ascending key ranges *)
Theorem any_cut_ranges chunks :
  Forall (fun c => c <> []) chunks -> keys_sorted (concat chunks) = true ->
  ranges_ascending chunks /\ Forall (fun c => keys_sorted c = true) chunks.
Proof. apply chunks_ranges. Qed.
