(* C04: every non-empty operator batch has a time-out on its way (MaxDelay > 0): the timer armed for the batch's token
   is still armed, or has expired and its callback has not run yet, or the sender goroutine holds the token and is
   about to flush. A late callback of an earlier batch (stale token) never takes that away: Flush(stale) leaves the
   timer alone (batching.go stops the timer only after the stale-token / empty guard). *)
From Coq Require Import List NArith Bool Arith Lia.
Import ListNotations.
From RV Require Import Model.RunnerPipe Proofs.C04_RunnerPipe.

Lemma remove1_in_other : forall t u l r, remove1 t l = Some r -> In u l -> u = t \/ In u r.
Proof.
  induction l as [|a l IH]; intros r H Hin; [discriminate|]. cbn in H.
  destruct (N.eqb a t) eqn:E.
  - inversion H; subst. destruct Hin as [->|Hin]; [left; now apply N.eqb_eq|right; exact Hin].
  - destruct (remove1 t l) as [r'|] eqn:Er; [|discriminate]. inversion H; subst.
    destruct Hin as [->|Hin]; [right; now left|]. destruct (IH r' eq_refl Hin); [now left|right; now right].
Qed.

Definition timeout_ok (o : opst) : Prop :=
  o_batch o <> [] -> o_slot o = Some (o_tok o) \/ In (o_tok o) (o_late o) \/ o_snd o = STok (o_tok o).

Lemma timeout_ok_add : forall o e, timeout_ok o -> timeout_ok (b_add true o e).
Proof.
  intros o e H. unfold timeout_ok in *. intros _. unfold b_add. cbn [o_slot o_tok o_late o_snd o_batch].
  destruct (o_batch o) eqn:E; [now left|]. apply H. discriminate.
Qed.
Lemma timeout_ok_flush : forall o o' b, b_flush o = (o', b) -> timeout_ok o -> timeout_ok o'.
Proof.
  intros o o' b H Hok. unfold timeout_ok in *. unfold b_flush in H. destruct (o_batch o) eqn:E; inversion H; subst; [intro Hne; rewrite E in Hne; contradiction|].
  intro Hne. cbn in Hne. contradiction.
Qed.

Section Timeout.
  Variable R : rstage.
  Variable route : list N -> nat.
  Variables (nops mx : nat).

  Definition TInv (s : st R) : Prop := forall i, timeout_ok (s_ops R s i).

  Lemma TInv_upd : forall (s : st R) i o pc, TInv s -> timeout_ok o -> TInv (set_ops R s pc (upd (s_ops R s) i o)).
  Proof.
    intros s i o pc H Ho k. cbn [set_ops s_ops]. unfold upd. destruct (Nat.eqb k i); [exact Ho|apply H].
  Qed.

  Lemma TInv_j_flush : forall s w i, TInv s -> TInv (j_flush R s w i).
  Proof.
    intros s w i H. unfold j_flush. destruct (b_flush (s_ops R s i)) as [o' b] eqn:E. intro k.
    cbn [set_j s_ops]. unfold upd. destruct (Nat.eqb k i); [eapply timeout_ok_flush; eauto|apply H].
  Qed.

  Lemma TInv_step : forall s a s', TInv s -> step R route nops mx true s a = Some s' -> TInv s'.
  Proof.
    intros s a s' H Hs. destruct a; cbn [step] in Hs.
    - destruct (s_todo R s) as [|[x|m|] t]; try discriminate.
      + destruct (rs_add R (s_r R s) x); inversion Hs; subst; exact H.
      + inversion Hs; subst; exact H.
      + destruct (rs_flush R (s_r R s)); inversion Hs; subst; exact H.
    - destruct (rs_int R (s_r R s) a); inversion Hs; subst; exact H.
    - unfold j_step in Hs. destruct (s_pc R s) as [|i0|i0|i0 b0]; [| | |discriminate].
      + destruct (s_work R s) as [|[i0 e|i0] w].
        * destruct (s_outq R s) as [|[|m] q]; try discriminate.
          -- destruct (rs_out R (s_r R s)) as [[res r']|]; inversion Hs; subst; exact H.
          -- inversion Hs; subst; exact H.
        * inversion Hs; subst. intro k. cbn [set_j s_ops]. unfold upd.
          destruct (Nat.eqb k i0); [apply timeout_ok_add, H|apply H].
        * inversion Hs; subst. apply TInv_j_flush, H.
      + inversion Hs; subst. exact H.
      + inversion Hs; subst. apply TInv_j_flush, H.
    - (* AExpire *)
      destruct (o_slot (s_ops R s i)) as [t|] eqn:E; [|discriminate]. inversion Hs; subst.
      apply TInv_upd; [exact H|]. intro Hne. cbn [o_batch o_slot o_tok o_late o_snd] in *.
      destruct (H i Hne) as [A|[A|A]].
      + rewrite E in A. inversion A; subst. right; left. apply in_or_app. right. now left.
      + right; left. apply in_or_app. now left.
      + right; right. exact A.
    - (* ATimer *)
      destruct (o_snd (s_ops R s i)) eqn:Es; try discriminate.
      destruct (remove1 t (o_late (s_ops R s i))) as [ar|] eqn:Er; [|discriminate]. inversion Hs; subst.
      apply TInv_upd; [exact H|]. intro Hne. cbn [o_batch o_slot o_tok o_late o_snd] in *.
      destruct (H i Hne) as [A|[A|A]].
      + now left.
      + destruct (remove1_in_other _ _ _ _ Er A) as [->|B]; [right; now right|right; now left].
      + rewrite Es in A. discriminate.
    - (* ASndFlush *)
      destruct (o_snd (s_ops R s i)) eqn:Es; try discriminate.
      destruct (b_flush_tok (s_ops R s i) t) as [o' b] eqn:Ef. inversion Hs; subst.
      apply TInv_upd; [exact H|]. unfold b_flush_tok in Ef. destruct (N.eqb (o_tok (s_ops R s i)) t) eqn:Et.
      + pose proof (timeout_ok_flush _ _ _ Ef (H i)) as Hok. intro Hne. cbn [set_snd o_batch o_slot o_tok o_late o_snd] in *.
        destruct (b_flush_spec _ _ _ Ef) as (_ & B & _). contradiction.
      + inversion Ef; subst. intro Hne. cbn [set_snd o_batch o_slot o_tok o_late o_snd] in *.
        destruct (H i Hne) as [A|[A|A]]; [now left|right; now left|].
        rewrite Es in A. inversion A; subst. rewrite N.eqb_refl in Et. discriminate.
    - (* ASndRecv *)
      destruct (o_snd (s_ops R s i)) eqn:Es; try discriminate.
      destruct (s_pc R s) as [| | |j b0]; try discriminate. destruct (Nat.eqb j i); [|discriminate]. inversion Hs; subst.
      apply TInv_upd; [exact H|]. intro Hne. cbn [set_snd o_batch o_slot o_tok o_late o_snd] in *.
      destruct (H i Hne) as [A|[A|A]]; [now left|right; now left|]. rewrite Es in A. discriminate.
    - (* ASndDone *)
      destruct (o_snd (s_ops R s i)) eqn:Es; try discriminate. inversion Hs; subst.
      apply TInv_upd; [exact H|]. intro Hne. cbn [o_batch o_slot o_tok o_late o_snd] in *.
      destruct (H i Hne) as [A|[A|A]]; [now left|right; now left|]. rewrite Es in A. discriminate.
  Qed.

  Theorem timeout_pending_lemma : forall input sched s,
    run R route nops mx true (init R input) sched = Some s -> forall i, timeout_ok (s_ops R s i).
  Proof.
    intros input sched. assert (G : forall s0, TInv s0 -> forall s, run R route nops mx true s0 sched = Some s -> TInv s).
    { induction sched as [|a sched IH]; intros s0 H0 s Hr; cbn [run] in Hr.
      - inversion Hr; subst. exact H0.
      - destruct (step R route nops mx true s0 a) as [s1|] eqn:E; [|discriminate].
        eapply IH; [|exact Hr]. eapply TInv_step; eauto. }
    intros s Hr. apply (G (init R input)); [|exact Hr]. intros i Hne. cbn in Hne. contradiction.
  Qed.
End Timeout.
