(* C20, part 1: the event batcher (Model/Batcher.v). Stdlib only. *)
From Coq Require Import List NArith ZArith Bool Lia.
From RV Require Import Model.Batcher.
Import ListNotations.
Open Scope Z_scope.

Section BatcherProofs.
Context {T : Type}.
Implicit Types (s : bstate T) (p : bparams) (a : baction T).

Lemma is_nil_true : forall {A} (l : list A), is_nil l = true -> l = [].
Proof. intros A [|x l] H; [reflexivity|discriminate]. Qed.

(* ---- one flush: what is returned leaves the batch; nothing else changes ---- *)
Lemma b_flush_split : forall t s, fst (b_flush t s) ++ batch (snd (b_flush t s)) = batch s.
Proof.
  intros t s. unfold b_flush.
  destruct (is_nil (batch s) || (negb (t =? current_batch) && negb (token s =? t))); cbn [fst snd batch].
  - reflexivity.
  - apply app_nil_r.
Qed.

(* ---- batcher_concat ---- *)
Lemma added_cons : forall a (acts : list (baction T)),
  added_of (a :: acts) = match a with BAdd x => [x] | _ => [] end ++ added_of acts.
Proof. reflexivity. Qed.
Lemma flushed_cons : forall e (evs : list (bevent T)),
  flushed_of (e :: evs) = match e with EFlushed _ l => [l] | _ => [] end ++ flushed_of evs.
Proof. reflexivity. Qed.
Lemma b_run_cons : forall p a acts s,
  b_run p (a :: acts) s =
  (fst (b_step p a s) :: fst (b_run p acts (snd (b_step p a s))), snd (b_run p acts (snd (b_step p a s)))).
Proof. reflexivity. Qed.

Lemma b_run_concat : forall p acts s,
  concat (flushed_of (fst (b_run p acts s))) ++ batch (snd (b_run p acts s)) = batch s ++ added_of acts.
Proof.
  intros p acts. induction acts as [|a acts IH]; intros s.
  - cbn. now rewrite app_nil_r.
  - rewrite b_run_cons, added_cons. cbn [fst snd]. rewrite flushed_cons.
    destruct a as [x| |t|]; cbn [b_step fst snd app].
    + rewrite IH. unfold b_add; cbn [batch]. now rewrite <- app_assoc.
    + rewrite IH. reflexivity.
    + cbn [concat]. rewrite <- app_assoc, IH, app_assoc, b_flush_split. reflexivity.
    + rewrite IH. reflexivity.
Qed.

Theorem batcher_concat_proof : forall p (acts : list (baction T)),
  concat (flushed_of (fst (b_run p acts b_init))) ++ batch (snd (b_run p acts b_init)) = added_of acts.
Proof. intros p acts. now rewrite b_run_concat. Qed.

(* ---- stale_token_noop ---- *)
Theorem stale_token_noop_proof : forall t s,
  t <> current_batch -> t <> token s -> b_flush t s = ([], s).
Proof.
  intros t s Hc Ht. unfold b_flush.
  assert (E1 : (t =? current_batch) = false) by now apply Z.eqb_neq.
  assert (E2 : (token s =? t) = false) by (apply Z.eqb_neq; congruence).
  rewrite E1, E2. cbn. now rewrite orb_true_r.
Qed.

(* a flush hands out something only for CurrentBatch or the current token, and then it hands out the whole batch *)
Lemma b_flush_nonempty : forall t s l s',
  b_flush t s = (l, s') -> l <> [] ->
  (t = current_batch \/ t = token s) /\ l = batch s /\ s' = mkB [] (token s + 1) None.
Proof.
  intros t s l s' H Hl. unfold b_flush in H.
  destruct (is_nil (batch s) || (negb (t =? current_batch) && negb (token s =? t))) eqn:E.
  - inversion H; subst. contradiction.
  - inversion H; subst. split; [|split; reflexivity].
    apply orb_false_iff in E. destruct E as [_ E]. apply andb_false_iff in E.
    destruct E as [E|E]; apply negb_false_iff in E; apply Z.eqb_eq in E; [left|right]; congruence.
Qed.

(* ---- reachable states: tokens count the batches handed out; an armed timer carries the current token ---- *)
Definition binv s : Prop :=
  0 <= token s /\ (forall t, armed s = Some t -> t = token s /\ batch s <> []).

Lemma binv_init : binv (@b_init T).
Proof. split; cbn; [lia|discriminate]. Qed.

Lemma binv_step : forall p a s, binv s -> binv (snd (b_step p a s)).
Proof.
  intros p a s [Htok Harm]. destruct a as [x| |t|]; cbn [b_step snd]; try (split; assumption).
  - unfold b_add. split; cbn [token armed batch]; [assumption|].
    intros t Ht. destruct (is_nil (batch s) && delay p).
    + inversion Ht; subst. split; [reflexivity|]. destruct (batch s); discriminate.
    + destruct (Harm t Ht) as [-> _]. split; [reflexivity|]. destruct (batch s); discriminate.
  - unfold b_flush.
    destruct (is_nil (batch s) || (negb (t =? current_batch) && negb (token s =? t))); cbn [snd].
    + split; assumption.
    + split; cbn [token armed]; [lia|discriminate].
Qed.

Lemma binv_run : forall p acts s, binv s -> binv (snd (b_run p acts s)).
Proof.
  intros p acts. induction acts as [|a acts IH]; intros s H; [assumption|].
  rewrite b_run_cons. cbn [snd]. apply IH. now apply binv_step.
Qed.

(* tokens never decrease, and grow exactly when a non-empty batch is handed out *)
Lemma b_run_token : forall p acts s,
  token s <= token (snd (b_run p acts s)) /\
  (token (snd (b_run p acts s)) = token s -> concat (flushed_of (fst (b_run p acts s))) = []).
Proof.
  intros p acts. induction acts as [|a acts IH]; intros s.
  - cbn. split; [lia|reflexivity].
  - rewrite b_run_cons. cbn [fst snd]. rewrite flushed_cons.
    destruct a as [x| |t|]; cbn [b_step fst snd app]; try apply IH.
    + destruct (IH (b_add p x s)) as [H1 H2]. unfold b_add in *; cbn [token] in *. split; assumption.
    + destruct (IH (snd (b_flush t s))) as [H1 H2].
      unfold b_flush in *.
      destruct (is_nil (batch s) || (negb (t =? current_batch) && negb (token s =? t))); cbn [fst snd token] in *.
      * split; [assumption|]. intros E. cbn. now apply H2.
      * split; [lia|]. intros E. lia.
Qed.

(* ---- token_generation: a token delivered by the timer can only ever flush the batch it was set for ----
   s1: any reachable state in which the timer delivers t; acts2: anything at all happens; then Flush t hands out l <> []:
   nothing was handed out in between, and l is the batch that armed the timer, extended by what was added since. *)
Theorem token_generation_proof : forall p acts1 acts2 t l s3,
  let s1 := snd (b_run p acts1 (@b_init T)) in
  let r2 := b_run p acts2 s1 in
  b_fire s1 = Some t ->
  b_flush t (snd r2) = (l, s3) -> l <> [] ->
  concat (flushed_of (fst r2)) = [] /\ batch s1 <> [] /\ l = batch s1 ++ added_of acts2.
Proof.
  intros p acts1 acts2 t l s3 s1 r2 Hfire Hflush Hl.
  assert (I1 : binv s1) by (apply binv_run, binv_init).
  destruct I1 as [Htok1 Harm1]. destruct (Harm1 t Hfire) as [Et Hne].
  destruct (b_flush_nonempty _ _ _ _ Hflush Hl) as [Hwhich [El _]].
  destruct (b_run_token p acts2 s1) as [Hmono Hsame]. fold r2 in Hmono, Hsame.
  assert (Etok : token (snd r2) = token s1).
  { destruct Hwhich as [Hc|Hc]; [|congruence]. unfold current_batch in Hc. lia. }
  specialize (Hsame Etok). split; [assumption|]. split; [assumption|].
  pose proof (b_run_concat p acts2 s1) as Hcat. fold r2 in Hcat. rewrite Hsame in Hcat. cbn in Hcat. congruence.
Qed.

End BatcherProofs.
