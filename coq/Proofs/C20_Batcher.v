(* C20, part 1: the event batcher (Model/Batcher.v). Stdlib only. *)
From Coq Require Import List NArith ZArith Bool Lia.
From RV Require Import Model.Batcher.
Import ListNotations.
Open Scope Z_scope.

Section BatcherProofs.
Context {T : Type}.
Implicit Types (s : bstate T) (p : bparams) (a : baction T).

Lemma is_nil_true : forall {A} (l : list A), is_nil l = true -> l = [].
Proof. intros A [|x l] H; [reflexivity|discriminate]. Qed.

(* ---- one flush: what is returned leaves the batch; nothing else changes ---- *)
Lemma b_flush_split : forall t s, fst (b_flush t s) ++ batch (snd (b_flush t s)) = batch s.
Proof.
  intros t s. unfold b_flush.
  destruct (is_nil (batch s) || (negb (t =? current_batch) && negb (token s =? t))); cbn [fst snd batch].
  - reflexivity.
  - apply app_nil_r.
Qed.

(* ---- batcher_concat ---- *)
Lemma added_cons : forall a (acts : list (baction T)),
  added_of (a :: acts) = match a with BAdd x => [x] | _ => [] end ++ added_of acts.
Proof. reflexivity. Qed.
Lemma flushed_cons : forall e (evs : list (bevent T)),
  flushed_of (e :: evs) = match e with EFlushed _ l => [l] | _ => [] end ++ flushed_of evs.
Proof. reflexivity. Qed.
Lemma b_run_cons : forall p a acts s,
  b_run p (a :: acts) s =
  (fst (b_step p a s) :: fst (b_run p acts (snd (b_step p a s))), snd (b_run p acts (snd (b_step p a s)))).
Proof. reflexivity. Qed.

Lemma b_run_concat : forall p acts s,
  concat (flushed_of (fst (b_run p acts s))) ++ batch (snd (b_run p acts s)) = batch s ++ added_of acts.
Proof.
  intros p acts. induction acts as [|a acts IH]; intros s.
  - cbn. now rewrite app_nil_r.
  - rewrite b_run_cons, added_cons. cbn [fst snd]. rewrite flushed_cons.
    destruct a as [x| |t|]; cbn [b_step fst snd app].
    + rewrite IH. unfold b_add; cbn [batch]. now rewrite <- app_assoc.
    + rewrite IH. reflexivity.
    + cbn [concat]. rewrite <- app_assoc, IH, app_assoc, b_flush_split. reflexivity.
    + rewrite IH. reflexivity.
Qed.

Theorem batcher_concat_proof : forall p (acts : list (baction T)),
  concat (flushed_of (fst (b_run p acts b_init))) ++ batch (snd (b_run p acts b_init)) = added_of acts.
Proof. intros p acts. now rewrite b_run_concat. Qed.

(* ---- stale_token_noop ---- *)
Theorem stale_token_noop_proof : forall t s,
  t <> current_batch -> t <> token s -> b_flush t s = ([], s).
Proof.
  intros t s Hc Ht. unfold b_flush.
  assert (E1 : (t =? current_batch) = false) by now apply Z.eqb_neq.
  assert (E2 : (token s =? t) = false) by (apply Z.eqb_neq; congruence).
  rewrite E1, E2. cbn. now rewrite orb_true_r.
Qed.

(* a flush hands out something only for CurrentBatch or the current token, and then it hands out the whole batch *)
Lemma b_flush_nonempty : forall t s l s',
  b_flush t s = (l, s') -> l <> [] ->
  (t = current_batch \/ t = token s) /\ l = batch s /\ s' = mkB [] (token s + 1) None.
Proof.
  intros t s l s' H Hl. unfold b_flush in H.
  destruct (is_nil (batch s) || (negb (t =? current_batch) && negb (token s =? t))) eqn:E.
  - inversion H; subst. contradiction.
  - inversion H; subst. split; [|split; reflexivity].
    apply orb_false_iff in E. destruct E as [_ E]. apply andb_false_iff in E.
    destruct E as [E|E]; apply negb_false_iff in E; apply Z.eqb_eq in E; [left|right]; congruence.
Qed.

(* ---- reachable states: tokens count the batches handed out; an armed timer carries the current token ---- *)
Definition binv s : Prop :=
  0 <= token s /\ (forall t, armed s = Some t -> t = token s /\ batch s <> []).

Lemma binv_init : binv (@b_init T).
Proof. split; cbn; [lia|discriminate]. Qed.

Lemma binv_step : forall p a s, binv s -> binv (snd (b_step p a s)).
Proof.
  intros p a s [Htok Harm]. destruct a as [x| |t|]; cbn [b_step snd]; try (split; assumption).
  - unfold b_add. split; cbn [token armed batch]; [assumption|].
    intros t Ht. destruct (is_nil (batch s) && delay p).
    + inversion Ht; subst. split; [reflexivity|]. destruct (batch s); discriminate.
    + destruct (Harm t Ht) as [-> _]. split; [reflexivity|]. destruct (batch s); discriminate.
  - unfold b_flush.
    destruct (is_nil (batch s) || (negb (t =? current_batch) && negb (token s =? t))); cbn [snd].
    + split; assumption.
    + split; cbn [token armed]; [lia|discriminate].
Qed.

Lemma binv_run : forall p acts s, binv s -> binv (snd (b_run p acts s)).
Proof.
  intros p acts. induction acts as [|a acts IH]; intros s H; [assumption|].
  rewrite b_run_cons. cbn [snd]. apply IH. now apply binv_step.
Qed.

(* tokens never decrease, and grow exactly when a non-empty batch is handed out *)
Lemma b_run_token : forall p acts s,
  token s <= token (snd (b_run p acts s)) /\
  (token (snd (b_run p acts s)) = token s -> concat (flushed_of (fst (b_run p acts s))) = []).
Proof.
  intros p acts. induction acts as [|a acts IH]; intros s.
  - cbn. split; [lia|reflexivity].
  - rewrite b_run_cons. cbn [fst snd]. rewrite flushed_cons.
    destruct a as [x| |t|]; cbn [b_step fst snd app]; try apply IH.
    + destruct (IH (b_add p x s)) as [H1 H2]. unfold b_add in *; cbn [token] in *. split; assumption.
    + destruct (IH (snd (b_flush t s))) as [H1 H2].
      unfold b_flush in *.
      destruct (is_nil (batch s) || (negb (t =? current_batch) && negb (token s =? t))); cbn [fst snd token] in *.
      * split; [assumption|]. intros E. cbn. now apply H2.
      * split; [lia|]. intros E. lia.
Qed.

(* ---- token_generation: a token delivered by the timer can only ever flush the batch it was set for ----
   s1: any reachable state in which the timer delivers t; acts2: anything at all happens; then Flush t hands out l <> []:
   nothing was handed out in between, and l is the batch that armed the timer, extended by what was added since. *)
Theorem token_generation_proof : forall p acts1 acts2 t l s3,
  let s1 := snd (b_run p acts1 (@b_init T)) in
  let r2 := b_run p acts2 s1 in
  b_fire s1 = Some t ->
  b_flush t (snd r2) = (l, s3) -> l <> [] ->
  concat (flushed_of (fst r2)) = [] /\ batch s1 <> [] /\ l = batch s1 ++ added_of acts2.
Proof.
  intros p acts1 acts2 t l s3 s1 r2 Hfire Hflush Hl.
  assert (I1 : binv s1) by (apply binv_run, binv_init).
  destruct I1 as [Htok1 Harm1]. destruct (Harm1 t Hfire) as [Et Hne].
  destruct (b_flush_nonempty _ _ _ _ Hflush Hl) as [Hwhich [El _]].
  destruct (b_run_token p acts2 s1) as [Hmono Hsame]. fold r2 in Hmono, Hsame.
  assert (Etok : token (snd r2) = token s1).
  { destruct Hwhich as [Hc|Hc]; [|congruence]. unfold current_batch in Hc. lia. }
  specialize (Hsame Etok). split; [assumption|]. split; [assumption|].
  pose proof (b_run_concat p acts2 s1) as Hcat. fold r2 in Hcat. rewrite Hsame in Hcat. cbn in Hcat. congruence.
Qed.

(* ---- late time-out callbacks (XExpire / XDeliver): they never touch the batcher ---- *)
Lemma bx_run_cons : forall p (a : bxaction T) acts xs,
  bx_run p (a :: acts) xs =
  (fst (bx_step p a xs) :: fst (bx_run p acts (snd (bx_step p a xs))), snd (bx_run p acts (snd (bx_step p a xs)))).
Proof. reflexivity. Qed.

Lemma xb_events_cons : forall (e : bxevent T) evs,
  xb_events (e :: evs) = match e with XE e' => [e'] | _ => [] end ++ xb_events evs.
Proof. reflexivity. Qed.

Lemma bx_run_proj : forall p (acts : list (bxaction T)) xs,
  b_run p (xb_actions acts) (bx_b xs) = (xb_events (fst (bx_run p acts xs)), bx_b (snd (bx_run p acts xs))).
Proof.
  intros p acts. induction acts as [|a acts IH]; intros xs; [reflexivity|].
  rewrite bx_run_cons. cbn [fst snd]. rewrite xb_events_cons. destruct a as [a'| |i].
  - change (xb_actions (XB a' :: acts)) with (a' :: xb_actions acts). rewrite b_run_cons.
    cbn [bx_step fst snd bx_b app]. specialize (IH (mkBX (snd (b_step p a' (bx_b xs))) (bx_committed xs))).
    cbn [bx_b] in IH. rewrite IH. reflexivity.
  - change (xb_actions (XExpire :: acts)) with (xb_actions acts). cbn [bx_step].
    destruct (armed (bx_b xs)); cbn [fst snd app]; [|apply IH].
    exact (IH (mkBX (bx_b xs) (bx_committed xs ++ [z]))).
  - change (xb_actions (XDeliver i :: acts)) with (xb_actions acts). cbn [bx_step].
    destruct (nth_error (bx_committed xs) i); cbn [fst snd app]; [|apply IH].
    exact (IH (mkBX (bx_b xs) (drop_nth i (bx_committed xs)))).
Qed.

Theorem batcher_concat_late_proof : forall p (acts : list (bxaction T)),
  let r := bx_run p acts bx_init in
  concat (flushed_of (xb_events (fst r))) ++ batch (bx_b (snd r)) = added_of (xb_actions acts).
Proof.
  intros p acts r. pose proof (bx_run_proj p acts bx_init) as H. fold r in H.
  pose proof (batcher_concat_proof p (xb_actions acts)) as C. cbn [bx_init bx_b] in H. rewrite H in C. exact C.
Qed.

(* a committed callback carries a token that was current when it was set: never in the future, never negative *)
Definition bxinv (xs : bxstate T) : Prop :=
  binv (bx_b xs) /\ forall t, In t (bx_committed xs) -> 0 <= t <= token (bx_b xs).

Lemma in_drop_nth : forall {A} i (l : list A) x, In x (drop_nth i l) -> In x l.
Proof.
  intros A i l. revert i. induction l as [|y l IH]; intros i x H; cbn in *.
  - destruct i; contradiction.
  - destruct i as [|i]; cbn in H; [now right|]. destruct H as [H|H]; [now left|right; now apply (IH i)].
Qed.

Lemma bxinv_step : forall p (xa : bxaction T) xs, bxinv xs -> bxinv (snd (bx_step p xa xs)).
Proof.
  intros p xa xs [Hb Hc]. destruct xa as [a'| |i]; cbn [bx_step].
  - cbn [snd]. split; cbn [bx_b bx_committed]; [now apply binv_step|].
    intros t Ht. specialize (Hc t Ht).
    pose proof (b_run_token p [a'] (bx_b xs)) as [Hm _]. rewrite b_run_cons in Hm. cbn [snd b_run] in Hm. lia.
  - destruct (armed (bx_b xs)) as [t0|] eqn:Ea; cbn [snd]; [|now split].
    split; cbn [bx_b bx_committed]; [assumption|]. intros t Ht. apply in_app_or in Ht. destruct Ht as [Ht|[Ht|[]]].
    + now apply Hc.
    + subst t0. destruct Hb as [H0 Harm]. destruct (Harm t Ea) as [-> _]. lia.
  - destruct (nth_error (bx_committed xs) i); cbn [snd]; [|now split].
    split; cbn [bx_b bx_committed]; [assumption|]. intros t Ht. apply Hc. now apply in_drop_nth in Ht.
Qed.

Lemma bxinv_run : forall p (acts : list (bxaction T)) xs, bxinv xs -> bxinv (snd (bx_run p acts xs)).
Proof.
  intros p acts. induction acts as [|xa acts IH]; intros xs H; [assumption|].
  rewrite bx_run_cons. cbn [snd]. apply IH. now apply bxinv_step.
Qed.

Lemma bxinv_init : bxinv (@bx_init T).
Proof. split; [apply binv_init|]. intros t []. Qed.

(* The token of a committed callback flushes something only while its own batch is still the current one and nothing has been
   handed out since; the time-out of an already flushed batch flushes nothing, however late its callback runs. *)
Theorem late_timeout_generation_proof : forall p (acts1 acts2 : list (bxaction T)) t l s3,
  let xs1 := snd (bx_run p acts1 bx_init) in
  let r2 := bx_run p acts2 xs1 in
  In t (bx_committed xs1) ->
  b_flush t (bx_b (snd r2)) = (l, s3) -> l <> [] ->
  t = token (bx_b xs1) /\ concat (flushed_of (xb_events (fst r2))) = [].
Proof.
  intros p acts1 acts2 t l s3 xs1 r2 Hin Hflush Hl.
  assert (I1 : bxinv xs1) by (apply bxinv_run, bxinv_init). destruct I1 as [_ Hc]. specialize (Hc t Hin).
  destruct (b_flush_nonempty _ _ _ _ Hflush Hl) as [Hwhich _].
  pose proof (bx_run_proj p acts2 xs1) as P. fold r2 in P.
  destruct (b_run_token p (xb_actions acts2) (bx_b xs1)) as [Hmono Hsame]. rewrite P in Hmono, Hsame. cbn [fst snd] in Hmono, Hsame.
  assert (Etok : token (bx_b (snd r2)) = token (bx_b xs1)).
  { destruct Hwhich as [E|E]; [unfold current_batch in E; lia|lia]. }
  split; [destruct Hwhich as [E|E]; [unfold current_batch in E; lia|lia]|now apply Hsame].
Qed.

Theorem late_timeout_of_flushed_batch_noop_proof : forall p (acts : list (bxaction T)) t,
  let xs := snd (bx_run p acts bx_init) in
  In t (bx_committed xs) -> t <> token (bx_b xs) -> b_flush t (bx_b xs) = ([], bx_b xs).
Proof.
  intros p acts t xs Hin Hne. assert (I : bxinv xs) by (apply bxinv_run, bxinv_init). destruct I as [_ Hc].
  specialize (Hc t Hin). apply stale_token_noop_proof; [unfold current_batch; lia|assumption].
Qed.

End BatcherProofs.
