(* C16, Kinesis splitter: invariants of the SplitTracker-based splitter model over all histories of
   stream growth (splits / merges), discovery rounds and finished shards; consequences: a shard is
   handed out at most once and only after all its parents are finished; a restore from a checkpoint
   re-establishes the invariant when no known shard below LastAssignedShardId was unassigned. *)
From Coq Require Import List NArith Bool Lia ZifyN ZifyNat ZifyBool.
From RV Require Import Model.SplitTracker Model.Splitters Proofs.C16_Static.
Import ListNotations.
Open Scope N_scope.

(* ---------- membership facts about the tracker's containers ---------- *)

Lemma known_b_set : forall l s i, known_b i (set_shard s l) = (sid s =? i) || known_b i l.
Proof.
  unfold known_b. induction l as [|x r IH]; intros s i; cbn [set_shard existsb].
  - reflexivity.
  - destruct (sid s <? sid x) eqn:E1; cbn [existsb]; [reflexivity|].
    destruct (sid s =? sid x) eqn:E2; cbn [existsb].
    + apply N.eqb_eq in E2. rewrite E2. destruct (sid x =? i); reflexivity.
    + rewrite IH. destruct (sid x =? i), (sid s =? i); reflexivity.
Qed.

Lemma known_b_fold : forall shs l i,
  known_b i (fold_left (fun k s => set_shard s k) shs l) = existsb (fun s => sid s =? i) shs || known_b i l.
Proof.
  induction shs as [|s r IH]; intros l i; cbn [fold_left existsb]; [reflexivity|].
  rewrite IH, known_b_set. destruct (sid s =? i), (existsb _ r); reflexivity.
Qed.

Lemma in_set_shard : forall l s x, In x (set_shard s l) -> x = s \/ In x l.
Proof.
  induction l as [|y r IH]; intros s x H; cbn [set_shard] in H.
  - destruct H as [H|[]]; left; auto.
  - destruct (sid s <? sid y); [destruct H as [H|H]; [left; auto|right; exact H]|].
    destruct (sid s =? sid y).
    + destruct H as [H|H]; [left; auto|right; right; exact H].
    + destruct H as [H|H]; [right; left; exact H|]. apply IH in H. destruct H; [left|right; right]; assumption.
Qed.

Lemma in_fold_set : forall shs l x, In x (fold_left (fun k s => set_shard s k) shs l) -> In x shs \/ In x l.
Proof.
  induction shs as [|s r IH]; intros l x H; cbn [fold_left] in H; [right; exact H|].
  apply IH in H. destruct H as [H|H]; [left; right; exact H|]. apply in_set_shard in H. destruct H as [->|H]; [left; left; reflexivity|right; exact H].
Qed.

Lemma known_b_in : forall l i, known_b i l = true <-> exists x, In x l /\ sid x = i.
Proof.
  intros l i. unfold known_b. rewrite existsb_exists. split; intros [x [H1 H2]]; exists x; split; auto; apply N.eqb_eq; auto.
Qed.

Lemma known_b_del : forall l j i, known_b i (del_shard j l) = known_b i l && negb (i =? j).
Proof.
  unfold known_b, del_shard. induction l as [|x r IH]; intros j i; cbn [filter existsb]; [reflexivity|].
  destruct (sid x =? j) eqn:E; cbn [negb existsb].
  - rewrite IH. apply N.eqb_eq in E. subst j. destruct (sid x =? i) eqn:E2; cbn [orb].
    + apply N.eqb_eq in E2. subst i. rewrite N.eqb_refl. cbn. rewrite andb_false_r. reflexivity.
    + reflexivity.
  - rewrite IH. destruct (sid x =? i) eqn:E2; cbn [orb]; [|reflexivity].
    apply N.eqb_eq in E2. subst i. rewrite E. reflexivity.
Qed.

Lemma known_b_del_fold : forall ids l i,
  known_b i (fold_left (fun k j => del_shard j k) ids l) = known_b i l && negb (mem i ids).
Proof.
  induction ids as [|j r IH]; intros l i; cbn [fold_left mem]; [rewrite andb_true_r; reflexivity|].
  rewrite IH, known_b_del. rewrite (N.eqb_sym j i). destruct (known_b i l), (i =? j), (mem i r); reflexivity.
Qed.

Lemma in_del_fold : forall ids l x, In x (fold_left (fun k j => del_shard j k) ids l) -> In x l.
Proof.
  induction ids as [|j r IH]; intros l x H; cbn [fold_left] in H; [exact H|].
  apply IH in H. unfold del_shard in H. apply filter_In in H. tauto.
Qed.

Lemma mem_ins : forall l j i, mem i (ins_id j l) = (j =? i) || mem i l.
Proof.
  induction l as [|x r IH]; intros j i; cbn [ins_id mem]; [reflexivity|].
  destruct (j <? x); cbn [mem]; [reflexivity|]. destruct (j =? x) eqn:E; cbn [mem].
  - apply N.eqb_eq in E. subst. destruct (x =? i); reflexivity.
  - rewrite IH. destruct (x =? i), (j =? i); reflexivity.
Qed.

Lemma mem_ins_fold : forall shs l i,
  mem i (fold_left (fun a s => ins_id (sid s) a) shs l) = existsb (fun s => sid s =? i) shs || mem i l.
Proof.
  induction shs as [|s r IH]; intros l i; cbn [fold_left existsb]; [reflexivity|].
  rewrite IH, mem_ins. destruct (sid s =? i), (existsb _ r); reflexivity.
Qed.

Lemma mem_del : forall l j i, mem i (del_id j l) = mem i l && negb (i =? j).
Proof.
  unfold del_id. induction l as [|x r IH]; intros j i; cbn [filter mem]; [reflexivity|].
  destruct (x =? j) eqn:E; cbn [negb mem].
  - rewrite IH. apply N.eqb_eq in E. subst j. destruct (x =? i) eqn:E2; cbn [orb]; [|reflexivity].
    apply N.eqb_eq in E2. subst i. rewrite N.eqb_refl. cbn. rewrite andb_false_r. reflexivity.
  - rewrite IH. destruct (x =? i) eqn:E2; cbn [orb]; [|reflexivity]. apply N.eqb_eq in E2. subst i. rewrite E. reflexivity.
Qed.

Lemma mem_del_fold : forall ids l i,
  mem i (fold_left (fun a j => del_id j a) ids l) = mem i l && negb (mem i ids).
Proof.
  induction ids as [|j r IH]; intros l i; cbn [fold_left mem]; [rewrite andb_true_r; reflexivity|].
  rewrite IH, mem_del. rewrite (N.eqb_sym j i). destruct (mem i l), (i =? j), (mem i r); reflexivity.
Qed.

Lemma mem_app : forall a b i, mem i (a ++ b) = mem i a || mem i b.
Proof. induction a as [|x r IH]; intros b i; cbn [app mem]; [reflexivity|]. rewrite IH. destruct (x =? i); reflexivity. Qed.

Lemma mem_in : forall l i, mem i l = true <-> In i l.
Proof.
  induction l as [|x r IH]; intro i; cbn [mem In]; [split; [discriminate|tauto]|].
  rewrite orb_true_iff, IH, N.eqb_eq. tauto.
Qed.

Lemma max_fold_ge : forall shs m, m <= fold_left (fun m s => N.max m (sid s)) shs m.
Proof. induction shs as [|s r IH]; intro m; cbn [fold_left]; [lia|]. specialize (IH (N.max m (sid s))). lia. Qed.

Lemma max_fold_in : forall shs m s, In s shs -> sid s <= fold_left (fun m s => N.max m (sid s)) shs m.
Proof.
  induction shs as [|x r IH]; intros m s H; [destruct H|]. cbn [fold_left]. destruct H as [->|H].
  - pose proof (max_fold_ge r (N.max m (sid s))). lia.
  - apply IH. exact H.
Qed.

(* the new maximum is the old one or the id of one of the shards *)
Lemma max_fold_cases : forall shs m, fold_left (fun m s => N.max m (sid s)) shs m = m \/
  exists s, In s shs /\ fold_left (fun m s => N.max m (sid s)) shs m = sid s.
Proof.
  induction shs as [|x r IH]; intro m; cbn [fold_left]; [left; reflexivity|].
  destruct (IH (N.max m (sid x))) as [H|[s [Hin H]]].
  - rewrite H. destruct (N.max_spec m (sid x)) as [[_ E]|[_ E]]; rewrite E; [right; exists x; split; [left; reflexivity|reflexivity] | left; reflexivity].
  - right. exists s. split; [right; exact Hin|exact H].
Qed.

(* ---------- the system: stream, splitter, finished shards, assignment history ---------- *)

Record sys := mkSys {
  stream : list shard;
  trk_ : tracker;
  fin : list N;          (* shards whose readers reported them finished *)
  hist : list N          (* shards handed out since the splitter started *)
}.

Inductive kop :=
| OAppend (sh : list shard)     (* the stream grew: SplitShard / MergeShards *)
| OTick                         (* discovery round *)
| OFinish (ids : list N).       (* NotifySplitsFinished *)

Definition tick_tracker (st : list shard) (t : tracker) : tracker := add_splits (list_after st (last t)) t.

(* the shards handed out by an op, and the state after it (tracker part of k_tick / k_finish) *)
Definition pending (s : sys) (op : kop) : list shard :=
  match op with
  | OAppend _ => []
  | OTick => available (tick_tracker (stream s) (trk_ s))
  | OFinish ids => available (remove_splits ids (trk_ s))
  end.

Definition sys_step (s : sys) (op : kop) : sys :=
  match op with
  | OAppend sh => mkSys (stream s ++ sh) (trk_ s) (fin s) (hist s)
  | OTick => let t1 := tick_tracker (stream s) (trk_ s) in
             mkSys (stream s) (track_assigned (available t1) t1) (fin s) (map sid (available t1) ++ hist s)
  | OFinish ids => let t1 := remove_splits ids (trk_ s) in
             mkSys (stream s) (track_assigned (available t1) t1) (ids ++ fin s) (map sid (available t1) ++ hist s)
  end.

(* the model functions compute exactly these trackers *)
Lemma track_nil : forall t, track_assigned [] t = t.
Proof. intros [k a l]. reflexivity. Qed.

Lemma assign_shards_trk : forall n k p, trk (fst (assign_shards_gen true n k p)) = track_assigned p (trk k).
Proof. intros n k [|x p]; cbn [assign_shards_gen fst trk]; [rewrite track_nil; reflexivity|reflexivity]. Qed.

Lemma k_tick_tracker : forall n st k, trk (fst (k_tick n st k)) =
  track_assigned (available (tick_tracker st (trk k))) (tick_tracker st (trk k)).
Proof. intros. unfold k_tick, k_tick_gen. rewrite assign_shards_trk. reflexivity. Qed.

Lemma k_finish_tracker : forall n ids k, trk (fst (k_finish n ids k)) =
  track_assigned (available (remove_splits ids (trk k))) (remove_splits ids (trk k)).
Proof. intros. unfold k_finish, k_finish_gen. rewrite assign_shards_trk. reflexivity. Qed.

(* ---------- validity of a history step ---------- *)

Definition wf_stream (st : list shard) : Prop :=
  forall x, In x st -> 0 < sid x /\ forall p, In p (parents x) -> p < sid x /\ exists y, In y st /\ sid y = p.

Definition valid_op (s : sys) (op : kop) : Prop :=
  match op with
  | OAppend sh => wf_stream (stream s ++ sh) /\ forall x y, In x sh -> In y (stream s) -> sid y < sid x
  | OTick => True
  | OFinish ids => forall i, In i ids -> mem i (assigned (trk_ s)) = true   (* readers finish what they were given *)
  end.

(* ---------- the invariant ---------- *)

Definition seen (t : tracker) (i : N) : Prop := i <= last t \/ exists x, In x (known t) /\ i <= sid x.

Record Inv (s : sys) : Prop := mkInv {
  I_wf : wf_stream (stream s);
  I_known : forall x, In x (known (trk_ s)) -> In x (stream s);
  I_assigned : forall i, mem i (assigned (trk_ s)) = true -> known_b i (known (trk_ s)) = true /\ i <= last (trk_ s);
  I_seen : forall y, In y (stream s) -> seen (trk_ s) (sid y) -> known_b (sid y) (known (trk_ s)) = true \/ mem (sid y) (fin s) = true;
  I_fin : forall i, mem i (fin s) = true -> known_b i (known (trk_ s)) = false /\ i <= last (trk_ s);
  I_last : last (trk_ s) = 0 \/ exists y, In y (stream s) /\ sid y = last (trk_ s);
  I_hist : forall i, In i (hist s) -> mem i (assigned (trk_ s)) = true \/ mem i (fin s) = true
}.

(* tracking the available shards of a tracker that satisfies the invariant *)
Lemma inv_track_available : forall st t f h,
  Inv (mkSys st t f h) -> Inv (mkSys st (track_assigned (available t) t) f (map sid (available t) ++ h)).
Proof.
  intros st t f h [Hwf Hk Ha Hs Hf Hl Hh]; cbn [stream trk_ fin hist] in *.
  set (p := available t).
  assert (Hp : forall x, In x p -> In x (known t)) by (intros x Hx; unfold p, available in Hx; apply filter_In in Hx; tauto).
  constructor; cbn [stream trk_ fin hist track_assigned track_assigned_gen known assigned last].
  - exact Hwf.
  - exact Hk.
  - intros i Hi. rewrite mem_ins_fold in Hi. apply orb_true_iff in Hi. destruct Hi as [Hi|Hi].
    + apply existsb_exists in Hi. destruct Hi as [x [Hx Hi]]. apply N.eqb_eq in Hi. subst i. split.
      * apply known_b_in. exists x. split; [apply Hp; exact Hx|reflexivity].
      * apply max_fold_in. exact Hx.
    + destruct (Ha i Hi) as [H1 H2]. split; [exact H1|]. pose proof (max_fold_ge p (last t)). lia.
  - intros y Hy Hseen. apply Hs; [exact Hy|]. unfold seen in Hseen. cbn [track_assigned track_assigned_gen known last] in Hseen.
    destruct Hseen as [Hle|Hex]; [|right; exact Hex]. destruct (max_fold_cases p (last t)) as [E|[x [Hx E]]]; rewrite E in Hle.
    + left. exact Hle.
    + right. exists x. split; [apply Hp; exact Hx|exact Hle].
  - intros i Hi. destruct (Hf i Hi) as [H1 H2]. split; [exact H1|]. pose proof (max_fold_ge p (last t)). lia.
  - destruct (max_fold_cases p (last t)) as [E|[x [Hx E]]]; rewrite E.
    + exact Hl.
    + right. exists x. split; [apply Hk; apply Hp; exact Hx|reflexivity].
  - intros i Hi. apply in_app_or in Hi. rewrite mem_ins_fold. destruct Hi as [Hi|Hi].
    + left. apply orb_true_iff. left. apply in_map_iff in Hi. destruct Hi as [x [E Hx]]. apply existsb_exists. exists x. split; [exact Hx|apply N.eqb_eq; exact E].
    + destruct (Hh i Hi) as [H|H]; [left; rewrite H; apply orb_true_r | right; exact H].
Qed.

Lemma in_list_after : forall st a y, In y (list_after st a) <-> In y st /\ a < sid y.
Proof. intros. unfold list_after. rewrite filter_In, N.ltb_lt. tauto. Qed.

(* discovery *)
Lemma inv_discover : forall st t f h, Inv (mkSys st t f h) -> Inv (mkSys st (tick_tracker st t) f h).
Proof.
  intros st t f h [Hwf Hk Ha Hs Hf Hl Hh]; cbn [stream trk_ fin hist] in *.
  constructor; cbn [stream trk_ fin hist tick_tracker add_splits known assigned last].
  - exact Hwf.
  - intros x Hx. apply in_fold_set in Hx. destruct Hx as [Hx|Hx]; [apply in_list_after in Hx; tauto|apply Hk; exact Hx].
  - intros i Hi. destruct (Ha i Hi) as [H1 H2]. split; [|exact H2]. rewrite known_b_fold, H1. apply orb_true_r.
  - (* after listing everything beyond [last], every shard of the stream is known or finished *)
    intros y Hy _. rewrite known_b_fold. destruct (N.lt_ge_cases (last t) (sid y)) as [Hgt|Hle].
    + left. apply orb_true_iff. left. apply existsb_exists. exists y. split; [apply in_list_after; split; assumption|apply N.eqb_refl].
    + destruct (Hs y Hy (or_introl Hle)) as [H|H]; [left; rewrite H; apply orb_true_r|right; exact H].
  - intros i Hi. destruct (Hf i Hi) as [H1 H2]. split; [|exact H2]. rewrite known_b_fold, H1, orb_false_r.
    apply not_true_iff_false. intro Hex. apply existsb_exists in Hex. destruct Hex as [x [Hx E]]. apply in_list_after in Hx. apply N.eqb_eq in E. lia.
  - exact Hl.
  - exact Hh.
Qed.

(* finished shards are removed *)
Lemma inv_remove : forall st t f h ids,
  Inv (mkSys st t f h) -> (forall i, In i ids -> mem i (assigned t) = true) ->
  Inv (mkSys st (remove_splits ids t) (ids ++ f) h).
Proof.
  intros st t f h ids [Hwf Hk Ha Hs Hf Hl Hh] Hv; cbn [stream trk_ fin hist] in *.
  constructor; cbn [stream trk_ fin hist remove_splits known assigned last].
  - exact Hwf.
  - intros x Hx. apply Hk. eapply in_del_fold. exact Hx.
  - intros i Hi. rewrite mem_del_fold in Hi. apply andb_true_iff in Hi. destruct Hi as [Hi Hn].
    destruct (Ha i Hi) as [H1 H2]. split; [|exact H2]. rewrite known_b_del_fold, H1, Hn. reflexivity.
  - intros y Hy Hseen. rewrite known_b_del_fold, mem_app.
    assert (Hseen' : seen t (sid y)).
    { destruct Hseen as [H|[x [Hx H]]]; [left; exact H|right; exists x; split; [eapply in_del_fold; exact Hx|exact H]]. }
    destruct (Hs y Hy Hseen') as [H|H].
    + destruct (mem (sid y) ids) eqn:E; [right; reflexivity|left; rewrite H; reflexivity].
    + right. rewrite H. apply orb_true_r.
  - intros i Hi. rewrite mem_app in Hi. apply orb_true_iff in Hi. rewrite known_b_del_fold. destruct Hi as [Hi|Hi].
    + rewrite Hi. split; [apply andb_false_r|]. apply mem_in in Hi. destruct (Ha i (Hv i Hi)) as [_ H]. exact H.
    + destruct (Hf i Hi) as [H1 H2]. rewrite H1. split; [reflexivity|exact H2].
  - exact Hl.
  - intros i Hi. rewrite mem_del_fold, mem_app. destruct (Hh i Hi) as [H|H].
    + destruct (mem i ids) eqn:E; [right; reflexivity|left; rewrite H; reflexivity].
    + right. rewrite H. apply orb_true_r.
Qed.

Lemma inv_append : forall st t f h sh,
  Inv (mkSys st t f h) -> wf_stream (st ++ sh) -> (forall x y, In x sh -> In y st -> sid y < sid x) ->
  Inv (mkSys (st ++ sh) t f h).
Proof.
  intros st t f h sh [Hwf Hk Ha Hs Hf Hl Hh] Hwf' Hnew; cbn [stream trk_ fin hist] in *.
  constructor; cbn [stream trk_ fin hist]; try assumption.
  - intros x Hx. apply in_or_app. left. apply Hk. exact Hx.
  - intros y Hy Hseen. apply in_app_or in Hy. destruct Hy as [Hy|Hy]; [apply Hs; assumption|]. exfalso.
    (* a new shard is beyond everything the tracker has seen *)
    destruct Hseen as [Hle|[x [Hx Hle]]].
    + destruct Hl as [H0|[z [Hz E]]].
      * destruct (Hwf' y (in_or_app _ _ _ (or_intror Hy))) as [Hpos _]. lia.
      * specialize (Hnew y z Hy Hz). lia.
    + specialize (Hnew y x Hy (Hk x Hx)). lia.
  - destruct Hl as [H0|[z [Hz E]]]; [left; exact H0|right; exists z; split; [apply in_or_app; left; exact Hz|exact E]].
Qed.

Theorem inv_step : forall s op, Inv s -> valid_op s op -> Inv (sys_step s op).
Proof.
  intros [st t f h] op HI Hv. destruct op as [sh| |ids]; cbn [sys_step stream trk_ fin hist valid_op] in *.
  - destruct Hv as [Hwf Hnew]. apply inv_append; assumption.
  - apply inv_track_available. apply inv_discover. exact HI.
  - apply inv_track_available. apply inv_remove; assumption.
Qed.

(* ---------- consequences for one step ---------- *)

(* the state in which the available shards are computed *)
Definition mid (s : sys) (op : kop) : sys :=
  match op with
  | OAppend sh => s
  | OTick => mkSys (stream s) (tick_tracker (stream s) (trk_ s)) (fin s) (hist s)
  | OFinish ids => mkSys (stream s) (remove_splits ids (trk_ s)) (ids ++ fin s) (hist s)
  end.

Lemma inv_mid : forall s op, Inv s -> valid_op s op -> Inv (mid s op).
Proof.
  intros [st t f h] op HI Hv. destruct op as [sh| |ids]; cbn [mid stream trk_ fin hist valid_op] in *.
  - exact HI.
  - apply inv_discover. exact HI.
  - apply inv_remove; assumption.
Qed.

Lemma pending_is_available : forall s op, pending s op = match op with OAppend _ => [] | _ => available (trk_ (mid s op)) end.
Proof. intros s [sh| |ids]; reflexivity. Qed.

Lemma available_facts : forall s c, Inv s -> In c (available (trk_ s)) ->
  In c (stream s) /\ mem (sid c) (assigned (trk_ s)) = false /\ mem (sid c) (fin s) = false /\
  ~ In (sid c) (hist s) /\
  forall q, In q (parents c) -> mem q (fin s) = true.
Proof.
  intros s c [Hwf Hk Ha Hs Hf Hl Hh] Hc. unfold available in Hc. apply filter_In in Hc. destruct Hc as [Hck Hav].
  unfold avail_b in Hav. apply andb_true_iff in Hav. destruct Hav as [Hna Hnp]. apply negb_true_iff in Hna, Hnp.
  assert (Hkb : known_b (sid c) (known (trk_ s)) = true) by (apply known_b_in; exists c; split; [exact Hck|reflexivity]).
  assert (Hnf : mem (sid c) (fin s) = false).
  { destruct (mem (sid c) (fin s)) eqn:E; [|reflexivity]. destruct (Hf _ E) as [H _]. congruence. }
  split; [apply Hk; exact Hck|]. split; [exact Hna|]. split; [exact Hnf|]. split.
  - intro Hin. destruct (Hh _ Hin) as [H|H]; congruence.
  - intros q Hq. destruct (Hwf c (Hk c Hck)) as [_ Hpar]. destruct (Hpar q Hq) as [Hlt [y [Hy Ey]]].
    assert (Hseen : seen (trk_ s) (sid y)) by (right; exists c; split; [exact Hck|lia]).
    destruct (Hs y Hy Hseen) as [H|H]; [|rewrite <- Ey; exact H]. exfalso.
    (* a known parent would have withheld c *)
    assert (Hex : existsb (fun p => known_b p (known (trk_ s))) (parents c) = true).
    { apply existsb_exists. exists q. split; [exact Hq|rewrite <- Ey; exact H]. }
    congruence.
Qed.

(* One step of a valid history: every shard handed out (i) has not been handed out since the splitter
   started, (ii) is not finished, (iii) has all its parents finished. *)
Theorem step_hands_out_correctly : forall s op c, Inv s -> valid_op s op -> In c (pending s op) ->
  ~ In (sid c) (hist s) /\ mem (sid c) (fin (mid s op)) = false /\
  forall q, In q (parents c) -> mem q (fin (mid s op)) = true.
Proof.
  intros s op c HI Hv Hc. pose proof (inv_mid s op HI Hv) as Hm. rewrite pending_is_available in Hc.
  destruct op as [sh| |ids]; [destruct Hc| |];
    destruct (available_facts _ c Hm Hc) as [_ [_ [Hnf [Hnh Hpar]]]]; cbn [mid hist] in Hnh; auto.
Qed.

(* ---------- whole histories ---------- *)

Fixpoint valid_history (s : sys) (ops : list kop) : Prop :=
  match ops with
  | [] => True
  | op :: r => valid_op s op /\ valid_history (sys_step s op) r
  end.

Definition run_ops (s : sys) (ops : list kop) : sys := fold_left sys_step ops s.

Lemma inv_history : forall ops s, Inv s -> valid_history s ops -> Inv (run_ops s ops).
Proof.
  induction ops as [|op r IH]; intros s HI Hv; cbn [run_ops fold_left]; [exact HI|].
  destruct Hv as [Hv1 Hv2]. apply IH; [apply inv_step; assumption|exact Hv2].
Qed.

(* the state right after Start (nil checkpoint or a restore): the tracker after loading + discovery *)
Definition started (st : list shard) (t : tracker) (f : list N) : sys :=
  mkSys st (track_assigned (available t) t) f (map sid (available t)).

Lemma inv_fresh_start : forall st, wf_stream st ->
  Inv (started st (tick_tracker st new_tracker) []).
Proof.
  intros st Hwf. unfold started. rewrite <- (app_nil_r (map sid _)). apply inv_track_available. apply inv_discover.
  constructor; cbn [stream trk_ fin hist new_tracker known assigned last mem].
  - exact Hwf.
  - intros x [].
  - discriminate.
  - intros y Hy [Hle|[x [[] _]]]. unfold new_tracker in Hle. cbn [last] in Hle. destruct (Hwf y Hy) as [Hpos _]. lia.
  - discriminate.
  - left. reflexivity.
  - intros i [].
Qed.

(* a fresh Start computes this tracker *)
Lemma k_start_fresh_tracker : forall n st,
  trk (fst (k_start n st [] 0 [])) = track_assigned (available (tick_tracker st new_tracker)) (tick_tracker st new_tracker).
Proof. intros. unfold k_start, k_start_gen. rewrite assign_shards_trk. reflexivity. Qed.

(* ---------- restore ---------- *)

(* the checkpoint loses nothing when every known shard up to LastAssignedShardId is assigned *)
Definition no_loss (t : tracker) : Prop :=
  forall x, In x (known t) -> sid x <= last t -> mem (sid x) (assigned t) = true.

Definition restored_tracker (t : tracker) : tracker := load_splits (assigned_splits t) (last t) new_tracker.

Lemma in_assigned_splits : forall t x, (forall i, mem i (assigned t) = true -> known_b i (known t) = true) ->
  In x (assigned_splits t) -> In x (known t) /\ mem (sid x) (assigned t) = true.
Proof.
  intros t x Hsub Hx. unfold assigned_splits in Hx. apply in_map_iff in Hx. destruct Hx as [i [E Hi]].
  apply mem_in in Hi. pose proof (Hsub i Hi) as Hkb. destruct (get_shard i (known t)) as [s|] eqn:Eg.
  - subst x. assert (Hg : In s (known t) /\ sid s = i).
    { clear -Eg. induction (known t) as [|y r IH]; cbn [get_shard] in Eg; [discriminate|].
      destruct (sid y =? i) eqn:E; [inversion Eg; subst; split; [left; reflexivity|apply N.eqb_eq; exact E] | destruct (IH Eg); split; [right|]; assumption]. }
    destruct Hg as [Hin Hid]. split; [exact Hin|rewrite Hid; exact Hi].
  - exfalso. apply known_b_in in Hkb. destruct Hkb as [y [Hy Ey]]. clear -Eg Hy Ey.
    induction (known t) as [|z r IH]; [destruct Hy|]. cbn [get_shard] in Eg. destruct (sid z =? i) eqn:E; [discriminate|].
    destruct Hy as [->|Hy]; [rewrite Ey, N.eqb_refl in E; discriminate|apply IH; assumption].
Qed.

Lemma assigned_splits_complete : forall t i, (forall i, mem i (assigned t) = true -> known_b i (known t) = true) ->
  mem i (assigned t) = true -> existsb (fun s => sid s =? i) (assigned_splits t) = true.
Proof.
  intros t i Hsub Hi. apply existsb_exists. pose proof (Hsub i Hi) as Hkb.
  destruct (get_shard i (known t)) as [s|] eqn:Eg.
  - exists s. split.
    + unfold assigned_splits. apply in_map_iff. exists i. rewrite Eg. split; [reflexivity|apply mem_in; exact Hi].
    + clear -Eg. induction (known t) as [|y r IH]; cbn [get_shard] in Eg; [discriminate|].
      destruct (sid y =? i) eqn:E; [inversion Eg; subst; exact E|apply IH; exact Eg].
  - exfalso. apply known_b_in in Hkb. destruct Hkb as [y [Hy Ey]]. clear -Eg Hy Ey.
    induction (known t) as [|z r IH]; [destruct Hy|]. cbn [get_shard] in Eg. destruct (sid z =? i) eqn:E; [discriminate|].
    destruct Hy as [->|Hy]; [rewrite Ey, N.eqb_refl in E; discriminate|apply IH; assumption].
Qed.

(* Restoring from a checkpoint taken in state s (no loss), with the finished set of that moment, on a stream
   that may have grown since: the invariant holds again, so everything above applies to the new run. *)
Theorem inv_restore : forall s st', Inv s -> no_loss (trk_ s) ->
  (exists sh, st' = stream s ++ sh /\ wf_stream st' /\ forall x y, In x sh -> In y (stream s) -> sid y < sid x) ->
  Inv (started st' (tick_tracker st' (restored_tracker (trk_ s))) (fin s)).
Proof.
  intros [st t f h] st' HI Hnl [sh [-> [Hwf' Hnew]]]. cbn [stream trk_ fin] in *.
  pose proof HI as [Hwf Hk Ha Hs Hf Hl Hh]; cbn [stream trk_ fin hist] in *.
  assert (Hsub : forall i, mem i (assigned t) = true -> known_b i (known t) = true) by (intros i Hi; apply Ha; exact Hi).
  unfold started. rewrite <- (app_nil_r (map sid _)). apply inv_track_available. apply inv_discover.
  unfold restored_tracker, load_splits. cbn [new_tracker known assigned last].
  constructor; cbn [stream trk_ fin hist known assigned last mem].
  - exact Hwf'.
  - intros x Hx. apply in_fold_set in Hx. destruct Hx as [Hx|[]]. apply in_or_app. left. apply Hk. apply (in_assigned_splits t x Hsub Hx).
  - discriminate.
  - intros y Hy Hseen. rewrite known_b_fold. cbn [known_b existsb]. rewrite orb_false_r.
    assert (Hle : sid y <= last t).
    { destruct Hseen as [H|[x [Hx H]]]; [exact H|]. apply in_fold_set in Hx. destruct Hx as [Hx|[]].
      destruct (in_assigned_splits t x Hsub Hx) as [_ Hm]. destruct (Ha _ Hm) as [_ H2]. lia. }
    assert (Hy0 : In y st).
    { apply in_app_or in Hy. destruct Hy as [Hy|Hy]; [exact Hy|]. exfalso. destruct Hl as [H0|[z [Hz E]]].
      - destruct (Hwf' y (in_or_app _ _ _ (or_intror Hy))) as [Hpos _]. lia.
      - specialize (Hnew y z Hy Hz). lia. }
    destruct (Hs y Hy0 (or_introl Hle)) as [H|H]; [|right; exact H]. left.
    apply known_b_in in H. destruct H as [x [Hx Ex]]. apply assigned_splits_complete; [exact Hsub|].
    rewrite <- Ex. apply Hnl; [exact Hx|lia].
  - intros i Hi. destruct (Hf i Hi) as [H1 H2]. split; [|exact H2]. rewrite known_b_fold. cbn [known_b existsb]. rewrite orb_false_r.
    apply not_true_iff_false. intro Hex. apply existsb_exists in Hex. destruct Hex as [x [Hx E]]. apply N.eqb_eq in E.
    destruct (in_assigned_splits t x Hsub Hx) as [Hin _]. assert (known_b i (known t) = true) by (apply known_b_in; exists x; split; assumption). congruence.
  - destruct Hl as [H0|[z [Hz E]]]; [left; exact H0|right; exists z; split; [apply in_or_app; left; exact Hz|exact E]].
  - intros i [].
Qed.

(* k_start with a checkpoint computes this tracker *)
Lemma k_start_restore_tracker : forall n st k states,
  trk (fst (k_start n st (fst (k_checkpoint k)) (snd (k_checkpoint k)) states)) =
  let t1 := tick_tracker st (restored_tracker (trk k)) in track_assigned (available t1) t1.
Proof. intros. unfold k_start, k_start_gen. rewrite assign_shards_trk. reflexivity. Qed.

(* ---------- the unrepaired defect (D24b): a restore that loses a shard ---------- *)

(* stream: 1, 2; 1 split into 3,4; 2 split into 5,6. Start, finish 2 (5,6 handed out, last = 6), checkpoint:
   3 and 4 are known, unassigned and below 6. After the restore and after 1 is finished they are never handed out. *)
Definition d24b_stream : list shard :=
  [mkShard 1 [] 0 9; mkShard 2 [] 10 19; mkShard 3 [1] 0 4; mkShard 4 [1] 5 9; mkShard 5 [2] 10 14; mkShard 6 [2] 15 19].

Definition d24b_before : sys :=
  run_ops (started d24b_stream (tick_tracker d24b_stream new_tracker) []) [OFinish [2]].

Definition d24b_after : sys :=
  run_ops (started d24b_stream (tick_tracker d24b_stream (restored_tracker (trk_ d24b_before))) (fin d24b_before))
          [OFinish [1]; OTick].

Lemma d24b_lost : ~ no_loss (trk_ d24b_before) /\
  mem 1 (fin d24b_after) = true /\ ~ In 3 (hist d24b_after) /\ ~ In 4 (hist d24b_after) /\
  known_b 3 (known (trk_ d24b_after)) = false.
Proof.
  split.
  - intro H. specialize (H (mkShard 3 [1] 0 4)). vm_compute in H. assert (false = true); [apply H; [right; left; reflexivity|discriminate]|discriminate].
  - vm_compute. repeat split; intro H; repeat (destruct H as [H|H]; [discriminate|]); exact H.
Qed.

(* ---------- the repaired defects, kept recognisable ---------- *)

(* D28: with LastAssignedSplitID = id of the last shard of the call (old TrackAssigned) the id moves backwards
   and a finished shard is listed and handed out again. *)
Definition old_tick (st : list shard) (t : tracker) : tracker * list shard :=
  let t1 := tick_tracker st t in (track_assigned_gen false (available t1) t1, available t1).
Definition old_finish (ids : list N) (t : tracker) : tracker * list shard :=
  let t1 := remove_splits ids t in (track_assigned_gen false (available t1) t1, available t1).

Lemma d28_old_reassigns_finished :
  let t0 := fst (old_tick d24b_stream new_tracker) in
  let t1 := fst (old_finish [2] t0) in       (* 5, 6 handed out, last = 6 *)
  let t2 := fst (old_finish [1] t1) in       (* 3, 4 handed out, last = 4 (backwards) *)
  let t3 := fst (old_finish [5] t2) in
  map sid (snd (old_tick d24b_stream t3)) = [5].   (* 5 is finished and handed out again *)
Proof. vm_compute. reflexivity. Qed.

(* D24a: the old Start handed out ck_assigned ++ AvailableSplits: every restored shard twice *)
Lemma d24a_old_assigns_twice :
  let k := fst (k_start 2 d24b_stream [] 0 []) in
  let ck := k_checkpoint k in
  option_map (map (fun a => snd (fst a))) (snd (k_start_gen true false 2 d24b_stream (fst ck) (snd ck) [])) = Some [1; 2; 1; 2].
Proof. vm_compute. reflexivity. Qed.

(* ---------- statements over whole histories ---------- *)

Lemma valid_history_app : forall pre s op post, valid_history s (pre ++ op :: post) ->
  valid_history s pre /\ valid_op (run_ops s pre) op.
Proof.
  induction pre as [|x r IH]; intros s op post H; cbn [app valid_history run_ops fold_left] in *.
  - tauto.
  - destruct H as [H1 H2]. destruct (IH _ _ _ H2) as [H3 H4]. tauto.
Qed.

(* the state in which a fresh Start computes its first assignment *)
Definition fresh_mid (st : list shard) : sys := mkSys st (tick_tracker st new_tracker) [] [].

Lemma inv_fresh_mid : forall st, wf_stream st -> Inv (fresh_mid st).
Proof.
  intros st Hwf. apply inv_discover. constructor; cbn [stream trk_ fin hist new_tracker known assigned last mem].
  - exact Hwf.
  - intros x [].
  - discriminate.
  - intros y Hy [Hle|[x [[] _]]]. unfold new_tracker in Hle. cbn [last] in Hle. destruct (Hwf y Hy) as [Hpos _]. lia.
  - discriminate.
  - left. reflexivity.
  - intros i [].
Qed.

(* Every shard handed out anywhere in a valid history that begins with a fresh Start: not handed out before,
   not finished, all parents finished. *)
Theorem history_hands_out_correctly : forall st pre op post c,
  wf_stream st ->
  let s0 := started st (tick_tracker st new_tracker) [] in
  valid_history s0 (pre ++ op :: post) ->
  let s := run_ops s0 pre in
  In c (pending s op) ->
  ~ In (sid c) (hist s) /\ mem (sid c) (fin (mid s op)) = false /\
  forall q, In q (parents c) -> mem q (fin (mid s op)) = true.
Proof.
  intros st pre op post c Hwf s0 Hv s Hc. destruct (valid_history_app _ _ _ _ Hv) as [Hv1 Hv2].
  apply step_hands_out_correctly; [|exact Hv2|exact Hc].
  apply inv_history; [apply inv_fresh_start; exact Hwf|exact Hv1].
Qed.

(* the same after a restore from a checkpoint that loses nothing, for the run that follows it *)
Theorem history_after_restore_hands_out_correctly : forall s st' pre op post c,
  Inv s -> no_loss (trk_ s) ->
  (exists sh, st' = stream s ++ sh /\ wf_stream st' /\ forall x y, In x sh -> In y (stream s) -> sid y < sid x) ->
  let s0 := started st' (tick_tracker st' (restored_tracker (trk_ s))) (fin s) in
  valid_history s0 (pre ++ op :: post) ->
  let s1 := run_ops s0 pre in
  In c (pending s1 op) ->
  ~ In (sid c) (hist s1) /\ mem (sid c) (fin (mid s1 op)) = false /\
  forall q, In q (parents c) -> mem q (fin (mid s1 op)) = true.
Proof.
  intros s st' pre op post c HI Hnl Hext s0 Hv s1 Hc. destruct (valid_history_app _ _ _ _ Hv) as [Hv1 Hv2].
  apply step_hands_out_correctly; [|exact Hv2|exact Hc].
  apply inv_history; [apply inv_restore; assumption|exact Hv1].
Qed.

(* the first assignment of a fresh Start: only shards without parents *)
Theorem fresh_start_hands_out_roots : forall st c, wf_stream st ->
  In c (available (tick_tracker st new_tracker)) -> parents c = [].
Proof.
  intros st c Hwf Hc. destruct (available_facts (fresh_mid st) c (inv_fresh_mid st Hwf) Hc) as [_ [_ [_ [_ Hpar]]]].
  destruct (parents c) as [|q r]; [reflexivity|]. specialize (Hpar q (or_introl eq_refl)). discriminate.
Qed.

(* the first assignment after a lossless restore: shards of the checkpoint, or shards whose parents are finished *)
Theorem restore_start_hands_out_correctly : forall s st' c,
  Inv s -> no_loss (trk_ s) ->
  (exists sh, st' = stream s ++ sh /\ wf_stream st' /\ forall x y, In x sh -> In y (stream s) -> sid y < sid x) ->
  In c (available (tick_tracker st' (restored_tracker (trk_ s)))) ->
  mem (sid c) (fin s) = false /\ forall q, In q (parents c) -> mem q (fin s) = true.
Proof.
  intros [st t f h] st' c HI Hnl [sh [-> [Hwf' Hnew]]] Hc. cbn [stream trk_ fin] in *.
  (* the invariant holds in the state after loading + discovery: reuse the proof of inv_restore up to tracking *)
  assert (Hmid : Inv (mkSys (st ++ sh) (tick_tracker (st ++ sh) (restored_tracker t)) f [])).
  { pose proof HI as [Hwf Hk Ha Hs Hf Hl Hh]; cbn [stream trk_ fin hist] in *.
    assert (Hsub : forall i, mem i (assigned t) = true -> known_b i (known t) = true) by (intros i Hi; apply Ha; exact Hi).
    apply inv_discover. unfold restored_tracker, load_splits. cbn [new_tracker known assigned last].
    constructor; cbn [stream trk_ fin hist known assigned last mem].
    - exact Hwf'.
    - intros x Hx. apply in_fold_set in Hx. destruct Hx as [Hx|[]]. apply in_or_app. left. apply Hk. apply (in_assigned_splits t x Hsub Hx).
    - discriminate.
    - intros y Hy Hseen. rewrite known_b_fold. cbn [known_b existsb]. rewrite orb_false_r.
      assert (Hle : sid y <= last t).
      { destruct Hseen as [H|[x [Hx H]]]; [exact H|]. apply in_fold_set in Hx. destruct Hx as [Hx|[]].
        destruct (in_assigned_splits t x Hsub Hx) as [_ Hm]. destruct (Ha _ Hm) as [_ H2]. lia. }
      assert (Hy0 : In y st).
      { apply in_app_or in Hy. destruct Hy as [Hy|Hy]; [exact Hy|]. exfalso. destruct Hl as [H0|[z [Hz E]]].
        - destruct (Hwf' y (in_or_app _ _ _ (or_intror Hy))) as [Hpos _]. lia.
        - specialize (Hnew y z Hy Hz). lia. }
      destruct (Hs y Hy0 (or_introl Hle)) as [H|H]; [|right; exact H]. left.
      apply known_b_in in H. destruct H as [x [Hx Ex]]. apply assigned_splits_complete; [exact Hsub|].
      rewrite <- Ex. apply Hnl; [exact Hx|lia].
    - intros i Hi. destruct (Hf i Hi) as [H1 H2]. split; [|exact H2]. rewrite known_b_fold. cbn [known_b existsb]. rewrite orb_false_r.
      apply not_true_iff_false. intro Hex. apply existsb_exists in Hex. destruct Hex as [x [Hx E]]. apply N.eqb_eq in E.
      destruct (in_assigned_splits t x Hsub Hx) as [Hin _]. assert (known_b i (known t) = true) by (apply known_b_in; exists x; split; assumption). congruence.
    - destruct Hl as [H0|[z [Hz E]]]; [left; exact H0|right; exists z; split; [apply in_or_app; left; exact Hz|exact E]].
    - intros i []. }
  destruct (available_facts _ c Hmid Hc) as [_ [_ [Hnf [_ Hpar]]]]. cbn [fin] in *. split; assumption.
Qed.

(* the checkpointed cursor travels with the shard *)
Theorem assignment_carries_cursor_with : forall f n cs shards r i c,
  In (r, i, c) (assign_out_with f n cs shards) -> c = cursor_of cs i /\ r < n /\ exists s, In s shards /\ sid s = i /\ f s = r.
Proof.
  intros f n cs shards r i c H. unfold assign_out_with in H. apply in_flat_map in H. destruct H as [r' [Hr H]].
  apply in_map_iff in H. destruct H as [s [E Hs]]. inversion E; subst. apply filter_In in Hs. destruct Hs as [Hs Hf].
  split; [reflexivity|]. split; [|exists s; split; [exact Hs|split; [reflexivity|apply N.eqb_eq; exact Hf]]].
  apply in_iota_from in Hr. lia.
Qed.

Theorem assignment_carries_cursor : forall n cs shards r i c,
  In (r, i, c) (assign_out n cs shards) -> c = cursor_of cs i /\ r < n /\ exists s, In s shards /\ sid s = i.
Proof.
  intros n cs shards r i c H. unfold assign_out in H. apply assignment_carries_cursor_with in H.
  destruct H as [H1 [H2 [s [H3 [H4 _]]]]]. split; [exact H1|]. split; [exact H2|]. exists s. split; assumption.
Qed.

(* D24b continued: when the lost shards 3 and 4 are later merged into 7, the restored splitter hands 7 out
   although its parents were never read. *)
Definition d24b_stream2 : list shard := d24b_stream ++ [mkShard 7 [3; 4] 0 9].
Definition d24b_after2 : sys :=
  run_ops (started d24b_stream2 (tick_tracker d24b_stream2 (restored_tracker (trk_ d24b_before))) (fin d24b_before)) [OTick].

Lemma d24b_child_without_parents :
  In 7 (hist d24b_after2) /\ mem 3 (fin d24b_after2) = false /\ mem 4 (fin d24b_after2) = false /\
  ~ In 3 (hist d24b_after2) /\ ~ In 4 (hist d24b_after2).
Proof.
  vm_compute. split; [tauto|]. repeat split; intro H; repeat (destruct H as [H|H]; [discriminate|]); exact H.
Qed.

Lemma d24b_refutation :
  ~ no_loss (trk_ d24b_before) /\
  (mem 1 (fin d24b_after) = true /\ ~ In 3 (hist d24b_after) /\ ~ In 4 (hist d24b_after)) /\
  (In 7 (hist d24b_after2) /\ mem 3 (fin d24b_after2) = false /\ mem 4 (fin d24b_after2) = false).
Proof.
  destruct d24b_lost as [H1 [H2 [H3 [H4 _]]]]. destruct d24b_child_without_parents as [H5 [H6 [H7 _]]].
  exact (conj H1 (conj (conj H2 (conj H3 H4)) (conj H5 (conj H6 H7)))).
Qed.
