(* C09, world level (Model/Gc.v): what a garbage collection may delete, what a saved retention update removes, and the
   witness history of finding D11. Stdlib only. *)
From Coq Require Import List NArith Bool Lia.
Import ListNotations.
From RV Require Import Base.Bytes Model.Ckpt Model.Gc.
Open Scope N_scope.

Lemma fname_eqb_refl n : fname_eqb n n = true.
Proof. destruct n as [[a b] c]. unfold fname_eqb. rewrite !N.eqb_refl. reflexivity. Qed.
Lemma fname_eqb_eq a b : fname_eqb a b = true <-> a = b.
Proof.
  destruct a as [[a1 a2] a3], b as [[b1 b2] b3]. unfold fname_eqb. rewrite !andb_true_iff, !N.eqb_eq.
  split; [intros [[-> ->] ->]; reflexivity|intro H; inversion H; auto].
Qed.
Lemma mem_name_in x l : mem_name x l = true <-> In x l.
Proof.
  unfold mem_name. rewrite existsb_exists. split.
  - intros [y [Hy E]]. apply fname_eqb_eq in E. subst. exact Hy.
  - intro H. exists x. split; [exact H|apply fname_eqb_refl].
Qed.

(* ---------- the file system map ---------- *)
Lemma fs_get_del_same f n : fs_get (fs_del f n) n = None.
Proof.
  induction f as [|[m c] f IH]; [reflexivity|]. cbn [fs_del filter fst]. destruct (fname_eqb n m) eqn:E; cbn [negb].
  - exact IH.
  - cbn [fs_get]. rewrite E. exact IH.
Qed.
Lemma fs_get_del_other f n m : fname_eqb m n = false -> fs_get (fs_del f n) m = fs_get f m.
Proof.
  intro NE. induction f as [|[x c] f IH]; [reflexivity|]. cbn [fs_del filter fst]. destruct (fname_eqb n x) eqn:E; cbn [negb].
  - cbn [fs_get]. apply fname_eqb_eq in E. subst x. rewrite NE. exact IH.
  - cbn [fs_get]. destruct (fname_eqb m x); [reflexivity|exact IH].
Qed.
Lemma fs_has_del_other f n m : fname_eqb m n = false -> fs_has (fs_del f n) m = fs_has f m.
Proof. intro NE. unfold fs_has. rewrite fs_get_del_other by exact NE. reflexivity. Qed.
Lemma fs_has_put_same f n c : fs_has (fs_put f n c) n = true.
Proof. unfold fs_has, fs_put. cbn [fs_get]. rewrite fname_eqb_refl. reflexivity. Qed.
Lemma fs_has_put_other f n m c : fname_eqb m n = false -> fs_has (fs_put f n c) m = fs_has f m.
Proof. intro NE. unfold fs_has, fs_put. cbn [fs_get]. rewrite NE. rewrite fs_get_del_other by exact NE. reflexivity. Qed.

(* deleting a list of names: a name outside the list keeps its status, a name inside is gone *)
Lemma fold_del_other names : forall f m, mem_name m names = false -> fs_has (fold_left fs_del names f) m = fs_has f m.
Proof.
  induction names as [|n names IH]; intros f m H; [reflexivity|]. cbn [fold_left]. cbn [mem_name existsb] in H.
  apply orb_false_iff in H. destruct H as [H1 H2]. rewrite IH by exact H2. apply fs_has_del_other. exact H1.
Qed.
Lemma fold_del_gone names : forall f m, In m names -> fs_has (fold_left fs_del names f) m = false.
Proof.
  induction names as [|n names IH]; intros f m H; [destruct H|]. cbn [fold_left]. destruct H as [->|H].
  - destruct (mem_name m names) eqn:M.
    + apply IH. apply mem_name_in. exact M.
    + rewrite fold_del_other by exact M. unfold fs_has. rewrite fs_get_del_same. reflexivity.
  - apply IH. exact H.
Qed.

(* ---------- errors and truthful "needed" answers keep the file (repair D10, D31) ---------- *)
Theorem neighbour_error_keeps w x o lo hi :
  o_fromdoc o = true -> x_own x = OwnRange lo hi -> x_nb x = NbErr -> cleanup_deletes w x o = false.
Proof. intros F O N. unfold cleanup_deletes. rewrite F, O, N. reflexivity. Qed.

Theorem neighbour_needs_keeps w x o lo hi y :
  o_fromdoc o = true -> x_own x = OwnRange lo hi ->
  x_nb x = NbLive -> In y (g_dbs w) -> is_live y = true -> needs_table y (o_name o) = true ->
  cleanup_deletes w x o = false.
Proof.
  intros F O N Hy L Nd. unfold cleanup_deletes. rewrite F, O, N. cbn [negb].
  apply negb_false_iff. apply existsb_exists. exists y. split; [exact Hy|]. rewrite L, Nd. reflexivity.
Qed.

(* a member of the assembly whose process is gone (registered, not deployed: the RPC fails) means keep *)
Theorem undeployed_neighbour_keeps w x o lo hi y :
  o_fromdoc o = true -> x_own x = OwnRange lo hi -> x_nb x = NbOp ->
  In y (g_dbs w) -> x_nb y = NbOp -> x_state y = Crashed -> cleanup_deletes w x o = false.
Proof.
  intros F O N Hy Ny Cy. unfold cleanup_deletes. rewrite F, O, N. cbn [negb].
  apply negb_false_iff. apply existsb_exists. exists y. split; [exact Hy|]. rewrite Ny, Cy. apply orb_true_r.
Qed.

(* NeedsTable answers for every checkpoint of the list, whether loaded from a document or taken by the database itself *)
Theorem needs_table_own_checkpoint x c t :
  In c (x_ckpts x) -> In t (c_tabs c) -> needs_table x (t_name t) = true.
Proof.
  intros Hc Ht. unfold needs_table. apply existsb_exists. exists c. split; [exact Hc|].
  apply mem_name_in. apply in_map. exact Ht.
Qed.

(* ---------- a collection never deletes what the collecting object itself can still reach ---------- *)
Definition gc_one (w : world) (x : wdb) : list fname :=
  map o_name (filter (cleanup_deletes w x) (filter (fun o => negb (mem_name (o_name o) (reachable_names x))) (x_objs x))).

Theorem gc_spares_own_reachable w x n : In n (gc_one w x) -> ~ In n (reachable_names x).
Proof.
  unfold gc_one. intros H R. apply in_map_iff in H. destruct H as [o [<- Ho]].
  apply filter_In in Ho. destruct Ho as [Ho _]. apply filter_In in Ho. destruct Ho as [_ Ho].
  apply negb_true_iff in Ho. apply mem_name_in in R. congruence.
Qed.

(* a crashed process runs no cleanup *)
Theorem crashed_objects_delete_nothing w f done dels x :
  x_state x = Crashed -> gc_db w (f, done, dels) x = (f, done ++ [x], dels).
Proof. intro C. unfold gc_db. rewrite C. reflexivity. Qed.

(* ---------- dropped_wals_removed: only a retention update whose Save succeeded removes the WALs it dropped ---------- *)
Lemma fold_del_map (l : list ckrec) f : fold_left (fun f c => fs_del f (c_wal c)) l f = fold_left fs_del (map c_wal l) f.
Proof. revert f. induction l as [|y l IH]; intro f; [reflexivity|]. cbn [fold_left map]. apply IH. Qed.

Theorem save_ok_removes_pending_wals w x f c n :
  snd (save_list_f w x f) = true -> In c (x_pending x) -> In n (c_allw c) ->
  fs_has (g_fs (fst (fst (save_list_f w x f)))) n = false.
Proof.
  unfold save_list_f. destruct (f =? 1); [discriminate|].
  destruct ((f =? 2) && negb (match x_pending x with [] => true | _ => false end)); [discriminate|].
  intros _ Hc Hn. unfold save_destroy. cbn [fst snd set_fs g_fs]. apply fold_del_gone. apply in_flat_map. exists c. auto.
Qed.

(* a Save that returns an error has deleted nothing: at most the checkpoints file itself was rewritten *)
Theorem failed_save_deletes_nothing w x f n :
  snd (save_list_f w x f) = false -> fname_eqb n (x_dir x, 2, 0) = false ->
  fs_has (g_fs (fst (fst (save_list_f w x f)))) n = fs_has (g_fs w) n.
Proof.
  unfold save_list_f. destruct (f =? 1); [reflexivity|].
  destruct ((f =? 2) && negb (match x_pending x with [] => true | _ => false end)); [|discriminate].
  intros _ NE. unfold save_write. cbn [fst add_dropped set_fs g_fs]. apply fs_has_put_other. exact NE.
Qed.

Theorem retain_saved_removes_dropped_wals w d ids f x c :
  get_db w d = Some x -> retain_empty w d ids = false -> retain_ok w d ids f = true -> In c (x_ckpts x) -> retain_keeps ids c = false ->
  forall n, In n (c_allw c) -> fs_has (g_fs (step_retain w d ids f)) n = false.
Proof.
  intros G NE OK Hc NK n Hn. unfold step_retain, retain_ok, retain_empty in *. rewrite G in *.
  destruct (filter (retain_keeps ids) (x_ckpts x)) as [|k0 ks] eqn:FK; [discriminate|]. rewrite <- FK in *.
  set (x1 := with_ck x (filter (retain_keeps ids) (x_ckpts x)) (x_pending x ++ filter (fun c => negb (retain_keeps ids c)) (x_ckpts x)) (x_cktasks x)) in *.
  pose proof (fun H => save_ok_removes_pending_wals w x1 f c n OK H Hn) as D.
  destruct (save_list_f w x1 f) as [[w1 x2] ok]. cbn [fst snd] in *. unfold set_db. cbn [g_fs]. apply D.
  unfold x1, with_ck. cbn [x_pending]. apply in_or_app. right. apply filter_In. split; [exact Hc|]. rewrite NK. reflexivity.
Qed.

Theorem retain_failed_keeps_wals w d ids f x n :
  get_db w d = Some x -> retain_ok w d ids f = false -> fname_eqb n (x_dir x, 2, 0) = false ->
  fs_has (g_fs (step_retain w d ids f)) n = fs_has (g_fs w) n.
Proof.
  intros G OK NE. unfold step_retain, retain_ok in *. rewrite G in *.
  destruct (filter (retain_keeps ids) (x_ckpts x)) as [|k0 ks] eqn:FK; [reflexivity|]. rewrite <- FK in *.
  set (x1 := with_ck x (filter (retain_keeps ids) (x_ckpts x)) (x_pending x ++ filter (fun c => negb (retain_keeps ids c)) (x_ckpts x)) (x_cktasks x)) in *.
  pose proof (failed_save_deletes_nothing w x1 f n OK) as D.
  destruct (save_list_f w x1 f) as [[w1 x2] ok]. cbn [fst snd] in *. unfold set_db. cbn [g_fs]. apply D. exact NE.
Qed.

(* a retention update that names no checkpoint of the database is refused and changes nothing (repair D38) *)
Theorem refused_retention_changes_nothing w d ids f : retain_empty w d ids = true -> step_retain w d ids f = w.
Proof.
  unfold retain_empty, step_retain. destruct (get_db w d) as [x|]; [|discriminate].
  destruct (filter (retain_keeps ids) (x_ckpts x)); [reflexivity|discriminate].
Qed.

(* ---------- finding D11: the full statement is false on the faithful model ---------- *)
Definition handle_files_exist (w : world) (id : N) : bool :=
  match handle_dir w id with
  | Some hd => match fs_get (g_fs w) (hd, 2, 0) with
               | Some (FCk docs) => match find_doc docs id with
                                    | Some d => fs_has (g_fs w) (dc_wal d) && negb (doc_tables_missing (g_fs w) d)
                                    | None => false end
               | _ => false end
  | None => false
  end.

Definition big : bytes := repeat 120 40.
Definition d11_history : list op :=
  [OPut 0 [0;0;97] [49] false; OPut 0 [0;0;98] big true;
   OStepFlush 0; OStepFlush 0; OStepFlush 0; OStepCompact 0 CRnone; OStepCompact 0 CRnil; OStepCompact 0 CRnone;
   OCkpt 0 1; OStepCkpt 0 1; OStepCkpt 0 1;
   ODrop 0; OGc].

(* checkpoint 1 completed, no retention update ever dropped it, yet its table file is gone after the drop + collection *)
Theorem retained_files_exist_refuted :
  let w := run (init_world 60 1000) d11_history in
  handle_dir w 1 = Some 0 /\ handle_files_exist w 1 = false /\
  handle_files_exist (run (init_world 60 1000) (firstn 12 d11_history)) 1 = true.
Proof. vm_compute. repeat split; reflexivity. Qed.

(* without the drop (a crash instead: the process is gone, no cleanup runs) the same history keeps every file *)
Theorem crash_instead_of_drop_keeps_files :
  handle_files_exist (run (init_world 60 1000) (firstn 11 d11_history ++ [OCrash 0; OGc])) 1 = true.
Proof. vm_compute. reflexivity. Qed.

Lemma d11_files_false : handle_files_exist (run (init_world 60 1000) d11_history) 1 = false.
Proof. vm_compute. reflexivity. Qed.
Lemma d11_handle_some : handle_dir (run (init_world 60 1000) d11_history) 1 = Some 0.
Proof. vm_compute. reflexivity. Qed.
Lemma d11_no_retain : forall d ids, In (ORetain d ids) d11_history -> False.
Proof.
  intros d ids H. unfold d11_history in H. cbn [In] in H.
  repeat (destruct H as [H|H]; [discriminate H|]). exact H.
Qed.

Definition retained_files_exist_full (mem wm : N) : Prop :=
  forall ops id, (forall d ids, In (ORetain d ids) ops -> In id ids) ->
    handle_dir (run (init_world mem wm) ops) id <> None -> handle_files_exist (run (init_world mem wm) ops) id = true.

Theorem full_statement_refuted : ~ retained_files_exist_full 60 1000.
Proof.
  intro H.
  assert (handle_files_exist (run (init_world 60 1000) d11_history) 1 = true) as E.
  { apply H.
    - intros d ids HI. exfalso. exact (d11_no_retain d ids HI).
    - rewrite d11_handle_some. discriminate. }
  rewrite d11_files_false in E. discriminate E.
Qed.

(* ---------- several neighbours: the decision does not depend on the order in which their answers arrive ---------- *)
From Coq Require Import Permutation.

Lemma forallb_permutation {A} (f : A -> bool) (l l' : list A) : Permutation l l' -> forallb f l = forallb f l'.
Proof.
  intro P. induction P; cbn; try reflexivity.
  - rewrite IHP. reflexivity.
  - destruct (f x), (f y); reflexivity.
  - congruence.
Qed.

Theorem answer_order_irrelevant w x o l l' :
  Permutation l l' ->
  cleanup_deletes w (mkW (x_core x) (x_dir x) (x_own x) (NbSeq l) (x_next x) (x_ckpts x) (x_pending x) (x_flush x) (x_flushq x) (x_comp x) (x_compq x) (x_cktasks x) (x_objs x) (x_state x)) o =
  cleanup_deletes w (mkW (x_core x) (x_dir x) (x_own x) (NbSeq l') (x_next x) (x_ckpts x) (x_pending x) (x_flush x) (x_flushq x) (x_comp x) (x_compq x) (x_cktasks x) (x_objs x) (x_state x)) o.
Proof.
  intro P. unfold cleanup_deletes. cbn [x_own x_nb]. destruct (o_fromdoc o); [|reflexivity].
  destruct (x_own x); [reflexivity|]. apply forallb_permutation. exact P.
Qed.

(* any claim, any failure and any answer that never comes among the neighbours' answers keeps the file, wherever it stands *)
Theorem any_claim_or_failure_keeps w x o lo hi l a :
  o_fromdoc o = true -> x_own x = OwnRange lo hi -> x_nb x = NbSeq l -> In a l ->
  (a = AClaim \/ a = AErr \/ a = ANever) -> cleanup_deletes w x o = false.
Proof.
  intros F O N Ha K. unfold cleanup_deletes. rewrite F, O, N. cbn [negb].
  destruct (forallb (ans_clean w (o_name o)) l) eqn:E; [|reflexivity].
  rewrite forallb_forall in E. specialize (E a Ha). destruct K as [K|[K|K]]; subst a; discriminate E.
Qed.

(* and the file goes only when every answer was a clean "not needed" *)
Theorem deletes_only_when_all_clean w x o lo hi l :
  o_fromdoc o = true -> x_own x = OwnRange lo hi -> x_nb x = NbSeq l ->
  cleanup_deletes w x o = true -> forall a, In a l -> ans_clean w (o_name o) a = true.
Proof.
  intros F O N D a Ha. unfold cleanup_deletes in D. rewrite F, O, N in D. cbn [negb] in D.
  rewrite forallb_forall in D. apply D. exact Ha.
Qed.
