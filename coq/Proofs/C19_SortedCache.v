(* SortedCache: byteSize equals the sum of the lengths of the contents after every operation sequence (repaired Push);
   the contents stay a strictly sorted set; Pop / PopLast return the minimum / maximum.  The Push before the repair
   double-counts (refuted witness at the end). *)
From Coq Require Import Sorted.
From RV Require Import Base.Bytes Model.SortedCache.
From Coq Require Import ZifyN ZifyNat ZifyBool.
Open Scope N_scope.

Definition blt (a b : bytes) : Prop := bcmp a b = Lt.
Definition sorted_set (l : list bytes) : Prop := StronglySorted blt l.

Lemma bcmp_gt_lt' a b : bcmp a b = Gt -> bcmp b a = Lt.
Proof. intros H. rewrite (bcmp_antisym a b), H. reflexivity. Qed.

(* ---- size accounting of the set primitives (no sortedness needed) ---- *)
Lemma sum_len_cons x l : sum_len (x :: l) = blen x + sum_len l.
Proof. reflexivity. Qed.
Lemma sum_len_nil : sum_len [] = 0.
Proof. reflexivity. Qed.
Opaque sum_len.
Lemma roi_sum v l :
  sum_len (fst (roi v l)) + match snd (roi v l) with Some old => blen old | None => 0 end = sum_len l + blen v.
Proof.
  induction l as [|x l IH]; cbn [roi fst snd].
  - rewrite !sum_len_cons, !sum_len_nil. lia.
  - destruct (bcmp v x) eqn:E; cbn [fst snd].
    + rewrite !sum_len_cons. lia.
    + rewrite !sum_len_cons. lia.
    + revert IH. destruct (roi v l) as [r o]. cbn [fst snd]. intros IH. rewrite !sum_len_cons. lia.
Qed.

Lemma sdel_sum k l :
  sum_len (fst (sdel k l)) + match snd (sdel k l) with Some d => blen d | None => 0 end = sum_len l.
Proof.
  induction l as [|x l IH]; cbn [sdel fst snd].
  - rewrite !sum_len_nil. reflexivity.
  - destruct (bcmp k x) eqn:E; cbn [fst snd].
    + rewrite !sum_len_cons. lia.
    + rewrite !sum_len_cons. lia.
    + revert IH. destruct (sdel k l) as [r o]. cbn [fst snd]. intros IH. rewrite !sum_len_cons. lia.
Qed.

Lemma sum_len_app a b : sum_len (a ++ b) = sum_len a + sum_len b.
Proof. induction a as [|x a IH]; cbn [app]; [rewrite sum_len_nil; lia|]. rewrite !sum_len_cons. lia. Qed.

Lemma sum_len_rev l : sum_len (rev l) = sum_len l.
Proof.
  induction l as [|x l IH]; [reflexivity|]. cbn [rev]. rewrite sum_len_app, IH, !sum_len_cons, sum_len_nil. lia.
Qed.

(* ---- the counter ---- *)
Definition size_exact (c : cache) : Prop := byte_size c = sum_len (items c).

Lemma push_exact v c : size_exact c -> size_exact (cache_push v c).
Proof.
  unfold size_exact, cache_push. intros H. pose proof (roi_sum v (items c)) as Hs.
  destruct (roi v (items c)) as [l o]. cbn [fst snd] in Hs. destruct o as [old|]; cbn [items byte_size]; lia.
Qed.

Lemma pop_exact c : size_exact c -> size_exact (snd (cache_pop c)).
Proof.
  unfold size_exact, cache_pop. intros H. destruct (items c) as [|x l] eqn:E; cbn [snd items byte_size]; [congruence|].
  rewrite H, sum_len_cons. lia.
Qed.

Lemma pop_last_exact c : size_exact c -> size_exact (snd (cache_pop_last c)).
Proof.
  unfold size_exact, cache_pop_last. intros H. destruct (rev (items c)) as [|x l] eqn:E; cbn [snd items byte_size]; [exact H|].
  rewrite H, <- (sum_len_rev (items c)), E, sum_len_rev, sum_len_cons. lia.
Qed.

Lemma delete_exact k c : size_exact c -> size_exact (cache_delete k c).
Proof.
  unfold size_exact, cache_delete. intros H. pose proof (sdel_sum k (items c)) as Hs.
  destruct (sdel k (items c)) as [l o]. cbn [fst snd] in Hs. destruct o as [d|]; cbn [items byte_size]; [lia|exact H].
Qed.

(* ---- the contents are a strictly sorted set ---- *)
Lemma roi_in v l x : In x (fst (roi v l)) -> x = v \/ In x l.
Proof.
  induction l as [|y l IH]; cbn [roi fst].
  - intros [H|[]]; auto.
  - destruct (bcmp v y); cbn [fst].
    + intros [H|H]; [auto|right; right; exact H].
    + intros [H|H]; [auto|right; exact H].
    + destruct (roi v l) as [r o]. cbn [fst] in *. intros [H|H]; [right; left; exact H|].
      destruct (IH H) as [H'|H']; [auto|right; right; exact H'].
Qed.

Lemma roi_sorted v l : sorted_set l -> sorted_set (fst (roi v l)).
Proof.
  induction 1 as [|y l Hs IH Hall]; cbn [roi fst].
  - repeat constructor.
  - destruct (bcmp v y) eqn:E; cbn [fst].
    + apply bcmp_eq in E. subst y. constructor; assumption.
    + constructor; [constructor; assumption|]. constructor; [exact E|].
      rewrite Forall_forall in *. intros z Hz. eapply bcmp_lt_trans; [exact E|]. apply Hall. exact Hz.
    + destruct (roi v l) as [r o] eqn:Er. cbn [fst] in *. constructor; [exact IH|].
      rewrite Forall_forall in *. intros z Hz.
      assert (Hz' : In z (fst (roi v l))) by (rewrite Er; exact Hz).
      destruct (roi_in v l z Hz') as [->|Hin]; [apply bcmp_gt_lt'; exact E|apply Hall; exact Hin].
Qed.

Lemma roi_has v l : In v (fst (roi v l)).
Proof.
  induction l as [|y l IH]; cbn [roi fst]; [left; reflexivity|].
  destruct (bcmp v y); cbn [fst]; [left; reflexivity|left; reflexivity|].
  destruct (roi v l) as [r o]. cbn [fst] in *. right. exact IH.
Qed.

Lemma roi_keeps v l x : sorted_set l -> In x l -> x <> v -> In x (fst (roi v l)).
Proof.
  induction 1 as [|y l Hs IH Hall]; cbn [roi fst]; [intros []|].
  intros Hin Hne. destruct (bcmp v y) eqn:E; cbn [fst].
  - apply bcmp_eq in E. subst y. destruct Hin as [H|H]; [congruence|right; exact H].
  - right. exact Hin.
  - destruct (roi v l) as [r o]. cbn [fst] in *. destruct Hin as [H|H]; [left; exact H|right; apply IH; assumption].
Qed.

Lemma sdel_sorted k l : sorted_set l -> sorted_set (fst (sdel k l)).
Proof.
  induction 1 as [|y l Hs IH Hall]; cbn [sdel fst]; [constructor|].
  destruct (bcmp k y) eqn:E; cbn [fst]; [exact Hs|constructor; assumption|].
  destruct (sdel k l) as [r o] eqn:Er. cbn [fst] in *. constructor; [exact IH|].
  rewrite Forall_forall in *. intros z Hz. apply Hall.
  clear - Er Hz. revert r o Er Hz. induction l as [|w l IHl]; cbn [sdel]; intros r o Er Hz.
  - injection Er as <- <-. destruct Hz.
  - destruct (bcmp k w).
    + injection Er as <- <-. right. exact Hz.
    + injection Er as <- <-. exact Hz.
    + destruct (sdel k l) as [r' o']. injection Er as <- <-. destruct Hz as [H|H]; [left; exact H|right; eapply IHl; [reflexivity|exact H]].
Qed.

(* Delete really removes the key (needs sortedness: the search stops at the first greater element) *)
Lemma sdel_removes k l : sorted_set l -> ~ In k (fst (sdel k l)).
Proof.
  induction 1 as [|y l Hs IH Hall]; cbn [sdel fst]; [intros []|].
  destruct (bcmp k y) eqn:E; cbn [fst].
  - apply bcmp_eq in E. subst y. intros Hin. rewrite Forall_forall in Hall. specialize (Hall k Hin).
    unfold blt in Hall. rewrite bcmp_refl in Hall. discriminate.
  - intros [H|H].
    + subst y. rewrite bcmp_refl in E. discriminate.
    + rewrite Forall_forall in Hall. specialize (Hall k H). unfold blt in Hall.
      rewrite (bcmp_antisym k y), E in Hall. discriminate.
  - destruct (sdel k l) as [r o]. cbn [fst] in *. intros [H|H]; [subst y; rewrite bcmp_refl in E; discriminate|exact (IH H)].
Qed.

Lemma sorted_set_rev_tail x l r : sorted_set r -> rev r = x :: l -> sorted_set (rev l) /\ Forall (fun y => blt y x) (rev l).
Proof.
  intros Hs Hr. assert (Hr' : r = rev l ++ [x]) by (rewrite <- (rev_involutive r), Hr; reflexivity).
  subst r. clear Hr. induction (rev l) as [|y t IH]; cbn [app] in *.
  - split; constructor.
  - inversion Hs as [|? ? Hs' Hall]; subst. destruct (IH Hs') as [H1 H2]. split.
    + constructor; [exact H1|]. rewrite Forall_forall in *. intros z Hz. apply Hall. apply in_or_app. left. exact Hz.
    + constructor; [|exact H2]. rewrite Forall_forall in Hall. apply Hall. apply in_or_app. right. left. reflexivity.
Qed.

(* ---- histories ---- *)
Inductive cop := OPush (v : bytes) | OPop | OPopLast | ODelete (k : bytes).
Definition cstep (c : cache) (o : cop) : cache :=
  match o with
  | OPush v => cache_push v c
  | OPop => snd (cache_pop c)
  | OPopLast => snd (cache_pop_last c)
  | ODelete k => cache_delete k c
  end.
Definition cache_inv (c : cache) : Prop := size_exact c /\ sorted_set (items c).

Lemma cstep_inv c o : cache_inv c -> cache_inv (cstep c o).
Proof.
  intros [Hsz Hso]. destruct o as [v| | |k]; cbn [cstep]; split.
  - apply push_exact; exact Hsz.
  - unfold cache_push. pose proof (roi_sorted v (items c) Hso) as H. destruct (roi v (items c)) as [l o]. destruct o; exact H.
  - apply pop_exact; exact Hsz.
  - unfold cache_pop. destruct (items c) as [|x l] eqn:E; cbn [snd items]; [rewrite E; constructor|].
    inversion Hso; assumption.
  - apply pop_last_exact; exact Hsz.
  - unfold cache_pop_last. destruct (rev (items c)) as [|x l] eqn:E; cbn [snd items]; [exact Hso|].
    exact (proj1 (sorted_set_rev_tail x l (items c) Hso E)).
  - apply delete_exact; exact Hsz.
  - unfold cache_delete. pose proof (sdel_sorted k (items c) Hso) as H. destruct (sdel k (items c)) as [l o]. destruct o; [exact H|exact Hso].
Qed.

Theorem cache_size_exact_all : forall mx ops,
  let c := fold_left cstep ops (cache_new mx) in
  byte_size c = sum_len (items c) /\ sorted_set (items c) /\ cache_is_full c = (mx <=? sum_len (items c)).
Proof.
  intros mx ops.
  assert (H : forall c, cache_inv c -> cache_inv (fold_left cstep ops c) /\ max_size (fold_left cstep ops c) = max_size c).
  { induction ops as [|o ops IH]; intros c Hc; [split; [exact Hc|reflexivity]|].
    cbn [fold_left]. destruct (IH (cstep c o) (cstep_inv c o Hc)) as [H1 H2]. split; [exact H1|]. rewrite H2.
    destruct o as [v| | |k]; cbn [cstep].
    - unfold cache_push. destruct (roi v (items c)) as [l o]. reflexivity.
    - unfold cache_pop. destruct (items c); reflexivity.
    - unfold cache_pop_last. destruct (rev (items c)); reflexivity.
    - unfold cache_delete. destruct (sdel k (items c)) as [l [d|]]; reflexivity. }
  destruct (H (cache_new mx)) as [[Hsz Hso] Hmx]; [split; [reflexivity|constructor]|].
  cbv zeta. split; [exact Hsz|]. split; [exact Hso|]. unfold cache_is_full. rewrite Hmx, Hsz. reflexivity.
Qed.

(* Pop returns the minimum of the contents, PopLast the maximum *)
Theorem cache_pop_min c x c' : sorted_set (items c) -> cache_pop c = (Some x, c') ->
  items c = x :: items c' /\ forall y, In y (items c') -> blt x y.
Proof.
  unfold cache_pop. intros Hs H. destruct (items c) as [|z l] eqn:E; [discriminate|]. injection H as <- <-. cbn [items].
  split; [reflexivity|]. inversion Hs as [|? ? _ Hall]; subst. rewrite Forall_forall in Hall. exact Hall.
Qed.

Theorem cache_pop_last_max c x c' : sorted_set (items c) -> cache_pop_last c = (Some x, c') ->
  items c = items c' ++ [x] /\ forall y, In y (items c') -> blt y x.
Proof.
  unfold cache_pop_last. intros Hs H. destruct (rev (items c)) as [|z l] eqn:E; [discriminate|]. injection H as <- <-. cbn [items].
  split.
  - rewrite <- (rev_involutive (items c)), E. reflexivity.
  - destruct (sorted_set_rev_tail z l (items c) Hs E) as [_ Hall]. rewrite Forall_forall in Hall. exact Hall.
Qed.

Theorem cache_pop_none c c' : cache_pop c = (None, c') -> items c = [] /\ c' = c.
Proof. unfold cache_pop. destruct (items c); intros H; [injection H as <-; auto|discriminate]. Qed.

(* Push makes the value present and keeps every other value; Delete removes exactly the key *)
Theorem cache_push_contents v c x : sorted_set (items c) ->
  (In x (items (cache_push v c)) <-> x = v \/ In x (items c)).
Proof.
  intros Hs. unfold cache_push. pose proof (roi_in v (items c) x) as H1. pose proof (roi_has v (items c)) as H2.
  pose proof (roi_keeps v (items c) x Hs) as H3. destruct (roi v (items c)) as [l o]. cbn [fst items] in *.
  cbv zeta. destruct o; cbn [items];
  (split; [exact H1|]; intros [->|Hin]; [exact H2|];
   destruct (list_eq_dec N.eq_dec x v) as [->|Hne]; [exact H2|apply H3; assumption]).
Qed.

Theorem cache_delete_removes k c : sorted_set (items c) -> ~ In k (items (cache_delete k c)).
Proof.
  intros Hs. unfold cache_delete. pose proof (sdel_removes k (items c) Hs) as H.
  destruct (sdel k (items c)) as [l [d|]] eqn:E; cbn [fst items] in *; [exact H|].
  (* nothing was deleted: the key was absent, and then sdel returned the list unchanged *)
  intros Hin. clear H. revert l E Hin. induction Hs as [|y t Hs IH Hall]; cbn [sdel]; intros l E Hin; [destruct Hin|].
  destruct (bcmp k y) eqn:Ek; [discriminate| |].
  - rewrite Forall_forall in Hall. destruct Hin as [H|H]; [subst y; rewrite bcmp_refl in Ek; discriminate|].
    specialize (Hall k H). unfold blt in Hall. rewrite (bcmp_antisym k y), Ek in Hall. discriminate.
  - destruct (sdel k t) as [r [d|]]; [discriminate|]. destruct Hin as [H|H]; [subst y; rewrite bcmp_refl in Ek; discriminate|].
    eapply IH; [reflexivity|exact H].
Qed.

(* ---- history: the Push before the repair ---- *)
Definition cstep_old (c : cache) (o : cop) : cache :=
  match o with OPush v => cache_push_old v c | _ => cstep c o end.
Theorem cache_push_old_refuted :
  exists ops, let c := fold_left cstep_old ops (cache_new 10) in byte_size c <> sum_len (items c).
Proof. exists [OPush [1]; OPush [1]]. vm_compute. discriminate. Qed.
