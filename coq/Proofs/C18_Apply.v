(* Applying a change set: a semantic condition [good_cs] on change sets under which NewWithChangeSet keeps the layout
   valid and does not change [view] (hence no Get / ScanPrefix result). *)
From Coq Require Import List NArith Bool Lia.
From RV Require Import Base.Bytes Model.LsmBase Proofs.C07_Sorted Proofs.C18_Layout.
Import ListNotations.
Open Scope N_scope.

(* ---------- decidable equality on tables ---------- *)

Lemma entry_eqb_eq a b : entry_eqb a b = true <-> a = b.
Proof.
  destruct a as [k1 s1 d1 v1], b as [k2 s2 d2 v2]. unfold entry_eqb. cbn.
  rewrite !andb_true_iff, !beqb_eq, N.eqb_eq, Bool.eqb_true_iff. split.
  - intros (((-> & ->) & ->) & ->). reflexivity.
  - intros [= -> -> -> ->]. auto.
Qed.
Lemma table_eqb_eq a b : table_eqb a b = true <-> a = b.
Proof.
  revert b. induction a as [|x a IH]; intros [|y b]; cbn; split; try discriminate; auto.
  - intros H. apply andb_true_iff in H as [H1 H2]. apply entry_eqb_eq in H1. apply IH in H2. congruence.
  - intros [= -> ->]. apply andb_true_iff. split; [apply entry_eqb_eq|apply IH]; reflexivity.
Qed.
Lemma tmem_in t ts : tmem t ts = true <-> In t ts.
Proof.
  unfold tmem. rewrite existsb_exists. split.
  - intros (x & Hx & He). apply table_eqb_eq in He. subst. exact Hx.
  - intros H. exists t. split; [exact H|apply table_eqb_eq; reflexivity].
Qed.
Lemma tmem_false t ts : tmem t ts = false <-> ~ In t ts.
Proof. rewrite <- tmem_in. destruct (tmem t ts); split; congruence. Qed.

(* ---------- the levels after apply_cs ---------- *)

Definition keep (cs : changeset) (t : table) : bool := negb (tmem t (cs_rem cs)).
Definition newlvl (cs : changeset) (i : nat) (l : list table) : list table :=
  if Nat.eqb i (cs_level cs) then filter (keep cs) l ++ cs_add cs else filter (keep cs) l.

Lemma nth_error_apply_from cs ll b i :
  nth_error (apply_from b cs ll) i = option_map (newlvl cs (b + i)) (nth_error ll i).
Proof.
  revert b i. induction ll as [|l ll IH]; intros b i; [destruct i; reflexivity|].
  destruct i as [|i]; cbn [apply_from nth_error option_map].
  - rewrite Nat.add_0_r. reflexivity.
  - rewrite IH. replace (S b + i)%nat with (b + S i)%nat by lia. reflexivity.
Qed.
Lemma nth_error_apply cs ll i : nth_error (apply_cs cs ll) i = option_map (newlvl cs i) (nth_error ll i).
Proof. unfold apply_cs. rewrite nth_error_apply_from. reflexivity. Qed.

Lemma length_apply cs ll : length (apply_cs cs ll) = length ll.
Proof. unfold apply_cs. generalize 0%nat. induction ll as [|l ll IH]; intros b; cbn; [reflexivity|]. rewrite IH. reflexivity. Qed.

Lemma in_newlvl cs i l t : In t (newlvl cs i l) -> (In t l /\ ~ In t (cs_rem cs)) \/ (i = cs_level cs /\ In t (cs_add cs)).
Proof.
  unfold newlvl. destruct (Nat.eqb i (cs_level cs)) eqn:E; intros H.
  - apply in_app_or in H as [H|H]; [|right; split; [apply Nat.eqb_eq; exact E|exact H]].
    apply filter_In in H as [H1 H2]. left. split; [exact H1|]. apply tmem_false. unfold keep in H2. destruct (tmem t (cs_rem cs)); [discriminate|reflexivity].
  - apply filter_In in H as [H1 H2]. left. split; [exact H1|]. apply tmem_false. unfold keep in H2. destruct (tmem t (cs_rem cs)); [discriminate|reflexivity].
Qed.
Lemma kept_in_newlvl cs i l t : In t l -> ~ In t (cs_rem cs) -> In t (newlvl cs i l).
Proof.
  intros H1 H2. assert (In t (filter (keep cs) l)).
  { apply filter_In. split; [exact H1|]. unfold keep. apply tmem_false in H2. rewrite H2. reflexivity. }
  unfold newlvl. destruct (Nat.eqb i (cs_level cs)); [apply in_or_app; left|]; assumption.
Qed.
Lemma filter_all_removed cs l : (forall t, In t l -> In t (cs_rem cs)) -> filter (keep cs) l = [].
Proof.
  induction l as [|t l IH]; [reflexivity|]. intros H. cbn. unfold keep at 1.
  rewrite (proj2 (tmem_in _ _) (H t (or_introl eq_refl))). cbn. apply IH. intros x Hx. apply H. right. exact Hx.
Qed.

(* ---------- good change sets ---------- *)

Record good_cs (ll : levels) (cs : changeset) : Prop := mkGood {
  g_lvl : (1 <= cs_level cs < length ll)%nat;
  g_all : forall l t, nth_error ll (cs_level cs) = Some l -> In t l -> In t (cs_rem cs);
  g_sub : forall r, In r (cs_rem cs) -> exists j l, (j <= cs_level cs)%nat /\ nth_error ll j = Some l /\ In r l;
  g_add : concat (cs_add cs) = merge_all (cs_rem cs) /\ forall a, In a (cs_add cs) -> a <> [];
  g_closed : forall i j li lj r t, (i < j <= cs_level cs)%nat -> nth_error ll i = Some li -> nth_error ll j = Some lj ->
               In r li -> In r (cs_rem cs) -> In t lj -> In t (cs_rem cs);
  g_l0 : forall l r t e e', nth_error ll 0 = Some l -> In r l -> In r (cs_rem cs) -> In t l -> ~ In t (cs_rem cs) ->
               In e r -> In e' t -> eseq e < eseq e';
  g_deep : forall j l t, (cs_level cs < j)%nat -> nth_error ll j = Some l -> In t l -> ~ In t (cs_rem cs)
}.

Section Apply.
  Variables (ll : levels) (cs : changeset).
  Hypothesis Hv : LLInv ll.
  Hypothesis Hg : good_cs ll cs.

  Local Notation T := (cs_level cs).
  Local Notation R := (cs_rem cs).
  Local Notation A := (cs_add cs).

  Lemma add_entry_from_rem a e : In a A -> In e a -> exists r, In r R /\ In e r.
  Proof.
    intros Ha He. assert (H : In e (merge_all R)).
    { destruct (g_add _ _ Hg) as [<- _]. apply in_concat_iff. exists a. auto. }
    destruct (Mx_merge_all R) as (_ & H2 & _). destruct (H2 _ H) as (r & Hr & Her). exists r. auto.
  Qed.

  Lemma add_sorted a : In a A -> sorted a.
  Proof.
    intros Ha. eapply sorted_concat_in; [|exact Ha]. destruct (g_add _ _ Hg) as [-> _]. apply merge_all_sorted.
  Qed.

  (* an entry of a removed table is dominated by an entry of the added tables *)
  Lemma rem_entry_dominated r e : In r R -> In e r -> exists a m, In a A /\ In m a /\ ekey m = ekey e /\ eseq e <= eseq m.
  Proof.
    intros Hr He. destruct (Mx_merge_all R) as (_ & _ & H3).
    destruct (H3 e (ex_intro _ r (conj Hr He))) as (m & Hm1 & Hm2).
    apply tbl_get_some in Hm1 as [Hm3 Hm4]. destruct (g_add _ _ Hg) as [Hc _]. rewrite <- Hc in Hm3.
    apply in_concat_iff in Hm3 as (a & Ha & Hma). exists a, m. auto.
  Qed.

  (* where the entries of the new layout come from *)
  Lemma new_ord_case i li t e :
    nth_error ll i = Some li -> In t (newlvl cs i li) -> In e t ->
    (In t li /\ ~ In t R) \/ (i = T /\ exists j lj r, (j <= T)%nat /\ nth_error ll j = Some lj /\ In r lj /\ In r R /\ In e r).
  Proof.
    intros Hi Ht He. apply in_newlvl in Ht as [Ht|[Hi' Ht]]; [left; exact Ht|right]. split; [exact Hi'|].
    destruct (add_entry_from_rem _ _ Ht He) as (r & Hr & Her). destruct (g_sub _ _ Hg r Hr) as (j & lj & Hj & Hlj & Hrl).
    exists j, lj, r. auto.
  Qed.

  Theorem apply_LLInv : LLInv (apply_cs cs ll).
  Proof.
    constructor.
    - (* tables sorted *)
      intros l' t Hl' Ht. apply In_nth_error in Hl' as (i & Hi). rewrite nth_error_apply in Hi.
      destruct (nth_error ll i) as [l|] eqn:E; [|discriminate]. cbn in Hi. injection Hi as <-.
      apply in_newlvl in Ht as [[Ht _]|[_ Ht]]; [|apply add_sorted; exact Ht].
      eapply v_sorted; eauto. eapply nth_error_In; eauto.
    - (* deeper levels *)
      intros i l' Hi. rewrite nth_error_apply in Hi. destruct (nth_error ll (S i)) as [l|] eqn:E; [|discriminate].
      cbn in Hi. injection Hi as <-. destruct (v_deep _ Hv _ _ E) as [Hd1 Hd2]. unfold newlvl.
      destruct (Nat.eqb (S i) (cs_level cs)) eqn:ET.
      + apply Nat.eqb_eq in ET. rewrite filter_all_removed; [|intros t Ht; eapply g_all; eauto; rewrite <- ET; exact E].
        cbn. split; [destruct (g_add _ _ Hg) as [-> _]; apply merge_all_sorted|apply (g_add _ _ Hg)].
      + split; [apply sorted_concat_filter; exact Hd1|]. intros t Ht. apply filter_In in Ht as [Ht _]. auto.
    - (* level 0 *)
      intros l' Hi. rewrite nth_error_apply in Hi. destruct (nth_error ll 0) as [l|] eqn:E; [|discriminate].
      cbn in Hi. injection Hi as <-. unfold newlvl. pose proof (g_lvl _ _ Hg) as HT.
      destruct (Nat.eqb 0 (cs_level cs)) eqn:ET; [apply Nat.eqb_eq in ET; lia|]. apply sep_filter. eapply v_sep; eauto.
    - (* newer above older *)
      intros i j li' lj' t t' e e' Hij Hi Hj Ht Ht' He He' Hk.
      rewrite nth_error_apply in Hi, Hj.
      destruct (nth_error ll i) as [li|] eqn:Ei; [|discriminate]. destruct (nth_error ll j) as [lj|] eqn:Ej; [|discriminate].
      cbn in Hi, Hj. injection Hi as <-. injection Hj as <-.
      destruct (new_ord_case _ _ _ _ Ei Ht He) as [[Ht1 Ht2]|[HiT (j0 & l0 & r & Hj0 & Hl0 & Hrl & HrR & Her)]];
      destruct (new_ord_case _ _ _ _ Ej Ht' He') as [[Ht1' Ht2']|[HjT (j1 & l1 & r' & Hj1 & Hl1 & Hrl' & HrR' & Her')]].
      + eapply (v_ord _ Hv i j); eauto.
      + (* t kept at level i < T, e' comes from a removed table r' at level j1 <= T *)
        subst j. destruct (Nat.lt_trichotomy i j1) as [H|[H|H]].
        * eapply (v_ord _ Hv i j1); eauto.
        * subst j1. assert (l1 = li) by congruence. subst l1. destruct i as [|i].
          -- eapply (g_l0 _ _ Hg li r' t); eauto.
          -- destruct (v_deep _ Hv _ _ Ei) as [Hd _].
             destruct (sorted_concat_same_table _ _ _ _ _ Hd Ht1 Hrl' He Her' Hk) as [-> _]. contradiction.
        * exfalso. apply Ht2. eapply (g_closed _ _ Hg j1 i); eauto. lia.
      + (* e comes from a removed table at level j0 <= T = i < j, t' kept *)
        subst i. eapply (v_ord _ Hv j0 j); eauto. lia.
      + lia.
  Qed.

  Lemma ents_apply_sub e : ents (apply_cs cs ll) e -> ents ll e.
  Proof.
    intros He. apply ents_nth in He as (i & l' & t & Hi & Ht & He). rewrite nth_error_apply in Hi.
    destruct (nth_error ll i) as [l|] eqn:E; [|discriminate]. cbn in Hi. injection Hi as <-.
    destruct (new_ord_case _ _ _ _ E Ht He) as [[Ht1 _]|[_ (j & lj & r & _ & Hlj & Hrl & _ & Her)]].
    - apply ents_nth. exists i, l, t. auto.
    - apply ents_nth. exists j, lj, r. auto.
  Qed.

  Theorem apply_view : view (apply_cs cs ll) = view ll.
  Proof.
    eapply Mx_same; [apply ents_view|apply ents_view| | |].
    - intros e e' He He'. apply (LLInv_uniq _ Hv); [destruct He as [He|He]|destruct He' as [He'|He']]; auto using ents_apply_sub.
    - intros e He. exists e. repeat split; [apply ents_apply_sub; exact He|lia].
    - intros e He. apply ents_nth in He as (i & l & t & Hi & Ht & He).
      destruct (tmem t R) eqn:HR; [apply tmem_in in HR|apply tmem_false in HR].
      + destruct (rem_entry_dominated _ _ HR He) as (a & m & Ha & Hm & Hk & Hs). exists m. repeat split; auto.
        pose proof (g_lvl _ _ Hg) as HT. destruct (nth_error ll T) as [lT|] eqn:ET; [|apply nth_error_None in ET; lia].
        apply ents_nth. exists T, (newlvl cs T lT), a. split; [rewrite nth_error_apply, ET; reflexivity|]. split; [|exact Hm].
        unfold newlvl. rewrite Nat.eqb_refl. apply in_or_app. right. exact Ha.
      + exists e. repeat split; [|lia]. apply ents_nth. exists i, (newlvl cs i l), t.
        split; [rewrite nth_error_apply, Hi; reflexivity|]. split; [apply kept_in_newlvl; assumption|exact He].
  Qed.
End Apply.
