(* C02: lemmas about the event-loop-owned data (batcher, handler calls): what flush / add_item /
   handle_wm do to the log, the batch and the applied set, independent of sizes, tokens and timers. *)
From RV Require Import Model.Align.
From Coq Require Import List NArith Bool Arith Lia.
Import ListNotations.
Open Scope N_scope.

(* ---------- lists ---------- *)
Lemma set_nth_length {A} (i : nat) (v : A) l : length (set_nth i v l) = length l.
Proof. revert i; induction l as [|a l IH]; intros [|i]; cbn; auto. Qed.

Lemma nth_error_set_nth_eq {A} (i : nat) (v : A) l : (i < length l)%nat -> nth_error (set_nth i v l) i = Some v.
Proof. revert i; induction l as [|a l IH]; intros [|i] H; cbn in *; try lia; auto. apply IH; lia. Qed.

Lemma nth_error_set_nth_neq {A} (i j : nat) (v : A) l : i <> j -> nth_error (set_nth i v l) j = nth_error l j.
Proof. revert i j; induction l as [|a l IH]; intros [|i] [|j] H; cbn; auto; try congruence. Qed.

Lemma nth_set_nth_eq {A} (i : nat) (v d : A) l : (i < length l)%nat -> nth i (set_nth i v l) d = v.
Proof. revert i; induction l as [|a l IH]; intros [|i] H; cbn in *; try lia; auto. apply IH; lia. Qed.

Lemma nth_set_nth_neq {A} (i j : nat) (v d : A) l : i <> j -> nth j (set_nth i v l) d = nth j l d.
Proof. revert i j; induction l as [|a l IH]; intros [|i] [|j] H; cbn; auto; try congruence. Qed.

Lemma app_split_mid {A} (new L post pre : list A) (e : A) :
  new ++ L = post ++ e :: pre ->
  (exists post0, post = new ++ post0 /\ L = post0 ++ e :: pre) \/
  (exists n2, new = post ++ e :: n2 /\ pre = n2 ++ L).
Proof.
  revert post; induction new as [|a new IH]; intros post H; cbn in H.
  - left. exists post. auto.
  - destruct post as [|p post]; cbn in H.
    + injection H as -> <-. right. exists new. auto.
    + injection H as -> H. destruct (IH _ H) as [[p0 [-> ->]]|[n2 [-> ->]]].
      * left. exists p0. auto.
      * right. exists n2. auto.
Qed.

Lemma in_remove_nat s s' l : In s' (remove_nat s l) <-> In s' l /\ s' <> s.
Proof.
  induction l as [|y l IH]; cbn; [tauto|].
  destruct (Nat.eqb s y) eqn:E.
  - apply Nat.eqb_eq in E. subst y. rewrite IH. split; [tauto|]. intros [[H|H] Hn]; [congruence|tauto].
  - apply Nat.eqb_neq in E. cbn. rewrite IH. split.
    + intros [H|H]; [subst; split; auto|tauto].
    + tauto.
Qed.

Lemma mem_nat_In s l : mem_nat s l = true <-> In s l.
Proof.
  induction l as [|y l IH]; cbn; [split; [discriminate|tauto]|].
  rewrite orb_true_iff, IH, Nat.eqb_eq. split; intros [H|H]; auto.
Qed.

(* ---------- data extension ---------- *)
(* y is reached from x by handler calls / additions of the entries O:
   the log grows by call markers and applications of entries that were pending or are in O; pending
   entries stay pending or are applied; the applied set grows by exactly the applications logged *)
Definition dext (O : list bitem) (x y : dat) : Prop :=
  exists new, log y = new ++ log x
   /\ (forall e, In e new -> (exists w, e = LCall w) \/ (exists b, e = LApp b /\ (In b (batch x) \/ In b O)))
   /\ (forall b, In b (batch y) -> In b (batch x) \/ In b O)
   /\ (forall b, In b (batch x) \/ In b O -> In b (batch y) \/ In (LApp b) new)
   /\ (forall b, In b (applied y) <-> In b (applied x) \/ In (LApp b) new).

Lemma dext_refl x : dext [] x x.
Proof. exists []. cbn. repeat split; try tauto; intros b [H|[]]; auto. Qed.

Lemma dext_same O x y : log y = log x -> batch y = batch x -> applied y = applied x -> O = [] -> dext O x y.
Proof.
  intros Hl Hb Ha ->. exists []. rewrite Hl, Hb, Ha. cbn. repeat split; try tauto; intros b [H|[]]; auto.
Qed.

Lemma dext_trans O1 O2 x y z : dext O1 x y -> dext O2 y z -> dext (O1 ++ O2) x z.
Proof.
  intros (n1 & L1 & E1 & B1 & P1 & A1) (n2 & L2 & E2 & B2 & P2 & A2).
  exists (n2 ++ n1). split; [rewrite L2, L1, app_assoc; reflexivity|]. split; [|split; [|split]].
  - intros e He. apply in_app_or in He. destruct He as [He|He].
    + destruct (E2 _ He) as [?|(b & -> & [Hb|Hb])]; auto; right; exists b; split; auto.
      * destruct (B1 _ Hb); [left|right; apply in_or_app]; auto.
      * right; apply in_or_app; auto.
    + destruct (E1 _ He) as [?|(b & -> & [Hb|Hb])]; auto; right; exists b; split; auto.
      right; apply in_or_app; auto.
  - intros b Hb. destruct (B2 _ Hb) as [H|H].
    + destruct (B1 _ H); [left|right; apply in_or_app]; auto.
    + right; apply in_or_app; auto.
  - intros b Hb.
    assert (In b (batch y) \/ In (LApp b) n1 \/ In b O2) as [H|[H|H]].
    { destruct Hb as [Hb|Hb]; [destruct (P1 b (or_introl Hb)); auto|].
      apply in_app_or in Hb. destruct Hb as [Hb|Hb]; [destruct (P1 b (or_intror Hb)); auto|auto]. }
    + destruct (P2 b (or_introl H)); [left|right; apply in_or_app]; auto.
    + right; apply in_or_app; auto.
    + destruct (P2 b (or_intror H)); [left|right; apply in_or_app]; auto.
  - intros b. rewrite A2, A1, in_app_iff. tauto.
Qed.

(* ---------- processEventBatch ---------- *)
Lemma fold_apply_log l x : log (fold_left apply_item l x) = rev (map LApp l) ++ log x.
Proof.
  revert x; induction l as [|b l IH]; intros x; cbn; auto.
  rewrite IH. cbn. rewrite <- app_assoc. reflexivity.
Qed.
Lemma fold_apply_applied l x : applied (fold_left apply_item l x) = rev l ++ applied x.
Proof.
  revert x; induction l as [|b l IH]; intros x; cbn; auto.
  rewrite IH. cbn. rewrite <- app_assoc. reflexivity.
Qed.
Lemma fold_apply_batch l x : batch (fold_left apply_item l x) = batch x.
Proof. revert x; induction l as [|b l IH]; intros x; cbn; auto. rewrite IH. reflexivity. Qed.

Lemma flush_cases tok x :
  flush tok x = x \/
  (batch (flush tok x) = [] /\ log (flush tok x) = rev (map LApp (batch x)) ++ LCall (wm x) :: log x
   /\ applied (flush tok x) = rev (batch x) ++ applied x).
Proof.
  unfold flush. destruct (batch x) as [|b l] eqn:E; auto.
  destruct (match tok with None => true | Some t => t =? btoken x end); auto.
  right. cbn [set_fault batch log applied]. rewrite fold_apply_batch, fold_apply_log, fold_apply_applied. cbn. auto.
Qed.

Lemma flush_dext tok x : dext [] x (flush tok x).
Proof.
  destruct (flush_cases tok x) as [->|(Hb & Hl & Ha)]; [apply dext_refl|].
  exists (rev (map LApp (batch x)) ++ [LCall (wm x)]).
  split; [rewrite Hl, <- app_assoc; reflexivity|]. split; [|split; [|split]].
  - intros e He. apply in_app_or in He. destruct He as [He|[<-|[]]]; [|left; eauto].
    apply in_rev, in_map_iff in He. destruct He as (b & <- & Hb'). right. eauto.
  - rewrite Hb. intros b [].
  - intros b [H|[]]. right. apply in_or_app. left. apply -> in_rev. apply in_map. exact H.
  - intros b. rewrite Ha, in_app_iff, <- in_rev, in_app_iff. split.
    + intros [H|H]; auto. right. left. apply -> in_rev. apply in_map. exact H.
    + intros [H|[H|[H|[]]]]; auto; [|discriminate].
      apply in_rev, in_map_iff in H. destruct H as (b' & [= ->] & H). auto.
Qed.

Lemma flush_none_batch x : batch (flush None x) = [].
Proof.
  unfold flush. destruct (batch x) as [|b l] eqn:E; auto. cbn [set_fault batch]. rewrite fold_apply_batch. reflexivity.
Qed.

Lemma add_item_dext c x b : dext [b] x (add_item c x b).
Proof.
  unfold add_item.
  set (x1 := mkDat (batch x ++ [b]) _ _ _ _ _ _ _ _ _ _).
  assert (H1 : dext [b] x x1).
  { exists []. split; [reflexivity|]. split; [intros e []|]. split; [|split].
    - intros b' H. cbn in H. apply in_app_or in H. exact H.
    - intros b' H. left. cbn. apply in_or_app. exact H.
    - intros b'. cbn. tauto. }
  destruct (msize c <=? _); auto.
  replace [b] with ([b] ++ []) by apply app_nil_r. eapply dext_trans; [exact H1|apply flush_dext].
Qed.

Lemma fire_all_dext c o (fired : list (N * N)) x :
  exists O, dext O x (fire_all c o fired x) /\ forall b, In b O -> exists k ts, b = BTm o k ts.
Proof.
  revert x; induction fired as [|tk fired IH]; intros x; cbn [fire_all].
  - exists []. split; [apply dext_refl|]. intros b [].
  - set (x' := add_item c x (BTm o (snd tk) (fst tk))).
    assert (H1 : dext [BTm o (snd tk) (fst tk)] x x') by apply add_item_dext.
    destruct (errored x x').
    + exists ([BTm o (snd tk) (fst tk)] ++ []). split.
      * eapply dext_trans; [exact H1|]. apply dext_same; reflexivity.
      * intros b [<-|[]]; eauto.
    + destruct (IH x') as (O & HO & HB).
      exists ([BTm o (snd tk) (fst tk)] ++ O). split.
      * eapply dext_trans; [exact H1|exact HO].
      * intros b [<-|H]; eauto.
Qed.

Lemma handle_wm_dext c x o t :
  exists O, dext O x (handle_wm c x o t) /\ forall b, In b O -> exists k ts, b = BTm o k ts.
Proof.
  unfold handle_wm. destruct (tsplit _ _) as [fired rest].
  set (x1 := mkDat _ _ _ _ _ _ _ _ _ _ _).
  destruct (fire_all_dext c o fired x1) as (O & HO & HB).
  exists O. split; auto.
Qed.

Lemma fold_apply_active l z : active (fold_left apply_item l z) = active z.
Proof. revert z; induction l as [|b l IH]; intros z; cbn; auto. rewrite IH. reflexivity. Qed.
Lemma active_flush tok y : active (flush tok y) = active y.
Proof.
  unfold flush. destruct (batch y); auto.
  destruct (match tok with None => true | Some t => t =? btoken y end); auto.
  cbn [set_fault active]. rewrite fold_apply_active. reflexivity.
Qed.
