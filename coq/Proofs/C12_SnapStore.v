(* C12: every trace of the (repaired) store model is accepted by the specification monitor - for EVERY list
   of API calls (duplicates, wrong ids, unknown senders, creations while pending, restarts).  The proof is a
   simulation invariant between the store state and the monitor state. *)
From RV Require Import Base.Mach Model.SnapStore.
From Coq Require Import ZifyN ZifyNat ZifyBool.
Open Scope N_scope.

(* ---------- small list / flag-map facts ---------- *)
Lemma mem_In x l : mem x l = true <-> In x l.
Proof.
  unfold mem. rewrite existsb_exists. split.
  - intros (y & Hy & E). apply N.eqb_eq in E. subst. exact Hy.
  - intros H. exists x. split; [exact H|apply N.eqb_refl].
Qed.

Lemma mem_false x l : mem x l = false <-> ~ In x l.
Proof. rewrite <- mem_In. destruct (mem x l); split; congruence. Qed.

Lemma existsb_false {A} (f : A -> bool) l : (forall x, In x l -> f x = false) -> existsb f l = false.
Proof.
  induction l as [|a l IH]; intros H; [reflexivity|].
  cbn [existsb]. rewrite (H a (or_introl eq_refl)), IH; [reflexivity|].
  intros x Hx. apply H. right. exact Hx.
Qed.

Lemma mem_app_single k l x : mem k (l ++ [x]) = mem k l || (k =? x).
Proof. unfold mem. rewrite existsb_app. cbn [existsb]. rewrite orb_false_r. reflexivity. Qed.

Lemma mem_nodup k l : mem k (nodup N.eq_dec l) = mem k l.
Proof.
  destruct (mem k l) eqn:E.
  - apply mem_In. apply nodup_In. apply mem_In. exact E.
  - apply mem_false. rewrite nodup_In. apply mem_false. exact E.
Qed.

Lemma flag_of_map_false k l : flag_of k (map (fun x => (x, false)) l) = if mem k l then Some false else None.
Proof.
  induction l as [|a l IH]; [reflexivity|].
  cbn [map flag_of]. unfold mem in *. cbn [existsb].
  destruct (N.eqb_spec a k) as [E|E].
  - subst. rewrite N.eqb_refl. reflexivity.
  - destruct (N.eqb_spec k a) as [E'|E']; [congruence|]. cbn [orb]. exact IH.
Qed.

Lemma flag_of_mk_flags k l : flag_of k (mk_flags l) = if mem k l then Some false else None.
Proof. unfold mk_flags. rewrite flag_of_map_false, mem_nodup. reflexivity. Qed.

Lemma flag_of_set k k0 m :
  flag_of k (set_flag k0 m) =
  if k =? k0 then match flag_of k m with Some _ => Some true | None => None end else flag_of k m.
Proof.
  induction m as [|[k' b] m IH].
  - cbn [set_flag flag_of]. destruct (k =? k0); reflexivity.
  - cbn [set_flag flag_of].
    destruct (N.eqb_spec k' k0) as [E1|E1].
    + subst k'. cbn [flag_of].
      destruct (N.eqb_spec k0 k) as [E2|E2].
      * subst. rewrite N.eqb_refl. reflexivity.
      * destruct (N.eqb_spec k k0) as [E3|E3]; [congruence|reflexivity].
    + cbn [flag_of].
      destruct (N.eqb_spec k' k) as [E2|E2].
      * subst k'. destruct (N.eqb_spec k k0) as [E3|E3]; [congruence|reflexivity].
      * exact IH.
Qed.

Lemma all_set_flag m k b : all_set m = true -> flag_of k m = Some b -> b = true.
Proof.
  unfold all_set. induction m as [|[k' b'] m IH]; cbn [forallb flag_of snd]; intros Ha Hf; [discriminate|].
  apply andb_prop in Ha. destruct Ha as [Ha1 Ha2].
  destruct (k' =? k).
  - injection Hf as <-. exact Ha1.
  - apply IH; assumption.
Qed.

Lemma incl_b_refl_entry l : incl_b entry_eqb l l = true.
Proof.
  unfold incl_b. apply forallb_forall. intros x Hx. apply existsb_exists. exists x. split; [exact Hx|].
  unfold entry_eqb. rewrite !N.eqb_refl. reflexivity.
Qed.

Lemma listN_eqb_refl l : listN_eqb l l = true.
Proof. induction l as [|x l IH]; [reflexivity|]. cbn [listN_eqb]. rewrite N.eqb_refl. exact IH. Qed.

Lemma snap_eqb_refl s : snap_eqb s s = true.
Proof. unfold snap_eqb. rewrite N.eqb_refl, Nat.eqb_refl, incl_b_refl_entry, listN_eqb_refl. reflexivity. Qed.

Lemma incl_b_N a b : incl_b N.eqb a b = true <-> (forall x, In x a -> In x b).
Proof.
  unfold incl_b. rewrite forallb_forall. split; intros H x Hx.
  - apply mem_In. exact (H x Hx).
  - apply mem_In. exact (H x Hx).
Qed.

(* ---------- max_snap ---------- *)
Lemma max_snap_some b l : (forall y, In y l -> sn_id y <= sn_id b) -> max_snap (Some b) l = Some b.
Proof.
  induction l as [|y l IH]; intros H; [reflexivity|].
  cbn [max_snap]. assert (Hy := H y (or_introl eq_refl)).
  destruct (sn_id b <? sn_id y) eqn:E; [lia|].
  apply IH. intros z Hz. apply H. right. exact Hz.
Qed.

Lemma max_snap_ge l : forall b r, max_snap b l = Some r ->
  (forall y, In y l -> sn_id y <= sn_id r) /\ (forall b0, b = Some b0 -> sn_id b0 <= sn_id r).
Proof.
  induction l as [|y l IH]; intros b r H.
  - cbn [max_snap] in H. subst. split; [intros y []|]. intros b0 E. inversion E. lia.
  - cbn [max_snap] in H. destruct b as [b0|].
    + destruct (sn_id b0 <? sn_id y) eqn:E.
      * destruct (IH _ _ H) as [I1 I2]. specialize (I2 y eq_refl). split.
        -- intros z [Hz|Hz]; [subst; exact I2|exact (I1 z Hz)].
        -- intros b1 E1. inversion E1. subst. lia.
      * destruct (IH _ _ H) as [I1 I2]. specialize (I2 b0 eq_refl). split.
        -- intros z [Hz|Hz]; [subst; lia|exact (I1 z Hz)].
        -- intros b1 E1. inversion E1. subst. exact I2.
    + destruct (IH _ _ H) as [I1 I2]. specialize (I2 y eq_refl). split.
      * intros z [Hz|Hz]; [subst; exact I2|exact (I1 z Hz)].
      * intros b1 E1. discriminate.
Qed.

Lemma max_snap_none_nil l : max_snap None l = None -> l = [].
Proof.
  destruct l as [|y l]; [reflexivity|]. cbn [max_snap]. intros H.
  exfalso. revert H. generalize y. induction l as [|z l IH]; intros b H; cbn [max_snap] in H; [discriminate|].
  destruct (sn_id b <? sn_id z); eapply IH; exact H.
Qed.

Lemma In_without x ids l : In x (without ids l) -> In x l.
Proof. unfold without. intros H. apply filter_In in H. tauto. Qed.

Lemma In_without_iff x ids l :
  In x (without ids l) <-> In x l /\ existsb (N.eqb (sn_id x)) ids = false.
Proof.
  unfold without. rewrite filter_In. split; intros [H1 H2]; split; try exact H1.
  - apply negb_true_iff. exact H2.
  - apply negb_true_iff. exact H2.
Qed.

Lemma not_in_single x p : existsb (N.eqb x) [p] = false <-> x <> p.
Proof. cbn [existsb]. rewrite orb_false_r. apply N.eqb_neq. Qed.

Lemma max_snap_In l : forall b r, max_snap b l = Some r -> b = Some r \/ In r l.
Proof.
  induction l as [|y l IH]; intros b r H; cbn [max_snap] in H; [left; exact H|].
  destruct b as [b0|].
  - destruct (sn_id b0 <? sn_id y).
    + destruct (IH _ _ H) as [E|E]; [inversion E; right; left; reflexivity|right; right; exact E].
    + destruct (IH _ _ H) as [E|E]; [left; exact E|right; right; exact E].
  - destruct (IH _ _ H) as [E|E]; [inversion E; right; left; reflexivity|right; right; exact E].
Qed.

(* one snapshot per id; the element of greatest id *)
Definition uniq (l : list snapobs) : Prop := forall x y, In x l -> In y l -> sn_id x = sn_id y -> x = y.
Definition top (l : list snapobs) (b : snapobs) : Prop := In b l /\ forall x, In x l -> sn_id x <= sn_id b.

Lemma best_top l b : uniq l -> top l b -> max_snap None l = Some b.
Proof.
  intros Hu [Hb Hle]. destruct (max_snap None l) as [r|] eqn:E.
  - destruct (max_snap_In _ _ _ E) as [E1|Hr]; [discriminate|].
    destruct (max_snap_ge _ _ _ E) as [G _]. f_equal. apply Hu; try assumption.
    specialize (G b Hb). specialize (Hle r Hr). lia.
  - apply max_snap_none_nil in E. subst. destruct Hb.
Qed.

Lemma best_sub files pubs b :
  uniq pubs -> (forall x, In x files -> In x pubs) -> top pubs b -> In b files -> max_snap None files = Some b.
Proof.
  intros Hu Hs [Hb Hle] Hf. apply best_top.
  - intros x y Hx Hy. apply Hu; apply Hs; assumption.
  - split; [exact Hf|]. intros x Hx. apply Hle. apply Hs. exact Hx.
Qed.

(* ---------- the simulation invariant ---------- *)
Definition bnd (st : store) (x : N) : Prop :=
  match pend st with Some p => x < p_id p | None => x <= ckpt_id st end.

Definition PInv (p : pending) (mp : mpend) : Prop :=
  p_id p = mp_id mp /\ p_entries p = mp_got_ops mp /\ p_splits p = concat (map snd (mp_got_srs mp)) /\
  (forall k, flag_of k (p_ops p) = if mem k (mp_ops mp) then Some (mem k (map entry_op (mp_got_ops mp))) else None) /\
  (forall k, flag_of k (p_srs p) = if mem k (mp_srs mp) then Some (mem k (map fst (mp_got_srs mp))) else None) /\
  nodupb (map entry_op (mp_got_ops mp)) = true /\
  forallb (fun e => entry_cid e =? mp_id mp) (mp_got_ops mp) = true /\
  incl_b N.eqb (map entry_op (mp_got_ops mp)) (mp_ops mp) = true.

(* storage vs the monitor's record: every file is the latest publication of its id, and the latest publication
   of the greatest id ever published is still there (stale files of an abandoned timeline included) *)
Definition Inv (w : world) (m : mon) : Prop :=
  let st := w_store w in
  match pend st, m_pend m with
  | None, None => True
  | Some p, Some mp => PInv p mp /\ p_id p = ckpt_id st
  | _, _ => False
  end /\
  m_last m <= ckpt_id st /\
  (forall i, In i (m_cur m) -> bnd st i) /\
  (forall s, In s (completed st) -> bnd st (sn_id s)) /\
  uniq (m_pub m) /\
  (forall x, In x (w_files w) -> In x (m_pub m)) /\
  (forall b, top (m_pub m) b -> In b (w_files w)) /\
  w_sps w = m_sps m.

Lemma Inv_init : Inv init mon_init.
Proof.
  unfold Inv, init, mon_init, new_store, bnd, uniq, top. cbn.
  repeat split; try lia; try (intros ? []); try (intros ? ? []); try (intros b [[] _]).
Qed.

(* a complete pending snapshot is published: no code, invariant re-established *)
Lemma publish_ok w p mp lst pubs cur sps :
  PInv p mp -> p_id p = ckpt_id (w_store w) -> is_complete p = true ->
  lst <= ckpt_id (w_store w) ->
  (forall i, In i cur -> i < p_id p) ->
  (forall s, In s (completed (w_store w)) -> sn_id s < p_id p) ->
  uniq pubs -> (forall x, In x (w_files w) -> In x pubs) -> (forall b, top pubs b -> In b (w_files w)) ->
  w_sps w = sps ->
  snd (mon_pub (MkMon (Some mp) lst pubs cur sps) (Some (snd (publish w p)))) = [] /\
  Inv (fst (publish w p)) (fst (mon_pub (MkMon (Some mp) lst pubs cur sps) (Some (snd (publish w p))))).
Proof.
  intros HP Hid Hc Hl Hcur Hcomp Hu Hsub Htop Hsps.
  destruct HP as (P1 & P2 & P3 & P4 & P5 & P6 & P7 & P8).
  unfold publish.
  assert (Hsup : existsb (fun c => sn_id (snap_of p) <? sn_id c) (completed (w_store w)) = false).
  { apply existsb_false. intros c Hc'. specialize (Hcomp c Hc'). cbn [snap_of sn_id]. lia. }
  rewrite Hsup. cbn [negb andb fst snd pb_snap pb_sp].
  set (s := snap_of p).
  assert (Hsid : sn_id s = p_id p) by reflexivity.
  set (cleanup := negb match completed (w_store w) with [] => true | _ :: _ => false end).
  set (files1 := s :: without [sn_id s] (w_files w)).
  set (files2 := if cleanup && negb (w_lose w) then without (ids_of (completed (w_store w))) files1 else files1).
  assert (Hobs : forall x, existsb (N.eqb x) (ids_of (completed (w_store w))) = true -> x < p_id p).
  { intros x Hx. apply existsb_exists in Hx. destruct Hx as (i & Hi & E). apply N.eqb_eq in E. subst i.
    unfold ids_of in Hi. apply in_map_iff in Hi. destruct Hi as (c & Ec & Hc'). specialize (Hcomp c Hc'). lia. }
  assert (Hf2in : forall x, In x files2 -> x = s \/ (In x (w_files w) /\ sn_id x <> p_id p)).
  { intros x Hx. assert (Hx1 : In x files1).
    { unfold files2 in Hx. destruct (cleanup && negb (w_lose w)); [exact (In_without _ _ _ Hx)|exact Hx]. }
    destruct Hx1 as [Hx1|Hx1]; [left; symmetry; exact Hx1|right].
    apply In_without_iff in Hx1. destruct Hx1 as [H1 H2]. split; [exact H1|]. apply not_in_single in H2. rewrite <- Hsid. exact H2. }
  assert (Hf2keep : forall x, (x = s \/ (In x (w_files w) /\ p_id p < sn_id x)) -> In x files2).
  { intros x Hx.
    assert (Hx1 : In x files1).
    { destruct Hx as [Hx|[Hx Hlt]]; [left; symmetry; exact Hx|right].
      apply In_without_iff. split; [exact Hx|]. apply not_in_single. lia. }
    unfold files2. destruct (cleanup && negb (w_lose w)); [|exact Hx1].
    apply In_without_iff. split; [exact Hx1|].
    destruct (existsb (N.eqb (sn_id x)) (ids_of (completed (w_store w)))) eqn:E; [|reflexivity].
    specialize (Hobs _ E). destruct Hx as [Hx|[_ Hlt]]; [subst x; lia|lia]. }
  clearbody files2. clear files1.
  split.
  - (* monitor: content and completeness *)
    unfold mon_pub. cbn [m_pend pb_snap snd].
    assert (C1 : content_ok mp s = true).
    { unfold content_ok, s, snap_of. cbn [sn_id sn_entries sn_splits].
      rewrite P1, N.eqb_refl, P2, P6, incl_b_refl_entry, P8, P3, listN_eqb_refl.
      cbn [andb]. rewrite <- P1 in P7. rewrite <- P1. rewrite P7. reflexivity. }
    assert (C2 : all_acked mp = true).
    { unfold is_complete in Hc. apply andb_prop in Hc. destruct Hc as [Hs Ho].
      unfold all_acked. apply andb_true_intro. split; apply incl_b_N; intros x Hx.
      - apply mem_In in Hx. specialize (P4 x). rewrite Hx in P4.
        apply mem_In. exact (all_set_flag _ _ _ Ho P4).
      - apply mem_In in Hx. specialize (P5 x). rewrite Hx in P5.
        apply mem_In. exact (all_set_flag _ _ _ Hs P5). }
    rewrite C1, C2. reflexivity.
  - unfold mon_pub. cbn [m_pend m_last m_pub m_cur m_sps pb_snap pb_sp fst snd].
    unfold Inv, bnd. cbn [w_store w_files w_sps pend m_pend m_last m_pub m_cur m_sps completed ckpt_id].
    split; [exact I|]. split; [exact Hl|].
    split. { intros i [Hi|Hi]; [subst i; lia|]. specialize (Hcur i Hi). lia. }
    split. { intros x [Hx|[]]. subst x. lia. }
    split.
    { (* one publication per id *)
      intros x y Hx Hy E. destruct Hx as [Hx|Hx]; destruct Hy as [Hy|Hy].
      - congruence.
      - subst x. apply In_without_iff in Hy. destruct Hy as [_ Hy]. apply not_in_single in Hy. congruence.
      - subst y. apply In_without_iff in Hx. destruct Hx as [_ Hx]. apply not_in_single in Hx. congruence.
      - apply Hu; [exact (In_without _ _ _ Hx)|exact (In_without _ _ _ Hy)|exact E]. }
    split.
    { intros x Hx. destruct (Hf2in x Hx) as [E|[H1 H2]]; [left; symmetry; exact E|right].
      apply In_without_iff. split; [exact (Hsub x H1)|]. apply not_in_single. rewrite Hsid. exact H2. }
    split.
    { intros b [Hb Hle]. destruct Hb as [Hb|Hb]; [apply Hf2keep; left; symmetry; exact Hb|].
      apply In_without_iff in Hb. destruct Hb as [Hb Hne]. apply not_in_single in Hne.
      assert (Hlt : p_id p < sn_id b).
      { specialize (Hle s (or_introl eq_refl)). rewrite Hsid in *. lia. }
      apply Hf2keep. right. split; [|exact Hlt]. apply Htop. split; [exact Hb|].
      intros x Hx. destruct (N.eqb_spec (sn_id x) (sn_id s)) as [E|E]; [rewrite E, Hsid; lia|].
      apply Hle. right. apply In_without_iff. split; [exact Hx|]. apply not_in_single. exact E. }
    rewrite Hsps. reflexivity.
Qed.

Definition step_good (w : world) (m : mon) (a : action) : Prop :=
  snd (mon_step m (a, snd (step repaired w a))) = [] /\
  Inv (fst (step repaired w a)) (fst (mon_step m (a, snd (step repaired w a)))).

Lemma bnd_pending w p x : pend (w_store w) = Some p -> bnd (w_store w) x -> x < p_id p.
Proof. unfold bnd. intros E. rewrite E. tauto. Qed.

(* creation of a new pending snapshot *)
Lemma create_ok w m ops srs sp :
  Inv w m -> pend (w_store w) = None ->
  let st := w_store w in
  let id := ckpt_id st + 1 in
  snd (mon_create m id ops srs) = [] /\
  Inv (MkWorld (MkStore (completed st) (Some (new_pending id ops srs sp)) id) (w_files w) (w_lose w) (w_sps w) (w_failw w)) (fst (mon_create m id ops srs)).
Proof.
  intros (I1 & I2 & I3 & I4 & I5 & I6 & I7 & I8) Hp st id.
  unfold bnd in I3, I4. rewrite Hp in *.
  destruct (m_pend m) as [mp|] eqn:Emp; [contradiction|].
  unfold mon_create. rewrite Emp. cbn [fst snd app].
  assert (E14 : (id <=? m_last m) = false) by (unfold id, st; lia).
  assert (E15 : existsb (fun i => id <=? i) (m_cur m) = false).
  { apply existsb_false. intros i Hi. specialize (I3 i Hi). unfold id, st. lia. }
  rewrite E14, E15. split; [reflexivity|].
  unfold Inv, bnd. cbn [w_store w_files w_sps pend m_pend m_last m_pub m_cur m_sps completed ckpt_id new_pending p_id].
  split.
  { split; [|reflexivity]. unfold PInv. cbn [p_id p_ops p_srs p_entries p_splits mp_id mp_ops mp_srs mp_got_ops mp_got_srs map concat].
    repeat split; try reflexivity; intros k; unfold new_pending; cbn [p_ops p_srs]; rewrite flag_of_mk_flags; reflexivity. }
  split; [lia|].
  split. { intros i Hi. specialize (I3 i Hi). unfold id, st. lia. }
  split. { intros s Hs. specialize (I4 s Hs). unfold id, st. lia. }
  repeat split; assumption.
Qed.

(* an accepted or ignored ack, then the completeness test (publication, failed write, or still pending) *)
Lemma finish_ok w p mp lst pubs cur sps :
  PInv p mp -> p_id p = ckpt_id (w_store w) -> lst <= ckpt_id (w_store w) ->
  (forall i, In i cur -> i < p_id p) ->
  (forall s, In s (completed (w_store w)) -> sn_id s < p_id p) ->
  uniq pubs -> (forall x, In x (w_files w) -> In x pubs) -> (forall b, top pubs b -> In b (w_files w)) ->
  w_sps w = sps ->
  res_err (snd (finish_if_complete w p)) = false /\
  snd (mon_ack (MkMon (Some mp) lst pubs cur sps) (snd (finish_if_complete w p))) = [] /\
  Inv (fst (finish_if_complete w p)) (fst (mon_ack (MkMon (Some mp) lst pubs cur sps) (snd (finish_if_complete w p)))).
Proof.
  intros HP Hid Hl Hcur Hcomp Hu Hsub Htop Hsps.
  unfold finish_if_complete. destruct (is_complete p) eqn:Ec.
  - destruct (w_failw w) eqn:Ef.
    + (* the write of the snapshot file fails: nothing happens but the loss of the pending snapshot *)
      cbn [fst snd res_err mon_ack m_pend m_last m_pub m_cur m_sps]. split; [reflexivity|].
      assert (Hc : match cur_of w with Some c => c =? mp_id mp | None => false end = false).
      { unfold cur_of. destruct (completed (w_store w)) as [|c l]; [reflexivity|].
        assert (Hlt := Hcomp c (or_introl eq_refl)).
        destruct HP as (P1 & _). apply N.eqb_neq. lia. }
      rewrite Hc. split; [reflexivity|].
      unfold Inv, fail_publish, bnd. cbn [w_store w_files w_sps pend completed ckpt_id m_pend m_last m_pub m_cur m_sps].
      split; [exact I|]. split; [exact Hl|].
      split. { intros i Hi. specialize (Hcur i Hi). lia. }
      split. { intros x Hx. specialize (Hcomp x Hx). lia. }
      repeat split; assumption.
    + destruct (publish w p) as [w' pub] eqn:Epub. cbn [fst snd res_err mon_ack]. split; [reflexivity|].
      pose proof (publish_ok w p mp lst pubs cur sps HP Hid Ec Hl Hcur Hcomp Hu Hsub Htop Hsps) as H.
      rewrite Epub in H. cbn [fst snd] in H. exact H.
  - cbn [fst snd res_err mon_ack mon_pub]. split; [reflexivity|]. split; [reflexivity|].
    unfold Inv, with_pending, bnd. cbn [w_store w_files w_sps pend completed ckpt_id m_pend m_last m_pub m_cur m_sps].
    split; [split; [exact HP|exact Hid]|]. repeat split; assumption.
Qed.

Lemma mon_eta m mp : m_pend m = Some mp -> m = MkMon (Some mp) (m_last m) (m_pub m) (m_cur m) (m_sps m).
Proof. destruct m as [a b c d e]. cbn. intros ->. reflexivity. Qed.

Theorem step_preserves w m a : Inv w m -> step_good w m a.
Proof.
  intros HI. unfold step_good.
  destruct a as [ops srs|ops srs|cid op pl|cid sr sts| |b|rid| |].
  - (* CreateCheckpoint *)
    unfold step. destruct (pend (w_store w)) as [p|] eqn:Ep.
    + cbn [fst snd mon_step]. split; [reflexivity|exact HI].
    + cbn [fst snd mon_step]. exact (create_ok w m ops srs false HI Ep).
  - (* CreateSavepoint *)
    unfold step. destruct (pend (w_store w)) as [p|] eqn:Ep.
    + destruct (p_sp p) eqn:Esp.
      * cbn [fst snd mon_step]. split; [reflexivity|exact HI].
      * cbn [fst snd mon_step].
        destruct HI as (I1 & I2 & I3 & I4 & I5 & I6 & I7 & I8). rewrite Ep in I1.
        destruct (m_pend m) as [mp|] eqn:Emp; [|contradiction].
        destruct I1 as [HP Hid]. destruct HP as (P1 & PR).
        rewrite <- P1, N.eqb_refl. split; [reflexivity|].
        unfold Inv, with_pending, bnd in *. cbn [w_store w_files w_sps pend completed ckpt_id p_id].
        rewrite Ep in *. rewrite Emp.
        split; [split; [split; [exact P1|exact PR]|exact Hid]|].
        repeat split; assumption.
    + cbn [fst snd mon_step]. exact (create_ok w m ops srs true HI Ep).
  - (* AddOperatorSnapshot *)
    unfold step. destruct (pend (w_store w)) as [p|] eqn:Ep.
    + assert (HI0 := HI). destruct HI as (I1 & I2 & I3 & I4 & I5 & I6 & I7 & I8). rewrite Ep in I1.
      destruct (m_pend m) as [mp|] eqn:Emp; [|contradiction].
      destruct I1 as [HP Hid].
      assert (HP' := HP). destruct HP' as (P1 & P2 & P3 & P4 & P5 & P6 & P7 & P8).
      assert (B3 : forall i, In i (m_cur m) -> i < p_id p) by (intros i Hi; exact (bnd_pending _ _ _ Ep (I3 i Hi))).
      assert (B4 : forall s, In s (completed (w_store w)) -> sn_id s < p_id p) by (intros s Hs; exact (bnd_pending _ _ _ Ep (I4 s Hs))).
      destruct (N.eqb_spec (p_id p) cid) as [Ecid|Ecid]; cbn [negb].
      * set (mp' := MkMPend (mp_id mp) (mp_ops mp) (mp_srs mp) (mp_got_ops mp ++ [(op, cid, pl)]) (mp_got_srs mp)).
        assert (Estep : forall r, mon_step m (AAckOp cid op pl, r) =
                  mon_ack (if mem op (mp_ops mp) && negb (mem op (map entry_op (mp_got_ops mp)))
                           then MkMon (Some mp') (m_last m) (m_pub m) (m_cur m) (m_sps m) else m) r).
        { intros r. cbn [mon_step]. rewrite Emp.
          replace (mp_id mp =? cid) with true by (symmetry; apply N.eqb_eq; congruence).
          cbn [andb]. reflexivity. }
        unfold add_op. cbn [fst]. rewrite (P4 op).
        destruct (mem op (mp_ops mp)) eqn:Emem; [destruct (mem op (map entry_op (mp_got_ops mp))) eqn:Egot|].
        -- (* duplicate: ignored *)
           destruct (finish_ok w p mp (m_last m) (m_pub m) (m_cur m) (m_sps m) HP Hid I2 B3 B4 I5 I6 I7 I8) as (Er & Hc & Hi).
           rewrite Estep. cbn [negb andb]. rewrite (mon_eta m mp Emp) at 1 2. split; assumption.
        -- (* counted *)
           set (e := (op, cid, pl)).
           set (p' := MkPending (p_id p) (set_flag op (p_ops p)) (p_srs p) (p_entries p ++ [e]) (p_splits p) (p_sp p)).
           assert (HP2 : PInv p' mp').
           { unfold PInv, p', mp', e. cbn [p_id p_ops p_srs p_entries p_splits mp_id mp_ops mp_srs mp_got_ops mp_got_srs fst snd].
             split; [exact P1|]. split; [rewrite P2; reflexivity|]. split; [exact P3|].
             split.
             { intros k. rewrite flag_of_set, (P4 k). rewrite map_app. cbn [map entry_op fst].
               rewrite mem_app_single.
               destruct (N.eqb_spec k op) as [Ek|Ek].
               - subst k. rewrite Emem. rewrite orb_true_r. reflexivity.
               - destruct (mem k (mp_ops mp)); [|reflexivity]. rewrite orb_false_r. reflexivity. }
             split; [exact P5|].
             split.
             { rewrite map_app. cbn [map entry_op fst].
               clear - P6 Egot. induction (map entry_op (mp_got_ops mp)) as [|x l IH]; cbn [app nodupb].
               - reflexivity.
               - cbn [nodupb] in P6. apply andb_prop in P6. destruct P6 as [Q1 Q2].
                 unfold mem in Egot. cbn [existsb] in Egot. apply orb_false_elim in Egot. destruct Egot as [G1 G2].
                 rewrite (IH Q2 G2). rewrite mem_app_single.
                 apply negb_true_iff in Q1. rewrite Q1.
                 rewrite N.eqb_sym, G1. reflexivity. }
             split.
             { rewrite forallb_app, P7. cbn [forallb entry_cid fst snd]. rewrite <- P1, Ecid, N.eqb_refl. reflexivity. }
             { apply incl_b_N. intros x Hx. rewrite map_app in Hx. apply in_app_or in Hx. destruct Hx as [Hx|Hx].
               - exact (proj1 (incl_b_N _ _) P8 x Hx).
               - cbn in Hx. destruct Hx as [Hx|[]]. subst x. apply mem_In. exact Emem. } }
           assert (Hid' : p_id p' = ckpt_id (w_store w)) by exact Hid.
           destruct (finish_ok w p' mp' (m_last m) (m_pub m) (m_cur m) (m_sps m) HP2 Hid' I2 B3 B4 I5 I6 I7 I8) as (Er & Hc & Hi).
           match goal with |- context [finish_if_complete w ?x] => change x with p' end. rewrite Estep, ?Er. cbn [negb andb]. split; assumption.
        -- (* unknown operator: ignored *)
           destruct (finish_ok w p mp (m_last m) (m_pub m) (m_cur m) (m_sps m) HP Hid I2 B3 B4 I5 I6 I7 I8) as (Er & Hc & Hi).
           rewrite Estep. cbn [negb andb]. rewrite (mon_eta m mp Emp) at 1 2. split; assumption.
      * (* wrong id *)
        cbn [fst snd mon_step]. rewrite Emp.
        replace (mp_id mp =? cid) with false by (symmetry; apply N.eqb_neq; congruence).
        cbn [andb mon_ack mon_pub fst snd]. split; [reflexivity|exact HI0].
    + (* no pending checkpoint *)
      cbn [fst snd mon_step].
      assert (HI0 := HI). destruct HI as (I1 & _). rewrite Ep in I1.
      destruct (m_pend m) as [mp|] eqn:Emp; [contradiction|].
      cbn [mon_ack mon_pub fst snd]. split; [reflexivity|exact HI0].
  - (* AddSourceSnapshot *)
    unfold step. destruct (pend (w_store w)) as [p|] eqn:Ep.
    + assert (HI0 := HI). destruct HI as (I1 & I2 & I3 & I4 & I5 & I6 & I7 & I8). rewrite Ep in I1.
      destruct (m_pend m) as [mp|] eqn:Emp; [|contradiction].
      destruct I1 as [HP Hid].
      assert (HP' := HP). destruct HP' as (P1 & P2 & P3 & P4 & P5 & P6 & P7 & P8).
      assert (B3 : forall i, In i (m_cur m) -> i < p_id p) by (intros i Hi; exact (bnd_pending _ _ _ Ep (I3 i Hi))).
      assert (B4 : forall s, In s (completed (w_store w)) -> sn_id s < p_id p) by (intros s Hs; exact (bnd_pending _ _ _ Ep (I4 s Hs))).
      destruct (N.eqb_spec (p_id p) cid) as [Ecid|Ecid]; cbn [negb].
      * set (mp' := MkMPend (mp_id mp) (mp_ops mp) (mp_srs mp) (mp_got_ops mp) (mp_got_srs mp ++ [(sr, sts)])).
        assert (Estep : forall r, mon_step m (AAckSr cid sr sts, r) =
                  mon_ack (if negb (res_err r) && mem sr (mp_srs mp) && negb (mem sr (map fst (mp_got_srs mp)))
                           then MkMon (Some mp') (m_last m) (m_pub m) (m_cur m) (m_sps m) else m) r).
        { intros r. cbn [mon_step]. rewrite Emp.
          replace (mp_id mp =? cid) with true by (symmetry; apply N.eqb_eq; congruence).
          rewrite andb_true_r. reflexivity. }
        unfold add_sr. rewrite (P5 sr). cbn [dup_sr_ack_appends repaired].
        destruct (mem sr (mp_srs mp)) eqn:Emem; [destruct (mem sr (map fst (mp_got_srs mp))) eqn:Egot|].
        -- (* duplicate: refused *)
           cbn [fst snd]. rewrite Estep. cbn [res_err negb andb mon_ack mon_pub fst snd]. split; [reflexivity|exact HI0].
        -- set (p' := MkPending (p_id p) (p_ops p) (set_flag sr (p_srs p)) (p_entries p) (p_splits p ++ sts) (p_sp p)).
           assert (HP2 : PInv p' mp').
           { unfold PInv, p', mp'. cbn [p_id p_ops p_srs p_entries p_splits mp_id mp_ops mp_srs mp_got_ops mp_got_srs].
             split; [exact P1|]. split; [exact P2|].
             split. { rewrite map_app, concat_app, P3. cbn [map concat snd]. rewrite app_nil_r. reflexivity. }
             split; [exact P4|].
             split.
             { intros k. rewrite flag_of_set, (P5 k). rewrite map_app. cbn [map fst].
               rewrite mem_app_single.
               destruct (N.eqb_spec k sr) as [Ek|Ek].
               - subst k. rewrite Emem. rewrite orb_true_r. reflexivity.
               - destruct (mem k (mp_srs mp)); [|reflexivity]. rewrite orb_false_r. reflexivity. }
             repeat split; assumption. }
           assert (Hid' : p_id p' = ckpt_id (w_store w)) by exact Hid.
           destruct (finish_ok w p' mp' (m_last m) (m_pub m) (m_cur m) (m_sps m) HP2 Hid' I2 B3 B4 I5 I6 I7 I8) as (Er & Hc & Hi).
           match goal with |- context [finish_if_complete w ?x] => change x with p' end. rewrite Estep, ?Er. cbn [negb andb]. split; assumption.
        -- (* unknown source runner: refused *)
           cbn [fst snd]. rewrite Estep. cbn [res_err negb andb mon_ack mon_pub fst snd]. split; [reflexivity|exact HI0].
      * cbn [fst snd mon_step]. rewrite Emp.
        replace (mp_id mp =? cid) with false by (symmetry; apply N.eqb_neq; congruence).
        cbn [res_err negb andb mon_ack mon_pub fst snd]. split; [reflexivity|exact HI0].
    + cbn [fst snd mon_step].
      assert (HI0 := HI). destruct HI as (I1 & _). rewrite Ep in I1.
      destruct (m_pend m) as [mp|] eqn:Emp; [contradiction|].
      cbn [mon_ack mon_pub fst snd]. split; [reflexivity|exact HI0].
  - (* Restart *)
    unfold step. cbn [fst snd mon_step].
    destruct HI as (I1 & I2 & I3 & I4 & I5 & I6 & I7 & I8).
    unfold load_store.
    destruct (max_snap None (m_pub m)) as [b|] eqn:Eb.
    + assert (Htop : top (m_pub m) b).
      { destruct (max_snap_In _ _ _ Eb) as [E|Hin]; [discriminate|].
        split; [exact Hin|exact (proj1 (max_snap_ge _ _ _ Eb))]. }
      assert (Hf : max_snap None (w_files w) = Some b) by (apply (best_sub _ (m_pub m)); auto).
      rewrite Hf. cbn [completed hd_error]. rewrite snap_eqb_refl. split; [reflexivity|].
      unfold Inv, bnd. cbn [w_store w_files w_sps pend completed ckpt_id m_pend m_last m_pub m_cur m_sps].
      split; [exact I|]. split; [lia|].
      split. { intros i Hi. unfold ids_of in Hi. apply in_map_iff in Hi. destruct Hi as (x & Ex & Hx). subst i. exact (proj2 Htop x Hx). }
      split. { intros x [Hx|[]]. subst. lia. }
      repeat split; assumption.
    + assert (Hnil : m_pub m = []) by (apply max_snap_none_nil; exact Eb).
      assert (Hfn : w_files w = []).
      { destruct (w_files w) as [|f l] eqn:Ef; [reflexivity|]. specialize (I6 f (or_introl eq_refl)). rewrite Hnil in I6. destruct I6. }
      rewrite Hfn. cbn [max_snap new_store completed hd_error]. split; [reflexivity|].
      unfold Inv, bnd. cbn [w_store w_files w_sps pend completed ckpt_id m_pend m_last m_pub m_cur m_sps].
      rewrite Hnil. cbn [ids_of map].
      split; [exact I|]. split; [lia|]. split; [intros ? []|]. split; [intros ? []|].
      rewrite Hnil in *. rewrite Hfn in *. repeat split; assumption.
  - (* fault injection: Remove calls get lost from now on *)
    unfold step. cbn [fst snd mon_step]. split; [reflexivity|exact HI].
  - (* start from the savepoint of id [rid] *)
    unfold step. destruct HI as (I1 & I2 & I3 & I4 & I5 & I6 & I7 & I8). rewrite I8.
    destruct (find_snap rid (m_sps m)) as [a|] eqn:Ea.
    + cbn [fst snd mon_step]. rewrite Ea, snap_eqb_refl. split; [reflexivity|].
      assert (Eid : sn_id a = rid).
      { clear - Ea. induction (m_sps m) as [|x l IH]; cbn [find_snap] in Ea; [discriminate|].
        destruct (N.eqb_spec (sn_id x) rid) as [E|E]; [injection Ea as <-; exact E|exact (IH Ea)]. }
      unfold Inv, bnd. cbn [w_store w_files w_sps pend completed ckpt_id m_pend m_last m_pub m_cur m_sps].
      split; [exact I|]. split; [lia|].
      split. { intros i [Hi|[]]. subst i. lia. }
      split. { intros x [Hx|[]]. subst. lia. }
      repeat split; assumption.
    + cbn [fst snd mon_step]. rewrite Ea. split; [reflexivity|].
      unfold Inv, bnd, new_store. cbn [w_store w_files w_sps pend completed ckpt_id m_pend m_last m_pub m_cur m_sps].
      split; [exact I|]. split; [lia|].
      split; [intros ? []|]. split; [intros ? []|]. repeat split; assumption.
  - (* AbortPendingCheckpoint *)
    unfold step. cbn [fst snd mon_step].
    destruct HI as (I1 & I2 & I3 & I4 & I5 & I6 & I7 & I8).
    split; [reflexivity|].
    unfold Inv, with_pending, bnd in *. cbn [w_store w_files w_sps pend completed ckpt_id m_pend m_last m_pub m_cur m_sps].
    split; [exact I|]. split; [exact I2|].
    destruct (pend (w_store w)) as [p|] eqn:Ep.
    + destruct (m_pend m) as [mp|]; [|contradiction]. destruct I1 as [_ Hid].
      split. { intros i Hi. specialize (I3 i Hi). lia. }
      split. { intros x Hx. specialize (I4 x Hx). lia. }
      repeat split; assumption.
    + repeat split; assumption.
  - (* fault injection: the next snapshot write fails *)
    unfold step. cbn [fst snd mon_step]. split; [reflexivity|exact HI].
Qed.

Theorem run_accepted : forall acts w m, Inv w m -> mon_run m (combine acts (run repaired w acts)) = [].
Proof.
  induction acts as [|a acts IH]; intros w m HI; [reflexivity|].
  cbn [run]. destruct (step_preserves w m a HI) as [Hc Hi].
  destruct (step repaired w a) as [w' r] eqn:Es. cbn [fst snd] in *.
  cbn [combine mon_run]. destruct (mon_step m (a, r)) as [m' codes] eqn:Em. cbn [fst snd] in *.
  subst codes. cbn [app]. apply IH. exact Hi.
Qed.

Theorem trace_accepted acts : mon_run mon_init (trace repaired acts) = [].
Proof. unfold trace. apply run_accepted. exact Inv_init. Qed.
