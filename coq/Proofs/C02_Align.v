(* C02: the inductive invariant of Model.Align and its preservation by every enabled action. *)
From RV Require Import Model.Align Proofs.C02_Data.
From Coq Require Import List NArith Bool Arith Lia.
Import ListNotations.
Open Scope N_scope.

Definition items_of (x : st) (s : nat) : list item := nth s (sent x) [].
Definition acted (x : st) (s : nat) : nat := length (items_of x s).
(* the sender's barrier of the checkpoint in progress has been registered *)
Definition reg (x : st) (s : nat) : Prop := exists cur m, ckpt x = Some (cur, m) /\ ~ In s m.

(* the log splits at a checkpoint record exactly at every sender's barrier of that id *)
Definition cut_ok (c : cfg) (x : st) (post : list lentry) (cid : N) (snap : snapshot) (pre : list lentry) : Prop :=
  (forall bi, In bi (fst snap) <-> In (LApp bi) pre) /\
  exists b : nat -> nat, forall s, (s < n_senders c)%nat ->
    (b s < acted x s)%nat
    /\ (forall bi j, In bi (batch (dt x)) -> org bi = (s, j) -> (b s < j)%nat)
    /\ nth_error (items_of x s) (b s) = Some (IBar cid)
    /\ In (LAct (s, b s) (IBar cid) true) pre
    /\ (forall e j, In e pre -> entry_origin e = Some (s, j) -> (j <= b s)%nat)
    /\ (forall e j, In e post -> entry_origin e = Some (s, j) -> (b s < j)%nat)
    /\ (forall j id key tm, (j < b s)%nat -> nth_error (items_of x s) j = Some (IEv id key tm) ->
          In (LApp (BEv (s, j) id key tm)) pre)
    /\ (forall j t, (j < b s)%nat -> nth_error (items_of x s) j = Some (IWm t) -> In (LAct (s, j) (IWm t) true) pre).

Record Inv (c : cfg) (x : st) : Prop := mkInv {
  i_len_m : length (modes x) = n_senders c;
  i_len_s : length (sent x) = n_senders c;
  i_passed : forall s it, nth_error (modes x) s = Some (Passed it) -> ~ reg x s;
  i_parked : forall s g it, nth_error (modes x) s = Some (Parked g it) -> reg x s -> g = done x;
  i_cur : forall cur m s, ckpt x = Some (cur, m) -> (s < n_senders c)%nat -> ~ In s m ->
      exists b, acted x s = S b /\ nth_error (items_of x s) b = Some (IBar cur)
                /\ In (LAct (s, b) (IBar cur) true) (log (dt x));
  i_olog : forall e s j, In e (log (dt x)) -> entry_origin e = Some (s, j) -> (j < acted x s)%nat;
  i_obatch : forall b s j, In b (batch (dt x)) -> org b = (s, j) -> (j < acted x s)%nat;
  i_cev : forall s j id key tm, nth_error (items_of x s) j = Some (IEv id key tm) ->
      In (LApp (BEv (s, j) id key tm)) (log (dt x)) \/ In (BEv (s, j) id key tm) (batch (dt x));
  i_cwm : forall s j t, nth_error (items_of x s) j = Some (IWm t) -> In (LAct (s, j) (IWm t) true) (log (dt x));
  i_faith : forall s j id key tm,
      In (LApp (BEv (s, j) id key tm)) (log (dt x)) \/ In (BEv (s, j) id key tm) (batch (dt x)) ->
      nth_error (items_of x s) j = Some (IEv id key tm);
  i_app : forall b, In b (applied (dt x)) <-> In (LApp b) (log (dt x));
  i_hist : forall post cid snap pre, log (dt x) = post ++ LCkpt cid snap :: pre -> cut_ok c x post cid snap pre }.

(* ---------- initial state ---------- *)
Lemma nth_repeat {A} (a d : A) k i : nth i (repeat a k) d = a \/ nth i (repeat a k) d = d.
Proof. revert i; induction k; intros [|i]; cbn; auto. Qed.

Lemma nth_error_repeat {A} (a : A) k i v : nth_error (repeat a k) i = Some v -> v = a.
Proof.
  revert i; induction k as [|k IH]; intros [|i]; cbn; intros H; try discriminate.
  - congruence.
  - eauto.
Qed.

Lemma items_init c s : items_of (init c) s = [].
Proof. unfold items_of, init; cbn. destruct (nth_repeat (@nil item) [] (n_senders c) s); auto. Qed.

Lemma Inv_init c : Inv c (init c).
Proof.
  constructor.
  - apply repeat_length.
  - apply repeat_length.
  - intros s it H (cur & m & E & _). discriminate.
  - intros s g it H. apply nth_error_repeat in H. discriminate.
  - discriminate.
  - intros e s j [].
  - intros b s j [].
  - intros s j id key tm H. rewrite items_init in H. destruct j; discriminate.
  - intros s j t H. rewrite items_init in H. destruct j; discriminate.
  - intros s j id key tm [[]|[]].
  - cbn. tauto.
  - intros [|? post] cid snap pre H; discriminate.
Qed.

(* ---------- steps that leave sent, ckpt-registration and the data's log/batch/applied alone ---------- *)
Lemma Inv_modes c x ms :
  Inv c x -> length ms = n_senders c ->
  (forall s it, nth_error ms s = Some (Passed it) -> ~ reg x s) ->
  (forall s g it, nth_error ms s = Some (Parked g it) -> reg x s -> g = done x) ->
  Inv c (mkSt ms (sent x) (ckpt x) (done x) (dt x)).
Proof.
  intros I Hl Hp Hk. destruct I. constructor; auto.
Qed.

Lemma should_park_reg x s : should_park x s = true <-> reg x s.
Proof.
  unfold should_park, reg. destruct (ckpt x) as [[cur m]|].
  - rewrite negb_true_iff. split.
    + intros H. exists cur, m. split; auto. intros Hi. apply mem_nat_In in Hi. congruence.
    + intros (cur' & m' & [= <- <-] & Hn). destruct (mem_nat s m) eqn:E; auto. apply mem_nat_In in E. contradiction.
  - split; [discriminate|]. intros (? & ? & ? & _). discriminate.
Qed.

Lemma nth_error_lt {A} (l : list A) i v : nth_error l i = Some v -> (i < length l)%nat.
Proof. intros H. apply nth_error_Some. congruence. Qed.

Lemma Inv_gate c x s it x' : Inv c x -> step c x (Gate s it) = Some x' -> Inv c x'.
Proof.
  intros I H. cbn in H. destruct (nth_error (modes x) s) as [[| |]|] eqn:E; try discriminate.
  injection H as <-. unfold with_mode.
  pose proof (nth_error_lt _ _ _ E) as Hlt.
  apply Inv_modes; auto.
  - rewrite set_nth_length. apply (i_len_m _ _ I).
  - intros s' it' H. destruct (Nat.eq_dec s s') as [<-|Hne].
    + rewrite nth_error_set_nth_eq in H by auto. destruct (should_park x s) eqn:P; [discriminate|].
      intros R. apply should_park_reg in R. congruence.
    + rewrite nth_error_set_nth_neq in H by auto. eapply i_passed; eauto.
  - intros s' g it' H R. destruct (Nat.eq_dec s s') as [<-|Hne].
    + rewrite nth_error_set_nth_eq in H by auto. destruct (should_park x s); congruence.
    + rewrite nth_error_set_nth_neq in H by auto. eapply i_parked; eauto.
Qed.

Lemma Inv_wake c x s x' : Inv c x -> step c x (Wake s) = Some x' -> Inv c x'.
Proof.
  intros I H. cbn in H. destruct (nth_error (modes x) s) as [[|g it|]|] eqn:E; try discriminate.
  destruct (g <? done x) eqn:G; [|discriminate]. injection H as <-. unfold with_mode.
  pose proof (nth_error_lt _ _ _ E) as Hlt. apply N.ltb_lt in G.
  apply Inv_modes; auto.
  - rewrite set_nth_length. apply (i_len_m _ _ I).
  - intros s' it' H. destruct (Nat.eq_dec s s') as [<-|Hne].
    + intros R. pose proof (i_parked _ _ I _ _ _ E R). lia.
    + rewrite nth_error_set_nth_neq in H by auto. eapply i_passed; eauto.
  - intros s' g' it' H R. destruct (Nat.eq_dec s s') as [<-|Hne].
    + rewrite nth_error_set_nth_eq in H by auto. discriminate.
    + rewrite nth_error_set_nth_neq in H by auto. eapply i_parked; eauto.
Qed.

(* ---------- a data extension without any new delivery (time-out flush) ---------- *)
Lemma cut_ok_mono c x x' post cid snap pre new :
  cut_ok c x post cid snap pre ->
  (forall s, exists l, items_of x' s = items_of x s ++ l) ->
  (forall bi s j, In bi (batch (dt x')) -> org bi = (s, j) -> In bi (batch (dt x)) \/ (acted x s <= j)%nat) ->
  (forall e s j, In e new -> entry_origin e = Some (s, j) ->
      (exists bi, e = LApp bi /\ In bi (batch (dt x))) \/ (acted x s <= j)%nat) ->
  cut_ok c x' (new ++ post) cid snap pre.
Proof.
  intros (Hsnap & b & Hb) Hext Hbatch Hnew. split; auto. exists b. intros s Hs.
  destruct (Hb s Hs) as (B1 & B2 & B3 & B4 & B5 & B6 & B7 & B8).
  destruct (Hext s) as (l & El).
  assert (Hnth : forall j, (j < acted x s)%nat -> nth_error (items_of x' s) j = nth_error (items_of x s) j).
  { intros j Hj. rewrite El. apply nth_error_app1. exact Hj. }
  assert (Hact : (acted x s <= acted x' s)%nat).
  { unfold acted. rewrite El, app_length. lia. }
  repeat split; auto.
  - lia.
  - intros bi j Hi Ho. destruct (Hbatch _ _ _ Hi Ho) as [H|H]; [eauto|lia].
  - rewrite Hnth by lia. exact B3.
  - intros e j He Ho. apply in_app_or in He. destruct He as [He|He]; [|eauto].
    destruct (Hnew _ _ _ He Ho) as [(bi & -> & Hbi)|H]; [|lia]. cbn in Ho. injection Ho as Ho. eauto.
  - intros j id key tm Hj Hn. rewrite Hnth in Hn by lia. eauto.
  - intros j t Hj Hn. rewrite Hnth in Hn by lia. eauto.
Qed.

Lemma no_ckpt_in_new new L post cid snap pre :
  (forall e, In e new -> forall c s, e <> LCkpt c s) ->
  new ++ L = post ++ LCkpt cid snap :: pre ->
  exists post0, post = new ++ post0 /\ L = post0 ++ LCkpt cid snap :: pre.
Proof.
  intros Hn H. destruct (app_split_mid _ _ _ _ _ H) as [?|(n2 & -> & _)]; auto.
  exfalso. apply (Hn (LCkpt cid snap)) with cid snap; auto. apply in_or_app. right. left. reflexivity.
Qed.

Lemma Inv_dext c x y : Inv c x -> dext [] (dt x) y -> Inv c (set_d x y).
Proof.
  intros I (new & L & E & B & P & A). destruct I. unfold set_d.
  assert (HB : forall b, In b (batch y) -> In b (batch (dt x))).
  { intros b Hb. destruct (B _ Hb) as [?|[]]; auto. }
  assert (HE : forall e, In e new -> (exists w, e = LCall w) \/ exists b, e = LApp b /\ In b (batch (dt x))).
  { intros e He. destruct (E _ He) as [?|(b & -> & [?|[]])]; eauto. }
  constructor; cbn; auto.
  - intros cur m s Hc Hs Hm. destruct (i_cur0 _ _ _ Hc Hs Hm) as (b & ? & ? & ?). exists b. repeat split; auto.
    rewrite L. apply in_or_app; auto.
  - intros e s j He Ho. rewrite L in He. apply in_app_or in He. destruct He as [He|He]; [|eauto].
    destruct (HE _ He) as [(w & ->)|(b & -> & Hb)]; [discriminate|]. cbn in Ho. injection Ho as Ho. eauto.
  - intros b s j Hb. eauto.
  - intros s j id key tm Hn. rewrite L. destruct (i_cev0 _ _ _ _ _ Hn) as [H|H].
    + left. apply in_or_app; auto.
    + destruct (P _ (or_introl H)); [auto|left; apply in_or_app; auto].
  - intros s j t Hn. rewrite L. apply in_or_app. right. eauto.
  - intros s j id key tm H. apply i_faith0. rewrite L in H. destruct H as [H|H]; [|auto].
    apply in_app_or in H. destruct H as [H|H]; [|auto].
    destruct (HE _ H) as [(w & ?)|(b & [= <-] & Hb)]; [discriminate|auto].
  - intros b. rewrite A, L, in_app_iff, i_app0. tauto.
  - intros post cid snap pre H. rewrite L in H.
    destruct (no_ckpt_in_new _ _ _ _ _ _ (fun e He c0 s0 => match HE e He with
                                            | or_introl (ex_intro _ w Hw) => ltac:(congruence)
                                            | or_intror (ex_intro _ b (conj Hb _)) => ltac:(congruence) end) H)
      as (post0 & -> & H0).
    apply cut_ok_mono with (x := x); auto.
    + intros s. exists []. rewrite app_nil_r. reflexivity.
    + intros e s j He Ho. left. destruct (HE _ He) as [(w & ->)|(b & -> & Hb)]; [discriminate|eauto].
Qed.
