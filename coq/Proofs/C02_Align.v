(* C02: the inductive invariant of Model.Align and its preservation by every enabled action. *)
From RV Require Import Model.Align Proofs.C02_Data.
From Coq Require Import List NArith Bool Arith Lia.
Import ListNotations.
Open Scope N_scope.

Definition items_of (x : st) (s : nat) : list item := nth s (sent x) [].
Definition acted (x : st) (s : nat) : nat := length (items_of x s).
(* the sender's barrier of the checkpoint in progress has been registered *)
Definition reg (x : st) (s : nat) : Prop := exists cur m, ckpt x = Some (cur, m) /\ ~ In s m.

(* the log splits at a checkpoint record exactly at every sender's barrier of that id *)
Definition cut_ok (c : cfg) (x : st) (post : list lentry) (cid : N) (snap : snapshot) (pre : list lentry) : Prop :=
  (forall bi, In bi (fst snap) <-> In (LApp bi) pre) /\
  exists b : nat -> nat, forall s, (s < n_senders c)%nat ->
    (b s < acted x s)%nat
    /\ (forall bi j, In bi (batch (dt x)) -> org bi = (s, j) -> (b s < j)%nat)
    /\ nth_error (items_of x s) (b s) = Some (IBar cid)
    /\ In (LAct (s, b s) (IBar cid) true) pre
    /\ (forall e j, In e pre -> entry_origin e = Some (s, j) -> (j <= b s)%nat)
    /\ (forall e j, In e post -> entry_origin e = Some (s, j) -> (b s < j)%nat)
    /\ (forall j id key tm, (j < b s)%nat -> nth_error (items_of x s) j = Some (IEv id key tm) ->
          In (LApp (BEv (s, j) id key tm)) pre)
    /\ (forall j t, (j < b s)%nat -> nth_error (items_of x s) j = Some (IWm t) -> In (LAct (s, j) (IWm t) true) pre).

(* every delivered keyed event is pending in the batch or applied *)
Definition cev_strong (x : st) : Prop :=
  forall s j id key tm, nth_error (items_of x s) j = Some (IEv id key tm) ->
      In (LApp (BEv (s, j) id key tm)) (log (dt x)) \/ In (BEv (s, j) id key tm) (batch (dt x)).

Record Inv (c : cfg) (x : st) : Prop := mkInv {
  i_len_m : length (modes x) = n_senders c;
  i_len_s : length (sent x) = n_senders c;
  i_passed : forall s it, nth_error (modes x) s = Some (Passed it) -> ~ reg x s;
  i_parked : forall s g it, nth_error (modes x) s = Some (Parked g it) -> reg x s -> g = done x;
  i_cur : forall cur m s, ckpt x = Some (cur, m) -> (s < n_senders c)%nat -> ~ In s m ->
      exists b, acted x s = S b /\ nth_error (items_of x s) b = Some (IBar cur)
                /\ In (LAct (s, b) (IBar cur) true) (log (dt x));
  i_olog : forall e s j, In e (log (dt x)) -> entry_origin e = Some (s, j) -> (j < acted x s)%nat;
  i_obatch : forall b s j, In b (batch (dt x)) -> org b = (s, j) -> (j < acted x s)%nat;
  i_cev : forall s j id key tm, running x = true -> nth_error (items_of x s) j = Some (IEv id key tm) ->
      In (LApp (BEv (s, j) id key tm)) (log (dt x)) \/ In (BEv (s, j) id key tm) (batch (dt x));
  i_cwm : forall s j t, nth_error (items_of x s) j = Some (IWm t) -> In (LAct (s, j) (IWm t) true) (log (dt x));
  i_faith : forall s j id key tm,
      In (LApp (BEv (s, j) id key tm)) (log (dt x)) \/ In (BEv (s, j) id key tm) (batch (dt x)) ->
      nth_error (items_of x s) j = Some (IEv id key tm);
  i_ftm : forall s j k ts,
      In (LApp (BTm (s, j) k ts)) (log (dt x)) \/ In (BTm (s, j) k ts) (batch (dt x)) ->
      exists t, nth_error (items_of x s) j = Some (IWm t);
  i_app : forall b, In b (applied (dt x)) <-> In (LApp b) (log (dt x));
  i_hist : forall post cid snap pre, log (dt x) = post ++ LCkpt cid snap :: pre -> cut_ok c x post cid snap pre }.

(* ---------- initial state ---------- *)
Lemma nth_repeat {A} (a d : A) k i : nth i (repeat a k) d = a \/ nth i (repeat a k) d = d.
Proof. revert i; induction k; intros [|i]; cbn; auto. Qed.

Lemma nth_error_repeat {A} (a : A) k i v : nth_error (repeat a k) i = Some v -> v = a.
Proof.
  revert i; induction k as [|k IH]; intros [|i]; cbn; intros H; try discriminate.
  - congruence.
  - eauto.
Qed.

Lemma items_init c s : items_of (init c) s = [].
Proof. unfold items_of, init; cbn. destruct (nth_repeat (@nil item) [] (n_senders c) s); auto. Qed.

Lemma Inv_init c : Inv c (init c).
Proof.
  constructor.
  - apply repeat_length.
  - apply repeat_length.
  - intros s it H (cur & m & E & _). discriminate.
  - intros s g it H. apply nth_error_repeat in H. discriminate.
  - discriminate.
  - intros e s j [].
  - intros b s j [].
  - intros s j id key tm _ H. rewrite items_init in H. destruct j; discriminate.
  - intros s j t H. rewrite items_init in H. destruct j; discriminate.
  - intros s j id key tm [[]|[]].
  - intros s j k ts [[]|[]].
  - cbn. tauto.
  - intros [|? post] cid snap pre H; discriminate.
Qed.

(* ---------- steps that leave sent, ckpt-registration and the data's log/batch/applied alone ---------- *)
Lemma Inv_modes c x ms :
  Inv c x -> length ms = n_senders c ->
  (forall s it, nth_error ms s = Some (Passed it) -> ~ reg x s) ->
  (forall s g it, nth_error ms s = Some (Parked g it) -> reg x s -> g = done x) ->
  Inv c (mkSt ms (sent x) (ckpt x) (done x) (dt x)).
Proof.
  intros I Hl Hp Hk. destruct I. constructor; auto.
Qed.

Lemma should_park_reg x s : should_park x s = true <-> reg x s.
Proof.
  unfold should_park, reg. destruct (ckpt x) as [[cur m]|].
  - rewrite negb_true_iff. split.
    + intros H. exists cur, m. split; auto. intros Hi. apply mem_nat_In in Hi. congruence.
    + intros (cur' & m' & [= <- <-] & Hn). destruct (mem_nat s m) eqn:E; auto. apply mem_nat_In in E. contradiction.
  - split; [discriminate|]. intros (? & ? & ? & _). discriminate.
Qed.

Lemma nth_error_lt {A} (l : list A) i v : nth_error l i = Some v -> (i < length l)%nat.
Proof. intros H. apply nth_error_Some. congruence. Qed.

Lemma Inv_gate c x s it x' : Inv c x -> step c x (Gate s it) = Some x' -> Inv c x'.
Proof.
  intros I H. unfold step in H. destruct (failed x); [discriminate|].
  destruct (nth_error (modes x) s) as [[| |]|] eqn:E; try discriminate.
  injection H as <-. unfold with_mode.
  pose proof (nth_error_lt _ _ _ E) as Hlt.
  apply Inv_modes; auto.
  - rewrite set_nth_length. apply (i_len_m _ _ I).
  - intros s' it' H. destruct (Nat.eq_dec s s') as [<-|Hne].
    + rewrite nth_error_set_nth_eq in H by auto. destruct (should_park x s) eqn:P; [discriminate|].
      intros R. apply should_park_reg in R. congruence.
    + rewrite nth_error_set_nth_neq in H by auto. eapply i_passed; eauto.
  - intros s' g it' H R. destruct (Nat.eq_dec s s') as [<-|Hne].
    + rewrite nth_error_set_nth_eq in H by auto. destruct (should_park x s); congruence.
    + rewrite nth_error_set_nth_neq in H by auto. eapply i_parked; eauto.
Qed.

Lemma Inv_wake c x s x' : Inv c x -> step c x (Wake s) = Some x' -> Inv c x'.
Proof.
  intros I H. unfold step in H. destruct (failed x); [discriminate|].
  destruct (nth_error (modes x) s) as [[|g it|]|] eqn:E; try discriminate.
  destruct (g <? done x) eqn:G; [|discriminate]. injection H as <-. unfold with_mode.
  pose proof (nth_error_lt _ _ _ E) as Hlt. apply N.ltb_lt in G.
  apply Inv_modes; auto.
  - rewrite set_nth_length. apply (i_len_m _ _ I).
  - intros s' it' H. destruct (Nat.eq_dec s s') as [<-|Hne].
    + intros R. pose proof (i_parked _ _ I _ _ _ E R). lia.
    + rewrite nth_error_set_nth_neq in H by auto. eapply i_passed; eauto.
  - intros s' g' it' H R. destruct (Nat.eq_dec s s') as [<-|Hne].
    + rewrite nth_error_set_nth_eq in H by auto. discriminate.
    + rewrite nth_error_set_nth_neq in H by auto. eapply i_parked; eauto.
Qed.

(* ---------- a data extension without any new delivery (time-out flush) ---------- *)
Lemma cut_ok_mono c x x' post cid snap pre new :
  cut_ok c x post cid snap pre ->
  (forall s, exists l, items_of x' s = items_of x s ++ l) ->
  (forall bi s j, In bi (batch (dt x')) -> org bi = (s, j) -> In bi (batch (dt x)) \/ (acted x s <= j)%nat) ->
  (forall e s j, In e new -> entry_origin e = Some (s, j) ->
      (exists bi, e = LApp bi /\ In bi (batch (dt x))) \/ (acted x s <= j)%nat) ->
  cut_ok c x' (new ++ post) cid snap pre.
Proof.
  intros (Hsnap & b & Hb) Hext Hbatch Hnew. split; auto. exists b. intros s Hs.
  destruct (Hb s Hs) as (B1 & B2 & B3 & B4 & B5 & B6 & B7 & B8).
  destruct (Hext s) as (l & El).
  assert (Hnth : forall j, (j < acted x s)%nat -> nth_error (items_of x' s) j = nth_error (items_of x s) j).
  { intros j Hj. rewrite El. apply nth_error_app1. exact Hj. }
  assert (Hact : (acted x s <= acted x' s)%nat).
  { unfold acted. rewrite El, app_length. lia. }
  repeat split; auto.
  - lia.
  - intros bi j Hi Ho. destruct (Hbatch _ _ _ Hi Ho) as [H|H]; [eauto|lia].
  - rewrite Hnth by lia. exact B3.
  - intros e j He Ho. apply in_app_or in He. destruct He as [He|He]; [|eauto].
    destruct (Hnew _ _ _ He Ho) as [(bi & -> & Hbi)|H]; [|lia]. cbn in Ho. injection Ho as Ho. eauto.
  - intros j id key tm Hj Hn. rewrite Hnth in Hn by lia. eauto.
  - intros j t Hj Hn. rewrite Hnth in Hn by lia. eauto.
Qed.

Lemma no_ckpt_in_new new L post cid snap pre :
  (forall e, In e new -> forall c s, e <> LCkpt c s) ->
  new ++ L = post ++ LCkpt cid snap :: pre ->
  exists post0, post = new ++ post0 /\ L = post0 ++ LCkpt cid snap :: pre.
Proof.
  intros Hn H. destruct (app_split_mid _ _ _ _ _ H) as [?|(n2 & -> & _)]; auto.
  exfalso. apply (Hn (LCkpt cid snap)) with cid snap; auto. apply in_or_app. right. left. reflexivity.
Qed.

Lemma Inv_dext c x y : Inv c x -> dext [] (dt x) y -> active y = active (dt x) -> Inv c (set_d x y).
Proof.
  intros I (new & L & E & B & P & A) Hact. destruct I. unfold set_d.
  assert (HB : forall b, In b (batch y) -> In b (batch (dt x))).
  { intros b Hb. destruct (B _ Hb) as [?|[]]; auto. }
  assert (HE : forall e, In e new -> (exists w, e = LCall w) \/ exists b, e = LApp b /\ In b (batch (dt x))).
  { intros e He. destruct (E _ He) as [?|(b & -> & [?|[]])]; eauto. }
  constructor; cbn; auto.
  - intros cur m s Hc Hs Hm. destruct (i_cur0 _ _ _ Hc Hs Hm) as (b & ? & ? & ?). exists b. repeat split; auto.
    rewrite L. apply in_or_app; auto.
  - intros e s j He Ho. rewrite L in He. apply in_app_or in He. destruct He as [He|He]; [|eauto].
    destruct (HE _ He) as [(w & ->)|(b & -> & Hb)]; [discriminate|]. cbn in Ho. injection Ho as Ho. eauto.
  - intros b s j Hb. eauto.
  - intros s j id key tm Hst Hn. rewrite L.
    assert (Hst0 : running x = true) by (unfold running, stopped, failed in *; cbn [dt ckpt] in Hst; rewrite <- Hact; exact Hst).
    destruct (i_cev0 _ _ _ _ _ Hst0 Hn) as [H|H].
    + left. apply in_or_app; auto.
    + destruct (P _ (or_introl H)); [auto|left; apply in_or_app; auto].
  - intros s j t Hn. rewrite L. apply in_or_app. right. eauto.
  - intros s j id key tm H. apply i_faith0. rewrite L in H. destruct H as [H|H]; [|auto].
    apply in_app_or in H. destruct H as [H|H]; [|auto].
    destruct (HE _ H) as [(w & ?)|(b & [= <-] & Hb)]; [discriminate|auto].
  - intros s j k ts H. apply (i_ftm0 s j k ts). rewrite L in H. destruct H as [H|H]; [|auto].
    apply in_app_or in H. destruct H as [H|H]; [|auto].
    destruct (HE _ H) as [(w & ?)|(b & [= <-] & Hb)]; [discriminate|auto].
  - intros b. rewrite A, L, in_app_iff, i_app0. tauto.
  - intros post cid snap pre H. rewrite L in H.
    destruct (no_ckpt_in_new _ _ _ _ _ _ (fun e He c0 s0 => match HE e He with
                                            | or_introl (ex_intro _ w Hw) => ltac:(congruence)
                                            | or_intror (ex_intro _ b (conj Hb _)) => ltac:(congruence) end) H)
      as (post0 & -> & H0).
    apply cut_ok_mono with (x := x); auto.
    + intros s. exists []. rewrite app_nil_r. reflexivity.
    + intros e s j He Ho. left. destruct (HE _ He) as [(w & ->)|(b & -> & Hb)]; [discriminate|eauto].
Qed.

(* ---------- the event loop runs the closure of sender s ---------- *)
Lemma items_upd_eq x s v ms ck dn y :
  (s < length (sent x))%nat -> items_of (mkSt ms (set_nth s v (sent x)) ck dn y) s = v.
Proof. intros H. unfold items_of; cbn. apply nth_set_nth_eq. exact H. Qed.
Lemma items_upd_neq x s s' v ms ck dn y :
  s <> s' -> items_of (mkSt ms (set_nth s v (sent x)) ck dn y) s' = items_of x s'.
Proof. intros H. unfold items_of; cbn. apply nth_set_nth_neq. exact H. Qed.

Lemma Inv_handle_gen c x s it ok O y ck' :
  Inv c x -> nth_error (modes x) s = Some (Passed it) -> running x = true ->
  dext O (push_log (LAct (s, acted x s) it ok) (dt x)) y ->
  (forall b, In b O -> org b = (s, acted x s)) ->
  (forall o id key tm, In (BEv o id key tm) O -> it = IEv id key tm) ->
  (forall o k ts, In (BTm o k ts) O -> exists t, it = IWm t) ->
  (forall id key tm, it = IEv id key tm -> In (BEv (s, acted x s) id key tm) O) ->
  (forall t, it = IWm t -> ok = true) ->
  (forall cur m s', ck' = Some (cur, m) -> (s' < n_senders c)%nat -> ~ In s' m -> s' <> s ->
        exists m0, ckpt x = Some (cur, m0) /\ ~ In s' m0) ->
  (forall cur m, ck' = Some (cur, m) -> ~ In s m -> it = IBar cur /\ ok = true) ->
  Inv c (mkSt (set_nth s Idle (modes x)) (set_nth s (items_of x s ++ [it]) (sent x)) ck' (done x) y) /\
  cev_strong (mkSt (set_nth s Idle (modes x)) (set_nth s (items_of x s ++ [it]) (sent x)) ck' (done x) y).
Proof.
  intros I Hmode Hrun (new & L & E & B & P & A) HO HOev HOtm Hev Hwm K1 K2.
  pose proof (nth_error_lt _ _ _ Hmode) as Hsm.
  assert (Hsn : (s < n_senders c)%nat) by (rewrite <- (i_len_m _ _ I); exact Hsm).
  assert (Hss : (s < length (sent x))%nat) by (rewrite (i_len_s _ _ I); exact Hsn).
  set (x' := mkSt _ _ _ _ _).
  cbn [push_log log batch applied] in L, E, B, P, A.
  assert (Hi_eq : items_of x' s = items_of x s ++ [it]) by (apply items_upd_eq; exact Hss).
  assert (Hi_ne : forall s', s <> s' -> items_of x' s' = items_of x s') by (intros; apply items_upd_neq; auto).
  assert (Hext : forall s', exists l, items_of x' s' = items_of x s' ++ l).
  { intros s'. destruct (Nat.eq_dec s s') as [<-|Hne]; [exists [it]; auto|].
    exists []. rewrite app_nil_r. auto. }
  assert (Hnth : forall s' j v, nth_error (items_of x s') j = Some v -> nth_error (items_of x' s') j = Some v).
  { intros s' j v H. destruct (Hext s') as (l & ->). rewrite nth_error_app1; auto. eapply nth_error_lt; eauto. }
  assert (Hnthi : forall s' j v, nth_error (items_of x' s') j = Some v ->
             nth_error (items_of x s') j = Some v \/ (s' = s /\ j = acted x s /\ v = it)).
  { intros s' j v H. destruct (Nat.eq_dec s s') as [<-|Hne]; [|rewrite Hi_ne in H; auto].
    rewrite Hi_eq in H. destruct (Nat.lt_ge_cases j (acted x s)) as [Hj|Hj].
    - rewrite nth_error_app1 in H; auto.
    - rewrite nth_error_app2 in H by exact Hj. unfold acted in *.
      destruct (j - length (items_of x s))%nat as [|k] eqn:Ek; cbn in H; [|destruct k; discriminate].
      right. injection H as <-. repeat split; auto. lia. }
  assert (Hact_s : acted x' s = S (acted x s)).
  { unfold acted. rewrite Hi_eq, app_length. cbn. lia. }
  assert (Hact : forall s', (acted x s' <= acted x' s')%nat).
  { intros s'. unfold acted. destruct (Hext s') as (l & ->). rewrite app_length. lia. }
  assert (Hreg : forall s', s' <> s -> (s' < n_senders c)%nat -> reg x' s' -> reg x s').
  { intros s' Hne Hlt (cur & m & Ec & Hn). cbn in Ec. destruct (K1 _ _ _ Ec Hlt Hn Hne) as (m0 & ? & ?).
    exists cur, m0. auto. }
  assert (HLy : forall e, In e (log (dt x)) -> In e (log y)).
  { intros e He. cbn. rewrite L. apply in_or_app. right. right. exact He. }
  assert (Horg_new : forall e s' j, In e new -> entry_origin e = Some (s', j) ->
             (exists bi, e = LApp bi /\ In bi (batch (dt x))) \/ (s' = s /\ j = acted x s)).
  { intros e s' j He Ho. destruct (E _ He) as [(w & ->)|(b & -> & [Hb|Hb])]; [discriminate|eauto|].
    right. cbn in Ho. rewrite (HO _ Hb) in Ho. injection Ho as <- <-. auto. }
  assert (Hcev : cev_strong x').
  { (* delivered events are pending or applied *) intros s' j id key tm Hn. cbn [dt x'].
    assert (Hpend : forall b, In b (batch (dt x)) \/ In b O -> In (LApp b) (log y) \/ In b (batch y)).
    { intros b Hb. destruct (P _ Hb); [auto|]. left. rewrite L. apply in_or_app. auto. }
    destruct (Hnthi _ _ _ Hn) as [H|(-> & -> & <-)].
    + destruct (i_cev _ _ I _ _ _ _ _ Hrun H) as [H1|H1]; [left; apply HLy; exact H1|apply Hpend; auto].
    + apply Hpend. right. apply Hev. reflexivity. }
  split; [|exact Hcev].
  constructor.
  - cbn. rewrite set_nth_length. apply (i_len_m _ _ I).
  - cbn. rewrite set_nth_length. apply (i_len_s _ _ I).
  - (* passed *) intros s' it' H R. cbn in H. destruct (Nat.eq_dec s s') as [<-|Hne].
    + rewrite nth_error_set_nth_eq in H by exact Hsm. discriminate.
    + rewrite nth_error_set_nth_neq in H by exact Hne.
      apply (i_passed _ _ I _ _ H). apply Hreg; auto.
      rewrite <- (i_len_m _ _ I). eapply nth_error_lt; eauto.
  - (* parked *) intros s' g it' H R. cbn in H. destruct (Nat.eq_dec s s') as [<-|Hne].
    + rewrite nth_error_set_nth_eq in H by exact Hsm. discriminate.
    + rewrite nth_error_set_nth_neq in H by exact Hne. cbn.
      apply (i_parked _ _ I _ _ _ H). apply Hreg; auto.
      rewrite <- (i_len_m _ _ I). eapply nth_error_lt; eauto.
  - (* current checkpoint *) intros cur m s' Ec Hlt Hn. cbn in Ec. destruct (Nat.eq_dec s' s) as [->|Hne].
    + destruct (K2 _ _ Ec Hn) as (-> & ->). exists (acted x s). repeat split; auto.
      * rewrite Hi_eq. rewrite nth_error_app2 by (unfold acted; lia). unfold acted. rewrite Nat.sub_diag. reflexivity.
      * cbn. rewrite L. apply in_or_app. right. left. reflexivity.
    + destruct (K1 _ _ _ Ec Hlt Hn Hne) as (m0 & Ec0 & Hn0).
      destruct (i_cur _ _ I _ _ _ Ec0 Hlt Hn0) as (b & Hb1 & Hb2 & Hb3). exists b. repeat split; auto.
      unfold acted. rewrite Hi_ne by auto. exact Hb1.
  - (* origins in the log *) intros e s' j He Ho. cbn in He. rewrite L in He. apply in_app_or in He.
    destruct He as [He|[<-|He]].
    + destruct (Horg_new _ _ _ He Ho) as [(bi & -> & Hbi)|(-> & ->)]; [|lia].
      cbn in Ho. injection Ho as Ho. pose proof (i_obatch _ _ I _ _ _ Hbi Ho). pose proof (Hact s'). lia.
    + cbn in Ho. injection Ho as <- <-. lia.
    + pose proof (i_olog _ _ I _ _ _ He Ho). pose proof (Hact s'). lia.
  - (* origins in the batch *) intros b s' j Hb Ho. cbn in Hb. destruct (B _ Hb) as [Hb'|Hb'].
    + pose proof (i_obatch _ _ I _ _ _ Hb' Ho). pose proof (Hact s'). lia.
    + rewrite (HO _ Hb') in Ho. injection Ho as <- <-. lia.
  - intros s' j id key tm _. apply Hcev.
  - (* watermarks *) intros s' j t Hn. destruct (Hnthi _ _ _ Hn) as [H|(-> & -> & <-)].
    + apply HLy. apply (i_cwm _ _ I _ _ _ H).
    + cbn. rewrite L. apply in_or_app. right. left. rewrite (Hwm t eq_refl). reflexivity.
  - (* faithful *) intros s' j id key tm H. cbn [dt x'] in H.
    assert (Hold : In (LApp (BEv (s', j) id key tm)) (log (dt x)) \/ In (BEv (s', j) id key tm) (batch (dt x)) \/
                   In (BEv (s', j) id key tm) O).
    { destruct H as [H|H].
      - rewrite L in H. apply in_app_or in H. destruct H as [H|[H|H]]; [|discriminate|auto].
        destruct (E _ H) as [(w & ?)|(b & [= <-] & [Hb|Hb])]; [discriminate|auto|auto].
      - destruct (B _ H); auto. }
    destruct Hold as [H1|[H1|H1]].
    + apply Hnth. apply (i_faith _ _ I). auto.
    + apply Hnth. apply (i_faith _ _ I). auto.
    + pose proof (HO _ H1) as Ho. cbn in Ho. injection Ho as -> ->. pose proof (HOev _ _ _ _ H1) as Hit.
      rewrite Hi_eq. rewrite nth_error_app2 by (unfold acted; lia). unfold acted. rewrite Nat.sub_diag. cbn. congruence.
  - (* timers come from watermarks *) intros s' j k ts H. cbn [dt x'] in H.
    assert (Hold : In (LApp (BTm (s', j) k ts)) (log (dt x)) \/ In (BTm (s', j) k ts) (batch (dt x)) \/
                   In (BTm (s', j) k ts) O).
    { destruct H as [H|H].
      - rewrite L in H. apply in_app_or in H. destruct H as [H|[H|H]]; [|discriminate|auto].
        destruct (E _ H) as [(w & ?)|(b & [= <-] & [Hb|Hb])]; [discriminate|auto|auto].
      - destruct (B _ H); auto. }
    destruct Hold as [H1|[H1|H1]].
    + destruct (i_ftm _ _ I _ _ _ _ (or_introl H1)) as (t & Ht). exists t. apply Hnth. exact Ht.
    + destruct (i_ftm _ _ I _ _ _ _ (or_intror H1)) as (t & Ht). exists t. apply Hnth. exact Ht.
    + pose proof (HO _ H1) as Ho. cbn in Ho. injection Ho as -> ->. destruct (HOtm _ _ _ H1) as (t & Hit).
      exists t. rewrite Hi_eq. rewrite nth_error_app2 by (unfold acted; lia). unfold acted. rewrite Nat.sub_diag. cbn. congruence.
  - (* applied set *) intros b. cbn [dt x']. rewrite A, L, in_app_iff, (i_app _ _ I). cbn. split; [tauto|].
    intros [H|[H|H]]; [tauto|discriminate|tauto].
  - (* history *) intros post cid snap pre H. cbn [dt x'] in H. rewrite L in H.
    change (new ++ LAct (s, acted x s) it ok :: log (dt x)) with (new ++ [LAct (s, acted x s) it ok] ++ log (dt x)) in H.
    rewrite app_assoc in H.
    apply no_ckpt_in_new in H.
    2:{ intros e He c0 s0 ->. apply in_app_or in He. destruct He as [He|[He|[]]]; [|discriminate].
        destruct (E _ He) as [(w & ?)|(b & ? & _)]; discriminate. }
    destruct H as (post0 & -> & H0).
    apply cut_ok_mono with (x := x); auto.
    + apply (i_hist _ _ I). exact H0.
    + intros bi s' j Hb Ho. cbn in Hb. destruct (B _ Hb) as [?|Hb']; [auto|].
      rewrite (HO _ Hb') in Ho. injection Ho as <- <-. right. lia.
    + intros e s' j He Ho. apply in_app_or in He. destruct He as [He|[<-|[]]].
      * destruct (Horg_new _ _ _ He Ho) as [?|(-> & ->)]; [auto|right; lia].
      * cbn in Ho. injection Ho as <- <-. right. lia.
Qed.

(* all barriers are in: db.Checkpoint, report, clear *)
Lemma Inv_complete c z cur m :
  Inv c z -> cev_strong z ->
  ckpt z = Some (cur, m) -> (forall s, (s < n_senders c)%nat -> ~ In s m) -> batch (dt z) = [] ->
  Inv c (mkSt (modes z) (sent z) None (done z + 1) (push_log (LCkpt cur (applied (dt z), timers (dt z))) (dt z))).
Proof.
  intros I Hrun Ec Hall Hb. constructor; cbn [modes sent ckpt done dt push_log log batch applied].
  - apply (i_len_m _ _ I).
  - apply (i_len_s _ _ I).
  - intros s it _ (? & ? & ? & _). discriminate.
  - intros s g it _ (? & ? & ? & _). discriminate.
  - discriminate.
  - intros e s j [<-|He] Ho; [discriminate|]. apply (i_olog _ _ I _ _ _ He Ho).
  - apply (i_obatch _ _ I).
  - intros s j id key tm _ H. destruct (Hrun _ _ _ _ _ H); [left; right|right]; auto.
  - intros s j t H. right. apply (i_cwm _ _ I _ _ _ H).
  - intros s j id key tm [[H|H]|H]; [discriminate| |]; apply (i_faith _ _ I); auto.
  - intros s j k ts [[H|H]|H]; [discriminate| |]; apply (i_ftm _ _ I s j k ts); auto.
  - intros b. rewrite (i_app _ _ I). cbn [In]. split; [auto|]. intros [H|H]; [discriminate|auto].
  - intros post cid snap pre H. destruct post as [|e post]; cbn in H.
    + injection H as <- <- <-. (* the record just written *)
      split; [cbn; apply (i_app _ _ I)|].
      exists (fun s => pred (acted z s)). intros s Hs.
      destruct (i_cur _ _ I _ _ _ Ec Hs (Hall s Hs)) as (b & B1 & B2 & B3).
      change (acted (mkSt (modes z) (sent z) None (done z + 1) _) s) with (acted z s).
      change (items_of (mkSt (modes z) (sent z) None (done z + 1) _) s) with (items_of z s).
      rewrite B1. cbn [pred dt batch push_log]. rewrite Hb. repeat split; auto.
      * intros bi j [].
      * intros e j He Ho. pose proof (i_olog _ _ I _ _ _ He Ho). lia.
      * intros e j [].
      * intros j id key tm Hj Hn. destruct (Hrun _ _ _ _ _ Hn) as [?|Hx]; auto. rewrite Hb in Hx. destruct Hx.
      * intros j t Hj Hn. apply (i_cwm _ _ I _ _ _ Hn).
    + injection H as <- H. destruct (i_hist _ _ I _ _ _ _ H) as (Hsnap & b & Hbb). split; auto. exists b. intros s Hs.
      destruct (Hbb s Hs) as (B1 & B2 & B3 & B4 & B5 & B6 & B7 & B8). repeat split; auto.
      intros e j [<-|He] Ho; [discriminate|eauto].
Qed.

Lemma passed_not_reg c x s it cur m :
  Inv c x -> nth_error (modes x) s = Some (Passed it) -> ckpt x = Some (cur, m) -> ~ In s m -> False.
Proof. intros I Hm Ec Hn. apply (i_passed _ _ I _ _ Hm). exists cur, m. auto. Qed.

Lemma Inv_handle_bar c x s cid ok y ck' :
  Inv c x -> nth_error (modes x) s = Some (Passed (IBar cid)) -> running x = true ->
  dext [] (push_log (LAct (s, acted x s) (IBar cid) ok) (dt x)) y ->
  (forall cur m s', ck' = Some (cur, m) -> (s' < n_senders c)%nat -> ~ In s' m -> s' <> s ->
        exists m0, ckpt x = Some (cur, m0) /\ ~ In s' m0) ->
  (forall cur m, ck' = Some (cur, m) -> ~ In s m -> IBar cid = IBar cur /\ ok = true) ->
  Inv c (mkSt (set_nth s Idle (modes x)) (set_nth s (items_of x s ++ [IBar cid]) (sent x)) ck' (done x) y) /\
  cev_strong (mkSt (set_nth s Idle (modes x)) (set_nth s (items_of x s ++ [IBar cid]) (sent x)) ck' (done x) y).
Proof.
  intros I Hm Hrun Hd K1 K2.
  apply (Inv_handle_gen c x s (IBar cid) ok [] y ck' I Hm Hrun Hd); auto.
  - intros b [].
  - intros o i k t [].
  - intros o k ts [].
  - discriminate.
  - discriminate.
Qed.

(* the handler failed on the flush in front of the cut: the batch it took out is lost *)
Lemma Inv_drop c z cur :
  Inv c z -> ckpt z = Some (cur, []) -> Inv c (mkSt (modes z) (sent z) (ckpt z) (done z) (drop_batch (dt z))).
Proof.
  intros I Ec. destruct I. constructor; cbn [modes sent ckpt done dt drop_batch batch log applied active]; auto.
  - intros b s j [].
  - intros s j id key tm Hr. unfold running, failed in Hr. cbn [ckpt] in Hr. rewrite Ec, andb_false_r in Hr. discriminate.
  - intros s j id key tm [H|[]]. apply i_faith0. auto.
  - intros s j k ts [H|[]]. apply (i_ftm0 s j k ts). auto.
  - intros post cid snap pre HL.
    change post with ([] ++ post). apply cut_ok_mono with (x := z); auto.
    + intros s. exists []. rewrite app_nil_r. reflexivity.
    + intros bi s j [].
    + intros e s j [].
Qed.

Lemma Inv_handle_any c hf x s it : Inv c x -> running x = true ->
  nth_error (modes x) s = Some (Passed it) -> Inv c (handle_item c hf x s it).
Proof.
  intros I Hrun Hmode.
  pose proof (nth_error_lt _ _ _ Hmode) as Hsm.
  assert (Hsn : (s < n_senders c)%nat) by (rewrite <- (i_len_m _ _ I); exact Hsm).
  assert (Hstop : stopped (dt x) = false).
  { unfold running in Hrun. destruct (stopped (dt x)); [discriminate|reflexivity]. }
  unfold handle_item.
  change (length (nth s (sent x) [])) with (acted x s).
  change (nth s (sent x) []) with (items_of x s).
  assert (Ksame : forall cur m s', ckpt x = Some (cur, m) -> (s' < n_senders c)%nat -> ~ In s' m -> s' <> s ->
                    exists m0, ckpt x = Some (cur, m0) /\ ~ In s' m0) by (intros; eauto).
  assert (Kno : forall ok cur m, ckpt x = Some (cur, m) -> ~ In s m -> it = IBar cur /\ ok = true).
  { intros ok cur m Ec Hn. exfalso. eapply passed_not_reg; eauto. }
  (* the three outcomes of the barrier that completes the alignment *)
  assert (Hlast : forall cid ck0,
     (forall cur' m0 s', Some (cid, @nil nat) = Some (cur', m0) -> (s' < n_senders c)%nat -> ~ In s' m0 -> s' <> s ->
          exists m1, ckpt x = Some (cur', m1) /\ ~ In s' m1) ->
     it = IBar cid -> ck0 = Some (cid, @nil nat) ->
     let d0 := push_log (LAct (s, acted x s) (IBar cid) true) (dt x) in
     Inv c (if hf && match batch d0 with [] => false | _ :: _ => true end
            then mkSt (set_nth s Idle (modes x)) (set_nth s (items_of x s ++ [IBar cid]) (sent x)) ck0 (done x) (drop_batch d0)
            else if errored d0 (flush None d0)
                 then mkSt (set_nth s Idle (modes x)) (set_nth s (items_of x s ++ [IBar cid]) (sent x)) ck0 (done x) (flush None d0)
                 else mkSt (set_nth s Idle (modes x)) (set_nth s (items_of x s ++ [IBar cid]) (sent x)) None (done x + 1)
                           (push_log (LCkpt cid (applied (flush None d0), timers (flush None d0))) (flush None d0)))).
  { intros cid ck0 K1 -> -> d0.
    assert (K2 : forall cur' m0, Some (cid, @nil nat) = Some (cur', m0) -> ~ In s m0 -> IBar cid = IBar cur' /\ true = true).
    { intros cur' m0 [= <- <-] _. auto. }
    destruct (hf && _).
    - (* the handler fails on the flush *)
      destruct (Inv_handle_bar c x s cid true d0 (Some (cid, [])) I Hmode Hrun (dext_refl _) K1 K2) as (Iz & _).
      apply (Inv_drop c _ cid Iz). reflexivity.
    - destruct (Inv_handle_bar c x s cid true (flush None d0) (Some (cid, [])) I Hmode Hrun (flush_dext _ _) K1 K2) as (Iz & Cz).
      destruct (errored d0 (flush None d0)); [exact Iz|].
      apply (Inv_complete c _ cid [] Iz Cz); cbn [ckpt dt]; auto. apply flush_none_batch. }
  destruct it as [id key tm|t|cid|].
  - (* keyed event *)
    apply (Inv_handle_gen c x s (IEv id key tm) true [BEv (s, acted x s) id key tm] _ (ckpt x) I Hmode Hrun); auto.
    + apply add_item_dext.
    + intros b [<-|[]]. reflexivity.
    + intros o i k t [[= _ <- <- <-]|[]]. reflexivity.
    + intros o k ts [H|[]]. discriminate.
    + intros i k t [= <- <- <-]. left. reflexivity.
    + apply Kno.
  - (* watermark *)
    destruct (handle_wm_dext c (push_log (LAct (s, acted x s) (IWm t) true) (dt x)) (s, acted x s) t) as (O & HO & HB).
    apply (Inv_handle_gen c x s (IWm t) true O _ (ckpt x) I Hmode Hrun HO); auto.
    + intros b Hb. destruct (HB _ Hb) as (k & ts & ->). reflexivity.
    + intros o i k tm Hb. destruct (HB _ Hb) as (? & ? & ?). discriminate.
    + intros o k ts _. exists t. reflexivity.
    + discriminate.
    + apply Kno.
  - (* barrier *)
    destruct (ckpt x) as [[cur m]|] eqn:Ec.
    + destruct (cid =? cur) eqn:Eid; cbn [negb].
      * apply N.eqb_eq in Eid. subst cid.
        destruct (remove_nat s m) as [|r m'] eqn:Er.
        -- (* last barrier *)
           apply (Hlast cur (Some (cur, []))); auto.
           intros cur' m0 s' [= <- <-] Hlt _ Hne. exists m. split; auto. intros Hin.
           assert (Hx : In s' (remove_nat s m)) by (apply in_remove_nat; auto). rewrite Er in Hx. destruct Hx.
        -- apply (Inv_handle_bar c x s cur true _ (Some (cur, r :: m')) I Hmode Hrun).
           ++ apply dext_refl.
           ++ rewrite Ec. intros cur' m0 s' [= <- <-] Hlt Hn Hne. exists m. split; auto. intros Hin. apply Hn.
              rewrite <- Er. apply in_remove_nat. auto.
           ++ intros cur' m0 [= <- <-] _. auto.
      * (* foreign id: rejected *)
        apply (Inv_handle_bar c x s cid false _ (Some (cur, m)) I Hmode Hrun).
        -- apply dext_refl.
        -- rewrite Ec. intros cur' m0 s' [= <- <-] Hlt Hn Hne. eauto.
        -- intros cur' m0 [= <- <-] Hn. exfalso. eapply passed_not_reg; eauto.
    + (* first barrier of a new checkpoint *)
      rewrite N.eqb_refl. cbn [negb].
      assert (K1 : forall mm, (forall y, In y (remove_nat s (seq 0 (n_senders c))) -> In y mm) ->
                forall cur' m0 s', Some (cid, mm) = Some (cur', m0) -> (s' < n_senders c)%nat -> ~ In s' m0 -> s' <> s ->
                exists m1, @None (N * list nat) = Some (cur', m1) /\ ~ In s' m1).
      { intros mm Hsub cur' m0 s' [= <- <-] Hlt Hn Hne. exfalso. apply Hn, Hsub. apply in_remove_nat. split; auto.
        apply in_seq. lia. }
      destruct (remove_nat s (seq 0 (n_senders c))) as [|r m'] eqn:Er.
      * apply (Hlast cid (Some (cid, []))); auto. apply K1. auto.
      * apply (Inv_handle_bar c x s cid true _ (Some (cid, r :: m')) I Hmode Hrun).
        -- apply dext_refl.
        -- rewrite Ec. apply K1. auto.
        -- intros cur' m0 [= <- <-] _. auto.
  - (* SourceComplete *)
    apply (Inv_handle_gen c x s IDone true [] _ (ckpt x) I Hmode Hrun); auto.
    + destruct (errored _ _); [apply flush_dext|].
      change (@nil bitem) with (@nil bitem ++ []). eapply dext_trans; [apply flush_dext|]. apply dext_same; reflexivity.
    + intros b [].
    + intros o i k t [].
    + intros o k ts [].
    + discriminate.
    + apply Kno.
Qed.

Lemma step_handle_running x : failed x = false -> (exists a l, active (dt x) = a :: l) -> running x = true.
Proof. intros Hf (a & l & Ea). unfold running, stopped. rewrite Ea, Hf. reflexivity. Qed.

Lemma Inv_handle c x s x' : Inv c x -> step c x (Handle s) = Some x' -> Inv c x'.
Proof.
  intros I H. unfold step in H. destruct (failed x) eqn:Hf; [discriminate|].
  destruct (nth_error (modes x) s) as [[| |it]|] eqn:Hmode; try discriminate.
  destruct (active (dt x)) as [|a0 act] eqn:Eact; [discriminate|]. injection H as <-.
  exact (Inv_handle_any c false x s it I (step_handle_running x Hf (ex_intro _ a0 (ex_intro _ act Eact))) Hmode).
Qed.

Lemma Inv_handlefail c x s x' : Inv c x -> step c x (HandleFail s) = Some x' -> Inv c x'.
Proof.
  intros I H. unfold step in H. destruct (failed x) eqn:Hf; [discriminate|].
  destruct (nth_error (modes x) s) as [[| |[| |cid|]]|] eqn:Hmode; try discriminate.
  destruct (active (dt x)) as [|a0 act] eqn:Eact; [discriminate|]. injection H as <-.
  exact (Inv_handle_any c true x s (IBar cid) I (step_handle_running x Hf (ex_intro _ a0 (ex_intro _ act Eact))) Hmode).
Qed.

Lemma items_repeat s k ms ck dn y : items_of (mkSt ms (repeat [] k) ck dn y) s = [].
Proof. unfold items_of; cbn. destruct (nth_repeat (@nil item) [] k s); auto. Qed.

(* HandleDeploy while no call is outstanding and nothing is pending: a fresh deployment *)
Lemma Inv_deploy c x x' : Inv c x -> step c x Deploy = Some x' -> Inv c x'.
Proof.
  intros I H. cbn in H. destruct (forallb _ (modes x)) eqn:Hidle; [|discriminate].
  destruct (batch (dt x)); [|discriminate]. destruct (stopped (dt x)); [discriminate|]. cbn in H. injection H as <-.
  constructor; cbn [modes sent ckpt done dt batch log applied].
  - apply (i_len_m _ _ I).
  - apply repeat_length.
  - intros s it _ (? & ? & ? & _). discriminate.
  - intros s g it _ (? & ? & ? & _). discriminate.
  - discriminate.
  - intros e s j [].
  - intros b s j [].
  - intros s j id key tm _ H. rewrite items_repeat in H. destruct j; discriminate.
  - intros s j t H. rewrite items_repeat in H. destruct j; discriminate.
  - intros s j id key tm [[]|[]].
  - intros s j k ts [[]|[]].
  - cbn. tauto.
  - intros [|? post] cid snap pre H; discriminate.
Qed.

(* the handler fails on a time-out flush: the batch is lost, the operator stops *)
Lemma Inv_tfail c x x' : Inv c x -> step c x TimeoutFail = Some x' -> Inv c x'.
Proof.
  intros I H. unfold step in H. destruct (sinkfault (dt x) || stopped (dt x) || failed x); [discriminate|].
  destruct (inflight (dt x)) as [|t r]; [discriminate|]. cbn zeta in H.
  assert (Hsame : forall y, log y = log (dt x) -> batch y = batch (dt x) -> applied y = applied (dt x) ->
                   active y = active (dt x) -> Inv c (set_d x y)).
  { intros y Hl Hb Ha Hact. apply Inv_dext; auto. apply dext_same; auto. }
  destruct (batch (dt x)) as [|b0 bs] eqn:Eb.
  - injection H as <-. apply Hsame; auto.
  - destruct (t =? btoken (dt x)); injection H as <-; [|apply Hsame; auto].
    destruct I. unfold set_d. constructor; cbn [modes sent ckpt done dt batch log applied active]; auto.
    + intros b s j [].
    + intros s j id key tm Hst. unfold running, stopped in Hst. cbn in Hst. discriminate.
    + intros s j id key tm [H|[]]. apply i_faith0. auto.
    + intros s j k ts [H|[]]. apply (i_ftm0 s j k ts). auto.
    + intros post cid snap pre HL.
      change post with ([] ++ post). apply cut_ok_mono with (x := x); auto.
      * intros s. exists []. rewrite app_nil_r. reflexivity.
      * intros bi s j [].
      * intros e s j [].
Qed.

Lemma Inv_step c x a x' : Inv c x -> step c x a = Some x' -> Inv c x'.
Proof.
  intros I H. destruct a as [s it|s|s| | |s| | | |s].
  10:{ eapply Inv_handlefail; eauto. }
  - eapply Inv_gate; eauto.
  - eapply Inv_wake; eauto.
  - eapply Inv_handle; eauto.
  - cbn in H. destruct (armed (dt x)); [|discriminate]. injection H as <-.
    apply Inv_dext; auto. apply dext_same; reflexivity.
  - unfold step in H. destruct (sinkfault (dt x) || stopped (dt x) || failed x); [discriminate|].
    destruct (inflight (dt x)) as [|t r]; [discriminate|]. injection H as <-.
    apply Inv_dext; auto.
    + change (@nil bitem) with (@nil bitem ++ []). eapply dext_trans; [|apply flush_dext]. apply dext_same; reflexivity.
    + rewrite active_flush. reflexivity.
  - cbn in H. destruct (nth_error (modes x) s) as [[| |]|]; try discriminate. injection H as <-. exact I.
  - cbn in H. destruct (sinkfault (dt x)); [discriminate|]. injection H as <-.
    apply Inv_dext; auto. apply dext_same; reflexivity.
  - eapply Inv_deploy; eauto.
  - eapply Inv_tfail; eauto.
Qed.

(* ---------- schedules ---------- *)
Definition infl (m : mode) : list item := match m with Idle => [] | Parked _ it => [it] | Passed it => [it] end.
Definition full (x : st) (s : nat) : list item := items_of x s ++ infl (nth s (modes x) Idle).
Definition gate_item (a : action) (s : nat) : list item :=
  match a with Gate s' it => if Nat.eqb s' s then [it] else [] | _ => [] end.

Lemma handle_item_frame c hf x s it :
  modes (handle_item c hf x s it) = set_nth s Idle (modes x) /\
  sent (handle_item c hf x s it) = set_nth s (items_of x s ++ [it]) (sent x).
Proof.
  unfold handle_item. destruct it as [id key tm|t|cid|].
  - cbn; auto.
  - cbn; auto.
  - destruct (ckpt x) as [[cur m]|].
    + destruct (cid =? cur); cbn [negb]; [|cbn; auto]. destruct (remove_nat s m); [|cbn; auto].
      destruct (hf && _); [cbn; auto|]. destruct (errored _ _); cbn; auto.
    + rewrite N.eqb_refl. cbn [negb]. destruct (remove_nat s _); [|cbn; auto].
      destruct (hf && _); [cbn; auto|]. destruct (errored _ _); cbn; auto.
  - cbn. auto.
Qed.

Lemma nth_of_nth_error {A} (l : list A) i v d : nth_error l i = Some v -> nth i l d = v.
Proof. revert i; induction l as [|a l IH]; intros [|i] H; cbn in *; try discriminate; [congruence|auto]. Qed.

Lemma forallb_idle_nth ms s : forallb (fun m => match m with Idle => true | _ => false end) ms = true -> nth s ms Idle = Idle.
Proof.
  revert s; induction ms as [|m ms IH]; intros [|s] H; cbn in *; auto.
  - destruct m; try discriminate. reflexivity.
  - apply IH. destruct m; try discriminate. exact H.
Qed.

Lemma step_full c x a x' s : Inv c x -> step c x a = Some x' -> a <> Deploy -> full x' s = full x s ++ gate_item a s.
Proof.
  intros I H Hnd. destruct a as [s' it|s'|s'| | |s'| | | |s']; cbn [gate_item]; try congruence.
  - unfold step in H. destruct (failed x); [discriminate|].
    destruct (nth_error (modes x) s') as [[| |]|] eqn:E; try discriminate. injection H as <-.
    pose proof (nth_error_lt _ _ _ E) as Hlt. unfold full, with_mode, items_of; cbn [modes sent].
    destruct (Nat.eqb s' s) eqn:Es.
    + apply Nat.eqb_eq in Es. subst s'. rewrite nth_set_nth_eq by exact Hlt.
      rewrite (nth_of_nth_error _ _ _ Idle E). cbn. destruct (should_park x s); cbn; rewrite app_nil_r; reflexivity.
    + apply Nat.eqb_neq in Es. rewrite nth_set_nth_neq by exact Es. rewrite app_nil_r. reflexivity.
  - unfold step in H. destruct (failed x); [discriminate|].
    destruct (nth_error (modes x) s') as [[|g it|]|] eqn:E; try discriminate.
    destruct (g <? done x); [|discriminate]. injection H as <-.
    pose proof (nth_error_lt _ _ _ E) as Hlt. unfold full, with_mode, items_of; cbn [modes sent]. rewrite app_nil_r.
    destruct (Nat.eq_dec s' s) as [->|Hne].
    + rewrite nth_set_nth_eq by exact Hlt. rewrite (nth_of_nth_error _ _ _ Idle E). reflexivity.
    + rewrite nth_set_nth_neq by exact Hne. reflexivity.
  - unfold step in H. destruct (failed x); [discriminate|].
    destruct (nth_error (modes x) s') as [[| |it]|] eqn:E; try discriminate.
    destruct (active (dt x)); [discriminate|]. injection H as <-.
    pose proof (nth_error_lt _ _ _ E) as Hlt.
    assert (Hls : (s' < length (sent x))%nat) by (rewrite (i_len_s _ _ I), <- (i_len_m _ _ I); exact Hlt).
    destruct (handle_item_frame c false x s' it) as (Hm & Hs). unfold full, items_of. rewrite Hm, Hs, app_nil_r.
    destruct (Nat.eq_dec s' s) as [->|Hne].
    + rewrite !nth_set_nth_eq by auto. rewrite (nth_of_nth_error _ _ _ Idle E). cbn. rewrite app_nil_r. reflexivity.
    + rewrite !nth_set_nth_neq by exact Hne. reflexivity.
  - cbn in H. destruct (armed (dt x)); [|discriminate]. injection H as <-. unfold full. rewrite app_nil_r. reflexivity.
  - unfold step in H. destruct (sinkfault (dt x) || stopped (dt x) || failed x); [discriminate|].
    destruct (inflight (dt x)); [discriminate|]. injection H as <-. unfold full. rewrite app_nil_r. reflexivity.
  - cbn in H. destruct (nth_error (modes x) s') as [[| |]|]; try discriminate. injection H as <-.
    rewrite app_nil_r. reflexivity.
  - cbn in H. destruct (sinkfault (dt x)); [discriminate|]. injection H as <-. unfold full. rewrite app_nil_r. reflexivity.
  - unfold step in H. destruct (sinkfault (dt x) || stopped (dt x) || failed x); [discriminate|].
    destruct (inflight (dt x)); [discriminate|]. rewrite app_nil_r. cbn zeta in H.
    destruct (batch (dt x)); [injection H as <-; reflexivity|].
    destruct (_ =? _); injection H as <-; reflexivity.
  - unfold step in H. destruct (failed x); [discriminate|].
    destruct (nth_error (modes x) s') as [[| |[| |cid|]]|] eqn:E; try discriminate.
    destruct (active (dt x)); [discriminate|]. injection H as <-.
    pose proof (nth_error_lt _ _ _ E) as Hlt.
    assert (Hls : (s' < length (sent x))%nat) by (rewrite (i_len_s _ _ I), <- (i_len_m _ _ I); exact Hlt).
    match goal with |- full ?z s = _ => change z with (handle_item c true x s' (IBar cid)) end.
    destruct (handle_item_frame c true x s' (IBar cid)) as (Hm & Hs). unfold full, items_of. rewrite Hm, Hs, app_nil_r.
    destruct (Nat.eq_dec s' s) as [->|Hne].
    + rewrite !nth_set_nth_eq by auto. rewrite (nth_of_nth_error _ _ _ Idle E). cbn. rewrite app_nil_r. reflexivity.
    + rewrite !nth_set_nth_neq by exact Hne. reflexivity.
Qed.

Lemma step_deploy_full c x x' s : step c x Deploy = Some x' -> full x' s = [].
Proof.
  intros H. cbn in H. destruct (forallb _ (modes x)) eqn:Hidle; [|discriminate].
  destruct (batch (dt x)); [|discriminate]. destruct (stopped (dt x)); [discriminate|]. cbn in H. injection H as <-.
  unfold full. rewrite items_repeat. cbn [modes]. rewrite (forallb_idle_nth _ _ Hidle). reflexivity.
Qed.

Lemma script0_cons a acts s : script0 (a :: acts) s = gate_item a s ++ script0 acts s.
Proof. destruct a; cbn; auto. destruct (Nat.eqb s0 s); reflexivity. Qed.

Lemma after_deploy_none acts : has_deploy acts = false -> after_deploy acts = acts.
Proof.
  induction acts as [|a acts IH]; cbn; auto. intros H.
  destruct a; try (rewrite H; reflexivity). discriminate.
Qed.

Lemma script_cons_nd a acts s : a <> Deploy ->
  has_deploy (a :: acts) = has_deploy acts /\
  script (a :: acts) s = if has_deploy acts then script acts s else gate_item a s ++ script acts s.
Proof.
  intros Hnd. unfold script. split; [destruct a; cbn; congruence|].
  destruct (has_deploy acts) eqn:Hd.
  - destruct a; cbn; rewrite Hd; congruence.
  - rewrite (after_deploy_none _ Hd).
    replace (after_deploy (a :: acts)) with (a :: acts) by (destruct a; cbn; rewrite Hd; congruence).
    apply script0_cons.
Qed.

Lemma script_cons_deploy acts s : script (Deploy :: acts) s = script acts s.
Proof.
  unfold script. cbn. destruct (has_deploy acts) eqn:Hd; auto. rewrite (after_deploy_none _ Hd). reflexivity.
Qed.

Lemma exec_inv c acts : forall x x', Inv c x -> exec c x acts = Some x' ->
  Inv c x' /\ forall s, full x' s = (if has_deploy acts then [] else full x s) ++ script acts s.
Proof.
  induction acts as [|a acts IH]; intros x x' I H; cbn [exec] in H.
  - injection H as <-. split; auto. intros s. cbn. rewrite app_nil_r. reflexivity.
  - destruct (step c x a) as [x1|] eqn:E; [|discriminate].
    pose proof (Inv_step _ _ _ _ I E) as I1. destruct (IH _ _ I1 H) as (I' & Hf). split; auto.
    intros s. rewrite Hf.
    assert (Hdec : a = Deploy \/ a <> Deploy) by (destruct a; auto; right; discriminate).
    destruct Hdec as [->|Hnd].
    + rewrite (step_deploy_full _ _ _ s E), script_cons_deploy. cbn [has_deploy]. destruct (has_deploy acts); reflexivity.
    + destruct (script_cons_nd a acts s Hnd) as (-> & ->).
      destruct (has_deploy acts); [reflexivity|].
      rewrite (step_full _ _ _ _ s I E Hnd), app_assoc. reflexivity.
Qed.

Lemma full_init c s : full (init c) s = [].
Proof.
  unfold full. rewrite items_init. cbn.
  destruct (nth_repeat Idle Idle (n_senders c) s) as [-> | ->]; reflexivity.
Qed.

Lemma exec_init c acts x : exec c (init c) acts = Some x ->
  Inv c x /\ forall s, exists l, script acts s = items_of x s ++ l.
Proof.
  intros H. destruct (exec_inv c acts _ _ (Inv_init c) H) as (I & Hf). split; auto.
  intros s. specialize (Hf s). rewrite full_init in Hf.
  assert (Hs : full x s = script acts s) by (rewrite Hf; destruct (has_deploy acts); reflexivity).
  rewrite <- Hs. unfold full. eauto.
Qed.

(* ---------- the theorems (stated again, with their reading, in Props/C02.v) ---------- *)
Lemma consistent_cut_proof c acts x post cid snap pre :
  exec c (init c) acts = Some x ->
  log (dt x) = post ++ LCkpt cid snap :: pre ->
  (forall bi, In bi (fst snap) <-> In (LApp bi) pre) /\
  exists b : nat -> nat, forall s, (s < n_senders c)%nat ->
    nth_error (script acts s) (b s) = Some (IBar cid)
    /\ In (LAct (s, b s) (IBar cid) true) pre
    /\ (forall e j, In e pre -> entry_origin e = Some (s, j) -> (j <= b s)%nat)
    /\ (forall e j, In e post -> entry_origin e = Some (s, j) -> (b s < j)%nat)
    /\ (forall j id key tm, (j < b s)%nat -> nth_error (script acts s) j = Some (IEv id key tm) ->
          In (LApp (BEv (s, j) id key tm)) pre /\ In (BEv (s, j) id key tm) (fst snap))
    /\ (forall j t, (j < b s)%nat -> nth_error (script acts s) j = Some (IWm t) -> In (LAct (s, j) (IWm t) true) pre).
Proof.
  intros H HL. destruct (exec_init _ _ _ H) as (I & Hs).
  destruct (i_hist _ _ I _ _ _ _ HL) as (Hsnap & b & Hb). split; auto. exists b. intros s Hlt.
  destruct (Hb s Hlt) as (B1 & B2 & B3 & B4 & B5 & B6 & B7 & B8). destruct (Hs s) as (l & El).
  assert (Hn : forall j, (j < acted x s)%nat -> nth_error (script acts s) j = nth_error (items_of x s) j).
  { intros j Hj. rewrite El. apply nth_error_app1. exact Hj. }
  repeat split; auto.
  - rewrite Hn by exact B1. exact B3.
  - rewrite Hn in H1 by lia. eauto.
  - rewrite Hn in H1 by lia. apply Hsnap. eauto.
  - intros j t Hj Hnj. rewrite Hn in Hnj by lia. eauto.
Qed.

Lemma applied_are_delivered_proof c acts x s j :
  exec c (init c) acts = Some x ->
  (forall id key tm, In (LApp (BEv (s, j) id key tm)) (log (dt x)) -> nth_error (script acts s) j = Some (IEv id key tm)) /\
  (forall k ts, In (LApp (BTm (s, j) k ts)) (log (dt x)) -> exists t, nth_error (script acts s) j = Some (IWm t)) /\
  (forall it ok, In (LAct (s, j) it ok) (log (dt x)) -> exists it', nth_error (script acts s) j = Some it').
Proof.
  intros H. destruct (exec_init _ _ _ H) as (I & Hs). destruct (Hs s) as (l & El).
  assert (Hn : forall j v, nth_error (items_of x s) j = Some v -> nth_error (script acts s) j = Some v).
  { intros j' v Hj. rewrite El. rewrite nth_error_app1; auto. eapply nth_error_lt; eauto. }
  repeat split.
  - intros id key tm Hin. apply Hn. apply (i_faith _ _ I). auto.
  - intros k ts Hin. destruct (i_ftm _ _ I s j k ts (or_introl Hin)) as (t & Ht). eauto.
  - intros it ok Hin. pose proof (i_olog _ _ I _ s j Hin eq_refl) as Hlt.
    destruct (nth_error (items_of x s) j) as [v|] eqn:E; [eauto|]. apply nth_error_None in E. unfold acted in Hlt. lia.
Qed.
