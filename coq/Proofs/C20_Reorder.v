(* C20, part 2: the reorder fetcher (Model/Reorder.v), repaired code (rp_fixed = true). Stdlib only.
   Invariant: sequence numbers are handed out in flush order; the drained prefix is in sequence order. *)
From Coq Require Import List NArith ZArith Bool Arith Lia.
From RV Require Import Model.Batcher Model.Reorder Proofs.C20_Batcher.
Import ListNotations.
Open Scope nat_scope.

Section ReorderProofs.
Context {T R : Type}.
Variable fetch : list T -> list R.
Variable p : rparams.
Hypothesis Hfixed : rp_fixed p = true.

Notation rstate := (rstate T R).
Notation pc := (pc T).

(* ------------------------------------------------------------------ small list facts *)

Lemma lookup_remove_key : forall k d (m : list (nat * list R)),
  lookup k (remove_key d m) = if Nat.eqb k d then None else lookup k m.
Proof.
  intros k d m. induction m as [|[k' v] m IH]; cbn [remove_key lookup].
  - now destruct (Nat.eqb k d).
  - destruct (Nat.eqb d k') eqn:E1.
    + apply Nat.eqb_eq in E1. subst k'. rewrite IH. destruct (Nat.eqb k d) eqn:E2; reflexivity.
    + cbn [lookup]. rewrite IH. destruct (Nat.eqb k k') eqn:E2; [|reflexivity].
      apply Nat.eqb_eq in E2. subst k'. destruct (Nat.eqb k d) eqn:E3; [|reflexivity].
      apply Nat.eqb_eq in E3. subst. rewrite Nat.eqb_refl in E1. discriminate.
Qed.

Lemma remove_key_length : forall d (m : list (nat * list R)), length (remove_key d m) <= length m.
Proof.
  intros d m. induction m as [|[k' v] m IH]; cbn [remove_key length]; [lia|].
  destruct (Nat.eqb d k'); cbn [length]; lia.
Qed.

Lemma remove_key_length_lt : forall d (m : list (nat * list R)) r,
  lookup d m = Some r -> length (remove_key d m) < length m.
Proof.
  intros d m. induction m as [|[k' v] m IH]; intros r H; cbn [remove_key lookup length] in *; [discriminate|].
  destruct (Nat.eqb d k').
  - pose proof (remove_key_length d m). lia.
  - cbn [length]. specialize (IH r H). lia.
Qed.

Lemma lookup_put : forall k k' v (m : list (nat * list R)),
  lookup k (put k' v m) = if Nat.eqb k k' then Some v else lookup k m.
Proof.
  intros k k' v m. unfold put. cbn [lookup]. destruct (Nat.eqb k k') eqn:E; [reflexivity|].
  rewrite lookup_remove_key, E. reflexivity.
Qed.

Lemma firstn_snoc_nth : forall {A} (l : list A) d x,
  nth_error l d = Some x -> firstn (S d) l = firstn d l ++ [x].
Proof.
  intros A l. induction l as [|y l IH]; intros d x H.
  - destruct d; discriminate.
  - destruct d as [|d]; cbn in *.
    + now inversion H.
    + f_equal. now apply IH.
Qed.

Lemma nth_error_app_l : forall {A} (l l' : list A) k x, nth_error l k = Some x -> nth_error (l ++ l') k = Some x.
Proof.
  intros A l l' k x H. rewrite nth_error_app1; [assumption|]. apply nth_error_Some. congruence.
Qed.

Lemma firstn_app_le : forall {A} (l l' : list A) d, d <= length l -> firstn d (l ++ l') = firstn d l.
Proof.
  intros A l l' d H. rewrite firstn_app. replace (d - length l) with 0 by lia. cbn. apply app_nil_r.
Qed.

Lemma in_set_nth : forall {A} i (x : A) l f, In f (set_nth i x l) -> f = x \/ In f l.
Proof.
  intros A i x l. revert i. induction l as [|y l IH]; intros i f H; cbn in *.
  - destruct i; contradiction.
  - destruct i as [|i]; cbn in H.
    + destruct H as [H|H]; [left; congruence|right; now right].
    + destruct H as [H|H]; [right; now left|]. destruct (IH i f H) as [H'|H']; [now left|right; now right].
Qed.

Lemma in_set_nth_keep : forall {A} i (x g : A) l f,
  nth_error l i = Some g -> In f l -> f = g \/ In f (set_nth i x l).
Proof.
  intros A i x g l. revert i. induction l as [|y l IH]; intros i f Hn H; cbn in *.
  - contradiction.
  - destruct i as [|i]; cbn in *.
    + inversion Hn; subst. destruct H as [H|H]; [left; congruence|right; now right].
    + destruct H as [H|H]; [right; now left|]. destruct (IH i f Hn H) as [H'|H']; [now left|right; now right].
Qed.

Lemma in_set_nth_new : forall {A} i (x g : A) l, nth_error l i = Some g -> In x (set_nth i x l).
Proof.
  intros A i x g l. revert i. induction l as [|y l IH]; intros i Hn; destruct i; cbn in *; try discriminate.
  - now left.
  - right. now apply IH.
Qed.

Lemma in_del_nth : forall {A} i (l : list A) f, In f (del_nth i l) -> In f l.
Proof.
  intros A i l. revert i. induction l as [|y l IH]; intros i f H; cbn in *.
  - destruct i; contradiction.
  - destruct i as [|i]; cbn in H; [now right|]. destruct H as [H|H]; [now left|right; now apply (IH i)].
Qed.

Lemma in_del_nth_keep : forall {A} i (g : A) l f,
  nth_error l i = Some g -> In f l -> f = g \/ In f (del_nth i l).
Proof.
  intros A i g l. revert i. induction l as [|y l IH]; intros i f Hn H; cbn in *.
  - contradiction.
  - destruct i as [|i]; cbn in *.
    + inversion Hn; subst. destruct H as [H|H]; [left; congruence|now right].
    + destruct H as [H|H]; [right; now left|]. destruct (IH i f Hn H) as [H'|H']; [now left|right; now right].
Qed.

(* ------------------------------------------------------------------ the Drain loop *)

Lemma drain_loop_inv : forall (fl : list (list T)) B fuel d its res o d' its' res' o',
  length its < fuel ->
  (forall k r, lookup k its = Some r -> k < B /\ exists ev, nth_error fl k = Some ev /\ r = fetch ev) ->
  d <= B ->
  o = concat (map fetch (firstn d fl)) ->
  drain_loop fuel d its res o = (d', its', res', o') ->
  d <= d' /\ d' <= B /\ lookup d' its' = None /\
  (forall k, d' <= k -> lookup k its' = lookup k its) /\
  (forall k r, lookup k its' = Some r -> lookup k its = Some r) /\
  o' = concat (map fetch (firstn d' fl)).
Proof.
  intros fl B fuel. induction fuel as [|fuel IH]; intros d its res o d' its' res' o' Hlen Hits HdB Ho Hrun.
  - lia.
  - cbn [drain_loop] in Hrun. destruct (lookup d its) as [r|] eqn:El.
    + destruct (Hits d r El) as [HdltB [ev [Hnth Hr]]].
      pose proof (remove_key_length_lt d its r El) as Hlt.
      assert (Hits' : forall k r0, lookup k (remove_key d its) = Some r0 ->
                                   k < B /\ exists ev0, nth_error fl k = Some ev0 /\ r0 = fetch ev0).
      { intros k r0 H. rewrite lookup_remove_key in H. destruct (Nat.eqb k d); [discriminate|]. now apply Hits. }
      assert (Ho' : o ++ r = concat (map fetch (firstn (S d) fl))).
      { rewrite (firstn_snoc_nth fl d ev Hnth), map_app, concat_app. cbn. rewrite app_nil_r. congruence. }
      destruct (IH (S d) (remove_key d its) (Nat.pred res) (o ++ r) d' its' res' o') as (H1 & H2 & H3 & H4 & H5 & H6);
        try assumption; try lia.
      split; [lia|]. split; [assumption|]. split; [assumption|]. split; [|split; [|assumption]].
      * intros k Hk. rewrite (H4 k Hk), lookup_remove_key.
        destruct (Nat.eqb k d) eqn:E; [apply Nat.eqb_eq in E; lia|reflexivity].
      * intros k r0 H. apply H5 in H. rewrite lookup_remove_key in H. destruct (Nat.eqb k d); [discriminate|assumption].
    + inversion Hrun; subst. repeat split; try lia; try assumption; auto.
Qed.

(* ------------------------------------------------------------------ the invariant *)

Definition in_crit (c : pc) : bool :=
  match c with PReserve _ | PRead _ | PInc _ _ | PWrite _ _ _ => true | _ => false end.

(* what a flusher inside the critical section holds: its batch is the last one handed out, and still has no number *)
Definition crit_ok (s : rstate) (c : pc) : Prop :=
  match c with
  | PReserve ev | PRead ev => exists fl, flushed s = fl ++ [ev] /\ length fl = nextseq s
  | PInc ev seq => exists fl, flushed s = fl ++ [ev] /\ length fl = nextseq s /\ seq = nextseq s
  | PWrite ev seq r => exists fl, flushed s = fl ++ [ev] /\ length fl = nextseq s /\ seq = nextseq s /\ r = nextseq s
  | _ => True
  end.

(* a, t: program counters of the adder and of the time-out goroutine (the fields apc/tpc of s are not looked at) *)
Record InvC (a t : pc) (s : rstate) : Prop := mkInv {
  inv_lock : flock s = in_crit a || in_crit t;
  inv_excl : in_crit a && in_crit t = false;
  inv_nocrit : in_crit a = false -> in_crit t = false -> length (flushed s) = nextseq s;
  inv_a : crit_ok s a;
  inv_t : crit_ok s t;
  inv_f : forall f, In f (fetchers s) -> nth_error (flushed s) (f_seq f) = Some (f_ev f) /\ f_seq f < nextseq s;
  inv_items : forall k r, lookup k (items s) = Some r ->
                          k < nextseq s /\ exists ev, nth_error (flushed s) k = Some ev /\ r = fetch ev;
  inv_out : out s = concat (map fetch (firstn (drained s) (flushed s)));
  inv_cat : concat (flushed s) ++ batch (bt s) = added s;
  inv_dn : drained s <= nextseq s;
  inv_cover : forall k, drained s <= k < nextseq s ->
                (exists f, In f (fetchers s) /\ f_seq f = k /\ f_stage f = Fetching) \/ lookup k (items s) <> None;
  inv_pend : lookup (drained s) (items s) <> None -> exists f, In f (fetchers s) /\ f_stage f = Added
}.

Definition Inv (s : rstate) : Prop := InvC (apc s) (tpc s) s.

Lemma InvC_sym : forall a t s, InvC a t s -> InvC t a s.
Proof.
  intros a t s [H1 H2 H3 H4 H5 H6 H7 H8 H9 H10 H11 H12]. constructor; try assumption.
  - now rewrite orb_comm.
  - now rewrite andb_comm.
  - intros; now apply H3.
Qed.

Lemma Inv_init : forall sc, Inv (r_init sc).
Proof.
  intros sc. constructor; cbn; try reflexivity; try exact I; try lia;
    intros; try discriminate; try contradiction; try lia.
Qed.

Lemma crit_ok_ext : forall s s' c, flushed s' = flushed s -> nextseq s' = nextseq s -> crit_ok s c -> crit_ok s' c.
Proof. intros s s' c Hf Hn H. destruct c; cbn in *; try exact I; rewrite Hf, Hn; exact H. Qed.

Lemma crit_ok_nocrit : forall s c, in_crit c = false -> crit_ok s c.
Proof. intros s c H. destruct c; cbn in *; try exact I; discriminate. Qed.

(* ------------------------------------------------------------------ one step of flush() by either flusher *)

Lemma flush_step_inv : forall c o s c' s',
  InvC c o s -> flush_step p c s = Some (c', s') -> InvC c' o s'.
Proof.
  intros c o s c' s' [Hlock Hexcl Hnc Ha Ht Hf Hit Hout Hcat Hdn Hcov Hpend] Hstep.
  destruct c as [| | |ev|ev|ev seq|ev seq r]; cbn [flush_step] in Hstep; try discriminate.
  - (* PFlush *)
    rewrite Hfixed in Hstep. cbn [andb] in Hstep. destruct (flock s) eqn:Hfl; [discriminate|].
    cbn [in_crit orb] in Hlock. symmetry in Hlock.
    destruct (is_nil (fst (b_flush current_batch (bt s)))) eqn:Hnil; inversion Hstep; subst; clear Hstep.
    + constructor; cbn [in_crit orb andb]; try assumption; try exact I.
      all: try (rewrite Hfl, Hlock; reflexivity).
    + assert (Hlen : length (flushed s) = nextseq s) by (apply Hnc; [reflexivity|assumption]).
      constructor; cbn [in_crit orb andb flock flushed nextseq fetchers items out drained bt added]; try assumption.
      * reflexivity.
      * intros H; discriminate.
      * cbn [crit_ok flushed nextseq]. exists (flushed s). split; [reflexivity|assumption].
      * apply crit_ok_nocrit. assumption.
      * intros f Hin. destruct (Hf f Hin) as [H1 H2]. split; [now apply nth_error_app_l|assumption].
      * intros k r Hl. destruct (Hit k r Hl) as [H1 [ev [H2 H3]]]. split; [assumption|].
        exists ev. split; [now apply nth_error_app_l|assumption].
      * rewrite firstn_app_le by lia. assumption.
      * rewrite concat_app. cbn [concat]. rewrite app_nil_r, <- app_assoc, b_flush_split. assumption.
  - (* PReserve *)
    destruct (Nat.ltb (reserved s) (max_items p)); inversion Hstep; subst; clear Hstep.
    constructor; cbn [in_crit]; assumption.
  - (* PRead *)
    inversion Hstep; subst; clear Hstep.
    constructor; cbn [in_crit] in *; try assumption.
    cbn [crit_ok] in *. destruct Ha as [fl [H1 H2]]. exists fl. repeat split; assumption.
  - (* PInc *)
    inversion Hstep; subst; clear Hstep.
    constructor; cbn [in_crit] in *; try assumption.
    cbn [crit_ok] in *. destruct Ha as [fl [H1 [H2 H3]]]. exists fl. repeat split; assumption.
  - (* PWrite *)
    inversion Hstep; subst; clear Hstep.
    cbn [in_crit orb andb] in *. cbn [crit_ok] in Ha. destruct Ha as [fl [Hfl [Hlen [Hseq Hr]]]]. subst seq r.
    assert (Ho : in_crit o = false) by (destruct (in_crit o); [discriminate|reflexivity]).
    constructor; cbn [in_crit orb andb flock flushed nextseq fetchers items out drained bt added]; try assumption.
    + now rewrite Ho.
    + reflexivity.
    + intros _ _. rewrite Hfl, app_length. cbn. lia.
    + exact I.
    + apply crit_ok_nocrit. assumption.
    + intros f Hin. apply in_app_or in Hin. destruct Hin as [Hin|[Hin|[]]].
      * destruct (Hf f Hin) as [H1 H2]. split; [assumption|lia].
      * subst f. cbn [f_seq f_ev]. split; [|lia]. rewrite Hfl, <- Hlen, nth_error_app2, Nat.sub_diag by lia. reflexivity.
    + intros k r Hl. destruct (Hit k r Hl) as [H1 H2]. split; [lia|assumption].
    + lia.
    + intros k Hk. destruct (Nat.eq_dec k (nextseq s)) as [E|E].
      * left. exists (mkF (nextseq s) ev Fetching). split; [apply in_or_app; right; now left|]. split; [now subst|reflexivity].
      * destruct (Hcov k) as [[f [H1 H2]]|H]; [lia| |right; assumption].
        left. exists f. split; [apply in_or_app; now left|assumption].
    + intros H. destruct (Hpend H) as [f [H1 H2]]. exists f. split; [apply in_or_app; now left|assumption].
Qed.

Lemma flush_step_pcs : forall c (s : rstate) c' (s' : rstate), flush_step p c s = Some (c', s') -> apc s' = apc s /\ tpc s' = tpc s.
Proof.
  intros c s c' s' H. destruct c; cbn [flush_step] in H; try discriminate.
  - destruct (rp_fixed p && flock s); [discriminate|].
    destruct (is_nil (fst (b_flush current_batch (bt s)))); inversion H; subst; split; reflexivity.
  - destruct (Nat.ltb (reserved s) (max_items p)); inversion H; subst; split; reflexivity.
  - inversion H; subst; split; reflexivity.
  - inversion H; subst; split; reflexivity.
  - inversion H; subst; split; reflexivity.
Qed.

(* InvC does not look at the pc fields of the state *)
Lemma InvC_set_apc : forall a t c s, InvC a t s -> InvC a t (set_apc c s).
Proof. intros a t c s [H1 H2 H3 H4 H5 H6 H7 H8 H9 H10 H11 H12]. constructor; try assumption; destruct a, t; assumption. Qed.
Lemma InvC_set_tpc : forall a t c s, InvC a t s -> InvC a t (set_tpc c s).
Proof. intros a t c s [H1 H2 H3 H4 H5 H6 H7 H8 H9 H10 H11 H12]. constructor; try assumption; destruct a, t; assumption. Qed.
Lemma InvC_set_inflight : forall a t n s, InvC a t s -> InvC a t (set_inflight n s).
Proof. intros a t n s [H1 H2 H3 H4 H5 H6 H7 H8 H9 H10 H11 H12]. constructor; try assumption; destruct a, t; assumption. Qed.

(* the idle pcs: swapping one for another keeps the invariant *)
Lemma InvC_idle_a : forall a a' t s, in_crit a = false -> in_crit a' = false -> InvC a t s -> InvC a' t s.
Proof.
  intros a a' t s Ha Ha' [H1 H2 H3 H4 H5 H6 H7 H8 H9 H10 H11 H12]. constructor; try assumption.
  - now rewrite Ha' ; rewrite Ha in H1.
  - now rewrite Ha'.
  - intros _ Ht. apply H3; assumption.
  - now apply crit_ok_nocrit.
Qed.

(* ------------------------------------------------------------------ every action keeps the invariant *)

Lemma adder_step_inv : forall s s', Inv s -> adder_step p s = Some s' -> Inv s'.
Proof.
  unfold Inv. intros s s' HI Hstep. unfold adder_step in Hstep.
  destruct (apc s) eqn:Ea.
  - (* PIdle: next call of the script *)
    destruct (script s) as [|[x|] sc]; [discriminate| |]; inversion Hstep; subst; clear Hstep; cbn [apc tpc].
    + destruct HI as [H1 H2 H3 H4 H5 H6 H7 H8 H9 H10 H11 H12].
      constructor; cbn [in_crit flock flushed nextseq fetchers items out drained bt added] in *; try assumption;
        try exact I; try (destruct (tpc s); assumption).
      unfold b_add; cbn [batch]. rewrite app_assoc. now f_equal.
    + destruct HI as [H1 H2 H3 H4 H5 H6 H7 H8 H9 H10 H11 H12].
      constructor; cbn [in_crit flock flushed nextseq fetchers items out drained bt added] in *; try assumption;
        try exact I; try (destruct (tpc s); assumption).
  - (* PAdded *)
    inversion Hstep; subst; clear Hstep. cbn [set_apc apc tpc].
    apply InvC_set_apc. apply (InvC_idle_a PAdded); [reflexivity| |assumption].
    destruct (b_full (rp_b p) (bt s)); reflexivity.
  - destruct (flush_step p PFlush s) as [[c' s1]|] eqn:E; [|discriminate]. inversion Hstep; subst; clear Hstep.
    destruct (flush_step_pcs _ _ _ _ E) as [_ Et]. cbn [set_apc apc tpc]. rewrite Et.
    apply InvC_set_apc. now apply (flush_step_inv _ _ _ _ _ HI E).
  - destruct (flush_step p (PReserve ev) s) as [[c' s1]|] eqn:E; [|discriminate]. inversion Hstep; subst; clear Hstep.
    destruct (flush_step_pcs _ _ _ _ E) as [_ Et]. cbn [set_apc apc tpc]. rewrite Et.
    apply InvC_set_apc. now apply (flush_step_inv _ _ _ _ _ HI E).
  - destruct (flush_step p (PRead ev) s) as [[c' s1]|] eqn:E; [|discriminate]. inversion Hstep; subst; clear Hstep.
    destruct (flush_step_pcs _ _ _ _ E) as [_ Et]. cbn [set_apc apc tpc]. rewrite Et.
    apply InvC_set_apc. now apply (flush_step_inv _ _ _ _ _ HI E).
  - destruct (flush_step p (PInc ev seq) s) as [[c' s1]|] eqn:E; [|discriminate]. inversion Hstep; subst; clear Hstep.
    destruct (flush_step_pcs _ _ _ _ E) as [_ Et]. cbn [set_apc apc tpc]. rewrite Et.
    apply InvC_set_apc. now apply (flush_step_inv _ _ _ _ _ HI E).
  - destruct (flush_step p (PWrite ev seq r) s) as [[c' s1]|] eqn:E; [|discriminate]. inversion Hstep; subst; clear Hstep.
    destruct (flush_step_pcs _ _ _ _ E) as [_ Et]. cbn [set_apc apc tpc]. rewrite Et.
    apply InvC_set_apc. now apply (flush_step_inv _ _ _ _ _ HI E).
Qed.

Lemma timeout_step_inv : forall s s', Inv s -> timeout_step p s = Some s' -> Inv s'.
Proof.
  unfold Inv. intros s s' HI Hstep. unfold timeout_step in Hstep. apply InvC_sym in HI.
  destruct (tpc s) eqn:Et.
  - destruct (inflight s) as [|n]; [discriminate|]. inversion Hstep; subst; clear Hstep.
    cbn [set_tpc set_inflight apc tpc]. apply InvC_sym.
    apply (InvC_set_tpc _ _ PFlush (set_inflight n s)). apply InvC_set_inflight.
    apply (InvC_idle_a PIdle); [reflexivity|reflexivity|assumption].
  - discriminate.
  - destruct (flush_step p PFlush s) as [[c' s1]|] eqn:E; [|discriminate]. inversion Hstep; subst; clear Hstep.
    destruct (flush_step_pcs _ _ _ _ E) as [Ea _]. cbn [set_tpc apc tpc]. rewrite Ea.
    apply InvC_sym. apply InvC_set_tpc. now apply (flush_step_inv _ _ _ _ _ HI E).
  - destruct (flush_step p (PReserve ev) s) as [[c' s1]|] eqn:E; [|discriminate]. inversion Hstep; subst; clear Hstep.
    destruct (flush_step_pcs _ _ _ _ E) as [Ea _]. cbn [set_tpc apc tpc]. rewrite Ea.
    apply InvC_sym. apply InvC_set_tpc. now apply (flush_step_inv _ _ _ _ _ HI E).
  - destruct (flush_step p (PRead ev) s) as [[c' s1]|] eqn:E; [|discriminate]. inversion Hstep; subst; clear Hstep.
    destruct (flush_step_pcs _ _ _ _ E) as [Ea _]. cbn [set_tpc apc tpc]. rewrite Ea.
    apply InvC_sym. apply InvC_set_tpc. now apply (flush_step_inv _ _ _ _ _ HI E).
  - destruct (flush_step p (PInc ev seq) s) as [[c' s1]|] eqn:E; [|discriminate]. inversion Hstep; subst; clear Hstep.
    destruct (flush_step_pcs _ _ _ _ E) as [Ea _]. cbn [set_tpc apc tpc]. rewrite Ea.
    apply InvC_sym. apply InvC_set_tpc. now apply (flush_step_inv _ _ _ _ _ HI E).
  - destruct (flush_step p (PWrite ev seq r) s) as [[c' s1]|] eqn:E; [|discriminate]. inversion Hstep; subst; clear Hstep.
    destruct (flush_step_pcs _ _ _ _ E) as [Ea _]. cbn [set_tpc apc tpc]. rewrite Ea.
    apply InvC_sym. apply InvC_set_tpc. now apply (flush_step_inv _ _ _ _ _ HI E).
Qed.

Lemma timer_fire_inv : forall s s', Inv s -> timer_fire s = Some s' -> Inv s'.
Proof.
  unfold Inv, timer_fire. intros s s' HI H. destruct (armed (bt s)); [|discriminate]. inversion H; subst.
  cbn [set_inflight apc tpc]. now apply InvC_set_inflight.
Qed.

Lemma complete_step_inv : forall i s s', Inv s -> complete_step fetch i s = Some s' -> Inv s'.
Proof.
  unfold Inv, complete_step. intros i s s' HI H.
  destruct (nth_error (fetchers s) i) as [[seq ev [|]]|] eqn:En; try discriminate. inversion H; subst; clear H.
  cbn [apc tpc]. destruct HI as [H1 H2 H3 H4 H5 H6 H7 H8 H9 H10 H11 H12].
  assert (Hin : In (mkF seq ev Fetching) (fetchers s)) by (eapply nth_error_In; eassumption).
  destruct (H6 _ Hin) as [Hnth Hlt]. cbn [f_seq f_ev] in Hnth, Hlt.
  constructor; cbn [flock flushed nextseq fetchers items out drained bt added]; try assumption;
    try (destruct (apc s); assumption); try (destruct (tpc s); assumption).
  - intros f Hf. apply in_set_nth in Hf. destruct Hf as [Hf|Hf]; [subst f; cbn [f_seq f_ev]; now split|now apply H6].
  - intros k r Hl. rewrite lookup_put in Hl. destruct (Nat.eqb k seq) eqn:E.
    + apply Nat.eqb_eq in E. subst k. inversion Hl; subst. split; [assumption|]. exists ev. now split.
    + now apply H7.
  - intros k Hk. rewrite lookup_put. destruct (Nat.eqb k seq) eqn:E; [right; discriminate|].
    destruct (H11 k Hk) as [[f [Hf1 [Hf2 Hf3]]]|Hl]; [|now right].
    left. destruct (in_set_nth_keep i (mkF seq ev Added) _ _ f En Hf1) as [Hf|Hf].
    + subst f. cbn [f_seq] in Hf2. subst k. rewrite Nat.eqb_refl in E. discriminate.
    + exists f. now repeat split.
  - intros _. exists (mkF seq ev Added). split; [eapply in_set_nth_new; eassumption|reflexivity].
Qed.

Lemma drain_step_inv : forall i s s', Inv s -> drain_step i s = Some s' -> Inv s'.
Proof.
  unfold Inv, drain_step. intros i s s' HI H.
  destruct (nth_error (fetchers s) i) as [[seq ev [|]]|] eqn:En; try discriminate.
  destruct (drain_loop (S (length (items s))) (drained s) (items s) (reserved s) (out s)) as [[[d its] res] o] eqn:Ed.
  inversion H; subst; clear H. cbn [apc tpc].
  destruct HI as [H1 H2 H3 H4 H5 H6 H7 H8 H9 H10 H11 H12].
  destruct (drain_loop_inv (flushed s) (nextseq s) _ _ _ _ _ _ _ _ _ (Nat.lt_succ_diag_r _) H7 H10 H8 Ed)
    as (D1 & D2 & D3 & D4 & D5 & D6).
  constructor; cbn [flock flushed nextseq fetchers items out drained bt added]; try assumption;
    try (destruct (apc s); assumption); try (destruct (tpc s); assumption).
  - intros f Hf. apply in_del_nth in Hf. now apply H6.
  - intros k r Hl. apply D5 in Hl. now apply H7.
  - intros k Hk. rewrite (D4 k) by lia. destruct (H11 k) as [[f [Hf1 [Hf2 Hf3]]]|Hl]; [lia| |now right].
    left. destruct (in_del_nth_keep i _ _ f En Hf1) as [Hf|Hf].
    + subst f. cbn in Hf3. discriminate.
    + exists f. now repeat split.
  - intros Hc. rewrite D3 in Hc. now contradiction Hc.
Qed.

Lemma step_inv : forall a s, Inv s -> Inv (step fetch p a s).
Proof.
  intros a s HI. unfold step. destruct (step_opt fetch p a s) as [s'|] eqn:E; [|assumption].
  destruct a; cbn [step_opt] in E.
  - eapply adder_step_inv; eassumption.
  - eapply timeout_step_inv; eassumption.
  - eapply timer_fire_inv; eassumption.
  - eapply complete_step_inv; eassumption.
  - eapply drain_step_inv; eassumption.
Qed.

Lemma run_inv : forall acts s, Inv s -> Inv (run fetch p acts s).
Proof.
  intros acts. induction acts as [|a acts IH]; intros s HI; cbn [run fold_left]; [assumption|].
  apply IH. now apply step_inv.
Qed.

(* ------------------------------------------------------------------ slots of the buffer, and absence of deadlock *)

Definition past (c : pc) : nat := match c with PRead _ | PInc _ _ | PWrite _ _ _ => 1 | _ => 0 end.

(* every reserved slot belongs to a batch that has its number and is not drained yet, or to a flusher between
   `reserved <-` and `nextSeqNum++`; the time-out goroutine never calls batcher.Add *)
Definition Inv2C (a t : pc) (s : rstate) : Prop :=
  reserved s = (nextseq s - drained s) + past a + past t /\ t <> PAdded.
Definition Inv2 (s : rstate) : Prop := Inv2C (apc s) (tpc s) s.

Lemma drain_loop_res : forall fuel d its res (o : list R) d' its' res' o',
  drain_loop fuel d its res o = (d', its', res', o') ->
  d <= d' /\ (d' - d <= res -> res' + (d' - d) = res).
Proof.
  induction fuel as [|fuel IH]; intros d its res o d' its' res' o' H; cbn [drain_loop] in H.
  - inversion H; subst. split; lia.
  - destruct (lookup d its) as [r|].
    + apply IH in H. destruct H as [H1 H2]. split; [lia|]. intros Hle.
      assert (Hp : d' - S d <= Nat.pred res) by lia. specialize (H2 Hp). lia.
    + inversion H; subst. split; lia.
Qed.

Lemma flush_step_inv2 : forall c o s c' s',
  InvC c o s -> reserved s = (nextseq s - drained s) + past c + past o ->
  flush_step p c s = Some (c', s') ->
  reserved s' = (nextseq s' - drained s') + past c' + past o.
Proof.
  intros c o s c' s' HI H2 Hstep. destruct HI.
  destruct c as [| | |ev|ev|ev seq|ev seq r]; cbn [flush_step] in Hstep; try discriminate.
  - destruct (rp_fixed p && flock s); [discriminate|].
    destruct (is_nil (fst (b_flush current_batch (bt s)))); inversion Hstep; subst; cbn [past reserved nextseq drained] in *; lia.
  - destruct (Nat.ltb (reserved s) (max_items p)); inversion Hstep; subst; cbn [past set_reserved reserved nextseq drained] in *. lia.
  - inversion Hstep; subst; cbn [past] in *; lia.
  - inversion Hstep; subst; cbn [past] in *; lia.
  - inversion Hstep; subst. cbn [crit_ok] in inv_a0. destruct inv_a0 as [fl [_ [_ [_ Hr]]]]. subst r.
    cbn [past reserved nextseq drained] in *. lia.
Qed.

Lemma step_inv2 : forall a s, Inv s -> Inv2 s -> Inv2 (step fetch p a s).
Proof.
  intros a s HI [Hres Hnt]. unfold step. destruct (step_opt fetch p a s) as [s'|] eqn:E; [|split; assumption].
  unfold Inv2, Inv2C. destruct a; cbn [step_opt] in E.
  - (* adder *)
    unfold adder_step in E. destruct (apc s) eqn:Ea.
    + destruct (script s) as [|[x|] sc]; [discriminate| |]; inversion E; subst; cbn [apc tpc reserved nextseq drained past] in *;
        split; assumption.
    + inversion E; subst. cbn [set_apc apc tpc reserved nextseq drained] in *.
      split; [|assumption]. destruct (b_full (rp_b p) (bt s)); cbn [past] in *; assumption.
    + destruct (flush_step p PFlush s) as [[c' s1]|] eqn:F; [|discriminate]. inversion E; subst.
      destruct (flush_step_pcs _ _ _ _ F) as [_ Et]. cbn [set_apc apc tpc reserved nextseq drained]. rewrite Et.
      split; [|assumption]. unfold Inv in HI. rewrite Ea in HI. exact (flush_step_inv2 _ _ _ _ _ HI Hres F).
    + destruct (flush_step p (PReserve ev) s) as [[c' s1]|] eqn:F; [|discriminate]. inversion E; subst.
      destruct (flush_step_pcs _ _ _ _ F) as [_ Et]. cbn [set_apc apc tpc reserved nextseq drained]. rewrite Et.
      split; [|assumption]. unfold Inv in HI. rewrite Ea in HI. exact (flush_step_inv2 _ _ _ _ _ HI Hres F).
    + destruct (flush_step p (PRead ev) s) as [[c' s1]|] eqn:F; [|discriminate]. inversion E; subst.
      destruct (flush_step_pcs _ _ _ _ F) as [_ Et]. cbn [set_apc apc tpc reserved nextseq drained]. rewrite Et.
      split; [|assumption]. unfold Inv in HI. rewrite Ea in HI. exact (flush_step_inv2 _ _ _ _ _ HI Hres F).
    + destruct (flush_step p (PInc ev seq) s) as [[c' s1]|] eqn:F; [|discriminate]. inversion E; subst.
      destruct (flush_step_pcs _ _ _ _ F) as [_ Et]. cbn [set_apc apc tpc reserved nextseq drained]. rewrite Et.
      split; [|assumption]. unfold Inv in HI. rewrite Ea in HI. exact (flush_step_inv2 _ _ _ _ _ HI Hres F).
    + destruct (flush_step p (PWrite ev seq r) s) as [[c' s1]|] eqn:F; [|discriminate]. inversion E; subst.
      destruct (flush_step_pcs _ _ _ _ F) as [_ Et]. cbn [set_apc apc tpc reserved nextseq drained]. rewrite Et.
      split; [|assumption]. unfold Inv in HI. rewrite Ea in HI. exact (flush_step_inv2 _ _ _ _ _ HI Hres F).
  - (* time-out goroutine *)
    unfold timeout_step in E. unfold Inv in HI. apply InvC_sym in HI.
    assert (Hres' : reserved s = nextseq s - drained s + past (tpc s) + past (apc s)) by lia.
    destruct (tpc s) eqn:Et.
    + destruct (inflight s); [discriminate|]. inversion E; subst.
      cbn [set_tpc set_inflight apc tpc reserved nextseq drained past] in *. split; [assumption|discriminate].
    + discriminate.
    + destruct (flush_step p PFlush s) as [[c' s1]|] eqn:F; [|discriminate]. inversion E; subst.
      destruct (flush_step_pcs _ _ _ _ F) as [Ea _]. cbn [set_tpc apc tpc reserved nextseq drained]. rewrite Ea.
      pose proof (flush_step_inv2 _ _ _ _ _ HI Hres' F) as H. split; [lia|].
      intros ->. cbn [flush_step] in F. destruct (rp_fixed p && flock s); [discriminate|].
      destruct (is_nil (fst (b_flush current_batch (bt s)))); inversion F.
    + destruct (flush_step p (PReserve ev) s) as [[c' s1]|] eqn:F; [|discriminate]. inversion E; subst.
      destruct (flush_step_pcs _ _ _ _ F) as [Ea _]. cbn [set_tpc apc tpc reserved nextseq drained]. rewrite Ea.
      pose proof (flush_step_inv2 _ _ _ _ _ HI Hres' F) as H. split; [lia|].
      intros ->. cbn [flush_step] in F. destruct (Nat.ltb (reserved s) (max_items p)); inversion F.
    + destruct (flush_step p (PRead ev) s) as [[c' s1]|] eqn:F; [|discriminate]. inversion E; subst.
      destruct (flush_step_pcs _ _ _ _ F) as [Ea _]. cbn [set_tpc apc tpc reserved nextseq drained]. rewrite Ea.
      pose proof (flush_step_inv2 _ _ _ _ _ HI Hres' F) as H. split; [lia|]. intros ->. inversion F.
    + destruct (flush_step p (PInc ev seq) s) as [[c' s1]|] eqn:F; [|discriminate]. inversion E; subst.
      destruct (flush_step_pcs _ _ _ _ F) as [Ea _]. cbn [set_tpc apc tpc reserved nextseq drained]. rewrite Ea.
      pose proof (flush_step_inv2 _ _ _ _ _ HI Hres' F) as H. split; [lia|]. intros ->. inversion F.
    + destruct (flush_step p (PWrite ev seq r) s) as [[c' s1]|] eqn:F; [|discriminate]. inversion E; subst.
      destruct (flush_step_pcs _ _ _ _ F) as [Ea _]. cbn [set_tpc apc tpc reserved nextseq drained]. rewrite Ea.
      pose proof (flush_step_inv2 _ _ _ _ _ HI Hres' F) as H. split; [lia|]. intros ->. inversion F.
  - unfold timer_fire in E. destruct (armed (bt s)); [|discriminate]. inversion E; subst.
    cbn [set_inflight apc tpc reserved nextseq drained]. split; assumption.
  - unfold complete_step in E. destruct (nth_error (fetchers s) i) as [[seq ev [|]]|]; try discriminate.
    inversion E; subst. cbn [apc tpc reserved nextseq drained]. split; assumption.
  - unfold drain_step in E. destruct (nth_error (fetchers s) i) as [[seq ev [|]]|]; try discriminate.
    destruct (drain_loop (S (length (items s))) (drained s) (items s) (reserved s) (out s)) as [[[d its] res] o] eqn:Ed.
    inversion E; subst. cbn [apc tpc reserved nextseq drained]. split; [|assumption].
    unfold Inv in HI. destruct HI.
    destruct (drain_loop_inv (flushed s) (nextseq s) _ _ _ _ _ _ _ _ _ (Nat.lt_succ_diag_r _) inv_items0 inv_dn0 inv_out0 Ed)
      as (D1 & D2 & _).
    destruct (drain_loop_res _ _ _ _ _ _ _ _ _ Ed) as [_ D3]. lia.
Qed.

Lemma Inv2_init : forall sc, Inv2 (r_init sc).
Proof. intros sc. split; cbn; [reflexivity|discriminate]. Qed.

Lemma run_inv12 : forall acts s, Inv s -> Inv2 s -> Inv (run fetch p acts s) /\ Inv2 (run fetch p acts s).
Proof.
  intros acts. induction acts as [|a acts IH]; intros s H1 H2; cbn [run fold_left]; [now split|].
  apply IH; [now apply step_inv|now apply step_inv2].
Qed.

Lemma max_items_pos : 0 < max_items p.
Proof.
  unfold max_items. destruct (N.eqb (rp_buf p) 0) eqn:E; [lia|]. apply N.eqb_neq in E. lia.
Qed.

(* a flusher that is somewhere inside flush() can always take its next step, unless it waits for the lock or for a slot *)
Lemma no_deadlock_inv : forall s, Inv s -> Inv2 s -> quiescent s = false -> exists a, step_opt fetch p a s <> None.
Proof.
  intros s HI [Hres Hnt] Hq.
  destruct (fetchers s) as [|[seq ev st] fs] eqn:Ef.
  2:{ destruct st; [exists (AComplete 0)|exists (ADrain 0)]; cbn [step_opt]; unfold complete_step, drain_step; rewrite Ef; cbn [nth_error].
      - discriminate.
      - destruct (drain_loop (S (length (items s))) (drained s) (items s) (reserved s) (out s)) as [[[d its] res] o]. discriminate. }
  unfold Inv in HI. destruct HI.
  assert (Hd : drained s = nextseq s).
  { destruct (Nat.eq_dec (drained s) (nextseq s)) as [E|E]; [assumption|exfalso].
    destruct (inv_cover0 (drained s)) as [[f [Hin _]]|Hl]; [lia| |].
    - rewrite Ef in Hin. contradiction.
    - destruct (inv_pend0 Hl) as [f [Hin _]]. rewrite Ef in Hin. contradiction. }
  assert (Hres0 : reserved s = past (apc s) + past (tpc s)) by lia.
  pose proof max_items_pos as Hmax.
  (* a thread inside the critical section can always move *)
  assert (Hcrit : forall c o, reserved s = past c + past o -> in_crit c = true -> in_crit o = false ->
                              flush_step p c s <> None).
  { intros c o Hr Hc Ho. destruct c; cbn in Hc; try discriminate; cbn [flush_step]; try discriminate.
    assert (Hpo : past o = 0) by (destruct o; cbn in *; try reflexivity; discriminate).
    cbn [past] in Hr. assert (Hlt : Nat.ltb (reserved s) (max_items p) = true) by (apply Nat.ltb_lt; lia).
    rewrite Hlt. discriminate. }
  destruct (in_crit (apc s)) eqn:Ca.
  - exists AAdder. cbn [step_opt]. unfold adder_step.
    assert (Ct : in_crit (tpc s) = false) by exact inv_excl0.
    specialize (Hcrit (apc s) (tpc s) Hres0 Ca Ct).
    destruct (apc s); cbn in Ca; try discriminate; destruct (flush_step p _ s) as [[c' s1]|]; try discriminate; now contradiction Hcrit.
  - destruct (in_crit (tpc s)) eqn:Ct.
    + exists ATimeout. cbn [step_opt]. unfold timeout_step.
      assert (Hres1 : reserved s = past (tpc s) + past (apc s)) by lia.
      specialize (Hcrit (tpc s) (apc s) Hres1 Ct Ca).
      destruct (tpc s); cbn in Ct; try discriminate; destruct (flush_step p _ s) as [[c' s1]|]; try discriminate; now contradiction Hcrit.
    + (* nobody holds the lock *)
      assert (Hfl : flock s = false) by exact inv_lock0.
      destruct (apc s) eqn:Ea; cbn in Ca; try discriminate.
      * (* adder idle *)
        destruct (script s) as [|o sc] eqn:Es.
        -- destruct (tpc s) eqn:Et; cbn in Ct; try discriminate.
           ++ unfold quiescent in Hq. rewrite Es, Ea, Et, Ef in Hq. discriminate.
           ++ now contradiction Hnt.
           ++ exists ATimeout. cbn [step_opt]. unfold timeout_step. rewrite Et. cbn [flush_step]. rewrite Hfl, andb_false_r.
              destruct (is_nil (fst (b_flush current_batch (bt s)))); discriminate.
        -- exists AAdder. cbn [step_opt]. unfold adder_step. rewrite Ea, Es. destruct o; discriminate.
      * exists AAdder. cbn [step_opt]. unfold adder_step. rewrite Ea. discriminate.
      * exists AAdder. cbn [step_opt]. unfold adder_step. rewrite Ea. cbn [flush_step]. rewrite Hfl, andb_false_r.
        destruct (is_nil (fst (b_flush current_batch (bt s)))); discriminate.
Qed.

Theorem reorder_no_deadlock_proof : forall (sc : list (aop T)) (acts : list action),
  let s := run fetch p acts (r_init sc) in
  quiescent s = false -> exists a, step_opt fetch p a s <> None.
Proof.
  intros sc acts s. destruct (run_inv12 acts (r_init sc) (Inv_init sc) (Inv2_init sc)) as [H1 H2].
  now apply no_deadlock_inv.
Qed.

(* ------------------------------------------------------------------ consequences of the invariant *)

Definition prefix {A} (a b : list A) : Prop := exists c, b = a ++ c.

Lemma inv_prefix : forall s, Inv s -> prefix (out s) (concat (map fetch (flushed s))).
Proof.
  intros s HI. destruct HI. exists (concat (map fetch (skipn (drained s) (flushed s)))).
  rewrite inv_out0, <- concat_app, <- map_app, firstn_skipn. reflexivity.
Qed.

Lemma inv_quiescent : forall s, Inv s -> quiescent s = true -> out s = concat (map fetch (flushed s)).
Proof.
  intros s HI Hq. unfold quiescent in Hq.
  apply andb_prop in Hq. destruct Hq as [Hq Hf]. apply andb_prop in Hq. destruct Hq as [Hq Ht].
  apply andb_prop in Hq. destruct Hq as [_ Ha].
  destruct (apc s) eqn:Ea; try discriminate. destruct (tpc s) eqn:Et; try discriminate.
  apply is_nil_true in Hf.
  unfold Inv in HI. rewrite Ea, Et in HI. destruct HI.
  assert (Hlen : length (flushed s) = nextseq s) by (apply inv_nocrit0; reflexivity).
  assert (Hd : drained s = nextseq s).
  { destruct (Nat.eq_dec (drained s) (nextseq s)) as [E|E]; [assumption|exfalso].
    destruct (inv_cover0 (drained s)) as [[f [Hin _]]|Hl]; [lia| |].
    - rewrite Hf in Hin. contradiction.
    - destruct (inv_pend0 Hl) as [f [Hin _]]. rewrite Hf in Hin. contradiction. }
  rewrite inv_out0, Hd, <- Hlen, firstn_all. reflexivity.
Qed.

(* ------------------------------------------------------------------ reorder_in_order *)

Theorem reorder_in_order_proof : forall (sc : list (aop T)) (acts : list action),
  let s := run fetch p acts (r_init sc) in
  concat (flushed s) ++ batch (bt s) = added s /\
  prefix (out s) (concat (map fetch (flushed s))) /\
  (quiescent s = true -> out s = concat (map fetch (flushed s))).
Proof.
  intros sc acts s. assert (HI : Inv s) by (apply run_inv, Inv_init).
  split; [destruct HI; assumption|]. split; [now apply inv_prefix|now apply inv_quiescent].
Qed.

End ReorderProofs.

(* ------------------------------------------------------------------ per-item fetches, and the code before the repair *)

Section Itemwise.
Context {T R : Type}.
Variable f : T -> R.
Variable p : rparams.
Hypothesis Hfixed : rp_fixed p = true.

Lemma concat_map_map : forall (l : list (list T)), concat (map (map f) l) = map f (concat l).
Proof. intros l. induction l as [|x l IH]; cbn; [reflexivity|]. now rewrite map_app, IH. Qed.

(* one result per input, in input order *)
Theorem reorder_itemwise_proof : forall (sc : list (aop T)) (acts : list action),
  let s := run (map f) p acts (r_init sc) in
  prefix (out s) (map f (added s)) /\
  (quiescent s = true -> batch (bt s) = [] -> out s = map f (added s)).
Proof.
  intros sc acts s.
  destruct (reorder_in_order_proof (map f) p Hfixed sc acts) as [Hcat [Hpre Hq]]. fold s in Hcat, Hpre, Hq.
  rewrite concat_map_map in Hpre, Hq. split.
  - destruct Hpre as [c Hc]. exists (c ++ map f (batch (bt s))).
    rewrite <- Hcat, map_app, Hc, <- app_assoc. reflexivity.
  - intros H1 H2. rewrite (Hq H1), <- Hcat, H2, app_nil_r. reflexivity.
Qed.
End Itemwise.

Lemma prefix_is_prefix_of : forall (a b : list N), prefix a b -> is_prefix_of N.eqb a b = true.
Proof.
  intros a. induction a as [|x a IH]; intros b [c Hc]; cbn; [reflexivity|].
  subst b. cbn. rewrite N.eqb_refl. cbn. apply IH. now exists c.
Qed.

(* The code before commit 71bc8cf (rp_fixed = false), maximum batch size 2, time-out armed, 4 buffer slots, identity fetch.
   (i) the time-out flusher takes batch [1] and is overtaken between Flush and Reserve by the adder's batch [2;3]. *)
Definition old_params : rparams := mkRP (mkBP 2 true) 4 false.
Definition old_script : list (aop N) := [AddOp 1%N; AddOp 2%N; AddOp 3%N].
Definition old_swap_schedule : list action :=
  [AAdder; AAdder; ATimerFire; ATimeout; ATimeout;                 (* add 1; timer; time-out flusher: Flush -> [1], at the hook point *)
   AAdder; AAdder; AAdder; AAdder; AAdder; AAdder; AAdder; AAdder; AAdder;  (* add 2; add 3; full: Flush -> [2;3]; Reserve -> seq 0; go *)
   ATimeout; ATimeout; ATimeout; ATimeout;                          (* time-out flusher: Reserve -> seq 1; go *)
   AComplete 0; ADrain 0].                                          (* the fetch of [2;3] completes: emitted first *)

Definition old_swap_state : rstate N N :=
  Eval vm_compute in run (fun l : list N => l) old_params old_swap_schedule (r_init old_script).
Lemma old_swap_run : run (fun l : list N => l) old_params old_swap_schedule (r_init old_script) = old_swap_state.
Proof. vm_compute. reflexivity. Qed.
Lemma old_code_swaps : flushed old_swap_state = [[1%N]; [2%N; 3%N]] /\ out old_swap_state = [2%N; 3%N].
Proof. split; reflexivity. Qed.
Lemma old_swap_not_prefix : ~ prefix (out old_swap_state) (concat (map (fun l : list N => l) (flushed old_swap_state))).
Proof. intros H. apply prefix_is_prefix_of in H. vm_compute in H. discriminate H. Qed.

(* (ii) both flushers read the same nextSeqNum: two batches get number 0, one result overwrites the other in the map and
   the fetcher comes to rest having emitted [1] only: items 2 and 3 are lost. *)
Definition old_dup_schedule : list action :=
  [AAdder; AAdder; ATimerFire; ATimeout; ATimeout; ATimeout; ATimeout;     (* time-out flusher: Flush -> [1]; Reserve; seq := 0 *)
   AAdder; AAdder; AAdder; AAdder; AAdder; AAdder; AAdder; AAdder; AAdder;  (* adder: Flush -> [2;3]; Reserve; seq := 0; nextSeqNum = 1; go *)
   ATimeout; ATimeout;                                              (* time-out flusher: nextSeqNum = 2; go with seq 0 *)
   AComplete 0; AComplete 1; ADrain 0; ADrain 0].

Definition old_dup_state : rstate N N :=
  Eval vm_compute in run (map (fun x : N => x)) old_params old_dup_schedule (r_init old_script).
Lemma old_dup_run : run (map (fun x : N => x)) old_params old_dup_schedule (r_init old_script) = old_dup_state.
Proof. vm_compute. reflexivity. Qed.
Lemma old_code_loses :
  quiescent old_dup_state = true /\ batch (bt old_dup_state) = [] /\
  out old_dup_state <> map (fun x : N => x) (added old_dup_state).
Proof. split; [reflexivity|]. split; [reflexivity|]. vm_compute. intros H. discriminate H. Qed.
Lemma old_code_loses_values : added old_dup_state = [1%N; 2%N; 3%N] /\ out old_dup_state = [1%N].
Proof. split; reflexivity. Qed.

(* ------------------------------------------------------------------ fetch errors: every failed batch reports exactly once *)
From Coq Require Import Permutation.

Section ErrorProofs.
Context {T R : Type}.
Variable fetchx : list T -> outcome R.
Variable p : rparams.

Notation rstate := (rstate T R).
Notation pc := (pc T).
Notation fetch := (fetch_of fetchx).

Definition fetching (fs : list (fetcher T)) : list (list T) :=
  flat_map (fun f => match f_stage f with Fetching => [f_ev f] | Added => [] end) fs.
Definition crit_ev (c : pc) : list (list T) :=
  match c with PReserve ev | PRead ev | PInc ev _ | PWrite ev _ _ => [ev] | _ => [] end.

(* every batch handed out is: completed, or being fetched, or with a flusher that has not started its fetch yet *)
Definition PInvC (a t : pc) (s : rstate) (done : list (list T)) : Prop :=
  Permutation (flushed s) (done ++ fetching (fetchers s) ++ crit_ev a ++ crit_ev t).

Lemma perm_add : forall {A} (fl D F O : list A) ev,
  Permutation fl (D ++ F ++ O) -> Permutation (fl ++ [ev]) (D ++ F ++ [ev] ++ O).
Proof.
  intros A fl D F O ev H. apply Permutation_trans with (ev :: fl).
  - apply Permutation_sym, Permutation_cons_append.
  - rewrite (app_assoc D F). cbn [app]. apply Permutation_cons_app. rewrite <- app_assoc. exact H.
Qed.

Lemma perm_move : forall {A} (D F1 F2 C : list A) ev,
  Permutation (D ++ (F1 ++ ev :: F2) ++ C) ((D ++ [ev]) ++ (F1 ++ F2) ++ C).
Proof.
  intros A D F1 F2 C ev. rewrite <- (app_assoc D [ev]). apply Permutation_app_head.
  cbn [app]. rewrite <- !app_assoc. cbn [app]. apply Permutation_sym, Permutation_middle.
Qed.

Lemma fetching_app : forall fs fs', fetching (fs ++ fs') = fetching fs ++ fetching fs'.
Proof. intros. unfold fetching. apply flat_map_app. Qed.

Lemma fetching_set_nth : forall i fs seq ev,
  nth_error fs i = Some (mkF seq ev Fetching) ->
  exists F1 F2, fetching fs = F1 ++ ev :: F2 /\ fetching (set_nth i (mkF seq ev Added) fs) = F1 ++ F2.
Proof.
  intros i fs. revert i. induction fs as [|f fs IH]; intros i seq ev H; destruct i as [|i]; cbn in H; try discriminate.
  - inversion H; subst. exists [], (fetching fs). split; reflexivity.
  - destruct (IH i seq ev H) as [F1 [F2 [E1 E2]]].
    exists (match f_stage f with Fetching => [f_ev f] | Added => [] end ++ F1), F2.
    cbn [set_nth]. unfold fetching in *. cbn [flat_map]. rewrite E1, E2, <- !app_assoc. split; reflexivity.
Qed.

Lemma fetching_del_nth : forall i fs seq ev,
  nth_error fs i = Some (mkF seq ev Added) -> fetching (del_nth i fs) = fetching fs.
Proof.
  intros i fs. revert i. induction fs as [|f fs IH]; intros i seq ev H; destruct i as [|i]; cbn in H; try discriminate.
  - inversion H; subst. reflexivity.
  - cbn [del_nth]. unfold fetching in *. cbn [flat_map]. now rewrite (IH i seq ev H).
Qed.

Lemma flush_step_perm : forall c (s : rstate) c' (s' : rstate) D O,
  Permutation (flushed s) (D ++ fetching (fetchers s) ++ crit_ev c ++ O) ->
  flush_step p c s = Some (c', s') ->
  Permutation (flushed s') (D ++ fetching (fetchers s') ++ crit_ev c' ++ O).
Proof.
  intros c s c' s' D O H Hstep.
  destruct c as [| | |ev|ev|ev seq|ev seq r]; cbn [flush_step] in Hstep; try discriminate.
  - destruct (rp_fixed p && flock s); [discriminate|].
    destruct (is_nil (fst (b_flush current_batch (bt s)))); inversion Hstep; subst; clear Hstep.
    + exact H.
    + cbn [flushed fetchers crit_ev] in *. apply perm_add. exact H.
  - destruct (Nat.ltb (reserved s) (max_items p)); inversion Hstep; subst. exact H.
  - inversion Hstep; subst. exact H.
  - inversion Hstep; subst. exact H.
  - inversion Hstep; subst. cbn [flushed fetchers crit_ev app] in *.
    rewrite fetching_app. cbn [fetching flat_map f_stage f_ev app]. rewrite <- app_assoc. exact H.
Qed.

Lemma perm_swap_tail : forall {A} (fl X a b : list A), Permutation fl (X ++ a ++ b) -> Permutation fl (X ++ b ++ a).
Proof. intros A fl X a b H. eapply Permutation_trans; [exact H|]. apply Permutation_app_head, Permutation_app_comm. Qed.

Lemma step_perm : forall a (s : rstate) done,
  PInvC (apc s) (tpc s) s done ->
  PInvC (apc (step fetch p a s)) (tpc (step fetch p a s)) (step fetch p a s)
        (done ++ match a with AComplete i => completing i s | _ => [] end).
Proof.
  unfold PInvC. intros a s done H. unfold step.
  destruct a as [| | |i|i]; cbn [step_opt]; try rewrite app_nil_r.
  - (* adder *)
    unfold adder_step. destruct (apc s) eqn:Ea.
    + destruct (script s) as [|[x|] sc]; cbn [apc tpc flushed fetchers crit_ev] in *; try rewrite Ea; exact H.
    + cbn [set_apc apc tpc flushed fetchers]. destruct (b_full (rp_b p) (bt s)); exact H.
    + destruct (flush_step p PFlush s) as [[c' s1]|] eqn:F; [|rewrite Ea; exact H].
      destruct (flush_step_pcs p _ _ _ _ F) as [_ Et]. cbn [set_apc apc tpc flushed fetchers]. rewrite Et.
      exact (flush_step_perm _ _ _ _ _ _ H F).
    + destruct (flush_step p (PReserve ev) s) as [[c' s1]|] eqn:F; [|rewrite Ea; exact H].
      destruct (flush_step_pcs p _ _ _ _ F) as [_ Et]. cbn [set_apc apc tpc flushed fetchers]. rewrite Et.
      exact (flush_step_perm _ _ _ _ _ _ H F).
    + destruct (flush_step p (PRead ev) s) as [[c' s1]|] eqn:F; [|rewrite Ea; exact H].
      destruct (flush_step_pcs p _ _ _ _ F) as [_ Et]. cbn [set_apc apc tpc flushed fetchers]. rewrite Et.
      exact (flush_step_perm _ _ _ _ _ _ H F).
    + destruct (flush_step p (PInc ev seq) s) as [[c' s1]|] eqn:F; [|rewrite Ea; exact H].
      destruct (flush_step_pcs p _ _ _ _ F) as [_ Et]. cbn [set_apc apc tpc flushed fetchers]. rewrite Et.
      exact (flush_step_perm _ _ _ _ _ _ H F).
    + destruct (flush_step p (PWrite ev seq r) s) as [[c' s1]|] eqn:F; [|rewrite Ea; exact H].
      destruct (flush_step_pcs p _ _ _ _ F) as [_ Et]. cbn [set_apc apc tpc flushed fetchers]. rewrite Et.
      exact (flush_step_perm _ _ _ _ _ _ H F).
  - (* time-out goroutine: the same with the two flushers exchanged *)
    unfold timeout_step. destruct (tpc s) eqn:Et.
    + destruct (inflight s); [rewrite Et; exact H|]. cbn [set_tpc set_inflight apc tpc flushed fetchers crit_ev] in *. exact H.
    + rewrite Et. exact H.
    + destruct (flush_step p PFlush s) as [[c' s1]|] eqn:F; [|rewrite Et; exact H].
      destruct (flush_step_pcs p _ _ _ _ F) as [Ea _]. cbn [set_tpc apc tpc flushed fetchers]. rewrite Ea.
      rewrite app_assoc in H |- *. apply perm_swap_tail. apply perm_swap_tail in H. rewrite <- app_assoc in H |- *.
      exact (flush_step_perm _ _ _ _ _ _ H F).
    + destruct (flush_step p (PReserve ev) s) as [[c' s1]|] eqn:F; [|rewrite Et; exact H].
      destruct (flush_step_pcs p _ _ _ _ F) as [Ea _]. cbn [set_tpc apc tpc flushed fetchers]. rewrite Ea.
      rewrite app_assoc in H |- *. apply perm_swap_tail. apply perm_swap_tail in H. rewrite <- app_assoc in H |- *.
      exact (flush_step_perm _ _ _ _ _ _ H F).
    + destruct (flush_step p (PRead ev) s) as [[c' s1]|] eqn:F; [|rewrite Et; exact H].
      destruct (flush_step_pcs p _ _ _ _ F) as [Ea _]. cbn [set_tpc apc tpc flushed fetchers]. rewrite Ea.
      rewrite app_assoc in H |- *. apply perm_swap_tail. apply perm_swap_tail in H. rewrite <- app_assoc in H |- *.
      exact (flush_step_perm _ _ _ _ _ _ H F).
    + destruct (flush_step p (PInc ev seq) s) as [[c' s1]|] eqn:F; [|rewrite Et; exact H].
      destruct (flush_step_pcs p _ _ _ _ F) as [Ea _]. cbn [set_tpc apc tpc flushed fetchers]. rewrite Ea.
      rewrite app_assoc in H |- *. apply perm_swap_tail. apply perm_swap_tail in H. rewrite <- app_assoc in H |- *.
      exact (flush_step_perm _ _ _ _ _ _ H F).
    + destruct (flush_step p (PWrite ev seq r) s) as [[c' s1]|] eqn:F; [|rewrite Et; exact H].
      destruct (flush_step_pcs p _ _ _ _ F) as [Ea _]. cbn [set_tpc apc tpc flushed fetchers]. rewrite Ea.
      rewrite app_assoc in H |- *. apply perm_swap_tail. apply perm_swap_tail in H. rewrite <- app_assoc in H |- *.
      exact (flush_step_perm _ _ _ _ _ _ H F).
  - unfold timer_fire. destruct (armed (bt s)); exact H.
  - (* a fetch completes *)
    unfold complete_step, completing.
    destruct (nth_error (fetchers s) i) as [[seq ev [|]]|] eqn:En; try (rewrite app_nil_r; exact H).
    cbn [apc tpc flushed fetchers].
    destruct (fetching_set_nth i _ seq ev En) as [F1 [F2 [E1 E2]]]. rewrite E2. rewrite E1 in H.
    eapply Permutation_trans; [exact H|]. apply perm_move.
  - unfold drain_step. destruct (nth_error (fetchers s) i) as [[seq ev [|]]|] eqn:En; try exact H.
    destruct (drain_loop (S (length (items s))) (drained s) (items s) (reserved s) (out s)) as [[[d its] res] o].
    cbn [apc tpc flushed fetchers]. rewrite (fetching_del_nth i _ seq ev En). exact H.
Qed.

Definition XInv (xs : rxstate T R) : Prop := PInvC (apc (rx xs)) (tpc (rx xs)) (rx xs) (x_done xs).

Lemma x_run_inv : forall acts xs, XInv xs -> XInv (x_run fetchx p acts xs).
Proof.
  intros acts. induction acts as [|a acts IH]; intros xs H; cbn [x_run fold_left]; [assumption|].
  apply IH. unfold XInv, x_step. cbn [rx x_done]. now apply step_perm.
Qed.

Lemma x_run_rx : forall acts xs, rx (x_run fetchx p acts xs) = run fetch p acts (rx xs).
Proof.
  intros acts. induction acts as [|a acts IH]; intros xs; cbn [x_run run fold_left]; [reflexivity|].
  unfold x_run, run in IH. rewrite IH. reflexivity.
Qed.

Lemma Permutation_filter : forall {A} (f : A -> bool) (l l' : list A), Permutation l l' -> Permutation (filter f l) (filter f l').
Proof.
  intros A f l l' H. induction H; cbn [filter].
  - constructor.
  - destruct (f x); [now constructor|assumption].
  - destruct (f x), (f y); try apply Permutation_refl; apply perm_swap.
  - eapply Permutation_trans; eassumption.
Qed.

(* with fetch errors: output as before (the result of a failed batch is what FetchBatch returned with the error: its slot is filled,
   later batches are not held up); every error reported belongs to a failed batch handed out; at quiescence every failed batch has
   reported exactly once *)
Theorem reorder_fetch_errors_proof : rp_fixed p = true -> forall (sc : list (aop T)) (acts : list action),
  let xs := x_run fetchx p acts (x_init sc) in
  let s := rx xs in
  concat (flushed s) ++ batch (bt s) = added s /\
  prefix (out s) (concat (map fetch (flushed s))) /\
  (forall ev, In ev (x_errs fetchx xs) -> failed fetchx ev = true /\ In ev (flushed s)) /\
  (quiescent s = true ->
     out s = concat (map fetch (flushed s)) /\
     Permutation (x_errs fetchx xs) (filter (failed fetchx) (flushed s))).
Proof.
  intros Hfixed sc acts xs s.
  assert (Es : s = run fetch p acts (r_init sc)) by (unfold s, xs; now rewrite x_run_rx).
  destruct (reorder_in_order_proof fetch p Hfixed sc acts) as [H1 [H2 H3]]. rewrite <- Es in H1, H2, H3.
  assert (HX : XInv xs).
  { apply x_run_inv. unfold XInv, PInvC. cbn. constructor. }
  unfold XInv, PInvC in HX. fold s in HX.
  split; [assumption|]. split; [assumption|]. split.
  - intros ev Hin. unfold x_errs in Hin. apply filter_In in Hin. destruct Hin as [Hin Hf]. split; [assumption|].
    eapply Permutation_in; [apply Permutation_sym; exact HX|]. apply in_or_app. now left.
  - intros Hq. split; [now apply H3|].
    unfold quiescent in Hq.
    apply andb_prop in Hq. destruct Hq as [Hq Hf]. apply andb_prop in Hq. destruct Hq as [Hq Ht].
    apply andb_prop in Hq. destruct Hq as [_ Ha].
    destruct (apc s) eqn:Ea; try discriminate. destruct (tpc s) eqn:Et; try discriminate.
    apply is_nil_true in Hf. rewrite Hf in HX. cbn in HX. rewrite app_nil_r in HX.
    unfold x_errs. apply Permutation_sym. now apply Permutation_filter.
Qed.

End ErrorProofs.

(* ------------------------------------------------------------------ per-call contexts: a ghost that never drops a batch *)
Section ContextProofs.
Context {T R : Type}.
Variable fetch : list T -> list R.
Variable p : rparams.
Notation rstate := (rstate T R).

Lemma flush_step_flushed : forall c (s : rstate) c' (s' : rstate),
  flush_step p c s = Some (c', s') -> flushed s' = flushed s \/ exists ev, flushed s' = flushed s ++ [ev].
Proof.
  intros c s c' s' H. destruct c; cbn [flush_step] in H; try discriminate.
  - destruct (rp_fixed p && flock s); [discriminate|].
    destruct (is_nil (fst (b_flush current_batch (bt s)))); inversion H; subst; [now left|right; eexists; reflexivity].
  - destruct (Nat.ltb (reserved s) (max_items p)); inversion H; subst; now left.
  - inversion H; subst; now left.
  - inversion H; subst; now left.
  - inversion H; subst; now left.
Qed.

Lemma step_flushed : forall a (s : rstate),
  flushed (step fetch p a s) = flushed s \/ exists ev, flushed (step fetch p a s) = flushed s ++ [ev].
Proof.
  intros a s. unfold step. destruct (step_opt fetch p a s) as [s'|] eqn:E; [|now left].
  destruct a; cbn [step_opt] in E.
  - unfold adder_step in E. destruct (apc s).
    + destruct (script s) as [|[x|] sc]; inversion E; subst; now left.
    + inversion E; subst; now left.
    + destruct (flush_step p PFlush s) as [[c' s1]|] eqn:F; inversion E; subst. exact (flush_step_flushed _ _ _ _ F).
    + destruct (flush_step p (PReserve ev) s) as [[c' s1]|] eqn:F; inversion E; subst. exact (flush_step_flushed _ _ _ _ F).
    + destruct (flush_step p (PRead ev) s) as [[c' s1]|] eqn:F; inversion E; subst. exact (flush_step_flushed _ _ _ _ F).
    + destruct (flush_step p (PInc ev seq) s) as [[c' s1]|] eqn:F; inversion E; subst. exact (flush_step_flushed _ _ _ _ F).
    + destruct (flush_step p (PWrite ev seq r) s) as [[c' s1]|] eqn:F; inversion E; subst. exact (flush_step_flushed _ _ _ _ F).
  - unfold timeout_step in E. destruct (tpc s).
    + destruct (inflight s); inversion E; subst; now left.
    + discriminate.
    + destruct (flush_step p PFlush s) as [[c' s1]|] eqn:F; inversion E; subst. exact (flush_step_flushed _ _ _ _ F).
    + destruct (flush_step p (PReserve ev) s) as [[c' s1]|] eqn:F; inversion E; subst. exact (flush_step_flushed _ _ _ _ F).
    + destruct (flush_step p (PRead ev) s) as [[c' s1]|] eqn:F; inversion E; subst. exact (flush_step_flushed _ _ _ _ F).
    + destruct (flush_step p (PInc ev seq) s) as [[c' s1]|] eqn:F; inversion E; subst. exact (flush_step_flushed _ _ _ _ F).
    + destruct (flush_step p (PWrite ev seq r) s) as [[c' s1]|] eqn:F; inversion E; subst. exact (flush_step_flushed _ _ _ _ F).
  - unfold timer_fire in E. destruct (armed (bt s)); inversion E; subst; now left.
  - unfold complete_step in E. destruct (nth_error (fetchers s) i) as [[seq ev [|]]|]; inversion E; subst; now left.
  - unfold drain_step in E. destruct (nth_error (fetchers s) i) as [[seq ev [|]]|]; try discriminate.
    destruct (drain_loop (S (length (items s))) (drained s) (items s) (reserved s) (out s)) as [[[d its] res] o].
    inversion E; subst; now left.
Qed.

Lemma c_run_rc : forall acts cs, rc (c_run fetch p acts cs) = run fetch p acts (rc cs).
Proof.
  intros acts. induction acts as [|a acts IH]; intros cs; cbn [c_run run fold_left]; [reflexivity|].
  unfold c_run, run in IH. rewrite IH. reflexivity.
Qed.

(* The context of a call is never consulted: the step functions are those of the context-free model (c_run_rc), and every batch
   taken from the batcher is handed to FetchBatch with exactly one context - none is dropped because of the caller's context. *)
Theorem context_never_drops_proof : forall (sc : list (aop T * bool)) (acts : list action),
  let cs := c_run fetch p acts (c_init sc) in
  rc cs = run fetch p acts (r_init (map fst sc)) /\ length (c_log cs) = length (flushed (rc cs)).
Proof.
  intros sc acts cs. split; [apply c_run_rc|].
  unfold cs. generalize (@c_init T R sc) (eq_refl : length (c_log (@c_init T R sc)) = length (flushed (rc (@c_init T R sc)))).
  induction acts as [|a acts IH]; intros c0 H0; cbn [c_run fold_left]; [exact H0|].
  apply IH. unfold c_step. cbn [rc c_log]. rewrite app_length.
  destruct (step_flushed a (rc c0)) as [E|[ev E]]; rewrite E.
  - rewrite Nat.ltb_irrefl. cbn. lia.
  - rewrite app_length. cbn [length]. replace (Nat.ltb (length (flushed (rc c0))) (length (flushed (rc c0)) + 1)) with true
      by (symmetry; apply Nat.ltb_lt; lia). cbn [length]. lia.
Qed.

End ContextProofs.

(* ------------------------------------------------------------------ a served time-out flushes everything accepted before it *)
Section MarkProofs.
Context {T R : Type}.
Variable fetch : list T -> list R.
Variable p : rparams.
Hypothesis Hfixed : rp_fixed p = true.
Notation rstate := (rstate T R).

Lemma flush_step_frame : forall c (s : rstate) c' (s' : rstate),
  flush_step p c s = Some (c', s') -> inflight s' = inflight s /\ added s' = added s.
Proof.
  intros c s c' s' H. destruct c; cbn [flush_step] in H; try discriminate.
  - destruct (rp_fixed p && flock s); [discriminate|].
    destruct (is_nil (fst (b_flush current_batch (bt s)))); inversion H; subst; split; reflexivity.
  - destruct (Nat.ltb (reserved s) (max_items p)); inversion H; subst; split; reflexivity.
  - inversion H; subst; split; reflexivity.
  - inversion H; subst; split; reflexivity.
  - inversion H; subst; split; reflexivity.
Qed.

(* actions of the other goroutines leave the time-out goroutine and the pending expiries alone, and only ever add inputs *)
Lemma step_frame : forall a (s : rstate), a <> ATimeout -> a <> ATimerFire ->
  tpc (step fetch p a s) = tpc s /\ inflight (step fetch p a s) = inflight s /\
  length (added s) <= length (added (step fetch p a s)).
Proof.
  intros a s H1 H2. unfold step. destruct (step_opt fetch p a s) as [s'|] eqn:E; [|repeat split; lia].
  destruct a; try (now contradiction H1); try (now contradiction H2); cbn [step_opt] in E.
  - unfold adder_step in E. destruct (apc s).
    + destruct (script s) as [|[x|] sc]; inversion E; subst; cbn [tpc inflight added]; repeat split; try lia.
      rewrite app_length. cbn. lia.
    + inversion E; subst. cbn. repeat split; lia.
    + destruct (flush_step p PFlush s) as [[c' s1]|] eqn:F; inversion E; subst.
      destruct (flush_step_pcs p _ _ _ _ F) as [_ Et]. destruct (flush_step_frame _ _ _ _ F) as [Ei Ea]. cbn. rewrite Et, Ei, Ea. repeat split; lia.
    + destruct (flush_step p (PReserve ev) s) as [[c' s1]|] eqn:F; inversion E; subst.
      destruct (flush_step_pcs p _ _ _ _ F) as [_ Et]. destruct (flush_step_frame _ _ _ _ F) as [Ei Ea]. cbn. rewrite Et, Ei, Ea. repeat split; lia.
    + destruct (flush_step p (PRead ev) s) as [[c' s1]|] eqn:F; inversion E; subst.
      destruct (flush_step_pcs p _ _ _ _ F) as [_ Et]. destruct (flush_step_frame _ _ _ _ F) as [Ei Ea]. cbn. rewrite Et, Ei, Ea. repeat split; lia.
    + destruct (flush_step p (PInc ev seq) s) as [[c' s1]|] eqn:F; inversion E; subst.
      destruct (flush_step_pcs p _ _ _ _ F) as [_ Et]. destruct (flush_step_frame _ _ _ _ F) as [Ei Ea]. cbn. rewrite Et, Ei, Ea. repeat split; lia.
    + destruct (flush_step p (PWrite ev seq r) s) as [[c' s1]|] eqn:F; inversion E; subst.
      destruct (flush_step_pcs p _ _ _ _ F) as [_ Et]. destruct (flush_step_frame _ _ _ _ F) as [Ei Ea]. cbn. rewrite Et, Ei, Ea. repeat split; lia.
  - unfold complete_step in E. destruct (nth_error (fetchers s) i) as [[seq ev [|]]|]; inversion E; subst; cbn; repeat split; lia.
  - unfold drain_step in E. destruct (nth_error (fetchers s) i) as [[seq ev [|]]|]; try discriminate.
    destruct (drain_loop (S (length (items s))) (drained s) (items s) (reserved s) (out s)) as [[[d its] res] o].
    inversion E; subst; cbn; repeat split; lia.
Qed.

Lemma step_flushed_len : forall a (s : rstate),
  length (concat (flushed s)) <= length (concat (flushed (step fetch p a s))).
Proof.
  intros a s. destruct (step_flushed fetch p a s) as [E|[ev E]]; rewrite E; [lia|].
  rewrite concat_app, app_length. lia.
Qed.

(* every expiry has been served, or is still pending with the time-out goroutine *)
Definition MInv (s : rstate) (mark : nat) : Prop :=
  mark <= length (added s) /\
  (mark <= length (concat (flushed s)) \/ 0 < inflight s \/ tpc s = PFlush).

Lemma m_step_inv : forall a (ms : rmstate T R), Inv fetch (rm ms) -> MInv (rm ms) (m_mark ms) ->
  MInv (rm (m_step fetch p a ms)) (m_mark (m_step fetch p a ms)).
Proof.
  intros a [s mark] HI [Hle HJ]. cbn [rm m_mark] in *. unfold m_step. cbn [rm m_mark]. unfold MInv.
  assert (HI' : Inv fetch (step fetch p a s)) by now apply step_inv.
  pose proof (step_flushed_len a s) as Hfl.
  destruct a.
  - (* adder *)
    destruct (step_frame AAdder s) as (Et & Ei & Ea); try discriminate.
    split; [lia|]. rewrite Et, Ei. destruct HJ as [H|[H|H]]; [left; lia|right; now left|right; now right].
  - (* time-out goroutine *)
    unfold step in *. cbn [step_opt] in *. unfold timeout_step in *.
    destruct (tpc s) eqn:Et.
    + destruct (inflight s) eqn:Ei.
      * split; [assumption|]. rewrite Et, Ei. destruct HJ as [H|[H|H]]; [now left|lia|discriminate].
      * cbn [set_tpc set_inflight added flushed tpc]. split; [assumption|]. right; now right.
    + split; [assumption|]. rewrite Et. destruct HJ as [H|[H|H]]; [now left|right; now left|discriminate].
    + (* PFlush: waits while the lock is held; otherwise takes the whole batch *)
      cbn [flush_step] in *. rewrite Hfixed in *. cbn [andb] in *. destruct (flock s).
      * split; [assumption|]. right; right; assumption.
      * assert (Hb : forall s1 c', (if is_nil (fst (b_flush current_batch (bt s))) then Some (PIdle, s)
                     else Some (PReserve (fst (b_flush current_batch (bt s))),
                                mkR (snd (b_flush current_batch (bt s))) (script s) (apc s) (tpc s) (inflight s) true (reserved s)
                                    (nextseq s) (drained s) (items s) (fetchers s) (out s) (added s)
                                    (flushed s ++ [fst (b_flush current_batch (bt s))]))) = Some (c', s1) ->
                     batch (bt s1) = [] /\ added s1 = added s).
        { intros s1 c'. unfold b_flush. cbn [negb Z.eqb current_batch andb orb].
          replace ((-1 =? -1)%Z) with true by reflexivity. cbn [negb andb]. rewrite orb_false_r.
          destruct (is_nil (batch (bt s))) eqn:En; cbn [fst snd is_nil].
          - intros H; inversion H; subst. split; [now apply is_nil_true|reflexivity].
          - rewrite En. intros H; inversion H; subst. cbn. split; reflexivity. }
        destruct (if is_nil (fst (b_flush current_batch (bt s))) then _ else _) as [[c' s1]|] eqn:F.
        -- destruct (Hb s1 c' eq_refl) as [Hnil Hadd]. cbn [set_tpc added flushed tpc inflight] in *.
           destruct HI' as [_ _ _ _ _ _ _ _ Hcat _ _ _]. cbn [set_tpc added flushed bt] in Hcat.
           rewrite Hnil, app_nil_r in Hcat. unfold MInv. cbn [set_tpc added flushed tpc inflight].
           split; [rewrite Hadd; assumption|]. left. rewrite Hcat, Hadd. assumption.
        -- destruct (is_nil (fst (b_flush current_batch (bt s)))); discriminate.
    + destruct (flush_step p (PReserve ev) s) as [[c' s1]|] eqn:F.
      * destruct (flush_step_frame _ _ _ _ F) as [Ei Ea]. cbn [set_tpc added flushed tpc inflight] in *. rewrite Ea, Ei.
        split; [assumption|]. destruct HJ as [H|[H|H]]; [left; lia|right; now left|discriminate].
      * split; [assumption|]. rewrite Et. destruct HJ as [H|[H|H]]; [now left|right; now left|discriminate].
    + destruct (flush_step p (PRead ev) s) as [[c' s1]|] eqn:F.
      * destruct (flush_step_frame _ _ _ _ F) as [Ei Ea]. cbn [set_tpc added flushed tpc inflight] in *. rewrite Ea, Ei.
        split; [assumption|]. destruct HJ as [H|[H|H]]; [left; lia|right; now left|discriminate].
      * split; [assumption|]. rewrite Et. destruct HJ as [H|[H|H]]; [now left|right; now left|discriminate].
    + destruct (flush_step p (PInc ev seq) s) as [[c' s1]|] eqn:F.
      * destruct (flush_step_frame _ _ _ _ F) as [Ei Ea]. cbn [set_tpc added flushed tpc inflight] in *. rewrite Ea, Ei.
        split; [assumption|]. destruct HJ as [H|[H|H]]; [left; lia|right; now left|discriminate].
      * split; [assumption|]. rewrite Et. destruct HJ as [H|[H|H]]; [now left|right; now left|discriminate].
    + destruct (flush_step p (PWrite ev seq r) s) as [[c' s1]|] eqn:F.
      * destruct (flush_step_frame _ _ _ _ F) as [Ei Ea]. cbn [set_tpc added flushed tpc inflight] in *. rewrite Ea, Ei.
        split; [assumption|]. destruct HJ as [H|[H|H]]; [left; lia|right; now left|discriminate].
      * split; [assumption|]. rewrite Et. destruct HJ as [H|[H|H]]; [now left|right; now left|discriminate].
  - (* the timer expires *)
    unfold step. cbn [step_opt]. unfold timer_fire. destruct (armed (bt s)).
    + cbn [set_inflight added flushed inflight tpc]. split; [lia|]. right; left; lia.
    + split; [assumption|assumption].
  - destruct (step_frame (AComplete i) s) as (Et & Ei & Ea); try discriminate.
    split; [lia|]. rewrite Et, Ei. destruct HJ as [H|[H|H]]; [left; lia|right; now left|right; now right].
  - destruct (step_frame (ADrain i) s) as (Et & Ei & Ea); try discriminate.
    split; [lia|]. rewrite Et, Ei. destruct HJ as [H|[H|H]]; [left; lia|right; now left|right; now right].
Qed.

Lemma m_run_rm : forall acts ms, rm (m_run fetch p acts ms) = run fetch p acts (rm ms).
Proof.
  intros acts. induction acts as [|a acts IH]; intros ms; cbn [m_run run fold_left]; [reflexivity|].
  unfold m_run, run in IH. rewrite IH. reflexivity.
Qed.

(* No time-out is ever dropped: when the fetcher is at rest and no expiry is pending, every input accepted before the last
   expiry of the timer has been handed out in a batch (and, by reorder_in_order, its result has been emitted). *)
Lemma m_run_inv : forall acts (ms : rmstate T R), Inv fetch (rm ms) -> MInv (rm ms) (m_mark ms) ->
  Inv fetch (rm (m_run fetch p acts ms)) /\ MInv (rm (m_run fetch p acts ms)) (m_mark (m_run fetch p acts ms)).
Proof.
  intros acts. induction acts as [|a acts IH]; intros ms HI HM; cbn [m_run fold_left]; [now split|].
  apply IH.
  - unfold m_step. cbn [rm]. now apply step_inv.
  - now apply m_step_inv.
Qed.

Lemma firstn_app_le2 : forall {A} (l l' : list A) n, n <= length l -> firstn n (l ++ l') = firstn n l.
Proof. intros A l l' n H. rewrite firstn_app. replace (n - length l) with 0 by lia. cbn. apply app_nil_r. Qed.

(* No time-out is ever dropped: when the fetcher is at rest and no expiry is pending, every input accepted before the last
   expiry of the timer has been handed out in a batch (and, by reorder_in_order, its result has been emitted). *)
Theorem expired_batch_flushed_proof : forall (sc : list (aop T)) (acts : list action),
  let ms := m_run fetch p acts (m_init sc) in
  let s := rm ms in
  s = run fetch p acts (r_init sc) /\
  (quiescent s = true -> inflight s = 0 ->
     m_mark ms <= length (concat (flushed s)) /\
     firstn (m_mark ms) (added s) = firstn (m_mark ms) (concat (flushed s))).
Proof.
  intros sc acts ms s. split; [apply m_run_rm|].
  destruct (m_run_inv acts (m_init sc)) as [HI [Hle HJ]].
  - cbn. apply Inv_init.
  - split; cbn; [lia|left; lia].
  - fold ms in HI, Hle, HJ. fold s in HI, Hle, HJ. intros Hq Hi.
    assert (Hm : m_mark ms <= length (concat (flushed s))).
    { destruct HJ as [H|[H|H]]; [assumption|lia|].
      unfold quiescent in Hq. rewrite H in Hq. cbn in Hq. rewrite andb_false_r in Hq. discriminate. }
    split; [assumption|]. destruct HI as [_ _ _ _ _ _ _ _ Hcat _ _ _]. rewrite <- Hcat. now apply firstn_app_le2.
Qed.

End MarkProofs.
