(* C18: iterating Compact until it returns nil terminates (when no flush adds tables meanwhile), on a valid layout,
   and the final layout is valid with the same content. *)
From Coq Require Import List NArith Bool Lia Wf_nat.
From RV Require Import Base.Bytes Model.LsmBase Model.LsmCompaction
  Proofs.C07_Sorted Proofs.C18_Layout Proofs.C18_Apply Proofs.C18_Compact Proofs.C18_Main Proofs.C07_Refine Proofs.C07_Corollaries.
Import ListNotations.
Open Scope N_scope.

Definition upper_count (ll : levels) : nat := length (concat (removelast ll)).

Lemma add_l0_nil ll : add_l0 [] ll = ll.
Proof. destruct ll; [reflexivity|]. cbn. rewrite app_nil_r. reflexivity. Qed.

Lemma removelast_apply_from b cs ll : removelast (apply_from b cs ll) = apply_from b cs (removelast ll).
Proof.
  revert b. induction ll as [|l ll IH]; intros b; [reflexivity|]. destruct ll as [|l2 ll]; [reflexivity|].
  change (apply_from b cs (l :: l2 :: ll)) with (newlvl cs b l :: apply_from (S b) cs (l2 :: ll)).
  change (removelast (l :: l2 :: ll)) with (l :: removelast (l2 :: ll)).
  change (apply_from b cs (l :: removelast (l2 :: ll))) with (newlvl cs b l :: apply_from (S b) cs (removelast (l2 :: ll))).
  rewrite <- IH. cbn [apply_from]. reflexivity.
Qed.

Lemma apply_from_filter b cs L : (b + length L <= cs_level cs)%nat -> apply_from b cs L = map (filter (keep cs)) L.
Proof.
  revert b. induction L as [|l L IH]; intros b H; [reflexivity|]. cbn [apply_from map]. cbn in H.
  destruct (Nat.eqb b (cs_level cs)) eqn:E; [apply Nat.eqb_eq in E; lia|]. f_equal. apply IH. lia.
Qed.

Lemma filter_length_le {A} (f : A -> bool) l : (length (filter f l) <= length l)%nat.
Proof. induction l as [|x l IH]; cbn; [lia|]. destruct (f x); cbn; lia. Qed.
Lemma filter_length_lt {A} (f : A -> bool) l x : In x l -> f x = false -> (length (filter f l) < length l)%nat.
Proof.
  induction l as [|y l IH]; [intros []|]. intros [<-|Hx] Hf; cbn.
  - rewrite Hf. pose proof (filter_length_le f l). lia.
  - specialize (IH Hx Hf). destruct (f y); cbn; lia.
Qed.
Lemma concat_filter_le (f : table -> bool) (L : list (list table)) : (length (concat (map (filter f) L)) <= length (concat L))%nat.
Proof. induction L as [|l L IH]; cbn; [lia|]. rewrite !app_length. pose proof (filter_length_le f l). lia. Qed.
Lemma concat_filter_lt (f : table -> bool) (L : list (list table)) l x :
  In l L -> In x l -> f x = false -> (length (concat (map (filter f) L)) < length (concat L))%nat.
Proof.
  induction L as [|y L IH]; [intros []|]. intros [<-|Hl] Hx Hf; cbn; rewrite !app_length.
  - pose proof (filter_length_lt f _ _ Hx Hf). pose proof (concat_filter_le f L). lia.
  - specialize (IH Hl Hx Hf). pose proof (filter_length_le f y). lia.
Qed.

Section Fix.
  Variables (tsize : table -> N) (cfg : ccfg).
  Hypothesis Hcfg : good_cfg cfg.

  Lemma major_decreases ll :
    valid ll -> (exists l, In l (removelast ll) /\ l <> []) -> (upper_count (apply_cs (major tsize cfg ll) ll) < upper_count ll)%nat.
  Proof.
    intros (Hv & Hlen & Hne) Hup. unfold upper_count, apply_cs. rewrite removelast_apply_from.
    assert (Hll : ll <> []) by (apply len_ne; exact Hlen).
    assert (Hrl : length (removelast ll) = (length ll - 1)%nat).
    { pose proof (app_removelast_last [] Hll) as E. apply (f_equal (@length _)) in E. rewrite app_length in E. cbn in E. lia. }
    rewrite apply_from_filter by (cbn [major cs_level]; lia).
    assert (Hupr : exists l, In l (rev (removelast ll)) /\ l <> []) by (destruct Hup as (l & H1 & H2); exists l; split; [apply in_rev in H1; exact H1|exact H2]).
    destruct (pick_levels_nonempty tsize (c_maxamp cfg) _ (eligible tsize ll) (base_size tsize ll) Hupr) as (t & l & Ht1 & Hl & Ht2).
    apply in_rev in Hl. apply (concat_filter_lt _ _ l t Hl Ht2). unfold keep.
    assert (In t (cs_rem (major tsize cfg ll))) by (cbn [major cs_rem]; apply in_or_app; left; exact Ht1).
    rewrite (proj2 (tmem_in _ _) H). reflexivity.
  Qed.

  Definition phase (n mcl : nat) : nat := match mcl with O => S n | _ => (n - mcl)%nat end.

  Theorem compact_fixpoint_proof mcl ll :
    valid ll -> exists fuel ll' mcl', compact_loop tsize fuel cfg mcl ll = Some (ll', mcl') /\ valid ll' /\ view ll' = view ll.
  Proof.
    intros Hval. remember (phase (length ll) mcl) as p eqn:Hp. revert mcl ll Hval Hp.
    induction p as [p IHp] using lt_wf_ind. intros mcl ll Hval Hp.
    remember (upper_count ll) as u eqn:Hu. revert ll Hval Hp Hu.
    induction u as [u IHu] using lt_wf_ind. intros ll Hval Hp Hu.
    destruct (compact tsize cfg mcl ll) as [[cs|] m] eqn:Hc.
    - (* a change set: one step, then the induction hypotheses *)
      assert (Hval0 : valid (add_l0 [] ll)) by (rewrite add_l0_nil; exact Hval).
      destruct (compact_preserves_proof tsize cfg mcl ll [] cs m Hcfg Hval0 Hc) as (Hv2 & _ & _ & Hview & _).
      rewrite add_l0_nil in Hv2, Hview.
      assert (Hlen' : length (apply_cs cs ll) = length ll) by apply length_apply.
      assert (Hnext : exists fuel ll' mcl', compact_loop tsize fuel cfg m (apply_cs cs ll) = Some (ll', mcl') /\ valid ll' /\ view ll' = view (apply_cs cs ll)).
      { destruct Hval as (Hv & Hlen & Hne). unfold compact in Hc.
        destruct (Nat.eqb mcl 0 && (N.of_nat (length (hd [] ll)) <? c_trigger cfg)) eqn:E1; [discriminate|].
        destruct (c_maxamp cfg <? pct (eligible tsize ll) (base_size tsize ll)) eqn:E2.
        - (* major: same cursor, fewer upper tables *)
          injection Hc as <- <-. apply N.ltb_lt in E2.
          assert (Hup : exists l, In l (removelast ll) /\ l <> []).
          { apply (eligible_pos tsize). unfold pct in E2. destruct (eligible tsize ll =? 0) eqn:E0; [lia|]. apply N.eqb_neq in E0. lia. }
          pose proof (major_decreases ll (conj Hv (conj Hlen Hne)) Hup) as Hdec.
          eapply (IHu (upper_count (apply_cs (major tsize cfg ll) ll))); [lia|exact Hv2|rewrite Hlen'; exact Hp|reflexivity].
        - (* minor: the cursor advances *)
          assert (Hph : (phase (length ll) m < p)%nat).
          { unfold minor in Hc. destruct mcl as [|k].
            - injection Hc as <- <-. subst p. cbn. lia.
            - destruct (minor_loop_spec _ _ _ _ _ _ _ Hc) as (i & H1 & _ & -> & H4 & _). subst p. cbn. lia. }
          eapply (IHp (phase (length ll) m) Hph m (apply_cs cs ll)); [exact Hv2|rewrite Hlen'; reflexivity]. }
      destruct Hnext as (fuel & ll' & mcl' & H1 & H2 & H3). exists (S fuel), ll', mcl'. cbn [compact_loop]. rewrite Hc.
      split; [exact H1|]. split; [exact H2|]. rewrite H3. exact Hview.
    - exists 1%nat, ll, m. cbn [compact_loop]. rewrite Hc. auto.
  Qed.
End Fix.

Theorem compact_fixpoint_thm tsize cfg mcl ll :
  good_cfg cfg -> valid ll ->
  exists fuel ll' mcl', compact_loop tsize fuel cfg mcl ll = Some (ll', mcl') /\ valid ll' /\ view ll' = view ll.
Proof. intros H1 H2. exact (compact_fixpoint_proof tsize cfg H1 mcl ll H2). Qed.
