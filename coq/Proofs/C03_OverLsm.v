(* C03 over the LSM model: the composition of keyed_state_is_map (Proofs/C03_Store.v, stated for every KV that refines
   the sorted map) with c07c18's refinement proof of the LSM state machine (Proofs/C07_Refine.v [step_ok]: every
   enabled action from a state with the invariant keeps the invariant, changes the abstract map [absm] as the
   specification says, and every completed scan returns [sm_scan p absm]).

   The KV instance: states are (database with the invariant and no read in flight, schedule); put / delete / scan are
   the foreground actions of Model/StateStoreLsm.v, each preceded (the scan also split) by the background steps the
   schedule prescribes; contents = absm. *)
From Coq Require Import List NArith Bool Lia.
From RV Require Import Model.StateStore Model.StateStoreLsm Proofs.C03_Codec Proofs.C03_Store.
From RV Require Model.LsmBase Model.LsmCompaction Model.Lsm Proofs.C07_Sorted Proofs.C07_Spec Proofs.C07_Refine.
Import ListNotations.
Open Scope N_scope.

(* ---------------------------------------------------------------- the two copies of the sorted-map specification agree *)

Lemma lsm_sm_put_eq k v m : Lsm.sm_put k v m = StateStore.sm_put k v m.
Proof. induction m as [|[k' v'] m IH]; cbn; [reflexivity|]. destruct (bcmp k k'); [reflexivity|reflexivity|now rewrite IH]. Qed.

Lemma lsm_sm_del_above k m : (forall y, In y m -> C07_Sorted.klt k (fst y)) -> Lsm.sm_del k m = m.
Proof.
  induction m as [|[k' v'] m IH]; intros H; cbn; [reflexivity|].
  rewrite C07_Sorted.beqb_neq.
  - rewrite IH; [reflexivity|]. intros y Hy. apply H. now right.
  - intros ->. exact (C07_Sorted.klt_irrefl _ (H (k, v') (or_introl eq_refl))).
Qed.

(* c07c18's sm_del walks the whole list, mine stops at the first greater key: the same on ascending lists *)
Lemma lsm_sm_del_eq k m : C07_Spec.ksorted m -> Lsm.sm_del k m = StateStore.sm_del k m.
Proof.
  induction m as [|[k' v'] m IH]; intros Hs; cbn [Lsm.sm_del StateStore.sm_del]; [reflexivity|].
  cbn in Hs. destruct Hs as [H1 H2]. destruct (bcmp k k') eqn:E.
  - apply bcmp_eq in E. subst k'. now rewrite C07_Sorted.beqb_refl.
  - rewrite C07_Sorted.beqb_neq by (intros ->; rewrite bcmp_refl in E; discriminate).
    f_equal. apply lsm_sm_del_above. intros y Hy. eapply C07_Sorted.klt_trans; [exact E|exact (H1 y Hy)].
  - rewrite C07_Sorted.beqb_neq by (intros ->; rewrite bcmp_refl in E; discriminate).
    f_equal. now apply IH.
Qed.

Lemma lsm_sm_scan_eq p m : Lsm.sm_scan p m = StateStore.sm_scan p m.
Proof. reflexivity. Qed.

(* ---------------------------------------------------------------- background steps change nothing a reader can see *)

Section OverLsm.
  Variable cfg : Lsm.dbcfg.
  Hypothesis Hcfg : C07_Refine.cfg_ok cfg.

  Definition good (st : Lsm.db) : Prop := C07_Refine.DBInv st /\ Lsm.rd st = Lsm.RNone.

  Lemma bg_step_rd st a : Lsm.rd (bg_step cfg st a) = Lsm.rd st.
  Proof.
    unfold bg_step. destruct a; cbn [is_bg]; try reflexivity; cbn [Lsm.step].
    - destruct (Lsm.ft st); [destruct (Lsm.fpend st)|]; reflexivity.
    - destruct (Lsm.ft st); reflexivity.
    - destruct (LsmCompaction.compact LsmBase.table_size (Lsm.d_comp cfg) (Lsm.mcl st) (Lsm.lv st)) as [[cs|] m];
        destruct (Lsm.ct st); try destruct (Lsm.cpend st); reflexivity.
    - destruct (Lsm.ct st); reflexivity.
  Qed.

  Lemma bg_step_ok st a : C07_Refine.DBInv st ->
    C07_Refine.DBInv (bg_step cfg st a) /\ C07_Refine.absm (bg_step cfg st a) = C07_Refine.absm st.
  Proof.
    intros HI. unfold bg_step. destruct (is_bg a) eqn:B; [|split; [exact HI|reflexivity]].
    destruct (Lsm.step cfg st a) as [[st' o]|] eqn:E; [|split; [exact HI|reflexivity]].
    destruct (C07_Refine.step_ok cfg st a st' o Hcfg HI E) as (H1 & H2 & _). split; [exact H1|].
    rewrite H2. destruct a; try discriminate; reflexivity.
  Qed.

  Lemma bg_run_ok acts : forall st, C07_Refine.DBInv st ->
    C07_Refine.DBInv (bg_run cfg st acts) /\ C07_Refine.absm (bg_run cfg st acts) = C07_Refine.absm st /\
    Lsm.rd (bg_run cfg st acts) = Lsm.rd st.
  Proof.
    unfold bg_run. induction acts as [|a acts IH]; intros st HI; cbn [fold_left]; [split; [exact HI|split; reflexivity]|].
    destruct (bg_step_ok st a HI) as [H1 H2]. destruct (IH _ H1) as (J1 & J2 & J3).
    split; [exact J1|]. split; [now rewrite J2|]. rewrite J3. apply bg_step_rd.
  Qed.

  Lemma pend_none r : C07_Refine.pend_of r = None -> r = Lsm.RNone.
  Proof. destruct r; [reflexivity|discriminate|discriminate]. Qed.

  (* DB.Put / DB.Delete under any background steps before it *)
  Lemma raw_put_spec k v x : good (fst x) ->
    good (fst (raw_put cfg k v x)) /\ C07_Refine.absm (fst (raw_put cfg k v x)) = StateStore.sm_put k v (C07_Refine.absm (fst x)).
  Proof.
    intros [HI Hrd]. unfold raw_put, fg. destruct (next_bg (snd x)) as [b sc].
    destruct (bg_run_ok b (fst x) HI) as (H1 & H2 & H3). rewrite Hrd in H3.
    destruct (Lsm.step cfg (bg_run cfg (fst x) b) (Lsm.APut k v)) as [[st2 o]|] eqn:E.
    - destruct (C07_Refine.step_ok cfg _ _ st2 o Hcfg H1 E) as (J1 & J2 & _ & J4). cbn [fst].
      rewrite H3 in J4. cbn in J4. split; [split; [exact J1|now apply pend_none]|].
      rewrite J2, H2. cbn [Lsm.spec_step]. apply lsm_sm_put_eq.
    - exfalso. cbn [Lsm.step] in E. rewrite H3 in E.
      destruct (Lsm.write cfg (bg_run cfg (fst x) b) k v false). discriminate.
  Qed.

  Lemma raw_del_spec k x : good (fst x) ->
    good (fst (raw_del cfg k x)) /\ C07_Refine.absm (fst (raw_del cfg k x)) = StateStore.sm_del k (C07_Refine.absm (fst x)).
  Proof.
    intros [HI Hrd]. unfold raw_del, fg. destruct (next_bg (snd x)) as [b sc].
    destruct (bg_run_ok b (fst x) HI) as (H1 & H2 & H3). rewrite Hrd in H3.
    destruct (Lsm.step cfg (bg_run cfg (fst x) b) (Lsm.ADel k)) as [[st2 o]|] eqn:E.
    - destruct (C07_Refine.step_ok cfg _ _ st2 o Hcfg H1 E) as (J1 & J2 & _ & J4). cbn [fst].
      rewrite H3 in J4. cbn in J4. split; [split; [exact J1|now apply pend_none]|].
      rewrite J2, H2. cbn [Lsm.spec_step]. apply lsm_sm_del_eq. apply C07_Refine.absm_sorted.
    - exfalso. cbn [Lsm.step] in E. rewrite H3 in E.
      destruct (Lsm.write cfg (bg_run cfg (fst x) b) k [] true). discriminate.
  Qed.

  Lemma fg_enabled x a st2 o :
    Lsm.step cfg (bg_run cfg (fst x) (fst (next_bg (snd x)))) a = Some (st2, o) ->
    fg cfg x a = ((st2, snd (next_bg (snd x))), o).
  Proof. intros E. unfold fg. destruct (next_bg (snd x)) as [b sc]. cbn [fst snd] in *. now rewrite E. Qed.

  (* DB.ScanPrefix: memtable snapshot, background steps, level-list snapshot - still exactly the prefix scan of the map *)
  Lemma raw_scan_spec p x : good (fst x) ->
    fst (raw_scan cfg p x) = StateStore.sm_scan p (C07_Refine.absm (fst x)) /\
    good (fst (snd (raw_scan cfg p x))) /\ C07_Refine.absm (fst (snd (raw_scan cfg p x))) = C07_Refine.absm (fst x).
  Proof.
    intros [HI Hrd]. unfold raw_scan.
    destruct (bg_run_ok (fst (next_bg (snd x))) (fst x) HI) as (H1 & H2 & H3). rewrite Hrd in H3.
    set (st1 := bg_run cfg (fst x) (fst (next_bg (snd x)))) in *.
    set (st2 := Lsm.set_rd st1 (Lsm.RScan p (LsmBase.ml_scan_entries p (Lsm.mts st1)))).
    assert (E1 : Lsm.step cfg st1 (Lsm.AScan1 p) = Some (st2, Lsm.ONone))
      by (cbn [Lsm.step]; rewrite H3; reflexivity).
    rewrite (fg_enabled x _ _ _ E1).
    destruct (C07_Refine.step_ok cfg _ _ _ _ Hcfg H1 E1) as (J1 & J2 & _ & _). cbn [Lsm.spec_step] in J2.
    set (x1 := (st2, snd (next_bg (snd x)))).
    destruct (bg_run_ok (fst (next_bg (snd x1))) (fst x1) J1) as (K1 & K2 & K3).
    set (st3 := bg_run cfg (fst x1) (fst (next_bg (snd x1)))) in *.
    assert (R3 : Lsm.rd st3 = Lsm.RScan p (LsmBase.ml_scan_entries p (Lsm.mts st1))) by (rewrite K3; reflexivity).
    destruct (Lsm.step cfg st3 Lsm.AScan2) as [[st4 o]|] eqn:E2.
    - rewrite (fg_enabled x1 _ _ _ E2).
      destruct (C07_Refine.step_ok cfg _ _ st4 o Hcfg K1 E2) as (L1 & L2 & L3 & L4).
      cbn [Lsm.spec_step] in L2. rewrite R3 in L3, L4. cbn [C07_Refine.pend_of C07_Refine.obs_good C07_Refine.next_pend] in L3, L4.
      destruct L3 as (p0 & Hp0 & Ho). injection Hp0 as <-. subst o. cbn [fst snd].
      split; [rewrite K2; cbn [x1 fst]; rewrite J2, H2; reflexivity|].
      split; [split; [exact L1|now apply pend_none]|]. rewrite L2, K2. cbn [x1 fst]. now rewrite J2, H2.
    - exfalso. cbn [Lsm.step] in E2. rewrite R3 in E2. discriminate.
  Qed.

  (* ---------------------------------------------------------------- the KV instance *)

  (* what dkv.Open makes of a captured database: any function with the contract of C08 (a database with the invariant,
     no read in flight, the same contents) *)
  Variable reopen : Lsm.db -> Lsm.db.
  Hypothesis Hreopen : forall st, good st -> good (reopen st) /\ C07_Refine.absm (reopen st) = C07_Refine.absm st.

  Definition lsm_st : Type := { x : lsm_raw | good (fst x) }.

  Definition lsm_put (k v : bytes) (s : lsm_st) : lsm_st :=
    exist _ (raw_put cfg k v (proj1_sig s)) (proj1 (raw_put_spec k v _ (proj2_sig s))).
  Definition lsm_del (k : bytes) (s : lsm_st) : lsm_st :=
    exist _ (raw_del cfg k (proj1_sig s)) (proj1 (raw_del_spec k _ (proj2_sig s))).
  Definition lsm_scan (p : bytes) (s : lsm_st) : option kvlist * lsm_st :=
    (Some (fst (raw_scan cfg p (proj1_sig s))),
     exist _ (snd (raw_scan cfg p (proj1_sig s))) (proj1 (proj2 (raw_scan_spec p _ (proj2_sig s))))).
  Definition lsm_restore (cur saved : lsm_st) : lsm_st :=
    exist _ (raw_restore reopen (proj1_sig cur) (proj1_sig saved)) (proj1 (Hreopen _ (proj2_sig saved))).

  Definition lsm_kv : KV :=
    {| kv_st := lsm_st; kv_put := lsm_put; kv_del := lsm_del; kv_scan := lsm_scan; kv_restore := lsm_restore |}.

  Definition lsm_contents (s : lsm_st) : kvlist := C07_Refine.absm (fst (proj1_sig s)).

  Lemma init_good : good (Lsm.init cfg).
  Proof. split; [exact (C07_Refine.init_inv cfg Hcfg)|reflexivity]. Qed.

  (* a new database with any schedule ahead of it *)
  Definition lsm_init (sc : schedule) : lsm_st := exist _ (Lsm.init cfg, sc) init_good.

  Lemma lsm_refines_sorted_map :
    (forall k v s, lsm_contents (kv_put lsm_kv k v s) = StateStore.sm_put k v (lsm_contents s)) /\
    (forall k s, lsm_contents (kv_del lsm_kv k s) = StateStore.sm_del k (lsm_contents s)) /\
    (forall p s, fst (kv_scan lsm_kv p s) = Some (StateStore.sm_scan p (lsm_contents s)) /\
                 lsm_contents (snd (kv_scan lsm_kv p s)) = lsm_contents s) /\
    (forall cur s, lsm_contents (kv_restore lsm_kv cur s) = lsm_contents s).
  Proof.
    unfold lsm_contents. repeat split.
    - intros k v [x Hx]. cbn. apply raw_put_spec. exact Hx.
    - intros k [x Hx]. cbn. apply raw_del_spec. exact Hx.
    - destruct s as [x Hx]. cbn. f_equal. apply raw_scan_spec. exact Hx.
    - destruct s as [x Hx]. cbn. apply raw_scan_spec. exact Hx.
    - intros [c Hc] [x Hx]. cbn. apply Hreopen. exact Hx.
  Qed.

  Theorem refines_per_key_map_lsm kgf accept h steps sc :
    handler_ok h -> Forall step_ok steps ->
    exists y, StateStore.run lsm_kv kgf accept h (init_sys lsm_kv (lsm_init sc)) steps = Some y /\
              sy_trace y = o_trace (o_run h o_init steps).
  Proof.
    intros Hh Hs. destruct lsm_refines_sorted_map as (Hp & Hd & Hsc & Hr).
    apply (refines_per_key_map lsm_kv lsm_contents Hp Hd); try assumption.
    - intros p s. destruct (Hsc p s) as [E1 E2]. split; [|exact E2]. rewrite E1. intros l [= <-]. reflexivity.
    - intros p s. destruct (Hsc p s) as [E1 _]. rewrite E1. discriminate.
    - unfold lsm_contents, lsm_init. cbn. apply C07_Refine.absm_init. exact Hcfg.
  Qed.
End OverLsm.

(* the contract asked of [reopen] is satisfiable: handing back the captured database itself *)
Lemma reopen_id_ok : forall st, good st -> good ((fun d => d) st) /\ C07_Refine.absm ((fun d : Lsm.db => d) st) = C07_Refine.absm st.
Proof. intros st H. split; [exact H|reflexivity]. Qed.
