(* C19: util/ds/sorted_map.go (Model/SortedMap.v): map + key slice sorted on demand = association list sorted by key.
   NOTE (statement change): [smap_inv] carries the extra conjunct [NoDup (map fst (m s))] (a Go map has one entry per
   key).  Without it [smap_delete_spec] is false for the association-list model of the map: [map_del] removes only the
   first entry of a key (see [smap_delete_needs_unique_map_keys] at the end of this file). *)
From RV Require Import Base.Bytes Model.SortedMap.
From Coq Require Import Sorted Permutation.
Open Scope N_scope.

Definition slt (a b : bytes) : Prop := bcmp a b = Lt.
Definition valof (mm : list (bytes * N)) (k : bytes) : N :=
  match map_get k mm with Some v => v | None => 0 end.

Definition smap_ref (s : smap) : list (bytes * N) :=
  map (fun k => (k, match map_get k (m s) with Some v => v | None => 0%N end)) (sort_keys (keys s)).

Definition smap_inv (s : smap) : Prop :=
  NoDup (keys s) /\ NoDup (map fst (m s)) /\ forall k, In k (keys s) <-> map_get k (m s) <> None.

Lemma smap_ref_eq s : smap_ref s = map (fun k => (k, valof (m s) k)) (sort_keys (keys s)).
Proof. reflexivity. Qed.

(* ---------- bcmp library ---------- *)
Lemma sm_beqb_refl a : beqb a a = true.
Proof. apply beqb_eq. reflexivity. Qed.

Lemma sm_beqb_sym a b : beqb a b = beqb b a.
Proof. unfold beqb. rewrite (bcmp_antisym b a). destruct (bcmp b a); reflexivity. Qed.

Lemma sm_beqb_neq a b : a <> b -> beqb a b = false.
Proof. intros Hne. destruct (beqb a b) eqn:E; [|reflexivity]. apply beqb_eq in E. contradiction. Qed.

Lemma slt_irrefl a : ~ slt a a.
Proof. unfold slt. rewrite bcmp_refl. discriminate. Qed.

Lemma slt_trans a b c : slt a b -> slt b c -> slt a c.
Proof. apply bcmp_lt_trans. Qed.

Lemma sm_gt_lt a b : bcmp a b = Gt -> slt b a.
Proof. intros H. unfold slt. rewrite (bcmp_antisym a b), H. reflexivity. Qed.

Lemma bleb_true_lt k x : bleb k x = true -> k <> x -> slt k x.
Proof.
  unfold bleb, slt. destruct (bcmp k x) eqn:E; intros Hb Hne.
  - apply bcmp_eq in E. contradiction.
  - reflexivity.
  - discriminate.
Qed.

Lemma bleb_false_lt k x : bleb k x = false -> slt x k.
Proof.
  unfold bleb. destruct (bcmp k x) eqn:E; intros Hb; try discriminate.
  apply sm_gt_lt. exact E.
Qed.

(* ---------- strictly sorted lists ---------- *)
Lemma lt_all_notin a l : Forall (slt a) l -> ~ In a l.
Proof.
  intros Hf Hin. rewrite Forall_forall in Hf. apply (slt_irrefl a). apply Hf. exact Hin.
Qed.

Lemma ssorted_nodup l : StronglySorted slt l -> NoDup l.
Proof.
  induction 1 as [|a l Hs IH Hf]; constructor; [apply lt_all_notin; exact Hf | exact IH].
Qed.

Lemma ssorted_unique : forall l1 l2,
  StronglySorted slt l1 -> StronglySorted slt l2 -> (forall x, In x l1 <-> In x l2) -> l1 = l2.
Proof.
  induction l1 as [|a l1 IH]; intros [|b l2] Hs1 Hs2 Hiff.
  - reflexivity.
  - exfalso. apply (proj2 (Hiff b)). left. reflexivity.
  - exfalso. apply (proj1 (Hiff a)). left. reflexivity.
  - apply StronglySorted_inv in Hs1 as [Hs1 Hf1]. apply StronglySorted_inv in Hs2 as [Hs2 Hf2].
    assert (Hab : a = b).
    { destruct (proj1 (Hiff a) (or_introl eq_refl)) as [Hba|Hin2]; [symmetry; exact Hba|].
      destruct (proj2 (Hiff b) (or_introl eq_refl)) as [Hab|Hin1]; [exact Hab|].
      exfalso. rewrite Forall_forall in Hf1, Hf2. apply (slt_irrefl a).
      apply (slt_trans a b a); [apply Hf1; exact Hin1 | apply Hf2; exact Hin2]. }
    subst b. f_equal. apply IH; [exact Hs1 | exact Hs2 |].
    intros x. split; intros Hx.
    + destruct (proj1 (Hiff x) (or_intror Hx)) as [Hax|Hx2]; [|exact Hx2].
      subst x. exfalso. apply (lt_all_notin a l1 Hf1 Hx).
    + destruct (proj2 (Hiff x) (or_intror Hx)) as [Hax|Hx1]; [|exact Hx1].
      subst x. exfalso. apply (lt_all_notin a l2 Hf2 Hx).
Qed.

Lemma ssorted_filter f l : StronglySorted slt l -> StronglySorted slt (filter f l).
Proof.
  induction 1 as [|a l Hs IH Hf]; cbn [filter]; [constructor|].
  destruct (f a); [|exact IH]. constructor; [exact IH|].
  rewrite Forall_forall in *. intros x Hx. apply filter_In in Hx as [Hx _]. apply Hf. exact Hx.
Qed.

(* ---------- insertion sort ---------- *)
Lemma sort_ins_perm k l : Permutation (sort_ins k l) (k :: l).
Proof.
  induction l as [|x l IH]; cbn [sort_ins]; [reflexivity|].
  destruct (bleb k x); [reflexivity|].
  eapply perm_trans; [apply perm_skip; exact IH | apply perm_swap].
Qed.

Lemma sort_keys_cons k l : sort_keys (k :: l) = sort_ins k (sort_keys l).
Proof. reflexivity. Qed.

Theorem sort_keys_perm : forall l, Permutation (sort_keys l) l.
Proof.
  induction l as [|k l IH]; [reflexivity|]. rewrite sort_keys_cons.
  eapply perm_trans; [apply sort_ins_perm | apply perm_skip; exact IH].
Qed.

Lemma sort_keys_in l x : In x (sort_keys l) <-> In x l.
Proof.
  split; apply Permutation_in; [|symmetry]; apply sort_keys_perm.
Qed.

Lemma sort_ins_in k l x : In x (sort_ins k l) <-> x = k \/ In x l.
Proof.
  split; intros H.
  - apply (Permutation_in _ (sort_ins_perm k l)) in H. destruct H as [H|H]; auto.
  - apply (Permutation_in _ (Permutation_sym (sort_ins_perm k l))). destruct H as [H|H]; [left; auto|right; exact H].
Qed.

Lemma sort_ins_sorted k l : StronglySorted slt l -> ~ In k l -> StronglySorted slt (sort_ins k l).
Proof.
  induction l as [|x l IH]; intros Hs Hni; cbn [sort_ins].
  - constructor; constructor.
  - apply StronglySorted_inv in Hs as [Hs Hf]. destruct (bleb k x) eqn:E.
    + assert (Hkx : slt k x).
      { apply bleb_true_lt; [exact E|]. intros ->. apply Hni. left. reflexivity. }
      constructor; [constructor; assumption|]. constructor; [exact Hkx|].
      eapply Forall_impl; [|exact Hf]. intros y Hy. eapply slt_trans; eassumption.
    + constructor.
      * apply IH; [exact Hs|]. intros Hin. apply Hni. right. exact Hin.
      * apply Forall_forall. intros y Hy. apply sort_ins_in in Hy as [->|Hy].
        -- apply bleb_false_lt. exact E.
        -- rewrite Forall_forall in Hf. apply Hf. exact Hy.
Qed.

Lemma sort_keys_ssorted l : NoDup l -> StronglySorted slt (sort_keys l).
Proof.
  induction 1 as [|k l Hni Hnd IH]; [constructor|]. rewrite sort_keys_cons.
  apply sort_ins_sorted; [exact IH|]. rewrite sort_keys_in. exact Hni.
Qed.

Theorem sort_keys_sorted : forall l, NoDup l -> StronglySorted (fun a b => bcmp a b = Lt) (sort_keys l).
Proof. exact sort_keys_ssorted. Qed.

Lemma sort_keys_nodup l : NoDup l -> NoDup (sort_keys l).
Proof. intros H. apply ssorted_nodup, sort_keys_ssorted, H. Qed.

(* sorting a strictly sorted list is the identity *)
Theorem sort_keys_sorted_id : forall l, StronglySorted (fun a b => bcmp a b = Lt) l -> sort_keys l = l.
Proof.
  intros l Hs. change (StronglySorted slt l) in Hs.
  apply ssorted_unique; [apply sort_keys_ssorted, ssorted_nodup, Hs | exact Hs | apply sort_keys_in].
Qed.

Theorem sort_keys_idem : forall l, NoDup l -> sort_keys (sort_keys l) = sort_keys l.
Proof. intros l Hnd. apply sort_keys_sorted_id, sort_keys_sorted, Hnd. Qed.

(* two lists with the same elements sort to the same list *)
Lemma sort_keys_same_set l1 l2 :
  NoDup l1 -> NoDup l2 -> (forall x, In x l1 <-> In x l2) -> sort_keys l1 = sort_keys l2.
Proof.
  intros H1 H2 Hiff. apply ssorted_unique; try (apply sort_keys_ssorted; assumption).
  intros x. rewrite !sort_keys_in. apply Hiff.
Qed.

(* ---------- sorted insertion without duplicates (what rm_put does on the key column) ---------- *)
Fixpoint ins_u (k : bytes) (l : list bytes) : list bytes :=
  match l with
  | [] => [k]
  | x :: l' => match bcmp k x with Lt => k :: l | Eq => k :: l' | Gt => x :: ins_u k l' end
  end.

Lemma ins_u_in k l x : In x (ins_u k l) <-> x = k \/ In x l.
Proof.
  induction l as [|y l IH]; cbn [ins_u].
  - cbn [In]. split; intros [H|H]; auto.
  - destruct (bcmp k y) eqn:E.
    + apply bcmp_eq in E. subst y. cbn [In]. split; intros H.
      * destruct H as [H|H]; auto.
      * destruct H as [H|[H|H]]; auto.
    + cbn [In]. split; intros H.
      * destruct H as [H|[H|H]]; auto.
      * destruct H as [H|[H|H]]; auto.
    + cbn [In]. rewrite IH. split; intros H.
      * destruct H as [H|[H|H]]; auto.
      * destruct H as [H|[H|H]]; auto.
Qed.

Lemma ins_u_sorted k l : StronglySorted slt l -> StronglySorted slt (ins_u k l).
Proof.
  induction l as [|y l IH]; intros Hs; cbn [ins_u].
  - constructor; constructor.
  - apply StronglySorted_inv in Hs as [Hs Hf]. destruct (bcmp k y) eqn:E.
    + apply bcmp_eq in E. subst y. constructor; assumption.
    + constructor; [constructor; assumption|]. constructor; [exact E|].
      eapply Forall_impl; [|exact Hf]. intros z Hz. eapply slt_trans; eassumption.
    + constructor; [apply IH; exact Hs|].
      apply Forall_forall. intros z Hz. apply ins_u_in in Hz as [->|Hz].
      * apply sm_gt_lt. exact E.
      * rewrite Forall_forall in Hf. apply Hf. exact Hz.
Qed.

Lemma ins_u_sort_keys_present k l : NoDup l -> In k l -> ins_u k (sort_keys l) = sort_keys l.
Proof.
  intros Hnd Hin. apply ssorted_unique.
  - apply ins_u_sorted, sort_keys_ssorted, Hnd.
  - apply sort_keys_ssorted, Hnd.
  - intros x. rewrite ins_u_in, sort_keys_in. split; [intros [->|H]; assumption | auto].
Qed.

Lemma NoDup_snoc_b (k : bytes) l : NoDup l -> ~ In k l -> NoDup (l ++ [k]).
Proof.
  intros Hnd Hni. induction Hnd as [|y l Hy Hnd IH]; cbn [app].
  - constructor; [intros []|constructor].
  - constructor.
    + rewrite in_app_iff. intros [Hin|[Heq|[]]]; [contradiction|].
      subst y. apply Hni. left. reflexivity.
    + apply IH. intros Hin. apply Hni. right. exact Hin.
Qed.

Lemma ins_u_sort_keys_absent k l : NoDup l -> ~ In k l -> ins_u k (sort_keys l) = sort_keys (l ++ [k]).
Proof.
  intros Hnd Hni. apply ssorted_unique.
  - apply ins_u_sorted, sort_keys_ssorted, Hnd.
  - apply sort_keys_ssorted, NoDup_snoc_b; assumption.
  - intros x. rewrite ins_u_in, !sort_keys_in, in_app_iff. cbn [In]. split.
    + intros [->|H]; auto.
    + intros [H|[H|[]]]; auto.
Qed.

(* ---------- the Go map as an association list ---------- *)
Lemma map_get_in k mm : map_get k mm <> None <-> In k (map fst mm).
Proof.
  induction mm as [|[k' v'] mm IH]; cbn [map_get map fst In].
  - split; [congruence | intros []].
  - destruct (beqb k k') eqn:E.
    + apply beqb_eq in E. subst k'. split; [auto | congruence].
    + rewrite IH. split; [auto|]. intros [H|H]; [|exact H].
      subst k'. rewrite sm_beqb_refl in E. discriminate.
Qed.

Lemma map_get_notin k mm : ~ In k (map fst mm) -> map_get k mm = None.
Proof.
  intros Hni. destruct (map_get k mm) eqn:E; [|reflexivity].
  exfalso. apply Hni. apply map_get_in. congruence.
Qed.

Lemma map_get_set x k v mm : map_get x (map_set k v mm) = if beqb x k then Some v else map_get x mm.
Proof.
  induction mm as [|[k' v'] mm IH]; cbn [map_set map_get]; [reflexivity|].
  destruct (beqb k k') eqn:E; cbn [map_get].
  - apply beqb_eq in E. subst k'. destruct (beqb x k); reflexivity.
  - rewrite IH. destruct (beqb x k) eqn:E1, (beqb x k') eqn:E2; try reflexivity.
    apply beqb_eq in E1, E2. subst k k'. rewrite sm_beqb_refl in E. discriminate.
Qed.

Lemma map_get_del x k mm :
  NoDup (map fst mm) -> map_get x (map_del k mm) = if beqb x k then None else map_get x mm.
Proof.
  induction mm as [|[k' v'] mm IH]; intros Hnd; cbn [map_del map_get].
  - destruct (beqb x k); reflexivity.
  - cbn [map fst] in Hnd. inversion Hnd as [|a l Hni Hnd']; subst a l.
    destruct (beqb k k') eqn:E; cbn [map_get].
    + apply beqb_eq in E. subst k'. destruct (beqb x k) eqn:E1; [|reflexivity].
      apply beqb_eq in E1. subst x. apply map_get_notin. exact Hni.
    + rewrite (IH Hnd'). destruct (beqb x k) eqn:E1, (beqb x k') eqn:E2; try reflexivity.
      apply beqb_eq in E1, E2. subst k k'. rewrite sm_beqb_refl in E. discriminate.
Qed.

Lemma map_set_nodup k v mm : NoDup (map fst mm) -> NoDup (map fst (map_set k v mm)).
Proof.
  induction mm as [|[k' v'] mm IH]; intros Hnd; cbn [map_set].
  - cbn [map fst]. constructor; [intros []|constructor].
  - cbn [map fst] in Hnd. inversion Hnd as [|a l Hni Hnd']; subst a l.
    destruct (beqb k k') eqn:E; cbn [map fst].
    + apply beqb_eq in E. subst k'. constructor; assumption.
    + constructor; [|apply IH; exact Hnd'].
      intros Hin. apply map_get_in in Hin. rewrite map_get_set in Hin.
      rewrite (sm_beqb_sym k' k), E in Hin. apply map_get_in in Hin. contradiction.
Qed.

Lemma map_del_subset k mm x : In x (map fst (map_del k mm)) -> In x (map fst mm).
Proof.
  induction mm as [|[k' v'] mm IH]; cbn [map_del]; [auto|].
  destruct (beqb k k'); cbn [map fst In]; [auto|]. intros [H|H]; auto.
Qed.

Lemma map_del_nodup k mm : NoDup (map fst mm) -> NoDup (map fst (map_del k mm)).
Proof.
  induction mm as [|[k' v'] mm IH]; intros Hnd; cbn [map_del]; [exact Hnd|].
  cbn [map fst] in Hnd. inversion Hnd as [|a l Hni Hnd']; subst a l.
  destruct (beqb k k'); [exact Hnd'|]. cbn [map fst]. constructor; [|apply IH; exact Hnd'].
  intros Hin. apply Hni. eapply map_del_subset. exact Hin.
Qed.

Lemma existsb_beqb_in k l : existsb (beqb k) l = true <-> In k l.
Proof.
  rewrite existsb_exists. split.
  - intros [x [Hin Hb]]. apply beqb_eq in Hb. subst x. exact Hin.
  - intros Hin. exists k. split; [exact Hin | apply sm_beqb_refl].
Qed.

Lemma map_get_mapf k (f : bytes -> N) l :
  map_get k (map (fun x => (x, f x)) l) = if existsb (beqb k) l then Some (f k) else None.
Proof.
  induction l as [|a l IH]; cbn [map map_get existsb]; [reflexivity|].
  destruct (beqb k a) eqn:E; cbn [orb]; [|exact IH].
  apply beqb_eq in E. subst a. reflexivity.
Qed.

(* rm_put on the reference = sorted insertion on the key column, values re-read from the updated map *)
Lemma rm_put_mapf k v (f g : bytes -> N) l :
  StronglySorted slt l -> g k = v -> (forall x, x <> k -> g x = f x) ->
  rm_put k v (map (fun x => (x, f x)) l) = map (fun x => (x, g x)) (ins_u k l).
Proof.
  intros Hs Hgk Hg. induction l as [|a l IH]; cbn [map rm_put ins_u].
  - rewrite Hgk. reflexivity.
  - apply StronglySorted_inv in Hs as [Hs Hf].
    assert (Hext : forall k0, Forall (slt k0) l -> k0 = k \/ slt k k0 ->
              map (fun x => (x, f x)) l = map (fun x => (x, g x)) l).
    { intros k0 Hf0 Hk0. apply map_ext_in. intros x Hx. rewrite Hg; [reflexivity|].
      intros ->. rewrite Forall_forall in Hf0. apply (slt_irrefl k).
      destruct Hk0 as [->|Hlt]; [apply Hf0; exact Hx|].
      eapply slt_trans; [exact Hlt | apply Hf0; exact Hx]. }
    destruct (bcmp k a) eqn:E; cbn [map].
    + apply bcmp_eq in E. subst a. rewrite Hgk. f_equal. apply (Hext k Hf). left. reflexivity.
    + rewrite Hgk. f_equal. rewrite (Hg a).
      * f_equal. apply (Hext a Hf). right. exact E.
      * intros ->. rewrite bcmp_refl in E. discriminate.
    + rewrite (Hg a).
      * f_equal. apply IH. exact Hs.
      * intros ->. rewrite bcmp_refl in E. discriminate.
Qed.

(* ---------- 1. empty ---------- *)
Theorem smap_empty_inv : smap_inv smap_empty.
Proof.
  split; [constructor|]. split; [constructor|]. intros k. cbn. split; [intros [] | congruence].
Qed.

Theorem smap_empty_ref : smap_ref smap_empty = [].
Proof. reflexivity. Qed.

(* ---------- 4. get / has ---------- *)
Theorem smap_get_spec : forall k s, smap_inv s -> smap_get k s = rm_get k (smap_ref s).
Proof.
  intros k s (Hnd & Hmnd & Hin). unfold smap_get, rm_get. rewrite smap_ref_eq, map_get_mapf.
  destruct (existsb (beqb k) (sort_keys (keys s))) eqn:E.
  - apply existsb_beqb_in, sort_keys_in, Hin in E. unfold valof.
    destruct (map_get k (m s)); [reflexivity | congruence].
  - destruct (map_get k (m s)) eqn:Hg; [|reflexivity].
    assert (Hk : In k (keys s)) by (apply Hin; congruence).
    apply sort_keys_in, existsb_beqb_in in Hk. congruence.
Qed.

Theorem smap_has_spec : forall k s, smap_inv s -> (smap_has k s = true <-> rm_get k (smap_ref s) <> None).
Proof.
  intros k s Hinv. rewrite <- (smap_get_spec k s Hinv). unfold smap_has, smap_get.
  destruct (map_get k (m s)); split; congruence.
Qed.

(* ---------- 3. set ---------- *)
Theorem smap_set_spec : forall k v s, smap_inv s ->
  let '(s', nw) := smap_set k v s in
  smap_inv s' /\ smap_ref s' = rm_put k v (smap_ref s) /\
  nw = match rm_get k (smap_ref s) with None => true | Some _ => false end.
Proof.
  intros k v s Hinv. pose proof (smap_get_spec k s Hinv) as Hget. unfold smap_get in Hget.
  destruct Hinv as (Hnd & Hmnd & Hin). unfold smap_set. rewrite <- Hget.
  assert (Hgk : valof (map_set k v (m s)) k = v).
  { unfold valof. rewrite map_get_set, sm_beqb_refl. reflexivity. }
  assert (Hgo : forall x, x <> k -> valof (map_set k v (m s)) x = valof (m s) x).
  { intros x Hne. unfold valof. rewrite map_get_set, (sm_beqb_neq x k Hne). reflexivity. }
  assert (Hin' : forall K, (forall x, In x K <-> x = k \/ In x (keys s)) ->
             forall x, In x K <-> map_get x (map_set k v (m s)) <> None).
  { intros K HK x. rewrite HK, map_get_set. destruct (beqb x k) eqn:E.
    - apply beqb_eq in E. split; [congruence | auto].
    - rewrite (Hin x). split; [|auto]. intros [->|H]; [|exact H].
      rewrite sm_beqb_refl in E. discriminate. }
  destruct (map_get k (m s)) eqn:Hg.
  - assert (Hk : In k (keys s)) by (apply Hin; congruence).
    split; [|split; [|reflexivity]].
    + split; [exact Hnd|]. split; [apply map_set_nodup; exact Hmnd|]. cbn [keys m].
      apply Hin'. intros x. split; [auto | intros [->|H]; assumption].
    + rewrite !smap_ref_eq. cbn [keys m].
      rewrite (rm_put_mapf k v (valof (m s)) (valof (map_set k v (m s))));
        [| apply sort_keys_ssorted; exact Hnd | exact Hgk | exact Hgo].
      rewrite ins_u_sort_keys_present; [reflexivity | exact Hnd | exact Hk].
  - assert (Hk : ~ In k (keys s)) by (rewrite Hin; congruence).
    split; [|split; [|reflexivity]].
    + split; [apply NoDup_snoc_b; assumption|]. split; [apply map_set_nodup; exact Hmnd|]. cbn [keys m].
      apply Hin'. intros x. rewrite in_app_iff. cbn [In]. split.
      * intros [H|[H|[]]]; auto.
      * intros [H|H]; auto.
    + rewrite !smap_ref_eq. cbn [keys m].
      rewrite (rm_put_mapf k v (valof (m s)) (valof (map_set k v (m s))));
        [| apply sort_keys_ssorted; exact Hnd | exact Hgk | exact Hgo].
      rewrite ins_u_sort_keys_absent; [reflexivity | exact Hnd | exact Hk].
Qed.

(* ---------- ensure_sorted ---------- *)
Lemma ensure_sorted_inv s : smap_inv s -> smap_inv (ensure_sorted s).
Proof.
  intros (Hnd & Hmnd & Hin). unfold ensure_sorted. split; [|split]; cbn [keys m].
  - apply sort_keys_nodup. exact Hnd.
  - exact Hmnd.
  - intros k. rewrite sort_keys_in. apply Hin.
Qed.

Lemma ensure_sorted_ref s : smap_inv s -> smap_ref (ensure_sorted s) = smap_ref s.
Proof.
  intros (Hnd & _). unfold smap_ref, ensure_sorted. cbn [keys m]. rewrite sort_keys_idem; [reflexivity | exact Hnd].
Qed.

(* ---------- 5. delete ---------- *)
Lemma filter_all_true {A} (f : A -> bool) l : (forall x, In x l -> f x = true) -> filter f l = l.
Proof.
  induction l as [|a l IH]; intros H; cbn [filter]; [reflexivity|].
  rewrite (H a (or_introl eq_refl)). f_equal. apply IH. intros x Hx. apply H. right. exact Hx.
Qed.

Lemma rm_del_mapf k mm l :
  NoDup (map fst mm) ->
  map (fun x => (x, valof (map_del k mm) x)) (filter (fun x => negb (beqb k x)) l) =
  filter (fun kv => negb (beqb k (fst kv))) (map (fun x => (x, valof mm x)) l).
Proof.
  intros Hmnd. induction l as [|a l IH]; cbn [filter map fst]; [reflexivity|].
  destruct (beqb k a) eqn:Ea; cbn [negb map]; [exact IH|].
  f_equal; [|exact IH]. f_equal. unfold valof.
  rewrite (map_get_del a k _ Hmnd), (sm_beqb_sym a k), Ea. reflexivity.
Qed.

Theorem smap_delete_spec : forall k s, smap_inv s ->
  let '(s', rm) := smap_delete k s in
  smap_inv s' /\ smap_ref s' = rm_del k (smap_ref s) /\
  rm = match rm_get k (smap_ref s) with None => false | Some _ => true end.
Proof.
  intros k s Hinv. pose proof (ensure_sorted_inv s Hinv) as Hinv'.
  pose proof (ensure_sorted_ref s Hinv) as Href'.
  destruct Hinv as (Hnd & Hmnd & Hin).
  assert (Hss : StronglySorted slt (sort_keys (keys s))) by (apply sort_keys_ssorted; exact Hnd).
  assert (Hrg : rm_get k (smap_ref s) =
                if existsb (beqb k) (sort_keys (keys s)) then Some (valof (m s) k) else None).
  { unfold rm_get. rewrite smap_ref_eq. apply map_get_mapf. }
  unfold smap_delete. rewrite Hrg.
  cbn [ensure_sorted keys m].
  destruct (existsb (beqb k) (sort_keys (keys s))) eqn:E.
  - split; [|split; [|reflexivity]].
    + split; [|split]; cbn [keys m].
      * apply NoDup_filter, sort_keys_nodup, Hnd.
      * apply map_del_nodup. exact Hmnd.
      * intros x. rewrite filter_In, sort_keys_in, (map_get_del x k _ Hmnd), negb_true_iff, (sm_beqb_sym k x).
        destruct (beqb x k); [split; [intros [_ H]; discriminate | congruence]|].
        rewrite (Hin x). split; [intros [H _]; exact H | auto].
    + rewrite !smap_ref_eq. cbn [keys m]. unfold rm_del.
      rewrite sort_keys_sorted_id; [|apply ssorted_filter; exact Hss].
      apply rm_del_mapf. exact Hmnd.
  - split; [exact Hinv'|]. split; [|reflexivity]. fold (ensure_sorted s). rewrite Href', smap_ref_eq.
    unfold rm_del. symmetry. apply filter_all_true.
    intros [x w] Hx. apply in_map_iff in Hx as [y [Hy Hyin]]. inversion Hy; subst x w. cbn [fst].
    destruct (beqb k y) eqn:Ey; [|reflexivity]. apply beqb_eq in Ey. subst y.
    apply existsb_beqb_in in Hyin. congruence.
Qed.

(* ---------- 6. ordered reads ---------- *)
Theorem smap_all_spec : forall s, smap_inv s ->
  let '(s', kvs) := smap_all s in smap_inv s' /\ smap_ref s' = smap_ref s /\ kvs = smap_ref s.
Proof.
  intros s Hinv. unfold smap_all. split; [apply ensure_sorted_inv; exact Hinv|].
  split; [apply ensure_sorted_ref; exact Hinv | reflexivity].
Qed.

Theorem smap_keys_spec : forall s, smap_inv s ->
  let '(s', ks) := smap_keys s in smap_inv s' /\ smap_ref s' = smap_ref s /\ ks = map fst (smap_ref s).
Proof.
  intros s Hinv. unfold smap_keys. split; [apply ensure_sorted_inv; exact Hinv|].
  split; [apply ensure_sorted_ref; exact Hinv|].
  unfold smap_ref. rewrite map_map. cbn [fst ensure_sorted keys]. rewrite map_id. reflexivity.
Qed.

Theorem smap_values_spec : forall s, smap_inv s ->
  let '(s', vs) := smap_values s in smap_inv s' /\ smap_ref s' = smap_ref s /\ vs = map snd (smap_ref s).
Proof.
  intros s Hinv. unfold smap_values. split; [apply ensure_sorted_inv; exact Hinv|].
  split; [apply ensure_sorted_ref; exact Hinv|].
  unfold smap_ref. rewrite map_map. reflexivity.
Qed.

Theorem smap_size_spec : forall s, smap_inv s -> smap_size s = length (smap_ref s).
Proof.
  intros s _. unfold smap_size, smap_ref. rewrite map_length.
  symmetry. apply Permutation_length, sort_keys_perm.
Qed.

(* ---------- 7. iteration order ---------- *)
Theorem smap_ref_sorted : forall s, smap_inv s ->
  StronglySorted (fun a b => bcmp (fst a) (fst b) = Lt) (smap_ref s).
Proof.
  intros s (Hnd & _). unfold smap_ref.
  pose proof (sort_keys_ssorted _ Hnd) as Hss.
  induction Hss as [|a l Hs IH Hf]; cbn [map]; [constructor|].
  constructor; [exact IH|]. apply Forall_forall. intros [x w] Hx.
  apply in_map_iff in Hx as [y [Hy Hyin]]. inversion Hy; subst x w. cbn [fst].
  rewrite Forall_forall in Hf. apply Hf. exact Hyin.
Qed.

(* the keys of the reference are exactly the keys of the map: no omissions *)
Theorem smap_ref_keys : forall s k, smap_inv s -> (In k (map fst (smap_ref s)) <-> map_get k (m s) <> None).
Proof.
  intros s k (Hnd & Hmnd & Hin). unfold smap_ref. rewrite map_map. cbn [fst]. rewrite map_id, sort_keys_in.
  apply Hin.
Qed.

(* ---------- why smap_inv needs [NoDup (map fst (m s))] ----------
   With only [NoDup keys /\ (In k keys <-> map_get k m <> None)], the association list [(k,1);(k,2)] with keys [k]
   satisfies the invariant, but deleting k leaves [(k,2)] in the list with keys = []. *)
Example smap_delete_needs_unique_map_keys :
  let s := {| keys := [[1]]; m := [([1], 1); ([1], 2)] |} in
  (NoDup (keys s) /\ forall k, In k (keys s) <-> map_get k (m s) <> None) /\
  let s' := fst (smap_delete [1] s) in
  keys s' = [] /\ map_get [1] (m s') = Some 2.
Proof.
  cbv zeta. split; [|split; reflexivity]. split.
  - constructor; [intros []|constructor].
  - intros k. cbn [keys m map_get In]. destruct (beqb k [1]) eqn:E.
    + apply beqb_eq in E. subst k. split; [congruence | auto].
    + split; [|congruence]. intros [H|[]]. subst k. rewrite sm_beqb_refl in E. discriminate.
Qed.

Print Assumptions smap_empty_inv.
Print Assumptions smap_empty_ref.
Print Assumptions sort_keys_sorted.
Print Assumptions sort_keys_perm.
Print Assumptions sort_keys_idem.
Print Assumptions sort_keys_sorted_id.
Print Assumptions smap_set_spec.
Print Assumptions smap_get_spec.
Print Assumptions smap_has_spec.
Print Assumptions smap_delete_spec.
Print Assumptions smap_all_spec.
Print Assumptions smap_keys_spec.
Print Assumptions smap_values_spec.
Print Assumptions smap_size_spec.
Print Assumptions smap_ref_sorted.
Print Assumptions smap_ref_keys.
