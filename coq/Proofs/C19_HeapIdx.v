(* C19: the index-assigner call-backs of the binary heap (Model/HeapIdx.v) track positions.
   1. the instrumented functions compute the same slices as the pure model (Model/Heap.v), so every theorem of
      C19_Heap.v transfers;
   2. for a duplicate-free slice, a client that records the last reported index of every element ([apply_events])
      knows the position of every element after Push / Pop / Fix ([tracks]); the popped element is reported -1,
      except for the quirk of Pop on a one-element heap, where it is reported -1 and then 0. *)
From Coq Require Import List Arith Bool ZArith Lia Permutation.
From RV Require Import Model.Heap Model.HeapIdx Proofs.C19_Heap.
Import ListNotations.

Local Arguments Nat.mul : simpl never.
Local Arguments Nat.div2 : simpl never.

Section HeapIdxProofs.
  Context {A : Type} (lt : A -> A -> bool).

  (* ------------------------------------------------------------------ *)
  (* 1. the non-event components are the pure functions                  *)
  (* ------------------------------------------------------------------ *)

  Lemma swapE_fst : forall i j (l : list A), fst (swapE i j l) = swap i j l.
  Proof. reflexivity. Qed.

  Lemma up_loopE_S : forall f (l : list A) i,
      up_loopE lt (S f) l (S i) =
        match nth_error l (S i), nth_error l (Nat.div2 (S i - 1)) with
        | Some vi, Some vp =>
            if lt vi vp
            then (fst (up_loopE lt f (swap (S i) (Nat.div2 (S i - 1)) l) (Nat.div2 (S i - 1))),
                  snd (swapE (S i) (Nat.div2 (S i - 1)) l) ++
                  snd (up_loopE lt f (swap (S i) (Nat.div2 (S i - 1)) l) (Nat.div2 (S i - 1))))
            else (l, [])
        | _, _ => (l, [])
        end.
  Proof.
    intros f l i.
    change (up_loopE lt (S f) l (S i)) with
      (match nth_error l (S i), nth_error l (Nat.div2 (S i - 1)) with
       | Some vi, Some vp =>
           if lt vi vp
           then let '(l1, e1) := swapE (S i) (Nat.div2 (S i - 1)) l in
                let '(l2, e2) := up_loopE lt f l1 (Nat.div2 (S i - 1)) in (l2, e1 ++ e2)
           else (l, [])
       | _, _ => (l, [])
       end).
    destruct (nth_error l (S i)) as [vi|]; [|reflexivity].
    destruct (nth_error l (Nat.div2 (S i - 1))) as [vp|]; [|reflexivity].
    destruct (lt vi vp); [|reflexivity].
    unfold swapE at 1. cbv iota beta zeta.
    destruct (up_loopE lt f _ _) as [l2 e2]; reflexivity.
  Qed.

  Lemma up_loopE_fst : forall f (l : list A) i, fst (up_loopE lt f l i) = up_loop lt f l i.
  Proof.
    induction f as [|f IH]; intros l i; [reflexivity|].
    destruct i as [|i]; [reflexivity|].
    rewrite up_loopE_S, up_loop_S.
    destruct (nth_error l (S i)) as [vi|]; [|reflexivity].
    destruct (nth_error l (Nat.div2 (S i - 1))) as [vp|]; [|reflexivity].
    destruct (lt vi vp); [|reflexivity].
    simpl fst. apply IH.
  Qed.

  Lemma upE_fst : forall (l : list A) i, fst (upE lt l i) = up lt l i.
  Proof. intros l i; apply up_loopE_fst. Qed.

  (* the child chosen by down *)
  Definition down_child (l : list A) (i : nat) (vl : A) : nat :=
    match nth_error l (2 * i + 2) with
    | Some vr => if lt vr vl then 2 * i + 2 else 2 * i + 1
    | None => 2 * i + 1
    end.

  Lemma down_loop_S' : forall f (l : list A) i,
      down_loop lt (S f) l i =
        match nth_error l (2 * i + 1) with
        | None => (l, i)
        | Some vl =>
            match nth_error l (down_child l i vl), nth_error l i with
            | Some vj, Some vi =>
                if lt vj vi then down_loop lt f (swap i (down_child l i vl) l) (down_child l i vl) else (l, i)
            | _, _ => (l, i)
            end
        end.
  Proof. reflexivity. Qed.

  Lemma down_loopE_S : forall f (l : list A) i,
      down_loopE lt (S f) l i =
        match nth_error l (2 * i + 1) with
        | None => (l, i, [])
        | Some vl =>
            match nth_error l (down_child l i vl), nth_error l i with
            | Some vj, Some vi =>
                if lt vj vi
                then (fst (down_loopE lt f (swap i (down_child l i vl) l) (down_child l i vl)),
                      snd (swapE i (down_child l i vl) l) ++
                      snd (down_loopE lt f (swap i (down_child l i vl) l) (down_child l i vl)))
                else (l, i, [])
            | _, _ => (l, i, [])
            end
        end.
  Proof.
    intros f l i.
    change (down_loopE lt (S f) l i) with
      (match nth_error l (2 * i + 1) with
       | None => (l, i, [])
       | Some vl =>
           match nth_error l (down_child l i vl), nth_error l i with
           | Some vj, Some vi =>
               if lt vj vi
               then let '(l1, e1) := swapE i (down_child l i vl) l in
                    let '(l2, i2, e2) := down_loopE lt f l1 (down_child l i vl) in (l2, i2, e1 ++ e2)
               else (l, i, [])
           | _, _ => (l, i, [])
           end
       end).
    destruct (nth_error l (2 * i + 1)) as [vl|]; [|reflexivity].
    destruct (nth_error l (down_child l i vl)) as [vj|]; [|reflexivity].
    destruct (nth_error l i) as [vi|]; [|reflexivity].
    destruct (lt vj vi); [|reflexivity].
    unfold swapE at 1. cbv iota beta zeta.
    destruct (down_loopE lt f _ _) as [[l2 i2] e2]; reflexivity.
  Qed.

  Lemma down_loopE_fst : forall f (l : list A) i, fst (down_loopE lt f l i) = down_loop lt f l i.
  Proof.
    induction f as [|f IH]; intros l i; [reflexivity|].
    rewrite down_loopE_S, down_loop_S'.
    destruct (nth_error l (2 * i + 1)) as [vl|]; [|reflexivity].
    destruct (nth_error l (down_child l i vl)) as [vj|]; [|reflexivity].
    destruct (nth_error l i) as [vi|]; [|reflexivity].
    destruct (lt vj vi); [|reflexivity].
    simpl fst. apply IH.
  Qed.

  Lemma downE_unfold : forall (l : list A) i,
      downE lt l i =
        (fst (down_loop lt (length l) l i), i <? snd (down_loop lt (length l) l i),
         snd (down_loopE lt (length l) l i)).
  Proof.
    intros l i. unfold downE.
    rewrite <- down_loopE_fst.
    destruct (down_loopE lt (length l) l i) as [[l' i'] e]; reflexivity.
  Qed.

  Lemma downE_fst : forall (l : list A) i, fst (downE lt l i) = down lt l i.
  Proof.
    intros l i. rewrite downE_unfold. unfold down.
    destruct (down_loop lt (length l) l i) as [l' i']; reflexivity.
  Qed.

  Theorem pushE_fst : forall x (l : list A), fst (pushE lt x l) = push lt x l.
  Proof.
    intros x l. unfold pushE, push.
    assert (Hlen : length (l ++ [x]) - 1 = length l) by (rewrite app_length; simpl; lia).
    rewrite Hlen. rewrite <- upE_fst.
    destruct (upE lt (l ++ [x]) (length l)) as [l2 e]; reflexivity.
  Qed.

  Theorem popE_fst : forall l : list A, fst (popE lt l) = pop lt l.
  Proof.
    intros l. destruct l as [|x r]; [reflexivity|].
    unfold popE, pop.
    destruct (nth_error (x :: r) (length (x :: r) - 1)) as [y|] eqn:Hy.
    - destruct (0 <? length (x :: r) - 1); [|reflexivity].
      rewrite <- downE_fst.
      destruct (downE lt (removelast (upd 0 y (x :: r))) 0) as [[l2 m] e]; reflexivity.
    - (* unreachable branch: n < len *)
      apply nth_error_None in Hy. simpl in Hy. lia.
  Qed.

  Lemma down_child_gt : forall (l : list A) i vl, i < down_child l i vl.
  Proof.
    intros l i vl. unfold down_child.
    destruct (nth_error l (2 * i + 2)) as [vr|]; [destruct (lt vr vl)|]; lia.
  Qed.

  Lemma down_loop_ge' : forall f (l : list A) i, i <= snd (down_loop lt f l i).
  Proof.
    induction f as [|f IH]; intros l i; [simpl; lia|].
    rewrite down_loop_S'.
    destruct (nth_error l (2 * i + 1)) as [vl|]; [|simpl; lia].
    destruct (nth_error l (down_child l i vl)) as [vj|]; [|simpl; lia].
    destruct (nth_error l i) as [vi|]; [|simpl; lia].
    destruct (lt vj vi); [|simpl; lia].
    pose proof (IH (swap i (down_child l i vl) l) (down_child l i vl)) as Hge.
    pose proof (down_child_gt l i vl) as Hgt. lia.
  Qed.

  (* a down that does not move changes nothing and emits nothing *)
  Lemma down_loopE_not_moved : forall f (l : list A) i,
      snd (down_loop lt f l i) <= i -> down_loopE lt f l i = (l, i, []).
  Proof.
    intros f l i Hle. destruct f as [|f]; [reflexivity|].
    rewrite down_loopE_S. rewrite down_loop_S' in Hle.
    destruct (nth_error l (2 * i + 1)) as [vl|]; [|reflexivity].
    destruct (nth_error l (down_child l i vl)) as [vj|]; [|reflexivity].
    destruct (nth_error l i) as [vi|]; [|reflexivity].
    destruct (lt vj vi); [|reflexivity].
    pose proof (down_loop_ge' f (swap i (down_child l i vl) l) (down_child l i vl)) as Hge.
    pose proof (down_child_gt l i vl) as Hgt. lia.
  Qed.

  Lemma fixE_unfold : forall (l : list A) i,
      fixE lt l i =
        if i <? snd (down_loop lt (length l) l i)
        then (fst (down_loop lt (length l) l i), snd (down_loopE lt (length l) l i))
        else (up lt l i, snd (upE lt l i)).
  Proof.
    intros l i. unfold fixE. rewrite downE_unfold.
    destruct (i <? snd (down_loop lt (length l) l i)) eqn:Hm; [reflexivity|].
    apply Nat.ltb_ge in Hm.
    pose proof (down_loopE_not_moved _ _ _ Hm) as E.
    rewrite <- down_loopE_fst. rewrite E. simpl fst. simpl snd.
    rewrite <- upE_fst.
    destruct (upE lt l i) as [l2 e2]; reflexivity.
  Qed.

  Theorem fixE_fst : forall (l : list A) i, fst (fixE lt l i) = fix_ lt l i.
  Proof.
    intros l i. rewrite fixE_unfold, fix_unfold.
    destruct (i <? snd (down_loop lt (length l) l i)); reflexivity.
  Qed.

  (* shape of the events of push / pop *)
  Lemma pushE_snd : forall x (l : list A),
      snd (pushE lt x l) = (x, Z.of_nat (length l)) :: snd (up_loopE lt (length (l ++ [x])) (l ++ [x]) (length l)).
  Proof.
    intros x l. unfold pushE, upE.
    assert (Hlen : length (l ++ [x]) - 1 = length l) by (rewrite app_length; simpl; lia).
    rewrite Hlen.
    destruct (up_loopE lt (length (l ++ [x])) (l ++ [x]) (length l)) as [l2 e]. simpl snd.
    f_equal. f_equal. rewrite app_length. simpl. lia.
  Qed.

  Lemma popE_nil : popE lt ([] : list A) = (None, [], []).
  Proof. reflexivity. Qed.

  Lemma popE_single : forall x : A, popE lt [x] = (Some x, [], [(x, (-1)%Z); (x, 0%Z)]).
  Proof. reflexivity. Qed.

  Lemma popE_snoc : forall (x : A) r y,
      popE lt (x :: r ++ [y]) =
        (Some x, fst (down_loop lt (length (y :: r)) (y :: r) 0),
         (x, (-1)%Z) :: (y, 0%Z) :: snd (down_loopE lt (length (y :: r)) (y :: r) 0)).
  Proof.
    intros x r y. unfold popE.
    assert (Hn : length (x :: r ++ [y]) - 1 = S (length r)).
    { simpl. rewrite app_length; simpl; lia. }
    rewrite Hn.
    assert (Hy : nth_error (x :: r ++ [y]) (S (length r)) = Some y).
    { simpl. rewrite nth_error_app2 by lia. rewrite Nat.sub_diag. reflexivity. }
    rewrite Hy.
    assert (Hl : removelast (upd 0 y (x :: r ++ [y])) = y :: r).
    { change (upd 0 y (x :: r ++ [y])) with ((y :: r) ++ [y]).
      apply removelast_last. }
    rewrite Hl.
    change (0 <? S (length r)) with true. cbv iota.
    change (nth_error (upd 0 y (x :: r ++ [y])) 0) with (Some y). cbv iota.
    rewrite downE_unfold. reflexivity.
  Qed.

  Lemma popE_snoc_snd : forall (x : A) r y,
      snd (popE lt (x :: r ++ [y])) =
        (x, (-1)%Z) :: (y, 0%Z) :: snd (down_loopE lt (length (y :: r)) (y :: r) 0).
  Proof. intros x r y. rewrite popE_snoc. reflexivity. Qed.

  (* ------------------------------------------------------------------ *)
  (* 2. the call-backs track positions                                   *)
  (* ------------------------------------------------------------------ *)

  Section Tracks.
    Context (eqb : A -> A -> bool).
    Hypothesis Heqb : forall a b, eqb a b = true <-> a = b.

    Lemma eqb_same : forall a, eqb a a = true.
    Proof. intro a. apply Heqb. reflexivity. Qed.

    Lemma eqb_diff : forall a b, a <> b -> eqb a b = false.
    Proof.
      intros a b Hne. destruct (eqb a b) eqn:E; [|reflexivity].
      exfalso. apply Hne. apply Heqb. exact E.
    Qed.

    Lemma apply_events_cons : forall a k r (idx : A -> Z),
        apply_events eqb ((a, k) :: r) idx =
          apply_events eqb r (fun y => if eqb y a then k else idx y).
    Proof. reflexivity. Qed.

    Lemma apply_events_app : forall e1 e2 (idx : A -> Z),
        apply_events eqb (e1 ++ e2) idx = apply_events eqb e2 (apply_events eqb e1 idx).
    Proof.
      induction e1 as [|[a k] r IH]; intros e2 idx; [reflexivity|].
      simpl. apply IH.
    Qed.

    (* an element that no event mentions keeps its index *)
    Lemma apply_events_notin : forall evs (idx : A -> Z) x,
        (forall a k, In (a, k) evs -> a <> x) -> apply_events eqb evs idx x = idx x.
    Proof.
      induction evs as [|[a k] r IH]; intros idx x Hnot; [reflexivity|].
      rewrite apply_events_cons. rewrite IH.
      - rewrite eqb_diff; [reflexivity|].
        intro E. apply (Hnot a k); [left; reflexivity|symmetry; exact E].
      - intros a' k' Hin. apply (Hnot a' k'). right; exact Hin.
    Qed.

    (* every event is about an element of the slice *)
    Definition evs_in (evs : list (A * Z)) (l : list A) : Prop :=
      forall a k, In (a, k) evs -> In a l.

    Lemma nodup_pos_inj : forall (l : list A) i j a,
        NoDup l -> nth_error l i = Some a -> nth_error l j = Some a -> i = j.
    Proof.
      intros l i j a Hnd Hi Hj.
      apply (proj1 (NoDup_nth_error l) Hnd).
      - apply nth_error_Some. congruence.
      - congruence.
    Qed.

    Lemma swap_nodup : forall i j (l : list A), NoDup l -> NoDup (swap i j l).
    Proof.
      intros i j l Hnd.
      apply (Permutation_NoDup (Permutation_sym (swap_perm i j l))). exact Hnd.
    Qed.

    Lemma tracks_nil : forall idx : A -> Z, tracks [] idx.
    Proof. intros idx i x H. destruct i; discriminate H. Qed.

    (* ---- swap ---- *)

    Lemma swapE_none : forall i j (l : list A),
        nth_error l i = None \/ nth_error l j = None -> swapE i j l = (l, []).
    Proof.
      intros i j l H. unfold swapE.
      assert (Hs : swap i j l = l).
      { unfold swap. destruct H as [H|H]; rewrite H; [reflexivity|].
        destruct (nth_error l i); reflexivity. }
      rewrite Hs. destruct H as [H|H]; rewrite H; [reflexivity|].
      destruct (nth_error l i); reflexivity.
    Qed.

    Lemma swapE_snd : forall i j (l : list A) a b,
        nth_error l i = Some a -> nth_error l j = Some b ->
        snd (swapE i j l) = [((if i =? j then a else b), Z.of_nat i); (a, Z.of_nat j)].
    Proof.
      intros i j l a b Hi Hj. unfold swapE. simpl snd.
      rewrite (nth_error_swap l i j a b i Hi Hj).
      rewrite (nth_error_swap l i j a b j Hi Hj).
      rewrite !Nat.eqb_refl.
      destruct (i =? j); reflexivity.
    Qed.

    Lemma swapE_evs_in : forall i j (l : list A), evs_in (snd (swapE i j l)) l.
    Proof.
      intros i j l a k Hin. unfold swapE in Hin. simpl snd in Hin.
      apply (Permutation_in a (swap_perm i j l)).
      destruct (nth_error (swap i j l) i) as [c|] eqn:Hc; [|destruct Hin].
      destruct (nth_error (swap i j l) j) as [d|] eqn:Hd; [|destruct Hin].
      destruct Hin as [E|[E|[]]]; inversion E; subst.
      - eapply nth_error_In; exact Hc.
      - eapply nth_error_In; exact Hd.
    Qed.

    (* key lemma: on a duplicate-free slice, the two call-backs of swap keep the client's view exact *)
    Lemma swapE_tracks : forall i j (l : list A) idx,
        NoDup l -> tracks l idx ->
        tracks (swap i j l) (apply_events eqb (snd (swapE i j l)) idx).
    Proof.
      intros i j l idx Hnd Htr.
      destruct (nth_error l i) as [a|] eqn:Hi;
        [|rewrite <- swapE_fst; rewrite swapE_none by (left; exact Hi); exact Htr].
      destruct (nth_error l j) as [b|] eqn:Hj;
        [|rewrite <- swapE_fst; rewrite swapE_none by (right; exact Hj); exact Htr].
      rewrite (swapE_snd i j l a b Hi Hj).
      rewrite !apply_events_cons. simpl apply_events.
      intros k x Hk.
      rewrite (nth_error_swap l i j a b k Hi Hj) in Hk.
      destruct (Nat.eqb_spec k j) as [Ekj|Nkj].
      - inversion Hk; subst x k. rewrite eqb_same. reflexivity.
      - destruct (Nat.eqb_spec k i) as [Eki|Nki].
        + inversion Hk; subst x k.
          destruct (Nat.eqb_spec i j) as [Eij|Nij]; [contradiction|].
          rewrite eqb_diff.
          * rewrite eqb_same. reflexivity.
          * intro E. subst b. apply Nij. exact (nodup_pos_inj l i j a Hnd Hi Hj).
        + assert (Hxa : x <> a).
          { intro E. subst x. apply Nki. exact (nodup_pos_inj l k i a Hnd Hk Hi). }
          assert (Hxb : x <> b).
          { intro E. subst x. apply Nkj. exact (nodup_pos_inj l k j b Hnd Hk Hj). }
          rewrite (eqb_diff x a Hxa).
          destruct (i =? j); [rewrite (eqb_diff x a Hxa)|rewrite (eqb_diff x b Hxb)];
            exact (Htr k x Hk).
    Qed.

    (* ---- up ---- *)

    Lemma up_loopE_tracks : forall f (l : list A) i idx,
        NoDup l -> tracks l idx ->
        tracks (up_loop lt f l i) (apply_events eqb (snd (up_loopE lt f l i)) idx).
    Proof.
      induction f as [|f IH]; intros l i idx Hnd Htr; [exact Htr|].
      destruct i as [|i]; [exact Htr|].
      rewrite up_loopE_S, up_loop_S.
      destruct (nth_error l (S i)) as [vi|]; [|exact Htr].
      destruct (nth_error l (Nat.div2 (S i - 1))) as [vp|]; [|exact Htr].
      destruct (lt vi vp); [|exact Htr].
      simpl snd. rewrite apply_events_app.
      apply IH; [apply swap_nodup; exact Hnd|apply swapE_tracks; assumption].
    Qed.

    Lemma up_loopE_evs_in : forall f (l : list A) i, evs_in (snd (up_loopE lt f l i)) l.
    Proof.
      induction f as [|f IH]; intros l i a k Hin; [destruct Hin|].
      destruct i as [|i]; [destruct Hin|].
      rewrite up_loopE_S in Hin.
      destruct (nth_error l (S i)) as [vi|]; [|destruct Hin].
      destruct (nth_error l (Nat.div2 (S i - 1))) as [vp|]; [|destruct Hin].
      destruct (lt vi vp); [|destruct Hin].
      simpl snd in Hin. apply in_app_or in Hin. destruct Hin as [Hin|Hin].
      - exact (swapE_evs_in _ _ _ a k Hin).
      - apply (Permutation_in a (swap_perm (S i) (Nat.div2 (S i - 1)) l)).
        exact (IH _ _ a k Hin).
    Qed.

    Theorem upE_tracks : forall (l : list A) i idx,
        NoDup l -> tracks l idx ->
        tracks (up lt l i) (apply_events eqb (snd (upE lt l i)) idx).
    Proof. intros l i idx Hnd Htr. apply up_loopE_tracks; assumption. Qed.

    (* ---- down ---- *)

    Lemma down_loopE_tracks : forall f (l : list A) i idx,
        NoDup l -> tracks l idx ->
        tracks (fst (down_loop lt f l i)) (apply_events eqb (snd (down_loopE lt f l i)) idx).
    Proof.
      induction f as [|f IH]; intros l i idx Hnd Htr; [exact Htr|].
      rewrite down_loopE_S, down_loop_S'.
      destruct (nth_error l (2 * i + 1)) as [vl|]; [|exact Htr].
      destruct (nth_error l (down_child l i vl)) as [vj|]; [|exact Htr].
      destruct (nth_error l i) as [vi|]; [|exact Htr].
      destruct (lt vj vi); [|exact Htr].
      simpl snd. rewrite apply_events_app.
      apply IH; [apply swap_nodup; exact Hnd|apply swapE_tracks; assumption].
    Qed.

    Lemma down_loopE_evs_in : forall f (l : list A) i, evs_in (snd (down_loopE lt f l i)) l.
    Proof.
      induction f as [|f IH]; intros l i a k Hin; [destruct Hin|].
      rewrite down_loopE_S in Hin.
      destruct (nth_error l (2 * i + 1)) as [vl|]; [|destruct Hin].
      destruct (nth_error l (down_child l i vl)) as [vj|]; [|destruct Hin].
      destruct (nth_error l i) as [vi|]; [|destruct Hin].
      destruct (lt vj vi); [|destruct Hin].
      simpl snd in Hin. apply in_app_or in Hin. destruct Hin as [Hin|Hin].
      - exact (swapE_evs_in _ _ _ a k Hin).
      - apply (Permutation_in a (swap_perm i (down_child l i vl) l)).
        exact (IH _ _ a k Hin).
    Qed.

    (* ---- Push ---- *)

    Theorem pushE_tracks : forall x (l : list A) idx,
        NoDup (l ++ [x]) -> tracks l idx ->
        tracks (push lt x l) (apply_events eqb (snd (pushE lt x l)) idx).
    Proof.
      intros x l idx Hnd Htr.
      rewrite pushE_snd, apply_events_cons. unfold push, up.
      apply up_loopE_tracks; [exact Hnd|].
      assert (Hx : nth_error (l ++ [x]) (length l) = Some x).
      { rewrite nth_error_app2 by lia. rewrite Nat.sub_diag. reflexivity. }
      intros k z Hk.
      destruct (Nat.lt_ge_cases k (length l)) as [Hlt|Hge].
      - assert (Hzx : z <> x).
        { intro E. subst z.
          pose proof (nodup_pos_inj _ _ _ _ Hnd Hk Hx) as E. lia. }
        rewrite (eqb_diff z x Hzx).
        rewrite nth_error_app1 in Hk by exact Hlt. exact (Htr k z Hk).
      - rewrite nth_error_app2 in Hk by exact Hge.
        destruct (k - length l) as [|m] eqn:Em.
        + simpl in Hk. inversion Hk; subst z. rewrite eqb_same.
          f_equal. lia.
        + simpl in Hk. destruct m; discriminate Hk.
    Qed.

    (* ---- Pop ---- *)

    Theorem popE_tracks : forall (l : list A) idx x l',
        NoDup l -> tracks l idx -> pop lt l = (Some x, l') ->
        tracks l' (apply_events eqb (snd (popE lt l)) idx) /\
        (length l > 1 -> apply_events eqb (snd (popE lt l)) idx x = (-1)%Z).
    Proof.
      intros l idx x l' Hnd Htr Hpop.
      destruct l as [|x0 r]; [rewrite pop_nil in Hpop; discriminate Hpop|].
      destruct (list_snoc_cases r) as [Er|[r' [y Er]]]; subst r.
      - rewrite pop_single in Hpop. inversion Hpop; subst x l'.
        split; [apply tracks_nil|]. simpl length. lia.
      - rewrite pop_snoc in Hpop. inversion Hpop; subst x l'. clear Hpop.
        rewrite popE_snoc_snd. rewrite !apply_events_cons. rewrite fst_down.
        (* facts from NoDup (x0 :: r' ++ [y]) *)
        assert (Hy : nth_error (x0 :: r' ++ [y]) (S (length r')) = Some y).
        { simpl. rewrite nth_error_app2 by lia. rewrite Nat.sub_diag. reflexivity. }
        assert (Hx0 : nth_error (x0 :: r' ++ [y]) 0 = Some x0) by reflexivity.
        assert (Hperm : Permutation (r' ++ [y]) (y :: r')).
        { apply Permutation_sym, Permutation_cons_append. }
        assert (Hnd1 : NoDup (y :: r')).
        { apply (Permutation_NoDup Hperm). inversion Hnd; assumption. }
        assert (Hnotin : ~ In x0 (y :: r')).
        { intro Hin. apply (Permutation_in _ (Permutation_sym Hperm)) in Hin.
          inversion Hnd; contradiction. }
        split.
        + apply down_loopE_tracks; [exact Hnd1|].
          intros k z Hk. destruct k as [|k].
          * simpl in Hk. inversion Hk; subst z. rewrite eqb_same. reflexivity.
          * simpl in Hk.
            assert (Hkl : k < length r') by (apply nth_error_Some; congruence).
            assert (Hz : nth_error (x0 :: r' ++ [y]) (S k) = Some z).
            { simpl. rewrite nth_error_app1 by exact Hkl. exact Hk. }
            assert (Hzy : z <> y).
            { intro E. subst z. pose proof (nodup_pos_inj _ _ _ _ Hnd Hz Hy) as E. lia. }
            assert (Hzx : z <> x0).
            { intro E. subst z. pose proof (nodup_pos_inj _ _ _ _ Hnd Hz Hx0) as E. lia. }
            rewrite (eqb_diff z y Hzy), (eqb_diff z x0 Hzx).
            exact (Htr (S k) z Hz).
        + intros _. rewrite apply_events_notin.
          * rewrite eqb_diff; [rewrite eqb_same; reflexivity|].
            intro E. apply Hnotin. left. symmetry; exact E.
          * intros a k Hin E. subst a. apply Hnotin.
            exact (down_loopE_evs_in _ _ _ x0 k Hin).
    Qed.

    Corollary popE_popped_index : forall (l : list A) idx x l',
        NoDup l -> tracks l idx -> pop lt l = (Some x, l') -> length l > 1 ->
        apply_events eqb (snd (popE lt l)) idx x = (-1)%Z.
    Proof.
      intros l idx x l' Hnd Htr Hpop Hlen.
      exact (proj2 (popE_tracks l idx x l' Hnd Htr Hpop) Hlen).
    Qed.

    (* the quirk: Pop on a one-element heap reports -1 and then 0 for the popped element
       (data[0] is still x when assign(data[0], 0) runs), so the client is left believing that the
       popped element sits at position 0 *)
    Theorem popE_last_element_quirk : forall (l : list A) idx x l',
        length l = 1 -> pop lt l = (Some x, l') ->
        snd (popE lt l) = [(x, (-1)%Z); (x, 0%Z)] /\
        apply_events eqb (snd (popE lt l)) idx x = 0%Z.
    Proof.
      intros l idx x l' Hlen Hpop.
      destruct l as [|a [|b r]]; simpl in Hlen; try lia.
      rewrite pop_single in Hpop. inversion Hpop; subst x l'.
      rewrite popE_single. simpl snd. split; [reflexivity|].
      rewrite !apply_events_cons. simpl apply_events. rewrite eqb_same. reflexivity.
    Qed.

    (* ---- Fix ---- *)

    Theorem fixE_tracks_gen : forall (l : list A) i idx,
        NoDup l -> tracks l idx ->
        tracks (fix_ lt l i) (apply_events eqb (snd (fixE lt l i)) idx).
    Proof.
      intros l i idx Hnd Htr. rewrite fixE_unfold, fix_unfold.
      destruct (i <? snd (down_loop lt (length l) l i)); simpl snd.
      - apply down_loopE_tracks; assumption.
      - apply upE_tracks; assumption.
    Qed.

    Theorem fixE_tracks : forall (l : list A) i idx,
        NoDup l -> i < length l -> tracks l idx ->
        tracks (fix_ lt l i) (apply_events eqb (snd (fixE lt l i)) idx).
    Proof. intros l i idx Hnd _ Htr. apply fixE_tracks_gen; assumption. Qed.

    (* the slices stay duplicate-free, so the theorems chain over any sequence of operations *)
    Lemma push_nodup : forall x (l : list A), NoDup (l ++ [x]) -> NoDup (push lt x l).
    Proof.
      intros x l Hnd. unfold push.
      apply (Permutation_NoDup (Permutation_sym (up_perm lt (l ++ [x]) (length l)))). exact Hnd.
    Qed.

    Lemma pop_nodup : forall (l : list A) x l', NoDup l -> pop lt l = (Some x, l') -> NoDup l'.
    Proof.
      intros l x l' Hnd Hpop.
      pose proof (Permutation_NoDup (pop_perm lt l x l' Hpop) Hnd) as H.
      inversion H; assumption.
    Qed.

    Lemma fix_nodup : forall (l : list A) i, NoDup l -> NoDup (fix_ lt l i).
    Proof.
      intros l i Hnd.
      apply (Permutation_NoDup (Permutation_sym (fix_perm lt l i))). exact Hnd.
    Qed.
  End Tracks.
End HeapIdxProofs.

(* concrete check of the quirk and of tracking on a sample (A := nat) *)
Example quirk_sample :
  apply_events Nat.eqb (snd (popE Nat.ltb [4])) (fun _ => 0%Z) 4 = 0%Z /\
  map (apply_events Nat.eqb (snd (popE Nat.ltb [1; 2; 3; 5; 7; 4])) (fun _ => 99%Z)) [1; 2; 4; 3; 5; 7]
    = [(-1)%Z; 0%Z; 1%Z; 99%Z; 99%Z; 99%Z].
Proof. split; vm_compute; reflexivity. Qed.

(* audit: all exported theorems are closed (one tuple, one traversal) *)
Definition C19_heapidx_audit :=
  (@pushE_fst, @popE_fst, @fixE_fst, @swapE_tracks, @upE_tracks, @pushE_tracks, @popE_tracks,
   @popE_popped_index, @popE_last_element_quirk, @fixE_tracks, @fixE_tracks_gen,
   @push_nodup, @pop_nodup, @fix_nodup, @quirk_sample).
Print Assumptions C19_heapidx_audit.
