(* C16, static splitters: every split of the embedded / httpapi source has exactly one reader,
   for every split count and every runner count >= 1. *)
From Coq Require Import List NArith Bool Lia Permutation PeanoNat.
From RV Require Import Model.SplitTracker Model.Splitters.
Import ListNotations.

Lemma app_at_length {A} : forall (groups : list (list A)) gi x, length (app_at groups gi x) = length groups.
Proof. induction groups as [|g r IH]; intros [|k] x; cbn [app_at length]; auto. Qed.

Lemma app_at_perm {A} : forall (groups : list (list A)) gi x, (gi < length groups)%nat ->
  Permutation (concat (app_at groups gi x)) (x :: concat groups).
Proof.
  induction groups as [|g r IH]; intros gi x H; cbn [length] in H; [lia|]. destruct gi as [|k]; cbn [app_at concat].
  - rewrite <- app_assoc. cbn [app]. symmetry. apply Permutation_middle.
  - specialize (IH k x ltac:(lia)). rewrite IH. symmetry. apply Permutation_middle.
Qed.

Lemma partition_go_spec {A} : forall (l : list A) gi maxg groups,
  (gi <= maxg)%nat -> (maxg < length groups)%nat ->
  length (partition_go l gi maxg groups) = length groups /\
  Permutation (concat (partition_go l gi maxg groups)) (concat groups ++ l).
Proof.
  induction l as [|x r IH]; intros gi maxg groups Hgi Hmax; cbn [partition_go].
  - rewrite app_nil_r. split; [reflexivity|apply Permutation_refl].
  - assert (Hnext : ((if Nat.ltb gi maxg then S gi else O) <= maxg)%nat).
    { destruct (Nat.ltb gi maxg) eqn:E; [apply Nat.ltb_lt in E; lia | lia]. }
    destruct (IH _ maxg (app_at groups gi x) Hnext ltac:(rewrite app_at_length; exact Hmax)) as [Hlen Hperm].
    rewrite app_at_length in Hlen. split; [exact Hlen|].
    rewrite Hperm. rewrite (app_at_perm groups gi x ltac:(lia)). cbn [app]. apply Permutation_middle.
Qed.

Lemma concat_repeat_nil {A} : forall n, concat (repeat (@nil A) n) = [].
Proof. induction n; cbn; auto. Qed.

Lemma partition_spec {A} : forall (l : list A) n, (1 <= n)%nat ->
  length (partition l n) = n /\ Permutation (concat (partition l n)) l.
Proof.
  intros l n Hn. unfold partition.
  destruct (partition_go_spec l 0 (n - 1) (repeat [] n) ltac:(lia) ltac:(rewrite repeat_length; lia)) as [Hlen Hperm].
  rewrite repeat_length in Hlen. rewrite concat_repeat_nil in Hperm. split; [exact Hlen|exact Hperm].
Qed.

Open Scope N_scope.

Lemma in_iota_from : forall n s i, In i (iota_from s n) <-> s <= i < s + N.of_nat n.
Proof.
  induction n as [|n IH]; intros s i; cbn [iota_from In]; [lia|]. rewrite IH. lia.
Qed.

Lemma nodup_iota_from : forall n s, NoDup (iota_from s n).
Proof.
  induction n as [|n IH]; intro s; cbn [iota_from]; constructor; [|apply IH].
  rewrite in_iota_from. lia.
Qed.

Lemma nodup_concat_unique {A} : forall (gs : list (list A)) x j k,
  NoDup (concat gs) -> In x (nth j gs []) -> In x (nth k gs []) -> j = k.
Proof.
  induction gs as [|g r IH]; intros x j k Hnd Hj Hk.
  - destruct j; destruct Hj.
  - cbn [concat] in Hnd. destruct j as [|j], k as [|k]; cbn [nth] in *.
    + reflexivity.
    + exfalso. assert (Hin : In x (concat r)). { apply in_concat. exists (nth k r []). split; [|exact Hk]. apply nth_In. destruct (Nat.lt_ge_cases k (length r)) as [Hlt|Hge]; [exact Hlt|]. rewrite nth_overflow in Hk by exact Hge. destruct Hk. }
      revert Hnd Hj Hin. clear. induction g as [|y g IHg]; intros Hnd Hj Hin; [destruct Hj|]. cbn [app] in Hnd. inversion Hnd as [|? ? Hnotin Hnd']; subst.
      destruct Hj as [->|Hj]; [apply Hnotin; apply in_or_app; right; exact Hin | apply IHg; assumption].
    + exfalso. assert (Hin : In x (concat r)). { apply in_concat. exists (nth j r []). split; [|exact Hj]. apply nth_In. destruct (Nat.lt_ge_cases j (length r)) as [Hlt|Hge]; [exact Hlt|]. rewrite nth_overflow in Hj by exact Hge. destruct Hj. }
      revert Hnd Hk Hin. clear. induction g as [|y g IHg]; intros Hnd Hk Hin; [destruct Hk|]. cbn [app] in Hnd. inversion Hnd as [|? ? Hnotin Hnd']; subst.
      destruct Hk as [->|Hk]; [apply Hnotin; apply in_or_app; right; exact Hin | apply IHg; assumption].
    + f_equal. eapply IH; [|exact Hj|exact Hk]. revert Hnd. clear. induction g as [|y g IHg]; intro H; [exact H|]. cbn [app] in H. inversion H; subst. apply IHg. assumption.
Qed.

(* embedded: for every split count and runner count >= 1 there is one group per runner and every split
   0..split_count-1 is in the group of exactly one runner *)
Theorem one_reader_embedded : forall split_count runners, (1 <= runners)%nat ->
  length (embedded_assign split_count runners) = runners /\
  forall i, i < N.of_nat split_count ->
    exists j, (j < runners)%nat /\ In i (nth j (embedded_assign split_count runners) []) /\
              forall k, In i (nth k (embedded_assign split_count runners) []) -> k = j.
Proof.
  intros sc r Hr. unfold embedded_assign. destruct (partition_spec (iota_from 0 sc) r Hr) as [Hlen Hperm].
  split; [exact Hlen|]. intros i Hi.
  assert (Hin : In i (concat (partition (iota_from 0 sc) r))).
  { eapply Permutation_in; [symmetry; exact Hperm|]. apply in_iota_from. lia. }
  apply in_concat in Hin. destruct Hin as [g [Hg Hig]]. destruct (In_nth _ _ [] Hg) as [j [Hj Hnth]].
  exists j. split; [rewrite Hlen in Hj; exact Hj|]. split; [rewrite Hnth; exact Hig|].
  intros k Hk. eapply nodup_concat_unique; [|exact Hk|rewrite Hnth; exact Hig].
  eapply Permutation_NoDup; [symmetry; exact Hperm|apply nodup_iota_from].
Qed.

(* no other split ids are handed out *)
Theorem embedded_only_splits : forall split_count runners j i, (1 <= runners)%nat ->
  In i (nth j (embedded_assign split_count runners) []) -> i < N.of_nat split_count.
Proof.
  intros sc r j i Hr Hin. unfold embedded_assign in Hin. destruct (partition_spec (iota_from 0 sc) r Hr) as [Hlen Hperm].
  assert (Hc : In i (concat (partition (iota_from 0 sc) r))).
  { apply in_concat. exists (nth j (partition (iota_from 0 sc) r) []). split; [|exact Hin]. apply nth_In.
    destruct (Nat.lt_ge_cases j (length (partition (iota_from 0 sc) r))) as [H|H]; [exact H|]. rewrite nth_overflow in Hin by exact H. destruct Hin. }
  eapply Permutation_in in Hc; [|exact Hperm]. apply in_iota_from in Hc. lia.
Qed.

(* restored embedded splits resume from their last checkpointed cursor *)
Theorem embedded_resume : forall states split c,
  embedded_cursor states split = Some c -> In (split, c) states.
Proof.
  intros states split c H. unfold embedded_cursor in H. destruct (find _ (rev states)) as [[a b]|] eqn:E; [|discriminate].
  inversion H; subst. apply find_some in E. destruct E as [Hin Heq]. cbn [fst] in Heq. apply N.eqb_eq in Heq. subst.
  apply in_rev. exact Hin.
Qed.

(* httpapi: exactly one runner (the first) reads the single split, from the checkpointed cursor *)
Theorem one_reader_httpapi : forall runners states, (1 <= runners)%nat ->
  httpapi_assign runners states = [(0, httpapi_cursor states)].
Proof. intros [|r] states H; [lia|reflexivity]. Qed.
