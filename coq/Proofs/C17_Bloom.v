(* dkv/bloom/bloom.go : the filter never answers "absent" for a key that was added (no false negative),
   and Decode inverts Encode on every well-formed filter, in particular on the filter a table writer builds. *)
From RV Require Import Model.SstTable Proofs.C17_Codec.
From Coq Require Import ZifyN ZifyNat ZifyBool.
Open Scope N_scope.

(* ---------- upd_nth ---------- *)
Lemma upd_nth_length : forall l n f, length (upd_nth n f l) = length l.
Proof.
  induction l as [|x l IH]; intros n f; [destruct n; reflexivity|].
  destruct n as [|n]; cbn [upd_nth length]; [reflexivity|]. rewrite IH. reflexivity.
Qed.

Lemma nth_upd_nth_same : forall l n f, (n < length l)%nat -> nth n (upd_nth n f l) 0 = f (nth n l 0).
Proof.
  induction l as [|x l IH]; intros n f Hn; [cbn [length] in Hn; lia|].
  destruct n as [|n]; cbn [upd_nth nth]; [reflexivity|]. apply IH. cbn [length] in Hn. lia.
Qed.

(* or-ing something into one word never clears a bit of any word *)
Lemma testbit_upd_nth_lor : forall l n m x b,
  N.testbit (nth m l 0) b = true ->
  N.testbit (nth m (upd_nth n (fun w => N.lor w x) l) 0) b = true.
Proof.
  induction l as [|w l IH]; intros n m x b Hb; [destruct n; exact Hb|].
  destruct n as [|n]; destruct m as [|m]; cbn [upd_nth nth] in *.
  - rewrite N.lor_spec, Hb. reflexivity.
  - exact Hb.
  - exact Hb.
  - apply IH. exact Hb.
Qed.

Lemma Forall_upd_nth (P : N -> Prop) : forall l n f,
  (forall w, P w -> P (f w)) -> Forall P l -> Forall P (upd_nth n f l).
Proof.
  induction l as [|x l IH]; intros n f Hf Hl; [destruct n; constructor|].
  inversion Hl as [|? ? Hx Hl']; subst.
  destruct n as [|n]; cbn [upd_nth]; constructor; auto.
Qed.

(* ---------- set_bit / get_bit ---------- *)
Lemma set_bit_length ws p : length (set_bit ws p) = length ws.
Proof. unfold set_bit. apply upd_nth_length. Qed.

Lemma get_bit_set_bit_same ws p :
  (N.to_nat (p / 64) < length ws)%nat -> get_bit (set_bit ws p) p = true.
Proof.
  intros Hp. unfold get_bit, set_bit. rewrite (nth_upd_nth_same _ _ _ Hp).
  rewrite N.lor_spec, N.shiftl_1_l, N.pow2_bits_true. apply orb_true_r.
Qed.

Lemma get_bit_set_bit_mono ws q p : get_bit ws p = true -> get_bit (set_bit ws q) p = true.
Proof. unfold get_bit, set_bit. apply testbit_upd_nth_lor. Qed.

(* ---------- the fold of bf_add, for an arbitrary index function ---------- *)
Section Fold.
  Variable idx : N -> N.
  Let step := fun (ws : list N) (i : N) => set_bit ws (idx i).

  Lemma fold_set_length : forall l ws, length (fold_left step l ws) = length ws.
  Proof.
    induction l as [|i l IH]; intros ws; [reflexivity|].
    cbn [fold_left]. rewrite IH. unfold step. apply set_bit_length.
  Qed.

  Lemma fold_set_mono : forall l ws p, get_bit ws p = true -> get_bit (fold_left step l ws) p = true.
  Proof.
    induction l as [|i l IH]; intros ws p Hp; [exact Hp|].
    cbn [fold_left]. apply IH. unfold step. apply get_bit_set_bit_mono. exact Hp.
  Qed.

  Lemma fold_set_sets : forall l ws i,
    (forall j, (N.to_nat (idx j / 64) < length ws)%nat) -> In i l ->
    get_bit (fold_left step l ws) (idx i) = true.
  Proof.
    induction l as [|j l IH]; intros ws i Hb Hi; [destruct Hi|].
    cbn [fold_left]. destruct Hi as [Hi|Hi].
    - subst j. apply fold_set_mono. unfold step. apply get_bit_set_bit_same. apply Hb.
    - apply IH; [|exact Hi]. intros k. unfold step. rewrite set_bit_length. apply Hb.
  Qed.

  Lemma fold_set_Forall (P : N -> Prop) : forall l ws,
    (forall w b, b < 64 -> P w -> P (N.lor w (N.shiftl 1 b))) ->
    Forall P ws -> Forall P (fold_left step l ws).
  Proof.
    induction l as [|j l IH]; intros ws HP Hws; [exact Hws|].
    cbn [fold_left]. apply IH; [exact HP|]. unfold step, set_bit.
    apply Forall_upd_nth; [|exact Hws]. intros w Hw. apply HP; [|exact Hw].
    apply N.mod_lt. discriminate.
  Qed.
End Fold.

(* ---------- bf_add / bf_add_all keep the shape ---------- *)
Lemma bf_add_size bf k : bf_size (bf_add bf k) = bf_size bf. Proof. reflexivity. Qed.
Lemma bf_add_hashes bf k : bf_hashes (bf_add bf k) = bf_hashes bf. Proof. reflexivity. Qed.
Lemma bf_add_words_length bf k : length (bf_words (bf_add bf k)) = length (bf_words bf).
Proof. unfold bf_add. cbn [bf_words]. apply fold_set_length. Qed.
Lemma bf_add_seeds bf k : bf_seeds (bf_add bf k) = bf_seeds bf. Proof. reflexivity. Qed.
Lemma bf_add_index bf k d i : bf_index (bf_add bf k) d i = bf_index bf d i. Proof. reflexivity. Qed.

Lemma bf_add_all_size : forall keys bf, bf_size (bf_add_all bf keys) = bf_size bf.
Proof.
  induction keys as [|k keys IH]; intros bf; [reflexivity|].
  unfold bf_add_all in *. cbn [fold_left]. rewrite IH. apply bf_add_size.
Qed.
Lemma bf_add_all_hashes : forall keys bf, bf_hashes (bf_add_all bf keys) = bf_hashes bf.
Proof.
  induction keys as [|k keys IH]; intros bf; [reflexivity|].
  unfold bf_add_all in *. cbn [fold_left]. rewrite IH. apply bf_add_hashes.
Qed.
Lemma bf_add_all_words_length : forall keys bf,
  length (bf_words (bf_add_all bf keys)) = length (bf_words bf).
Proof.
  induction keys as [|k keys IH]; intros bf; [reflexivity|].
  unfold bf_add_all in *. cbn [fold_left]. rewrite IH. apply bf_add_words_length.
Qed.

(* a bit once set stays set: membership answers are monotone under further adds *)
Lemma bf_add_mono bf k' k : bf_might_have bf k = true -> bf_might_have (bf_add bf k') k = true.
Proof.
  unfold bf_might_have. rewrite bf_add_seeds. rewrite !forallb_forall. intros H i Hi.
  rewrite bf_add_index. unfold bf_add. cbn [bf_words]. apply fold_set_mono. apply H. exact Hi.
Qed.

Lemma bf_add_all_mono : forall keys bf k,
  bf_might_have bf k = true -> bf_might_have (bf_add_all bf keys) k = true.
Proof.
  induction keys as [|k' keys IH]; intros bf k H; [exact H|].
  unfold bf_add_all in *. cbn [fold_left]. apply IH. apply bf_add_mono. exact H.
Qed.

(* every index falls inside the word array when the array has ceil(size/64) words *)
Lemma bf_index_word_bound bf d i :
  0 < bf_size bf -> length (bf_words bf) = N.to_nat ((bf_size bf + 63) / 64) ->
  (N.to_nat (bf_index bf d i / 64) < length (bf_words bf))%nat.
Proof.
  intros Hs Hl. rewrite Hl. unfold bf_index.
  assert (Hm : murmur_hash d i mod bf_size bf < bf_size bf) by (apply N.mod_lt; lia).
  remember (murmur_hash d i mod bf_size bf) as x eqn:Ex. clear Ex.
  assert (Hd : x / 64 < (bf_size bf + 63) / 64).
  { apply N.div_lt_upper_bound; [discriminate|].
    pose proof (N.div_mod (bf_size bf + 63) 64 ltac:(discriminate)) as E.
    pose proof (N.mod_lt (bf_size bf + 63) 64 ltac:(discriminate)) as L. lia. }
  lia.
Qed.

Lemma bf_add_has bf k :
  0 < bf_size bf -> length (bf_words bf) = N.to_nat ((bf_size bf + 63) / 64) ->
  bf_might_have (bf_add bf k) k = true.
Proof.
  intros Hs Hl. unfold bf_might_have. rewrite bf_add_seeds. rewrite forallb_forall. intros i Hi.
  rewrite bf_add_index. unfold bf_add. cbn [bf_words].
  apply (fold_set_sets (bf_index bf k)); [|exact Hi].
  intros j. apply bf_index_word_bound; assumption.
Qed.

Lemma bf_add_all_has : forall keys bf k,
  0 < bf_size bf -> length (bf_words bf) = N.to_nat ((bf_size bf + 63) / 64) ->
  In k keys -> bf_might_have (bf_add_all bf keys) k = true.
Proof.
  induction keys as [|k' keys IH]; intros bf k Hs Hl Hk; [destruct Hk|].
  change (bf_add_all bf (k' :: keys)) with (bf_add_all (bf_add bf k') keys).
  destruct Hk as [Hk|Hk].
  - subst k'. apply bf_add_all_mono. apply bf_add_has; assumption.
  - apply IH; [rewrite bf_add_size; exact Hs| |exact Hk].
    rewrite bf_add_words_length, bf_add_size. exact Hl.
Qed.

Lemma bf_new_words_length size hashes :
  length (bf_words (bf_new size hashes)) = N.to_nat (u32 (size + 63) / 64).
Proof. unfold bf_new. cbn [bf_words]. apply repeat_length. Qed.

(* 1. no false negative *)
Theorem bloom_no_false_negative : forall size hashes keys k,
  0 < size -> size + 63 < 4294967296 -> In k keys ->
  bf_might_have (bf_add_all (bf_new size hashes) keys) k = true.
Proof.
  intros size hashes keys k Hs Hb Hk. apply bf_add_all_has; [exact Hs| |exact Hk].
  rewrite bf_new_words_length. change (bf_size (bf_new size hashes)) with size.
  rewrite (u32_small _ Hb). reflexivity.
Qed.

Corollary bloom_of_no_false_negative : forall tp es e, params_ok tp ->
  In e es -> bf_might_have (bloom_of tp es) (e_key e) = true.
Proof.
  intros tp es e (_ & Hb & Hb2 & _) He. unfold bloom_of.
  apply bloom_no_false_negative; [exact Hb|exact Hb2|]. apply in_map. exact He.
Qed.

(* ---------- 2. Encode / Decode ---------- *)
Definition bloom_wf (bf : bloom) : Prop :=
  bf_size bf < 4294967296 /\ bf_hashes bf < 4294967296 /\
  length (bf_words bf) = N.to_nat (u32 (bf_size bf + 63) / 64) /\
  Forall (fun w => w < 18446744073709551616) (bf_words bf).

Lemma flat_map_w_u64_blen ws : blen (flat_map w_u64 ws) = 8 * N.of_nat (length ws).
Proof.
  unfold blen. induction ws as [|w ws IH]; [reflexivity|].
  cbn [flat_map]. rewrite app_length, w_u64_len. cbn [length]. lia.
Qed.

Lemma rd_words_w : forall ws r,
  Forall (fun w => w < 18446744073709551616) ws ->
  rd_words (length ws) (flat_map w_u64 ws ++ r) = Some (ws, r).
Proof.
  induction ws as [|w ws IH]; intros r Hws; [reflexivity|].
  inversion Hws as [|? ? Hw Hws']; subst.
  cbn [length flat_map rd_words]. rewrite <- app_assoc, rd_u64_wu64, (u64_small _ Hw).
  rewrite (IH r Hws'). reflexivity.
Qed.

Theorem bf_decode_encode : forall bf r, bloom_wf bf -> bf_decode (bf_encode bf ++ r) = Some (bf, r).
Proof.
  intros [size hashes ws] r (Hs & Hh & Hl & Hw). cbn [bf_size bf_hashes bf_words] in *.
  unfold bf_decode, bf_encode. cbn [bf_size bf_hashes bf_words].
  rewrite <- !app_assoc. rewrite rd_u32_wu32, (u32_small _ Hs).
  rewrite rd_u32_wu32, (u32_small _ Hh). cbv zeta.
  rewrite <- Hl. rewrite (rd_words_w ws r Hw).
  replace (u32 (size + 63) / 64 * 8 <=? blen (flat_map w_u64 ws ++ r)) with true; [reflexivity|].
  symmetry. apply N.leb_le. rewrite blen_app, flat_map_w_u64_blen, Hl.
  rewrite N2Nat.id. unfold blen. lia.
Qed.

(* the words stay below 2^64 *)
Lemma log2_lt_64 a : a < 18446744073709551616 -> N.log2 a < 64.
Proof.
  intros Ha. destruct (N.eq_dec a 0) as [E|E]; [subst a; reflexivity|].
  apply N.log2_lt_pow2; [lia|]. exact Ha.
Qed.

Lemma lor_lt_64 a b : a < 18446744073709551616 -> b < 18446744073709551616 -> N.lor a b < 18446744073709551616.
Proof.
  intros Ha Hb. destruct (N.eq_dec (N.lor a b) 0) as [E|E]; [rewrite E; reflexivity|].
  change 18446744073709551616 with (2 ^ 64). apply N.log2_lt_pow2; [lia|].
  rewrite N.log2_lor. pose proof (log2_lt_64 a Ha) as La. pose proof (log2_lt_64 b Hb) as Lb. lia.
Qed.

Lemma shiftl_1_lt_64 b : b < 64 -> N.shiftl 1 b < 18446744073709551616.
Proof.
  intros Hb. rewrite N.shiftl_1_l. change 18446744073709551616 with (2 ^ 64).
  apply N.pow_lt_mono_r; [reflexivity|exact Hb].
Qed.

Lemma bf_new_wf size hashes : size < 4294967296 -> hashes < 4294967296 -> bloom_wf (bf_new size hashes).
Proof.
  intros Hs Hh. unfold bloom_wf. rewrite bf_new_words_length.
  change (bf_size (bf_new size hashes)) with size. change (bf_hashes (bf_new size hashes)) with hashes.
  repeat split; [exact Hs|exact Hh|].
  unfold bf_new. cbn [bf_words]. apply Forall_forall. intros w Hw.
  apply repeat_spec in Hw. subst w. reflexivity.
Qed.

Lemma bf_add_wf bf k : bloom_wf bf -> bloom_wf (bf_add bf k).
Proof.
  intros (Hs & Hh & Hl & Hw). unfold bloom_wf.
  rewrite bf_add_words_length, bf_add_size, bf_add_hashes. repeat split; [exact Hs|exact Hh|exact Hl|].
  unfold bf_add. cbn [bf_words]. apply fold_set_Forall; [|exact Hw].
  intros w b Hb Hlt. apply lor_lt_64; [exact Hlt|apply shiftl_1_lt_64; exact Hb].
Qed.

Lemma bf_add_all_wf : forall keys bf, bloom_wf bf -> bloom_wf (bf_add_all bf keys).
Proof.
  induction keys as [|k keys IH]; intros bf H; [exact H|].
  change (bf_add_all bf (k :: keys)) with (bf_add_all (bf_add bf k) keys). apply IH, bf_add_wf, H.
Qed.

Lemma bloom_of_wf : forall tp es, params_ok tp -> bloom_wf (bloom_of tp es).
Proof.
  intros tp es (_ & Hb & Hb2 & Hh). unfold bloom_of. apply bf_add_all_wf. apply bf_new_wf; [lia|exact Hh].
Qed.

(* the bloom block a table writer emits is read back exactly *)
Corollary bloom_of_decode_encode tp es r : params_ok tp ->
  bf_decode (bf_encode (bloom_of tp es) ++ r) = Some (bloom_of tp es, r).
Proof. intros H. apply bf_decode_encode, bloom_of_wf, H. Qed.
