(* C07: the DB state machine of Model/Lsm.v refines a sorted association list, for every history, every background
   schedule and every option setting.  Invariant: the layout seen by readers - the level list with the memtables appended
   to level 0 in chronological order - is a valid layout (C18_Layout.LLInv). *)
From Coq Require Import List NArith Bool Lia.
From RV Require Import Base.Bytes Model.LsmBase Model.LsmCompaction Model.Lsm
  Proofs.C07_Sorted Proofs.C07_Spec Proofs.C18_Layout Proofs.C18_Apply Proofs.C18_Compact.
Import ListNotations.
Open Scope N_scope.

(* ---------- layouts with memtables ---------- *)

Lemma ents_vlay ll m e : ll <> [] -> (ents (vlay ll m) e <-> ents ll e \/ exists t, In t m /\ In e t).
Proof.
  intros Hne. destruct ll as [|l0 ll]; [congruence|]. unfold vlay. cbn [hd tl]. rewrite !ents_cons. split.
  - intros [(t & Ht & He)|H]; [|left; right; exact H]. apply in_app_or in Ht as [Ht|Ht]; [left; left; exists t; auto|right; exists t; auto].
  - intros [[(t & Ht & He)|H]|(t & Ht & He)]; [left; exists t; split; [apply in_or_app; left|]; auto|right; exact H|left; exists t; split; [apply in_or_app; right|]; auto].
Qed.

Lemma LLInv_real ll m : LLInv (vlay ll m) -> ll <> [] -> LLInv ll.
Proof.
  intros Hv Hne. destruct ll as [|l0 ll]; [congruence|]. constructor.
  - intros l t [<-|Hl] Ht.
    + apply (v_sorted _ Hv (l0 ++ m)); [left; reflexivity|apply in_or_app; left; exact Ht].
    + apply (v_sorted _ Hv l); [right; exact Hl|exact Ht].
  - intros i l Hi. apply (v_deep _ Hv i). exact Hi.
  - intros l Hl. cbn in Hl. injection Hl as <-. pose proof (v_sep _ Hv _ eq_refl) as H. apply sep_app in H. apply H.
  - intros i j li lj t t' e e' Hij Hi Hj Ht Ht' He He' Hk. destruct j as [|j]; [lia|]. destruct i as [|i].
    + cbn in Hi. injection Hi as <-. apply (v_ord _ Hv 0%nat (S j) (l0 ++ m) lj t t' e e'); auto. apply in_or_app. left. exact Ht.
    + apply (v_ord _ Hv (S i) (S j) li lj t t' e e'); auto.
Qed.

Lemma view_ext a b : LLInv a -> LLInv b -> (forall e, ents a e <-> ents b e) -> view a = view b.
Proof.
  intros Ha Hb H. apply (Mx_uniq_eq (ents a)); [apply ents_view| |apply LLInv_uniq; exact Ha].
  eapply Mx_ext; [|apply ents_view]. intros e. symmetry. apply H.
Qed.

Lemma apply_vlay cs ll m :
  ll <> [] -> (1 <= cs_level cs)%nat -> (forall t, In t m -> ~ In t (cs_rem cs)) -> apply_cs cs (vlay ll m) = vlay (apply_cs cs ll) m.
Proof.
  intros Hne HT Hm. destruct ll as [|l0 ll]; [congruence|]. unfold vlay, apply_cs. cbn [hd tl apply_from].
  destruct (Nat.eqb 0 (cs_level cs)) eqn:E; [apply Nat.eqb_eq in E; lia|]. f_equal.
  rewrite filter_app. f_equal. clear -Hm. induction m as [|t m IH]; [reflexivity|]. cbn.
  rewrite (proj2 (tmem_false _ _) (Hm t (or_introl eq_refl))). cbn. f_equal. apply IH. intros x Hx. apply Hm. right. exact Hx.
Qed.

(* replacing the memtables by memtables whose entries are old level-0 entries or brand-new larger ones *)
Lemma LLInv_new_mem ll M M' :
  ll <> [] -> LLInv (vlay ll M) ->
  (forall t, In t M' -> sorted t) -> sep (hd [] ll ++ M') ->
  (forall t e, In t M' -> In e t ->
      (exists t0, In t0 (hd [] ll ++ M) /\ In e t0) \/ (forall e0, ents (vlay ll M) e0 -> eseq e0 < eseq e)) ->
  LLInv (vlay ll M').
Proof.
  intros Hne Hv Hs Hsep Hnew. destruct ll as [|l0 ll]; [congruence|]. cbn [hd] in *. constructor.
  - intros l t [<-|Hl] Ht.
    + apply in_app_or in Ht as [Ht|Ht]; [|auto]. apply (v_sorted _ Hv (l0 ++ M)); [left; reflexivity|apply in_or_app; left; exact Ht].
    + apply (v_sorted _ Hv l); [right; exact Hl|exact Ht].
  - intros i l Hi. apply (v_deep _ Hv i). exact Hi.
  - intros l Hl. cbn in Hl. injection Hl as <-. exact Hsep.
  - intros i j li lj t t' e e' Hij Hi Hj Ht Ht' He He' Hk. destruct j as [|j]; [lia|]. destruct i as [|i].
    + cbn in Hi. injection Hi as <-. apply in_app_or in Ht as [Ht|Ht].
      * apply (v_ord _ Hv 0%nat (S j) (l0 ++ M) lj t t' e e'); auto. apply in_or_app. left. exact Ht.
      * destruct (Hnew _ _ Ht He) as [(t0 & Ht0 & He0)|Hgt].
        -- apply (v_ord _ Hv 0%nat (S j) (l0 ++ M) lj t0 t' e e'); auto.
        -- apply Hgt. exists lj, t'. split; [apply (nth_error_In (vlay (l0 :: ll) M) (S j)); exact Hj|auto].
    + apply (v_ord _ Hv (S i) (S j) li lj t t' e e'); auto.
Qed.

Lemma sep_snoc_nil L : sep L -> sep (L ++ [[]]).
Proof. intros H. apply sep_app. split; [exact H|]. split; [cbn; split; [intros ? ? ? []|exact I]|]. intros x y e e' _ [<-|[]] _ []. Qed.

Lemma sep_snoc_put L x x' :
  sep (L ++ [x]) ->
  (forall e', In e' x' -> In e' x \/ forall y e, In y (L ++ [x]) -> In e y -> eseq e < eseq e') ->
  sep (L ++ [x']).
Proof.
  intros H Hn. apply sep_app in H as (H1 & _ & H3). apply sep_app. split; [exact H1|]. split; [cbn; split; [intros ? ? ? []|exact I]|].
  intros y z e e' Hy [<-|[]] He He'. destruct (Hn _ He') as [Hx|Hgt].
  - apply (H3 y x e e'); auto. left. reflexivity.
  - apply (Hgt y e); auto. apply in_or_app. left. exact Hy.
Qed.

(* ---------- memtable.List.Get ---------- *)

Lemma ml_get_spec A M k :
  sep (A ++ M) -> (forall t, In t M -> sorted t) ->
  match ml_get k M with
  | Some e => (exists x, In x M /\ In e x) /\ ekey e = k /\
              forall y e', In y (A ++ M) -> In e' y -> ekey e' = k -> eseq e' <= eseq e
  | None => forall y e', In y M -> In e' y -> ekey e' <> k
  end.
Proof.
  unfold ml_get. induction M as [|x M IH] using rev_ind; intros Hsep Hs; [cbn; intros ? ? []|].
  rewrite rev_app_distr. cbn [rev app map first_some].
  assert (Hsep' : sep (A ++ M)) by (rewrite app_assoc in Hsep; apply sep_app in Hsep; apply Hsep).
  assert (Hs' : forall t, In t M -> sorted t) by (intros t Ht; apply Hs; apply in_or_app; left; exact Ht).
  destruct (tbl_get k x) as [e|] eqn:G.
  - apply tbl_get_some in G as [G1 G2]. split; [exists x; split; [apply in_or_app; right; left; reflexivity|exact G1]|].
    split; [exact G2|]. intros y e' Hy He' Hk. rewrite app_assoc in Hy, Hsep. apply in_app_or in Hy as [Hy|[<-|[]]].
    + apply sep_app in Hsep as (_ & _ & H3). specialize (H3 y x e' e Hy (or_introl eq_refl) He' G1). lia.
    + assert (e' = e); [|subst; lia]. eapply sorted_key_inj; eauto; [apply Hs; apply in_or_app; right; left; reflexivity|congruence].
  - specialize (IH Hsep' Hs'). destruct (first_some (map (tbl_get k) (rev M))) as [e|].
    + destruct IH as ((z & Hz & Hez) & Hk & Hmax). split; [exists z; split; [apply in_or_app; left; exact Hz|exact Hez]|].
      split; [exact Hk|]. intros y e' Hy He' Hk'. rewrite app_assoc in Hy. apply in_app_or in Hy as [Hy|[<-|[]]]; [eauto|].
      exfalso. eapply tbl_get_none in G; eauto.
    + intros y e' Hy He'. apply in_app_or in Hy as [Hy|[<-|[]]]; [eauto|]. eapply tbl_get_none; eauto.
Qed.

(* a pending change set stays good when the memtables change, as long as no memtable is (as a value) a removed table
   and the removed level-0 tables stay older than every memtable *)
Lemma good_cs_new_mem ll M M' cs :
  ll <> [] -> good_cs (vlay ll M) cs ->
  (forall t, In t M -> ~ In t (cs_rem cs)) -> (forall t, In t M' -> ~ In t (cs_rem cs)) ->
  (forall r t e e', In r (hd [] ll) -> In r (cs_rem cs) -> In t M' -> In e r -> In e' t -> eseq e < eseq e') ->
  good_cs (vlay ll M') cs.
Proof.
  intros Hne Hg HM HM' Hold. destruct ll as [|l0 ll]; [congruence|]. cbn [hd] in Hold.
  pose proof (g_lvl _ _ Hg) as HT.
  assert (Hlvl : forall i l, nth_error (vlay (l0 :: ll) M') (S i) = Some l -> nth_error (vlay (l0 :: ll) M) (S i) = Some l) by (intros i l H; exact H).
  constructor.
  - exact HT.
  - intros l t Hl Ht. destruct (cs_level cs) as [|T] eqn:ET; [lia|]. eapply (g_all _ _ Hg); [rewrite ET; apply Hlvl; exact Hl|exact Ht].
  - intros r Hr. destruct (g_sub _ _ Hg r Hr) as (j & l & Hj & Hl & Hrl). destruct j as [|j].
    + cbn in Hl. injection Hl as <-. apply in_app_or in Hrl as [Hrl|Hrl]; [|exfalso; exact (HM _ Hrl Hr)].
      exists 0%nat, (l0 ++ M'). repeat split; [lia|apply in_or_app; left; exact Hrl].
    + exists (S j), l. auto.
  - exact (g_add _ _ Hg).
  - intros i j li lj r t Hij Hi Hj Hr HrR Ht. destruct j as [|j]; [lia|]. destruct i as [|i].
    + cbn in Hi. injection Hi as <-. apply in_app_or in Hr as [Hr|Hr]; [|exfalso; exact (HM' _ Hr HrR)].
      apply (g_closed _ _ Hg 0%nat (S j) (l0 ++ M) lj r t); auto. apply in_or_app. left. exact Hr.
    + apply (g_closed _ _ Hg (S i) (S j) li lj r t); auto.
  - intros l r t e e' Hl Hr HrR Ht HtR He He'. cbn in Hl. injection Hl as <-.
    apply in_app_or in Hr as [Hr|Hr]; [|exfalso; exact (HM' _ Hr HrR)].
    apply in_app_or in Ht as [Ht|Ht]; [|eapply Hold; eauto].
    apply (g_l0 _ _ Hg (l0 ++ M) r t e e'); auto; apply in_or_app; left; assumption.
  - intros j l t Hj Hl Ht. destruct j as [|j]; [lia|]. apply (g_deep _ _ Hg (S j) l t); auto.
Qed.

(* ---------- the invariant ---------- *)

Definition rd_inv (r : rtask) (M : list table) (ll : levels) : Prop :=
  match r with
  | RNone => True
  | RGet k (Some e) => tbl_get k (view (vlay ll M)) = Some e
  | RGet k None => forall t e, In t M -> In e t -> ekey e <> k
  | RScan p mres =>
      sorted mres /\
      (forall e, In e mres -> has_prefix p e = true /\
          exists m, tbl_get (ekey e) (view (vlay ll M)) = Some m /\ eseq e <= eseq m /\ (eseq e = eseq m -> e = m)) /\
      (forall k m, is_prefix p k = true -> tbl_get k (view (vlay ll M)) = Some m -> In m mres \/ ents ll m)
  end.

Record Inv (M : list table) (ll : levels) (sq : N) (f : ftask) (c : ctask) (r : rtask) : Prop := mkInv {
  i_ll : LLInv (vlay ll M);
  i_len : (2 <= length ll)%nat;
  i_mts : M <> [];
  i_real : forall l t, In l ll -> In t l -> t <> [];
  i_sealed : forall t, In t (removelast M) -> t <> [];
  i_seq : forall e, ents (vlay ll M) e -> eseq e <= sq;
  i_ft : forall snap, f = FSwap snap -> exists rest, M = snap ++ rest /\ rest <> [];
  i_ct : forall cs, c = CSwap cs -> good_cs (vlay ll M) cs /\ forall t, In t M -> ~ In t (cs_rem cs);
  i_rd : rd_inv r M ll
}.

Definition DBInv (st : db) : Prop := Inv (mts st) (lv st) (seqn st) (ft st) (ct st) (rd st).
Definition vll (st : db) : levels := vlay (lv st) (mts st).
Definition absm (st : db) : smap := kvs (without_deletes (view (vll st))).

Definition cfg_ok (cfg : dbcfg) : Prop :=
  (2 <= d_levels cfg)%nat /\ 1 <= c_target (d_comp cfg) /\ 1 <= c_trigger (d_comp cfg).

Lemma len_ne {A} (l : list A) : (2 <= length l)%nat -> l <> [].
Proof. destruct l; cbn; [lia|discriminate]. Qed.

Lemma init_inv cfg : cfg_ok cfg -> DBInv (init cfg).
Proof.
  intros (Hl & _). unfold DBInv, init. cbn.
  assert (Hrep : forall i l, nth_error (repeat (@nil table) (d_levels cfg)) i = Some l -> l = []).
  { intros i l H. apply nth_error_In in H. apply repeat_spec in H. exact H. }
  assert (Hne : repeat (@nil table) (d_levels cfg) <> []) by (apply len_ne; rewrite repeat_length; exact Hl).
  assert (Hempty : forall e, ~ ents (vlay (repeat [] (d_levels cfg)) [[]]) e).
  { intros e He. apply ents_vlay in He; [|exact Hne]. destruct He as [(l & t & Hl' & Ht & He)|(t & [<-|[]] & He)]; [|destruct He].
    apply repeat_spec in Hl'. subst l. destruct Ht. }
  constructor; try (intros; discriminate).
  - constructor.
    + intros l t Hl' Ht. unfold vlay in Hl'. destruct Hl' as [<-|Hl'].
      * assert (Hhd : hd [] (repeat (@nil table) (d_levels cfg)) = []) by (destruct (d_levels cfg); reflexivity).
        rewrite Hhd in Ht. destruct Ht as [<-|[]]. exact I.
      * assert (l = []); [|subst l; destruct Ht]. apply (repeat_spec (d_levels cfg) (@nil table)).
        destruct (repeat (@nil table) (d_levels cfg)); [destruct Hl'|right; exact Hl'].
    + intros i l Hi. rewrite vlay_nth_S in Hi. apply Hrep in Hi. subst l. split; [exact I|intros ? []].
    + intros l Hl'. rewrite vlay_nth_0 in Hl' by exact Hne. injection Hl' as <-.
      assert (hd [] (repeat (@nil table) (d_levels cfg)) = []) by (destruct (d_levels cfg); reflexivity). rewrite H.
      cbn. split; [intros ? ? ? []|exact I].
    + intros i j li lj t t' e e' _ Hi _ Ht _ He. exfalso. apply (Hempty e). exists li, t. split; [eapply nth_error_In; exact Hi|auto].
  - rewrite repeat_length. exact Hl.
  - intros l t Hl' Ht. apply repeat_spec in Hl'. subst l. destruct Ht.
  - intros t [].
  - intros e He. exfalso. exact (Hempty e He).
  - exact I.
Qed.

Lemma snoc_split {A} (S P Q : list A) a : S ++ [a] = P ++ Q -> Q <> [] -> exists Q0, Q = Q0 ++ [a] /\ S = P ++ Q0.
Proof.
  intros H HQ. rewrite (app_removelast_last a HQ) in H. rewrite app_assoc in H. apply app_inj_tail in H as [H1 H2].
  exists (removelast Q). split; [rewrite H2 at 1; apply app_removelast_last; exact HQ|exact H1].
Qed.

Lemma hd_in {A} (ll : list (list A)) : ll <> [] -> In (hd [] ll) ll.
Proof. destruct ll; [congruence|left; reflexivity]. Qed.

(* ---------- Put / Delete ---------- *)

Section Write.
  Variables (S : list table) (act : table) (ll : levels) (sq : N) (f : ftask) (c : ctask) (e : entry).
  Hypothesis HI : Inv (S ++ [act]) ll sq f c RNone.
  Hypothesis Hseq : eseq e = sq + 1.

  Local Notation M0 := (S ++ [act]).
  Local Notation act' := (mt_put e act).
  Local Notation M1 := (S ++ [mt_put e act]).

  Lemma w_ne : ll <> [].
  Proof. apply len_ne. apply (i_len _ _ _ _ _ _ HI). Qed.

  Lemma w_gt e0 : ents (vlay ll M0) e0 -> eseq e0 < eseq e.
  Proof. intros H. pose proof (i_seq _ _ _ _ _ _ HI e0 H). lia. Qed.

  Lemma w_act_sorted : sorted act.
  Proof.
    apply (v_sorted _ (i_ll _ _ _ _ _ _ HI) (hd [] ll ++ M0)); [left; reflexivity|].
    apply in_or_app. right. apply in_or_app. right. left. reflexivity.
  Qed.

  Lemma w_l0_ents t e0 : In t (hd [] ll ++ M0) -> In e0 t -> ents (vlay ll M0) e0.
  Proof. intros Ht He0. exists (hd [] ll ++ M0), t. split; [left; reflexivity|auto]. Qed.

  Lemma w_sep1 : sep (hd [] ll ++ M1).
  Proof.
    pose proof (v_sep _ (i_ll _ _ _ _ _ _ HI) _ (vlay_nth_0 ll M0 w_ne)) as H. rewrite app_assoc in H |- *.
    eapply sep_snoc_put; [exact H|]. intros e' He'. apply mt_put_in in He' as [->|He']; [right|left; exact He'].
    intros y e0 Hy He0. apply w_gt. rewrite <- app_assoc in Hy. eapply w_l0_ents; eauto.
  Qed.

  Lemma w_new_old t e' : In t M1 -> In e' t ->
    (exists t0, In t0 (hd [] ll ++ M0) /\ In e' t0) \/ (forall e0, ents (vlay ll M0) e0 -> eseq e0 < eseq e').
  Proof.
    intros Ht He'. apply in_app_or in Ht as [Ht|[<-|[]]].
    - left. exists t. split; [apply in_or_app; right; apply in_or_app; left; exact Ht|exact He'].
    - apply mt_put_in in He' as [->|He']; [right; exact w_gt|left].
      exists act. split; [apply in_or_app; right; apply in_or_app; right; left; reflexivity|exact He'].
  Qed.

  Lemma w_ll1 : LLInv (vlay ll M1).
  Proof.
    apply (LLInv_new_mem ll M0 M1 w_ne (i_ll _ _ _ _ _ _ HI)); [|exact w_sep1|exact w_new_old].
    intros t Ht. apply in_app_or in Ht as [Ht|[<-|[]]]; [|apply mt_put_sorted; exact w_act_sorted].
    apply (v_sorted _ (i_ll _ _ _ _ _ _ HI) (hd [] ll ++ M0)); [left; reflexivity|].
    apply in_or_app. right. apply in_or_app. left. exact Ht.
  Qed.

  Lemma w_e1 e' : ents (vlay ll M1) e' -> e' = e \/ ents (vlay ll M0) e'.
  Proof.
    rewrite !ents_vlay by exact w_ne. intros [H|(t & Ht & He')]; [right; left; exact H|].
    apply in_app_or in Ht as [Ht|[<-|[]]].
    - right. right. exists t. split; [apply in_or_app; left; exact Ht|exact He'].
    - apply mt_put_in in He' as [->|He']; [left; reflexivity|]. right. right. exists act. split; [apply in_or_app; right; left; reflexivity|exact He'].
  Qed.
  Lemma w_e2 : ents (vlay ll M1) e.
  Proof. apply ents_vlay; [exact w_ne|]. right. exists act'. split; [apply in_or_app; right; left; reflexivity|apply mt_put_has]. Qed.
  Lemma w_e3 e' : ents (vlay ll M0) e' -> ekey e' <> ekey e -> ents (vlay ll M1) e'.
  Proof.
    rewrite !ents_vlay by exact w_ne. intros [H|(t & Ht & He')] Hk; [left; exact H|]. right.
    apply in_app_or in Ht as [Ht|[<-|[]]].
    - exists t. split; [apply in_or_app; left; exact Ht|exact He'].
    - exists act'. split; [apply in_or_app; right; left; reflexivity|apply mt_put_keeps; assumption].
  Qed.

  Lemma w_view1 k' :
    tbl_get k' (view (vlay ll M1)) = if beqb (ekey e) k' then Some e else tbl_get k' (view (vlay ll M0)).
  Proof.
    destruct (beqb (ekey e) k') eqn:E.
    - apply beqb_eq in E. subst k'. apply view_max; [exact w_ll1|exact w_e2|].
      intros x Hx _. apply w_e1 in Hx as [->|Hx]; [lia|]. pose proof (w_gt _ Hx). lia.
    - assert (Hk : ekey e <> k') by (intros Hk; rewrite Hk, beqb_refl in E; discriminate).
      destruct (tbl_get k' (view (vlay ll M0))) as [m|] eqn:G.
      + destruct (Mx_get_spec _ _ _ _ (ents_view _) G) as (G1 & G2 & G3). subst k'.
        apply view_max; [exact w_ll1|apply w_e3; [exact G1|congruence]|].
        intros x Hx Hxk. apply w_e1 in Hx as [->|Hx]; [congruence|]. apply G3; assumption.
      + apply view_none. intros x Hx Hxk. apply w_e1 in Hx as [->|Hx]; [congruence|].
        destruct (ents_view (vlay ll M0)) as (_ & _ & H3). destruct (H3 x Hx) as (y & Hy & _). rewrite Hxk in Hy. congruence.
  Qed.

  Lemma w_notrem cs t : c = CSwap cs -> In t (M1 ++ [[]]) -> ~ In t (cs_rem cs).
  Proof.
    intros Hc Ht HR. destruct (i_ct _ _ _ _ _ _ HI cs Hc) as [Hg Hd].
    apply in_app_or in Ht as [Ht|[<-|[]]]; [apply in_app_or in Ht as [Ht|[<-|[]]]|].
    - apply (Hd t); [apply in_or_app; left; exact Ht|exact HR].
    - destruct (g_sub _ _ Hg _ HR) as (j & l & _ & Hl & Hin).
      assert (ents (vlay ll M0) e) by (exists l, act'; split; [eapply nth_error_In; exact Hl|split; [exact Hin|apply mt_put_has]]).
      pose proof (w_gt _ H). lia.
    - destruct (g_sub _ _ Hg _ HR) as (j & l & _ & Hl & Hin). destruct j as [|j].
      + rewrite vlay_nth_0 in Hl by exact w_ne. injection Hl as <-. apply in_app_or in Hin as [Hin|Hin].
        * apply (i_real _ _ _ _ _ _ HI (hd [] ll) []); [apply hd_in; exact w_ne|exact Hin|reflexivity].
        * exact (Hd _ Hin HR).
      + destruct (v_deep _ (i_ll _ _ _ _ _ _ HI) _ _ Hl) as [_ Hn]. exact (Hn _ Hin eq_refl).
  Qed.

  Lemma w_good cs M' :
    c = CSwap cs -> (forall t, In t M' -> In t (M1 ++ [[]])) -> good_cs (vlay ll M') cs.
  Proof.
    intros Hc Hsub. destruct (i_ct _ _ _ _ _ _ HI cs Hc) as [Hg Hd].
    apply (good_cs_new_mem ll M0 M' cs w_ne Hg Hd); [intros t Ht; apply (w_notrem cs t Hc); auto|].
    intros r t e0 e' Hr HrR Ht He0 He'. apply Hsub in Ht.
    assert (Hr0 : In r (hd [] ll ++ M0)) by (apply in_or_app; left; exact Hr).
    assert (Hold : forall t0, In t0 M0 -> In e' t0 -> eseq e0 < eseq e').
    { intros t0 Ht0 He't0. apply (g_l0 _ _ Hg (hd [] ll ++ M0) r t0 e0 e'); auto; [apply vlay_nth_0; exact w_ne|apply in_or_app; right; exact Ht0]. }
    apply in_app_or in Ht as [Ht|[<-|[]]]; [apply in_app_or in Ht as [Ht|[<-|[]]]|destruct He'].
    - apply (Hold t); [apply in_or_app; left; exact Ht|exact He'].
    - apply mt_put_in in He' as [->|He']; [apply w_gt; eapply w_l0_ents; eauto|].
      apply (Hold act); [apply in_or_app; right; left; reflexivity|exact He'].
  Qed.

  Lemma w_ft snap : f = FSwap snap -> exists rest0, S = snap ++ rest0.
  Proof.
    intros Hf. destruct (i_ft _ _ _ _ _ _ HI snap Hf) as (rest & H1 & H2).
    destruct (snoc_split _ _ _ _ H1 H2) as (Q0 & _ & HS). exists Q0. exact HS.
  Qed.

  Lemma w_inv1 : Inv M1 ll (sq + 1) f c RNone.
  Proof.
    constructor.
    - exact w_ll1.
    - exact (i_len _ _ _ _ _ _ HI).
    - intros H. apply app_eq_nil in H as [_ H]. discriminate.
    - exact (i_real _ _ _ _ _ _ HI).
    - rewrite removelast_last. intros t Ht. apply (i_sealed _ _ _ _ _ _ HI). rewrite removelast_last. exact Ht.
    - intros x Hx. apply w_e1 in Hx as [->|Hx]; [lia|]. pose proof (i_seq _ _ _ _ _ _ HI x Hx). lia.
    - intros snap Hf. destruct (w_ft snap Hf) as (r0 & ->). exists (r0 ++ [act']). split; [rewrite app_assoc; reflexivity|].
      intros H. apply app_eq_nil in H as [_ H]. discriminate.
    - intros cs Hc. split; [apply (w_good cs M1 Hc); intros t Ht; apply in_or_app; left; exact Ht|].
      intros t Ht. apply (w_notrem cs t Hc). apply in_or_app. left. exact Ht.
    - exact I.
  Qed.

  Lemma w_ents2 x : ents (vlay ll (M1 ++ [[]])) x <-> ents (vlay ll M1) x.
  Proof.
    rewrite !ents_vlay by exact w_ne. split; (intros [H|(t & Ht & Hx)]; [left; exact H|right]).
    - apply in_app_or in Ht as [Ht|[<-|[]]]; [exists t; auto|destruct Hx].
    - exists t. split; [apply in_or_app; left; exact Ht|exact Hx].
  Qed.

  Lemma w_ll2 : LLInv (vlay ll (M1 ++ [[]])).
  Proof.
    apply (LLInv_new_mem ll M1 (M1 ++ [[]]) w_ne w_ll1).
    - intros t Ht. apply in_app_or in Ht as [Ht|[<-|[]]]; [|exact I].
      apply (v_sorted _ w_ll1 (hd [] ll ++ M1)); [left; reflexivity|apply in_or_app; right; exact Ht].
    - rewrite app_assoc. apply sep_snoc_nil. exact w_sep1.
    - intros t x Ht Hx. apply in_app_or in Ht as [Ht|[<-|[]]]; [|destruct Hx]. left. exists t. split; [apply in_or_app; right; exact Ht|exact Hx].
  Qed.

  Lemma w_view2 : view (vlay ll (M1 ++ [[]])) = view (vlay ll M1).
  Proof. apply view_ext; [exact w_ll2|exact w_ll1|exact w_ents2]. Qed.

  Lemma w_inv2 : Inv (M1 ++ [[]]) ll (sq + 1) f c RNone.
  Proof.
    pose proof w_inv1 as H1. constructor.
    - exact w_ll2.
    - exact (i_len _ _ _ _ _ _ HI).
    - intros H. apply app_eq_nil in H as [_ H]. discriminate.
    - exact (i_real _ _ _ _ _ _ HI).
    - rewrite removelast_last. intros t Ht. apply in_app_or in Ht as [Ht|[<-|[]]].
      + apply (i_sealed _ _ _ _ _ _ HI). rewrite removelast_last. exact Ht.
      + intros E. pose proof (mt_put_has e act) as Hh. rewrite E in Hh. destruct Hh.
    - intros x Hx. apply w_ents2 in Hx. exact (i_seq _ _ _ _ _ _ H1 x Hx).
    - intros snap Hf. destruct (w_ft snap Hf) as (r0 & ->). exists (r0 ++ [act'] ++ [[]]). split; [rewrite <- !app_assoc; reflexivity|].
      intros H. apply app_eq_nil in H as [_ H]. discriminate.
    - intros cs Hc. split; [apply (w_good cs _ Hc); auto|]. intros t Ht. apply (w_notrem cs t Hc). exact Ht.
    - exact I.
  Qed.
End Write.
