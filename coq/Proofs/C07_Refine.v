(* C07: the DB state machine of Model/Lsm.v refines a sorted association list, for every history, every background
   schedule and every option setting.  Invariant: the layout seen by readers - the level list with the memtables appended
   to level 0 in chronological order - is a valid layout (C18_Layout.LLInv). *)
From Coq Require Import List NArith Bool Lia.
From RV Require Import Base.Bytes Model.LsmBase Model.LsmCompaction Model.Lsm
  Proofs.C07_Sorted Proofs.C07_Spec Proofs.C18_Layout Proofs.C18_Apply Proofs.C18_Compact.
Import ListNotations.
Open Scope N_scope.

(* ---------- layouts with memtables ---------- *)

Lemma ents_vlay ll m e : ll <> [] -> (ents (vlay ll m) e <-> ents ll e \/ exists t, In t m /\ In e t).
Proof.
  intros Hne. destruct ll as [|l0 ll]; [congruence|]. unfold vlay. cbn [hd tl]. rewrite !ents_cons. split.
  - intros [(t & Ht & He)|H]; [|left; right; exact H]. apply in_app_or in Ht as [Ht|Ht]; [left; left; exists t; auto|right; exists t; auto].
  - intros [[(t & Ht & He)|H]|(t & Ht & He)]; [left; exists t; split; [apply in_or_app; left|]; auto|right; exact H|left; exists t; split; [apply in_or_app; right|]; auto].
Qed.

Lemma LLInv_real ll m : LLInv (vlay ll m) -> ll <> [] -> LLInv ll.
Proof.
  intros Hv Hne. destruct ll as [|l0 ll]; [congruence|]. constructor.
  - intros l t [<-|Hl] Ht.
    + apply (v_sorted _ Hv (l0 ++ m)); [left; reflexivity|apply in_or_app; left; exact Ht].
    + apply (v_sorted _ Hv l); [right; exact Hl|exact Ht].
  - intros i l Hi. apply (v_deep _ Hv i). exact Hi.
  - intros l Hl. cbn in Hl. injection Hl as <-. pose proof (v_sep _ Hv _ eq_refl) as H. apply sep_app in H. apply H.
  - intros i j li lj t t' e e' Hij Hi Hj Ht Ht' He He' Hk. destruct j as [|j]; [lia|]. destruct i as [|i].
    + cbn in Hi. injection Hi as <-. apply (v_ord _ Hv 0%nat (S j) (l0 ++ m) lj t t' e e'); auto. apply in_or_app. left. exact Ht.
    + apply (v_ord _ Hv (S i) (S j) li lj t t' e e'); auto.
Qed.

Lemma view_ext a b : LLInv a -> LLInv b -> (forall e, ents a e <-> ents b e) -> view a = view b.
Proof.
  intros Ha Hb H. apply (Mx_uniq_eq (ents a)); [apply ents_view| |apply LLInv_uniq; exact Ha].
  eapply Mx_ext; [|apply ents_view]. intros e. symmetry. apply H.
Qed.

Lemma apply_vlay cs ll m :
  ll <> [] -> (1 <= cs_level cs)%nat -> (forall t, In t m -> ~ In t (cs_rem cs)) -> apply_cs cs (vlay ll m) = vlay (apply_cs cs ll) m.
Proof.
  intros Hne HT Hm. destruct ll as [|l0 ll]; [congruence|]. unfold vlay, apply_cs. cbn [hd tl apply_from].
  destruct (Nat.eqb 0 (cs_level cs)) eqn:E; [apply Nat.eqb_eq in E; lia|]. f_equal.
  rewrite filter_app. f_equal. clear -Hm. induction m as [|t m IH]; [reflexivity|]. cbn.
  rewrite (proj2 (tmem_false _ _) (Hm t (or_introl eq_refl))). cbn. f_equal. apply IH. intros x Hx. apply Hm. right. exact Hx.
Qed.

(* replacing the memtables by memtables whose entries are old level-0 entries or brand-new larger ones *)
Lemma LLInv_new_mem ll M M' :
  ll <> [] -> LLInv (vlay ll M) ->
  (forall t, In t M' -> sorted t) -> sep (hd [] ll ++ M') ->
  (forall t e, In t M' -> In e t ->
      (exists t0, In t0 (hd [] ll ++ M) /\ In e t0) \/ (forall e0, ents (vlay ll M) e0 -> eseq e0 < eseq e)) ->
  LLInv (vlay ll M').
Proof.
  intros Hne Hv Hs Hsep Hnew. destruct ll as [|l0 ll]; [congruence|]. cbn [hd] in *. constructor.
  - intros l t [<-|Hl] Ht.
    + apply in_app_or in Ht as [Ht|Ht]; [|auto]. apply (v_sorted _ Hv (l0 ++ M)); [left; reflexivity|apply in_or_app; left; exact Ht].
    + apply (v_sorted _ Hv l); [right; exact Hl|exact Ht].
  - intros i l Hi. apply (v_deep _ Hv i). exact Hi.
  - intros l Hl. cbn in Hl. injection Hl as <-. exact Hsep.
  - intros i j li lj t t' e e' Hij Hi Hj Ht Ht' He He' Hk. destruct j as [|j]; [lia|]. destruct i as [|i].
    + cbn in Hi. injection Hi as <-. apply in_app_or in Ht as [Ht|Ht].
      * apply (v_ord _ Hv 0%nat (S j) (l0 ++ M) lj t t' e e'); auto. apply in_or_app. left. exact Ht.
      * destruct (Hnew _ _ Ht He) as [(t0 & Ht0 & He0)|Hgt].
        -- apply (v_ord _ Hv 0%nat (S j) (l0 ++ M) lj t0 t' e e'); auto.
        -- apply Hgt. exists lj, t'. split; [apply (nth_error_In (vlay (l0 :: ll) M) (S j)); exact Hj|auto].
    + apply (v_ord _ Hv (S i) (S j) li lj t t' e e'); auto.
Qed.

Lemma sep_snoc_nil L : sep L -> sep (L ++ [[]]).
Proof. intros H. apply sep_app. split; [exact H|]. split; [cbn; split; [intros ? ? ? []|exact I]|]. intros x y e e' _ [<-|[]] _ []. Qed.

Lemma sep_snoc_put L x x' :
  sep (L ++ [x]) ->
  (forall e', In e' x' -> In e' x \/ forall y e, In y (L ++ [x]) -> In e y -> eseq e < eseq e') ->
  sep (L ++ [x']).
Proof.
  intros H Hn. apply sep_app in H as (H1 & _ & H3). apply sep_app. split; [exact H1|]. split; [cbn; split; [intros ? ? ? []|exact I]|].
  intros y z e e' Hy [<-|[]] He He'. destruct (Hn _ He') as [Hx|Hgt].
  - apply (H3 y x e e'); auto. left. reflexivity.
  - apply (Hgt y e); auto. apply in_or_app. left. exact Hy.
Qed.

(* ---------- memtable.List.Get ---------- *)

Lemma ml_get_spec A M k :
  sep (A ++ M) -> (forall t, In t M -> sorted t) ->
  match ml_get k M with
  | Some e => (exists x, In x M /\ In e x) /\ ekey e = k /\
              forall y e', In y (A ++ M) -> In e' y -> ekey e' = k -> eseq e' <= eseq e
  | None => forall y e', In y M -> In e' y -> ekey e' <> k
  end.
Proof.
  unfold ml_get. induction M as [|x M IH] using rev_ind; intros Hsep Hs; [cbn; intros ? ? []|].
  rewrite rev_app_distr. cbn [rev app map first_some].
  assert (Hsep' : sep (A ++ M)) by (rewrite app_assoc in Hsep; apply sep_app in Hsep; apply Hsep).
  assert (Hs' : forall t, In t M -> sorted t) by (intros t Ht; apply Hs; apply in_or_app; left; exact Ht).
  destruct (tbl_get k x) as [e|] eqn:G.
  - apply tbl_get_some in G as [G1 G2]. split; [exists x; split; [apply in_or_app; right; left; reflexivity|exact G1]|].
    split; [exact G2|]. intros y e' Hy He' Hk. rewrite app_assoc in Hy, Hsep. apply in_app_or in Hy as [Hy|[<-|[]]].
    + apply sep_app in Hsep as (_ & _ & H3). specialize (H3 y x e' e Hy (or_introl eq_refl) He' G1). lia.
    + assert (e' = e); [|subst; lia]. eapply sorted_key_inj; eauto; [apply Hs; apply in_or_app; right; left; reflexivity|congruence].
  - specialize (IH Hsep' Hs'). destruct (first_some (map (tbl_get k) (rev M))) as [e|].
    + destruct IH as ((z & Hz & Hez) & Hk & Hmax). split; [exists z; split; [apply in_or_app; left; exact Hz|exact Hez]|].
      split; [exact Hk|]. intros y e' Hy He' Hk'. rewrite app_assoc in Hy. apply in_app_or in Hy as [Hy|[<-|[]]]; [eauto|].
      exfalso. eapply tbl_get_none in G; eauto.
    + intros y e' Hy He'. apply in_app_or in Hy as [Hy|[<-|[]]]; [eauto|]. eapply tbl_get_none; eauto.
Qed.

(* a pending change set stays good when the memtables change, as long as no memtable is (as a value) a removed table
   and the removed level-0 tables stay older than every memtable *)
Lemma good_cs_new_mem ll M M' cs :
  ll <> [] -> good_cs (vlay ll M) cs ->
  (forall t, In t M -> ~ In t (cs_rem cs)) -> (forall t, In t M' -> ~ In t (cs_rem cs)) ->
  (forall r t e e', In r (hd [] ll) -> In r (cs_rem cs) -> In t M' -> In e r -> In e' t -> eseq e < eseq e') ->
  good_cs (vlay ll M') cs.
Proof.
  intros Hne Hg HM HM' Hold. destruct ll as [|l0 ll]; [congruence|]. cbn [hd] in Hold.
  pose proof (g_lvl _ _ Hg) as HT.
  assert (Hlvl : forall i l, nth_error (vlay (l0 :: ll) M') (S i) = Some l -> nth_error (vlay (l0 :: ll) M) (S i) = Some l) by (intros i l H; exact H).
  constructor.
  - exact HT.
  - intros l t Hl Ht. destruct (cs_level cs) as [|T] eqn:ET; [lia|]. eapply (g_all _ _ Hg); [rewrite ET; apply Hlvl; exact Hl|exact Ht].
  - intros r Hr. destruct (g_sub _ _ Hg r Hr) as (j & l & Hj & Hl & Hrl). destruct j as [|j].
    + cbn in Hl. injection Hl as <-. apply in_app_or in Hrl as [Hrl|Hrl]; [|exfalso; exact (HM _ Hrl Hr)].
      exists 0%nat, (l0 ++ M'). repeat split; [lia|apply in_or_app; left; exact Hrl].
    + exists (S j), l. auto.
  - exact (g_add _ _ Hg).
  - intros i j li lj r t Hij Hi Hj Hr HrR Ht. destruct j as [|j]; [lia|]. destruct i as [|i].
    + cbn in Hi. injection Hi as <-. apply in_app_or in Hr as [Hr|Hr]; [|exfalso; exact (HM' _ Hr HrR)].
      apply (g_closed _ _ Hg 0%nat (S j) (l0 ++ M) lj r t); auto. apply in_or_app. left. exact Hr.
    + apply (g_closed _ _ Hg (S i) (S j) li lj r t); auto.
  - intros l r t e e' Hl Hr HrR Ht HtR He He'. cbn in Hl. injection Hl as <-.
    apply in_app_or in Hr as [Hr|Hr]; [|exfalso; exact (HM' _ Hr HrR)].
    apply in_app_or in Ht as [Ht|Ht]; [|eapply Hold; eauto].
    apply (g_l0 _ _ Hg (l0 ++ M) r t e e'); auto; apply in_or_app; left; assumption.
  - intros j l t Hj Hl Ht. destruct j as [|j]; [lia|]. apply (g_deep _ _ Hg (S j) l t); auto.
Qed.

(* ---------- the invariant ---------- *)

Definition rd_inv (r : rtask) (M : list table) (ll : levels) : Prop :=
  match r with
  | RNone => True
  | RGet k (Some e) => tbl_get k (view (vlay ll M)) = Some e
  | RGet k None => forall t e, In t M -> In e t -> ekey e <> k
  | RScan p mres =>
      sorted mres /\
      (forall e, In e mres -> has_prefix p e = true /\
          exists m, tbl_get (ekey e) (view (vlay ll M)) = Some m /\ eseq e <= eseq m /\ (eseq e = eseq m -> e = m)) /\
      (forall k m, is_prefix p k = true -> tbl_get k (view (vlay ll M)) = Some m -> In m mres \/ ents ll m)
  end.

Record Inv (M : list table) (ll : levels) (sq : N) (f : ftask) (c : ctask) (r : rtask) : Prop := mkInv {
  i_ll : LLInv (vlay ll M);
  i_len : (2 <= length ll)%nat;
  i_mts : M <> [];
  i_real : forall l t, In l ll -> In t l -> t <> [];
  i_sealed : forall t, In t (removelast M) -> t <> [];
  i_seq : forall e, ents (vlay ll M) e -> eseq e <= sq;
  i_ft : forall snap, f = FSwap snap -> exists rest, M = snap ++ rest /\ rest <> [];
  i_ct : forall cs, c = CSwap cs -> good_cs (vlay ll M) cs /\ forall t, In t M -> ~ In t (cs_rem cs);
  i_rd : rd_inv r M ll
}.

Definition DBInv (st : db) : Prop := Inv (mts st) (lv st) (seqn st) (ft st) (ct st) (rd st).
Definition vll (st : db) : levels := vlay (lv st) (mts st).
Definition absm (st : db) : smap := kvs (without_deletes (view (vll st))).

Definition cfg_ok (cfg : dbcfg) : Prop :=
  (2 <= d_levels cfg)%nat /\ 1 <= c_target (d_comp cfg) /\ 1 <= c_trigger (d_comp cfg).

Lemma len_ne {A} (l : list A) : (2 <= length l)%nat -> l <> [].
Proof. destruct l; cbn; [lia|discriminate]. Qed.

Lemma init_inv cfg : cfg_ok cfg -> DBInv (init cfg).
Proof.
  intros (Hl & _). unfold DBInv, init. cbn.
  assert (Hrep : forall i l, nth_error (repeat (@nil table) (d_levels cfg)) i = Some l -> l = []).
  { intros i l H. apply nth_error_In in H. apply repeat_spec in H. exact H. }
  assert (Hne : repeat (@nil table) (d_levels cfg) <> []) by (apply len_ne; rewrite repeat_length; exact Hl).
  assert (Hempty : forall e, ~ ents (vlay (repeat [] (d_levels cfg)) [[]]) e).
  { intros e He. apply ents_vlay in He; [|exact Hne]. destruct He as [(l & t & Hl' & Ht & He)|(t & [<-|[]] & He)]; [|destruct He].
    apply repeat_spec in Hl'. subst l. destruct Ht. }
  constructor; try (intros; discriminate).
  - constructor.
    + intros l t Hl' Ht. unfold vlay in Hl'. destruct Hl' as [<-|Hl'].
      * assert (Hhd : hd [] (repeat (@nil table) (d_levels cfg)) = []) by (destruct (d_levels cfg); reflexivity).
        rewrite Hhd in Ht. destruct Ht as [<-|[]]. exact I.
      * assert (l = []); [|subst l; destruct Ht]. apply (repeat_spec (d_levels cfg) (@nil table)).
        destruct (repeat (@nil table) (d_levels cfg)); [destruct Hl'|right; exact Hl'].
    + intros i l Hi. rewrite vlay_nth_S in Hi. apply Hrep in Hi. subst l. split; [exact I|intros ? []].
    + intros l Hl'. rewrite vlay_nth_0 in Hl' by exact Hne. injection Hl' as <-.
      assert (hd [] (repeat (@nil table) (d_levels cfg)) = []) by (destruct (d_levels cfg); reflexivity). rewrite H.
      cbn. split; [intros ? ? ? []|exact I].
    + intros i j li lj t t' e e' _ Hi _ Ht _ He. exfalso. apply (Hempty e). exists li, t. split; [eapply nth_error_In; exact Hi|auto].
  - rewrite repeat_length. exact Hl.
  - intros l t Hl' Ht. apply repeat_spec in Hl'. subst l. destruct Ht.
  - intros t [].
  - intros e He. exfalso. exact (Hempty e He).
  - exact I.
Qed.

Lemma snoc_split {A} (S P Q : list A) a : S ++ [a] = P ++ Q -> Q <> [] -> exists Q0, Q = Q0 ++ [a] /\ S = P ++ Q0.
Proof.
  intros H HQ. rewrite (app_removelast_last a HQ) in H. rewrite app_assoc in H. apply app_inj_tail in H as [H1 H2].
  exists (removelast Q). split; [rewrite H2 at 1; apply app_removelast_last; exact HQ|exact H1].
Qed.

Lemma hd_in {A} (ll : list (list A)) : ll <> [] -> In (hd [] ll) ll.
Proof. destruct ll; [congruence|left; reflexivity]. Qed.

(* ---------- Put / Delete ---------- *)

Section Write.
  Variables (S : list table) (act : table) (ll : levels) (sq : N) (f : ftask) (c : ctask) (e : entry).
  Hypothesis HI : Inv (S ++ [act]) ll sq f c RNone.
  Hypothesis Hseq : eseq e = sq + 1.

  Local Notation M0 := (S ++ [act]).
  Local Notation act' := (mt_put e act).
  Local Notation M1 := (S ++ [mt_put e act]).

  Lemma w_ne : ll <> [].
  Proof. apply len_ne. apply (i_len _ _ _ _ _ _ HI). Qed.

  Lemma w_gt e0 : ents (vlay ll M0) e0 -> eseq e0 < eseq e.
  Proof. intros H. pose proof (i_seq _ _ _ _ _ _ HI e0 H). lia. Qed.

  Lemma w_act_sorted : sorted act.
  Proof.
    apply (v_sorted _ (i_ll _ _ _ _ _ _ HI) (hd [] ll ++ M0)); [left; reflexivity|].
    apply in_or_app. right. apply in_or_app. right. left. reflexivity.
  Qed.

  Lemma w_l0_ents t e0 : In t (hd [] ll ++ M0) -> In e0 t -> ents (vlay ll M0) e0.
  Proof. intros Ht He0. exists (hd [] ll ++ M0), t. split; [left; reflexivity|auto]. Qed.

  Lemma w_sep1 : sep (hd [] ll ++ M1).
  Proof.
    pose proof (v_sep _ (i_ll _ _ _ _ _ _ HI) _ (vlay_nth_0 ll M0 w_ne)) as H. rewrite app_assoc in H |- *.
    eapply sep_snoc_put; [exact H|]. intros e' He'. apply mt_put_in in He' as [->|He']; [right|left; exact He'].
    intros y e0 Hy He0. apply w_gt. rewrite <- app_assoc in Hy. eapply w_l0_ents; eauto.
  Qed.

  Lemma w_new_old t e' : In t M1 -> In e' t ->
    (exists t0, In t0 (hd [] ll ++ M0) /\ In e' t0) \/ (forall e0, ents (vlay ll M0) e0 -> eseq e0 < eseq e').
  Proof.
    intros Ht He'. apply in_app_or in Ht as [Ht|[<-|[]]].
    - left. exists t. split; [apply in_or_app; right; apply in_or_app; left; exact Ht|exact He'].
    - apply mt_put_in in He' as [->|He']; [right; exact w_gt|left].
      exists act. split; [apply in_or_app; right; apply in_or_app; right; left; reflexivity|exact He'].
  Qed.

  Lemma w_ll1 : LLInv (vlay ll M1).
  Proof.
    apply (LLInv_new_mem ll M0 M1 w_ne (i_ll _ _ _ _ _ _ HI)); [|exact w_sep1|exact w_new_old].
    intros t Ht. apply in_app_or in Ht as [Ht|[<-|[]]]; [|apply mt_put_sorted; exact w_act_sorted].
    apply (v_sorted _ (i_ll _ _ _ _ _ _ HI) (hd [] ll ++ M0)); [left; reflexivity|].
    apply in_or_app. right. apply in_or_app. left. exact Ht.
  Qed.

  Lemma w_e1 e' : ents (vlay ll M1) e' -> e' = e \/ ents (vlay ll M0) e'.
  Proof.
    rewrite !ents_vlay by exact w_ne. intros [H|(t & Ht & He')]; [right; left; exact H|].
    apply in_app_or in Ht as [Ht|[<-|[]]].
    - right. right. exists t. split; [apply in_or_app; left; exact Ht|exact He'].
    - apply mt_put_in in He' as [->|He']; [left; reflexivity|]. right. right. exists act. split; [apply in_or_app; right; left; reflexivity|exact He'].
  Qed.
  Lemma w_e2 : ents (vlay ll M1) e.
  Proof. apply ents_vlay; [exact w_ne|]. right. exists act'. split; [apply in_or_app; right; left; reflexivity|apply mt_put_has]. Qed.
  Lemma w_e3 e' : ents (vlay ll M0) e' -> ekey e' <> ekey e -> ents (vlay ll M1) e'.
  Proof.
    rewrite !ents_vlay by exact w_ne. intros [H|(t & Ht & He')] Hk; [left; exact H|]. right.
    apply in_app_or in Ht as [Ht|[<-|[]]].
    - exists t. split; [apply in_or_app; left; exact Ht|exact He'].
    - exists act'. split; [apply in_or_app; right; left; reflexivity|apply mt_put_keeps; assumption].
  Qed.

  Lemma w_view1 k' :
    tbl_get k' (view (vlay ll M1)) = if beqb (ekey e) k' then Some e else tbl_get k' (view (vlay ll M0)).
  Proof.
    destruct (beqb (ekey e) k') eqn:E.
    - apply beqb_eq in E. subst k'. apply view_max; [exact w_ll1|exact w_e2|].
      intros x Hx _. apply w_e1 in Hx as [->|Hx]; [lia|]. pose proof (w_gt _ Hx). lia.
    - assert (Hk : ekey e <> k') by (intros Hk; rewrite Hk, beqb_refl in E; discriminate).
      destruct (tbl_get k' (view (vlay ll M0))) as [m|] eqn:G.
      + destruct (Mx_get_spec _ _ _ _ (ents_view _) G) as (G1 & G2 & G3). subst k'.
        apply view_max; [exact w_ll1|apply w_e3; [exact G1|congruence]|].
        intros x Hx Hxk. apply w_e1 in Hx as [->|Hx]; [congruence|]. apply G3; assumption.
      + apply view_none. intros x Hx Hxk. apply w_e1 in Hx as [->|Hx]; [congruence|].
        destruct (ents_view (vlay ll M0)) as (_ & _ & H3). destruct (H3 x Hx) as (y & Hy & _). rewrite Hxk in Hy. congruence.
  Qed.

  Lemma w_notrem cs t : c = CSwap cs -> In t (M1 ++ [[]]) -> ~ In t (cs_rem cs).
  Proof.
    intros Hc Ht HR. destruct (i_ct _ _ _ _ _ _ HI cs Hc) as [Hg Hd].
    apply in_app_or in Ht as [Ht|[<-|[]]]; [apply in_app_or in Ht as [Ht|[<-|[]]]|].
    - apply (Hd t); [apply in_or_app; left; exact Ht|exact HR].
    - destruct (g_sub _ _ Hg _ HR) as (j & l & _ & Hl & Hin).
      assert (ents (vlay ll M0) e) by (exists l, act'; split; [eapply nth_error_In; exact Hl|split; [exact Hin|apply mt_put_has]]).
      pose proof (w_gt _ H). lia.
    - destruct (g_sub _ _ Hg _ HR) as (j & l & _ & Hl & Hin). destruct j as [|j].
      + rewrite vlay_nth_0 in Hl by exact w_ne. injection Hl as <-. apply in_app_or in Hin as [Hin|Hin].
        * apply (i_real _ _ _ _ _ _ HI (hd [] ll) []); [apply hd_in; exact w_ne|exact Hin|reflexivity].
        * exact (Hd _ Hin HR).
      + destruct (v_deep _ (i_ll _ _ _ _ _ _ HI) _ _ Hl) as [_ Hn]. exact (Hn _ Hin eq_refl).
  Qed.

  Lemma w_good cs M' :
    c = CSwap cs -> (forall t, In t M' -> In t (M1 ++ [[]])) -> good_cs (vlay ll M') cs.
  Proof.
    intros Hc Hsub. destruct (i_ct _ _ _ _ _ _ HI cs Hc) as [Hg Hd].
    apply (good_cs_new_mem ll M0 M' cs w_ne Hg Hd); [intros t Ht; apply (w_notrem cs t Hc); auto|].
    intros r t e0 e' Hr HrR Ht He0 He'. apply Hsub in Ht.
    assert (Hr0 : In r (hd [] ll ++ M0)) by (apply in_or_app; left; exact Hr).
    assert (Hold : forall t0, In t0 M0 -> In e' t0 -> eseq e0 < eseq e').
    { intros t0 Ht0 He't0. apply (g_l0 _ _ Hg (hd [] ll ++ M0) r t0 e0 e'); [apply vlay_nth_0; exact w_ne|exact Hr0|exact HrR|apply in_or_app; right; exact Ht0|exact (Hd _ Ht0)|exact He0|exact He't0]. }
    apply in_app_or in Ht as [Ht|[<-|[]]]; [apply in_app_or in Ht as [Ht|[<-|[]]]|destruct He'].
    - apply (Hold t); [apply in_or_app; left; exact Ht|exact He'].
    - apply mt_put_in in He' as [->|He']; [apply w_gt; eapply w_l0_ents; eauto|].
      apply (Hold act); [apply in_or_app; right; left; reflexivity|exact He'].
  Qed.

  Lemma w_ft snap : f = FSwap snap -> exists rest0, S = snap ++ rest0.
  Proof.
    intros Hf. destruct (i_ft _ _ _ _ _ _ HI snap Hf) as (rest & H1 & H2).
    destruct (snoc_split _ _ _ _ H1 H2) as (Q0 & _ & HS). exists Q0. exact HS.
  Qed.

  Lemma w_inv1 : Inv M1 ll (sq + 1) f c RNone.
  Proof.
    constructor.
    - exact w_ll1.
    - exact (i_len _ _ _ _ _ _ HI).
    - intros H. apply app_eq_nil in H as [_ H]. discriminate.
    - exact (i_real _ _ _ _ _ _ HI).
    - rewrite removelast_last. intros t Ht. apply (i_sealed _ _ _ _ _ _ HI). rewrite removelast_last. exact Ht.
    - intros x Hx. apply w_e1 in Hx as [->|Hx]; [lia|]. pose proof (i_seq _ _ _ _ _ _ HI x Hx). lia.
    - intros snap Hf. destruct (w_ft snap Hf) as (r0 & ->). exists (r0 ++ [act']). split; [rewrite app_assoc; reflexivity|].
      intros H. apply app_eq_nil in H as [_ H]. discriminate.
    - intros cs Hc. split; [apply (w_good cs M1 Hc); intros t Ht; apply in_or_app; left; exact Ht|].
      intros t Ht. apply (w_notrem cs t Hc). apply in_or_app. left. exact Ht.
    - exact I.
  Qed.

  Lemma w_ents2 x : ents (vlay ll (M1 ++ [[]])) x <-> ents (vlay ll M1) x.
  Proof.
    rewrite !ents_vlay by exact w_ne. split; (intros [H|(t & Ht & Hx)]; [left; exact H|right]).
    - apply in_app_or in Ht as [Ht|[<-|[]]]; [exists t; auto|destruct Hx].
    - exists t. split; [apply in_or_app; left; exact Ht|exact Hx].
  Qed.

  Lemma w_ll2 : LLInv (vlay ll (M1 ++ [[]])).
  Proof.
    apply (LLInv_new_mem ll M1 (M1 ++ [[]]) w_ne w_ll1).
    - intros t Ht. apply in_app_or in Ht as [Ht|[<-|[]]]; [|exact I].
      apply (v_sorted _ w_ll1 (hd [] ll ++ M1)); [left; reflexivity|apply in_or_app; right; exact Ht].
    - rewrite app_assoc. apply sep_snoc_nil. exact w_sep1.
    - intros t x Ht Hx. apply in_app_or in Ht as [Ht|[<-|[]]]; [|destruct Hx]. left. exists t. split; [apply in_or_app; right; exact Ht|exact Hx].
  Qed.

  Lemma w_view2 : view (vlay ll (M1 ++ [[]])) = view (vlay ll M1).
  Proof. apply view_ext; [exact w_ll2|exact w_ll1|exact w_ents2]. Qed.

  Lemma w_inv2 : Inv (M1 ++ [[]]) ll (sq + 1) f c RNone.
  Proof.
    pose proof w_inv1 as H1. constructor.
    - exact w_ll2.
    - exact (i_len _ _ _ _ _ _ HI).
    - intros H. apply app_eq_nil in H as [_ H]. discriminate.
    - exact (i_real _ _ _ _ _ _ HI).
    - rewrite removelast_last. intros t Ht. apply in_app_or in Ht as [Ht|[<-|[]]].
      + apply (i_sealed _ _ _ _ _ _ HI). rewrite removelast_last. exact Ht.
      + intros E. pose proof (mt_put_has e act) as Hh. rewrite E in Hh. destruct Hh.
    - intros x Hx. apply w_ents2 in Hx. exact (i_seq _ _ _ _ _ _ H1 x Hx).
    - intros snap Hf. destruct (w_ft snap Hf) as (r0 & ->). exists (r0 ++ [act'] ++ [[]]). split; [rewrite <- !app_assoc; reflexivity|].
      intros H. apply app_eq_nil in H as [_ H]. discriminate.
    - intros cs Hc. split; [apply (w_good cs _ Hc); auto|]. intros t Ht. apply (w_notrem cs t Hc). exact Ht.
    - exact I.
  Qed.
End Write.

(* ---------- flush ---------- *)

Lemma vlay_add_l0 ll snap rest : ll <> [] -> vlay (add_l0 snap ll) rest = vlay ll (snap ++ rest).
Proof. destruct ll as [|l0 ll]; [congruence|]. intros _. unfold vlay. cbn. rewrite app_assoc. reflexivity. Qed.

Lemma removelast_app_in {A} (a b : list A) x : b <> [] -> In x a -> In x (removelast (a ++ b)).
Proof. intros Hb Hx. rewrite removelast_app by exact Hb. apply in_or_app. left. exact Hx. Qed.
Lemma removelast_app_in2 {A} (a b : list A) x : b <> [] -> In x (removelast b) -> In x (removelast (a ++ b)).
Proof. intros Hb Hx. rewrite removelast_app by exact Hb. apply in_or_app. right. exact Hx. Qed.

Lemma ents_add_l0 ll snap e : ents ll e -> ents (add_l0 snap ll) e.
Proof.
  destruct ll as [|l0 ll]; [intros (l & t & [] & _)|]. cbn. rewrite !ents_cons.
  intros [(t & Ht & He)|H]; [left; exists t; split; [apply in_or_app; left; exact Ht|exact He]|right; exact H].
Qed.

Lemma f1_inv M ll sq c r : Inv M ll sq FIdle c r -> Inv M ll sq (FSwap (removelast M)) c r.
Proof.
  intros H. destruct H. constructor; auto. intros snap [= <-]. exists [last M []]. split; [apply app_removelast_last; exact i_mts0|discriminate].
Qed.

Lemma f2_inv snap rest ll sq c r :
  rest <> [] -> Inv (snap ++ rest) ll sq (FSwap snap) c r -> Inv rest (add_l0 snap ll) sq FIdle c r.
Proof.
  intros Hrest H. destruct H. pose proof (len_ne _ i_len0) as Hne. constructor.
  - rewrite vlay_add_l0 by exact Hne. exact i_ll0.
  - destruct ll; [congruence|exact i_len0].
  - exact Hrest.
  - intros l t Hl Ht. destruct ll as [|l0 ll]; [congruence|]. cbn in Hl. destruct Hl as [<-|Hl].
    + apply in_app_or in Ht as [Ht|Ht]; [apply (i_real0 l0); [left; reflexivity|exact Ht]|].
      apply i_sealed0. apply removelast_app_in; assumption.
    + apply (i_real0 l); [right; exact Hl|exact Ht].
  - intros t Ht. apply i_sealed0. apply removelast_app_in2; assumption.
  - rewrite vlay_add_l0 by exact Hne. exact i_seq0.
  - intros s [=].
  - intros cs Hc. rewrite vlay_add_l0 by exact Hne. destruct (i_ct0 cs Hc) as [H1 H2]. split; [exact H1|].
    intros t Ht. apply H2. apply in_or_app. right. exact Ht.
  - destruct r as [|k [e|]|p mres]; cbn [rd_inv] in *.
    + exact I.
    + rewrite vlay_add_l0 by exact Hne. exact i_rd0.
    + intros t e Ht. apply i_rd0. apply in_or_app. right. exact Ht.
    + rewrite vlay_add_l0 by exact Hne. destruct i_rd0 as (H1 & H2 & H3). split; [exact H1|]. split; [exact H2|].
      intros k m Hp Hg. destruct (H3 k m Hp Hg) as [H|H]; [left; exact H|right; apply ents_add_l0; exact H].
Qed.

(* ---------- compaction ---------- *)

Section RemReal.
  Variable tsize : table -> N.

  Lemma pick_levels_sub maxamp asc elig base r :
    In r (concat (pick_levels tsize maxamp asc elig base)) -> exists l, In l asc /\ In r l.
  Proof.
    revert elig. induction asc as [|l asc IH]; intros elig H; [destruct H|]. cbn [pick_levels] in H.
    destruct (pick_tables tsize maxamp (sort_age l) elig base) as [[p e] d] eqn:E.
    destruct (pick_tables_prefix _ _ _ _ _ _ _ _ E) as ((q & Hq) & _ & _).
    assert (Hp : In r p -> In r l) by (intros Hr; apply sort_age_in; apply (in_firstn' q); rewrite <- Hq; exact Hr).
    destruct d; cbn [concat] in H; apply in_app_or in H as [H|H].
    - exists l. split; [left; reflexivity|auto].
    - rewrite concat_map_nil in H. destruct H.
    - exists l. split; [left; reflexivity|auto].
    - destruct (IH _ H) as (l' & H1 & H2). exists l'. split; [right; exact H1|exact H2].
  Qed.

  Lemma nth_in_real (ll : levels) i r : In r (nth i ll []) -> exists l, In l ll /\ In r l.
  Proof.
    intros H. destruct (nth_in_or_default i ll []) as [H1|H1]; [exists (nth i ll []); auto|]. rewrite H1 in H. destruct H.
  Qed.

  Lemma compact_rem_real cfg mcl ll cs mcl' :
    ll <> [] -> compact tsize cfg mcl ll = (Some cs, mcl') -> forall r, In r (cs_rem cs) -> exists l, In l ll /\ In r l.
  Proof.
    intros Hne H r Hr. unfold compact in H.
    destruct (Nat.eqb mcl 0 && (N.of_nat (length (hd [] ll)) <? c_trigger cfg)); [discriminate|].
    destruct (c_maxamp cfg <? pct (eligible tsize ll) (base_size tsize ll)).
    - injection H as <- <-. unfold major in Hr. cbn [cs_rem] in Hr. apply in_app_or in Hr as [Hr|Hr].
      + apply pick_levels_sub in Hr as (l & Hl & Hr). exists l. split; [|exact Hr]. apply in_rev in Hl.
        rewrite (app_removelast_last [] Hne). apply in_or_app. left. exact Hl.
      + exists (last ll []). split; [|exact Hr]. rewrite (app_removelast_last [] Hne) at 2. apply in_or_app. right. left. reflexivity.
    - assert (Hml : forall i, In r (cs_rem (merge_levels cfg ll i)) -> exists l, In l ll /\ In r l).
      { intros i Hi. unfold merge_levels in Hi. cbn in Hi. apply in_app_or in Hi as [Hi|Hi]; eapply nth_in_real; eauto. }
      unfold minor in H. destruct mcl as [|k].
      + injection H as <- <-. eauto.
      + destruct (minor_loop_spec _ _ _ _ _ _ _ H) as (i & _ & -> & _). eauto.
  Qed.
End RemReal.

Lemma mem_not_rem ll M (R : list table) :
  ll <> [] -> LLInv (vlay ll M) -> (forall l t, In l ll -> In t l -> t <> []) ->
  (forall r, In r R -> exists l, In l ll /\ In r l) -> forall t, In t M -> ~ In t R.
Proof.
  intros Hne Hv Hreal HR t Ht HtR. destruct (HR t HtR) as (l & Hl & Htl). pose proof (Hreal l t Hl Htl) as Hnil.
  destruct t as [|e t]; [congruence|]. apply In_nth_error in Hl as (j & Hj). destruct j as [|j].
  - destruct ll as [|l0 ll]; [congruence|]. cbn in Hj. injection Hj as ->.
    pose proof (v_sep _ Hv _ eq_refl) as Hs. cbn [hd] in Hs. apply sep_app in Hs as (_ & _ & Hs).
    specialize (Hs (e :: t) (e :: t) e e Htl Ht (or_introl eq_refl) (or_introl eq_refl)). lia.
  - pose proof (v_ord _ Hv 0%nat (S j) _ l (e :: t) (e :: t) e e ltac:(lia) (vlay_nth_0 ll M Hne) ltac:(rewrite vlay_nth_S; exact Hj)
                  ltac:(apply in_or_app; right; exact Ht) Htl (or_introl eq_refl) (or_introl eq_refl) eq_refl). lia.
Qed.

Lemma c1_inv cfg M ll sq f c r mcl cs mcl' :
  cfg_ok cfg -> (c = CIdle \/ c = CIter) -> Inv M ll sq f c r ->
  compact table_size (d_comp cfg) mcl ll = (Some cs, mcl') -> Inv M ll sq f (CSwap cs) r.
Proof.
  intros (_ & Ht & Htr) Hc H Hcomp. destruct H. pose proof (len_ne _ i_len0) as Hne. constructor; auto.
  intros cs' [= <-]. split.
  - eapply compact_good; eauto. intros t Ht0. apply (i_real0 (hd [] ll)); [apply hd_in; exact Hne|exact Ht0].
  - eapply mem_not_rem; eauto. eapply compact_rem_real; eauto.
Qed.

Lemma c_idle_inv M ll sq f c c' r : (forall cs, c' <> CSwap cs) -> Inv M ll sq f c r -> Inv M ll sq f c' r.
Proof. intros Hc H. destruct H. constructor; auto. intros cs E. exfalso. exact (Hc cs E). Qed.

Lemma c2_inv M ll sq f cs r : Inv M ll sq f (CSwap cs) r -> Inv M (apply_cs cs ll) sq f CIter r /\ view (vlay (apply_cs cs ll) M) = view (vlay ll M).
Proof.
  intros H. destruct H. pose proof (len_ne _ i_len0) as Hne. destruct (i_ct0 cs eq_refl) as [Hg Hd].
  pose proof (g_lvl _ _ Hg) as HT. rewrite vlay_length in HT by exact Hne.
  assert (Hav : apply_cs cs (vlay ll M) = vlay (apply_cs cs ll) M) by (apply apply_vlay; [exact Hne|lia|exact Hd]).
  assert (Hview : view (vlay (apply_cs cs ll) M) = view (vlay ll M)) by (rewrite <- Hav; apply apply_view; assumption).
  assert (Hne' : apply_cs cs ll <> []) by (apply len_ne; rewrite length_apply; exact i_len0).
  split; [|exact Hview]. constructor.
  - rewrite <- Hav. apply apply_LLInv; assumption.
  - rewrite length_apply. exact i_len0.
  - exact i_mts0.
  - intros l t Hl Ht. apply In_nth_error in Hl as (i & Hi). rewrite nth_error_apply in Hi.
    destruct (nth_error ll i) as [l1|] eqn:E; [|discriminate]. cbn in Hi. injection Hi as <-.
    apply in_newlvl in Ht. destruct Ht as [[Ht _]|[_ Ht]].
    + apply (i_real0 l1); [eapply nth_error_In; exact E|exact Ht].
    + apply (g_add _ _ Hg). exact Ht.
  - exact i_sealed0.
  - intros e He. rewrite <- Hav in He. apply i_seq0. eapply ents_apply_sub; eauto.
  - exact i_ft0.
  - intros cs' [=].
  - destruct r as [|k [e|]|p mres]; cbn [rd_inv] in *.
    + exact I.
    + rewrite Hview. exact i_rd0.
    + exact i_rd0.
    + rewrite Hview. destruct i_rd0 as (H1 & H2 & H3). split; [exact H1|]. split; [exact H2|].
      intros k m Hp Hgm. destruct (H3 k m Hp Hgm) as [H|H]; [left; exact H|right].
      destruct H as (l & t & Hl & Ht & Hm). apply In_nth_error in Hl as (i & Hi).
      destruct (tmem t (cs_rem cs)) eqn:HR; [apply tmem_in in HR|apply tmem_false in HR].
      * destruct (rem_entry_dominated _ _ Hg _ _ HR Hm) as (a & m' & Ha & Hm' & Hk' & Hs').
        destruct (nth_error ll (cs_level cs)) as [lT|] eqn:ET; [|apply nth_error_None in ET; lia].
        assert (Hin' : ents (apply_cs cs ll) m').
        { apply ents_nth. exists (cs_level cs), (newlvl cs (cs_level cs) lT), a. split; [rewrite nth_error_apply, ET; reflexivity|].
          split; [|exact Hm']. unfold newlvl. rewrite Nat.eqb_refl. apply in_or_app. right. exact Ha. }
        assert (Hold : ents (vlay ll M) m').
        { eapply ents_apply_sub; eauto. rewrite Hav. apply ents_vlay; [exact Hne'|left; exact Hin']. }
        destruct (Mx_get_spec _ _ _ _ (ents_view _) Hgm) as (G1 & G2 & G3).
        assert (m' = m); [|subst m'; exact Hin'].
        apply (LLInv_uniq _ i_ll0); [exact Hold|exact G1|exact Hk'|]. specialize (G3 m' Hold ltac:(congruence)). lia.
      * apply ents_nth. exists i, (newlvl cs i l), t. split; [rewrite nth_error_apply, Hi; reflexivity|].
        split; [apply kept_in_newlvl; assumption|exact Hm].
Qed.

(* ---------- reads ---------- *)

Lemma set_rd_inv M ll sq f c r r' : rd_inv r' M ll -> Inv M ll sq f c r -> Inv M ll sq f c r'.
Proof. intros Hr H. destruct H. constructor; auto. Qed.

Lemma get1_inv M ll sq f c k : Inv M ll sq f c RNone -> Inv M ll sq f c (RGet k (ml_get k M)).
Proof.
  intros H. apply (set_rd_inv _ _ _ _ _ RNone); [|exact H]. destruct H. pose proof (len_ne _ i_len0) as Hne.
  assert (Hsep : sep (hd [] ll ++ M)) by (apply (v_sep _ i_ll0); apply vlay_nth_0; exact Hne).
  assert (Hs : forall t, In t M -> sorted t).
  { intros t Ht. apply (v_sorted _ i_ll0 (hd [] ll ++ M)); [left; reflexivity|apply in_or_app; right; exact Ht]. }
  pose proof (ml_get_spec (hd [] ll) M k Hsep Hs) as Hm. unfold rd_inv. destruct (ml_get k M) as [e|].
  - destruct Hm as ((x & Hx & Hex) & Hk & Hmax). subst k. apply view_max; [exact i_ll0| |].
    + apply ents_vlay; [exact Hne|]. right. exists x. auto.
    + intros y Hy Hyk. apply ents_nth in Hy as (i & l & t & Hi & Ht & Hyt). destruct i as [|i].
      * rewrite vlay_nth_0 in Hi by exact Hne. injection Hi as <-. eapply Hmax; eauto.
      * assert (eseq y < eseq e); [|lia].
        apply (v_ord _ i_ll0 0%nat (S i) (hd [] ll ++ M) l x t e y); [lia|apply vlay_nth_0; exact Hne|exact Hi|apply in_or_app; right; exact Hx|exact Ht|exact Hex|exact Hyt|symmetry; exact Hyk].
  - exact Hm.
Qed.

Lemma get2_ok M ll sq f c k m0 :
  Inv M ll sq f c (RGet k m0) ->
  match m0 with Some e => Some e | None => ll_get k ll end = tbl_get k (view (vlay ll M)).
Proof.
  intros H. destruct H. pose proof (len_ne _ i_len0) as Hne. unfold rd_inv in i_rd0. destruct m0 as [e|]; [symmetry; exact i_rd0|].
  pose proof (LLInv_real _ _ i_ll0 Hne) as Hreal. rewrite ll_get_ok by exact Hreal.
  destruct (tbl_get k (view ll)) as [m|] eqn:G.
  - destruct (Mx_get_spec _ _ _ _ (ents_view _) G) as (G1 & G2 & G3). subst k. symmetry. apply view_max; [exact i_ll0| |].
    + apply ents_vlay; [exact Hne|left; exact G1].
    + intros y Hy Hyk. apply ents_vlay in Hy; [|exact Hne]. destruct Hy as [Hy|(t & Ht & Hyt)]; [auto|].
      exfalso. eapply i_rd0; eauto.
  - symmetry. apply view_none. intros y Hy Hyk. apply ents_vlay in Hy; [|exact Hne]. destruct Hy as [Hy|(t & Ht & Hyt)].
    + destruct (ents_view ll) as (_ & _ & H3). destruct (H3 y Hy) as (z & Hz & _). rewrite Hyk in Hz. congruence.
    + eapply i_rd0; eauto.
Qed.

Lemma scan1_inv M ll sq f c p : Inv M ll sq f c RNone -> Inv M ll sq f c (RScan p (ml_scan_entries p M)).
Proof.
  intros H. apply (set_rd_inv _ _ _ _ _ RNone); [|exact H]. destruct H. pose proof (len_ne _ i_len0) as Hne.
  unfold rd_inv, ml_scan_entries.
  pose proof (Mx_merge_all (map (tbl_scan p) M)) as HMx.
  assert (Hsrc : forall e, In e (merge_all (map (tbl_scan p) M)) -> has_prefix p e = true /\ exists t, In t M /\ In e t).
  { intros e He. destruct HMx as (_ & H2 & _). destruct (H2 e He) as (s & Hs & Hes). apply in_map_iff in Hs as (t & <- & Ht).
    apply filter_In in Hes as [Hes Hp]. split; [exact Hp|exists t; auto]. }
  split; [apply merge_all_sorted|]. split.
  - intros e He. destruct (Hsrc e He) as (Hp & t & Ht & Het). split; [exact Hp|].
    assert (Hents : ents (vlay ll M) e) by (apply ents_vlay; [exact Hne|right; exists t; auto]).
    destruct (ents_view (vlay ll M)) as (_ & _ & H3). destruct (H3 e Hents) as (m & Hm & Hle). exists m. repeat split; auto.
    intros Heq. destruct (Mx_get_spec _ _ _ _ (ents_view _) Hm) as (G1 & G2 & _). apply (LLInv_uniq _ i_ll0); auto.
  - intros k m Hp Hg. destruct (Mx_get_spec _ _ _ _ (ents_view _) Hg) as (G1 & G2 & G3).
    apply ents_vlay in G1; [|exact Hne]. destruct G1 as [G1|(t & Ht & Hmt)]; [right; exact G1|left].
    assert (HS : ents_of (map (tbl_scan p) M) m).
    { exists (tbl_scan p t). split; [apply in_map; exact Ht|]. apply filter_In. split; [exact Hmt|]. unfold has_prefix. rewrite G2. exact Hp. }
    destruct HMx as (HM1 & HM2 & HM3). destruct (HM3 m HS) as (x & Hx & Hle).
    apply tbl_get_some in Hx as [Hx1 Hx2]. destruct (Hsrc x Hx1) as (_ & t' & Ht' & Hxt').
    assert (Hxe : ents (vlay ll M) x) by (apply ents_vlay; [exact Hne|right; exists t'; auto]).
    assert (x = m); [|subst x; exact Hx1]. apply (LLInv_uniq _ i_ll0); auto.
    + apply ents_vlay; [exact Hne|right; exists t; auto].
    + specialize (G3 x Hxe ltac:(congruence)). lia.
Qed.

Lemma scan2_ok M ll sq f c p mres :
  Inv M ll sq f c (RScan p mres) -> merge_all [mres; ll_scan_entries p ll] = tbl_scan p (view (vlay ll M)).
Proof.
  intros H. destruct H. pose proof (len_ne _ i_len0) as Hne. destruct i_rd0 as (Hs & HI1 & HI2).
  pose proof (LLInv_real _ _ i_ll0 Hne) as Hreal. rewrite ll_scan_ok by exact Hreal.
  pose proof (Mx_merge_all [mres; tbl_scan p (view ll)]) as HMx.
  assert (Hview : forall k, tbl_get k (tbl_scan p (view (vlay ll M))) = if is_prefix p k then tbl_get k (view (vlay ll M)) else None).
  { intros k. apply tbl_get_scan. apply merge_all_sorted. }
  assert (Hsub : forall e, ents ll e -> ents (vlay ll M) e) by (intros e He; apply ents_vlay; [exact Hne|left; exact He]).
  (* the members of the merge input *)
  assert (Hsrc : forall e, ents_of [mres; tbl_scan p (view ll)] e ->
            has_prefix p e = true /\ exists m, tbl_get (ekey e) (view (vlay ll M)) = Some m /\ eseq e <= eseq m /\ (eseq e = eseq m -> e = m)).
  { intros e (s & [<-|[<-|[]]] & He); [apply HI1; exact He|].
    apply filter_In in He as [He Hp]. split; [exact Hp|].
    destruct (ents_view ll) as (_ & V2 & _). pose proof (Hsub _ (V2 _ He)) as Hev.
    destruct (ents_view (vlay ll M)) as (_ & _ & H3). destruct (H3 e Hev) as (m & Hm & Hle). exists m. repeat split; auto.
    intros Heq. destruct (Mx_get_spec _ _ _ _ (ents_view _) Hm) as (G1 & G2 & _). apply (LLInv_uniq _ i_ll0); auto. }
  apply sorted_ext; [apply merge_all_sorted|apply sorted_filter, merge_all_sorted|]. intros k. rewrite Hview.
  destruct (is_prefix p k) eqn:Hp.
  - destruct (tbl_get k (view (vlay ll M))) as [m|] eqn:G.
    + destruct (Mx_get_spec _ _ _ _ (ents_view _) G) as (G1 & G2 & G3).
      assert (Hin : ents_of [mres; tbl_scan p (view ll)] m).
      { destruct (HI2 k m Hp G) as [Hm|Hm]; [exists mres; split; [left; reflexivity|exact Hm]|].
        exists (tbl_scan p (view ll)). split; [right; left; reflexivity|]. apply filter_In. split; [|unfold has_prefix; rewrite G2; exact Hp].
        assert (Hg : tbl_get (ekey m) (view ll) = Some m).
        { apply view_max; [exact Hreal|exact Hm|]. intros e He Hk. apply G3; [apply Hsub; exact He|congruence]. }
        apply tbl_get_some in Hg. apply Hg. }
      destruct HMx as (HM1 & HM2 & HM3). destruct (HM3 m Hin) as (x & Hx & Hle). rewrite G2 in Hx. rewrite Hx. f_equal.
      apply tbl_get_some in Hx as [Hx1 Hx2]. destruct (Hsrc x (HM2 _ Hx1)) as (_ & m' & Hm' & Hle' & Heq').
      rewrite Hx2, G in Hm'. injection Hm' as <-. apply Heq'. lia.
    + eapply Mx_get_none; [exact HMx|]. intros e He Hk. destruct (Hsrc e He) as (_ & m' & Hm' & _). rewrite Hk, G in Hm'. discriminate.
  - eapply Mx_get_none; [exact HMx|]. intros e He Hk. destruct (Hsrc e He) as (Hpe & _). unfold has_prefix in Hpe. rewrite Hk, Hp in Hpe. discriminate.
Qed.

(* ---------- the refinement ---------- *)

Definition pend_of (r : rtask) : option bytes := match r with RNone => None | RGet k _ => Some k | RScan p _ => Some p end.

(* what the specification demands of one observation: [m] is the map after the writes so far, [pend] the key / prefix
   of the read in flight *)
Definition obs_good (m : smap) (pend : option bytes) (a : act) (o : obs) : Prop :=
  match a with
  | AGet2 => exists k r, pend = Some k /\ o = OGet r /\ get_matches r (sm_get k m)
  | AScan2 => exists p, pend = Some p /\ o = OScan (sm_scan p m)
  | _ => True
  end.
Definition next_pend (pend : option bytes) (a : act) : option bytes :=
  match a with AGet1 k => Some k | AScan1 p => Some p | AGet2 | AScan2 => None | _ => pend end.
Fixpoint obs_ok (m : smap) (pend : option bytes) (acts : list act) (os : list obs) : Prop :=
  match acts, os with
  | [], [] => True
  | a :: ar, o :: or => obs_good m pend a o /\ obs_ok (spec_step m a) (next_pend pend a) ar or
  | _, _ => False
  end.

Lemma absm_sorted st : ksorted (absm st).
Proof. unfold absm. apply kvs_sorted. apply sorted_filter. apply merge_all_sorted. Qed.
Lemma absm_get st k : sm_get k (absm st) = vis (tbl_get k (view (vll st))).
Proof. unfold absm. apply sm_get_live. apply merge_all_sorted. Qed.

Lemma write_ok cfg st k v del st' rot :
  DBInv st -> rd st = RNone -> (del = true -> v = []) -> write cfg st k v del = (st', rot) ->
  DBInv st' /\ absm st' = (if del then sm_del k (absm st) else sm_put k v (absm st)) /\ rd st' = RNone.
Proof.
  intros HI Hrd Hv Hw. destruct st as [M ms wb ll sq fp f cp c mc r]. unfold DBInv in *. cbn in HI, Hrd. subst r.
  pose proof (i_mts _ _ _ _ _ _ HI) as HM. pose proof (app_removelast_last [] HM) as HMeq.
  assert (exists S actv, M = S ++ [actv]) as (S & actv & HMeq2) by (eexists _, _; exact HMeq). clear HMeq HM. subst M.
  set (e := mkE k (sq + 1) del v).
  assert (Hseq : eseq e = sq + 1) by reflexivity.
  pose proof (w_inv1 S actv ll sq f c e HI Hseq) as H1. pose proof (w_inv2 S actv ll sq f c e HI Hseq) as H2.
  pose proof (w_view1 S actv ll sq f c e HI Hseq) as Hv1. pose proof (w_view2 S actv ll sq f c e HI Hseq) as Hv2.
  assert (Habs : forall M', view (vlay ll M') = view (vlay ll (S ++ [mt_put e actv])) ->
            kvs (without_deletes (view (vlay ll M'))) =
            (if del then sm_del k (kvs (without_deletes (view (vlay ll (S ++ [actv])))))
             else sm_put k v (kvs (without_deletes (view (vlay ll (S ++ [actv]))))))).
  { intros M' HM'. rewrite HM'.
    assert (Hso : ksorted (kvs (without_deletes (view (vlay ll (S ++ [actv])))))) by (apply kvs_sorted, sorted_filter, merge_all_sorted).
    apply kv_ext; [apply kvs_sorted, sorted_filter, merge_all_sorted|destruct del; [apply sm_del_sorted|apply sm_put_sorted]; exact Hso|].
    intros k'. rewrite sm_get_live by apply merge_all_sorted. rewrite Hv1. cbn [ekey e].
    destruct del.
    - rewrite sm_del_get by exact Hso. rewrite sm_get_live by apply merge_all_sorted. destruct (beqb k k'); reflexivity.
    - rewrite sm_put_get by exact Hso. rewrite sm_get_live by apply merge_all_sorted. destruct (beqb k k'); reflexivity. }
  unfold write, active in Hw. cbn [mts msize walb lv seqn fpend ft cpend ct mcl rd] in Hw. cbv zeta in Hw.
  rewrite !last_last, !removelast_last in Hw. fold e in Hw.
  match type of Hw with (if ?b then _ else _) = _ => destruct b end; injection Hw as <- <-; cbn [mts lv seqn ft ct rd]; unfold absm, vll; cbn [mts lv].
  - split; [exact H2|]. split; [apply Habs; exact Hv2|reflexivity].
  - split; [exact H1|]. split; [apply Habs; reflexivity|reflexivity].
Qed.

Theorem step_ok cfg st a st' o :
  cfg_ok cfg -> DBInv st -> step cfg st a = Some (st', o) ->
  DBInv st' /\ absm st' = spec_step (absm st) a /\ obs_good (absm st) (pend_of (rd st)) a o /\
  pend_of (rd st') = next_pend (pend_of (rd st)) a.
Proof.
  intros Hcfg HI Hs. destruct a; cbn [step] in Hs.
  - (* Put *) destruct (rd st) eqn:Hrd; try discriminate. destruct (write cfg st k v false) as [s r] eqn:Hw. cbv beta iota in Hs. injection Hs as <- <-.
    destruct (write_ok cfg st k v false s r HI Hrd ltac:(intros; discriminate) Hw) as (H1 & H2 & H3). rewrite H3. cbn. auto.
  - (* Delete *) destruct (rd st) eqn:Hrd; try discriminate. destruct (write cfg st k [] true) as [s r] eqn:Hw. cbv beta iota in Hs. injection Hs as <- <-.
    destruct (write_ok cfg st k [] true s r HI Hrd ltac:(intros; reflexivity) Hw) as (H1 & H2 & H3). rewrite H3. cbn. auto.
  - (* Get1 *) destruct (rd st) eqn:Hrd; try discriminate. injection Hs as <- <-.
    destruct st as [M ms wb ll sq fp f cp c mc r]. unfold DBInv, absm, vll in *. cbn in *. subst r.
    split; [apply get1_inv; exact HI|auto].
  - (* Get2 *) destruct (rd st) as [|k0 m0|] eqn:Hrd; try discriminate. injection Hs as <- <-.
    destruct st as [M ms wb ll sq fp f cp c mc r]. unfold DBInv in *. cbn in HI, Hrd. subst r.
    split; [unfold DBInv; cbn; apply (set_rd_inv _ _ _ _ _ (RGet k0 m0)); [exact I|exact HI]|].
    split; [reflexivity|]. split; [|reflexivity]. cbn [obs_good rd pend_of]. exists k0, (to_getres (match m0 with Some e => Some e | None => ll_get k0 ll end)).
    split; [reflexivity|]. split; [reflexivity|]. rewrite absm_get. unfold vll. cbn [mts lv].
    rewrite (get2_ok _ _ _ _ _ _ _ HI). apply to_getres_matches.
  - (* Scan1 *) destruct (rd st) eqn:Hrd; try discriminate. injection Hs as <- <-.
    destruct st as [M ms wb ll sq fp f cp c mc r]. unfold DBInv, absm, vll in *. cbn in *. subst r.
    split; [apply scan1_inv; exact HI|auto].
  - (* Scan2 *) destruct (rd st) as [| |p0 m0] eqn:Hrd; try discriminate. injection Hs as <- <-.
    destruct st as [M ms wb ll sq fp f cp c mc r]. unfold DBInv in *. cbn in HI, Hrd. subst r.
    split; [unfold DBInv; cbn; apply (set_rd_inv _ _ _ _ _ (RScan p0 m0)); [exact I|exact HI]|].
    split; [reflexivity|]. split; [|reflexivity]. cbn [obs_good rd pend_of]. exists p0. split; [reflexivity|]. f_equal.
    cbn [lv]. change (merge_into m0 (merge_into (ll_scan_entries p0 ll) [])) with (merge_all [m0; ll_scan_entries p0 ll]).
    rewrite (scan2_ok _ _ _ _ _ _ _ HI). unfold absm, vll. cbn [mts lv]. rewrite sm_scan_live. reflexivity.
  - (* F1 *) destruct st as [M ms wb ll sq fp f cp c mc r]. cbn in Hs. destruct f; try discriminate. destruct fp as [|n]; try discriminate.
    injection Hs as <- <-. unfold DBInv, absm, vll in *. cbn in *. split; [apply f1_inv; exact HI|auto].
  - (* F2 *) destruct st as [M ms wb ll sq fp f cp c mc r]. cbn [step ft] in Hs. destruct f as [|snap]; try discriminate.
    injection Hs as <- <-. unfold DBInv, absm, vll in *. cbn [mts lv seqn ft ct rd fpend cpend msize walb mcl] in *.
    destruct (i_ft _ _ _ _ _ _ HI snap eq_refl) as (rest & HM & Hrest). subst M.
    assert (Hsk : skipn (length snap) (snap ++ rest) = rest) by (rewrite skipn_app, Nat.sub_diag, skipn_all; reflexivity).
    rewrite Hsk. split; [apply f2_inv; assumption|]. rewrite vlay_add_l0 by (apply len_ne; apply (i_len _ _ _ _ _ _ HI)).
    split; [reflexivity|]. split; [exact I|reflexivity].
  - (* C1 *) destruct st as [M ms wb ll sq fp f cp c mc r]. cbn in Hs.
    assert (Hrun : forall n, (c = CIdle \/ c = CIter) ->
              (let '(ocs, m) := compact table_size (d_comp cfg) mc ll in
               Some (mkDb M ms wb ll sq fp f n (match ocs with Some cs => CSwap cs | None => CIdle end) m r,
                     OComp (match ocs with Some _ => true | None => false end))) = Some (st', o) ->
              DBInv st' /\ absm st' = absm (mkDb M ms wb ll sq fp f cp c mc r) /\ rd st' = r).
    { intros n Hc Hr. destruct (compact table_size (d_comp cfg) mc ll) as [[cs|] m] eqn:Hcomp; injection Hr as <- <-;
        unfold DBInv, absm, vll in *; cbn in *.
      - split; [eapply c1_inv; eauto|auto].
      - split; [eapply c_idle_inv; [|exact HI]; discriminate|auto]. }
    assert (Hres : DBInv st' /\ absm st' = absm (mkDb M ms wb ll sq fp f cp c mc r) /\ rd st' = r).
    { destruct c as [| |cs]; [destruct cp as [|n]; [discriminate|]| |discriminate]; eapply Hrun; eauto. }
    destruct Hres as (H1 & H2 & H3). rewrite H3. cbn. auto.
  - (* C2 *) destruct st as [M ms wb ll sq fp f cp c mc r]. cbn [step ct] in Hs. destruct c as [| |cs]; try discriminate.
    injection Hs as <- <-. unfold DBInv, absm, vll in *. cbn [mts lv seqn ft ct rd fpend cpend msize walb mcl] in *.
    destruct (c2_inv _ _ _ _ _ _ HI) as [H1 H2].
    split; [exact H1|]. rewrite H2. split; [reflexivity|]. split; [exact I|reflexivity].

  - (* C1F *) destruct st as [M ms wb ll sq fp f cp c mc r]. cbn in Hs.
    assert (Hrun : forall n,
              (let '(ocs, m) := compact table_size (d_comp cfg) mc ll in
               match ocs with
               | Some _ => Some (mkDb M ms wb ll sq fp f n CIdle m r, OComp false)
               | None => None
               end) = Some (st', o) ->
              DBInv st' /\ absm st' = absm (mkDb M ms wb ll sq fp f cp c mc r) /\ rd st' = r).
    { intros n Hr. destruct (compact table_size (d_comp cfg) mc ll) as [[cs|] m] eqn:Hcomp; [|discriminate]. injection Hr as <- <-.
      unfold DBInv, absm, vll in *; cbn in *. split; [eapply c_idle_inv; [|exact HI]; discriminate|auto]. }
    assert (Hres : DBInv st' /\ absm st' = absm (mkDb M ms wb ll sq fp f cp c mc r) /\ rd st' = r).
    { destruct c as [| |cs]; [destruct cp as [|n]; [discriminate|]| |discriminate]; eapply Hrun; eauto. }
    destruct Hres as (H1 & H2 & H3). rewrite H3. cbn. auto.
Qed.

Theorem run_refines cfg :
  cfg_ok cfg -> forall acts st st' os, DBInv st -> run cfg st acts = Some (st', os) ->
  obs_ok (absm st) (pend_of (rd st)) acts os /\ DBInv st'.
Proof.
  intros Hcfg. induction acts as [|a acts IH]; intros st st' os HI Hr; cbn [run] in Hr.
  - injection Hr as <- <-. split; [exact I|exact HI].
  - destruct (step cfg st a) as [[s1 o]|] eqn:Hs; [|discriminate].
    destruct (run cfg s1 acts) as [[s2 os']|] eqn:Hr'; [|discriminate]. injection Hr as <- <-.
    destruct (step_ok _ _ _ _ _ Hcfg HI Hs) as (H1 & H2 & H3 & H4). destruct (IH _ _ _ H1 Hr') as [H5 H6].
    split; [|exact H6]. cbn [obs_ok]. split; [exact H3|]. rewrite <- H2, <- H4. exact H5.
Qed.

Lemma absm_init cfg : cfg_ok cfg -> absm (init cfg) = [].
Proof.
  intros Hcfg. unfold absm. pose proof (init_inv cfg Hcfg) as HI. unfold DBInv in HI.
  assert (view (vll (init cfg)) = []); [|rewrite H; reflexivity].
  destruct (view (vll (init cfg))) as [|e t] eqn:E; [reflexivity|exfalso].
  destruct (ents_view (vll (init cfg))) as (_ & H2 & _). rewrite E in H2. specialize (H2 e (or_introl eq_refl)).
  pose proof (i_seq _ _ _ _ _ _ HI e H2) as Hs. cbn in Hs.
  (* every entry of the initial layout would have to sit in an empty table *)
  unfold vll, init in H2. cbn in H2. apply ents_vlay in H2.
  - destruct H2 as [(l & t' & Hl & Ht & _)|(t' & [<-|[]] & He)]; [|destruct He]. apply repeat_spec in Hl. subst l. destruct Ht.
  - apply len_ne. rewrite repeat_length. apply Hcfg.
Qed.

(* C07, main statement: every history of the DB state machine from the initial state, with any interleaving of the
   background half-steps and for every option setting, shows exactly the reads of the sorted map *)
Theorem dkv_refines_map_proof cfg acts st os :
  cfg_ok cfg -> run cfg (init cfg) acts = Some (st, os) -> obs_ok [] None acts os.
Proof.
  intros Hcfg Hr. destruct (run_refines cfg Hcfg acts _ _ _ (init_inv cfg Hcfg) Hr) as [H _].
  rewrite absm_init in H by exact Hcfg. exact H.
Qed.
