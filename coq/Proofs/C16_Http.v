(* C16, httpapi reader: the checkpointed cursor always stands exactly behind the records emitted so far. *)
From Coq Require Import List NArith Bool Lia ZifyN ZifyNat ZifyBool.
From RV Require Import Model.HttpReader.
Import ListNotations.
Open Scope N_scope.

Lemma h_range_app : forall k1 k2 from, h_range from (k1 + k2) = h_range from k1 ++ h_range (from + N.of_nat k1) k2.
Proof.
  induction k1 as [|k1 IH]; intros k2 from; cbn [h_range Nat.add app].
  - replace (from + N.of_nat 0) with from by lia. reflexivity.
  - rewrite IH. replace (from + 1 + N.of_nat k1) with (from + N.of_nat (S k1)) by lia. reflexivity.
Qed.

Lemma h_range_length : forall k from, length (h_range from k) = k.
Proof. induction k; intro from; cbn [h_range length]; auto. Qed.

(* after any number of reads from cursor c0 the emitted records are the consecutive topic records from c0 and
   the cursor (= the position Checkpoint() reports) is c0 + their number; nothing beyond the topic is emitted *)
Theorem http_cursor_matches_emitted : forall n b k c0, c0 <= n ->
  let '(r, evs) := h_reads n b k (h_assign c0) in
  evs = h_range c0 (length evs) /\ h_checkpoint r = c0 + N.of_nat (length evs) /\ h_checkpoint r <= n.
Proof.
  intros n b k. unfold h_assign. generalize false as e.
  induction k as [|k IH]; intros e c0 Hc; cbn [h_reads].
  - cbn [length h_range h_checkpoint h_cursor]. split; [reflexivity|]. lia.
  - unfold h_read, h_serve. cbn [h_cursor h_eoi].
    set (lastp := (b =? 0) || (n <=? c0 + b)). set (stop := if lastp then n else c0 + b).
    assert (Hstop : c0 <= stop /\ stop <= n) by (unfold stop, lastp; destruct (b =? 0) eqn:E1, (n <=? c0 + b) eqn:E2; cbn [orb]; lia).
    set (m := N.to_nat (stop - c0)).
    specialize (IH (e || lastp) (c0 + N.of_nat m) ltac:(unfold m; lia)).
    destruct (h_reads n b k {| h_cursor := c0 + N.of_nat m; h_eoi := e || lastp |}) as [r2 evs2].
    destruct IH as [H1 [H2 H3]]. rewrite app_length, h_range_length. split; [|split].
    + rewrite h_range_app. f_equal. exact H1.
    + rewrite H2. lia.
    + exact H3.
Qed.
