(* C06, part 1: AssignRanges hands every old checkpoint to exactly the new operators whose range it overlaps,
   whatever the order in which the old checkpoints were recorded. *)
From Coq Require Import List NArith Lia Bool Sorting.Permutation Sorting.Sorted.
From Coq Require Import ZifyN ZifyNat ZifyBool.
From RV Require Import Model.AssignRanges.
Import ListNotations.
Open Scope N_scope.

(* ---------- samples (tests of the transcription) ---------- *)
Example assign_t2 : assign_ranges [(0,2);(2,4);(4,6)] [(0,1);(1,3);(3,6)] = [[0;1];[1;2];[2]].
Proof. reflexivity. Qed.
Example assign_t3 : assign_ranges [(0,4);(4,5)] [(0,1);(1,3);(3,6)] = [[0;1;2];[2]].
Proof. reflexivity. Qed.
Example assign_d20_now : assign_ranges [(0,2);(2,4)] [(2,4);(0,2)] = [[1];[0]].
Proof. reflexivity. Qed.
Example assign_old_sorted : assign_ranges_old [(0,2);(2,4);(4,6)] [(0,1);(1,3);(3,6)] = [[0;1];[1;2];[2]].
Proof. reflexivity. Qed.

(* D20 (repaired by 35e5e8b): the two-pointer scan lost the first new operator's checkpoint *)
Lemma d20_old_scan_refuted :
  exists to from, Permutation from [(0,2);(2,4)] /\ to = [(0,2);(2,4)] /\
     nth 0 (assign_ranges_old to from) [] = [] /\ overlaps (nth 0 to (0,0)) (nth 1 from (0,0)) = true.
Proof. exists [(0,2);(2,4)], [(2,4);(0,2)]. repeat split; try reflexivity. apply perm_swap. Qed.

(* ---------- the scan ---------- *)
Definition dflt : kgrange := (0, 0).

Lemma assign_scan_in : forall toR from base j,
  In j (assign_scan toR base from) <->
  exists k, (k < length from)%nat /\ j = base + N.of_nat k /\ overlaps toR (nth k from dflt) = true.
Proof.
  intros toR from. induction from as [|f from IH]; intros base j; cbn [assign_scan length].
  - split; [intros []|intros (k & Hk & _); lia].
  - destruct (overlaps toR f) eqn:Ho.
    + cbn [In]. rewrite IH. split.
      * intros [Hj|(k & Hk & Hj & Hov)].
        -- exists 0%nat. split; [lia|]. split; [lia|]. exact Ho.
        -- exists (S k). split; [lia|]. split; [lia|]. exact Hov.
      * intros (k & Hk & Hj & Hov). destruct k as [|k].
        -- left. lia.
        -- right. exists k. split; [lia|]. split; [lia|]. exact Hov.
    + rewrite IH. split.
      * intros (k & Hk & Hj & Hov). exists (S k). split; [lia|]. split; [lia|]. exact Hov.
      * intros (k & Hk & Hj & Hov). destruct k as [|k].
        -- cbn [nth] in Hov. congruence.
        -- exists k. split; [lia|]. split; [lia|]. exact Hov.
Qed.

Lemma assign_scan_ge : forall toR from base j, In j (assign_scan toR base from) -> base <= j.
Proof. intros toR from base j H. apply assign_scan_in in H. destruct H as (k & _ & Hj & _). lia. Qed.

Lemma assign_scan_sorted : forall toR from base, StronglySorted N.lt (assign_scan toR base from).
Proof.
  intros toR from. induction from as [|f from IH]; intros base; cbn [assign_scan].
  - constructor.
  - destruct (overlaps toR f).
    + constructor; [apply IH|]. apply Forall_forall. intros x Hx. apply assign_scan_ge in Hx. lia.
    + apply IH.
Qed.

(* the list is literally "the indices of `from`, ascending, filtered by Overlaps" *)
Fixpoint indexed (base : N) (l : list kgrange) : list (N * kgrange) :=
  match l with [] => [] | x :: l' => (base, x) :: indexed (base + 1) l' end.

Lemma assign_scan_filter : forall toR from base,
  assign_scan toR base from = map fst (filter (fun p => overlaps toR (snd p)) (indexed base from)).
Proof.
  intros toR from. induction from as [|f from IH]; intros base; cbn [assign_scan indexed filter map snd]; [reflexivity|].
  destruct (overlaps toR f); cbn [map fst]; rewrite IH; reflexivity.
Qed.

Lemma assign_ranges_length : forall to from, length (assign_ranges to from) = length to.
Proof. intros. unfold assign_ranges. apply map_length. Qed.

Lemma assign_ranges_nth : forall to from i, (i < length to)%nat ->
  nth i (assign_ranges to from) [] = assign_scan (nth i to dflt) 0 from.
Proof.
  intros to from i Hi. unfold assign_ranges.
  rewrite nth_indep with (d' := (fun t => assign_scan t 0 from) dflt) by (rewrite map_length; exact Hi).
  exact (map_nth (fun t => assign_scan t 0 from) to dflt i).
Qed.

(* assign_exact: for ANY lists of ranges (so for every M, N, every key-group count and every order of the old
   ranges): assignments has one entry per new range; entry i lists, ascending and without repetition, exactly the
   positions j of `from` with to[i].Overlaps(from[j]). *)
Lemma assign_exact_gen : forall to from,
  length (assign_ranges to from) = length to /\
  forall i, (i < length to)%nat ->
    let a := nth i (assign_ranges to from) [] in
    (forall j, In j a <-> (j < N.of_nat (length from) /\ overlaps (nth i to dflt) (nth (N.to_nat j) from dflt) = true)) /\
    StronglySorted N.lt a /\
    a = map fst (filter (fun p => overlaps (nth i to dflt) (snd p)) (indexed 0 from)).
Proof.
  intros to from. split; [apply assign_ranges_length|].
  intros i Hi a. subst a. rewrite (assign_ranges_nth _ _ _ Hi). split; [|split].
  - intros j. rewrite assign_scan_in. split.
    + intros (k & Hk & Hj & Hov). subst j. rewrite N.add_0_l, Nat2N.id. split; [lia|exact Hov].
    + intros (Hj & Hov). exists (N.to_nat j). split; [lia|]. split; [lia|exact Hov].
  - apply assign_scan_sorted.
  - apply assign_scan_filter.
Qed.

(* ---------- keyGroupRanges is a partition of [0, count) ---------- *)
Fixpoint chain (s : N) (rs : list kgrange) (e : N) : Prop :=
  match rs with
  | [] => s = e
  | (a, b) :: rs' => a = s /\ a <= b /\ chain b rs' e
  end.

Lemma kg_loop_chain : forall todo i kgIndex bigger minKG,
  chain kgIndex (kg_ranges_loop todo i kgIndex bigger minKG)
        (kgIndex + N.of_nat todo * minKG + (N.min (i + N.of_nat todo) bigger - N.min i bigger)).
Proof.
  induction todo as [|todo IH]; intros i kgIndex bigger minKG; cbn [kg_ranges_loop chain].
  - lia.
  - split; [reflexivity|]. split; [lia|].
    specialize (IH (i + 1) (kgIndex + minKG + (if i <? bigger then 1 else 0)) bigger minKG).
    match goal with |- chain _ _ ?e => match type of IH with chain _ _ ?e' => replace e with e'; [exact IH|] end end.
    destruct (i <? bigger) eqn:Hb; nia.
Qed.

Lemma kg_ranges_chain : forall count n, 1 <= n -> chain 0 (kg_ranges count n) count.
Proof.
  intros count n Hn. unfold kg_ranges.
  pose proof (kg_loop_chain (N.to_nat n) 0 0 (count mod n) (count / n)) as H.
  match type of H with chain _ _ ?e => replace e with count in H; [exact H|] end.
  rewrite N2Nat.id. pose proof (N.mod_lt count n ltac:(lia)). pose proof (N.div_mod count n ltac:(lia)). nia.
Qed.

Lemma kg_loop_length : forall todo i k b m, length (kg_ranges_loop todo i k b m) = todo.
Proof. induction todo; intros; cbn [kg_ranges_loop length]; [reflexivity|rewrite IHtodo; reflexivity]. Qed.
Lemma kg_ranges_length : forall count n, length (kg_ranges count n) = N.to_nat n.
Proof. intros. unfold kg_ranges. apply kg_loop_length. Qed.

Definition owners (rs : list kgrange) (kg : N) : list kgrange := filter (fun r => includes_kg r kg) rs.

Lemma chain_owners_out : forall rs s e kg, chain s rs e -> (kg < s \/ e <= kg) -> owners rs kg = [].
Proof.
  induction rs as [|[a b] rs IH]; intros s e kg Hc Hk; cbn [owners filter]; [reflexivity|].
  cbn [chain] in Hc. destruct Hc as (Ha & Hab & Hc). subst a.
  assert (Hle : b <= e). { clear -Hc. revert b Hc. induction rs as [|[a' b'] rs IH']; intros b Hc; cbn [chain] in Hc; [lia|].
    destruct Hc as (-> & Hab' & Hc). specialize (IH' _ Hc). lia. }
  replace (includes_kg (s, b) kg) with false by (unfold includes_kg; cbn [fst snd]; lia).
  apply (IH b e kg Hc). lia.
Qed.

Lemma chain_le : forall rs s e, chain s rs e -> s <= e.
Proof.
  induction rs as [|[a b] rs IH]; intros s e Hc; cbn [chain] in Hc; [lia|].
  destruct Hc as (-> & Hab & Hc). specialize (IH _ _ Hc). lia.
Qed.

Lemma chain_owners_one : forall rs s e kg, chain s rs e -> s <= kg < e -> length (owners rs kg) = 1%nat.
Proof.
  induction rs as [|[a b] rs IH]; intros s e kg Hc Hk; cbn [chain] in Hc; [lia|].
  destruct Hc as (-> & Hab & Hc). cbn [owners filter].
  destruct (includes_kg (s, b) kg) eqn:Hi.
  - cbn [length]. f_equal. change (length (owners rs kg) = 0%nat).
    rewrite (chain_owners_out rs b e kg Hc); [reflexivity|]. unfold includes_kg in Hi; cbn [fst snd] in Hi. lia.
  - apply (IH b e kg Hc). unfold includes_kg in Hi; cbn [fst snd] in Hi. lia.
Qed.

Lemma perm_filter_length : forall (P : kgrange -> bool) l l', Permutation l l' -> length (filter P l) = length (filter P l').
Proof.
  intros P l l' H. induction H; cbn [filter].
  - reflexivity.
  - destruct (P x); cbn [length]; congruence.
  - destruct (P x), (P y); cbn [length]; reflexivity.
  - congruence.
Qed.

Lemma filter_one_index : forall (P : kgrange -> bool) l, length (filter P l) = 1%nat ->
  exists j, (j < length l)%nat /\ P (nth j l dflt) = true /\
            forall j', (j' < length l)%nat -> P (nth j' l dflt) = true -> j' = j.
Proof.
  intros P. induction l as [|x l IH]; cbn [filter length]; intros H; [discriminate|].
  destruct (P x) eqn:Hx.
  - cbn [length] in H. exists 0%nat. split; [lia|]. split; [exact Hx|].
    intros j' Hj' Hp. destruct j' as [|j']; [reflexivity|]. exfalso. cbn [nth] in Hp.
    assert (Hin : In (nth j' l dflt) (filter P l)). { apply filter_In. split; [apply nth_In; lia|exact Hp]. }
    destruct (filter P l); [destruct Hin|discriminate].
  - destruct (IH H) as (j & Hj & Hp & Hu). exists (S j). split; [lia|]. split; [exact Hp|].
    intros j' Hj' Hp'. destruct j' as [|j']; [cbn [nth] in Hp'; congruence|]. f_equal. apply Hu; [lia|exact Hp'].
Qed.

(* every key group below count has exactly one owner in any permutation of keyGroupRanges(count, m) *)
Lemma unique_owner : forall count m rs kg, 1 <= m -> Permutation rs (kg_ranges count m) -> kg < count ->
  exists j, (j < length rs)%nat /\ includes_kg (nth j rs dflt) kg = true /\
            forall j', (j' < length rs)%nat -> includes_kg (nth j' rs dflt) kg = true -> j' = j.
Proof.
  intros count m rs kg Hm Hp Hk. apply (filter_one_index (fun r => includes_kg r kg) rs).
  rewrite (perm_filter_length _ _ _ Hp). apply (chain_owners_one _ 0 count); [apply kg_ranges_chain; exact Hm|lia].
Qed.

Lemma includes_overlaps : forall r o kg, includes_kg r kg = true -> includes_kg o kg = true -> overlaps r o = true.
Proof. intros [a b] [c d] kg. unfold includes_kg, overlaps; cbn [fst snd]. lia. Qed.

Lemma overlaps_shares : forall r o, fst r < snd r -> fst o < snd o -> overlaps r o = true ->
  exists kg, includes_kg r kg = true /\ includes_kg o kg = true.
Proof. intros [a b] [c d]. unfold includes_kg, overlaps; cbn [fst snd]. intros. exists (N.max a c). lia. Qed.

(* The property-level statement.  `from` is ANY permutation (acknowledgement order) of the M old ranges.
   Complete: the old owner of every key group is handed to the key group's new owner (both unique).
   Exclusive: whatever is handed to new operator i shares at least one key group with i's range
   (for non-empty ranges; an operator with an empty range owns no key and holds no state). *)
Lemma assign_complete_exclusive : forall count m n from,
  1 <= m -> 1 <= n -> Permutation from (kg_ranges count m) ->
  let to := kg_ranges count n in
  let asg := assign_ranges to from in
  length asg = N.to_nat n /\
  (forall kg, kg < count ->
     exists i j, (i < N.to_nat n)%nat /\ (j < length from)%nat /\
       includes_kg (nth i to dflt) kg = true /\ includes_kg (nth j from dflt) kg = true /\
       (forall i', (i' < N.to_nat n)%nat -> includes_kg (nth i' to dflt) kg = true -> i' = i) /\
       (forall j', (j' < length from)%nat -> includes_kg (nth j' from dflt) kg = true -> j' = j) /\
       In (N.of_nat j) (nth i asg [])) /\
  (forall i j, (i < N.to_nat n)%nat -> In j (nth i asg []) ->
     j < N.of_nat (length from) /\
     (fst (nth i to dflt) < snd (nth i to dflt) -> fst (nth (N.to_nat j) from dflt) < snd (nth (N.to_nat j) from dflt) ->
      exists kg, includes_kg (nth i to dflt) kg = true /\ includes_kg (nth (N.to_nat j) from dflt) kg = true)).
Proof.
  intros count m n from Hm Hn Hp to asg.
  assert (Hlen : length to = N.to_nat n) by apply kg_ranges_length.
  destruct (assign_exact_gen to from) as (Hl & Hex). fold asg in Hl, Hex.
  split; [lia|]. split.
  - intros kg Hk.
    destruct (unique_owner count n to kg Hn (Permutation_refl _) Hk) as (i & Hi & Hii & Hiu).
    destruct (unique_owner count m from kg Hm Hp Hk) as (j & Hj & Hji & Hju).
    exists i, j. rewrite Hlen in Hi, Hiu. repeat split; try assumption.
    destruct (Hex i ltac:(lia)) as (Hin & _). apply Hin. rewrite Nat2N.id. split; [lia|].
    apply includes_overlaps with kg; assumption.
  - intros i j Hi Hin. destruct (Hex i ltac:(lia)) as (Hspec & _). apply Hspec in Hin. destruct Hin as (Hj & Hov).
    split; [exact Hj|]. intros Hne1 Hne2. apply overlaps_shares; assumption.
Qed.
