(* C16, Kinesis splitter: one AssignSplits call hands every pending shard to exactly one runner index < n. *)
From Coq Require Import List NArith Bool Lia ZifyN ZifyNat ZifyBool Permutation.
From RV Require Import Model.SplitTracker Model.Splitters Proofs.C16_Static.
Import ListNotations.
Open Scope N_scope.

Lemma filter_none {A} (p : A -> bool) l : (forall x, p x = false) -> filter p l = [].
Proof. intro H. induction l as [|x r IH]; cbn [filter]; [reflexivity|]. rewrite H. exact IH. Qed.

Lemma filter_all {A} (p : A -> bool) l : (forall x, p x = true) -> filter p l = l.
Proof. intro H. induction l as [|x r IH]; cbn [filter]; [reflexivity|]. rewrite H, IH. reflexivity. Qed.

Lemma filter_split_perm {A} (p q : A -> bool) l : (forall x, p x && q x = false) ->
  Permutation (filter p l ++ filter q l) (filter (fun x => p x || q x) l).
Proof.
  intro H. induction l as [|x r IH]; cbn [filter]; [constructor|]. specialize (H x).
  destruct (p x) eqn:Ep, (q x) eqn:Eq; cbn [orb andb] in *; try discriminate.
  - cbn [app]. constructor. exact IH.
  - etransitivity; [symmetry; apply Permutation_middle|]. constructor. exact IH.
  - exact IH.
Qed.

Lemma flat_map_filter_range {A} (f : A -> N) (l : list A) : forall k s,
  Permutation (flat_map (fun r => filter (fun x => f x =? r) l) (iota_from s k))
              (filter (fun x => (s <=? f x) && (f x <? s + N.of_nat k)) l).
Proof.
  induction k as [|k IH]; intro s; cbn [iota_from flat_map].
  - rewrite filter_none; [constructor|]. intro x. lia.
  - rewrite (IH (s + 1)). etransitivity.
    + apply filter_split_perm. intro x. lia.
    + erewrite filter_ext; [apply Permutation_refl|]. intro x. cbn beta. lia.
Qed.

Lemma runner_index_lt : forall lo hi n, 1 <= n -> runner_index lo hi n < n.
Proof. intros. unfold runner_index. cbn zeta. lia. Qed.

Lemma assign_out_ids_flat : forall (f : shard -> N) cs shards rs,
  map (fun a => snd (fst a)) (flat_map (fun r => map (fun s => (r, sid s, cursor_of cs (sid s)))
       (filter (fun s => f s =? r) shards)) rs)
  = map sid (flat_map (fun r => filter (fun s => f s =? r) shards) rs).
Proof.
  intros f cs shards rs. induction rs as [|r rs IH]; cbn [flat_map map]; [reflexivity|].
  rewrite !map_app, IH, map_map. reflexivity.
Qed.

(* ANY choice of runners into range: grouping a list by a function with values < n is a partition of the list *)
Theorem any_policy_is_a_partition {A} : forall (f : A -> N) (l : list A) n, (forall x, In x l -> f x < n) ->
  Permutation (flat_map (fun r => filter (fun x => f x =? r) l) (iota_from 0 (N.to_nat n))) l.
Proof.
  intros f l n Hf. rewrite (flat_map_filter_range f l (N.to_nat n) 0).
  replace (filter (fun x => (0 <=? f x) && (f x <? 0 + N.of_nat (N.to_nat n))) l) with l; [apply Permutation_refl|].
  clear -Hf. induction l as [|x r IH]; cbn [filter]; [reflexivity|].
  pose proof (Hf x (or_introl eq_refl)). replace ((0 <=? f x) && (f x <? 0 + N.of_nat (N.to_nat n))) with true by lia.
  f_equal. apply IH. intros y Hy. apply Hf. right. exact Hy.
Qed.

(* the shard ids of one AssignSplits call are a permutation of the pending shards - each exactly once - for every
   assignment function into range *)
Theorem assign_out_with_each_once : forall f n cs shards, (forall s, In s shards -> f s < n) ->
  Permutation (map (fun a => snd (fst a)) (assign_out_with f n cs shards)) (map sid shards).
Proof.
  intros f n cs shards Hf. unfold assign_out_with. rewrite assign_out_ids_flat. apply Permutation_map.
  apply any_policy_is_a_partition. exact Hf.
Qed.

Theorem assign_out_each_once : forall n cs shards, 1 <= n ->
  Permutation (map (fun a => snd (fst a)) (assign_out n cs shards)) (map sid shards).
Proof.
  intros n cs shards Hn. unfold assign_out. apply assign_out_with_each_once. intros s _. apply runner_index_lt. exact Hn.
Qed.
