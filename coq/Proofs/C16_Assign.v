(* C16, Kinesis splitter: one AssignSplits call hands every pending shard to exactly one runner index < n. *)
From Coq Require Import List NArith Bool Lia ZifyN ZifyNat ZifyBool Permutation.
From RV Require Import Model.SplitTracker Model.Splitters Proofs.C16_Static.
Import ListNotations.
Open Scope N_scope.

Lemma filter_none {A} (p : A -> bool) l : (forall x, p x = false) -> filter p l = [].
Proof. intro H. induction l as [|x r IH]; cbn [filter]; [reflexivity|]. rewrite H. exact IH. Qed.

Lemma filter_all {A} (p : A -> bool) l : (forall x, p x = true) -> filter p l = l.
Proof. intro H. induction l as [|x r IH]; cbn [filter]; [reflexivity|]. rewrite H, IH. reflexivity. Qed.

Lemma filter_split_perm {A} (p q : A -> bool) l : (forall x, p x && q x = false) ->
  Permutation (filter p l ++ filter q l) (filter (fun x => p x || q x) l).
Proof.
  intro H. induction l as [|x r IH]; cbn [filter]; [constructor|]. specialize (H x).
  destruct (p x) eqn:Ep, (q x) eqn:Eq; cbn [orb andb] in *; try discriminate.
  - cbn [app]. constructor. exact IH.
  - etransitivity; [symmetry; apply Permutation_middle|]. constructor. exact IH.
  - exact IH.
Qed.

Lemma flat_map_filter_range {A} (f : A -> N) (l : list A) : forall k s,
  Permutation (flat_map (fun r => filter (fun x => f x =? r) l) (iota_from s k))
              (filter (fun x => (s <=? f x) && (f x <? s + N.of_nat k)) l).
Proof.
  induction k as [|k IH]; intro s; cbn [iota_from flat_map].
  - rewrite filter_none; [constructor|]. intro x. lia.
  - rewrite (IH (s + 1)). etransitivity.
    + apply filter_split_perm. intro x. lia.
    + erewrite filter_ext; [apply Permutation_refl|]. intro x. cbn beta. lia.
Qed.

Lemma runner_index_lt : forall lo hi n, 1 <= n -> runner_index lo hi n < n.
Proof. intros. unfold runner_index. cbn zeta. lia. Qed.

Lemma assign_out_ids_flat : forall n cs shards rs,
  map (fun a => snd (fst a)) (flat_map (fun r => map (fun s => (r, sid s, cursor_of cs (sid s)))
       (filter (fun s => runner_index (hlo s) (hhi s) n =? r) shards)) rs)
  = map sid (flat_map (fun r => filter (fun s => runner_index (hlo s) (hhi s) n =? r) shards) rs).
Proof.
  intros n cs shards rs. induction rs as [|r rs IH]; cbn [flat_map map]; [reflexivity|].
  rewrite !map_app, IH, map_map. reflexivity.
Qed.

(* the shard ids of one AssignSplits call are a permutation of the pending shards: each exactly once *)
Theorem assign_out_each_once : forall n cs shards, 1 <= n ->
  Permutation (map (fun a => snd (fst a)) (assign_out n cs shards)) (map sid shards).
Proof.
  intros n cs shards Hn. unfold assign_out. rewrite assign_out_ids_flat. apply Permutation_map.
  rewrite (flat_map_filter_range (fun s => runner_index (hlo s) (hhi s) n) shards (N.to_nat n) 0).
  rewrite filter_all; [apply Permutation_refl|]. intro x. pose proof (runner_index_lt (hlo x) (hhi x) n Hn). lia.
Qed.
