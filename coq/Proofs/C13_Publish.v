(* C13, publication: for EVERY schedule of the steps of Model/Publish.v (any number of overlapping publications,
   any order of write / locked update / remove / notifier steps, crashes anywhere) the snapshot file of the
   newest checkpoint ever written is in storage, a restart loads exactly it, and the retained-id notifications
   are received in strictly increasing order.  Witness for the unguarded code (D17). *)
From RV Require Import Base.Mach Base.Bytes Model.PathSeg Model.Publish Proofs.C13_PathSeg.
From Coq Require Import ZifyN ZifyNat ZifyBool.
Open Scope N_scope.

(* ---------- list facts ---------- *)
Lemma mem_In x l : mem x l = true <-> In x l.
Proof.
  unfold mem. rewrite existsb_exists. split.
  - intros (y & Hy & E). apply N.eqb_eq in E. subst. exact Hy.
  - intros H. exists x. split; [exact H|apply N.eqb_refl].
Qed.

Lemma In_remove_id x n l : In x (remove_id n l) <-> In x l /\ x <> n.
Proof.
  unfold remove_id. rewrite filter_In. split; intros [H1 H2]; split; try exact H1.
  - apply negb_true_iff, N.eqb_neq in H2. exact H2.
  - apply negb_true_iff, N.eqb_neq. exact H2.
Qed.

Lemma In_remove_ids x ids l : In x (remove_ids ids l) <-> In x l /\ ~ In x ids.
Proof.
  unfold remove_ids. rewrite filter_In. split; intros [H1 H2]; split; try exact H1.
  - apply negb_true_iff in H2. intros H. apply mem_In in H. congruence.
  - apply negb_true_iff. destruct (mem x ids) eqn:E; [|reflexivity]. apply mem_In in E. contradiction.
Qed.

Lemma In_drop_nth {A} (x : A) k l : In x (drop_nth k l) -> In x l.
Proof.
  revert k. induction l as [|y l IH]; intros k H; [destruct k; exact H|].
  destruct k as [|k]; cbn [drop_nth] in H.
  - right. exact H.
  - destruct H as [H|H]; [left; exact H|right; exact (IH k H)].
Qed.

Lemma list_max_ge x l : In x l -> x <= list_max l.
Proof.
  induction l as [|y l IH]; intros H; [destruct H|].
  cbn [list_max fold_right]. fold (list_max l). destruct H as [H|H]; [subst; lia|]. specialize (IH H). lia.
Qed.

Lemma list_max_In l : l <> [] -> In (list_max l) l.
Proof.
  induction l as [|y l IH]; intros H; [congruence|].
  cbn [list_max fold_right]. fold (list_max l).
  destruct l as [|z l'].
  - left. cbn. lia.
  - assert (Hz : In (list_max (z :: l')) (z :: l')) by (apply IH; discriminate).
    destruct (N.max_spec y (list_max (z :: l'))) as [[_ E]|[_ E]]; rewrite E; [right; exact Hz|left; reflexivity].
Qed.

Lemma list_max_cons x l : list_max (x :: l) = N.max x (list_max l).
Proof. reflexivity. Qed.

(* ---------- the storage invariant ---------- *)
Definition maxw (s : pstate) : N := list_max (written s).

Record KS (s : pstate) : Prop := MkKS {
  k_files : forall f, In f (files s) -> In f (written s);
  k_newest : written s = [] \/ In (maxw s) (files s);
  k_inflU : forall n, In n (inflU s) -> In n (written s);
  k_rm : forall ids i, In ids (pend_rm s) -> In i ids -> i < maxw s;
  k_compU : forall c, In c (completed s) -> ~ In c (inflU s);
  k_compW : forall c, In c (completed s) -> ~ In c (inflW s);
  k_comp_last : forall c, In c (completed s) -> c <= last s;
  k_W_last : forall n, In n (inflW s) -> n <= last s;
  k_U_last : forall n, In n (inflU s) -> n <= last s;
  k_disj : forall n, In n (inflW s) -> ~ In n (inflU s);
  k_ok : forall x, In x (written s) -> x <= max64;
  k_okW : forall n, In n (inflW s) -> n <= max64 }.

Lemma files_nil_written s : KS s -> files s = [] -> written s = [].
Proof. intros K E. destruct (k_newest s K) as [H|H]; [exact H|]. rewrite E in H. destruct H. Qed.

Lemma files_max s : KS s -> files s <> [] -> list_max (files s) = maxw s.
Proof.
  intros K Hne. destruct (k_newest s K) as [H|H].
  - exfalso. apply Hne. destruct (files s) as [|f l] eqn:E; [reflexivity|].
    assert (Hf := k_files s K f). rewrite E in Hf. specialize (Hf (or_introl eq_refl)). rewrite H in Hf. destruct Hf.
  - apply N.le_antisymm.
    + apply list_max_ge. apply (k_files s K). apply list_max_In. exact Hne.
    + apply list_max_ge. exact H.
Qed.

(* what LoadCheckpoint (repaired) returns on the storage of a state satisfying the invariant *)
Lemma load_of_KS s : KS s ->
  load false (files s) = match written s with [] => None | _ => Some (maxw s) end.
Proof.
  intros K. destruct (files s) as [|f l] eqn:E.
  - rewrite (files_nil_written s K E). reflexivity.
  - assert (Hne : files s <> []) by (rewrite E; discriminate).
    assert (Hok : ok64 (files s)).
    { apply Forall_forall. intros x Hx. apply (k_ok s K). apply (k_files s K). exact Hx. }
    rewrite <- E. rewrite load_picks_max_lemma by assumption. rewrite files_max by assumption.
    destruct (written s) eqn:Ew; [|reflexivity].
    exfalso. assert (Hf := k_files s K f). rewrite E in Hf. specialize (Hf (or_introl eq_refl)). rewrite Ew in Hf. destruct Hf.
Qed.

Lemma KS_step s st : KS s -> KS (exec1 prepaired s st).
Proof.
  intros K. destruct st as [n|n|n|k|k| | |sp|n]; unfold exec1.
  - (* Start *)
    destruct ((last s <? n) && (n <=? max64)) eqn:E; [|exact K].
    apply andb_prop in E. destruct E as [E1 E2].
    constructor; cbn [files completed last inflW inflU pend_rm written]; try (exact (k_files s K) || exact (k_newest s K) || exact (k_inflU s K) || exact (k_rm s K) || exact (k_compU s K) || exact (k_ok s K)).
    + intros c Hc Hin. apply in_app_or in Hin. destruct Hin as [Hin|[Hin|[]]].
      * exact (k_compW s K c Hc Hin).
      * subst. assert (H := k_comp_last s K _ Hc). lia.
    + intros c Hc. assert (H := k_comp_last s K _ Hc). lia.
    + intros m Hm. apply in_app_or in Hm. destruct Hm as [Hm|[Hm|[]]]; [assert (H := k_W_last s K _ Hm); lia|subst; lia].
    + intros m Hm. assert (H := k_U_last s K _ Hm). lia.
    + intros m Hm. apply in_app_or in Hm. destruct Hm as [Hm|[Hm|[]]]; [exact (k_disj s K _ Hm)|].
      subst. intros Hu. assert (H := k_U_last s K _ Hu). lia.
    + intros m Hm. apply in_app_or in Hm. destruct Hm as [Hm|[Hm|[]]]; [exact (k_okW s K _ Hm)|subst; lia].
  - (* W *)
    destruct (mem n (inflW s)) eqn:E; [|exact K]. apply mem_In in E.
    constructor; cbn [files completed last inflW inflU pend_rm written]; unfold maxw; cbn [written].
    + intros f [Hf|Hf]; [left; exact Hf|]. apply In_remove_id in Hf. right. apply (k_files s K). tauto.
    + right. rewrite list_max_cons.
      destruct (N.max_spec n (list_max (written s))) as [[Hlt Em]|[Hle Em]]; rewrite Em.
      * destruct (k_newest s K) as [Hw|Hw]; [rewrite Hw in Hlt; cbn in Hlt; lia|].
        right. apply In_remove_id. split; [exact Hw|]. unfold maxw in *. lia.
      * left. reflexivity.
    + intros m Hm. apply in_app_or in Hm. destruct Hm as [Hm|[Hm|[]]]; [right; exact (k_inflU s K _ Hm)|left; exact Hm].
    + intros ids i H1 H2. assert (H := k_rm s K ids i H1 H2). unfold maxw in H. rewrite list_max_cons. lia.
    + intros c Hc Hin. apply in_app_or in Hin. destruct Hin as [Hin|[Hin|[]]]; [exact (k_compU s K c Hc Hin)|].
      subst. exact (k_compW s K _ Hc E).
    + intros c Hc Hin. apply In_remove_id in Hin. exact (k_compW s K c Hc (proj1 Hin)).
    + exact (k_comp_last s K).
    + intros m Hm. apply In_remove_id in Hm. exact (k_W_last s K _ (proj1 Hm)).
    + intros m Hm. apply in_app_or in Hm. destruct Hm as [Hm|[Hm|[]]]; [exact (k_U_last s K _ Hm)|subst; exact (k_W_last s K _ E)].
    + intros m Hm Hu. apply In_remove_id in Hm. destruct Hm as [Hm Hne].
      apply in_app_or in Hu. destruct Hu as [Hu|[Hu|[]]]; [exact (k_disj s K _ Hm Hu)|congruence].
    + intros x [Hx|Hx]; [subst; exact (k_okW s K _ E)|exact (k_ok s K _ Hx)].
    + intros m Hm. apply In_remove_id in Hm. exact (k_okW s K _ (proj1 Hm)).
  - (* U *)
    destruct (mem n (inflU s)) eqn:E; [|exact K]. apply mem_In in E.
    cbn [no_id_guard prepaired negb andb].
    destruct (existsb (fun c => n <? c) (completed s)) eqn:Esup.
    + (* superseded: nothing but the program counter changes *)
      cbn [negb andb]. rewrite andb_false_r.
      constructor; cbn [files completed last inflW inflU pend_rm written]; unfold maxw; cbn [written];
        try (exact (k_files s K) || exact (k_newest s K) || exact (k_rm s K) || exact (k_compW s K) || exact (k_comp_last s K) || exact (k_W_last s K) || exact (k_ok s K) || exact (k_okW s K)).
      * intros m Hm. apply In_remove_id in Hm. exact (k_inflU s K _ (proj1 Hm)).
      * intros c Hc Hin. apply In_remove_id in Hin. exact (k_compU s K c Hc (proj1 Hin)).
      * intros m Hm. apply In_remove_id in Hm. exact (k_U_last s K _ (proj1 Hm)).
      * intros m Hm Hu. apply In_remove_id in Hu. exact (k_disj s K _ Hm (proj1 Hu)).
    + assert (Hle : forall c, In c (completed s) -> c < n).
      { intros c Hc. assert (H1 : (n <? c) = false).
        { destruct (n <? c) eqn:E1; [|reflexivity]. exfalso.
          assert (H : existsb (fun c0 => n <? c0) (completed s) = true) by (apply existsb_exists; exists c; split; assumption).
          congruence. }
        apply N.ltb_ge in H1. assert (H2 := k_compU s K c Hc).
        assert (H3 : c <> n) by (intros Heq; rewrite Heq in H2; contradiction). lia. }
      assert (Hnw : n <= maxw s) by (apply list_max_ge; exact (k_inflU s K _ E)).
      cbn [negb]. rewrite andb_true_r.
      constructor; cbn [files completed last inflW inflU pend_rm written]; unfold maxw; cbn [written];
        try (exact (k_files s K) || exact (k_newest s K) || exact (k_W_last s K) || exact (k_ok s K) || exact (k_okW s K)).
      * intros m Hm. apply In_remove_id in Hm. exact (k_inflU s K _ (proj1 Hm)).
      * intros ids i H1 H2. destruct (is_nil (completed s)); cbn [negb] in H1; [exact (k_rm s K ids i H1 H2)|].
        apply in_app_or in H1. destruct H1 as [H1|[H1|[]]]; [exact (k_rm s K ids i H1 H2)|].
        subst ids. specialize (Hle i H2). unfold maxw in Hnw. lia.
      * intros c [Hc|[]] Hin. subst c. apply In_remove_id in Hin. tauto.
      * intros c [Hc|[]] Hin. subst c. exact (k_disj s K _ Hin E).
      * intros c [Hc|[]]. subst c. exact (k_U_last s K _ E).
      * intros m Hm. apply In_remove_id in Hm. exact (k_U_last s K _ (proj1 Hm)).
      * intros m Hm Hu. apply In_remove_id in Hu. exact (k_disj s K _ Hm (proj1 Hu)).
  - (* R *)
    destruct (nth_error (pend_rm s) k) as [ids|] eqn:E; [|exact K].
    assert (Hin : In ids (pend_rm s)) by (eapply nth_error_In; exact E).
    constructor; cbn [files completed last inflW inflU pend_rm written]; unfold maxw; cbn [written];
      try (exact (k_inflU s K) || exact (k_compU s K) || exact (k_compW s K) || exact (k_comp_last s K) || exact (k_W_last s K) || exact (k_U_last s K) || exact (k_disj s K) || exact (k_ok s K) || exact (k_okW s K)).
    + intros f Hf. apply In_remove_ids in Hf. exact (k_files s K f (proj1 Hf)).
    + destruct (k_newest s K) as [Hw|Hw]; [left; exact Hw|right].
      apply In_remove_ids. split; [exact Hw|]. intros Hi. assert (H := k_rm s K ids _ Hin Hi). unfold maxw in H. lia.
    + intros ids' i H1 H2. exact (k_rm s K ids' i (In_drop_nth _ _ _ H1) H2).
  - (* TL *)
    destruct (nhold s); [exact K|]. destruct (nth_error (nwait s) k); [|exact K].
    destruct K. constructor; cbn [files completed last inflW inflU pend_rm written]; assumption.
  - (* TR *)
    destruct (nhold s); [|exact K].
    destruct K. constructor; cbn [files completed last inflW inflU pend_rm written]; assumption.
  - (* Crash *)
    cbn [load_first_listed prepaired]. rewrite (load_of_KS s K).
    destruct (k_newest s K) as [Hw|Hnew].
    + rewrite Hw.
      constructor; cbn [files completed last inflW inflU pend_rm written].
      * intros f Hf. rewrite <- Hw. exact (k_files s K f Hf).
      * left. reflexivity.
      * intros ? [].
      * intros ? ? [].
      * intros ? [].
      * intros ? [].
      * intros ? [].
      * intros ? [].
      * intros ? [].
      * intros ? [].
      * intros ? [].
      * intros ? [].
    + destruct (written s) as [|x wl] eqn:Ew.
      { exfalso. assert (H := k_files s K _ Hnew). rewrite Ew in H. destruct H. }
      constructor; cbn [files completed last inflW inflU pend_rm written]; rewrite <- ?Ew.
      * exact (k_files s K).
      * right. exact Hnew.
      * intros ? [].
      * intros ? ? [].
      * intros c [Hc|[]] [].
      * intros c [Hc|[]] [].
      * intros c [Hc|[]]. subst c. lia.
      * intros ? [].
      * intros ? [].
      * intros ? [].
      * exact (k_ok s K).
      * intros ? [].
  - (* Rewind *)
    destruct (mem sp (written s)) eqn:E; [|exact K].
    constructor; cbn [files completed last inflW inflU pend_rm written].
    + exact (k_files s K).
    + exact (k_newest s K).
    + intros ? [].
    + intros ? ? [].
    + intros c [Hc|[]] [].
    + intros c [Hc|[]] [].
    + intros c [Hc|[]]. subst c. lia.
    + intros ? [].
    + intros ? [].
    + intros ? [].
    + exact (k_ok s K).
    + intros ? [].
  - (* WFail: the publication disappears *)
    destruct (mem n (inflW s)) eqn:E; [|exact K].
    constructor; cbn [files completed last inflW inflU pend_rm written];
      try (exact (k_files s K) || exact (k_newest s K) || exact (k_inflU s K) || exact (k_rm s K) || exact (k_compU s K) || exact (k_comp_last s K) || exact (k_U_last s K) || exact (k_ok s K)).
    + intros c Hc Hin. apply In_remove_id in Hin. exact (k_compW s K c Hc (proj1 Hin)).
    + intros m Hm. apply In_remove_id in Hm. exact (k_W_last s K _ (proj1 Hm)).
    + intros m Hm. apply In_remove_id in Hm. exact (k_disj s K _ (proj1 Hm)).
    + intros m Hm. apply In_remove_id in Hm. exact (k_okW s K _ (proj1 Hm)).
Qed.

Lemma KS_exec l : forall s, KS s -> KS (exec prepaired s l).
Proof.
  induction l as [|st l IH]; intros s K; [exact K|].
  unfold exec. cbn [fold_left]. apply IH. apply KS_step. exact K.
Qed.

Lemma KS_pre base : base <= max64 ->
  KS (MkP (if base =? 0 then [] else [base]) [] 0 [] [] [] [] None (if base =? 0 then [] else [base]) []).
Proof.
  intros Hb.
  destruct (base =? 0) eqn:E.
  - constructor; cbn [files completed last inflW inflU pend_rm written].
    + intros ? [].
    + left. reflexivity.
    + intros ? [].
    + intros ? ? [].
    + intros ? [].
    + intros ? [].
    + intros ? [].
    + intros ? [].
    + intros ? [].
    + intros ? [].
    + intros ? [].
    + intros ? [].
  - constructor; cbn [files completed last inflW inflU pend_rm written]; unfold maxw; cbn [written].
    + intros f Hf. exact Hf.
    + right. left. cbn. lia.
    + intros ? [].
    + intros ? ? [].
    + intros ? [].
    + intros ? [].
    + intros ? [].
    + intros ? [].
    + intros ? [].
    + intros ? [].
    + intros x [Hx|[]]. subst. exact Hb.
    + intros ? [].
Qed.

Lemma KS_boot base : base <= max64 -> KS (boot prepaired base).
Proof. intros Hb. unfold boot. apply KS_step. apply KS_pre. exact Hb. Qed.

(* the storage part of publish_keeps_newest: at EVERY point of EVERY schedule *)
Theorem newest_kept_and_loaded base sched :
  base <= max64 ->
  let s := exec prepaired (boot prepaired base) sched in
  (written s = [] \/ In (list_max (written s)) (files s)) /\
  load false (files s) = match written s with [] => None | _ => Some (list_max (written s)) end /\
  (forall ids i, In ids (pend_rm s) -> In i ids -> i < list_max (written s)).
Proof.
  intros Hb s. assert (K : KS s) by (apply KS_exec, KS_boot; exact Hb).
  split; [exact (k_newest s K)|]. split; [exact (load_of_KS s K)|exact (k_rm s K)].
Qed.

Lemma NoDup_app_single {A} (l : list A) x : NoDup l -> ~ In x l -> NoDup (l ++ [x]).
Proof.
  induction l as [|y l IH]; intros H Hx; cbn [app]; [constructor; [intros []|constructor]|].
  inversion H as [|? ? Hy Hl]; subst. constructor.
  - intros Hin. apply in_app_or in Hin. destruct Hin as [Hin|[Hin|[]]]; [exact (Hy Hin)|subst; apply Hx; left; reflexivity].
  - apply IH; [exact Hl|]. intros Hin. apply Hx. right. exact Hin.
Qed.

(* ---------- the notification invariant ---------- *)
Fixpoint incr (l : list N) : Prop :=
  match l with [] => True | x :: l' => (forall y, In y l' -> x < y) /\ incr l' end.

Lemma incr_snoc l h : incr l -> (forall r, In r l -> r < h) -> incr (l ++ [h]).
Proof.
  induction l as [|x l IH]; intros Hi Hh; cbn [app incr].
  - split; [intros y []|exact I].
  - destruct Hi as [H1 H2]. split.
    + intros y Hy. apply in_app_or in Hy. destruct Hy as [Hy|[Hy|[]]]; [exact (H1 y Hy)|subst; apply Hh; left; reflexivity].
    + apply IH; [exact H2|]. intros r Hr. apply Hh. right. exact Hr.
Qed.

Lemma NoDup_drop_nth {A} (l : list A) : forall k, NoDup l -> NoDup (drop_nth k l).
Proof.
  induction l as [|x l IH]; intros k H; [destruct k; exact H|].
  inversion H as [|? ? Hx Hl]; subst. destruct k as [|k]; cbn [drop_nth]; [exact Hl|].
  constructor; [|exact (IH k Hl)]. intros Hin. apply Hx. exact (In_drop_nth _ _ _ Hin).
Qed.

Lemma drop_nth_not_In {A} (l : list A) : forall k n, NoDup l -> nth_error l k = Some n -> ~ In n (drop_nth k l).
Proof.
  induction l as [|x l IH]; intros k n H E; [destruct k; discriminate|].
  inversion H as [|? ? Hx Hl]; subst. destruct k as [|k]; cbn [drop_nth nth_error] in *.
  - inversion E. subst. exact Hx.
  - intros [Hin|Hin].
    + subst. apply Hx. eapply nth_error_In. exact E.
    + exact (IH k n Hl E Hin).
Qed.

Definition notif_ids (s : pstate) (x : N) : Prop := In x (received s) \/ nhold s = Some x \/ In x (nwait s).

Record NS (s : pstate) : Prop := MkNS {
  n_len : (length (completed s) <= 1)%nat;
  n_sorted : incr (received s);
  n_recv_le : forall r, In r (received s) -> exists c, In c (completed s) /\ r <= c;
  n_hold : forall h, nhold s = Some h -> (forall r, In r (received s) -> r < h) /\ exists c, In c (completed s) /\ h <= c;
  n_fresh : forall n, In n (nwait s) -> ~ In n (received s) /\ nhold s <> Some n;
  n_nodup : NoDup (nwait s);
  n_ids : forall x, notif_ids s x -> ~ In x (inflU s) /\ ~ In x (inflW s) /\ x <= last s /\ In x (written s) }.

Lemma single_last (l : list N) n : (length l <= 1)%nat -> last_of l = Some n -> l = [n].
Proof.
  destruct l as [|x [|y l]]; cbn; intros H E; try discriminate; [inversion E; reflexivity|lia].
Qed.

Lemma NS_step s st : KS s -> NS s -> NS (exec1 prepaired s st).
Proof.
  intros K Nn. destruct st as [n|n|n|k|k| | |sp|n]; unfold exec1.
  - (* Start *)
    destruct ((last s <? n) && (n <=? max64)) eqn:E; [|exact Nn].
    apply andb_prop in E. destruct E as [E1 E2].
    destruct Nn as [L S RL H F D IDS].
    constructor; cbn [files completed last inflW inflU pend_rm nwait nhold written received]; try assumption.
    intros x Hx. destruct (IDS x Hx) as (A1 & A2 & A3 & A4). repeat split; try assumption; [|lia].
    intros Hin. apply in_app_or in Hin. destruct Hin as [Hin|[Hin|[]]]; [exact (A2 Hin)|subst; lia].
  - (* W *)
    destruct (mem n (inflW s)) eqn:E; [|exact Nn]. apply mem_In in E.
    destruct Nn as [L S RL H F D IDS].
    constructor; cbn [files completed last inflW inflU pend_rm nwait nhold written received]; try assumption.
    intros x Hx. destruct (IDS x Hx) as (A1 & A2 & A3 & A4). repeat split; try assumption.
    + intros Hin. apply in_app_or in Hin. destruct Hin as [Hin|[Hin|[]]]; [exact (A1 Hin)|subst; exact (A2 E)].
    + intros Hin. apply In_remove_id in Hin. exact (A2 (proj1 Hin)).
    + right. exact A4.
  - (* U *)
    destruct (mem n (inflU s)) eqn:E; [|exact Nn]. apply mem_In in E.
    cbn [no_id_guard prepaired negb andb].
    destruct Nn as [L S RL H F D IDS].
    destruct (existsb (fun c => n <? c) (completed s)) eqn:Esup.
    + cbn [negb andb]. rewrite andb_false_r.
      constructor; cbn [files completed last inflW inflU pend_rm nwait nhold written received]; try assumption.
      intros x Hx. destruct (IDS x Hx) as (A1 & A2 & A3 & A4). repeat split; try assumption.
      intros Hin. apply In_remove_id in Hin. exact (A1 (proj1 Hin)).
    + assert (Hle : forall c, In c (completed s) -> c <= n).
      { intros c Hc. destruct (n <? c) eqn:E1; [|apply N.ltb_ge in E1; exact E1]. exfalso.
        assert (Hx : existsb (fun c0 => n <? c0) (completed s) = true) by (apply existsb_exists; exists c; split; assumption).
        congruence. }
      assert (Hn : ~ notif_ids s n).
      { intros Hx. destruct (IDS n Hx) as (A1 & _). exact (A1 E). }
      cbn [negb]. rewrite andb_true_r.
      constructor; cbn [files completed last inflW inflU pend_rm nwait nhold written received]; try assumption.
      * cbn. lia.
      * intros r Hr. destruct (RL r Hr) as (c & Hc & Hrc). exists n. split; [left; reflexivity|]. specialize (Hle c Hc). lia.
      * intros h Hh. destruct (H h Hh) as (H1 & c & Hc & Hhc). split; [exact H1|].
        exists n. split; [left; reflexivity|]. specialize (Hle c Hc). lia.
      * intros m Hm. destruct (is_nil (completed s)); cbn [negb] in Hm; [exact (F m Hm)|].
        apply in_app_or in Hm. destruct Hm as [Hm|[Hm|[]]]; [exact (F m Hm)|]. subst m.
        split; [intros Hr; apply Hn; left; exact Hr|intros Hh; apply Hn; right; left; exact Hh].
      * destruct (is_nil (completed s)); cbn [negb]; [exact D|].
        apply NoDup_app_single; [exact D|]. intros Hw. apply Hn. right. right. exact Hw.
      * intros x Hx.
        assert (Hx' : notif_ids s x \/ x = n).
        { unfold notif_ids in *. cbn [nwait nhold received] in Hx. destruct Hx as [Hx|[Hx|Hx]]; [left; left; exact Hx|left; right; left; exact Hx|].
          destruct (is_nil (completed s)); cbn [negb] in Hx; [left; right; right; exact Hx|].
          apply in_app_or in Hx. destruct Hx as [Hx|[Hx|[]]]; [left; right; right; exact Hx|right; symmetry; exact Hx]. }
        destruct Hx' as [Hx'|Hx'].
        -- destruct (IDS x Hx') as (A1 & A2 & A3 & A4). repeat split; try assumption.
           intros Hin. apply In_remove_id in Hin. exact (A1 (proj1 Hin)).
        -- subst x. repeat split.
           ++ intros Hin. apply In_remove_id in Hin. tauto.
           ++ intros Hin. exact (k_disj s K _ Hin E).
           ++ exact (k_U_last s K _ E).
           ++ exact (k_inflU s K _ E).
  - (* R *)
    destruct (nth_error (pend_rm s) k) as [ids|] eqn:E; [|exact Nn].
    destruct Nn as [L S RL H F D IDS].
    constructor; cbn [files completed last inflW inflU pend_rm nwait nhold written received]; assumption.
  - (* TL *)
    destruct (nhold s) as [h0|] eqn:Eh; [exact Nn|].
    destruct (nth_error (nwait s) k) as [n|] eqn:En; [|exact Nn].
    cbn [no_id_guard prepaired orb].
    destruct Nn as [L S RL H F D IDS].
    assert (Hnw : In n (nwait s)) by (eapply nth_error_In; exact En).
    assert (IDS' : forall x, In x (received s) \/ In x (drop_nth k (nwait s)) \/ x = n -> notif_ids s x).
    { intros x [Hx|[Hx|Hx]]; [left; exact Hx|right; right; exact (In_drop_nth _ _ _ Hx)|subst; right; right; exact Hnw]. }
    destruct (last_of (completed s)) as [c|] eqn:Elast.
    + destruct (N.eqb_spec c n) as [Ecn|Ecn].
      * subst c. assert (Ec : completed s = [n]) by (apply single_last; assumption).
        constructor; cbn [files completed last inflW inflU pend_rm nwait nhold written received]; try assumption.
        -- intros h Hh. inversion Hh. subst h. split.
           ++ intros r Hr. destruct (RL r Hr) as (c & Hc & Hrc). rewrite Ec in Hc. destruct Hc as [Hc|[]]. subst c.
              destruct (F n Hnw) as [F1 _]. assert (r <> n) by (intros ->; contradiction). lia.
           ++ exists n. split; [rewrite Ec; left; reflexivity|lia].
        -- intros m Hm. split; [exact (proj1 (F m (In_drop_nth _ _ _ Hm)))|].
           intros Hh. inversion Hh. subst m. exact (drop_nth_not_In _ _ _ D En Hm).
        -- apply NoDup_drop_nth. exact D.
        -- intros x Hx. apply IDS. apply IDS'. unfold notif_ids in Hx. cbn [nwait nhold received] in Hx.
           destruct Hx as [Hx|[Hx|Hx]]; [left; exact Hx|right; right; inversion Hx; reflexivity|right; left; exact Hx].
      * constructor; cbn [files completed last inflW inflU pend_rm nwait nhold written received]; try assumption.
        -- intros h Hh. discriminate.
        -- intros m Hm. split; [exact (proj1 (F m (In_drop_nth _ _ _ Hm)))|discriminate].
        -- apply NoDup_drop_nth. exact D.
        -- intros x Hx. apply IDS. apply IDS'. unfold notif_ids in Hx. cbn [nwait nhold received] in Hx.
           destruct Hx as [Hx|[Hx|Hx]]; [left; exact Hx|discriminate|right; left; exact Hx].
    + constructor; cbn [files completed last inflW inflU pend_rm nwait nhold written received]; try assumption.
      * intros h Hh. discriminate.
      * intros m Hm. split; [exact (proj1 (F m (In_drop_nth _ _ _ Hm)))|discriminate].
      * apply NoDup_drop_nth. exact D.
      * intros x Hx. apply IDS. apply IDS'. unfold notif_ids in Hx. cbn [nwait nhold received] in Hx.
        destruct Hx as [Hx|[Hx|Hx]]; [left; exact Hx|discriminate|right; left; exact Hx].
  - (* TR *)
    destruct (nhold s) as [h|] eqn:Eh; [|exact Nn].
    destruct Nn as [L S RL H F D IDS]. destruct (H h Eh) as (H1 & c & Hc & Hhc).
    constructor; cbn [files completed last inflW inflU pend_rm nwait nhold written received]; try assumption.
    + apply incr_snoc; assumption.
    + intros r Hr. apply in_app_or in Hr. destruct Hr as [Hr|[Hr|[]]]; [exact (RL r Hr)|subst r; exists c; split; assumption].
    + intros h' Hh'. discriminate.
    + intros m Hm. destruct (F m Hm) as [F1 F2]. split; [|discriminate].
      intros Hin. apply in_app_or in Hin. destruct Hin as [Hin|[Hin|[]]]; [exact (F1 Hin)|subst; apply F2; exact Eh].
    + intros x Hx. apply IDS. unfold notif_ids in *. cbn [nwait nhold received] in Hx.
      destruct Hx as [Hx|[Hx|Hx]]; [|discriminate|right; right; exact Hx].
      apply in_app_or in Hx. destruct Hx as [Hx|[Hx|[]]]; [left; exact Hx|subst; right; left; exact Eh].
  - (* Crash *)
    cbn [load_first_listed prepaired]. rewrite (load_of_KS s K).
    destruct Nn as [L S RL H F D IDS].
    assert (Hrw : forall r, In r (received s) -> In r (written s)).
    { intros r Hr. exact (proj2 (proj2 (proj2 (IDS r (or_introl Hr))))). }
    destruct (written s) as [|x wl] eqn:Ew.
    + constructor; cbn [files completed last inflW inflU pend_rm nwait nhold written received]; try assumption.
      * cbn. lia.
      * intros r Hr. destruct (Hrw r Hr).
      * intros h Hh. discriminate.
      * intros m [].
      * constructor.
      * intros x0 Hx. unfold notif_ids in Hx. cbn [nwait nhold received] in Hx.
        destruct Hx as [Hx|[Hx|[]]]; [destruct (Hrw x0 Hx)|discriminate].
    + constructor; cbn [files completed last inflW inflU pend_rm nwait nhold written received]; try assumption.
      * cbn. lia.
      * intros r Hr. exists (maxw s). split; [left; reflexivity|]. apply list_max_ge. rewrite Ew. exact (Hrw r Hr).
      * intros h Hh. discriminate.
      * intros m [].
      * constructor.
      * intros x0 Hx. unfold notif_ids in Hx. cbn [nwait nhold received] in Hx.
        destruct Hx as [Hx|[Hx|[]]]; [|discriminate].
        split; [intros []|]. split; [intros []|]. split.
        -- unfold maxw. rewrite Ew. apply list_max_ge. exact (Hrw x0 Hx).
        -- exact (Hrw x0 Hx).
  - (* Rewind: new subscribers, nothing received yet *)
    destruct (mem sp (written s)) eqn:E; [|exact Nn].
    constructor; cbn [files completed last inflW inflU pend_rm nwait nhold written received].
    + cbn. lia.
    + exact I.
    + intros r [].
    + intros h Hh. discriminate.
    + intros m [].
    + constructor.
    + intros x0 Hx. unfold notif_ids in Hx. cbn [nwait nhold received] in Hx. destruct Hx as [[]|[Hx|[]]]. discriminate.
  - (* WFail *)
    destruct (mem n (inflW s)) eqn:E; [|exact Nn].
    destruct Nn as [L S RL H F D IDS].
    constructor; cbn [files completed last inflW inflU pend_rm nwait nhold written received]; try assumption.
    intros x Hx. destruct (IDS x Hx) as (A1 & A2 & A3 & A4). repeat split; try assumption.
    intros Hin. apply In_remove_id in Hin. exact (A2 (proj1 Hin)).
Qed.

Lemma NS_exec l : forall s, KS s -> NS s -> NS (exec prepaired s l).
Proof.
  induction l as [|st l IH]; intros s K Nn; [exact Nn|].
  unfold exec. cbn [fold_left]. apply IH; [apply KS_step; exact K|apply NS_step; assumption].
Qed.

Lemma NS_boot base : base <= max64 -> NS (boot prepaired base).
Proof.
  intros Hb. unfold boot. apply NS_step.
  - apply KS_pre. exact Hb.
  - constructor; cbn [completed received nhold nwait].
    + cbn. lia.
    + exact I.
    + intros r [].
    + intros h0 Hh. discriminate.
    + intros n [].
    + constructor.
    + intros x Hx. unfold notif_ids in Hx. cbn [nwait nhold received] in Hx. destruct Hx as [[]|[Hx|[]]]. discriminate.
Qed.

(* the notification part of publish_keeps_newest *)
Theorem notifications_increase base sched :
  base <= max64 ->
  let s := exec prepaired (boot prepaired base) sched in
  incr (received s) /\
  (forall r, In r (received s) -> In r (written s)) /\
  (forall h, nhold s = Some h -> (forall r, In r (received s) -> r < h) /\ In h (written s)).
Proof.
  intros Hb s.
  assert (K : KS (boot prepaired base)) by (apply KS_boot; exact Hb).
  assert (Nn : NS s) by (apply NS_exec; [exact K|apply NS_boot; exact Hb]).
  split; [exact (n_sorted s Nn)|]. split.
  - intros r Hr. exact (proj2 (proj2 (proj2 (n_ids s Nn r (or_introl Hr))))).
  - intros h Hh. split; [exact (proj1 (n_hold s Nn h Hh))|].
    exact (proj2 (proj2 (proj2 (n_ids s Nn h (or_intror (or_introl Hh)))))).
Qed.

(* ---------- witnesses for the code before the repair of D17 ---------- *)
Definition d17_schedule : list pstep :=
  [Start 1; W 1; U 1; Start 2; Start 3; W 3; U 3; W 2; U 2; R 1; TL 0; TR; TL 0; TR].

Lemma d17_witness :
  let s := exec (MkPQ false true) (boot (MkPQ false true) 0) d17_schedule in
  list_max (written s) = 3 /\ files s = [2; 1] /\ received s = [3; 2] /\ completed s = [2].
Proof. vm_compute. repeat split. Qed.

Lemma d17_repaired :
  let s := exec prepaired (boot prepaired 0) d17_schedule in
  files s = [2; 3; 1] /\ received s = [3] /\ completed s = [3].
Proof. vm_compute. repeat split. Qed.

(* what a crash + restart at any point resumes from *)
Theorem crash_resumes base sched :
  base <= max64 ->
  let s := exec prepaired (boot prepaired base) sched in
  completed (exec1 prepaired s Crash) = match written s with [] => [] | _ => [list_max (written s)] end.
Proof.
  intros Hb s. assert (K : KS s) by (apply KS_exec, KS_boot; exact Hb).
  unfold exec1. cbn [load_first_listed prepaired]. rewrite (load_of_KS s K). unfold maxw.
  destruct (written s); reflexivity.
Qed.

Lemma d17_refutes :
  exists sched, let s := exec (MkPQ false true) (boot (MkPQ false true) 0) sched in
    ~ In (list_max (written s)) (files s) /\ ~ incr (received s).
Proof.
  exists d17_schedule. vm_compute. split.
  - intros [H|[H|[]]]; discriminate.
  - intros [H _]. specialize (H 2 (or_introl eq_refl)). vm_compute in H. discriminate.
Qed.

(* operator side: a notification [n] - even one delivered late, when the operator already holds newer
   checkpoints - never makes RetainOnly drop the operator's newest checkpoint *)
Lemma retain_only_keeps_newest_lemma n l : In n l -> In (list_max l) (retain_only [n] l).
Proof.
  intros Hn. unfold retain_only. apply filter_In. split.
  - apply list_max_In. intros E. rewrite E in Hn. destruct Hn.
  - assert (Hle := list_max_ge n l Hn).
    destruct (N.eqb_spec (list_max l) n) as [E|E].
    + unfold mem. cbn [existsb]. rewrite E, N.eqb_refl. reflexivity.
    + apply orb_true_iff. right. cbn [is_nil negb andb list_max fold_right].
      apply N.ltb_lt. lia.
Qed.

Lemma retain_only_sub ids l x : In x (retain_only ids l) -> In x l.
Proof. unfold retain_only. intros H. apply filter_In in H. tauto. Qed.

(* whole notification sequences: whatever the delays, the newest DKV checkpoint taken is still held at the end *)
Definition RJ (l : list N) (next : N) : Prop :=
  (forall x, In x l -> x < next) /\ ((l = [] /\ next = 1) \/ In (next - 1) l) /\ 1 <= next.

Lemma retain_run_keeps_newest_lemma steps : forall l next,
  RJ l next -> retain_valid l next steps ->
  (taken next steps = 0 /\ retain_run l next steps = []) \/ In (taken next steps) (retain_run l next steps).
Proof.
  induction steps as [|st steps IH]; intros l next (Hb & Hn & H1) Hv.
  - cbn [taken retain_run]. destruct Hn as [[E1 E2]|Hn]; [left; subst; split; reflexivity|right; exact Hn].
  - destruct st as [|id]; cbn [taken retain_run retain_valid] in *.
    + apply IH; [|exact Hv]. split; [|split].
      * intros x Hx. apply in_app_or in Hx. destruct Hx as [Hx|[Hx|[]]]; [specialize (Hb x Hx); lia|subst; lia].
      * right. replace (next + 1 - 1) with next by lia. apply in_or_app. right. left. reflexivity.
      * lia.
    + destruct Hv as [Hid Hv]. apply IH; [|exact Hv].
      assert (Hlast : In (next - 1) l).
      { destruct Hn as [[E _]|Hn]; [subst l; destruct Hid|exact Hn]. }
      assert (Hmax : list_max l = next - 1).
      { apply N.le_antisymm.
        - assert (Hm : In (list_max l) l) by (apply list_max_In; intros E; rewrite E in Hid; destruct Hid).
          specialize (Hb _ Hm). lia.
        - apply list_max_ge. exact Hlast. }
      split; [|split].
      * intros x Hx. apply Hb. exact (retain_only_sub _ _ _ Hx).
      * right. rewrite <- Hmax. apply retain_only_keeps_newest_lemma. exact Hid.
      * exact H1.
Qed.

Theorem retain_run_from_start steps :
  retain_valid [] 1 steps ->
  (taken 1 steps = 0 /\ retain_run [] 1 steps = []) \/ In (taken 1 steps) (retain_run [] 1 steps).
Proof.
  intros Hv. apply retain_run_keeps_newest_lemma; [|exact Hv].
  split; [intros x []|]. split; [left; split; reflexivity|lia].
Qed.

(* ---------- the checkpoint used for recovery never goes back within a store lifetime ---------- *)
Definition cur_id (s : pstate) : N := list_max (completed s).

Lemma cur_monotone_step s st : KS s ->
  match st with Crash | Rewind _ => True | _ => cur_id s <= cur_id (exec1 prepaired s st) end.
Proof.
  intros K. destruct st as [n|n|n|k|k| | |sp|n]; try exact I; unfold exec1, cur_id.
  - destruct ((last s <? n) && (n <=? max64)); cbn [completed]; lia.
  - destruct (mem n (inflW s)); cbn [completed]; lia.
  - destruct (mem n (inflU s)) eqn:E; [|lia]. apply mem_In in E.
    cbn [no_id_guard prepaired negb andb].
    destruct (existsb (fun c => n <? c) (completed s)) eqn:Esup; cbn [completed]; [lia|].
    cbn [list_max fold_right].
    assert (H : list_max (completed s) <= n).
    { clear - Esup. induction (completed s) as [|c l IH]; cbn [list_max fold_right existsb] in *; [lia|].
      apply orb_false_elim in Esup. destruct Esup as [E1 E2]. specialize (IH E2). fold (list_max l). apply N.ltb_ge in E1. lia. }
    lia.
  - destruct (nth_error (pend_rm s) k); cbn [completed]; lia.
  - destruct (nhold s); [lia|]. destruct (nth_error (nwait s) k); cbn [completed]; lia.
  - destruct (nhold s); cbn [completed]; lia.
  - destruct (mem n (inflW s)); cbn [completed]; lia.
Qed.

Theorem current_never_goes_back base sched st :
  base <= max64 ->
  let s := exec prepaired (boot prepaired base) sched in
  match st with Crash | Rewind _ => True | _ => cur_id s <= cur_id (exec1 prepaired s st) end.
Proof. intros Hb s. apply cur_monotone_step. apply KS_exec, KS_boot. exact Hb. Qed.

(* D17 / seeded C12r3-3: without the guard the current checkpoint goes back from 3 to 2 *)
Lemma current_goes_back_unguarded :
  let s := exec (MkPQ false true) (boot (MkPQ false true) 0) [Start 1; W 1; U 1; Start 2; Start 3; W 3; U 3; W 2] in
  cur_id s = 3 /\ cur_id (exec1 (MkPQ false true) s (U 2)) = 2.
Proof. vm_compute. split; reflexivity. Qed.

(* ---------- job start ---------- *)
Theorem job_start_newest_or_refuse ids fault :
  ok64 ids ->
  (ids = [] /\ job_start ids fault = Some None) \/
  (ids <> [] /\ (job_start ids fault = None \/ job_start ids fault = Some (Some (list_max ids)))).
Proof.
  intros Hok. unfold job_start. destruct ids as [|x l].
  - left. split; reflexivity.
  - right. split; [discriminate|]. rewrite load_picks_max_lemma by (auto; discriminate).
    destruct (fault =? 0); [right|left]; reflexivity.
Qed.

(* a failed write changes nothing but the set of publications in flight *)
Lemma write_failure_inert_lemma q s n :
  let s' := exec1 q s (WFail n) in
  files s' = files s /\ completed s' = completed s /\ pend_rm s' = pend_rm s /\ nwait s' = nwait s /\
  nhold s' = nhold s /\ received s' = received s /\ written s' = written s /\ last s' = last s.
Proof. unfold exec1. destruct (mem n (inflW s)); cbn; repeat split. Qed.
