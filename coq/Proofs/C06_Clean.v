(* C06, part 3: rescale_exact_clean.  For CLEAN inputs the database a new operator restores from its handles (in any
   order) reads, for every prefix of keys it owns, exactly what the old owner's own restore of its checkpoint reads.
   The read path of Model/Rescale.v is connected to c07c18's entry-level theory (Model/LsmBase.v, Proofs/C07_Sorted.v,
   Proofs/C18_Layout.v): entries are translated, the per-key merge is characterised by their [Mx] ("sorted, and per key
   the greatest sequence number of the candidate set"), uniqueness of versions comes from their [LLInv].
   One fact is a named Section hypothesis: [select_complete] (the binary search + forward scan of a level >= 1 returns
   every table holding the prefix when the level is a chain of disjoint ranges). *)
From Coq Require Import List NArith Lia Bool Sorting.Permutation Sorting.Sorted.
From Coq Require Import ZifyN ZifyNat ZifyBool.
From RV Require Model.LsmBase.
From RV Require Import Proofs.C07_Sorted Proofs.C18_Layout.
From RV Require Import Model.Rescale Proofs.C06_Assign Proofs.C06_Rescale.
Import ListNotations.
Open Scope N_scope.

Module L := RV.Model.LsmBase.

(* ---------- translation of entries ---------- *)
Definition tr (e : entry) : L.entry := L.mkE (e_key e) (e_seq e) (e_del e) [e_val e].
Lemma tr_inj a b : tr a = tr b -> a = b.
Proof. destruct a, b. unfold tr. cbn. intros H. inversion H. reflexivity. Qed.

Definition Sof (l : list entry) : L.entry -> Prop := fun x => exists e, In e l /\ x = tr e.

Lemma uniq_sub (S S' : L.entry -> Prop) : (forall x, S' x -> S x) -> uniq S -> uniq S'.
Proof. intros H Hu a b Ha Hb. apply Hu; auto. Qed.

(* the per-key merge of Model/Rescale.v is LsmBase's [ins] as long as versions are unique *)
Lemma ins_entry_tr e acc :
  (forall x, In x acc -> e_key x = e_key e -> e_seq x = e_seq e -> x = e) ->
  map tr (ins_entry e acc) = L.ins (tr e) (map tr acc).
Proof.
  induction acc as [|x acc IH]; intros Hu; cbn [ins_entry map L.ins]; [reflexivity|].
  change (L.ekey (tr e)) with (e_key e). change (L.ekey (tr x)) with (e_key x).
  destruct (bcmp (e_key e) (e_key x)) eqn:E; cbn [map].
  - apply bcmp_eq in E. f_equal. unfold L.newer. change (L.eseq (tr e)) with (e_seq e). change (L.eseq (tr x)) with (e_seq x).
    destruct (e_seq x <? e_seq e) eqn:A; destruct (e_seq e <? e_seq x) eqn:B; try reflexivity; try lia.
    assert (x = e) by (apply Hu; [left; reflexivity|congruence|lia]). subst. reflexivity.
  - reflexivity.
  - f_equal. apply IH. intros y Hy. apply Hu. right; exact Hy.
Qed.

Lemma newest_fold_Mx : forall es acc (S : L.entry -> Prop),
  Mx S (map tr acc) -> uniq (fun x => S x \/ Sof es x) ->
  Mx (fun x => S x \/ Sof es x) (map tr (fold_left (fun a e => ins_entry e a) es acc)).
Proof.
  induction es as [|e es IH]; intros acc S HM Hu; cbn [fold_left].
  - eapply Mx_ext; [|exact HM]. intros x. split; [auto|intros [H|(y & [] & _)]; exact H].
  - assert (Hc : forall x, In x acc -> e_key x = e_key e -> e_seq x = e_seq e -> x = e).
    { intros x Hx Hk Hs. apply tr_inj. apply Hu.
      - left. destruct HM as (_ & H2 & _). apply H2. apply in_map. exact Hx.
      - right. exists e. split; [left; reflexivity|reflexivity].
      - exact Hk.
      - exact Hs. }
    pose proof (Mx_ins S (map tr acc) (tr e) HM) as HM1. rewrite <- (ins_entry_tr e acc Hc) in HM1.
    specialize (IH (ins_entry e acc) (fun x => x = tr e \/ S x) HM1).
    eapply Mx_ext; [|apply IH].
    + intros x. split.
      * intros [[->|H]|(y & Hy & ->)]; [right; exists e; split; [left; reflexivity|reflexivity]|left; exact H|right; exists y; split; [right; exact Hy|reflexivity]].
      * intros [H|(y & [<-|Hy] & ->)]; [left; right; exact H|left; left; reflexivity|right; exists y; auto].
    + eapply uniq_sub; [|exact Hu]. intros x [[->|H]|(y & Hy & ->)]; [right; exists e; split; [left; reflexivity|reflexivity]|left; exact H|right; exists y; split; [right; exact Hy|reflexivity]].
Qed.

Lemma newest_Mx es : uniq (Sof es) -> Mx (Sof es) (map tr (newest_by_key es)).
Proof.
  intros Hu. unfold newest_by_key.
  eapply Mx_ext; [|apply (newest_fold_Mx es [] (fun _ => False))].
  - intros x. split; [intros [[]|H]; exact H|intros H; right; exact H].
  - apply Mx_nil.
  - eapply uniq_sub; [|exact Hu]. intros x [[]|H]; exact H.
Qed.

(* ---------- the memtable after a replay: newest first, strictly decreasing sequence numbers ---------- *)
Definition decr (l : list entry) : Prop := StronglySorted (fun a b => e_seq b < e_seq a) l.

Lemma replay_decr own es : forall st st', replay own st es = Some st' ->
  decr (s_mem st) -> (forall e, In e (s_mem st) -> e_seq e <= s_seq st) ->
  decr (s_mem st') /\ (forall e, In e (s_mem st') -> e_seq e <= s_seq st').
Proof.
  induction es as [|e es IH]; intros st st' H Hd Hb; cbn [replay] in H.
  - inversion H; subst. split; assumption.
  - destruct (owns_key own (e_key e)) as [[|]|]; [|apply (IH _ _ H Hd Hb)|discriminate].
    apply (IH _ _ H); cbn [db_write s_mem s_seq].
    + constructor; [exact Hd|]. apply Forall_forall. intros x Hx. cbn [e_seq]. specialize (Hb x Hx). lia.
    + intros x [<-|Hx]; cbn [e_seq]; [lia|specialize (Hb x Hx); lia].
Qed.

Lemma decr_same_seq l a b : decr l -> In a l -> In b l -> e_seq a = e_seq b -> a = b.
Proof.
  induction 1 as [|x l Hs IH Hf]; intros Ha Hb Heq; [destruct Ha|].
  rewrite Forall_forall in Hf. destruct Ha as [<-|Ha], Hb as [<-|Hb]; auto.
  - specialize (Hf _ Hb). lia.
  - specialize (Hf _ Ha). lia.
Qed.

(* ---------- documents: unpacking cleanliness ---------- *)
Definition wal_entries (d : ckdoc) : list entry := concat (d_wals d).

Lemma doc_clean_tables r d t e : doc_clean (r, d) = true -> In t (tables_of d) -> In e (t_entries t) -> key_in r (e_key e) = true.
Proof.
  unfold doc_clean. cbn [fst snd]. intros H Ht He. apply andb_true_iff in H as [H _].
  rewrite forallb_forall in H. specialize (H t Ht). unfold table_clean in H.
  apply andb_true_iff in H as [_ H]. rewrite forallb_forall in H. exact (H e He).
Qed.
Lemma doc_clean_wal r d e : doc_clean (r, d) = true -> In e (wal_entries d) -> key_in r (e_key e) = true.
Proof.
  unfold doc_clean. cbn [fst snd]. intros H He. apply andb_true_iff in H as [_ H]. rewrite forallb_forall in H. exact (H e He).
Qed.

(* two ranges without a common key group cannot both own a key *)
Definition rdisj (r r' : kgrange) : Prop := forall kg, ~ (includes_kg r kg = true /\ includes_kg r' kg = true).
Lemma rdisj_sym r r' : rdisj r r' -> rdisj r' r.
Proof. intros H kg [A B]. apply (H kg). split; assumption. Qed.
Lemma key_in_disj r r' k : rdisj r r' -> key_in r k = true -> key_in r' k = true -> False.
Proof.
  unfold key_in, owns_key. intros H A B. destruct k as [|b0 [|b1 k]]; try discriminate.
  apply (H (Mach.be_decode [b0; b1])). split.
  - destruct (includes_kg r _); [reflexivity|discriminate].
  - destruct (includes_kg r' _); [reflexivity|discriminate].
Qed.

Fixpoint pairdisj (rs : list kgrange) : Prop :=
  match rs with [] => True | r :: rest => (forall r', In r' rest -> rdisj r r') /\ pairdisj rest end.

Lemma pairdisj_in (hs : list (kgrange * ckdoc)) x y :
  pairdisj (map fst hs) -> In x hs -> In y hs -> x = y \/ rdisj (fst x) (fst y).
Proof.
  induction hs as [|a hs IH]; [intros _ []|]. cbn [map pairdisj]. intros [H1 H2] [<-|Hx] [<-|Hy].
  - left; reflexivity.
  - right. apply H1. apply in_map. exact Hy.
  - right. apply rdisj_sym. apply H1. apply in_map. exact Hx.
  - apply IH; assumption.
Qed.

Lemma pairdisj_split (hs : list (kgrange * ckdoc)) x :
  pairdisj (map fst hs) -> In x hs -> ~ rdisj (fst x) (fst x) ->
  exists l1 l2, hs = l1 ++ x :: l2 /\ (forall y, In y (l1 ++ l2) -> rdisj (fst x) (fst y)).
Proof.
  induction hs as [|a hs IH]; [intros _ []|]. cbn [map pairdisj]. intros [H1 H2] Hx Hn. destruct Hx as [<-|Hx].
  - exists [], hs. split; [reflexivity|]. intros y Hy. apply H1. apply in_map. exact Hy.
  - destruct (IH H2 Hx Hn) as (l1 & l2 & -> & Hd). exists (a :: l1), l2. split; [reflexivity|].
    intros y [<-|Hy]; [|apply Hd; exact Hy].
    apply rdisj_sym. apply H1. apply in_map. apply in_or_app. right. left. reflexivity.
Qed.

(* ---------- selection of tables for a prefix ---------- *)
Definition tcover (t : table) : Prop :=
  forall e, In e (t_entries t) -> kle (t_start t) (e_key e) /\ kle (e_key e) (t_end t).

Lemma rcp_in p t e : tcover t -> In e (t_entries t) -> is_prefix p (e_key e) = true -> range_contains_prefix t p = true.
Proof.
  intros Hc He Hp. destruct (Hc e He) as [H1 H2]. unfold range_contains_prefix.
  destruct (is_prefix p (t_start t)) eqn:E1; [rewrite orb_true_r; reflexivity|].
  destruct (is_prefix p (t_end t)) eqn:E2; [rewrite orb_true_r; reflexivity|].
  rewrite !orb_false_r. apply andb_true_iff. split; apply bleb_kle.
  - destruct (kle_total (t_start t) p) as [H|H]; [exact H|]. exfalso.
    rewrite (prefix_between p (t_start t) (e_key e) H H1 Hp) in E1. discriminate.
  - eapply kle_trans; [apply prefix_le; exact Hp|exact H2].
Qed.

Lemma take_while_in {A} (f : A -> bool) l x : In x (take_while f l) -> In x l.
Proof. induction l as [|y l IH]; cbn; [auto|]. destruct (f y); [intros [H|H]; auto|intros []]. Qed.
Lemma skipn_in {A} n (l : list A) x : In x (skipn n l) -> In x l.
Proof. revert l. induction n as [|n IH]; intros l; cbn; [auto|]. destruct l; [auto|]. intros H. right. apply IH. exact H. Qed.
Lemma select_level_sound lvl p t : In t (select_level lvl p) -> In t lvl.
Proof.
  unfold select_level. destruct (Nat.ltb _ _); [|intros []].
  destruct (range_prefix_compare _ p); try (intros []). intros H. apply take_while_in in H. apply skipn_in in H. exact H.
Qed.

(* levels >= 1: a chain of disjoint ranges, every table covering its entries *)
Definition startle (t : table) : Prop := kle (t_start t) (t_end t).
Definition level_ok (lvl : list table) : Prop :=
  Forall tcover lvl /\ Forall startle lvl /\ StronglySorted (fun a b => klt (t_end a) (t_start b)) lvl.
Definition levels_ok (levels : list (list table)) : Prop :=
  Forall tcover (hd [] levels) /\ Forall level_ok (tl levels).

Definition in_tables (levels : list (list table)) (e : entry) : Prop :=
  exists t, In t (concat levels) /\ In e (t_entries t).

Section Selection.
  (* NAMED HYPOTHESIS (not proved): completeness of slices.BinarySearchFunc + forward scan on a chain of disjoint ranges *)
  Hypothesis select_complete : forall lvl p t e,
    level_ok lvl -> In t lvl -> In e (t_entries t) -> is_prefix p (e_key e) = true -> In t (select_level lvl p).

  Lemma tables_for_prefix_iff levels p e : levels_ok levels -> is_prefix p (e_key e) = true ->
    ((exists t, In t (tables_for_prefix levels p) /\ In e (t_entries t)) <-> in_tables levels e).
  Proof.
    intros [H0 Hd] Hp. destruct levels as [|l0 deeper]; cbn [tables_for_prefix hd tl concat] in *.
    - split; intros (t & [] & _).
    - split.
      + intros (t & Ht & He). exists t. split; [|exact He]. apply in_app_or in Ht as [Ht|Ht]; apply in_or_app.
        * left. apply filter_In in Ht as [Ht _]. exact Ht.
        * right. apply in_flat_map in Ht as (l & Hl & Ht). apply in_concat. exists l. split; [exact Hl|]. eapply select_level_sound; exact Ht.
      + intros (t & Ht & He). exists t. split; [|exact He]. apply in_app_or in Ht as [Ht|Ht]; apply in_or_app.
        * left. apply filter_In. split; [exact Ht|]. rewrite Forall_forall in H0. eapply rcp_in; eauto.
        * right. apply in_concat in Ht as (l & Hl & Ht). apply in_flat_map. exists l. split; [exact Hl|].
          rewrite Forall_forall in Hd. eapply select_complete; eauto.
  Qed.

  Lemma candidates_iff st p e : levels_ok (s_levels st) ->
    (In e (candidates st p) <-> is_prefix p (e_key e) = true /\ (In e (s_mem st) \/ in_tables (s_levels st) e)).
  Proof.
    intros Hok. unfold candidates. rewrite filter_In, in_app_iff, in_flat_map. split.
    - intros [[H|H] Hp]; (split; [exact Hp|]); [left; exact H|right]. apply (tables_for_prefix_iff _ p e Hok Hp). exact H.
    - intros [Hp [H|H]]; (split; [|exact Hp]); [left; exact H|right]. apply (tables_for_prefix_iff _ p e Hok Hp). exact H.
  Qed.
End Selection.

(* ---------- comparing two merged views by payload ---------- *)
Definition pl (x : L.entry) := (L.ekey x, L.edel x, L.eval x).

Lemma payload_ext a : forall b, sorted a -> sorted b ->
  (forall k, option_map pl (L.tbl_get k a) = option_map pl (L.tbl_get k b)) -> map pl a = map pl b.
Proof.
  induction a as [|x a IH]; intros [|y b] Ha Hb H.
  - reflexivity.
  - specialize (H (L.ekey y)). rewrite tbl_get_cons, beqb_refl in H. discriminate.
  - specialize (H (L.ekey x)). rewrite tbl_get_cons, beqb_refl in H. discriminate.
  - cbn in Ha, Hb. destruct Ha as [Ha1 Ha2], Hb as [Hb1 Hb2].
    assert (Hk : L.ekey x = L.ekey y).
    { destruct (beqb (L.ekey x) (L.ekey y)) eqn:EE; [apply beqb_eq; exact EE|]. exfalso.
      assert (E : L.ekey y <> L.ekey x) by (intros E; rewrite E, beqb_refl in EE; discriminate).
      pose proof (H (L.ekey x)) as Hx. pose proof (H (L.ekey y)) as Hy.
      rewrite !tbl_get_cons, beqb_refl in Hx. rewrite !tbl_get_cons, beqb_refl in Hy.
      rewrite (beqb_neq _ _ E) in Hx. rewrite (beqb_neq _ _ (fun e => E (eq_sym e))) in Hy.
      destruct (L.tbl_get (L.ekey x) b) as [z|] eqn:Ez; [|discriminate].
      destruct (L.tbl_get (L.ekey y) a) as [z'|] eqn:Ez'; [|discriminate].
      apply tbl_get_some in Ez as [Hz1 Hz2]. apply tbl_get_some in Ez' as [Hz1' Hz2'].
      pose proof (Hb1 z Hz1) as L1. pose proof (Ha1 z' Hz1') as L2. rewrite Hz2 in L1. rewrite Hz2' in L2.
      exact (klt_irrefl _ (klt_trans _ _ _ L1 L2)). }
    cbn [map]. f_equal.
    + pose proof (H (L.ekey x)) as Hx. rewrite !tbl_get_cons, beqb_refl in Hx. rewrite <- Hk, beqb_refl in Hx. cbn in Hx. congruence.
    + apply IH; [exact Ha2|exact Hb2|]. intros k. specialize (H k). rewrite !tbl_get_cons in H. rewrite <- Hk in H.
      destruct (beqb (L.ekey x) k) eqn:E; [|exact H].
      apply beqb_eq in E. subst k.
      rewrite (tbl_get_none_intro (L.ekey x) a), (tbl_get_none_intro (L.ekey x) b); [reflexivity| |].
      * intros e He Hke. specialize (Hb1 e He). rewrite <- Hk, Hke in Hb1. exact (klt_irrefl _ Hb1).
      * intros e He Hke. specialize (Ha1 e He). rewrite Hke in Ha1. exact (klt_irrefl _ Ha1).
Qed.

(* ---------- what a lookup in the merged view returns ---------- *)
Definition keyb (k : bytes) (e : entry) : bool := beqb (e_key e) k.

Lemma decr_filter_head f l e0 rest : decr l -> filter f l = e0 :: rest ->
  In e0 l /\ f e0 = true /\ forall e, In e l -> f e = true -> e = e0 \/ e_seq e < e_seq e0.
Proof.
  induction 1 as [|x l Hs IH Hf]; cbn [filter]; [discriminate|]. rewrite Forall_forall in Hf.
  destruct (f x) eqn:Fx.
  - intros H. inversion H; subst. split; [left; reflexivity|]. split; [exact Fx|].
    intros e [<-|He] _; [left; reflexivity|right; apply Hf; exact He].
  - intros H. destruct (IH H) as (A & B & C). split; [right; exact A|]. split; [exact B|].
    intros e [<-|He] Fe; [congruence|apply C; assumption].
Qed.

Section Lookup.
  Variables (p : bytes) (m : list entry) (Tb : entry -> Prop) (R : L.table).
  Let S : L.entry -> Prop := fun x => exists e, x = tr e /\ is_prefix p (e_key e) = true /\ (In e m \/ Tb e).
  Hypothesis HM : Mx S R.
  Hypothesis Hu : uniq S.
  Hypothesis Hd : decr m.
  Hypothesis Habove : forall e e', In e m -> Tb e' -> e_seq e' < e_seq e.

  Lemma lookup_mem k e0 rest : is_prefix p k = true -> filter (keyb k) m = e0 :: rest -> L.tbl_get k R = Some (tr e0).
  Proof.
    intros Hp Hf. destruct (decr_filter_head _ _ _ _ Hd Hf) as (A & B & C). unfold keyb in B. apply beqb_eq in B.
    assert (HS : S (tr e0)) by (exists e0; split; [reflexivity|]; split; [rewrite B; exact Hp|left; exact A]).
    replace k with (L.ekey (tr e0)) by exact B. apply (Mx_get_max S R (tr e0) HM Hu HS).
    intros x (e & -> & _ & [He|He]) Hk; change (e_seq e <= e_seq e0).
    - destruct (C e He) as [->|H]; [unfold keyb; apply beqb_eq; rewrite <- B; exact Hk|lia|lia].
    - specialize (Habove e0 e A He). lia.
  Qed.

  Lemma lookup_tab k : is_prefix p k = true -> filter (keyb k) m = [] ->
    match L.tbl_get k R with
    | None => forall e, Tb e -> e_key e <> k
    | Some x => exists e, x = tr e /\ Tb e /\ e_key e = k /\ forall e', Tb e' -> e_key e' = k -> e_seq e' <= e_seq e
    end.
  Proof.
    intros Hp Hf.
    assert (Hnm : forall e, In e m -> e_key e <> k).
    { intros e He Hk. assert (In e (filter (keyb k) m)) by (apply filter_In; split; [exact He|unfold keyb; apply beqb_eq; exact Hk]).
      rewrite Hf in H. destruct H. }
    destruct (L.tbl_get k R) as [x|] eqn:E.
    - destruct (Mx_get_spec S R k x HM E) as ((e & -> & _ & [He|He]) & Hk & Hmax); [exfalso; exact (Hnm e He Hk)|].
      exists e. split; [reflexivity|]. split; [exact He|]. split; [exact Hk|].
      intros e' He' Hk'. apply (Hmax (tr e')); [|exact Hk']. exists e'. split; [reflexivity|]. split; [rewrite Hk'; exact Hp|right; exact He'].
    - intros e He Hk. destruct HM as (_ & _ & H3).
      destruct (H3 (tr e)) as (y & Hy & _); [exists e; split; [reflexivity|]; split; [rewrite Hk; exact Hp|right; exact He]|].
      change (L.ekey (tr e)) with (e_key e) in Hy. rewrite Hk in Hy. congruence.
  Qed.
End Lookup.

(* the scan output is a function of the payloads of the merged view *)
Lemma scan_of_payload l1 : forall l2, map (fun e => pl (tr e)) l1 = map (fun e => pl (tr e)) l2 ->
  map (fun e => (e_key e, e_val e)) (filter (fun e => negb (e_del e)) l1) =
  map (fun e => (e_key e, e_val e)) (filter (fun e => negb (e_del e)) l2).
Proof.
  induction l1 as [|a l1 IH]; intros [|b l2] H; cbn [map] in H; try discriminate; [reflexivity|].
  inversion H as [[Hk Hd Hv H']]. cbn [filter]. rewrite Hd. destruct (negb (e_del b)); cbn [map]; [rewrite Hk, Hv; f_equal|]; apply IH; exact H'.
Qed.

(* ---------- small list facts ---------- *)
Lemma filter_rev' {A} (f : A -> bool) l : filter f (rev l) = rev (filter f l).
Proof.
  induction l as [|x l IH]; [reflexivity|]. cbn [rev filter]. rewrite filter_app, IH. cbn [filter].
  destruct (f x); cbn [rev]; [reflexivity|rewrite app_nil_r; reflexivity].
Qed.
Lemma filter_filter_imp {A} (f g : A -> bool) l : (forall x, f x = true -> g x = true) -> filter f (filter g l) = filter f l.
Proof.
  intros H. induction l as [|x l IH]; [reflexivity|]. cbn [filter]. destruct (g x) eqn:G; cbn [filter].
  - rewrite IH. reflexivity.
  - destruct (f x) eqn:F; [rewrite (H x F) in G; discriminate|exact IH].
Qed.
Lemma concat_flat_map_wals ds : concat (flat_map d_wals ds) = flat_map wal_entries ds.
Proof. induction ds as [|d ds IH]; [reflexivity|]. cbn [flat_map]. rewrite concat_app, IH. reflexivity. Qed.
Lemma filter_flat_map_only {A B} (f : B -> bool) (g : A -> list B) l1 x l2 :
  (forall y, In y (l1 ++ l2) -> filter f (g y) = []) -> filter f (flat_map g (l1 ++ x :: l2)) = filter f (g x).
Proof.
  intros H. rewrite flat_map_app. cbn [flat_map]. rewrite !filter_app.
  assert (E : forall l, (forall y, In y l -> filter f (g y) = []) -> filter f (flat_map g l) = []).
  { induction l as [|y l IH]; intros Hl; [reflexivity|]. cbn [flat_map]. rewrite filter_app, (Hl y (or_introl eq_refl)), IH; [reflexivity|].
    intros z Hz. apply Hl. right; exact Hz. }
  rewrite (E l1), (E l2), app_nil_r; [reflexivity| |]; intros y Hy; apply H; apply in_or_app; auto.
Qed.
Definition kq (k : bytes) (q : bytes * bool * N) : bool := beqb (fst (fst q)) k.
Lemma payload_filter k l : map payload (filter (keyb k) l) = filter (kq k) (map payload l).
Proof.
  induction l as [|e l IH]; [reflexivity|]. cbn [filter map].
  replace (kq k (payload e)) with (keyb k e) by reflexivity.
  destruct (keyb k e); cbn [map]; rewrite IH; reflexivity.
Qed.

Lemma restore_decr sorted own d rest st : restore sorted own (d :: rest) = Some st -> decr (s_mem st).
Proof.
  unfold restore. destruct (merge_into d rest) as [c|]; [|discriminate]. intros H.
  apply (replay_decr _ _ _ _ H); cbn [s_mem]; [constructor|intros e []].
Qed.

Lemma is_prefix_refl p : is_prefix p p = true.
Proof. apply is_prefix_spec. exists []. rewrite app_nil_r. reflexivity. Qed.

(* ---------- rescale_exact_clean at the level of one restore ---------- *)
Section Clean.
  Hypothesis select_complete : forall lvl p t e,
    level_ok lvl -> In t lvl -> In e (t_entries t) -> is_prefix p (e_key e) = true -> In t (select_level lvl p).

  Variables (hs : list (kgrange * ckdoc)) (own rj : kgrange) (dj : ckdoc) (p : bytes) (st stj : dbstate).
  Hypothesis Hin : In (rj, dj) hs.
  Hypothesis Hdisj : pairdisj (map fst hs).
  Hypothesis Hclean : forall rd, In rd hs -> doc_clean rd = true.
  Hypothesis Hp : forall k, is_prefix p k = true -> key_in rj k = true /\ key_in own k = true.
  Hypothesis Hst : restore true own (map snd hs) = Some st.
  Hypothesis Hstj : restore true rj [dj] = Some stj.
  Hypothesis Hok : levels_ok (s_levels st).
  Hypothesis Hokj : levels_ok (s_levels stj).
  Hypothesis Huniq : uniq (Sof (flat_map t_entries (tables_of dj))).
  Hypothesis Hend : forall rd t e, In rd hs -> In t (tables_of (snd rd)) -> In e (t_entries t) -> e_seq e <= t_endseq t.

  Let Tbn := in_tables (s_levels st).
  Let Tbo := in_tables (s_levels stj).

  Lemma hs_cons : exists d rest, map snd hs = d :: rest.
  Proof. destruct hs as [|a l]; [destruct Hin|]. eexists _, _. reflexivity. Qed.

  Lemma Tbn_iff e : Tbn e <-> exists rd t, In rd hs /\ In t (tables_of (snd rd)) /\ In e (t_entries t).
  Proof.
    destruct hs_cons as (d & rest & E). rewrite E in Hst. destruct (restore_spec _ _ _ _ _ Hst) as (Hperm & _).
    rewrite <- E in Hperm. unfold Tbn, in_tables. split.
    - intros (t & Ht & He). apply (Permutation_in _ Hperm) in Ht. apply in_flat_map in Ht as (d' & Hd' & Ht).
      apply in_map_iff in Hd' as (rd & <- & Hrd). exists rd, t. auto.
    - intros (rd & t & Hrd & Ht & He). exists t. split; [|exact He]. apply (Permutation_in _ (Permutation_sym Hperm)).
      apply in_flat_map. exists (snd rd). split; [apply in_map; exact Hrd|exact Ht].
  Qed.
  Lemma Tbo_iff e : Tbo e <-> exists t, In t (tables_of dj) /\ In e (t_entries t).
  Proof.
    destruct (restore_spec _ _ _ _ _ Hstj) as (Hperm & _). cbn [flat_map] in Hperm. rewrite app_nil_r in Hperm.
    unfold Tbo, in_tables. split; intros (t & Ht & He); exists t; (split; [|exact He]).
    - apply (Permutation_in _ Hperm). exact Ht.
    - apply (Permutation_in _ (Permutation_sym Hperm)). exact Ht.
  Qed.

  Lemma not_self_disj : ~ rdisj rj rj.
  Proof.
    intros H. destruct (Hp p (is_prefix_refl p)) as [A _]. exact (key_in_disj _ _ _ H A A).
  Qed.

  (* tables: the entries with the prefix are exactly those of the old owner's tables *)
  Lemma tables_same e : is_prefix p (e_key e) = true -> (Tbn e <-> Tbo e).
  Proof.
    intros Hpe. rewrite Tbn_iff, Tbo_iff. split.
    - intros (rd & t & Hrd & Ht & He). destruct (pairdisj_in hs rd (rj, dj) Hdisj Hrd Hin) as [->|Hd].
      + exists t. auto.
      + exfalso. destruct rd as [r d]. cbn [fst snd] in *.
        apply (key_in_disj r rj (e_key e) Hd); [eapply doc_clean_tables; eauto; apply (Hclean _ Hrd)|apply Hp; exact Hpe].
    - intros (t & Ht & He). exists (rj, dj), t. auto.
  Qed.

  (* memtable: per key with the prefix, the same payloads in the same order *)
  Lemma mem_same k : is_prefix p k = true ->
    map payload (filter (keyb k) (s_mem st)) = map payload (filter (keyb k) (s_mem stj)).
  Proof.
    intros Hk. destruct (Hp k Hk) as [Hkj Hko].
    destruct hs_cons as (d & rest & E). rewrite E in Hst. destruct (restore_spec _ _ _ _ _ Hst) as (_ & Hm & _).
    destruct (restore_spec _ _ _ _ _ Hstj) as (_ & Hmj & _). rewrite <- E in Hm.
    rewrite !payload_filter, Hm, Hmj, !filter_rev', <- !payload_filter. f_equal. f_equal.
    rewrite !concat_flat_map_wals.
    assert (Hown : forall r, key_in r k = true -> forall x, keyb k x = true -> key_in r (e_key x) = true).
    { intros r Hr x Hx. unfold keyb in Hx. apply beqb_eq in Hx. rewrite Hx. exact Hr. }
    rewrite (filter_filter_imp _ _ _ (Hown own Hko)), (filter_filter_imp _ _ _ (Hown rj Hkj)).
    cbn [flat_map]. rewrite app_nil_r.
    destruct (pairdisj_split hs (rj, dj) Hdisj Hin not_self_disj) as (l1 & l2 & Ehs & Hothers).
    rewrite Ehs, map_app. cbn [map snd].
    change (filter (keyb k) (flat_map wal_entries (map snd l1 ++ dj :: map snd l2)) = filter (keyb k) (wal_entries dj)).
    apply filter_flat_map_only. intros d' Hd'. rewrite <- map_app in Hd'. apply in_map_iff in Hd' as (rd & <- & Hrd).
    destruct (filter (keyb k) (wal_entries (snd rd))) as [|x l] eqn:F; [reflexivity|exfalso].
    assert (Hx : In x (filter (keyb k) (wal_entries (snd rd)))) by (rewrite F; left; reflexivity).
    apply filter_In in Hx as [Hx1 Hx2]. unfold keyb in Hx2. apply beqb_eq in Hx2.
    assert (Hrd' : In rd hs) by (rewrite Ehs; apply in_app_or in Hrd as [H|H]; apply in_or_app; [left|right; right]; exact H).
    destruct rd as [r d']. cbn [fst snd] in *.
    apply (key_in_disj rj r k (Hothers _ Hrd) Hkj). rewrite <- Hx2. eapply doc_clean_wal; [apply (Hclean _ Hrd')|exact Hx1].
  Qed.

  (* every replayed entry is numbered above every table entry *)
  Lemma above_n e e' : In e (s_mem st) -> Tbn e' -> e_seq e' < e_seq e.
  Proof.
    intros He He'. destruct hs_cons as (d & rest & E). pose proof Hst as Hst'. rewrite E in Hst'.
    destruct (restore_spec _ _ _ _ _ Hst') as (Hperm & _ & _ & Hab & _). rewrite <- E in Hperm.
    destruct He' as (t' & Ht' & Het'). specialize (Hab e t' He Ht').
    (* the table that holds e' in the state is one of the documents' tables *)
    assert (Hs : e_seq e' <= t_endseq t').
    { apply (Permutation_in _ Hperm) in Ht'. apply in_flat_map in Ht' as (d' & Hd' & Ht'd).
      apply in_map_iff in Hd' as (rd' & Erd & Hrd'). subst d'. exact (Hend rd' t' e' Hrd' Ht'd Het'). }
    lia.
  Qed.
  Lemma above_o e e' : In e (s_mem stj) -> Tbo e' -> e_seq e' < e_seq e.
  Proof.
    intros He (t' & Ht' & Het'). destruct (restore_spec _ _ _ _ _ Hstj) as (Hperm & _ & _ & Hab & _).
    specialize (Hab e t' He Ht'). cbn [flat_map] in Hperm. rewrite app_nil_r in Hperm.
    apply (Permutation_in _ Hperm) in Ht'. pose proof (Hend (rj, dj) t' e' Hin Ht' Het'). lia.
  Qed.

  Definition Scand (m : list entry) (Tb : entry -> Prop) : L.entry -> Prop :=
    fun x => exists e, x = tr e /\ is_prefix p (e_key e) = true /\ (In e m \/ Tb e).

  Lemma uniq_cand m (Tb : entry -> Prop) : decr m -> (forall e e', In e m -> Tb e' -> e_seq e' < e_seq e) ->
    (forall e, is_prefix p (e_key e) = true -> Tb e -> Tbo e) -> uniq (Scand m Tb).
  Proof.
    intros Hd Hab Hsub x y (e & -> & Hpe & He) (e' & -> & Hpe' & He') Hk Hs.
    change (e_key e = e_key e') in Hk. change (e_seq e = e_seq e') in Hs. f_equal.
    destruct He as [He|He], He' as [He'|He'].
    - exact (decr_same_seq _ _ _ Hd He He' Hs).
    - specialize (Hab e e' He He'). lia.
    - specialize (Hab e' e He' He). lia.
    - apply tr_inj. apply Huniq; [| |exact Hk|exact Hs].
      + apply Hsub in He; [|exact Hpe]. apply Tbo_iff in He as (t & Ht & Het). exists e. split; [|reflexivity]. apply in_flat_map. exists t. auto.
      + apply Hsub in He'; [|exact Hpe']. apply Tbo_iff in He' as (t & Ht & Het). exists e'. split; [|reflexivity]. apply in_flat_map. exists t. auto.
  Qed.

  Lemma Mx_cand s : levels_ok (s_levels s) -> uniq (Scand (s_mem s) (in_tables (s_levels s))) ->
    Mx (Scand (s_mem s) (in_tables (s_levels s))) (map tr (newest_by_key (candidates s p))).
  Proof.
    intros Hlok Hu.
    assert (Heq : forall x, Sof (candidates s p) x <-> Scand (s_mem s) (in_tables (s_levels s)) x).
    { intros x. split.
      - intros (e & He & ->). apply (candidates_iff select_complete s p e Hlok) in He as [A B]. exists e. auto.
      - intros (e & -> & A & B). exists e. split; [|reflexivity]. apply (candidates_iff select_complete s p e Hlok). auto. }
    eapply Mx_ext; [exact Heq|]. apply newest_Mx. eapply uniq_sub; [|exact Hu]. intros x Hx. apply Heq. exact Hx.
  Qed.

  Theorem rescale_exact_clean_restore : scan_prefix st p = scan_prefix stj p.
  Proof.
    destruct hs_cons as (d & rest & E). pose proof Hst as Hst'. rewrite E in Hst'.
    pose proof (restore_decr _ _ _ _ _ Hst') as Hdn. pose proof (restore_decr _ _ _ _ _ Hstj) as Hdo.
    assert (Hun : uniq (Scand (s_mem st) Tbn)) by (apply uniq_cand; [exact Hdn|exact above_n|intros e Hpe He; apply (tables_same e Hpe); exact He]).
    assert (Huo : uniq (Scand (s_mem stj) Tbo)) by (apply uniq_cand; [exact Hdo|exact above_o|auto]).
    pose proof (Mx_cand st Hok Hun) as HMn. pose proof (Mx_cand stj Hokj Huo) as HMo.
    unfold scan_prefix. apply scan_of_payload. rewrite <- !map_map with (f := tr) (g := pl).
    apply payload_ext; [apply HMn|apply HMo|]. intros k.
    destruct (is_prefix p k) eqn:Hpk.
    2:{ (* no candidate has this key *)
      rewrite (Mx_get_none _ _ k HMn), (Mx_get_none _ _ k HMo); [reflexivity| |];
        intros x (e & -> & Hpe & _) Hk; change (e_key e = k) in Hk; rewrite Hk in Hpe; congruence. }
    pose proof (mem_same k Hpk) as Hmem.
    destruct (filter (keyb k) (s_mem st)) as [|en rn] eqn:Fn; destruct (filter (keyb k) (s_mem stj)) as [|eo ro] eqn:Fo; cbn [map] in Hmem; try discriminate.
    - pose proof (lookup_tab p (s_mem st) Tbn _ HMn k Hpk Fn) as Ln. pose proof (lookup_tab p (s_mem stj) Tbo _ HMo k Hpk Fo) as Lo.
      destruct (L.tbl_get k (map tr (newest_by_key (candidates st p)))) as [x|];
      destruct (L.tbl_get k (map tr (newest_by_key (candidates stj p)))) as [y|]; cbn [option_map].
      + destruct Ln as (e & -> & He & Hk & Hmax). destruct Lo as (e' & -> & He' & Hk' & Hmax').
        assert (Hpe : is_prefix p (e_key e) = true) by (rewrite Hk; exact Hpk).
        assert (Hpe' : is_prefix p (e_key e') = true) by (rewrite Hk'; exact Hpk).
        pose proof (proj1 (tables_same e Hpe) He) as Heo. pose proof (proj2 (tables_same e' Hpe') He') as He'n.
        specialize (Hmax e' He'n Hk'). specialize (Hmax' e Heo Hk).
        assert (tr e = tr e'); [|congruence].
        apply Huo; [exists e; auto|exists e'; auto|cbn; congruence|cbn; lia].
      + exfalso. destruct Ln as (e & -> & He & Hk & _). apply (Lo e); [apply tables_same; [rewrite Hk; exact Hpk|exact He]|exact Hk].
      + exfalso. destruct Lo as (e & -> & He & Hk & _). apply (Ln e); [apply tables_same; [rewrite Hk; exact Hpk|exact He]|exact Hk].
      + reflexivity.
    - rewrite (lookup_mem p (s_mem st) Tbn _ HMn Hun Hdn above_n k en rn Hpk Fn).
      rewrite (lookup_mem p (s_mem stj) Tbo _ HMo Huo Hdo above_o k eo ro Hpk Fo).
      cbn [option_map]. inversion Hmem as [[A B C]]. unfold pl, tr. cbn. unfold payload in *. congruence.
  Qed.
End Clean.

(* ---------- the composite of clean documents is a valid layout: levels >= 1 are chains of disjoint ranges ---------- *)
Definition sep2 (a b : table) : Prop := klt (t_end a) (t_start b) \/ klt (t_end b) (t_start a).
Definition chain (l : list table) : Prop := StronglySorted (fun a b => klt (t_end a) (t_start b)) l.
Fixpoint pairsep (l : list table) : Prop :=
  match l with [] => True | x :: r => (forall y, In y r -> sep2 x y) /\ pairsep r end.

Lemma sep2_sym a b : sep2 a b -> sep2 b a.
Proof. intros [H|H]; [right|left]; exact H. Qed.

Lemma ins_table_in t l x : In x (ins_table t l) <-> x = t \/ In x l.
Proof.
  induction l as [|y l IH]; cbn [ins_table].
  - split; [intros [<-|[]]; left; reflexivity|intros [->|[]]; left; reflexivity].
  - destruct (bleb (t_start t) (t_start y)); cbn [In].
    + split; [intros [<-|H]; auto|intros [->|H]; auto].
    + rewrite IH. split; [intros [<-|[->|H]]; auto|intros [->|[<-|H]]; auto].
Qed.

Lemma ins_table_chain t l : startle t -> Forall startle l -> chain l -> (forall x, In x l -> sep2 t x) -> chain (ins_table t l).
Proof.
  intros Ht Hl Hc. induction Hc as [|x l Hc IH Hx]; intros Hs; cbn [ins_table].
  - constructor; constructor.
  - rewrite Forall_forall in Hx. inversion Hl as [|? ? Hsx Hl']; subst. rewrite Forall_forall in Hl'.
    destruct (bleb (t_start t) (t_start x)) eqn:B.
    + apply bleb_kle in B. constructor; [constructor; [exact Hc|apply Forall_forall; exact Hx]|].
      apply Forall_forall. intros y [<-|Hy].
      * destruct (Hs x (or_introl eq_refl)) as [H|H]; [exact H|exfalso].
        exact (klt_irrefl _ (klt_le_trans _ _ _ (kle_lt_trans _ _ _ Hsx H) B)).
      * destruct (Hs y (or_intror Hy)) as [H|H]; [exact H|exfalso].
        (* end_y < start_t <= start_x <= end_x < start_y <= end_y *)
        pose proof (Hx y Hy) as Hxy. pose proof (Hl' y Hy) as Hsy.
        exact (klt_irrefl _ (klt_le_trans _ _ _ (klt_trans _ _ _ (klt_le_trans _ _ _ H (kle_trans _ _ _ B Hsx)) Hxy) Hsy)).
    + apply bleb_false in B. constructor.
      * apply IH; [apply Forall_forall; exact Hl'|intros y Hy; apply Hs; right; exact Hy].
      * apply Forall_forall. intros y Hy. apply ins_table_in in Hy as [->|Hy]; [|apply Hx; exact Hy].
        destruct (Hs x (or_introl eq_refl)) as [H|H]; [exfalso|exact H].
        exact (klt_irrefl _ (klt_trans _ _ _ (kle_lt_trans _ _ _ Ht H) B)).
Qed.

Lemma sort_level_in l x : In x (sort_level l) <-> In x l.
Proof.
  induction l as [|t l IH]; [reflexivity|]. change (sort_level (t :: l)) with (ins_table t (sort_level l)).
  rewrite ins_table_in, IH. cbn [In]. split; intros [H|H]; auto.
Qed.

Lemma sort_level_chain l : Forall startle l -> pairsep l -> chain (sort_level l).
Proof.
  induction l as [|t l IH]; intros Hs Hp; [constructor|]. change (sort_level (t :: l)) with (ins_table t (sort_level l)).
  inversion Hs as [|? ? Ht Hl]; subst. destruct Hp as [Hp1 Hp2].
  apply ins_table_chain; [exact Ht| |apply IH; assumption|].
  - apply Forall_forall. intros x Hx. apply (proj1 (sort_level_in _ _)) in Hx. rewrite Forall_forall in Hl. exact (Hl x Hx).
  - intros x Hx. apply (proj1 (sort_level_in _ _)) in Hx. exact (Hp1 x Hx).
Qed.

Lemma pairsep_app a b : pairsep a -> pairsep b -> (forall x y, In x a -> In y b -> sep2 x y) -> pairsep (a ++ b).
Proof.
  induction a as [|x a IH]; intros Ha Hb Hab; [exact Hb|]. cbn [app pairsep]. destruct Ha as [Ha1 Ha2]. split.
  - intros y Hy. apply in_app_or in Hy as [Hy|Hy]; [apply Ha1; exact Hy|apply Hab; [left; reflexivity|exact Hy]].
  - apply IH; [exact Ha2|exact Hb|intros u v Hu Hv; apply Hab; [right; exact Hu|exact Hv]].
Qed.
Lemma chain_pairsep l : chain l -> pairsep l.
Proof.
  induction 1 as [|x l Hc IH Hx]; [exact I|]. cbn [pairsep]. rewrite Forall_forall in Hx. split; [|exact IH].
  intros y Hy. left. exact (Hx y Hy).
Qed.

(* keys: the key group is the big-endian value of the first two bytes; byte order follows key-group order *)
Definition key2wf (k : bytes) : Prop := match k with b0 :: b1 :: _ => b0 < 256 /\ b1 < 256 | _ => False end.
Definition kg2 (k : bytes) : option N := match k with b0 :: b1 :: _ => Some (Mach.be_decode [b0; b1]) | _ => None end.

Lemma key_in_kg r k : key_in r k = true -> exists g, kg2 k = Some g /\ includes_kg r g = true.
Proof.
  unfold key_in, owns_key, kg2. destruct k as [|b0 [|b1 k]]; try discriminate. intros H. eexists. split; [reflexivity|].
  destruct (includes_kg r _); [reflexivity|discriminate].
Qed.

Lemma kg_lt_klt a b ga gb : key2wf a -> key2wf b -> kg2 a = Some ga -> kg2 b = Some gb -> ga < gb -> klt a b.
Proof.
  destruct a as [|a0 [|a1 a]]; [intros []|intros []|]. destruct b as [|b0 [|b1 b]]; [intros _ []|intros _ []|].
  unfold key2wf, kg2, Mach.be_decode. cbn [fold_left]. intros [A0 A1] [B0 B1] Ea Eb. inversion Ea; inversion Eb; subst. intros Hlt.
  unfold klt. cbn [bcmp]. destruct (N.compare_spec a0 b0) as [E|E|E].
  - subst. destruct (N.compare_spec a1 b1) as [E|E|E]; [lia|reflexivity|lia].
  - reflexivity.
  - lia.
Qed.

(* two tables of clean documents with disjoint ranges have separated key ranges *)
Definition twf2 (r : kgrange) (t : table) : Prop :=
  key2wf (t_start t) /\ key2wf (t_end t) /\ key_in r (t_start t) = true /\ key_in r (t_end t) = true.

Lemma clean_sep2 r r' t t' : rdisj r r' -> twf2 r t -> twf2 r' t' -> sep2 t t'.
Proof.
  intros Hd (Ws & We & Ks & Ke) (Ws' & We' & Ks' & Ke').
  destruct (key_in_kg _ _ Ks) as (gs & Egs & Igs). destruct (key_in_kg _ _ Ke) as (ge & Ege & Ige).
  destruct (key_in_kg _ _ Ks') as (gs' & Egs' & Igs'). destruct (key_in_kg _ _ Ke') as (ge' & Ege' & Ige').
  destruct r as [s e], r' as [s' e']. unfold includes_kg in *. cbn [fst snd] in *.
  assert (Hor : e <= s' \/ e' <= s).
  { destruct (N.le_gt_cases e s') as [H|H]; [left; exact H|]. destruct (N.le_gt_cases e' s) as [H'|H']; [right; exact H'|]. exfalso.
    apply (Hd (N.max s s')). unfold includes_kg. cbn [fst snd]. lia. }
  destruct Hor as [H|H]; [left|right].
  - apply (kg_lt_klt _ _ ge gs'); auto. lia.
  - apply (kg_lt_klt _ _ ge' gs); auto. lia.
Qed.

(* level k of the composite = the level-k lists of the documents, in handle order *)
Lemma zip_app_nth : forall a b l k, zip_app a b = Some l -> nth k l [] = nth k a [] ++ nth k b [].
Proof.
  induction a as [|x a IH]; intros b l k H; destruct b as [|y b]; cbn [zip_app] in H; try discriminate.
  - inversion H; subst. destruct k; reflexivity.
  - inversion H; subst. destruct k; cbn [nth]; rewrite app_nil_r; reflexivity.
  - destruct (zip_app a b) as [r|] eqn:Hr; [|discriminate]. inversion H; subst. destruct k as [|k]; cbn [nth]; [reflexivity|]. apply IH. exact Hr.
Qed.

Definition lvk (k : nat) (d : ckdoc) : list table := nth k (d_levels d) [].

Lemma merge_into_level : forall rest c c' k, merge_into c rest = Some c' -> lvk k c' = lvk k c ++ flat_map (lvk k) rest.
Proof.
  induction rest as [|d rest IH]; intros c c' k H; cbn [merge_into] in H.
  - inversion H; subst. cbn [flat_map]. rewrite app_nil_r. reflexivity.
  - destruct (zip_app (d_levels c) (d_levels d)) as [l|] eqn:Hz; [|discriminate].
    rewrite (IH _ _ k H). unfold lvk at 1. cbn [d_levels]. rewrite (zip_app_nth _ _ _ k Hz). cbn [flat_map]. rewrite <- app_assoc. reflexivity.
Qed.

Lemma lvk_tables k d t : In t (lvk k d) -> In t (tables_of d).
Proof.
  unfold lvk, tables_of. intros H. destruct (Nat.ltb k (length (d_levels d))) eqn:E.
  - apply Nat.ltb_lt in E. apply in_concat. exists (nth k (d_levels d) []). split; [apply nth_In; exact E|exact H].
  - apply Nat.ltb_ge in E. rewrite nth_overflow in H by exact E. destruct H.
Qed.

(* a clean, well-formed checkpoint document *)
Definition docwf (rd : kgrange * ckdoc) : Prop :=
  doc_clean rd = true /\
  (forall t, In t (tables_of (snd rd)) -> tcover t /\ startle t /\ twf2 (fst rd) t /\ forall e, In e (t_entries t) -> e_seq e <= t_endseq t) /\
  (forall k, chain (lvk (S k) (snd rd))).

Lemma pairsep_comp k (hs : list (kgrange * ckdoc)) :
  pairdisj (map fst hs) -> (forall rd, In rd hs -> docwf rd) -> pairsep (flat_map (fun rd => lvk (S k) (snd rd)) hs).
Proof.
  induction hs as [|rd hs IH]; intros Hd Hw; [exact I|]. cbn [flat_map map pairdisj] in *. destruct Hd as [Hd1 Hd2].
  apply pairsep_app.
  - apply chain_pairsep. apply (Hw rd (or_introl eq_refl)).
  - apply IH; [exact Hd2|intros x Hx; apply Hw; right; exact Hx].
  - intros x y Hx Hy. apply in_flat_map in Hy as (rd' & Hrd' & Hy).
    apply (clean_sep2 (fst rd) (fst rd')).
    + apply Hd1. apply in_map. exact Hrd'.
    + apply (Hw rd (or_introl eq_refl)). eapply lvk_tables; exact Hx.
    + apply (Hw rd' (or_intror Hrd')). eapply lvk_tables; exact Hy.
Qed.

Lemma composite_levels_ok (hs : list (kgrange * ckdoc)) d rest c :
  map snd hs = d :: rest -> merge_into d rest = Some c ->
  pairdisj (map fst hs) -> (forall rd, In rd hs -> docwf rd) ->
  levels_ok (level_list true (d_levels c)).
Proof.
  intros E Hm Hd Hw.
  assert (Hall : forall t, In t (tables_of c) -> tcover t /\ startle t).
  { intros t Ht. destruct (merge_into_spec _ _ _ Hm) as [Hp _]. apply (Permutation_in _ Hp) in Ht.
    change (tables_of d ++ flat_map tables_of rest) with (flat_map tables_of (d :: rest)) in Ht. rewrite <- E in Ht.
    apply in_flat_map in Ht as (d' & Hd' & Ht). apply in_map_iff in Hd' as (rd & <- & Hrd).
    destruct (Hw rd Hrd) as (_ & H & _). destruct (H t Ht) as (A & B & _). split; assumption. }
  assert (Hlv : forall k, lvk k c = flat_map (fun rd => lvk k (snd rd)) hs).
  { intros k. rewrite (merge_into_level _ _ _ k Hm). change (lvk k d ++ flat_map (lvk k) rest) with (flat_map (lvk k) (d :: rest)).
    rewrite <- E. clear. induction hs as [|x l IH]; [reflexivity|]. cbn [map flat_map]. rewrite IH. reflexivity. }
  unfold levels_ok. destruct (d_levels c) as [|l0 deeper] eqn:El; cbn [level_list hd tl].
  - split; constructor.
  - split.
    + apply Forall_forall. intros t Ht. apply Hall. unfold tables_of. rewrite El. cbn [concat]. apply in_or_app. left. exact Ht.
    + apply Forall_forall. intros lv Hlv'. apply in_map_iff in Hlv' as (lv0 & <- & Hlv0).
      apply In_nth with (d := []) in Hlv0 as (k & Hk & Enth).
      assert (Elv : lv0 = lvk (S k) c) by (unfold lvk; rewrite El; cbn [nth]; symmetry; exact Enth).
      assert (Hin : forall t, In t lv0 -> In t (tables_of c)) by (intros t Ht; rewrite Elv in Ht; eapply lvk_tables; exact Ht).
      split; [|split].
      * apply Forall_forall. intros t Ht. apply (proj1 (sort_level_in _ _)) in Ht. apply Hall. apply Hin. exact Ht.
      * apply Forall_forall. intros t Ht. apply (proj1 (sort_level_in _ _)) in Ht. apply Hall. apply Hin. exact Ht.
      * apply sort_level_chain.
        -- apply Forall_forall. intros t Ht. apply Hall. apply Hin. exact Ht.
        -- rewrite Elv, Hlv. apply pairsep_comp; assumption.
Qed.

(* ---------- the theorem, from documents ---------- *)
Lemma restore_levels sorted own d rest st : restore sorted own (d :: rest) = Some st ->
  exists c, merge_into d rest = Some c /\ s_levels st = level_list sorted (d_levels c).
Proof.
  unfold restore. destruct (merge_into d rest) as [c|]; [|discriminate]. intros H. exists c. split; [reflexivity|].
  destruct (replay_spec _ _ _ _ H) as (Hl & _). exact Hl.
Qed.

(* uniqueness of versions in the old owner's tables comes from c07c18's layout invariant *)
Definition trl (d : ckdoc) : L.levels := map (map (fun t => map tr (t_entries t))) (d_levels d).
Lemma uniq_from_LLInv d : LLInv (trl d) -> uniq (Sof (flat_map t_entries (tables_of d))).
Proof.
  intros Hv. eapply uniq_sub; [|apply (LLInv_uniq _ Hv)]. intros x (e & He & ->).
  apply in_flat_map in He as (t & Ht & He). unfold tables_of in Ht. apply in_concat in Ht as (l & Hl & Ht).
  exists (map (fun t => map tr (t_entries t)) l), (map tr (t_entries t)). split; [|split].
  - unfold trl. apply in_map. exact Hl.
  - apply in_map with (f := fun t => map tr (t_entries t)). exact Ht.
  - apply in_map. exact He.
Qed.

Section CleanThm.
  Hypothesis select_complete : forall lvl p t e,
    level_ok lvl -> In t lvl -> In e (t_entries t) -> is_prefix p (e_key e) = true -> In t (select_level lvl p).

  Theorem rescale_exact_clean_handles : forall (hs : list (kgrange * ckdoc)) own rj dj p st stj,
    In (rj, dj) hs -> pairdisj (map fst hs) -> (forall rd, In rd hs -> docwf rd) ->
    LLInv (trl dj) ->
    (forall k, is_prefix p k = true -> key_in rj k = true /\ key_in own k = true) ->
    restore true own (map snd hs) = Some st -> restore true rj [dj] = Some stj ->
    scan_prefix st p = scan_prefix stj p.
  Proof.
    intros hs own rj dj p st stj Hin Hd Hw Hll Hp Hst Hstj.
    assert (Hcons : exists d rest, map snd hs = d :: rest) by (destruct hs as [|a l]; [destruct Hin|eexists _, _; reflexivity]).
    destruct Hcons as (d & rest & E). pose proof Hst as Hst'. rewrite E in Hst'.
    destruct (restore_levels _ _ _ _ _ Hst') as (c & Hm & Hl).
    destruct (restore_levels _ _ _ _ _ Hstj) as (cj & Hmj & Hlj).
    apply (rescale_exact_clean_restore select_complete hs own rj dj p st stj Hin Hd); try assumption.
    - intros rd Hrd. apply (Hw rd Hrd).
    - rewrite Hl. eapply composite_levels_ok; eauto.
    - rewrite Hlj. apply (composite_levels_ok [(rj, dj)] dj [] cj); [reflexivity|exact Hmj|cbn; split; [intros ? []|exact I]|].
      intros rd [<-|[]]. apply Hw. exact Hin.
    - apply uniq_from_LLInv. exact Hll.
    - intros rd t e Hrd Ht He. destruct (Hw rd Hrd) as (_ & H & _). destruct (H t Ht) as (_ & _ & _ & H4). exact (H4 e He).
  Qed.

  (* picking strictly increasing positions of a list with pairwise disjoint ranges *)
  Lemma pairdisj_nth (l : list (kgrange * ckdoc)) : forall i j x y, pairdisj (map fst l) -> (i < j)%nat ->
    nth_error l i = Some x -> nth_error l j = Some y -> rdisj (fst x) (fst y).
  Proof.
    induction l as [|a l IH]; intros i j x y Hd Hij Hi Hj; [destruct i; discriminate|]. cbn [map pairdisj] in Hd. destruct Hd as [H1 H2].
    destruct i as [|i], j as [|j]; try lia; cbn [nth_error] in *.
    - inversion Hi; subst. apply H1. apply in_map. eapply nth_error_In; exact Hj.
    - apply (IH i j); auto. lia.
  Qed.

  Lemma pick_spec {A} (l : list A) : forall idxs hs, pick l idxs = Some hs ->
    Forall2 (fun i x => nth_error l (N.to_nat i) = Some x) idxs hs.
  Proof.
    induction idxs as [|i idxs IH]; intros hs H; cbn [pick] in H.
    - inversion H. constructor.
    - destruct (nth_error l (N.to_nat i)) as [x|] eqn:E; [|discriminate]. destruct (pick l idxs) as [r|]; [|discriminate].
      inversion H; subst. constructor; [exact E|apply IH; reflexivity].
  Qed.

  Lemma pick_pairdisj (l : list (kgrange * ckdoc)) idxs hs : pairdisj (map fst l) -> StronglySorted N.lt idxs ->
    pick l idxs = Some hs -> pairdisj (map fst hs).
  Proof.
    intros Hd Hs Hp. apply pick_spec in Hp. revert Hs. induction Hp as [|i x idxs hs Hi Hr IH]; intros Hs; [exact I|].
    inversion Hs as [|? ? Hs' Hf]; subst. cbn [map pairdisj]. split; [|apply IH; exact Hs'].
    intros r' Hr'. apply in_map_iff in Hr' as (y & <- & Hy). rewrite Forall_forall in Hf.
    assert (Hj : exists j, In j idxs /\ nth_error l (N.to_nat j) = Some y).
    { clear -Hr Hy. induction Hr as [|j z idxs hs Hj Hr IH]; [destruct Hy|]. destruct Hy as [<-|Hy]; [exists j; split; [left; reflexivity|exact Hj]|].
      destruct (IH Hy) as (j' & A & B). exists j'. split; [right; exact A|exact B]. }
    destruct Hj as (j & Hjin & Hj). specialize (Hf j Hjin). apply (pairdisj_nth l (N.to_nat i) (N.to_nat j)); auto. lia.
  Qed.

  (* rescale_exact_clean: for EVERY key-group count, every M and N, every order of the recorded checkpoints (their
     ranges pairwise disjoint - any permutation of keyGroupRanges is), every new operator i and every prefix p all of
     whose keys belong to old operator j's range and to new operator i's range: what new operator i reads under p
     from the database it restores from its handles is exactly what old operator j's own restore of its checkpoint
     reads under p - state entries and timers alike (timers are entries under the prefix <key group> 01). *)
  Theorem rescale_exact_clean_lemma : forall count n recorded i j rj dj p st stj,
    pairdisj (map fst recorded) -> (forall rd, In rd recorded -> docwf rd) ->
    (i < N.to_nat n)%nat -> nth_error recorded j = Some (rj, dj) -> LLInv (trl dj) ->
    (forall k, is_prefix p k = true -> key_in rj k = true /\ key_in (nth i (kg_ranges count n) (0, 0)) k = true) ->
    restore_new true count n recorded i = Some st -> restore true rj [dj] = Some stj ->
    scan_prefix st p = scan_prefix stj p.
  Proof.
    intros count n recorded i j rj dj p st stj Hd Hw Hi Hj Hll Hp Hst Hstj.
    unfold restore_new in Hst. set (to := kg_ranges count n) in *. pose (from := map fst recorded). fold from in Hst.
    destruct (pick recorded (nth i (assign_ranges to from) [])) as [hs|] eqn:Epick; [|discriminate].
    assert (Hlen : length to = N.to_nat n) by apply kg_ranges_length.
    destruct (assign_exact_gen to from) as (_ & Hex). destruct (Hex i ltac:(lia)) as (Hspec & Hsorted & _).
    (* old operator j is among the handles *)
    assert (Hov : overlaps (nth i to dflt) rj = true).
    { destruct (Hp p (is_prefix_refl p)) as [A B]. destruct (key_in_kg _ _ A) as (g & Eg & Ig). destruct (key_in_kg _ _ B) as (g' & Eg' & Ig').
      assert (g' = g) by congruence. subst g'. apply (includes_overlaps _ _ g); assumption. }
    assert (Hjlen : (j < length recorded)%nat) by (apply nth_error_Some; congruence).
    assert (Hjin : In (N.of_nat j) (nth i (assign_ranges to from) [])).
    { apply Hspec. subst from. rewrite Nat2N.id. pose proof (List.map_length fst recorded) as Hml. split; [lia|].
      rewrite (nth_error_nth (map fst recorded) j dflt (map_nth_error fst j recorded Hj)). exact Hov. }
    assert (Hin : In (rj, dj) hs).
    { pose proof (pick_spec _ _ _ Epick) as HF. clear -HF Hjin Hj. induction HF as [|k x idxs hs Hk HF IH]; [destruct Hjin|].
      destruct Hjin as [->|Hjin]; [left; rewrite Nat2N.id in Hk; congruence|right; apply IH; exact Hjin]. }
    apply (rescale_exact_clean_handles hs (nth i to (0, 0)) rj dj p st stj Hin); try assumption.
    - eapply pick_pairdisj; eauto.
    - intros rd Hrd. apply Hw. pose proof (pick_spec _ _ _ Epick) as HF. clear -HF Hrd.
      induction HF as [|k x idxs hs Hk HF IH]; [destruct Hrd|]. destruct Hrd as [<-|Hrd]; [eapply nth_error_In; exact Hk|apply IH; exact Hrd].
  Qed.
End CleanThm.
