(* C10: one KeyGroupPriorityQueue of the current code (quirks_now) over the DKV specification.
   Invariant PInv: the cache is a prefix of the group's sorted DB content, and all of it when allDataInCache is set;
   size_ok: byteSize is exactly the number of cached bytes. *)
From RV Require Import Base.Bytes Model.TimerStore Proofs.C10_Sorted.
From Coq Require Import ZifyN ZifyNat ZifyBool.
Open Scope N_scope.

Notation Q := quirks_now.

Definition sum_len (l : list bytes) : N := fold_right (fun b acc => blen b + acc) 0 l.
Arguments sum_len : simpl never.
Definition items (p : kgq) : list bytes := c_items (k_cache p).
Definition content (p : kgq) (d : db) : list bytes := db_scan (k_prefix p) d.

Definition csize_ok (c : cache) : Prop := c_size c = sum_len (c_items c).
Definition size_ok (p : kgq) : Prop := csize_ok (k_cache p).
Definition PInv (d : db) (p : kgq) : Prop :=
  exists r, content p d = items p ++ r /\ (k_all p = true -> r = []).
Definition Loaded (d : db) (p : kgq) : Prop := PInv d p /\ (items p = [] -> content p d = []).

Lemma sum_len_cons x l : sum_len (x :: l) = blen x + sum_len l.
Proof. reflexivity. Qed.
Lemma sum_len_nil : sum_len [] = 0.
Proof. reflexivity. Qed.

Lemma sum_len_app a b : sum_len (a ++ b) = sum_len a + sum_len b.
Proof.
  induction a as [|x a IH]; [reflexivity|]. rewrite <- app_comm_cons, !sum_len_cons, IH. lia.
Qed.

Lemma sum_len_sins_absent v l : ~ In v l -> sum_len (sins v l) = sum_len l + blen v.
Proof.
  induction l as [|y l IH]; cbn [sins]; intros Hn.
  - rewrite !sum_len_cons, sum_len_nil. lia.
  - destruct (bcmp v y) eqn:E.
    + apply bcmp_eq in E. subst. exfalso. apply Hn. left. reflexivity.
    + rewrite !sum_len_cons. lia.
    + rewrite !sum_len_cons, IH by (intros H; apply Hn; right; exact H). lia.
Qed.

Lemma sum_len_sdel v l : ssorted l -> In v l -> sum_len (sdel v l) + blen v = sum_len l.
Proof.
  induction l as [|y l IH]; intros Hs Hin; [contradiction|].
  destruct Hs as [Hy Hs]. cbn [sdel]. destruct (bcmp v y) eqn:E; rewrite ?sum_len_cons.
  - apply bcmp_eq in E. subst. lia.
  - exfalso. destruct Hin as [->|Hin].
    + rewrite bcmp_refl in E. discriminate.
    + rewrite Forall_forall in Hy. specialize (Hy _ Hin).
      pose proof (bcmp_lt_trans _ _ _ E Hy) as C. rewrite bcmp_refl in C. discriminate.
  - destruct Hin as [->|Hin]; [rewrite bcmp_refl in E; discriminate|].
    specialize (IH Hs Hin). lia.
Qed.

Lemma last_In (l : list bytes) : l <> [] -> In (last l []) l.
Proof.
  induction l as [|y l IH]; intros H; [congruence|].
  destruct l as [|z l]; [left; reflexivity|]. right. apply IH. discriminate.
Qed.

Lemma last_max l x : ssorted l -> In x l -> x = last l [] \/ slt x (last l []).
Proof.
  induction l as [|y l IH]; intros Hs Hin; [contradiction|].
  destruct Hs as [Hy Hs]. destruct l as [|z l].
  - destruct Hin as [->|[]]. left. reflexivity.
  - change (last (y :: z :: l) []) with (last (z :: l) []).
    destruct Hin as [->|Hin].
    + right. rewrite Forall_forall in Hy. apply Hy. apply last_In. discriminate.
    + apply IH; auto.
Qed.

(* ---------- cache pushes ---------- *)
Lemma c_push_items v c : c_items (c_push Q v c) = sins v (c_items c).
Proof. reflexivity. Qed.

Lemma c_push_size_ok v c : ssorted (c_items c) -> csize_ok c -> csize_ok (c_push Q v c).
Proof.
  unfold csize_ok. intros Hs H. cbn. destruct (smem v (c_items c)) eqn:E; cbn.
  - apply smem_In in E; auto. rewrite sins_present by auto. exact H.
  - rewrite sum_len_sins_absent. lia.
    intros Hin. apply smem_In in Hin; auto. congruence.
Qed.

Lemma c_pop_last_spec c : c_items c <> [] -> csize_ok c ->
  c_items c = c_items (c_pop_last c) ++ [last (c_items c) []] /\ csize_ok (c_pop_last c) /\ c_max (c_pop_last c) = c_max c.
Proof.
  unfold csize_ok, c_pop_last. intros Hne H. destruct (c_items c) as [|x l] eqn:E; [congruence|]. cbn [c_items c_size c_max].
  assert (Hd : x :: l = removelast (x :: l) ++ [last (x :: l) []]) by (apply app_removelast_last; discriminate).
  repeat split; auto.
  remember (removelast (x :: l)) as rl. remember (last (x :: l) []) as la.
  rewrite Hd, sum_len_app, sum_len_cons, sum_len_nil in H. lia.
Qed.

Lemma evict_spec fuel : forall c all c' all',
  csize_ok c -> evict fuel c all = (c', all') ->
  exists dropped, c_items c = c_items c' ++ dropped /\ (all' = true -> all = true /\ dropped = []) /\ csize_ok c' /\ c_max c' = c_max c.
Proof.
  induction fuel as [|f IH]; cbn; intros c all c' all' Hs E.
  - inversion E; subst. exists []. rewrite app_nil_r. auto.
  - destruct (c_full c && negb (c_empty c)) eqn:C.
    + apply andb_true_iff in C as [_ Cn]. assert (Hne : c_items c <> []).
      { unfold c_empty in Cn. destruct (c_items c); [discriminate|discriminate]. }
      destruct (c_pop_last_spec c Hne Hs) as (Hi & Hs' & Hm).
      destruct (IH _ _ _ _ Hs' E) as (dr & Hi' & Ha & Hs'' & Hm').
      exists (dr ++ [last (c_items c) []]). split; [|split; [|split]]; auto.
      * rewrite Hi at 1. rewrite Hi'. rewrite app_assoc. reflexivity.
      * intros Ht. destruct (Ha Ht) as [F _]. discriminate.
      * congruence.
    + inversion E; subst. exists []. rewrite app_nil_r. auto.
Qed.

(* ---------- loadFromDB (repaired) ---------- *)
Lemma load_new_spec es : forall c c' ex,
  ssorted (c_items c ++ es) -> csize_ok c -> load_new Q es c = (c', ex) ->
  exists taken rest, es = taken ++ rest /\ c_items c' = c_items c ++ taken /\ (ex = true -> rest = []) /\
                     csize_ok c' /\ c_max c' = c_max c /\ (c_items c = [] -> es <> [] -> taken <> []).
Proof.
  induction es as [|e r IH]; cbn; intros c c' ex Hs Hsz E.
  - inversion E; subst. exists [], []. rewrite ?app_nil_r. repeat split; auto.
  - destruct (c_full c && negb (c_empty c)) eqn:C.
    + inversion E; subst. exists [], (e :: r). rewrite ?app_nil_r. repeat split; auto; try discriminate.
      intros Hi _. apply andb_true_iff in C as [_ C]. unfold c_empty in C. rewrite Hi in C. discriminate.
    + destruct (ssorted_app_inv _ _ Hs) as (S1 & S2 & Cx).
      assert (Hlt : Forall (fun x => slt x e) (c_items c)).
      { apply Forall_forall. intros x Hx. apply Cx; cbn; auto. }
      assert (Hi : c_items (c_push Q e c) = c_items c ++ [e]) by (rewrite c_push_items; apply sins_last; exact Hlt).
      assert (Hs1 : ssorted (c_items (c_push Q e c) ++ r)).
      { rewrite Hi, <- app_assoc. exact Hs. }
      destruct (IH _ _ _ Hs1 (c_push_size_ok e c S1 Hsz) E) as (tk & rs & -> & Hi' & Hex & Hsz' & Hm & _).
      exists (e :: tk), rs. repeat split; auto.
      * rewrite Hi', Hi, <- app_assoc. reflexivity.
      * discriminate.
Qed.

Lemma content_sorted p d : ssorted d -> ssorted (content p d).
Proof. apply filter_sorted. Qed.

Lemma PInv_items_sorted d p : ssorted d -> PInv d p -> ssorted (items p).
Proof.
  intros Hd (r & Hc & _). pose proof (content_sorted p d Hd) as Hs. rewrite Hc in Hs.
  apply ssorted_app_inv in Hs. tauto.
Qed.

Lemma kq_load_spec d p :
  ssorted d -> PInv d p -> size_ok p ->
  Loaded d (kq_load Q d p) /\ size_ok (kq_load Q d p) /\ k_prefix (kq_load Q d p) = k_prefix p /\
  c_max (k_cache (kq_load Q d p)) = c_max (k_cache p).
Proof.
  intros Hd HP Hsz. unfold kq_load.
  destruct (negb (c_empty (k_cache p)) || k_all p) eqn:C.
  - repeat split; auto. intros Hi. destruct HP as (r & Hc & Ha).
    apply orb_true_iff in C as [C|C].
    + unfold c_empty, items in *. rewrite Hi in C. discriminate.
    + rewrite Hc, Hi, (Ha C). reflexivity.
  - apply orb_false_iff in C as [C1 C2]. apply negb_false_iff in C1.
    assert (Hi : items p = []). { unfold c_empty, items in *. destruct (c_items (k_cache p)); [reflexivity|discriminate]. }
    cbn [q_load_marks_all Q].
    destruct (load_new Q (db_scan (k_prefix p) d) (k_cache p)) as [c' ex] eqn:E.
    assert (Hs : ssorted (c_items (k_cache p) ++ db_scan (k_prefix p) d)).
    { unfold items in Hi. rewrite Hi. cbn. apply (content_sorted p d Hd). }
    destruct (load_new_spec _ _ _ _ Hs Hsz E) as (tk & rs & Hes & Hi' & Hex & Hsz' & Hm & Hne).
    unfold items in Hi. rewrite Hi in Hi'. cbn in Hi'.
    repeat split; cbn; auto.
    + exists rs. unfold content, items. cbn. rewrite Hi'. auto.
    + unfold items, content. cbn. rewrite Hi'. intros ->.
      destruct (db_scan (k_prefix p) d) eqn:Es; [reflexivity|].
      exfalso. apply (Hne Hi); [discriminate|reflexivity].
Qed.

Lemma peek_loaded d p : Loaded d p -> c_peek (k_cache p) = hd_error (content p d).
Proof.
  intros [(r & Hc & _) He]. unfold c_peek. fold (items p). destruct (items p) as [|x l] eqn:E.
  - rewrite He by reflexivity. reflexivity.
  - rewrite Hc. reflexivity.
Qed.

(* ---------- Delete ---------- *)
Lemma kq_delete_spec d p v p' d' :
  ssorted d -> PInv d p -> size_ok p -> is_prefix (k_prefix p) v = true ->
  kq_delete Q v d p = (p', d') ->
  d' = sdel v d /\ PInv d' p' /\ size_ok p' /\ k_prefix p' = k_prefix p /\ c_max (k_cache p') = c_max (k_cache p).
Proof.
  intros Hd HP Hsz Hpre E. unfold kq_delete in E.
  destruct (kq_load_spec d p Hd HP Hsz) as ([HP1 _] & Hsz1 & Hpf & Hmx).
  set (p1 := kq_load Q d p) in *. inversion E; subst p' d'. clear E.
  split; [reflexivity|].
  destruct HP1 as (r & Hc & Ha).
  pose proof (content_sorted p1 d Hd) as Hcs. rewrite Hc in Hcs.
  destruct (ssorted_app_inv _ _ Hcs) as (Si & Sr & _).
  assert (Hc' : db_scan (k_prefix p1) (db_delete v d) = sdel v (items p1 ++ r)).
  { unfold db_scan, db_delete. rewrite filter_sdel by auto. rewrite Hpf, Hpre. fold (db_scan (k_prefix p) d).
    rewrite <- Hpf. exact (f_equal (sdel v) Hc). }
  rewrite sdel_app in Hc' by auto.
  unfold PInv, size_ok, content, items, c_delete in *. cbn.
  destruct (smem v (c_items (k_cache p1))) eqn:Em; cbn.
  - repeat split; auto.
    + exists r. auto.
    + unfold csize_ok in *. cbn. apply smem_In in Em; auto.
      pose proof (sum_len_sdel v _ Si Em). lia.
  - repeat split; auto.
    exists (sdel v r). split; auto. intros Ht. rewrite (Ha Ht). reflexivity.
Qed.

(* ---------- Push (repaired) ---------- *)
Lemma kq_push_spec d p v p' d' :
  ssorted d -> PInv d p -> size_ok p -> is_prefix (k_prefix p) v = true ->
  kq_push Q v d p = (p', d') ->
  d' = sins v d /\ PInv d' p' /\ size_ok p' /\ k_prefix p' = k_prefix p /\ c_max (k_cache p') = c_max (k_cache p).
Proof.
  intros Hd HP Hsz Hpre E. unfold kq_push in E.
  destruct (kq_load_spec d p Hd HP Hsz) as ([HP1 He1] & Hsz1 & Hpf & Hmx).
  set (p1 := kq_load Q d p) in *.
  destruct HP1 as (r & Hc & Ha).
  pose proof (content_sorted p1 d Hd) as Hcs. rewrite Hc in Hcs.
  destruct (ssorted_app_inv _ _ Hcs) as (Si & Sr & Cx).
  assert (Hc' : forall q, k_prefix q = k_prefix p -> content q (db_put v d) = sins v (items p1 ++ r)).
  { intros q Hq. unfold content, db_scan, db_put. rewrite filter_sins by auto. rewrite Hq, Hpre.
    fold (db_scan (k_prefix p) d). rewrite <- Hpf. exact (f_equal (sins v) Hc). }
  cbn [q_push_beyond_max Q orb] in E.
  destruct (k_all p1 || within_cache v (k_cache p1)) eqn:C.
  - (* cached *)
    destruct (evict (S (length (c_items (c_push Q v (k_cache p1))))) (c_push Q v (k_cache p1)) (k_all p1)) as [c2 all2] eqn:Ev.
    inversion E; subst p' d'. clear E. split; [reflexivity|].
    assert (Hsz2 : csize_ok (c_push Q v (k_cache p1))) by (apply c_push_size_ok; auto).
    destruct (evict_spec _ _ _ _ _ Hsz2 Ev) as (dr & Hi2 & Ha2 & Hsz3 & Hm3).
    rewrite c_push_items in Hi2.
    assert (Hsplit : sins v (items p1 ++ r) = sins v (items p1) ++ r).
    { destruct (k_all p1) eqn:Eall.
      - rewrite (Ha eq_refl), !app_nil_r. reflexivity.
      - cbn in C. unfold within_cache in C. fold (items p1) in C. destruct (items p1) as [|x l] eqn:Ei; [discriminate|].
        rewrite <- Ei in *. eapply sins_app_left with (x := last (items p1) []); eauto.
        + apply last_In. rewrite Ei. discriminate.
        + unfold bleb in C. destruct (bcmp v (last (items p1) [])); congruence. }
    repeat split; cbn; auto.
    + exists (dr ++ r). split.
      * rewrite (Hc' {| k_cache := c2; k_all := all2; k_prefix := k_prefix p1 |} Hpf), Hsplit.
        unfold items in *. cbn. rewrite Hi2, <- app_assoc. reflexivity.
      * intros Ht. destruct (Ha2 Ht) as [Ht1 ->]. rewrite (Ha Ht1). reflexivity.
    + cbn in Hm3. congruence.
  - (* only to the DB *)
    inversion E; subst p' d'. clear E. split; [reflexivity|].
    apply orb_false_iff in C as [Call Cw].
    repeat split; auto.
    unfold PInv. rewrite Call. rewrite (Hc' p1 Hpf).
    unfold within_cache in Cw. fold (items p1) in Cw. destruct (items p1) as [|x l] eqn:Ei.
    + (* nothing cached although loaded: the group was empty *)
      exists (sins v r). split; [reflexivity|discriminate].
    + rewrite <- Ei in *. exists (sins v r). split; [|discriminate].
      apply sins_app_right. apply Forall_forall. intros y Hy.
      assert (Hgt : slt (last (items p1) []) v).
      { apply bcmp_gt_lt. unfold bleb in Cw. destruct (bcmp v (last (items p1) [])); congruence. }
      destruct (last_max _ _ Si Hy) as [->|Hlt]; [exact Hgt|]. eapply slt_trans; eauto.
Qed.

(* ---------- operations on another group leave a partition alone ---------- *)
Lemma PInv_frame_put d p v : ssorted d -> is_prefix (k_prefix p) v = false -> PInv d p -> PInv (db_put v d) p.
Proof.
  intros Hd Hn (r & Hc & Ha). exists r. split; auto.
  unfold content, db_scan, db_put. rewrite filter_sins by auto. rewrite Hn. exact Hc.
Qed.

Lemma PInv_frame_delete d p v : ssorted d -> is_prefix (k_prefix p) v = false -> PInv d p -> PInv (db_delete v d) p.
Proof.
  intros Hd Hn (r & Hc & Ha). exists r. split; auto.
  unfold content, db_scan, db_delete. rewrite filter_sdel by auto. rewrite Hn. exact Hc.
Qed.

Lemma PInv_new d kg mx : PInv d (kgq_new kg mx) /\ size_ok (kgq_new kg mx).
Proof. split; [|reflexivity]. exists (content (kgq_new kg mx) d). split; [reflexivity|discriminate]. Qed.
