(* Corollaries used by the statements of Props/C07.v and Props/C18.v. *)
From Coq Require Import List NArith Bool Lia.
From RV Require Import Base.Bytes Model.LsmBase Model.LsmCompaction Model.Lsm
  Proofs.C07_Sorted Proofs.C07_Spec Proofs.C18_Layout Proofs.C18_Apply Proofs.C18_Compact Proofs.C18_Main Proofs.C07_Refine.
Import ListNotations.
Open Scope N_scope.

Lemma run_abs cfg : cfg_ok cfg -> forall acts st st' os, DBInv st -> run cfg st acts = Some (st', os) ->
  absm st' = fold_left spec_step acts (absm st).
Proof.
  intros Hcfg. induction acts as [|a acts IH]; intros st st' os HI Hr; cbn [run] in Hr.
  - injection Hr as <- <-. reflexivity.
  - destruct (step cfg st a) as [[s1 o]|] eqn:Hs; [|discriminate].
    destruct (run cfg s1 acts) as [[s2 os']|] eqn:Hr'; [|discriminate]. injection Hr as <- <-.
    destruct (step_ok _ _ _ _ _ Hcfg HI Hs) as (H1 & H2 & _). cbn [fold_left]. rewrite <- H2. eapply IH; eauto.
Qed.

(* every reachable state: the layout seen by readers is valid, its live content is the specification map,
   and the level list alone is a valid layout in the sense of C18 *)
Theorem reachable_proof cfg acts st os :
  cfg_ok cfg -> run cfg (init cfg) acts = Some (st, os) ->
  LLInv (vll st) /\ absm st = fold_left spec_step acts [] /\ valid (lv st).
Proof.
  intros Hcfg Hr. pose proof (init_inv cfg Hcfg) as H0.
  destruct (run_refines cfg Hcfg acts _ _ _ H0 Hr) as [_ HI].
  pose proof (run_abs cfg Hcfg acts _ _ _ H0 Hr) as Ha. rewrite absm_init in Ha by exact Hcfg.
  unfold DBInv in HI. split; [exact (i_ll _ _ _ _ _ _ HI)|]. split; [exact Ha|].
  split; [apply (LLInv_real _ (mts st)); [exact (i_ll _ _ _ _ _ _ HI)|apply len_ne; exact (i_len _ _ _ _ _ _ HI)]|].
  split; [exact (i_len _ _ _ _ _ _ HI)|exact (i_real _ _ _ _ _ _ HI)].
Qed.

Lemma add_l0_length extra ll : length (add_l0 extra ll) = length ll.
Proof. destruct ll; reflexivity. Qed.

Theorem compact_preserves_proof tsize cfg mcl ll extra cs mcl' :
  good_cfg cfg -> valid (add_l0 extra ll) -> compact tsize cfg mcl ll = (Some cs, mcl') ->
  let ll1 := add_l0 extra ll in
  let ll2 := apply_cs cs ll1 in
  valid ll2 /\ (forall k, ll_get k ll2 = ll_get k ll1) /\ (forall p, ll_scan p ll2 = ll_scan p ll1) /\
  view ll2 = view ll1 /\ (forall e, ents ll2 e -> ents ll1 e).
Proof.
  intros Hcfg Hval Hc. assert (Hlen : (2 <= length ll)%nat) by (destruct Hval as (_ & H & _); rewrite add_l0_length in H; exact H).
  cbv zeta. split; [eapply step_valid; eauto|]. split; [intros k; eapply step_get; eauto|].
  split; [intros p; eapply step_scan; eauto|]. split; [eapply step_view; eauto|intros e; eapply step_no_new; eauto].
Qed.

Theorem reachable_valid_proof cfg acts st os :
  cfg_ok cfg -> run cfg (init cfg) acts = Some (st, os) -> valid (lv st).
Proof. intros H1 H2. exact (proj2 (proj2 (reachable_proof cfg acts st os H1 H2))). Qed.

(* one step of the compaction task, succeeding or failing (read error => nothing installed), nil or not, with level-0
   tables arriving meanwhile: the layout stays valid and no read changes *)
Theorem compact_step_preserves_proof tsize cfg mcl ll extra failed :
  good_cfg cfg -> valid (add_l0 extra ll) ->
  let ll1 := add_l0 extra ll in
  let ll2 := fst (compact_step tsize failed cfg mcl ll extra) in
  valid ll2 /\ (forall k, ll_get k ll2 = ll_get k ll1) /\ (forall p, ll_scan p ll2 = ll_scan p ll1) /\ view ll2 = view ll1.
Proof.
  intros Hcfg Hval. cbv zeta. unfold compact_step. destruct (compact tsize cfg mcl ll) as [[cs|] m] eqn:Hc; cbn [fst].
  - destruct failed; [auto|]. destruct (compact_preserves_proof tsize cfg mcl ll extra cs m Hcfg Hval Hc) as (H1 & H2 & H3 & H4 & _). auto.
  - auto.
Qed.

(* a failed step changes nothing at all *)
Theorem failed_step_unchanged_proof tsize cfg mcl ll extra :
  fst (compact_step tsize true cfg mcl ll extra) = add_l0 extra ll.
Proof. unfold compact_step. destruct (compact tsize cfg mcl ll) as [[cs|] m]; reflexivity. Qed.

(* ---------- table file numbers ---------- *)

Lemma tw_names_range k : forall c x, In x (tw_names c k) -> c <= x < c + N.of_nat k.
Proof.
  induction k as [|k IH]; intros c x H; [destruct H|]. cbn [tw_names] in H. destruct H as [<-|H]; [lia|].
  apply IH in H. lia.
Qed.
Lemma tw_names_nodup k : forall c, NoDup (tw_names c k).
Proof.
  induction k as [|k IH]; intros c; [constructor|]. cbn [tw_names]. constructor; [|apply IH].
  intros H. apply tw_names_range in H. lia.
Qed.

Lemma nodup_app {A} (a b : list A) : NoDup a -> NoDup b -> (forall x, In x a -> In x b -> False) -> NoDup (a ++ b).
Proof.
  induction a as [|x a IH]; intros Ha Hb H; [exact Hb|]. cbn. inversion Ha as [|? ? Hx Ha']; subst. constructor.
  - intros Hin. apply in_app_or in Hin as [Hin|Hin]; [contradiction|]. apply (H x); [left; reflexivity|exact Hin].
  - apply IH; auto. intros y Hy Hy'. apply (H y); [right; exact Hy|exact Hy'].
Qed.

Theorem table_names_unique_proof cfg acts : forall st ctr,
  NoDup (run_names cfg st ctr acts) /\ forall x, In x (run_names cfg st ctr acts) -> ctr <= x.
Proof.
  induction acts as [|a acts IH]; intros st ctr; cbn [run_names]; [split; [constructor|intros x []]|].
  destruct (step cfg st a) as [[st' o]|]; [|split; [constructor|intros x []]].
  destruct (IH st' (ctr + N.of_nat (writes_of cfg st a))) as [H1 H2]. split.
  - apply nodup_app; [apply tw_names_nodup|exact H1|].
    intros x Hx Hx'. apply tw_names_range in Hx. apply H2 in Hx'. lia.
  - intros x Hx. apply in_app_or in Hx as [Hx|Hx]; [apply tw_names_range in Hx; lia|apply H2 in Hx; lia].
Qed.
