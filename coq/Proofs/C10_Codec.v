(* C10: the timer key encoding <key group:2 BE><0x01><uint64(UnixNano):8 BE><subject key>: decoding inverts encoding and
   the byte order of keys of one group is the order of (timestamp, subject key) for timestamps in [0, 2^63). *)
From RV Require Import Base.Bytes Model.TimerStore Proofs.C10_Sorted.
From Coq Require Import ZifyN ZifyNat ZifyBool.
Open Scope N_scope.

(* ---------- big-endian numbers and the lexicographic order ---------- *)
Definition bstep (acc b : N) : N := acc * 256 + b.

Lemma be_decode_acc l : forall acc, fold_left bstep l acc = acc * 256 ^ N.of_nat (length l) + fold_left bstep l 0.
Proof.
  induction l as [|x l IH]; intros acc; cbn [fold_left length].
  - cbn. lia.
  - rewrite (IH (bstep acc x)), (IH (bstep 0 x)). unfold bstep.
    rewrite Nat2N.inj_succ, N.pow_succ_r'. lia.
Qed.

Lemma be_decode_cons x l : be_decode (x :: l) = x * 256 ^ N.of_nat (length l) + be_decode l.
Proof. unfold be_decode. cbn [fold_left]. change (fun acc b : N => acc * 256 + b) with bstep. rewrite be_decode_acc. unfold bstep. lia. Qed.

Lemma be_decode_bound l : wf_bytes l -> be_decode l < 256 ^ N.of_nat (length l).
Proof.
  induction l as [|x l IH]; intros H.
  - cbn. lia.
  - inversion H as [|? ? Hx Hl]; subst. specialize (IH Hl). rewrite be_decode_cons.
    cbn [length]. rewrite Nat2N.inj_succ, N.pow_succ_r'.
    assert (x * 256 ^ N.of_nat (length l) <= 255 * 256 ^ N.of_nat (length l)) by (apply N.mul_le_mono_r; lia).
    lia.
Qed.

Lemma bcmp_be_decode a : forall b, length a = length b -> wf_bytes a -> wf_bytes b -> bcmp a b = (be_decode a ?= be_decode b).
Proof.
  induction a as [|x a IH]; intros [|y b] Hl Ha Hb; try discriminate.
  - reflexivity.
  - inversion Ha as [|? ? Hx Ha']; inversion Hb as [|? ? Hy Hb']; subst.
    injection Hl as Hl. cbn [bcmp]. rewrite !be_decode_cons, <- Hl.
    pose proof (be_decode_bound a Ha') as Ba. pose proof (be_decode_bound b Hb') as Bb. rewrite <- Hl in Bb.
    remember (256 ^ N.of_nat (length a)) as P eqn:HP. clear HP.
    remember (be_decode a) as da eqn:Hda. remember (be_decode b) as db eqn:Hdb.
    destruct (x ?= y) eqn:E.
    + apply N.compare_eq in E. subst y. rewrite (IH b Hl Ha' Hb'), <- Hdb.
      destruct (da ?= db) eqn:E2; symmetry.
      * apply N.compare_eq in E2. apply N.compare_eq_iff. congruence.
      * rewrite N.compare_lt_iff in E2. apply N.compare_lt_iff. apply N.add_lt_mono_l. exact E2.
      * rewrite N.compare_gt_iff in E2. apply N.compare_gt_iff. apply N.add_lt_mono_l. exact E2.
    + rewrite N.compare_lt_iff in E. symmetry. apply N.compare_lt_iff.
      assert (H : x + 1 <= y) by lia.
      apply (N.mul_le_mono_r _ _ P) in H. rewrite N.mul_add_distr_r, N.mul_1_l in H.
      remember (x * P) as xp. remember (y * P) as yp. clear - H Ba Bb. lia.
    + rewrite N.compare_gt_iff in E. symmetry. apply N.compare_gt_iff.
      assert (H : y + 1 <= x) by lia.
      apply (N.mul_le_mono_r _ _ P) in H. rewrite N.mul_add_distr_r, N.mul_1_l in H.
      remember (x * P) as xp. remember (y * P) as yp. clear - H Ba Bb. lia.
Qed.

Lemma be64_length x : length (be64 x) = 8%nat.
Proof. reflexivity. Qed.

Lemma be64_wf x : wf_bytes (be64 x).
Proof. unfold be64. repeat constructor; apply N.mod_lt; discriminate. Qed.

Lemma be16_wf x : wf_bytes (be16 x).
Proof. unfold be16. repeat constructor; apply N.mod_lt; discriminate. Qed.

Section Div.
Ltac Zify.zify_post_hook ::= Z.div_mod_to_equations.
Lemma be64_decode x : x < 2 ^ 64 -> be_decode (be64 x) = x.
Proof.
  intros H. unfold be_decode, be64. cbn [fold_left].
  rewrite !N.shiftr_div_pow2.
  change (2 ^ 56) with 72057594037927936. change (2 ^ 48) with 281474976710656. change (2 ^ 40) with 1099511627776.
  change (2 ^ 32) with 4294967296. change (2 ^ 24) with 16777216. change (2 ^ 16) with 65536. change (2 ^ 8) with 256.
  change (2 ^ 64) with 18446744073709551616 in H.
  lia.
Qed.
End Div.

Lemma bcmp_be64 x y : x < 2 ^ 64 -> y < 2 ^ 64 -> bcmp (be64 x) (be64 y) = (x ?= y).
Proof.
  intros Hx Hy. rewrite bcmp_be_decode by (auto using be64_wf). rewrite !be64_decode by assumption. reflexivity.
Qed.

(* ---------- bcmp and concatenation ---------- *)
Lemma bcmp_app_same p a b : bcmp (p ++ a) (p ++ b) = bcmp a b.
Proof. induction p as [|x p IH]; cbn; [reflexivity|]. rewrite N.compare_refl. exact IH. Qed.

Lemma bcmp_app_len a1 b1 : forall a2 b2, length a1 = length b1 ->
  bcmp (a1 ++ a2) (b1 ++ b2) = match bcmp a1 b1 with Eq => bcmp a2 b2 | c => c end.
Proof.
  revert b1. induction a1 as [|x a1 IH]; intros [|y b1] a2 b2 Hl; try discriminate.
  - reflexivity.
  - injection Hl as Hl. cbn. destruct (x ?= y); auto.
Qed.

(* ---------- timer keys ---------- *)
Definition t_in (t : Z) : Prop := (0 <= t < 2 ^ 63)%Z.

Lemma time_u64_in t : t_in t -> time_u64 t = Z.to_N t /\ Z.to_N t < 2 ^ 63.
Proof.
  intros [H0 H1]. unfold time_u64. rewrite Z.mod_small by (split; [lia|]; change (2 ^ 64)%Z with (2 * 2 ^ 63)%Z; lia).
  split; [reflexivity|]. change (2 ^ 63) with (Z.to_N (2 ^ 63)). lia.
Qed.

Definition pfx (kg : N) : bytes := be16 kg ++ [1].

Lemma timer_key_shape kg t key : timer_key kg t key = pfx kg ++ be64 (time_u64 t) ++ key.
Proof. unfold timer_key, pfx. rewrite <- app_assoc. reflexivity. Qed.

Lemma timer_key_prefix kg t key : is_prefix (pfx kg) (timer_key kg t key) = true.
Proof. rewrite timer_key_shape. apply is_prefix_app. Qed.

Lemma key_ts_bytes_timer kg t key : key_ts_bytes (timer_key kg t key) = be64 (time_u64 t).
Proof. reflexivity. Qed.

Lemma key_subject_timer kg t key : key_subject (timer_key kg t key) = key.
Proof. reflexivity. Qed.

Lemma key_time_timer kg t key : t_in t -> key_time (timer_key kg t key) = t.
Proof.
  intros Ht. unfold key_time. rewrite key_ts_bytes_timer.
  destruct (time_u64_in t Ht) as [-> Hb].
  rewrite be64_decode by (change (2 ^ 64) with (2 * 2 ^ 63); lia).
  unfold u64_time. destruct (Z.to_N t <? 2 ^ 63) eqn:E; [|lia]. destruct Ht. lia.
Qed.

Lemma key_kg_timer kg t key : kg < 65536 -> key_kg (timer_key kg t key) = kg.
Proof. intros H. unfold key_kg. change (firstn 2 (timer_key kg t key)) with (be16 kg). apply be16_decode. exact H. Qed.

Lemma be16_inj a b : a < 65536 -> b < 65536 -> be16 a = be16 b -> a = b.
Proof. intros Ha Hb H. rewrite <- (be16_decode a Ha), <- (be16_decode b Hb), H. reflexivity. Qed.

Lemma is_prefix_other kg kg' t key : kg < 65536 -> kg' < 65536 -> kg <> kg' -> is_prefix (pfx kg) (timer_key kg' t key) = false.
Proof.
  intros H H' Hne. destruct (is_prefix (pfx kg) (timer_key kg' t key)) eqn:E; [|reflexivity].
  exfalso. apply Hne. apply be16_inj; auto.
  unfold pfx, timer_key, be16 in *. cbn [app is_prefix] in E.
  apply andb_true_iff in E as [E1%N.eqb_eq E]. apply andb_true_iff in E as [E2%N.eqb_eq _]. congruence.
Qed.

(* timestamps order the timestamp bytes *)
Lemma ts_bytes_lt kg1 t1 key1 kg2 t2 key2 : t_in t1 -> t_in t2 ->
  bltb (key_ts_bytes (timer_key kg1 t1 key1)) (key_ts_bytes (timer_key kg2 t2 key2)) = (t1 <? t2)%Z.
Proof.
  intros H1 H2. rewrite !key_ts_bytes_timer. unfold bltb.
  destruct (time_u64_in t1 H1) as [-> B1]. destruct (time_u64_in t2 H2) as [-> B2].
  rewrite bcmp_be64 by (change (2 ^ 64) with (2 * 2 ^ 63); lia).
  destruct H1, H2. destruct (Z.to_N t1 ?= Z.to_N t2) eqn:E.
  - apply N.compare_eq in E. lia.
  - rewrite N.compare_lt_iff in E. lia.
  - rewrite N.compare_gt_iff in E. lia.
Qed.

(* inside one group the byte order refines the timestamp order *)
Lemma same_group_order kg t1 key1 t2 key2 : t_in t1 -> t_in t2 ->
  bcmp (timer_key kg t1 key1) (timer_key kg t2 key2) = Lt -> (t1 <= t2)%Z.
Proof.
  intros H1 H2. rewrite !timer_key_shape, bcmp_app_same, bcmp_app_len by reflexivity.
  destruct (time_u64_in t1 H1) as [-> B1]. destruct (time_u64_in t2 H2) as [-> B2].
  rewrite bcmp_be64 by (change (2 ^ 64) with (2 * 2 ^ 63); lia).
  destruct H1, H2. destruct (Z.to_N t1 ?= Z.to_N t2) eqn:E; intros C.
  - apply N.compare_eq in E. lia.
  - rewrite N.compare_lt_iff in E. lia.
  - discriminate.
Qed.

Lemma timer_key_inj kg t1 key1 t2 key2 : t_in t1 -> t_in t2 ->
  timer_key kg t1 key1 = timer_key kg t2 key2 -> t1 = t2 /\ key1 = key2.
Proof.
  intros H1 H2 E. split.
  - rewrite <- (key_time_timer kg t1 key1 H1), <- (key_time_timer kg t2 key2 H2), E. reflexivity.
  - rewrite <- (key_subject_timer kg t1 key1), <- (key_subject_timer kg t2 key2), E. reflexivity.
Qed.
