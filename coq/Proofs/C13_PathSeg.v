(* C13, byte level: idFromPathSegment inverts pathSegment for every 64-bit id, hence the repaired
   LoadCheckpoint (greatest decoded id) picks the maximum of ANY finite set of ids in ANY listing order;
   the names are not monotone in the id, and "first listed" is refuted. *)
From RV Require Import Base.Mach Base.Bytes Model.PathSeg.
From Coq Require Import ZifyN ZifyNat ZifyBool.
Open Scope N_scope.
Ltac Zify.zify_post_hook ::= Z.div_mod_to_equations.

Lemma unalpha_alpha_nat (n : nat) : (n < 64)%nat -> unalpha (alpha (N.of_nat n)) = Some (N.of_nat n).
Proof.
  intros Hn.
  do 64 (destruct n as [|n]; [reflexivity|]).
  exfalso. lia.
Qed.

Lemma unalpha_alpha s : s < 64 -> unalpha (alpha s) = Some s.
Proof.
  intros Hs. rewrite <- (N2Nat.id s). apply unalpha_alpha_nat. lia.
Qed.

Lemma sextet_bounds a b :
  a < 256 -> b < 256 ->
  a / 4 < 64 /\ (a mod 4) * 16 + b / 16 < 64 /\ (a mod 16) * 4 + b / 64 < 64 /\ a mod 64 < 64 /\ (a mod 16) * 4 < 64 /\ (a mod 4) * 16 < 64.
Proof. intros Ha Hb. repeat split; lia. Qed.

Lemma decode_encode8 b0 b1 b2 b3 b4 b5 b6 b7 :
  b0 < 256 -> b1 < 256 -> b2 < 256 -> b3 < 256 -> b4 < 256 -> b5 < 256 -> b6 < 256 -> b7 < 256 ->
  b64_decode (b64_encode [b0; b1; b2; b3; b4; b5; b6; b7]) = Some [b0; b1; b2; b3; b4; b5; b6; b7].
Proof.
  intros H0 H1 H2 H3 H4 H5 H6 H7.
  unfold b64_decode. cbn [b64_encode map_opt].
  destruct (sextet_bounds b0 b1 H0 H1) as (A1 & A2 & _ & _ & _ & _).
  destruct (sextet_bounds b1 b2 H1 H2) as (_ & _ & A3 & _ & _ & _).
  destruct (sextet_bounds b2 b2 H2 H2) as (_ & _ & _ & A4 & _ & _).
  destruct (sextet_bounds b3 b4 H3 H4) as (B1 & B2 & _ & _ & _ & _).
  destruct (sextet_bounds b4 b5 H4 H5) as (_ & _ & B3 & _ & _ & _).
  destruct (sextet_bounds b5 b5 H5 H5) as (_ & _ & _ & B4 & _ & _).
  destruct (sextet_bounds b6 b7 H6 H7) as (C1 & C2 & _ & _ & _ & _).
  destruct (sextet_bounds b7 b7 H7 H7) as (_ & _ & _ & _ & C3 & _).
  rewrite !unalpha_alpha by assumption.
  clear A1 A2 A3 A4 B1 B2 B3 B4 C1 C2 C3.
  cbn [sextets_bytes].
  f_equal.
  repeat (f_equal; [lia|]). f_equal. lia.
Qed.

Lemma be64_bytes x : exists b0 b1 b2 b3 b4 b5 b6 b7,
  be64 x = [b0; b1; b2; b3; b4; b5; b6; b7] /\
  b0 < 256 /\ b1 < 256 /\ b2 < 256 /\ b3 < 256 /\ b4 < 256 /\ b5 < 256 /\ b6 < 256 /\ b7 < 256.
Proof.
  unfold be64. do 8 eexists. split; [reflexivity|].
  repeat split; apply N.mod_lt; discriminate.
Qed.

Lemma be_decode_be64 x : x < 2 ^ 64 -> be_decode (be64 x) = x.
Proof.
  intros Hx. unfold be_decode, be64. cbn [fold_left].
  rewrite !N.shiftr_div_pow2.
  change (2 ^ 56) with 72057594037927936. change (2 ^ 48) with 281474976710656.
  change (2 ^ 40) with 1099511627776. change (2 ^ 32) with 4294967296.
  change (2 ^ 24) with 16777216. change (2 ^ 16) with 65536. change (2 ^ 8) with 256.
  change (2 ^ 64) with 18446744073709551616 in Hx.
  lia.
Qed.

Theorem seg_id_path_segment id : id <= max64 -> seg_id (path_segment id) = Some id.
Proof.
  intros Hid. unfold seg_id, path_segment.
  destruct (be64_bytes (max64 - id)) as (b0 & b1 & b2 & b3 & b4 & b5 & b6 & b7 & E & H0 & H1 & H2 & H3 & H4 & H5 & H6 & H7).
  assert (D : be_decode (be64 (max64 - id)) = max64 - id).
  { apply be_decode_be64. unfold max64 in *. change (2 ^ 64) with 18446744073709551616. lia. }
  rewrite E in *. rewrite decode_encode8 by assumption.
  cbn [length N.of_nat Pos.of_succ_nat Pos.succ N.eqb Pos.eqb].
  rewrite D. f_equal. unfold max64 in *. lia.
Qed.

Lemma decoded_id id : id <= max64 -> decoded id = id.
Proof. intros H. unfold decoded. rewrite seg_id_path_segment by exact H. reflexivity. Qed.

Definition ok64 (l : list N) : Prop := Forall (fun i => i <= max64) l.

Lemma load_scan_max l : forall bf, ok64 l -> bf <= max64 ->
  load_scan (Some (bf, bf)) l = Some (N.max bf (list_max l), N.max bf (list_max l)).
Proof.
  induction l as [|f l IH]; intros bf Hl Hbf; cbn [load_scan list_max fold_right].
  - rewrite N.max_l by lia. reflexivity.
  - inversion Hl as [|? ? Hf Hl']; subst.
    rewrite (decoded_id f Hf). fold (list_max l).
    destruct (bf <? f) eqn:E.
    + rewrite IH by assumption. f_equal; f_equal; lia.
    + rewrite IH by assumption. f_equal; f_equal; lia.
Qed.

(* the repaired choice, for every finite set of ids and EVERY order in which the files are listed *)
Theorem load_max_any_order listed :
  listed <> [] -> ok64 listed -> load_max listed = Some (list_max listed).
Proof.
  intros Hne Hok. destruct listed as [|f l]; [congruence|].
  inversion Hok as [|? ? Hf Hl]; subst.
  unfold load_max. cbn [load_scan]. rewrite (decoded_id f Hf).
  rewrite load_scan_max by assumption. reflexivity.
Qed.

Lemma list_max_insert x l : list_max (insert_by_name x l) = N.max x (list_max l).
Proof.
  induction l as [|y l IH]; cbn [insert_by_name list_max fold_right]; [reflexivity|].
  destruct (bltb (snap_name y) (snap_name x)); cbn [list_max fold_right]; fold (list_max l).
  - fold (list_max (insert_by_name x l)). rewrite IH. lia.
  - reflexivity.
Qed.

Lemma ok64_insert x l : x <= max64 -> ok64 l -> ok64 (insert_by_name x l).
Proof.
  intros Hx Hl. induction Hl as [|y l Hy Hl IH]; cbn [insert_by_name].
  - constructor; [exact Hx|constructor].
  - destruct (bltb (snap_name y) (snap_name x)); repeat constructor; assumption.
Qed.

Lemma insert_not_nil x l : insert_by_name x l <> [].
Proof. destruct l as [|y l]; cbn [insert_by_name]; [discriminate|]. destruct (bltb _ _); discriminate. Qed.

Lemma listing_facts ids : ok64 ids -> ok64 (listing ids) /\ list_max (listing ids) = list_max ids /\ (ids <> [] -> listing ids <> []).
Proof.
  intros Hok. induction Hok as [|x l Hx Hl IH]; cbn [listing fold_right].
  - repeat split; [constructor|congruence].
  - destruct IH as (I1 & I2 & I3). fold (listing l). repeat split.
    + apply ok64_insert; assumption.
    + rewrite list_max_insert, I2. reflexivity.
    + intros _. apply insert_not_nil.
Qed.

Theorem load_picks_max_lemma ids : ids <> [] -> ok64 ids -> load false ids = Some (list_max ids).
Proof.
  intros Hne Hok. unfold load. destruct (listing_facts ids Hok) as (I1 & I2 & I3).
  rewrite load_max_any_order by auto. rewrite I2. reflexivity.
Qed.

Lemma load_none_iff q : load q [] = None.
Proof. destruct q; reflexivity. Qed.

(* the defect (D16): names are not monotone in the id, so the first listed file is not the newest *)
Lemma names_not_monotone_lemma : exists a b, a < b /\ bltb (snap_name a) (snap_name b) = true.
Proof. exists 2, 3. split; [lia|vm_compute; reflexivity]. Qed.

Lemma load_first_refuted_lemma : exists ids, ids <> [] /\ ok64 ids /\ load true ids <> Some (list_max ids).
Proof.
  exists [2; 3]. split; [discriminate|]. split.
  - repeat constructor; vm_compute; discriminate.
  - vm_compute. discriminate.
Qed.

(* common prefix and suffix of the file names do not matter for the order *)
Lemma bcmp_app_prefix p a b : bcmp (p ++ a) (p ++ b) = bcmp a b.
Proof.
  induction p as [|x p IH]; [reflexivity|].
  cbn [app bcmp]. rewrite N.compare_refl. exact IH.
Qed.
