(* C01 -- proofs about the protocol model Sys: the delivery invariant over ALL schedules (crash actions included),
   and exactly-once from it.  Stdlib only.

   Invariant of a deployment generation (delivery_inv): for every key k and split s, the records of (s,k) already
   applied at the owner of k, followed by those still waiting in the channel (runner of s -> owner of k), are exactly
   the records of key k among the first `pos s` records of split s, in split order.  Nothing lost, nothing twice, order
   kept -- at every moment, whatever the interleaving of emits, barriers, deliveries, checkpoint starts and
   acknowledgements (in any order).
   A crash re-establishes the invariant iff the checkpoint it restarts from is exact (Sys.ckpt_exact: per key and
   split exactly the records before the recorded position): this is the single place where the component guarantees
   consistent_cut (C02), positions_match_cut (C16), checkpoint_exact / rescale_exact (C08/C06) and published_complete
   (C12) enter, and it is a Section hypothesis here (consistent_publication), NOT an axiom. *)
From Coq Require Import List NArith Bool Arith Lia.
From RV Require Import Model.Sys.
Import ListNotations.
Import Sys.

Section Proofs.
Variable splits : list (list rec).
Variable owner : nat -> N -> nat.

Notation splitl := (Sys.split splits).
Notation nspl := (Sys.nsplits splits).
Notation stepS := (Sys.step splits owner).
Notation runS := (Sys.run splits owner).
Notation restartS := (Sys.restart owner).

Definition keyb (k : N) (e : entry) : bool := N.eqb (rkey (snd e)) k.
Definition papp (st : state) (s : nat) (k : N) : list rec := proj s (applied_of owner st k).

(* ---------- list lemmas *)
Lemma firstn_S_nth : forall (A : Type) (l : list A) p x, nth_error l p = Some x -> firstn (S p) l = firstn p l ++ [x].
Proof.
  intros A l; induction l as [|a l IH]; intros p x Hn.
  - destruct p; discriminate.
  - destruct p as [|p]; cbn in *.
    + inversion Hn; reflexivity.
    + f_equal. apply IH; exact Hn.
Qed.

Lemma sub_app : forall k l1 l2, sub k (l1 ++ l2) = sub k l1 ++ sub k l2.
Proof. intros; unfold sub; apply filter_app. Qed.

Lemma proj_app : forall s l1 l2, proj s (l1 ++ l2) = proj s l1 ++ proj s l2.
Proof. intros; unfold proj; rewrite filter_app, map_app; reflexivity. Qed.

Lemma in_chan_app : forall s k q1 q2, in_chan s k (q1 ++ q2) = in_chan s k q1 ++ in_chan s k q2.
Proof. intros; unfold in_chan; apply flat_map_app. Qed.

Lemma filter_filter_imp : forall (A : Type) (f g : A -> bool) l,
  (forall x, f x = true -> g x = true) -> filter f (filter g l) = filter f l.
Proof.
  intros A f g l H; induction l as [|a l IH]; cbn; [reflexivity|].
  destruct (g a) eqn:Hg; cbn.
  - destruct (f a); rewrite IH; reflexivity.
  - destruct (f a) eqn:Hf; [rewrite (H a Hf) in Hg; discriminate | exact IH].
Qed.

(* the contribution of one applied entry / one channel item to (split s, key k) *)
Definition hit (s : nat) (k : N) (s0 : nat) (rc : rec) : list rec :=
  if Nat.eqb s0 s && N.eqb (rkey rc) k then [rc] else [].

Lemma papp_entry : forall s k l s0 rc,
  proj s (filter (fun e : entry => N.eqb (rkey (snd e)) k) (l ++ [(s0, rc)])) =
  proj s (filter (fun e : entry => N.eqb (rkey (snd e)) k) l) ++ hit s k s0 rc.
Proof.
  intros. rewrite filter_app, proj_app. f_equal.
  unfold hit, proj; cbn.
  destruct (N.eqb (rkey rc) k); cbn; [|rewrite andb_false_r; reflexivity].
  destruct (Nat.eqb s0 s); reflexivity.
Qed.

Lemma sub_hit : forall s k rc, sub k [rc] = hit s k s rc.
Proof. intros; unfold sub, hit; cbn. rewrite Nat.eqb_refl; cbn. destruct (N.eqb (rkey rc) k); reflexivity. Qed.

(* ---------- invariants *)
Definition delivery_inv (st : state) : Prop :=
  forall s k, s < nspl ->
    papp st s k ++ in_chan s k (chan st (runner_of (n st) s) (owner (n st) k)) = sub k (firstn (pos st s) (splitl s)).

Definition item_wf (m r o : nat) (it : item) : Prop :=
  match it with IRec s rc => runner_of m s = r /\ owner m (rkey rc) = o | IBar => True end.
Definition chan_wf (st : state) : Prop := forall r o, Forall (item_wf (n st) r o) (chan st r o).

Definition pub_ok (st : state) : Prop :=
  match pub st with Some c => ckpt_exact splits c | None => True end.

Definition Inv (st : state) : Prop := delivery_inv st /\ chan_wf st /\ pub_ok st.

(* ---------- the component guarantee the composition relies on (hypothesis, not axiom):
   whenever the last acknowledgement completes a checkpoint, what is published is exact.
   = consistent_cut (C02) + positions_match_cut (C16) + checkpoint_exact (C08) + published_complete (C12) for Sys. *)
Definition consistent_publication : Prop :=
  forall st i, Inv st -> pub_ok (stepS st (AAck i)).

Lemma init_inv : forall m, Inv (init m).
Proof.
  intros m; split; [|split].
  - intros s k _. unfold papp, applied_of; cbn. reflexivity.
  - intros r o; cbn; constructor.
  - exact I.
Qed.

Lemma restart_inv : forall m pb,
  (match pb with Some c => ckpt_exact splits c | None => True end) -> Inv (restartS m pb).
Proof.
  intros m pb Hpb. destruct pb as [c|]; (split; [|split]).
  - intros s k Hs. unfold papp, applied_of. cbn [Sys.restart Sys.fresh n pos chan olog].
    change (in_chan s k []) with (@nil rec). rewrite app_nil_r.
    rewrite (filter_filter_imp _ (fun e : entry => N.eqb (rkey (snd e)) k)).
    + apply Hpb; exact Hs.
    + intros e He. apply N.eqb_eq in He. rewrite He. apply Nat.eqb_refl.
  - intros r o; cbn; constructor.
  - cbn. exact Hpb.
  - intros s k _. unfold papp, applied_of; cbn. reflexivity.
  - intros r o; cbn; constructor.
  - exact I.
Qed.

Lemma upd_same : forall (A : Type) (f : nat -> A) i v, upd f i v i = v.
Proof. intros; unfold upd; rewrite Nat.eqb_refl; reflexivity. Qed.
Lemma upd_other : forall (A : Type) (f : nat -> A) i j v, j <> i -> upd f i v j = f j.
Proof. intros A f i j v H; unfold upd. destruct (Nat.eqb_spec j i); [contradiction|reflexivity]. Qed.
Lemma upd2_same : forall (A : Type) (f : nat -> nat -> A) i j v, upd2 f i j v i j = v.
Proof. intros; unfold upd2; rewrite !Nat.eqb_refl; reflexivity. Qed.
Lemma upd2_other : forall (A : Type) (f : nat -> nat -> A) i j a b v, ~ (a = i /\ b = j) -> upd2 f i j v a b = f a b.
Proof.
  intros A f i j a b v H; unfold upd2.
  destruct (Nat.eqb_spec a i); destruct (Nat.eqb_spec b j); cbn; try reflexivity. exfalso; apply H; split; assumption.
Qed.

(* ---------- one step preserves delivery_inv and chan_wf (pub handled separately) *)
Lemma step_emit : forall st s, delivery_inv st -> chan_wf st ->
  delivery_inv (stepS st (AEmit s)) /\ chan_wf (stepS st (AEmit s)).
Proof.
  intros st s Hd Hw. unfold Sys.step.
  destruct (Nat.ltb s nspl) eqn:Hlt; [|split; assumption].
  destruct (nth_error (splitl s) (pos st s)) as [rc|] eqn:Hn; [|split; assumption].
  split.
  - intros s' k Hs'. unfold papp, applied_of; cbn [n pos chan olog].
    specialize (Hd s' k Hs'). unfold papp, applied_of in Hd.
    destruct (Nat.eq_dec s' s) as [->|Hne].
    + rewrite upd_same. rewrite (firstn_S_nth _ _ _ _ Hn), sub_app, (sub_hit s), <- Hd.
      destruct (N.eqb_spec (rkey rc) k) as [Hk|Hk].
      * subst k. rewrite upd2_same, in_chan_app, app_assoc. f_equal.
        unfold in_chan, hit; cbn. rewrite Nat.eqb_refl, N.eqb_refl; reflexivity.
      * assert (Hh : hit s k s rc = []).
        { unfold hit. destruct (N.eqb_spec (rkey rc) k); [contradiction|]. rewrite andb_false_r; reflexivity. }
        rewrite Hh, app_nil_r.
        unfold upd2. rewrite Nat.eqb_refl. cbn [andb].
        destruct (Nat.eqb_spec (owner (n st) k) (owner (n st) (rkey rc))) as [Heq|Hneq]; [|reflexivity].
        rewrite <- Heq, in_chan_app.
        change (in_chan s k [IRec s rc]) with (hit s k s rc ++ []). rewrite Hh. cbn [app]. rewrite app_nil_r. reflexivity.
    + rewrite upd_other by exact Hne. rewrite <- Hd. f_equal.
      unfold upd2.
      destruct (Nat.eqb_spec (runner_of (n st) s') (runner_of (n st) s)) as [Her|Her]; [|reflexivity].
      destruct (Nat.eqb_spec (owner (n st) k) (owner (n st) (rkey rc))) as [Heo|Heo]; [|reflexivity].
      cbn [andb]. rewrite <- Her, <- Heo, in_chan_app.
      change (in_chan s' k [IRec s rc]) with (hit s' k s rc ++ []).
      assert (Hh : hit s' k s rc = []).
      { unfold hit. destruct (Nat.eqb_spec s s'); [exfalso; apply Hne; congruence|reflexivity]. }
      rewrite Hh, !app_nil_r. reflexivity.
  - intros r o; cbn [n chan]. unfold upd2.
    destruct (Nat.eqb_spec r (runner_of (n st) s)); destruct (Nat.eqb_spec o (owner (n st) (rkey rc))); cbn; try apply Hw.
    subst. apply Forall_app; split; [apply Hw|]. constructor; [|constructor]. cbn; split; reflexivity.
Qed.

Lemma step_barrier : forall st r, delivery_inv st -> chan_wf st ->
  delivery_inv (stepS st (ABarrier r)) /\ chan_wf (stepS st (ABarrier r)).
Proof.
  intros st r Hd Hw. unfold Sys.step.
  destruct (Nat.ltb r (n st) && Nat.ltb (bars st r) (started st)); [|split; assumption].
  split.
  - intros s k Hs. unfold papp, applied_of; cbn [n pos chan olog].
    rewrite <- (Hd s k Hs). unfold papp, applied_of. f_equal.
    destruct (Nat.eqb (runner_of (n st) s) r && Nat.ltb (owner (n st) k) (n st)); [|reflexivity].
    rewrite in_chan_app; cbn. rewrite app_nil_r; reflexivity.
  - intros a b; cbn [n chan].
    destruct (Nat.eqb a r && Nat.ltb b (n st)); [|apply Hw].
    apply Forall_app; split; [apply Hw|]. constructor; [exact I|constructor].
Qed.

Lemma chan_tail_wf : forall st r o it q (f : nat -> nat -> list item) m,
  chan_wf st -> chan st r o = it :: q -> m = n st ->
  (forall a b, f a b = upd2 (chan st) r o q a b) ->
  forall a b, Forall (item_wf m a b) (f a b).
Proof.
  intros st r o it q f m Hw Hc -> Hf a b. rewrite Hf. unfold upd2.
  destruct (Nat.eqb_spec a r); destruct (Nat.eqb_spec b o); cbn; try apply Hw.
  subst. specialize (Hw r o). rewrite Hc in Hw. inversion Hw; assumption.
Qed.

Lemma step_deliver : forall st r o, delivery_inv st -> chan_wf st ->
  delivery_inv (stepS st (ADeliver r o)) /\ chan_wf (stepS st (ADeliver r o)).
Proof.
  intros st r o Hd Hw. unfold Sys.step.
  destruct (Nat.ltb r (n st) && Nat.ltb o (n st)); [|split; assumption].
  destruct (chan st r o) as [|it q] eqn:Hc; [split; assumption|].
  destruct it as [s0 rc|].
  - (* a record *)
    destruct (memn r (got st o)); [split; assumption|].
    assert (Hit : runner_of (n st) s0 = r /\ owner (n st) (rkey rc) = o).
    { specialize (Hw r o). rewrite Hc in Hw. inversion Hw; subst. assumption. }
    destruct Hit as [Hr Ho].
    split.
    + intros s k Hs. unfold papp, applied_of; cbn [n pos chan olog].
      specialize (Hd s k Hs). unfold papp, applied_of in Hd. rewrite <- Hd.
      destruct (Nat.eq_dec (owner (n st) k) o) as [Heo|Heo].
      * rewrite Heo, upd_same. rewrite papp_entry.
        destruct (Nat.eq_dec (runner_of (n st) s) r) as [Her|Her].
        -- rewrite Her, upd2_same, Hc. rewrite <- app_assoc. reflexivity.
        -- rewrite upd2_other by (intros [? ?]; contradiction).
           assert (Hh : hit s k s0 rc = []).
           { unfold hit. destruct (Nat.eqb_spec s0 s); [subst; contradiction|reflexivity]. }
           rewrite Hh, app_nil_r. reflexivity.
      * rewrite upd_other by exact Heo. rewrite upd2_other by (intros [? ?]; contradiction). reflexivity.
    + intros a b; cbn [n chan].
      apply (chan_tail_wf st r o (IRec s0 rc) q _ (n st) Hw Hc eq_refl). intros; reflexivity.
  - (* a barrier *)
    destruct (memn r (got st o)); [split; assumption|].
    assert (Hd' : forall s k, s < nspl ->
      proj s (filter (fun e => N.eqb (rkey (snd e)) k) (olog st (owner (n st) k))) ++
      in_chan s k (upd2 (chan st) r o q (runner_of (n st) s) (owner (n st) k)) = sub k (firstn (pos st s) (splitl s))).
    { intros s k Hs. specialize (Hd s k Hs). unfold papp, applied_of in Hd. rewrite <- Hd. f_equal.
      unfold upd2. destruct (Nat.eqb_spec (runner_of (n st) s) r); destruct (Nat.eqb_spec (owner (n st) k) o); cbn; try reflexivity.
      subst. rewrite Hc. reflexivity. }
    destruct (all_in (n st) (r :: got st o)); (split;
      [ intros s k Hs; unfold papp, applied_of; cbn [n pos chan olog]; apply Hd'; exact Hs
      | intros a b; cbn [n chan]; apply (chan_tail_wf st r o IBar q _ (n st) Hw Hc eq_refl); intros; reflexivity ]).
Qed.

Lemma step_start : forall st, delivery_inv st -> chan_wf st ->
  delivery_inv (stepS st AStart) /\ chan_wf (stepS st AStart).
Proof. intros st Hd Hw. unfold Sys.step. destruct (pend st); split; assumption. Qed.

Lemma step_ack : forall st i, delivery_inv st -> chan_wf st ->
  delivery_inv (stepS st (AAck i)) /\ chan_wf (stepS st (AAck i)).
Proof.
  intros st i Hd Hw. unfold Sys.step.
  destruct (nth_error (inflight st) i) as [a|]; [|split; assumption].
  destruct (pend st) as [p|]; [|split; assumption].
  destruct (negb (Nat.eqb (ack_id a) (started st))); [split; assumption|].
  match goal with |- context [if ?c then _ else _] => destruct c end; split; assumption.
Qed.

Lemma pub_unchanged : forall st a, (forall i, a <> AAck i) -> (forall w m, a <> ACrash w m) -> pub (stepS st a) = pub st.
Proof.
  intros st a Hna Hnc. destruct a as [s|r|r o| |i|w m]; unfold Sys.step.
  - destruct (Nat.ltb s nspl); [|reflexivity]. destruct (nth_error (splitl s) (pos st s)); reflexivity.
  - destruct (Nat.ltb r (n st) && Nat.ltb (bars st r) (started st)); reflexivity.
  - destruct (Nat.ltb r (n st) && Nat.ltb o (n st)); [|reflexivity].
    destruct (chan st r o) as [|[s0 rc|] q]; [reflexivity| |];
      (destruct (memn r (got st o)); [reflexivity|]); [reflexivity|].
    destruct (all_in (n st) (r :: got st o)); reflexivity.
  - destruct (pend st); reflexivity.
  - exfalso; apply (Hna i); reflexivity.
  - exfalso; apply (Hnc w m); reflexivity.
Qed.

Section WithComponents.
Hypothesis Hpub : consistent_publication.

Lemma step_inv : forall st a, Inv st -> Inv (stepS st a).
Proof.
  intros st a [Hd [Hw Hp]].
  destruct a as [s|r|r o| |i|w m].
  - destruct (step_emit st s Hd Hw) as [H1 H2]. (split; [|split]); try assumption.
    unfold pub_ok. rewrite pub_unchanged by (intros; discriminate). exact Hp.
  - destruct (step_barrier st r Hd Hw) as [H1 H2]. (split; [|split]); try assumption.
    unfold pub_ok. rewrite pub_unchanged by (intros; discriminate). exact Hp.
  - destruct (step_deliver st r o Hd Hw) as [H1 H2]. (split; [|split]); try assumption.
    unfold pub_ok. rewrite pub_unchanged by (intros; discriminate). exact Hp.
  - destruct (step_start st Hd Hw) as [H1 H2]. (split; [|split]); try assumption.
    unfold pub_ok. rewrite pub_unchanged by (intros; discriminate). exact Hp.
  - destruct (step_ack st i Hd Hw) as [H1 H2]. (split; [|split]); try assumption.
    apply Hpub. split; [|split]; assumption.
  - unfold Sys.step. destruct (Nat.ltb 0 m); [|split; [|split]; assumption].
    apply restart_inv. exact Hp.
Qed.

Lemma run_inv : forall sched st, Inv st -> Inv (runS st sched).
Proof.
  induction sched as [|a sched IH]; intros st H; cbn; [exact H|].
  apply IH. apply step_inv; exact H.
Qed.

(* at every moment of every schedule: what a key's state holds of a split is a prefix of that split's records of
   the key (the state handed to the next invocation is the fold of an applied prefix) *)
Theorem given_state_is_applied_prefix : forall m sched s k, s < nspl ->
  let st := runS (init m) sched in
  exists rest, papp st s k ++ rest = sub k (firstn (pos st s) (splitl s)).
Proof.
  intros m sched s k Hs st.
  destruct (run_inv sched (init m) (init_inv m)) as [Hd _].
  eexists. apply Hd. exact Hs.
Qed.

(* exactly-once: when all input is consumed, per key and split the state holds exactly the split's records of that
   key, each once, in split order -- for every schedule, crash actions at any point included *)
Theorem exactly_once_from_components : forall m sched s k, s < nspl ->
  let st := runS (init m) sched in
  drained splits st -> papp st s k = sub k (splitl s).
Proof.
  intros m sched s k Hs st [Hpos Hch].
  destruct (run_inv sched (init m) (init_inv m)) as [Hd _].
  specialize (Hd s k Hs). fold st in Hd. rewrite Hch in Hd. cbn in Hd. rewrite app_nil_r in Hd.
  rewrite Hd, (Hpos s Hs), firstn_all. reflexivity.
Qed.
End WithComponents.

(* ---------- without any hypothesis: schedules in which no checkpoint is ever completed by an acknowledgement that
   publishes (in particular failure-free runs, and crashes before the first publication) *)
Definition no_ack (a : action) : Prop := forall i, a <> AAck i.

Lemma step_inv_no_ack : forall st a, no_ack a -> Inv st -> Inv (stepS st a).
Proof.
  intros st a Hna [Hd [Hw Hp]].
  destruct a as [s|r|r o| |i|w m].
  - destruct (step_emit st s Hd Hw) as [H1 H2]. (split; [|split]); try assumption.
    unfold pub_ok. rewrite pub_unchanged by (intros; discriminate). exact Hp.
  - destruct (step_barrier st r Hd Hw) as [H1 H2]. (split; [|split]); try assumption.
    unfold pub_ok. rewrite pub_unchanged by (intros; discriminate). exact Hp.
  - destruct (step_deliver st r o Hd Hw) as [H1 H2]. (split; [|split]); try assumption.
    unfold pub_ok. rewrite pub_unchanged by (intros; discriminate). exact Hp.
  - destruct (step_start st Hd Hw) as [H1 H2]. (split; [|split]); try assumption.
    unfold pub_ok. rewrite pub_unchanged by (intros; discriminate). exact Hp.
  - exfalso; apply (Hna i); reflexivity.
  - unfold Sys.step. destruct (Nat.ltb 0 m); [|split; [|split]; assumption].
    apply restart_inv. exact Hp.
Qed.

Lemma run_inv_no_ack : forall sched, Forall no_ack sched -> forall st, Inv st -> Inv (runS st sched).
Proof.
  induction sched as [|a sched IH]; intros Hna st H; cbn; [exact H|].
  inversion Hna as [|? ? Ha Hrest]; subst.
  apply IH; [exact Hrest|]. apply step_inv_no_ack; assumption.
Qed.

Theorem exactly_once_before_first_publication : forall m sched s k, s < nspl ->
  Forall no_ack sched ->
  let st := runS (init m) sched in
  drained splits st -> papp st s k = sub k (splitl s).
Proof.
  intros m sched s k Hs Hna st [Hpos Hch].
  destruct (run_inv_no_ack sched Hna (init m) (init_inv m)) as [Hd _].
  specialize (Hd s k Hs). fold st in Hd. rewrite Hch in Hd. cbn in Hd. rewrite app_nil_r in Hd.
  rewrite Hd, (Hpos s Hs), firstn_all. reflexivity.
Qed.

End Proofs.
