(* C11, operator side: proofs about Model/UpstreamWm.v *)
From Coq Require Import ZArith NArith List Bool Lia.
From RV Require Import Model.Wmark Model.UpstreamWm.
Import ListNotations.
Open Scope Z_scope.

(* ---------- minimum of a list ---------- *)
Definition min_of (l : list Z) : option Z :=
  match l with [] => None | x :: r => Some (zmin_list x r) end.

Lemma zmin_list_le_d : forall l d, zmin_list d l <= d.
Proof.
  unfold zmin_list. induction l as [|x l IH]; intro d; cbn [fold_left]; [lia|].
  specialize (IH (Z.min d x)). lia.
Qed.

Lemma zmin_list_le_in : forall l d x, In x l -> zmin_list d l <= x.
Proof.
  unfold zmin_list. induction l as [|y l IH]; intros d x Hin; [contradiction|].
  cbn [fold_left]. destruct Hin as [->|Hin].
  - pose proof (zmin_list_le_d l (Z.min d x)) as H. unfold zmin_list in H. lia.
  - apply IH. exact Hin.
Qed.

Lemma zmin_list_in : forall l d, zmin_list d l = d \/ In (zmin_list d l) l.
Proof.
  unfold zmin_list. induction l as [|y l IH]; intro d; cbn [fold_left]; [left; reflexivity|].
  destruct (IH (Z.min d y)) as [He|Hin].
  - rewrite He. destruct (Z.min_spec d y) as [[_ Hm]|[_ Hm]]; rewrite Hm; [left; reflexivity|right; left; reflexivity].
  - right. right. exact Hin.
Qed.

Lemma min_of_char : forall l m, min_of l = Some m -> In m l /\ forall x, In x l -> m <= x.
Proof.
  intros [|x r] m H; [discriminate|]. cbn [min_of] in H. inversion H; subst. split.
  - destruct (zmin_list_in r x) as [He|Hi]; [left; symmetry; exact He|right; exact Hi].
  - intros y [<-|Hy]; [apply zmin_list_le_d|apply zmin_list_le_in; exact Hy].
Qed.

Lemma min_of_some : forall l, l <> [] -> exists m, min_of l = Some m.
Proof. intros [|x r] H; [contradiction|]. eexists. reflexivity. Qed.

Lemma min_of_ext : forall l1 l2, (forall v, In v l1 <-> In v l2) -> min_of l1 = min_of l2.
Proof.
  intros l1 l2 Hext.
  destruct l1 as [|x1 r1], l2 as [|x2 r2]; [reflexivity| | |].
  - exfalso. apply (proj2 (Hext x2)). left. reflexivity.
  - exfalso. apply (proj1 (Hext x1)). left. reflexivity.
  - destruct (min_of_char (x1 :: r1) _ eq_refl) as [Hi1 Hl1].
    destruct (min_of_char (x2 :: r2) _ eq_refl) as [Hi2 Hl2].
    cbn [min_of]. f_equal.
    pose proof (Hl1 _ (proj2 (Hext _) Hi2)). pose proof (Hl2 _ (proj1 (Hext _) Hi1)). lia.
Qed.

(* ---------- the upstream table ---------- *)
Lemma ups_set_keys : forall u s t s', In s' (map fst (ups_set u s t)) <-> s' = s \/ In s' (map fst u).
Proof.
  induction u as [|[a b] r IH]; intros s t s'; cbn [ups_set map fst In].
  - intuition.
  - destruct (N.eqb_spec s a) as [->|Hne]; cbn [map fst In].
    + intuition.
    + rewrite IH. intuition.
Qed.

Lemma ups_set_nodup : forall u s t, NoDup (map fst u) -> NoDup (map fst (ups_set u s t)).
Proof.
  induction u as [|[a b] r IH]; intros s t Hnd; cbn [ups_set map fst].
  - constructor; [intros []|constructor].
  - inversion Hnd as [|x l Hnotin Hnd']; subst.
    destruct (N.eqb_spec s a) as [->|Hne]; cbn [map fst].
    + constructor; assumption.
    + constructor; [|apply IH; exact Hnd'].
      rewrite ups_set_keys. intros [Heq|Hin]; [congruence|contradiction].
Qed.

Lemma ups_set_in : forall u s t s' t', NoDup (map fst u) ->
  (In (s', t') (ups_set u s t) <-> (s' = s /\ t' = t) \/ (s' <> s /\ In (s', t') u)).
Proof.
  induction u as [|[a b] r IH]; intros s t s' t' Hnd; cbn [ups_set In].
  - split.
    + intros [H|[]]. inversion H; subst. left. split; reflexivity.
    + intros [[-> ->]|[_ []]]. left. reflexivity.
  - inversion Hnd as [|x l Hnotin Hnd']; subst.
    destruct (N.eqb_spec s a) as [->|Hne]; cbn [In].
    + split.
      * intros [H|H]; [inversion H; subst; left; split; reflexivity|].
        right. split; [|right; exact H].
        intros ->. apply Hnotin. apply in_map_iff. exists (a, t'). split; [reflexivity|exact H].
      * intros [[-> ->]|[Hn [H|H]]]; [left; reflexivity| |right; exact H].
        inversion H; subst. contradiction.
    + rewrite (IH s t s' t' Hnd'). split.
      * intros [H|[H|H]].
        -- inversion H; subst. right. split; [congruence|left; reflexivity].
        -- left. exact H.
        -- right. destruct H as [Hn H]. split; [exact Hn|right; exact H].
      * intros [H|[Hn [H|H]]].
        -- right. left. exact H.
        -- left. exact H.
        -- right. right. split; assumption.
Qed.

(* ---------- the specification's "latest report" ---------- *)
Lemma last_of_app1 : forall msgs s t s',
  last_of (msgs ++ [(s, t)]) s' = if (s =? s')%N then Some t else last_of msgs s'.
Proof. intros msgs s t s'. unfold last_of. rewrite fold_left_app. cbn [fold_left fst snd]. reflexivity. Qed.

Lemma latest_app1 : forall msgs s t s',
  latest (msgs ++ [(s, t)]) s' = if (s =? s')%N then t else latest msgs s'.
Proof. intros msgs s t s'. unfold latest. rewrite last_of_app1. destruct (s =? s')%N; reflexivity. Qed.

Lemma last_of_none : forall msgs s, ~ In s (map fst msgs) -> last_of msgs s = None.
Proof.
  intros msgs s. induction msgs as [|[a b] r IH] using rev_ind; intro Hn; [reflexivity|].
  rewrite last_of_app1. rewrite map_app, in_app_iff in Hn. cbn [map fst In] in Hn.
  destruct (N.eqb_spec a s) as [->|Hne]; [exfalso; apply Hn; right; left; reflexivity|].
  apply IH. intro H. apply Hn. left. exact H.
Qed.

(* a runner that has not reported counts as the epoch *)
Lemma latest_unreported_l : forall msgs s, ~ In s (map fst msgs) -> latest msgs s = epoch.
Proof. intros msgs s Hn. unfold latest. rewrite (last_of_none _ _ Hn). reflexivity. Qed.

(* otherwise its most recent message counts, whatever came before (also a lower, regressing one) *)
Lemma latest_last_l : forall m1 s t m2, ~ In s (map fst m2) -> latest (m1 ++ (s, t) :: m2) s = t.
Proof.
  intros m1 s t m2. revert m1. induction m2 as [|[a b] r IH] using rev_ind; intros m1 Hn.
  - rewrite latest_app1, N.eqb_refl. reflexivity.
  - rewrite map_app, in_app_iff in Hn. cbn [map fst In] in Hn.
    replace (m1 ++ (s, t) :: r ++ [(a, b)]) with ((m1 ++ (s, t) :: r) ++ [(a, b)]) by (rewrite <- app_assoc; reflexivity).
    rewrite latest_app1. destruct (N.eqb_spec a s) as [->|Hne]; [exfalso; apply Hn; right; left; reflexivity|].
    apply IH. intro H. apply Hn. left. exact H.
Qed.

Lemma participants_app1 : forall ids msgs s t x,
  In x (participants ids (msgs ++ [(s, t)])) <-> x = s \/ In x (participants ids msgs).
Proof.
  intros ids msgs s t x. unfold participants. rewrite map_app, !in_app_iff. cbn [map fst In]. intuition.
Qed.

(* ---------- invariant: the table holds exactly the latest report of every participant ---------- *)
Definition ups_inv (ids : list N) (msgs : list (N * Z)) (u : ups) : Prop :=
  NoDup (map fst u) /\ forall s t, In (s, t) u <-> (In s (participants ids msgs) /\ t = latest msgs s).

Lemma ups_inv_step : forall ids msgs u s t,
  ups_inv ids msgs u -> ups_inv ids (msgs ++ [(s, t)]) (ups_set u s t).
Proof.
  intros ids msgs u s t [Hnd Hin]. split; [apply ups_set_nodup; exact Hnd|].
  intros s' t'. rewrite (ups_set_in u s t s' t' Hnd), participants_app1, latest_app1, Hin.
  destruct (N.eqb_spec s s') as [->|Hne].
  - split.
    + intros [[_ ->]|[Hc _]]; [|contradiction]. split; [left; reflexivity|reflexivity].
    + intros [_ ->]. left. split; reflexivity.
  - split.
    + intros [[-> _]|[_ [Hp ->]]]; [contradiction|]. split; [right; exact Hp|reflexivity].
    + intros [[->|Hp] ->]; [contradiction|]. right. split; [congruence|]. split; [exact Hp|reflexivity].
Qed.

Lemma ups_init_gen : forall ids u done,
  (NoDup (map fst u) /\ forall s t, In (s, t) u <-> (In s done /\ t = epoch)) ->
  let u' := fold_left (fun u i => ups_set u i epoch) ids u in
  NoDup (map fst u') /\ forall s t, In (s, t) u' <-> (In s (done ++ ids) /\ t = epoch).
Proof.
  induction ids as [|i ids IH]; intros u done [Hnd Hin]; cbn [fold_left].
  - rewrite app_nil_r. split; assumption.
  - replace (done ++ i :: ids) with ((done ++ [i]) ++ ids) by (rewrite <- app_assoc; reflexivity).
    apply IH. split; [apply ups_set_nodup; exact Hnd|].
    intros s t. rewrite (ups_set_in u i epoch s t Hnd), Hin, in_app_iff. cbn [In].
    destruct (N.eq_dec s i) as [->|Hne].
    + split.
      * intros [[_ ->]|[Hc _]]; [|contradiction]. split; [right; left; reflexivity|reflexivity].
      * intros [_ ->]. left. split; reflexivity.
    + split.
      * intros [[-> _]|[_ [Hd ->]]]; [contradiction|]. split; [left; exact Hd|reflexivity].
      * intros [[Hd|[->|[]]] ->]; [|contradiction]. right. split; [exact Hne|]. split; [exact Hd|reflexivity].
Qed.

Lemma ups_inv_init : forall ids, ups_inv ids [] (ups_init ids).
Proof.
  intro ids. unfold ups_init.
  destruct (ups_init_gen ids [] []) as [Hnd Hin].
  - split; [constructor|]. intros s t. cbn [In]. intuition.
  - split; [exact Hnd|]. intros s t. rewrite Hin. unfold participants. cbn [map app]. rewrite app_nil_r.
    unfold latest, last_of. cbn [fold_left]. reflexivity.
Qed.

Lemma ups_min_min_of : forall u, ups_min u = min_of (map snd u).
Proof. intros [|[s t] r]; reflexivity. Qed.

Lemma spec_composite_min_of : forall ids msgs,
  spec_composite ids msgs = match min_of (map (latest msgs) (participants ids msgs)) with Some m => m | None => epoch end.
Proof. intros ids msgs. unfold spec_composite. destruct (map (latest msgs) (participants ids msgs)); reflexivity. Qed.

Lemma ups_inv_values : forall ids msgs u, ups_inv ids msgs u ->
  forall v, In v (map snd u) <-> In v (map (latest msgs) (participants ids msgs)).
Proof.
  intros ids msgs u [_ Hin] v. rewrite !in_map_iff. split.
  - intros [[s t] [<- H]]. apply Hin in H. destruct H as [Hp ->]. exists s. split; [reflexivity|exact Hp].
  - intros [s [<- Hp]]. exists (s, latest msgs s). split; [reflexivity|]. apply Hin. split; [exact Hp|reflexivity].
Qed.

Lemma ups_min_spec : forall ids msgs u, ups_inv ids msgs u ->
  match ups_min u with Some c => c | None => epoch end = spec_composite ids msgs.
Proof.
  intros ids msgs u Hinv. rewrite ups_min_min_of, spec_composite_min_of.
  rewrite (min_of_ext _ _ (ups_inv_values _ _ _ Hinv)). reflexivity.
Qed.

(* with no message yet every participant counts as the epoch, so the composite is the epoch *)
Lemma spec_composite_nil : forall ids, spec_composite ids [] = epoch.
Proof.
  intro ids. rewrite spec_composite_min_of.
  destruct (min_of (map (latest []) (participants ids []))) as [m|] eqn:E; [|reflexivity].
  destruct (min_of_char _ _ E) as [Hin _]. apply in_map_iff in Hin. destruct Hin as [s [<- _]]. reflexivity.
Qed.

(* ---------- the registry ---------- *)
Definition reg_inv (ids : list N) (msgs : list (N * Z)) (r : reg) : Prop :=
  ups_inv ids msgs (r_ups r) /\ r_wm r = spec_composite ids msgs.

Lemma reg_inv_new : forall ids, reg_inv ids [] (reg_new ids).
Proof. intro ids. split; [apply ups_inv_init|symmetry; apply spec_composite_nil]. Qed.

Lemma reg_inv_set_timer : forall ids msgs r k t, reg_inv ids msgs r -> reg_inv ids msgs (set_timer r k t).
Proof. intros ids msgs r k t H. unfold set_timer. destruct (r_wm r <? t); exact H. Qed.

Lemma reg_inv_note : forall ids msgs r s p,
  reg_inv ids msgs r -> reg_inv ids (msgs ++ [(s, as_time p)]) (reg_note r s p).
Proof.
  intros ids msgs r s p [Hu _]. unfold reg_note. split; cbn [r_ups r_wm].
  - apply ups_inv_step. exact Hu.
  - apply ups_min_spec. apply ups_inv_step. exact Hu.
Qed.

Lemma fire_le : forall c ts f keep, fire c ts = (f, keep) -> forall t k, In (t, k) f -> t <= c.
Proof.
  induction ts as [|[t0 k0] rest IH]; intros f keep H t k Hin; cbn [fire] in H.
  - inversion H; subst. contradiction.
  - destruct (c <? t0) eqn:E.
    + inversion H; subst. contradiction.
    + destruct (fire c rest) as [f' keep'] eqn:E2. inversion H; subst.
      destruct Hin as [Heq|Hin]; [inversion Heq; subst; apply Z.ltb_ge in E; exact E|].
      eapply IH; [reflexivity|exact Hin].
Qed.

Lemma advance_spec : forall ids msgs r s p r' f,
  reg_inv ids msgs r -> advance r s p = (r', f) ->
  reg_inv ids (msgs ++ [(s, as_time p)]) r' /\ forall t k, In (t, k) f -> t <= r_wm r'.
Proof.
  intros ids msgs r s p r' f Hinv H. unfold advance in H.
  pose proof (reg_inv_note ids msgs r s p Hinv) as [Hu Hw].
  destruct (fire (r_wm (reg_note r s p)) (r_timers (reg_note r s p))) as [f' keep] eqn:E.
  inversion H; subst. split; [split; assumption|].
  cbn [r_wm]. intros t k Hin. eapply fire_le; eassumption.
Qed.

(* an early stop of the consumer changes neither the table nor the cached composite *)
Lemma advance_stop_spec : forall ids msgs r s p k r' f,
  reg_inv ids msgs r -> advance_stop r s p k = (r', f) ->
  reg_inv ids (msgs ++ [(s, as_time p)]) r' /\ forall t key, In (t, key) f -> t <= r_wm r'.
Proof.
  intros ids msgs r s p k r' f Hinv H. unfold advance_stop in H.
  pose proof (reg_inv_note ids msgs r s p Hinv) as [Hu Hw].
  destruct (fire (r_wm (reg_note r s p)) (r_timers (reg_note r s p))) as [f' keep] eqn:E.
  inversion H; subst. split; [split; assumption|].
  cbn [r_wm]. intros t key Hin. eapply fire_le; [exact E|]. rewrite <- (firstn_skipn k f'). apply in_or_app. left. exact Hin.
Qed.

Lemma advance_stop_same_wm : forall r s p k,
  r_ups (fst (advance_stop r s p k)) = r_ups (fst (advance r s p)) /\
  r_wm (fst (advance_stop r s p k)) = r_wm (fst (advance r s p)).
Proof.
  intros r s p k. unfold advance_stop, advance.
  destruct (fire (r_wm (reg_note r s p)) (r_timers (reg_note r s p))) as [f keep]. split; reflexivity.
Qed.

Lemma rop_msgs_app : forall a b, rop_msgs (a ++ b) = rop_msgs a ++ rop_msgs b.
Proof.
  induction a as [|o a IH]; intro b; [reflexivity|].
  destruct o; cbn [app rop_msgs]; rewrite IH; reflexivity.
Qed.

Lemma reg_step_inv : forall ids msgs r o r' f,
  reg_inv ids msgs r -> reg_step r o = (r', f) ->
  reg_inv ids (msgs ++ rop_msgs [o]) r' /\ forall t k, In (t, k) f -> t <= r_wm r'.
Proof.
  intros ids msgs r o r' f Hinv H. destruct o as [s p|k t|s p k]; cbn [reg_step rop_msgs] in *.
  - eapply advance_spec; eassumption.
  - inversion H; subst. rewrite app_nil_r. split; [apply reg_inv_set_timer; exact Hinv|intros ? ? []].
  - eapply advance_stop_spec; eassumption.
Qed.

Lemma reg_run_inv : forall ops ids msgs r,
  reg_inv ids msgs r -> reg_inv ids (msgs ++ rop_msgs ops) (reg_run r ops).
Proof.
  induction ops as [|o ops IH]; intros ids msgs r Hinv; cbn [reg_run].
  - cbn [rop_msgs]. rewrite app_nil_r. exact Hinv.
  - destruct (reg_step r o) as [r' f] eqn:E. cbn [fst].
    destruct (reg_step_inv _ _ _ _ _ _ Hinv E) as [Hinv' _].
    specialize (IH ids _ _ Hinv').
    replace (msgs ++ rop_msgs (o :: ops)) with ((msgs ++ rop_msgs [o]) ++ rop_msgs ops); [exact IH|].
    rewrite <- app_assoc. f_equal. change (o :: ops) with ([o] ++ ops). rewrite rop_msgs_app. reflexivity.
Qed.

Lemma reg_trace_spec_gen : forall ops ids msgs r i f w,
  reg_inv ids msgs r -> nth_error (reg_trace r ops) i = Some (f, w) ->
  w = spec_composite ids (msgs ++ rop_msgs (firstn (S i) ops)) /\ forall t k, In (t, k) f -> t <= w.
Proof.
  induction ops as [|o ops IH]; intros ids msgs r i f w Hinv H; cbn [reg_trace] in H.
  - destruct i; discriminate.
  - destruct (reg_step r o) as [r' f'] eqn:E.
    destruct (reg_step_inv _ _ _ _ _ _ Hinv E) as [Hinv' Hle].
    destruct i as [|i]; cbn [nth_error] in H.
    + inversion H; subst. cbn [firstn]. split; [apply Hinv'|exact Hle].
    + destruct (IH ids _ _ _ _ _ Hinv' H) as [Hw Hf]. split; [|exact Hf].
      rewrite Hw. f_equal. rewrite <- app_assoc. f_equal.
      change (firstn (S (S i)) (o :: ops)) with ([o] ++ firstn (S i) ops). rewrite rop_msgs_app. reflexivity.
Qed.

(* ---------- characterisation of the specified composite: it IS the minimum ---------- *)
Lemma spec_composite_char : forall ids msgs, participants ids msgs <> [] ->
  let c := spec_composite ids msgs in
  (forall s, In s (participants ids msgs) -> c <= latest msgs s) /\
  (exists s, In s (participants ids msgs) /\ c = latest msgs s).
Proof.
  intros ids msgs Hne c.
  assert (Hc : c = spec_composite ids msgs) by reflexivity.
  rewrite spec_composite_min_of in Hc.
  assert (Hpne : map (latest msgs) (participants ids msgs) <> []).
  { intro H. apply map_eq_nil in H. contradiction. }
  destruct (min_of_some _ Hpne) as [m Hm]. rewrite Hm in Hc. rewrite Hc.
  destruct (min_of_char _ _ Hm) as [Hin Hle]. split.
  - intros s Hs. apply Hle. apply in_map. exact Hs.
  - apply in_map_iff in Hin. destruct Hin as [s [Heq Hs]]. exists s. split; [exact Hs|symmetry; exact Heq].
Qed.

Lemma spec_composite_nobody : forall ids msgs, participants ids msgs = [] -> spec_composite ids msgs = epoch.
Proof. intros ids msgs H. unfold spec_composite. rewrite H. reflexivity. Qed.

Lemma go_zero_below_epoch : go_zero_time < epoch.
Proof. unfold go_zero_time, epoch, NS. lia. Qed.

(* ---------- the operator ---------- *)
Lemma apply_results_keeps : forall res r,
  r_ups (apply_results r res) = r_ups r /\ r_wm (apply_results r res) = r_wm r.
Proof.
  unfold apply_results.
  assert (Hinner : forall k ps r, r_ups (fold_left (fun r p => set_timer r k (as_time p)) ps r) = r_ups r /\
                                  r_wm (fold_left (fun r p => set_timer r k (as_time p)) ps r) = r_wm r).
  { intros k ps. induction ps as [|p ps IH]; intro r; cbn [fold_left]; [split; reflexivity|].
    destruct (IH (set_timer r k (as_time p))) as [H1 H2]. rewrite H1, H2.
    unfold set_timer. destruct (r_wm r <? as_time p); split; reflexivity. }
  induction res as [|kr res IH]; intro r; cbn [fold_left]; [split; reflexivity|].
  destruct (IH (fold_left (fun r p => set_timer r (fst kr) (as_time p)) (snd kr) r)) as [H1 H2].
  destruct (Hinner (fst kr) (snd kr) r) as [H3 H4]. rewrite H1, H2, H3, H4. split; reflexivity.
Qed.

(* what every sub-step of the operator keeps and what it tells the handler *)
Definition same_wm (st st' : opst) : Prop :=
  r_ups (o_reg st') = r_ups (o_reg st) /\ r_wm (o_reg st') = r_wm (o_reg st).

Definition told_ok (w : Z) (calls : list call) : Prop := forall c, In c calls -> c_told c = pb_new w.

(* expired timers waiting in the batch or handed over: all satisfy P *)
Definition ht_ok (P : Z -> Prop) (evs : list hevent) : Prop := forall k t, In (HT k t) evs -> P t.
Definition calls_ht_ok (P : Z -> Prop) (calls : list call) : Prop := forall c, In c calls -> ht_ok P (c_events c).

Lemma nochange_spec : forall P st w, ht_ok P (o_batch st) ->
  same_wm st st /\ told_ok w [] /\ ht_ok P (o_batch st) /\ calls_ht_ok P [].
Proof.
  intros P st w Hb. split; [split; reflexivity|]. split; [intros ? []|]. split; [exact Hb|intros ? []].
Qed.

Lemma process_batch_spec : forall h st st' calls ok P,
  process_batch h st = (st', calls, ok) -> ht_ok P (o_batch st) ->
  same_wm st st' /\ told_ok (r_wm (o_reg st)) calls /\ ht_ok P (o_batch st') /\ calls_ht_ok P calls.
Proof.
  intros h st st' calls ok P H Hb. unfold process_batch in H.
  destruct (o_batch st) as [|e evs] eqn:E.
  - inversion H; subst. apply nochange_spec. rewrite E. exact Hb.
  - destruct (h (pb_new (r_wm (o_reg st))) (e :: evs)) as [res|] eqn:Eh; inversion H; subst; cbn [o_reg o_batch].
    + destruct (apply_results_keeps res (o_reg st)) as [H1 H2].
      split; [split; assumption|]. split; [|split].
      * intros c [<-|[]]. reflexivity.
      * intros k t [].
      * intros c [<-|[]]. cbn [c_events]. exact Hb.
    + split; [split; reflexivity|]. split; [|split].
      * intros c [<-|[]]. reflexivity.
      * intros k t [].
      * intros c [<-|[]]. cbn [c_events]. exact Hb.
Qed.

Lemma add_event_spec : forall h m st e st' calls ok P,
  add_event h m st e = (st', calls, ok) -> ht_ok P (o_batch st) -> (forall k t, e = HT k t -> P t) ->
  same_wm st st' /\ told_ok (r_wm (o_reg st)) calls /\ ht_ok P (o_batch st') /\ calls_ht_ok P calls.
Proof.
  intros h m st e st' calls ok P H Hb He. unfold add_event in H.
  assert (Hb1 : ht_ok P (o_batch st ++ [e])).
  { intros k t Hin. apply in_app_iff in Hin. destruct Hin as [Hin|[Heq|[]]]; [eapply Hb; exact Hin|eapply He; exact Heq]. }
  destruct (Nat.leb m (length (o_batch {| o_reg := o_reg st; o_batch := o_batch st ++ [e] |}))).
  - eapply process_batch_spec in H; [|exact Hb1]. exact H.
  - inversion H; subst. split; [split; reflexivity|]. split; [intros ? []|]. split; [exact Hb1|intros ? []].
Qed.

Lemma fire_loop_spec : forall h m c P fuel st st' calls,
  fire_loop h m c fuel st = (st', calls) -> ht_ok P (o_batch st) -> (forall t, t <= c -> P t) ->
  same_wm st st' /\ told_ok (r_wm (o_reg st)) calls /\ ht_ok P (o_batch st') /\ calls_ht_ok P calls.
Proof.
  intros h m c P. induction fuel as [|fuel IH]; intros st st' calls H Hb HP; cbn [fire_loop] in H.
  - inversion H; subst. apply nochange_spec. exact Hb.
  - destruct (r_timers (o_reg st)) as [|[t k] rest] eqn:Et.
    + inversion H; subst. apply nochange_spec. exact Hb.
    + destruct (c <? t) eqn:Ec.
      * inversion H; subst. apply nochange_spec. exact Hb.
      * apply Z.ltb_ge in Ec.
        set (st1 := {| o_reg := {| r_ups := r_ups (o_reg st); r_wm := r_wm (o_reg st); r_timers := rest |}; o_batch := o_batch st |}) in *.
        destruct (add_event h m st1 (HT k t)) as [[st2 calls1] ok] eqn:E1.
        destruct (add_event_spec _ _ _ _ _ _ _ P E1) as [[Hu1 Hw1] [Ht1 [Hb2 Hc1]]].
        { exact Hb. }
        { intros k' t' Heq. inversion Heq; subst. apply HP. exact Ec. }
        cbn [st1 o_reg r_ups r_wm] in Hu1, Hw1, Ht1.
        destruct ok.
        -- destruct (fire_loop h m c fuel st2) as [st3 calls2] eqn:E2.
           inversion H; subst.
           destruct (IH _ _ _ E2 Hb2 HP) as [[Hu2 Hw2] [Ht2 [Hb3 Hc2]]].
           split; [split|split; [|split]].
           ++ rewrite Hu2, Hu1. reflexivity.
           ++ rewrite Hw2, Hw1. reflexivity.
           ++ intros cl Hin. apply in_app_iff in Hin. destruct Hin as [Hin|Hin]; [apply Ht1; exact Hin|].
              rewrite (Ht2 _ Hin), Hw1. reflexivity.
           ++ exact Hb3.
           ++ intros cl Hin. apply in_app_iff in Hin. destruct Hin as [Hin|Hin]; [apply Hc1|apply Hc2]; exact Hin.
        -- inversion H; subst. split; [split; assumption|]. split; [exact Ht1|]. split; [exact Hb2|exact Hc1].
Qed.

(* an expired timer is justified by a watermark message handled earlier (in this or an earlier deployment): it
   is not later than the composite that held right after that message *)
Definition fired_ok (ids0 : list N) (pre : list oop) (t : Z) : Prop :=
  exists a s p b, pre = a ++ OWm s p :: b /\ t <= spec_at ids0 (a ++ [OWm s p]).

Lemma fired_ok_app : forall ids0 pre more t, fired_ok ids0 pre t -> fired_ok ids0 (pre ++ more) t.
Proof.
  intros ids0 pre more t [a [s [p [b [-> Hle]]]]]. exists a, s, p, (b ++ more). split; [|exact Hle].
  rewrite <- app_assoc. reflexivity.
Qed.

Lemma drun_app1 : forall d pre o, drun d (pre ++ [o]) = dstep (drun d pre) o.
Proof. intros d pre o. unfold drun. rewrite fold_left_app. reflexivity. Qed.

Definition op_inv (ids0 : list N) (pre : list oop) (st : opst) : Prop :=
  reg_inv (fst (drun (ids0, []) pre)) (snd (drun (ids0, []) pre)) (o_reg st) /\
  ht_ok (fired_ok ids0 pre) (o_batch st).

Lemma oop_msgs_app : forall a b, oop_msgs (a ++ b) = oop_msgs a ++ oop_msgs b.
Proof.
  induction a as [|o a IH]; intro b; [reflexivity|].
  destruct o; cbn [app oop_msgs]; rewrite IH; reflexivity.
Qed.

Lemma reg_inv_same : forall ids msgs r r', reg_inv ids msgs r -> r_ups r' = r_ups r -> r_wm r' = r_wm r -> reg_inv ids msgs r'.
Proof. intros ids msgs r r' [Hu Hw] H1 H2. split; [rewrite H1; exact Hu|rewrite H2; exact Hw]. Qed.

Lemma ht_ok_app1 : forall ids0 pre o evs, ht_ok (fired_ok ids0 pre) evs -> ht_ok (fired_ok ids0 (pre ++ [o])) evs.
Proof. intros ids0 pre o evs H k t Hin. apply fired_ok_app. eapply H. exact Hin. Qed.

Lemma op_step_spec : forall h m ids0 pre st o st' calls,
  op_inv ids0 pre st -> op_step h m st o = (st', calls) ->
  op_inv ids0 (pre ++ [o]) st' /\ told_ok (spec_at ids0 (pre ++ [o])) calls /\
  calls_ht_ok (fired_ok ids0 (pre ++ [o])) calls.
Proof.
  intros h m ids0 pre st o st' calls [Hreg Hb] H.
  pose proof (ht_ok_app1 ids0 pre o _ Hb) as Hb1.
  unfold op_inv, spec_at. rewrite drun_app1.
  destruct (drun (ids0, []) pre) as [ids msgs] eqn:Ed. cbn [fst snd] in Hreg.
  destruct o as [s id key timers|s p|s|ids']; cbn [op_step dstep fst snd] in *.
  - destruct (add_event h m st (HK id key timers)) as [[stx callsx] okx] eqn:Ex. cbn [fst] in H. inversion H; subst stx callsx.
    destruct (add_event_spec _ _ _ _ _ _ _ (fired_ok ids0 (pre ++ [OEv s id key timers])) Ex Hb1) as [[Hu Hw] [Ht [Hb' Hc]]]; [intros ? ? Heq; discriminate|].
    split; [split; [eapply reg_inv_same; eassumption|exact Hb']|].
    split; [|exact Hc]. destruct Hreg as [_ Hwm]. rewrite <- Hwm. exact Ht.
  - pose proof (reg_inv_note ids msgs (o_reg st) s p Hreg) as Hnote.
    set (r1 := reg_note (o_reg st) s p) in *.
    eapply (fire_loop_spec _ _ _ (fired_ok ids0 (pre ++ [OWm s p]))) in H.
    + destruct H as [[Hu Hw] [Ht [Hb' Hc]]]. cbn [o_reg] in Hu, Hw, Ht.
      split; [split; [eapply reg_inv_same; eassumption|exact Hb']|].
      split; [|exact Hc]. destruct Hnote as [_ Hwm]. rewrite <- Hwm. exact Ht.
    + cbn [o_batch]. exact Hb1.
    + intros t Hle. exists pre, s, p, []. split; [reflexivity|].
      unfold spec_at. rewrite drun_app1, Ed. cbn [dstep fst snd].
      destruct Hnote as [_ Hwm]. rewrite <- Hwm. exact Hle.
  - destruct (process_batch h st) as [[stx callsx] okx] eqn:Ex. cbn [fst] in H. inversion H; subst stx callsx.
    destruct (process_batch_spec _ _ _ _ _ (fired_ok ids0 (pre ++ [OComplete s])) Ex Hb1) as [[Hu Hw] [Ht [Hb' Hc]]].
    split; [split; [eapply reg_inv_same; eassumption|exact Hb']|].
    split; [|exact Hc]. destruct Hreg as [_ Hwm]. rewrite <- Hwm. exact Ht.
  - inversion H; subst. cbn [o_reg o_batch].
    split; [split; [apply reg_inv_new|exact Hb1]|]. split; intros ? [].
Qed.

Lemma op_inv_new : forall ids, op_inv ids [] (op_new ids).
Proof. intro ids. split; [apply reg_inv_new|intros ? ? []]. Qed.

Lemma op_trace_spec_gen : forall h m ops ids0 pre st i calls,
  op_inv ids0 pre st -> nth_error (op_trace h m st ops) i = Some calls ->
  told_ok (spec_at ids0 (pre ++ firstn (S i) ops)) calls /\
  calls_ht_ok (fired_ok ids0 (pre ++ firstn (S i) ops)) calls.
Proof.
  intros h m. induction ops as [|o ops IH]; intros ids0 pre st i calls Hinv H; cbn [op_trace] in H.
  - destruct i; discriminate.
  - destruct (op_step h m st o) as [st' calls'] eqn:E.
    destruct (op_step_spec _ _ _ _ _ _ _ _ Hinv E) as [Hinv' [Ht Hc]].
    destruct i as [|i]; cbn [nth_error] in H.
    + inversion H; subst. cbn [firstn]. split; assumption.
    + specialize (IH ids0 _ _ _ _ Hinv' H).
      replace (pre ++ firstn (S (S i)) (o :: ops)) with ((pre ++ [o]) ++ firstn (S i) ops); [exact IH|].
      rewrite <- app_assoc. reflexivity.
Qed.

(* without a redeploy the specification is the composite of the watermark messages of the history *)
Lemma spec_at_no_deploy : forall ids0 pre,
  (forall ids, ~ In (ODeploy ids) pre) -> spec_at ids0 pre = spec_composite ids0 (oop_msgs pre).
Proof.
  intros ids0 pre Hn. unfold spec_at.
  assert (Hd : drun (ids0, []) pre = (ids0, oop_msgs pre)).
  { induction pre as [|o pre IH] using rev_ind; [reflexivity|].
    rewrite drun_app1, IH, oop_msgs_app.
    - destruct o as [s id key timers|s p|s|ids']; cbn [dstep oop_msgs fst snd]; rewrite ?app_nil_r; try reflexivity.
      exfalso. apply (Hn ids'). apply in_app_iff. right. left. reflexivity.
    - intros ids Hin. apply (Hn ids). apply in_app_iff. left. exact Hin. }
  rewrite Hd. reflexivity.
Qed.

(* right after a (re)deploy, and until the deployment's first watermark message, it is the epoch *)
Lemma spec_at_after_deploy : forall ids0 pre ids post,
  (forall s p, ~ In (OWm s p) post) -> (forall ids', ~ In (ODeploy ids') post) ->
  spec_at ids0 (pre ++ ODeploy ids :: post) = epoch.
Proof.
  intros ids0 pre ids post Hw Hdp. unfold spec_at.
  assert (Hd : drun (ids0, []) (pre ++ ODeploy ids :: post) = (ids, [])).
  { unfold drun. rewrite fold_left_app. cbn [fold_left dstep].
    generalize dependent post. induction post as [|o post IH] using rev_ind; intros Hw Hdp; [reflexivity|].
    rewrite fold_left_app. cbn [fold_left]. rewrite IH.
    - destruct o as [s id key timers|s p|s|ids']; cbn [dstep fst snd]; try reflexivity.
      + exfalso. apply (Hw s p). apply in_app_iff. right. left. reflexivity.
      + exfalso. apply (Hdp ids'). apply in_app_iff. right. left. reflexivity.
    - intros s p Hin. apply (Hw s p). apply in_app_iff. left. exact Hin.
    - intros ids' Hin. apply (Hdp ids'). apply in_app_iff. left. exact Hin. }
  rewrite Hd. apply spec_composite_nil.
Qed.

(* SourceComplete leaves the upstream table and the cached composite untouched: a finished runner's last
   report keeps counting in the minimum *)
Lemma source_complete_keeps_table : forall h m st s,
  r_ups (o_reg (fst (op_step h m st (OComplete s)))) = r_ups (o_reg st) /\
  r_wm (o_reg (fst (op_step h m st (OComplete s)))) = r_wm (o_reg st).
Proof.
  intros h m st s. cbn [op_step]. destruct (process_batch h st) as [[st' calls] ok] eqn:E. cbn [fst].
  destruct (process_batch_spec h st st' calls ok (fun _ => True) E) as [[Hu Hw] _]; [intros ? ? ?; exact I|].
  split; assumption.
Qed.

(* ---------- full statements used by Props/C11.v ---------- *)
Lemma composite_is_min_full : forall ids ops,
  let msgs := rop_msgs ops in
  let c := r_wm (reg_run (reg_new ids) ops) in
  c = spec_composite ids msgs /\
  (participants ids msgs <> [] ->
     (forall s, In s (participants ids msgs) -> c <= latest msgs s) /\
     (exists s, In s (participants ids msgs) /\ c = latest msgs s)) /\
  (participants ids msgs = [] -> c = epoch) /\
  (forall s, ~ In s (map fst msgs) -> latest msgs s = epoch) /\
  (forall m1 s t m2, msgs = m1 ++ (s, t) :: m2 -> ~ In s (map fst m2) -> latest msgs s = t).
Proof.
  intros ids ops msgs c.
  assert (Hc : c = spec_composite ids msgs).
  { pose proof (reg_run_inv ops ids [] (reg_new ids) (reg_inv_new ids)) as [_ Hw]. exact Hw. }
  split; [exact Hc|]. split; [|split; [|split]].
  - intro Hne. rewrite Hc. apply spec_composite_char. exact Hne.
  - intro He. rewrite Hc. apply spec_composite_nobody. exact He.
  - apply latest_unreported_l.
  - intros m1 s t m2 -> Hn. apply latest_last_l. exact Hn.
Qed.

Lemma no_timer_beyond_min_full : forall ids ops i fired w,
  nth_error (reg_trace (reg_new ids) ops) i = Some (fired, w) ->
  w = spec_composite ids (rop_msgs (firstn (S i) ops)) /\ forall t k, In (t, k) fired -> t <= w.
Proof. intros ids ops i fired w H. exact (reg_trace_spec_gen ops ids [] (reg_new ids) i fired w (reg_inv_new ids) H). Qed.

Lemma set_timer_guard_full : forall r k t, t <= r_wm r -> set_timer r k t = r.
Proof. intros r k t H. unfold set_timer. destruct (r_wm r <? t) eqn:E; [apply Z.ltb_lt in E; lia|reflexivity]. Qed.

Lemma handler_told_composite_full : forall (h : handler) ids m ops i calls,
  nth_error (op_trace h m (op_new ids) ops) i = Some calls ->
  forall c, In c calls -> c_told c = pb_new (spec_at ids (firstn (S i) ops)).
Proof. intros h ids m ops i calls H. exact (proj1 (op_trace_spec_gen h m ops ids [] (op_new ids) i calls (op_inv_new ids) H)). Qed.

Lemma no_timer_beyond_min_at_handler_full : forall (h : handler) ids m ops i calls,
  nth_error (op_trace h m (op_new ids) ops) i = Some calls ->
  forall c, In c calls -> forall k t, In (HT k t) (c_events c) ->
  exists a s p b, firstn (S i) ops = a ++ OWm s p :: b /\ t <= spec_at ids (a ++ [OWm s p]).
Proof.
  intros h ids m ops i calls H c Hc k t Hin.
  exact (proj2 (op_trace_spec_gen h m ops ids [] (op_new ids) i calls (op_inv_new ids) H) c Hc k t Hin).
Qed.

Lemma spec_at_full : forall ids0 pre,
  ((forall ids, ~ In (ODeploy ids) pre) -> spec_at ids0 pre = spec_composite ids0 (oop_msgs pre)) /\
  (forall a ids post, pre = a ++ ODeploy ids :: post ->
     (forall s p, ~ In (OWm s p) post) -> (forall ids', ~ In (ODeploy ids') post) -> spec_at ids0 pre = epoch) /\
  spec_at ids0 pre = spec_composite (fst (drun (ids0, []) pre)) (snd (drun (ids0, []) pre)).
Proof.
  intros ids0 pre. split; [apply spec_at_no_deploy|]. split; [|reflexivity].
  intros a ids post -> Hw Hd. apply spec_at_after_deploy; assumption.
Qed.

Lemma tins_sorted_in : forall x l, In x (tins_sorted x l).
Proof.
  intros x l. induction l as [|y r IH]; cbn [tins_sorted]; [left; reflexivity|].
  destruct (u64 (fst x) <? u64 (fst y)); [left; reflexivity|right; exact IH].
Qed.

Lemma tins_in : forall x l, In x (tins x l).
Proof.
  intros [t k] l. unfold tins. destruct (existsb (timer_eqb (t, k)) l) eqn:E; [|apply tins_sorted_in].
  apply existsb_exists in E. destruct E as [[t' k'] [Hin He]]. unfold timer_eqb in He. cbn [fst snd] in He.
  apply andb_true_iff in He. destruct He as [H1 H2]. apply Z.eqb_eq in H1. apply N.eqb_eq in H2. subst. exact Hin.
Qed.

(* the SetTimer guard, both ways: at or before the composite watermark nothing happens (in particular a timer
   at or before the epoch set before any watermark message is dropped); after it the timer is stored *)
Lemma set_timer_guard_full2 : forall r k t,
  (t <= r_wm r -> set_timer r k t = r) /\
  (r_wm r < t -> In (swrap64 t, k) (r_timers (set_timer r k t)) /\ r_wm (set_timer r k t) = r_wm r) /\
  (forall ids, t <= epoch -> set_timer (reg_new ids) k t = reg_new ids).
Proof.
  intros r k t. split; [apply set_timer_guard_full|]. split.
  - intro H. unfold set_timer. apply Z.ltb_lt in H. rewrite H. cbn [r_timers r_wm]. split; [apply tins_in|reflexivity].
  - intros ids H. apply set_timer_guard_full. exact H.
Qed.

(* the behaviour before the repair: the first handler call of an operator with one configured runner was told
   year 1 instead of the composite (the epoch) *)
Lemma handler_told_before_fix_refuted :
  exists ids ops calls c,
    nth_error (op_trace (fun _ _ => Some []) 1 {| o_reg := reg_new_before_fix ids; o_batch := [] |} ops) 0 = Some calls /\
    In c calls /\ c_told c <> pb_new (spec_at ids (firstn 1 ops)).
Proof.
  exists [1%N], [OEv 1 1 0 []]. eexists. eexists. split; [reflexivity|]. split; [left; reflexivity|].
  vm_compute. discriminate.
Qed.

(* a handler error in the middle of a watermark advance (or anywhere else) rolls nothing back: after every
   incoming event, failed calls or not, the registry's table and cached composite are those of a run whose
   handler never fails - they do not depend on the handler at all *)
Lemma wm_independent_of_handler : forall (h h' : handler) m m' ops st st',
  r_ups (o_reg st) = r_ups (o_reg st') -> r_wm (o_reg st) = r_wm (o_reg st') ->
  forall i, let run := fun hh mm s0 => fold_left (fun s o => fst (op_step hh mm s o)) (firstn i ops) s0 in
  r_ups (o_reg (run h m st)) = r_ups (o_reg (run h' m' st')) /\
  r_wm (o_reg (run h m st)) = r_wm (o_reg (run h' m' st')).
Proof.
  intros h h' m m' ops. induction ops as [|o ops IH]; intros st st' Hu Hw i run.
  - unfold run. rewrite firstn_nil. cbn. split; assumption.
  - destruct i as [|i]; [unfold run; cbn; split; assumption|].
    unfold run. cbn [firstn fold_left]. apply IH.
    + destruct (op_step h m st o) as [s1 c1] eqn:E1. destruct (op_step h' m' st' o) as [s2 c2] eqn:E2. cbn [fst].
      destruct o as [s id key timers|s p|s|ids']; cbn [op_step] in E1, E2.
      * destruct (add_event h m st (HK id key timers)) as [[a1 b1] k1] eqn:A1.
        destruct (add_event h' m' st' (HK id key timers)) as [[a2 b2] k2] eqn:A2. cbn [fst] in E1, E2. inversion E1; inversion E2; subst.
        destruct (add_event_spec _ _ _ _ _ _ _ (fun _ => True) A1) as [[X1 _] _]; [intros ? ? ?; exact I|intros; exact I|].
        destruct (add_event_spec _ _ _ _ _ _ _ (fun _ => True) A2) as [[X2 _] _]; [intros ? ? ?; exact I|intros; exact I|].
        rewrite X1, X2. exact Hu.
      * eapply (fire_loop_spec _ _ _ (fun _ => True)) in E1; [|intros ? ? ?; exact I|intros; exact I].
        eapply (fire_loop_spec _ _ _ (fun _ => True)) in E2; [|intros ? ? ?; exact I|intros; exact I].
        destruct E1 as [[X1 _] _]. destruct E2 as [[X2 _] _]. cbn [o_reg] in X1, X2. rewrite X1, X2.
        unfold reg_note. cbn [r_ups]. rewrite Hu. reflexivity.
      * destruct (process_batch h st) as [[a1 b1] k1] eqn:A1. destruct (process_batch h' st') as [[a2 b2] k2] eqn:A2.
        cbn [fst] in E1, E2. inversion E1; inversion E2; subst.
        destruct (process_batch_spec _ _ _ _ _ (fun _ => True) A1) as [[X1 _] _]; [intros ? ? ?; exact I|].
        destruct (process_batch_spec _ _ _ _ _ (fun _ => True) A2) as [[X2 _] _]; [intros ? ? ?; exact I|].
        rewrite X1, X2. exact Hu.
      * inversion E1; inversion E2; subst. reflexivity.
    + destruct (op_step h m st o) as [s1 c1] eqn:E1. destruct (op_step h' m' st' o) as [s2 c2] eqn:E2. cbn [fst].
      destruct o as [s id key timers|s p|s|ids']; cbn [op_step] in E1, E2.
      * destruct (add_event h m st (HK id key timers)) as [[a1 b1] k1] eqn:A1.
        destruct (add_event h' m' st' (HK id key timers)) as [[a2 b2] k2] eqn:A2. cbn [fst] in E1, E2. inversion E1; inversion E2; subst.
        destruct (add_event_spec _ _ _ _ _ _ _ (fun _ => True) A1) as [[_ X1] _]; [intros ? ? ?; exact I|intros; exact I|].
        destruct (add_event_spec _ _ _ _ _ _ _ (fun _ => True) A2) as [[_ X2] _]; [intros ? ? ?; exact I|intros; exact I|].
        rewrite X1, X2. exact Hw.
      * eapply (fire_loop_spec _ _ _ (fun _ => True)) in E1; [|intros ? ? ?; exact I|intros; exact I].
        eapply (fire_loop_spec _ _ _ (fun _ => True)) in E2; [|intros ? ? ?; exact I|intros; exact I].
        destruct E1 as [[_ X1] _]. destruct E2 as [[_ X2] _]. cbn [o_reg] in X1, X2. rewrite X1, X2.
        unfold reg_note. cbn [r_wm]. rewrite Hu. reflexivity.
      * destruct (process_batch h st) as [[a1 b1] k1] eqn:A1. destruct (process_batch h' st') as [[a2 b2] k2] eqn:A2.
        cbn [fst] in E1, E2. inversion E1; inversion E2; subst.
        destruct (process_batch_spec _ _ _ _ _ (fun _ => True) A1) as [[_ X1] _]; [intros ? ? ?; exact I|].
        destruct (process_batch_spec _ _ _ _ _ (fun _ => True) A2) as [[_ X2] _]; [intros ? ? ?; exact I|].
        rewrite X1, X2. exact Hw.
      * inversion E1; inversion E2; subst. reflexivity.
Qed.
