(* C04: the assumption on the reorder stage, discharged by C20's thread-level model of the repaired
   batching.ReorderFetcher (Model/Reorder.v, rp_fixed = true) through C20's invariant (Proofs/C20_Reorder.v).

   The stage of RunnerPipe is C20's state plus a cursor into Output:
     Add x / Flush   the read loop starts a call: possible when the adder thread is idle (previous call returned);
                     the call becomes the adder's script, its steps are internal actions (AAdder)
     internal        any action of C20's model (adder step, time-out goroutine step, timer expiry, fetch completion, drain)
     receive         the next element of Output not yet received by the joiner *)
From Coq Require Import List NArith Bool Arith Lia.
Import ListNotations.
From RV Require Import Model.Batcher Model.Reorder Proofs.C20_Reorder Model.RunnerPipe.

Section Adapter.
  Variable kb : N -> list kev.
  Variable p : rparams.
  Hypothesis Hfixed : rp_fixed p = true.

  Notation rst := (rstate N (list kev)).
  Definition fetchK : list N -> list (list kev) := map kb.

  Definition set_script (sc : list (aop N)) (s : rst) : rst :=
    mkR (bt s) sc (apc s) (tpc s) (inflight s) (flock s) (reserved s) (nextseq s) (Reorder.drained s) (items s)
        (fetchers s) (out s) (added s) (flushed s).
  Definition inject (op : aop N) (s : rst) : option rst :=
    match apc s, script s with
    | PIdle, [] => Some (set_script [op] s)
    | _, _ => None
    end.

  Definition reorder_stage : rstage := {|
    RS := (rst * nat)%type;
    RA := Reorder.action;
    rs_init := (r_init [], 0);
    rs_add := fun sn x => match inject (AddOp x) (fst sn) with Some s' => Some (s', snd sn) | None => None end;
    rs_flush := fun sn => match inject FlushOp (fst sn) with Some s' => Some (s', snd sn) | None => None end;
    rs_int := fun sn a => match step_opt fetchK p a (fst sn) with Some s' => Some (s', snd sn) | None => None end;
    rs_out := fun sn => match nth_error (out (fst sn)) (snd sn) with
                        | Some r => Some (r, (fst sn, S (snd sn)))
                        | None => None
                        end
  |}.

  (* records whose Add call has been started but not yet executed by the adder thread *)
  Definition pend_adds (sc : list (aop N)) : list N :=
    flat_map (fun o => match o with AddOp x => [x] | FlushOp => [] end) sc.

  Lemma Inv_set_script : forall sc s, Inv fetchK s -> Inv fetchK (set_script sc s).
  Proof. intros sc s H. destruct H. constructor; cbn; assumption. Qed.

  Lemma drain_loop_out : forall fuel d its res (o : list (list kev)),
    exists o2, snd (drain_loop fuel d its res o) = o ++ o2.
  Proof.
    induction fuel as [|fuel IH]; intros d its res o; cbn [drain_loop].
    - exists []. cbn. now rewrite app_nil_r.
    - destruct (lookup d its) as [r|].
      + destruct (IH (S d) (remove_key d its) (Nat.pred res) (o ++ r)) as [o2 H]. exists (r ++ o2).
        rewrite H. now rewrite app_assoc.
      + exists []. cbn. now rewrite app_nil_r.
  Qed.

  Lemma flush_step_frame : forall c (s : rst) c' s', flush_step p c s = Some (c', s') ->
    script s' = script s /\ added s' = added s /\ out s' = out s.
  Proof.
    intros c s c' s' H. destruct c; cbn [flush_step] in H; try discriminate.
    - destruct (rp_fixed p && flock s); [discriminate|].
      match type of H with (if ?c then _ else _) = _ => destruct c end; inversion H; subst; cbn; auto.
    - destruct (Nat.ltb (reserved s) (max_items p)); inversion H; subst; cbn; auto.
    - inversion H; subst; auto.
    - inversion H; subst; auto.
    - inversion H; subst; cbn; auto.
  Qed.

  Lemma step_frame : forall a (s s' : rst), step_opt fetchK p a s = Some s' ->
    added s' ++ pend_adds (script s') = added s ++ pend_adds (script s) /\ exists o2, out s' = out s ++ o2.
  Proof.
    intros a s s' H. destruct a; cbn [step_opt] in H.
    - unfold adder_step in H. destruct (apc s) eqn:Ea.
      + destruct (script s) as [|o sc] eqn:Es; [discriminate|]. destruct o; inversion H; subst; cbn.
        * split; [now rewrite <- app_assoc|]. exists []. now rewrite app_nil_r.
        * split; [reflexivity|]. exists []. now rewrite app_nil_r.
      + inversion H; subst; cbn. split; [reflexivity|]. exists []. now rewrite app_nil_r.
      + destruct (flush_step p PFlush s) as [[c' s1]|] eqn:E; [|discriminate]. inversion H; subst.
        destruct (flush_step_frame _ _ _ _ E) as (A & B & C). cbn. rewrite A, B, C.
        split; [reflexivity|]. exists []. now rewrite app_nil_r.
      + destruct (flush_step p (PReserve ev) s) as [[c' s1]|] eqn:E; [|discriminate]. inversion H; subst.
        destruct (flush_step_frame _ _ _ _ E) as (A & B & C). cbn. rewrite A, B, C.
        split; [reflexivity|]. exists []. now rewrite app_nil_r.
      + destruct (flush_step p (PRead ev) s) as [[c' s1]|] eqn:E; [|discriminate]. inversion H; subst.
        destruct (flush_step_frame _ _ _ _ E) as (A & B & C). cbn. rewrite A, B, C.
        split; [reflexivity|]. exists []. now rewrite app_nil_r.
      + destruct (flush_step p (PInc ev seq) s) as [[c' s1]|] eqn:E; [|discriminate]. inversion H; subst.
        destruct (flush_step_frame _ _ _ _ E) as (A & B & C). cbn. rewrite A, B, C.
        split; [reflexivity|]. exists []. now rewrite app_nil_r.
      + destruct (flush_step p (PWrite ev seq r) s) as [[c' s1]|] eqn:E; [|discriminate]. inversion H; subst.
        destruct (flush_step_frame _ _ _ _ E) as (A & B & C). cbn. rewrite A, B, C.
        split; [reflexivity|]. exists []. now rewrite app_nil_r.
    - unfold timeout_step in H. destruct (tpc s) eqn:Et.
      + destruct (inflight s); [discriminate|]. inversion H; subst; cbn.
        split; [reflexivity|]. exists []. now rewrite app_nil_r.
      + discriminate.
      + destruct (flush_step p PFlush s) as [[c' s1]|] eqn:E; [|discriminate]. inversion H; subst.
        destruct (flush_step_frame _ _ _ _ E) as (A & B & C). cbn. rewrite A, B, C.
        split; [reflexivity|]. exists []. now rewrite app_nil_r.
      + destruct (flush_step p (PReserve ev) s) as [[c' s1]|] eqn:E; [|discriminate]. inversion H; subst.
        destruct (flush_step_frame _ _ _ _ E) as (A & B & C). cbn. rewrite A, B, C.
        split; [reflexivity|]. exists []. now rewrite app_nil_r.
      + destruct (flush_step p (PRead ev) s) as [[c' s1]|] eqn:E; [|discriminate]. inversion H; subst.
        destruct (flush_step_frame _ _ _ _ E) as (A & B & C). cbn. rewrite A, B, C.
        split; [reflexivity|]. exists []. now rewrite app_nil_r.
      + destruct (flush_step p (PInc ev seq) s) as [[c' s1]|] eqn:E; [|discriminate]. inversion H; subst.
        destruct (flush_step_frame _ _ _ _ E) as (A & B & C). cbn. rewrite A, B, C.
        split; [reflexivity|]. exists []. now rewrite app_nil_r.
      + destruct (flush_step p (PWrite ev seq r) s) as [[c' s1]|] eqn:E; [|discriminate]. inversion H; subst.
        destruct (flush_step_frame _ _ _ _ E) as (A & B & C). cbn. rewrite A, B, C.
        split; [reflexivity|]. exists []. now rewrite app_nil_r.
    - unfold timer_fire in H. destruct (armed (bt s)); inversion H; subst; cbn.
      split; [reflexivity|]. exists []. now rewrite app_nil_r.
    - unfold complete_step in H. destruct (nth_error (fetchers s) i) as [[sq ev st]|]; [|discriminate].
      destruct st; inversion H; subst; cbn. split; [reflexivity|]. exists []. now rewrite app_nil_r.
    - unfold drain_step in H. destruct (nth_error (fetchers s) i) as [[sq ev st]|]; [|discriminate].
      destruct st; [discriminate|].
      destruct (drain_loop_out (S (length (items s))) (Reorder.drained s) (items s) (reserved s) (out s)) as [o2 Ho].
      destruct (drain_loop (S (length (items s))) (Reorder.drained s) (items s) (reserved s) (out s)) as [[[d its] res] o] eqn:E.
      inversion H; subst; cbn. split; [reflexivity|]. exists o2. exact Ho.
  Qed.

  (* the invariant of the adapter along any history *)
  Lemma adapter_inv : forall tr sn, rrun reorder_stage tr sn ->
    Inv fetchK (fst sn) /\
    ladds reorder_stage tr = added (fst sn) ++ pend_adds (script (fst sn)) /\
    louts reorder_stage tr = firstn (snd sn) (out (fst sn)) /\ snd sn <= length (out (fst sn)).
  Proof.
    intros tr sn H. induction H as [|tr r x r' H IH E|tr r r' H IH E|tr r a r' H IH E|tr r res r' H IH E].
    - cbn. split; [apply Inv_init|]. split; [reflexivity|]. split; [reflexivity|lia].
    - destruct IH as (I & A & O & L). destruct r as [s n]. cbn [rs_add reorder_stage fst snd] in *.
      unfold inject in E. destruct (apc s) eqn:Ea; try discriminate. destruct (script s) eqn:Es; [|discriminate].
      inversion E; subst r'; clear E. cbn [fst snd set_script out added script].
      split; [apply Inv_set_script; exact I|]. unfold ladds, louts in *. rewrite !flat_map_app. cbn [flat_map app].
      rewrite A, O. cbn. rewrite !app_nil_r. auto.
    - destruct IH as (I & A & O & L). destruct r as [s n]. cbn [rs_flush reorder_stage fst snd] in *.
      unfold inject in E. destruct (apc s) eqn:Ea; try discriminate. destruct (script s) eqn:Es; [|discriminate].
      inversion E; subst r'; clear E. cbn [fst snd set_script out added script].
      split; [apply Inv_set_script; exact I|]. unfold ladds, louts in *. rewrite !flat_map_app. cbn [flat_map app].
      rewrite A, O. cbn. rewrite !app_nil_r. auto.
    - destruct IH as (I & A & O & L). destruct r as [s n]. cbn [rs_int reorder_stage fst snd] in *.
      destruct (step_opt fetchK p a s) as [s'|] eqn:Es; [|discriminate]. inversion E; subst r'; clear E.
      cbn [fst snd]. destruct (step_frame _ _ _ Es) as (F1 & o2 & F2).
      split; [|split; [|split]].
      + pose proof (step_inv fetchK p Hfixed a s I) as J. unfold Reorder.step in J. rewrite Es in J. exact J.
      + unfold ladds in *. rewrite flat_map_app. cbn [flat_map app]. rewrite !app_nil_r, A, F1. reflexivity.
      + unfold louts in *. rewrite flat_map_app. cbn [flat_map app]. rewrite !app_nil_r, O, F2.
        rewrite firstn_app. replace (n - length (out s)) with 0 by lia. cbn. now rewrite app_nil_r.
      + rewrite F2, app_length. lia.
    - destruct IH as (I & A & O & L). destruct r as [s n]. cbn [rs_out reorder_stage fst snd] in *.
      destruct (nth_error (out s) n) as [r0|] eqn:En; [|discriminate]. inversion E; subst; clear E. cbn [fst snd].
      split; [exact I|]. split; [|split].
      + unfold ladds in *. rewrite flat_map_app. cbn [flat_map app]. now rewrite !app_nil_r.
      + unfold louts in *. rewrite flat_map_app. cbn [flat_map app]. rewrite O.
        rewrite (firstn_snoc_nth (out s) n res En). reflexivity.
      + assert (n < length (out s)) by (apply nth_error_Some; congruence). lia.
  Qed.

  Lemma concat_map_kb : forall l : list (list N), concat (map fetchK l) = map kb (concat l).
  Proof. induction l as [|x l IH]; cbn; [reflexivity|]. unfold fetchK at 1. now rewrite map_app, IH. Qed.

  Theorem reorder_stage_inorder : rs_inorder kb reorder_stage.
  Proof.
    intros tr sn H. destruct (adapter_inv _ _ H) as (I & A & O & L). destruct sn as [s n]. cbn [fst snd] in *.
    destruct (inv_prefix fetchK s I) as [c Hc]. rewrite concat_map_kb in Hc.
    pose proof (inv_cat _ _ _ _ I) as Hcat.
    exists (skipn n (out s) ++ c ++ map kb (batch (bt s)) ++ map kb (pend_adds (script s))).
    rewrite A, O, map_app, <- Hcat, map_app, Hc, <- !app_assoc.
    rewrite (app_assoc (firstn n (out s))), firstn_skipn. reflexivity.
  Qed.
End Adapter.
