(* dkv/wal: what the reader replays from the file saved by a checkpoint is exactly the suffix of the appended
   records that follows the requested sequence number -- for every history of Put/Delete/Cut/Truncate/Rotate.

   Invariant over the history (A = records appended so far, numbered s0+1, s0+2, ...):
     A = dropped ++ (records of the sealed segments) ++ (records of the active buffer),
     every buffer is the serialisation of its records with consecutive sequence numbers,
     every record of a sealed segment has a number <= the segment's latest,
     dropped = [] or s0 + |dropped| <= every Truncate argument's upper bound [after].
   Rotate with carry = true is Cut (w_rotate_cut); without the carried latest numbers a later Truncate drops
   records that are still needed (rotate_without_carry_loses_entries). *)
From RV Require Import Model.WalCodec Proofs.C17_Codec.
From Coq Require Import ZifyN ZifyNat ZifyBool.
Open Scope N_scope.

Definition wop_ok (op : wop) : Prop :=
  match op with
  | WPut k v => blen k < 4294967296 /\ blen v < 4294967296
  | WDel k => blen k < 4294967296
  | _ => True
  end.

Local Notation len l := (N.of_nat (length l)).

(* ---------- records and their serialisation ---------- *)
(* a record is an entry as produced by [op_entry]: sequence number 0, a delete has no value *)
Definition rec_ok (e : entry) : Prop :=
  blen (e_key e) < 4294967296 /\ blen (e_val e) < 4294967296 /\ e_seq e = 0 /\ (e_del e = true -> e_val e = []).

Definition rec_bytes (e : entry) (s : N) : bytes :=
  if e_del e then wal_del_bytes (e_key e) s else wal_put_bytes (e_key e) (e_val e) s.

(* records numbered f, f+1, ... *)
Fixpoint ser_wal (f : N) (l : list entry) : bytes :=
  match l with
  | [] => []
  | e :: r => rec_bytes e f ++ ser_wal (f + 1) r
  end.

(* what the reader makes of record e numbered s *)
Definition dec (e : entry) (s : N) : entry :=
  if e_del e then mkE (e_key e) [] 0 true else mkE (e_key e) (e_val e) s false.
Fixpoint decs (f : N) (l : list entry) : list entry :=
  match l with
  | [] => []
  | e :: r => dec e f :: decs (f + 1) r
  end.

Lemma op_entry_ok op : wop_ok op -> Forall rec_ok (op_entry op).
Proof.
  destruct op as [k v|k| |s| ]; cbn [wop_ok op_entry]; intros H; repeat constructor;
    unfold blen in *; cbn [e_key e_val e_seq e_del length]; try tauto; try lia; try discriminate.
Qed.

Lemma appended_ok pre : Forall wop_ok pre -> Forall rec_ok (appended pre).
Proof.
  intros H. unfold appended. induction H as [|op pre Hop _ IH]; cbn [flat_map]; [constructor|].
  apply Forall_app. split; [apply op_entry_ok; exact Hop|exact IH].
Qed.

Lemma Forall_skipn_ok n (l : list entry) : Forall rec_ok l -> Forall rec_ok (skipn n l).
Proof.
  intros H. rewrite <- (firstn_skipn n l) in H. apply Forall_app in H. tauto.
Qed.

Lemma ser_wal_app : forall a f b, ser_wal f (a ++ b) = ser_wal f a ++ ser_wal (f + len a) b.
Proof.
  induction a as [|e a IH]; intros f b.
  - cbn [app ser_wal length]. change (N.of_nat 0) with 0. rewrite N.add_0_r. reflexivity.
  - cbn [app ser_wal]. rewrite IH, <- app_assoc. f_equal. f_equal. f_equal. cbn [length]. lia.
Qed.

Lemma rec_bytes_len e s : (13 <= length (rec_bytes e s))%nat.
Proof.
  unfold rec_bytes, wal_put_bytes, wal_del_bytes, w_var. destruct (e_del e);
    rewrite !app_length, w_u64_len, w_u32_len; cbn [w_tomb length]; lia.
Qed.

Lemma ser_wal_len : forall l f, (length l <= length (ser_wal f l))%nat.
Proof.
  induction l as [|e l IH]; intros f; [cbn; lia|].
  cbn [ser_wal]. rewrite app_length. pose proof (rec_bytes_len e f) as H1. pose proof (IH (f + 1)) as H2.
  cbn [length]. lia.
Qed.

Lemma ser_wal_cons_nonempty e l f : ser_wal f (e :: l) <> [].
Proof.
  intros E. apply (f_equal (@length N)) in E. cbn [ser_wal] in E. rewrite app_length in E.
  pose proof (rec_bytes_len e f) as H1. cbn [length] in E. lia.
Qed.

Lemma rd_u64_rec e s r : exists r', rd_u64 (rec_bytes e s ++ r) = Some (u64 s, r').
Proof.
  unfold rec_bytes, wal_put_bytes, wal_del_bytes. destruct (e_del e); rewrite <- !app_assoc, rd_u64_wu64; eexists; reflexivity.
Qed.

Lemma skip1_rec e s r : rec_ok e -> wal_skip1 (rec_bytes e s ++ r) = Some r.
Proof.
  intros (Hk & Hv & _ & _). unfold wal_skip1, rec_bytes, wal_put_bytes, wal_del_bytes.
  destruct (e_del e); rewrite <- !app_assoc, rd_u64_wu64, (rd_var_w _ _ Hk), rd_tomb_w.
  - reflexivity.
  - rewrite (rd_var_w _ _ Hv). reflexivity.
Qed.

Lemma read1_rec e s r : rec_ok e -> s < 18446744073709551616 -> wal_read1 (rec_bytes e s ++ r) = Some (dec e s, r).
Proof.
  intros (Hk & Hv & _ & _) Hs. unfold wal_read1, rec_bytes, dec, wal_put_bytes, wal_del_bytes.
  destruct (e_del e); rewrite <- !app_assoc, rd_u64_wu64, (rd_var_w _ _ Hk), rd_tomb_w.
  - reflexivity.
  - rewrite (rd_var_w _ _ Hv), (u64_small _ Hs). reflexivity.
Qed.

Lemma strip_dec e s : rec_ok e -> strip_seq (dec e s) = e.
Proof.
  destruct e as [k v q d]. unfold rec_ok, dec, strip_seq. cbn [e_key e_val e_seq e_del].
  intros (_ & _ & Hq & Hd). subst q. destruct d; cbn [e_key e_val e_seq e_del].
  - rewrite (Hd eq_refl). reflexivity.
  - reflexivity.
Qed.

Lemma map_strip_decs : forall l f, Forall rec_ok l -> map strip_seq (decs f l) = l.
Proof.
  induction l as [|e l IH]; intros f H; [reflexivity|].
  inversion H as [|? ? He Hl]; subst. cbn [decs map]. rewrite (strip_dec _ _ He), (IH _ Hl). reflexivity.
Qed.

(* ---------- the reader on a serialisation ---------- *)
Lemma wal_skip_ser : forall n l fuel f,
  Forall rec_ok l -> (n <= length l)%nat -> (n <= fuel)%nat ->
  wal_skip fuel (N.of_nat n) (ser_wal f l) = Some (ser_wal (f + N.of_nat n) (skipn n l)).
Proof.
  induction n as [|n IH]; intros l fuel f Hok Hl Hf.
  - change (N.of_nat 0) with 0. cbn [skipn]. rewrite N.add_0_r. destruct fuel; reflexivity.
  - destruct fuel as [|fuel]; [lia|]. destruct l as [|e l]; [cbn [length] in Hl; lia|].
    inversion Hok as [|? ? He Hl']; subst.
    cbn [wal_skip]. replace (N.of_nat (S n) =? 0) with false by lia.
    cbn [ser_wal skipn]. rewrite (skip1_rec _ _ _ He).
    replace (N.of_nat (S n) - 1) with (N.of_nat n) by lia.
    cbn [length] in Hl. rewrite (IH l fuel (f + 1) Hl') by lia. f_equal. f_equal. lia.
Qed.

Lemma wal_read_ser : forall l fuel f acc,
  Forall rec_ok l -> f + len l <= 18446744073709551616 -> (length l <= fuel)%nat ->
  wal_read fuel (ser_wal f l) acc = WOk (rev acc ++ decs f l).
Proof.
  induction l as [|e l IH]; intros fuel f acc Hok Hb Hf.
  - cbn [ser_wal decs]. rewrite app_nil_r. destruct fuel; reflexivity.
  - cbn [length] in Hf, Hb. destruct fuel as [|fuel]; [lia|].
    inversion Hok as [|? ? He Hl]; subst.
    pose proof (ser_wal_cons_nonempty e l f) as Hne.
    cbn [ser_wal decs] in *. cbn [wal_read].
    destruct (rec_bytes e f ++ ser_wal (f + 1) l) as [|b0 d0] eqn:E; [exfalso; apply Hne; reflexivity|].
    rewrite <- E. rewrite (read1_rec _ _ _ He) by lia.
    rewrite (IH fuel (f + 1) (dec e f :: acc) Hl) by lia.
    cbn [rev]. rewrite <- app_assoc. reflexivity.
Qed.

Lemma wal_read_all_nonempty file after : file <> [] ->
  wal_read_all file after =
  match rd_u64 file with
  | None => WErr []
  | Some (first, _) =>
      if u64 (after + 1) <? first then WPanic
      else match wal_skip (length file) (u64 (after + 2 ^ 64 - first + 1)) file with
           | None => WErr []
           | Some d => wal_read (length d) d []
           end
  end.
Proof. destruct file as [|b r]; [intros H; exfalso; apply H; reflexivity|reflexivity]. Qed.

Lemma u64_wrapped_diff a f :
  f <= a + 1 -> a + 1 < 18446744073709551616 -> u64 (a + 2 ^ 64 - f + 1) = a + 1 - f.
Proof.
  intros H1 H2. unfold u64. rewrite wrap_mod. change (2 ^ 64) with 18446744073709551616.
  replace (a + 18446744073709551616 - f + 1) with ((a + 1 - f) + 1 * 18446744073709551616) by lia.
  rewrite N.mod_add by discriminate. apply N.mod_small. lia.
Qed.

(* Reader.All on a file of records numbered f, f+1, ...: the records numbered after+1 and later *)
Lemma wal_read_all_ser f L after :
  Forall rec_ok L -> f + len L <= 18446744073709551616 -> after + 1 < 18446744073709551616 ->
  f <= after + 1 -> after + 1 <= f + len L ->
  wal_read_all (ser_wal f L) after = WOk (decs (after + 1) (skipn (N.to_nat (after + 1 - f)) L)).
Proof.
  intros Hok Hb Ha Hlo Hhi. destruct L as [|e L'].
  - rewrite skipn_nil. reflexivity.
  - rewrite (wal_read_all_nonempty _ _ (ser_wal_cons_nonempty e L' f)).
    assert (Hrd : exists r', rd_u64 (ser_wal f (e :: L')) = Some (f, r')).
    { cbn [ser_wal]. destruct (rd_u64_rec e f (ser_wal (f + 1) L')) as [r' Hr]. exists r'.
      rewrite Hr, u64_small; [reflexivity|]. cbn [length] in Hb. lia. }
    destruct Hrd as [r' Hrd]. rewrite Hrd.
    rewrite (u64_small (after + 1)) by exact Ha.
    replace (after + 1 <? f) with false by lia.
    rewrite (u64_wrapped_diff _ _ Hlo Ha).
    set (L := e :: L') in *. set (n := N.to_nat (after + 1 - f)).
    replace (after + 1 - f) with (N.of_nat n) by (unfold n; lia).
    pose proof (ser_wal_len L f) as Hlen.
    rewrite (wal_skip_ser n L _ f Hok) by (unfold n; lia).
    pose proof (ser_wal_len (skipn n L) (f + N.of_nat n)) as Hlen2.
    assert (Hsl : (length (skipn n L) = length L - n)%nat) by apply skipn_length.
    rewrite (wal_read_ser _ _ _ [] (Forall_skipn_ok n L Hok)) by (unfold n in *; lia).
    cbn [rev app]. replace (f + N.of_nat n) with (after + 1) by (unfold n; lia). reflexivity.
Qed.

(* ---------- the writer as the image of an abstract state ---------- *)
(* a sealed segment: its records and its latest sequence number *)
Definition sseg := (list entry * N)%type.
Definition tot (ss : list sseg) : list entry := concat (map fst ss).

Fixpoint segs_of (f : N) (ss : list sseg) : list seg :=
  match ss with
  | [] => []
  | x :: r => mkSeg (ser_wal f (fst x)) (snd x) :: segs_of (f + len (fst x)) r
  end.

(* every record of a segment is numbered <= the segment's latest *)
Fixpoint segs_ok (f : N) (ss : list sseg) : Prop :=
  match ss with
  | [] => True
  | x :: r => (len (fst x) = 0 \/ f + len (fst x) <= snd x + 1) /\ segs_ok (f + len (fst x)) r
  end.

Lemma tot_cons x r : tot (x :: r) = fst x ++ tot r.
Proof. reflexivity. Qed.
Lemma tot_app a b : tot (a ++ b) = tot a ++ tot b.
Proof. unfold tot. rewrite map_app, concat_app. reflexivity. Qed.
Lemma tot_single a l : tot [(a, l)] = a.
Proof. unfold tot. cbn [map concat fst]. apply app_nil_r. Qed.

Lemma segs_of_app : forall a f b, segs_of f (a ++ b) = segs_of f a ++ segs_of (f + len (tot a)) b.
Proof.
  induction a as [|x a IH]; intros f b.
  - cbn [app segs_of]. change (len (tot [])) with 0. rewrite N.add_0_r. reflexivity.
  - cbn [app segs_of]. rewrite IH, tot_cons. f_equal. f_equal. f_equal. rewrite app_length. lia.
Qed.

Lemma segs_ok_app : forall a f b, segs_ok f (a ++ b) <-> segs_ok f a /\ segs_ok (f + len (tot a)) b.
Proof.
  induction a as [|x a IH]; intros f b.
  - cbn [app segs_ok]. change (len (tot [])) with 0. rewrite N.add_0_r. tauto.
  - cbn [app segs_ok]. rewrite IH, tot_cons.
    replace (f + len (fst x ++ tot a)) with (f + len (fst x) + len (tot a)) by (rewrite app_length; lia). tauto.
Qed.

Lemma flat_segs : forall ss f, flat_map sg_buf (segs_of f ss) = ser_wal f (tot ss).
Proof.
  induction ss as [|x r IH]; intros f; [reflexivity|].
  cbn [segs_of flat_map sg_buf]. rewrite IH, tot_cons, ser_wal_app. reflexivity.
Qed.

(* Truncate removes whole leading segments, hence only records numbered <= s *)
Lemma drop_upto_segs s : forall ss f, segs_ok f ss ->
  exists ss1 ss2, ss = ss1 ++ ss2 /\
    drop_upto s (segs_of f ss) = segs_of (f + len (tot ss1)) ss2 /\
    (len (tot ss1) = 0 \/ f + len (tot ss1) <= s + 1).
Proof.
  induction ss as [|x r IH]; intros f Hok.
  - exists [], []. split; [reflexivity|]. split; [reflexivity|]. left. reflexivity.
  - cbn [segs_of drop_upto sg_latest]. destruct (s <? snd x) eqn:E.
    + exists [], (x :: r). split; [reflexivity|]. change (len (tot [])) with 0. rewrite N.add_0_r.
      split; [reflexivity|]. left. reflexivity.
    + cbn [segs_ok] in Hok. destruct Hok as [Hx Hr].
      destruct (IH _ Hr) as (ss1 & ss2 & Hsplit & Hd & Hb). subst r.
      exists (x :: ss1), ss2. split; [reflexivity|]. rewrite tot_cons, app_length. split.
      * rewrite Hd. f_equal. lia.
      * lia.
Qed.

Lemma w_rotate_cut w : w_rotate_gen true w = w_cut w.
Proof.
  unfold w_rotate_gen, w_cut. f_equal. f_equal.
  induction (w_sealed w) as [|g l IH]; [reflexivity|]. cbn [map]. rewrite IH. destruct g; reflexivity.
Qed.

Definition Inv (s0 after : N) (A : list entry) (st : wstate) : Prop :=
  exists dropped ss act,
    A = dropped ++ tot ss ++ act /\
    (len dropped = 0 \/ s0 + len dropped <= after) /\
    w_sealed (ws_w st) = segs_of (s0 + len dropped + 1) ss /\
    segs_ok (s0 + len dropped + 1) ss /\
    w_active (ws_w st) = ser_wal (s0 + len dropped + 1 + len (tot ss)) act /\
    (len act = 0 \/ w_latest (ws_w st) = ws_seq st) /\
    ws_seq st = s0 + len A.

Lemma inv_init s0 after : Inv s0 after [] (mkWS new_writer s0 []).
Proof.
  exists [], [], []. cbn [ws_w ws_seq new_writer w_sealed w_active w_latest app length segs_of segs_ok ser_wal].
  repeat split; try (left; reflexivity). change (N.of_nat 0) with 0. lia.
Qed.

(* Put / Delete: one more record in the active buffer *)
Lemma inv_append s0 after A st e sv :
  Inv s0 after A st ->
  Inv s0 after (A ++ [e])
      (mkWS (mkW (w_sealed (ws_w st)) (w_active (ws_w st) ++ rec_bytes e (ws_seq st + 1)) (ws_seq st + 1))
            (ws_seq st + 1) sv).
Proof.
  intros (dr & ss & act & HA & Hd & Hs & Hok & Ha & Hl & Hq).
  exists dr, ss, (act ++ [e]). cbn [ws_w ws_seq w_sealed w_active w_latest].
  split; [rewrite HA, <- !app_assoc; reflexivity|].
  split; [exact Hd|]. split; [exact Hs|]. split; [exact Hok|].
  split.
  - rewrite ser_wal_app, Ha. cbn [ser_wal]. rewrite app_nil_r. f_equal. f_equal.
    rewrite Hq, HA, !app_length. lia.
  - split; [right; reflexivity|]. rewrite Hq, app_length. cbn [length]. lia.
Qed.

(* Cut (and Rotate): the active buffer becomes a sealed segment *)
Lemma inv_cut s0 after A st sv :
  Inv s0 after A st -> Inv s0 after A (mkWS (w_cut (ws_w st)) (ws_seq st) sv).
Proof.
  intros (dr & ss & act & HA & Hd & Hs & Hok & Ha & Hl & Hq).
  exists dr, (ss ++ [(act, w_latest (ws_w st))]), []. cbn [ws_w ws_seq w_cut w_sealed w_active w_latest].
  split; [rewrite tot_app, tot_single, app_nil_r; exact HA|].
  split; [exact Hd|]. split.
  - rewrite segs_of_app, Hs, Ha. reflexivity.
  - split.
    + apply segs_ok_app. split; [exact Hok|]. cbn [segs_ok fst snd]. split; [|exact I].
      rewrite Hq, HA, !app_length in *. lia.
    + split; [reflexivity|]. split; [left; reflexivity|exact Hq].
Qed.

Lemma inv_trunc s0 after A st s sv :
  Inv s0 after A st -> s <= after -> Inv s0 after A (mkWS (w_truncate (ws_w st) s) (ws_seq st) sv).
Proof.
  intros (dr & ss & act & HA & Hd & Hs & Hok & Ha & Hl & Hq) Hsa.
  destruct (drop_upto_segs s ss _ Hok) as (ss1 & ss2 & Hsplit & Hdrop & Hb). subst ss.
  exists (dr ++ tot ss1), ss2, act. cbn [ws_w ws_seq w_truncate w_sealed w_active w_latest].
  assert (E : s0 + len (dr ++ tot ss1) + 1 = s0 + len dr + 1 + len (tot ss1)) by (rewrite app_length; lia).
  split; [rewrite HA, tot_app, <- !app_assoc; reflexivity|].
  split; [rewrite app_length; lia|].
  split; [rewrite Hs, Hdrop, E; reflexivity|].
  split; [rewrite E; apply segs_ok_app in Hok; exact (proj2 Hok)|].
  split.
  - rewrite Ha, E. f_equal. rewrite tot_app, app_length. lia.
  - split; [exact Hl|exact Hq].
Qed.

Lemma inv_step s0 after A st op :
  Inv s0 after A st -> (forall s, op = WTrunc s -> s <= after) ->
  Inv s0 after (A ++ op_entry op) (wstep st op).
Proof.
  intros HI Ht. destruct op as [k v|k| |s| ]; unfold wstep; cbn [wstep_gen op_entry].
  - apply (inv_append s0 after A st (mkE k v 0 false) (ws_saved st) HI).
  - apply (inv_append s0 after A st (mkE k [] 0 true) (ws_saved st) HI).
  - rewrite app_nil_r. apply inv_cut. exact HI.
  - rewrite app_nil_r. apply inv_trunc; [exact HI|]. apply Ht. reflexivity.
  - rewrite app_nil_r, w_rotate_cut. apply inv_cut. exact HI.
Qed.

Lemma inv_run s0 after : forall ops A st,
  Inv s0 after A st -> (forall s, In (WTrunc s) ops -> s <= after) ->
  Inv s0 after (A ++ appended ops) (fold_left wstep ops st).
Proof.
  unfold appended. induction ops as [|op ops IH]; intros A st HI Ht.
  - cbn [flat_map fold_left]. rewrite app_nil_r. exact HI.
  - cbn [flat_map fold_left]. rewrite app_assoc. apply IH.
    + apply inv_step; [exact HI|]. intros s ->. apply Ht. left. reflexivity.
    + intros s Hin. apply Ht. right. exact Hin.
Qed.

(* the file a checkpoint saves = the serialisation of everything not truncated away *)
Lemma inv_file s0 after A st :
  Inv s0 after A st ->
  exists dropped L, A = dropped ++ L /\ (len dropped = 0 \/ s0 + len dropped <= after) /\
                    w_file (ws_w st) = ser_wal (s0 + len dropped + 1) L.
Proof.
  intros (dr & ss & act & HA & Hd & Hs & Hok & Ha & Hl & Hq).
  exists dr, (tot ss ++ act). split; [exact HA|]. split; [exact Hd|].
  unfold w_file. rewrite Hs, Ha, flat_segs, ser_wal_app. reflexivity.
Qed.

(* ---------- main theorem ---------- *)
(* [after + 1 < 2^64] is needed: with after = 2^64 - 1 the reader's uint64 [startAfter + 1] wraps to 0 and a
   non-empty file makes it panic (wal_reader_panics_at_uint64_max below). *)
Theorem wal_replays_suffix : forall s0 pre after,
  Forall wop_ok pre ->
  s0 + N.of_nat (length (appended pre)) < 18446744073709551616 ->
  after + 1 < 18446744073709551616 ->
  (forall s, In (WTrunc s) pre -> s <= after) ->
  s0 <= after -> after <= s0 + N.of_nat (length (appended pre)) ->
  exists es, wal_read_all (w_file (ws_w (wrun s0 pre))) after = WOk es /\
             map strip_seq es = skipn (N.to_nat (after - s0)) (appended pre).
Proof.
  intros s0 pre after Hok Hb Hab Ht Hlo Hhi.
  pose proof (inv_run s0 after pre [] _ (inv_init s0 after) Ht) as HI. cbn [app] in HI.
  change (fold_left wstep pre (mkWS new_writer s0 [])) with (wrun s0 pre) in HI.
  pose proof (appended_ok pre Hok) as HA.
  destruct (inv_file _ _ _ _ HI) as (dr & L & EA & Hd & Hf).
  rewrite Hf. rewrite EA in *. rewrite app_length in Hb, Hhi.
  apply Forall_app in HA. destruct HA as [_ HL].
  exists (decs (after + 1) (skipn (N.to_nat (after + 1 - (s0 + len dr + 1))) L)). split.
  - apply wal_read_all_ser; [exact HL|lia|exact Hab|lia|lia].
  - rewrite (map_strip_decs _ _ (Forall_skipn_ok _ _ HL)).
    rewrite skipn_app, (@skipn_all2 _ (N.to_nat (after - s0)) dr) by lia. cbn [app]. f_equal. lia.
Qed.

(* the same for the common case of a bound on the last sequence number handed out *)
Corollary wal_replays_suffix' : forall s0 pre after,
  Forall wop_ok pre ->
  s0 + N.of_nat (length (appended pre)) < 18446744073709551615 ->
  (forall s, In (WTrunc s) pre -> s <= after) ->
  s0 <= after -> after <= s0 + N.of_nat (length (appended pre)) ->
  exists es, wal_read_all (w_file (ws_w (wrun s0 pre))) after = WOk es /\
             map strip_seq es = skipn (N.to_nat (after - s0)) (appended pre).
Proof.
  intros s0 pre after Hok Hb Ht Hlo Hhi. apply wal_replays_suffix; try assumption; lia.
Qed.

(* the file saved by a Rotate issued next is the file of the theorem *)
Lemma saved_file_is_w_file : forall s0 pre,
  ws_saved (wrun s0 (pre ++ [WRotate])) = w_file (ws_w (wrun s0 pre)) :: ws_saved (wrun s0 pre).
Proof.
  intros s0 pre. unfold wrun, wrun_gen. rewrite fold_left_app. reflexivity.
Qed.

(* ---------- refutations by computed witnesses ---------- *)
(* the code before d4a4be4 (Rotate carries the buffers with latestSeqNum 0): a Truncate after a checkpoint
   drops records that the next replay needs; the reader panics *)
Lemma rotate_without_carry_loses_entries :
  exists s0 pre after,
    (forall s, In (WTrunc s) pre -> s <= after) /\ s0 <= after /\
    after <= s0 + N.of_nat (length (appended pre)) /\
    wal_read_all (w_file (ws_w (wrun_gen false s0 pre))) after = WPanic.
Proof.
  exists 0, [WPut [97] [1]; WPut [98] [2]; WCut; WPut [99] [3]; WRotate; WTrunc 2; WPut [100] [4]], 2.
  split.
  - intros s Hin. cbn [In] in Hin.
    repeat (destruct Hin as [Hin|Hin]; [try discriminate Hin|]); [|contradiction].
    injection Hin as <-. apply N.le_refl.
  - split; [discriminate|]. split; [vm_compute; discriminate|]. vm_compute. reflexivity.
Qed.

(* the boundary excluded by [after + 1 < 2^64] is real *)
Lemma wal_reader_panics_at_uint64_max :
  wal_read_all (w_file (ws_w (wrun 18446744073709551614 [WPut [] []]))) 18446744073709551615 = WPanic.
Proof. vm_compute. reflexivity. Qed.
