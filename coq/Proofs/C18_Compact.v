(* Every change set computed by Compactor.Compact on a valid layout is good (C18_Apply.good_cs), also with respect to
   the layout extended by further level-0 components (new level-0 tables from flushes, memtables). *)
From Coq Require Import List NArith Bool Lia.
From RV Require Import Base.Bytes Model.LsmBase Model.LsmCompaction Proofs.C07_Sorted Proofs.C18_Layout Proofs.C18_Apply.
Import ListNotations.
Open Scope N_scope.

(* ---------- WriteRun ---------- *)

Lemma fill_spec limit buf rest b r en :
  fill limit buf rest = (b, r, en) ->
  b ++ r = buf ++ rest /\ (exists x, b = buf ++ x) /\ (en = true -> r = []) /\ (en = false -> limit <= run_size b).
Proof.
  revert buf. induction rest as [|e rest IH]; intros buf H; cbn [fill] in H.
  - injection H as <- <- <-. repeat split; auto.
    + exists []. rewrite app_nil_r. reflexivity.
    + intros H. apply N.ltb_ge in H. exact H.
  - destruct (run_size buf <? limit) eqn:L.
    + destruct (IH _ H) as (H1 & (x & H2) & H3 & H4). repeat split; auto.
      * rewrite H1, <- app_assoc. reflexivity.
      * exists (e :: x). rewrite H2, <- app_assoc. reflexivity.
    + injection H as <- <- <-. repeat split; auto.
      * exists []. rewrite app_nil_r. reflexivity.
      * discriminate.
      * intros _. apply N.ltb_ge in L. exact L.
Qed.

Lemma wr_loop_spec fuel target written buf rest :
  1 <= target -> (written = true \/ buf ++ rest <> []) ->
  concat (wr_loop fuel target written buf rest) = buf ++ rest /\
  forall a, In a (wr_loop fuel target written buf rest) -> a <> [].
Proof.
  intros Ht. revert written buf rest. induction fuel as [|f IH]; intros written buf rest Hw; cbn [wr_loop].
  - destruct (buf ++ rest) as [|x l] eqn:E.
    + destruct Hw as [->|Hw]; [|congruence]. split; [reflexivity|intros a []].
    + split; [cbn; rewrite app_nil_r; reflexivity|]. intros a [<-|[]]. discriminate.
  - destruct (fill target buf rest) as [[b1 rest1] en1] eqn:F1.
    destruct (fill_spec _ _ _ _ _ _ F1) as (A1 & (x1 & A2) & A3 & A4).
    destruct en1.
    + specialize (A3 eq_refl). subst rest1. rewrite app_nil_r in A1. rewrite <- A1.
      destruct b1 as [|y b1].
      * destruct Hw as [->|Hw]; [|congruence]. split; [reflexivity|intros a []].
      * split; [cbn; rewrite app_nil_r; reflexivity|]. intros a [<-|[]]. discriminate.
    + specialize (A4 eq_refl).
      assert (Hb1 : b1 <> []) by (intros ->; cbn in A4; lia).
      destruct (fill (max_buffer target) b1 rest1) as [[b2 rest2] en2] eqn:F2.
      destruct (fill_spec _ _ _ _ _ _ F2) as (B1 & (x2 & B2) & B3 & B4).
      destruct en2.
      * specialize (B3 eq_refl). subst rest2. rewrite app_nil_r in B1.
        split; [cbn; rewrite app_nil_r; congruence|]. intros a [<-|[]]. subst b2. destruct b1; [congruence|discriminate].
      * assert (Hf : firstn (length b1) b2 = b1) by (subst b2; rewrite firstn_app, Nat.sub_diag, firstn_all; cbn; apply app_nil_r).
        assert (Hs : skipn (length b1) b2 = x2) by (subst b2; rewrite skipn_app, Nat.sub_diag, skipn_all; reflexivity).
        destruct (IH true (skipn (length b1) b2) rest2 (or_introl eq_refl)) as [C1 C2]. split.
        -- cbn [concat]. rewrite C1, Hf, Hs, <- A1, <- B1, B2, <- app_assoc. reflexivity.
        -- intros a [<-|Ha]; [rewrite Hf; exact Hb1|apply C2; exact Ha].
Qed.

Lemma write_run_spec es target :
  1 <= target -> es <> [] -> concat (write_run es target) = es /\ forall a, In a (write_run es target) -> a <> [].
Proof. intros Ht He. unfold write_run. apply (wr_loop_spec _ _ false [] es Ht). right. exact He. Qed.

(* ---------- tables sit at one level ---------- *)

Lemma level_unique ll i i' li li' r :
  LLInv ll -> nth_error ll i = Some li -> nth_error ll i' = Some li' -> In r li -> In r li' -> i = i'.
Proof.
  intros Hv Hi Hi' Hr Hr'. destruct r as [|e r].
  - destruct i as [|i]; [|destruct (v_deep _ Hv _ _ Hi) as [_ H]; exfalso; exact (H _ Hr eq_refl)].
    destruct i' as [|i']; [reflexivity|destruct (v_deep _ Hv _ _ Hi') as [_ H]; exfalso; exact (H _ Hr' eq_refl)].
  - destruct (Nat.lt_trichotomy i i') as [H|[H|H]]; [|exact H|]; exfalso.
    + pose proof (v_ord _ Hv _ _ _ _ _ _ e e H Hi Hi' Hr Hr' (or_introl eq_refl) (or_introl eq_refl) eq_refl). lia.
    + pose proof (v_ord _ Hv _ _ _ _ _ _ e e H Hi' Hi Hr' Hr (or_introl eq_refl) (or_introl eq_refl) eq_refl). lia.
Qed.

(* the layout seen by readers: the real level list [ll] with further components [m] (memtables, newly flushed
   tables) appended to level 0 *)
Definition vlay (ll : levels) (m : list table) : levels := (hd [] ll ++ m) :: tl ll.

Lemma vlay_nth_S ll m i : nth_error (vlay ll m) (S i) = nth_error ll (S i).
Proof. unfold vlay. cbn. rewrite nth_error_tl. reflexivity. Qed.
Lemma vlay_nth_0 ll m : ll <> [] -> nth_error (vlay ll m) 0 = Some (hd [] ll ++ m).
Proof. reflexivity. Qed.
Lemma vlay_length ll m : ll <> [] -> length (vlay ll m) = length ll.
Proof. destruct ll; [congruence|reflexivity]. Qed.
Lemma vlay_nil ll : ll <> [] -> vlay ll [] = ll.
Proof. destruct ll; [congruence|]. intros _. unfold vlay. cbn. rewrite app_nil_r. reflexivity. Qed.

(* a real table is also a table of the extended layout, at the same level *)
Lemma vlay_in ll m i l t : nth_error ll i = Some l -> In t l -> exists l', nth_error (vlay ll m) i = Some l' /\ In t l'.
Proof.
  intros Hi Ht. destruct i as [|i].
  - destruct ll as [|l0 ll]; [discriminate|]. cbn in Hi. injection Hi as ->. exists (l ++ m). split; [reflexivity|apply in_or_app; auto].
  - exists l. rewrite vlay_nth_S. auto.
Qed.

Lemma nth_nth_error {A} (l : list A) i d : (i < length l)%nat -> nth_error l i = Some (nth i l d).
Proof. intros H. apply nth_error_nth'. exact H. Qed.
Lemma nth_error_nth_eq {A} (l : list A) i d x : nth_error l i = Some x -> nth i l d = x.
Proof. intros H. apply nth_error_nth. exact H. Qed.

(* ---------- merging level i into level i+1 (both minor compaction steps) ---------- *)

Section MergeLevels.
  Variables (tsize : table -> N) (cfg : ccfg) (ll : levels) (m : list table) (i0 : nat).
  Hypothesis Hv : LLInv (vlay ll m).
  Hypothesis Hlen : (S i0 < length ll)%nat.
  Hypothesis Htarget : 1 <= c_target cfg.
  (* the input is not empty: some table of level i0 has an entry *)
  Hypothesis Hin : exists t e, In t (nth i0 ll []) /\ In e t.

  Let li := nth i0 ll [].
  Let lj := nth (S i0) ll [].
  Let cs := merge_levels cfg ll i0.

  Lemma ml_li : nth_error ll i0 = Some li.
  Proof. apply nth_nth_error. lia. Qed.
  Lemma ml_lj : nth_error ll (S i0) = Some lj.
  Proof. apply nth_nth_error. lia. Qed.
  Lemma ml_ne : ll <> [].
  Proof. destruct ll; [cbn in Hlen; lia|discriminate]. Qed.

  Lemma ml_rem r : In r (cs_rem cs) <-> In r li \/ In r lj.
  Proof. unfold cs, merge_levels. cbn. rewrite in_app_iff. reflexivity. Qed.

  Lemma merge_levels_good : good_cs (vlay ll m) cs.
  Proof.
    pose proof ml_li as Eli. pose proof ml_lj as Elj. pose proof ml_ne as Hne.
    constructor.
    - unfold cs, merge_levels. cbn [cs_level]. rewrite vlay_length by exact Hne. lia.
    - intros l t Hl Ht. unfold cs, merge_levels in Hl. cbn [cs_level] in Hl. rewrite vlay_nth_S, Elj in Hl. injection Hl as <-.
      apply ml_rem. right. exact Ht.
    - intros r Hr. apply ml_rem in Hr as [Hr|Hr].
      + destruct (vlay_in _ m _ _ _ Eli Hr) as (l' & H1 & H2). exists i0, l'. unfold cs, merge_levels. cbn [cs_level]. repeat split; auto.
      + destruct (vlay_in _ m _ _ _ Elj Hr) as (l' & H1 & H2). exists (S i0), l'. unfold cs, merge_levels. cbn [cs_level]. repeat split; auto.
    - unfold cs, merge_levels. cbn [cs_add cs_rem]. apply write_run_spec; [exact Htarget|].
      destruct Hin as (t & e & Ht & He). intros Hnil.
      destruct (Mx_merge_all (nth i0 ll [] ++ nth (S i0) ll [])) as (_ & _ & H3).
      destruct (H3 e) as (x & Hx & _); [exists t; split; [apply in_or_app; left; exact Ht|exact He]|].
      rewrite Hnil in Hx. discriminate.
    - (* closed: a removed table at level i < j <= i0+1 can only be at level i0, so j = i0+1 *)
      intros i j l l' r t Hij Hi Hj Hr HrR Ht. unfold cs, merge_levels in Hij. cbn [cs_level] in Hij.
      apply ml_rem in HrR. apply ml_rem. right.
      assert (i = i0).
      { destruct HrR as [HrR|HrR].
        - destruct (vlay_in _ m _ _ _ Eli HrR) as (l2 & H1 & H2). eapply level_unique; eauto.
        - destruct (vlay_in _ m _ _ _ Elj HrR) as (l2 & H1 & H2). assert (i = S i0) by (eapply level_unique; eauto). lia. }
      subst i. assert (j = S i0) by lia. subst j. rewrite vlay_nth_S, Elj in Hj. injection Hj as <-. exact Ht.
    - (* level 0 *)
      intros l r t e e' Hl Hr HrR Ht HtR He He'. rewrite vlay_nth_0 in Hl by exact Hne. injection Hl as <-.
      apply ml_rem in HrR.
      assert (H00 : nth_error (vlay ll m) 0 = Some (hd [] ll ++ m)) by (apply vlay_nth_0; exact Hne).
      assert (Hli0 : i0 = 0%nat -> li = hd [] ll) by (intros E; unfold li; rewrite E; destruct ll; [congruence|reflexivity]).
      assert (i0 = 0%nat /\ In r (hd [] ll)) as [Hi0 Hr0].
      { destruct HrR as [HrR|HrR].
        - destruct (vlay_in _ m _ _ _ Eli HrR) as (l2 & H1 & H2).
          assert (0%nat = i0) by (eapply level_unique; [exact Hv|exact H00|exact H1|exact Hr|exact H2]).
          split; [lia|]. rewrite <- Hli0 by lia. exact HrR.
        - destruct (vlay_in _ m _ _ _ Elj HrR) as (l2 & H1 & H2).
          assert (0%nat = S i0) by (eapply level_unique; [exact Hv|exact H00|exact H1|exact Hr|exact H2]). lia. }
      assert (Htm : In t m).
      { apply in_app_or in Ht as [Ht|Ht]; [|exact Ht]. exfalso. apply HtR. apply ml_rem. left. rewrite Hli0 by exact Hi0. exact Ht. }
      pose proof (v_sep _ Hv _ H00) as Hsep. apply sep_app in Hsep as (_ & _ & Hsep). eapply Hsep; eauto.
    - intros j l t Hj Hl Ht HtR. unfold cs, merge_levels in Hj. cbn [cs_level] in Hj. apply ml_rem in HtR as [HtR|HtR].
      + destruct (vlay_in _ m _ _ _ Eli HtR) as (l2 & H1 & H2). assert (j = i0) by (eapply level_unique; eauto). lia.
      + destruct (vlay_in _ m _ _ _ Elj HtR) as (l2 & H1 & H2). assert (j = S i0) by (eapply level_unique; eauto). lia.
  Qed.
End MergeLevels.

(* ---------- major compaction: the shape of the picked set ---------- *)

Lemma ins_age_in t l x : In x (ins_age t l) <-> x = t \/ In x l.
Proof.
  induction l as [|y l IH]; cbn; [intuition|]. destruct (age t <? age y); cbn; [intuition|]. rewrite IH. intuition.
Qed.
Lemma sort_age_in l x : In x (sort_age l) <-> In x l.
Proof.
  unfold sort_age. rewrite (in_rev l). induction (rev l) as [|y r IH]; cbn; [reflexivity|]. rewrite ins_age_in, IH. intuition.
Qed.

Lemma in_firstn' {A} q (l : list A) x : In x (firstn q l) -> In x l.
Proof. intros H. rewrite <- (firstn_skipn q l). apply in_or_app. left. exact H. Qed.
Lemma in_skipn' {A} q (l : list A) x : In x (skipn q l) -> In x l.
Proof. intros H. rewrite <- (firstn_skipn q l). apply in_or_app. right. exact H. Qed.

Fixpoint asorted (l : list table) : Prop :=
  match l with [] => True | x :: r => (forall y, In y r -> age x <= age y) /\ asorted r end.
Lemma ins_age_sorted t l : asorted l -> asorted (ins_age t l).
Proof.
  induction l as [|y l IH]; cbn; [intros _; split; [intros ? []|exact I]|]. intros [H1 H2].
  destruct (age t <? age y) eqn:L; cbn.
  - apply N.ltb_lt in L. split; [|split; auto]. intros z [<-|Hz]; [lia|]. specialize (H1 _ Hz). lia.
  - apply N.ltb_ge in L. split; [|auto]. intros z Hz. apply ins_age_in in Hz as [->|Hz]; [lia|auto].
Qed.
Lemma sort_age_sorted l : asorted (sort_age l).
Proof. unfold sort_age. induction (rev l) as [|y r IH]; cbn; [exact I|apply ins_age_sorted; exact IH]. Qed.
Lemma asorted_split q s x y : asorted s -> In x (firstn q s) -> In y (skipn q s) -> age x <= age y.
Proof.
  revert q. induction s as [|z s IH]; intros q Hs Hx Hy; [destruct q; destruct Hx|].
  destruct q as [|q]; [destruct Hx|]. cbn in Hx, Hy, Hs. destruct Hs as [H1 H2]. destruct Hx as [<-|Hx].
  - apply H1. eapply in_skipn'. exact Hy.
  - eapply IH; eauto.
Qed.

Section Pick.
  Variable tsize : table -> N.

  Lemma pick_tables_prefix maxamp cands elig base p e d :
    pick_tables tsize maxamp cands elig base = (p, e, d) ->
    (exists q, p = firstn q cands) /\ (d = false -> p = cands) /\ (cands <> [] -> p <> []).
  Proof.
    revert elig p e d. induction cands as [|c r IH]; intros elig p e d H; cbn [pick_tables] in H.
    - injection H as <- <- <-. split; [exists 0%nat; reflexivity|split; [reflexivity|congruence]].
    - destruct (pct (elig - tsize c) base <? maxamp).
      + injection H as <- <- <-. split; [exists 1%nat; reflexivity|split; [discriminate|discriminate]].
      + destruct (pick_tables tsize maxamp r (elig - tsize c) base) as [[p' e'] d'] eqn:E. injection H as <- <- <-.
        destruct (IH _ _ _ _ E) as ((q & Hq) & H2 & _). split; [exists (S q); cbn; rewrite Hq; reflexivity|].
        split; [intros Hd; rewrite (H2 Hd); reflexivity|discriminate].
  Qed.

  Lemma pick_levels_shape maxamp asc elig base :
    asc <> [] ->
    exists A1 lp A2 q, asc = A1 ++ lp :: A2 /\
      pick_levels tsize maxamp asc elig base = map sort_age A1 ++ firstn q (sort_age lp) :: map (fun _ => []) A2.
  Proof.
    revert elig. induction asc as [|l r IH]; intros elig Hne; [congruence|]. cbn [pick_levels].
    destruct (pick_tables tsize maxamp (sort_age l) elig base) as [[p e] d] eqn:E.
    destruct (pick_tables_prefix _ _ _ _ _ _ _ E) as ((q & Hq) & Hd & Hp).
    destruct d.
    - exists [], l, r, q. cbn. rewrite Hq. split; reflexivity.
    - specialize (Hd eq_refl). destruct r as [|l2 r].
      + exists [], l, [], (length (sort_age l)). cbn. rewrite firstn_all, Hd. split; reflexivity.
      + destruct (IH e ltac:(discriminate)) as (A1 & lp & A2 & q' & H1 & H2).
        exists (l :: A1), lp, A2, q'. cbn [app map]. rewrite H1 at 1. rewrite H2, Hd. split; reflexivity.
  Qed.

  Lemma pick_levels_nonempty maxamp asc elig base :
    (exists l, In l asc /\ l <> []) ->
    exists t l, In t (concat (pick_levels tsize maxamp asc elig base)) /\ In l asc /\ In t l.
  Proof.
    revert elig. induction asc as [|l r IH]; intros elig (l' & Hl' & Hne); [destruct Hl'|]. cbn [pick_levels].
    destruct (pick_tables tsize maxamp (sort_age l) elig base) as [[p e] d] eqn:E.
    destruct (pick_tables_prefix _ _ _ _ _ _ _ E) as ((q & Hq) & Hd & Hp).
    destruct l as [|x l].
    - cbn in E. injection E as <- <- <-. destruct Hl' as [<-|Hl']; [congruence|].
      destruct (IH elig (ex_intro _ l' (conj Hl' Hne))) as (t & l2 & H1 & H2 & H3).
      exists t, l2. split; [cbn; exact H1|split; [right; exact H2|exact H3]].
    - assert (Hs : sort_age (x :: l) <> []).
      { intros Hs. assert (In x (sort_age (x :: l))) by (apply sort_age_in; left; reflexivity). rewrite Hs in H. destruct H. }
      specialize (Hp Hs). destruct p as [|t p]; [congruence|]. exists t, (x :: l).
      split; [destruct d; cbn; left; reflexivity|]. split; [left; reflexivity|].
      apply sort_age_in. apply (in_firstn' q). rewrite <- Hq. left. reflexivity.
  Qed.
End Pick.

Lemma nth_after_split {A} (P Q : list (list A)) lp r :
  (exists j lj, (length P < j)%nat /\ nth_error (P ++ lp :: Q) j = Some lj /\ In r lj) <-> (exists l, In l Q /\ In r l).
Proof.
  split.
  - intros (j & lj & Hj & Hn & Hr). rewrite nth_error_app2 in Hn by lia.
    destruct (j - length P)%nat as [|k] eqn:E; [lia|]. cbn in Hn. exists lj. split; [eapply nth_error_In; eauto|exact Hr].
  - intros (l & Hl & Hr). apply In_nth_error in Hl as (k & Hk). exists (length P + S k)%nat, l. split; [lia|]. split; [|exact Hr].
    rewrite nth_error_app2 by lia. replace (length P + S k - length P)%nat with (S k) by lia. exact Hk.
Qed.

Lemma concat_map_nil {A B} (l : list A) : concat (map (fun _ => @nil B) l) = [].
Proof. induction l; cbn; auto. Qed.

Lemma sep_two cs r t :
  sep cs -> In r cs -> In t cs -> r <> t ->
  (forall e e', In e r -> In e' t -> eseq e < eseq e') \/ (forall e e', In e r -> In e' t -> eseq e' < eseq e).
Proof.
  induction cs as [|x cs IH]; [intros _ []|]. cbn. intros [H1 H2] [<-|Hr] [<-|Ht] Hne.
  - congruence.
  - left. intros e e' He He'. eapply H1; eauto.
  - right. intros e e' He He'. eapply H1; eauto.
  - apply IH; auto.
Qed.

Section Major.
  Variables (tsize : table -> N) (cfg : ccfg) (ll : levels) (m : list table).
  Hypothesis Hv : LLInv (vlay ll m).
  Hypothesis Hlen : (2 <= length ll)%nat.
  Hypothesis Htarget : 1 <= c_target cfg.
  Hypothesis Hne0 : forall t, In t (hd [] ll) -> t <> [].
  Hypothesis Hup : exists l, In l (removelast ll) /\ l <> [].

  Local Notation cs := (major tsize cfg ll).

  Lemma mj_ne : ll <> [].
  Proof. destruct ll; [cbn in Hlen; lia|discriminate]. Qed.

  Lemma major_shape :
    exists ip q lp, nth_error ll ip = Some lp /\ (S ip < length ll)%nat /\
      forall r, In r (cs_rem cs) <->
        (exists j lj, (ip < j)%nat /\ nth_error ll j = Some lj /\ In r lj) \/ In r (firstn q (sort_age lp)).
  Proof.
    pose proof mj_ne as Hne.
    assert (Hupne : rev (removelast ll) <> []).
    { intros H. apply (f_equal (@length _)) in H. rewrite rev_length in H. cbn in H.
      pose proof (app_removelast_last [] Hne) as E. apply (f_equal (@length _)) in E. rewrite app_length in E. cbn in E. lia. }
    destruct (pick_levels_shape tsize (c_maxamp cfg) _ (eligible tsize ll) (base_size tsize ll) Hupne) as (A1 & lp & A2 & q & H1 & H2).
    remember (last ll []) as base eqn:Hbase.
    assert (Hll2 : ll = rev A2 ++ lp :: (rev A1 ++ [base])).
    { rewrite (app_removelast_last [] Hne) at 1. rewrite <- Hbase. rewrite <- (rev_involutive (removelast ll)), H1.
      rewrite rev_app_distr. cbn. rewrite <- !app_assoc. reflexivity. }
    assert (Hlenll : length ll = (length (rev A2) + S (length (rev A1) + 1))%nat).
    { rewrite Hll2 at 1. rewrite app_length. cbn. rewrite app_length. cbn. reflexivity. }
    exists (length (rev A2)), q, lp. split; [|split].
    - rewrite Hll2 at 1. rewrite nth_error_app2 by lia. rewrite Nat.sub_diag. reflexivity.
    - lia.
    - intros r. unfold major. cbn [cs_rem]. rewrite H2, <- Hbase. rewrite in_app_iff, concat_app, in_app_iff. cbn [concat].
      rewrite in_app_iff, concat_map_nil.
      pose proof (nth_after_split (rev A2) (rev A1 ++ [base]) lp r) as Hns. rewrite <- Hll2 in Hns. rewrite Hns. split.
      + intros [[H|[H|[]]]|H].
        * left. apply in_concat in H as (s & Hs & Hr). apply in_map_iff in Hs as (l & <- & Hl). apply (proj1 (sort_age_in _ _)) in Hr.
          exists l. split; [apply in_or_app; left; apply in_rev in Hl; exact Hl|exact Hr].
        * right. exact H.
        * left. exists base. split; [apply in_or_app; right; left; reflexivity|exact H].
      + intros [(l & Hl & Hr)|H]; [|left; right; left; exact H].
        apply in_app_or in Hl as [Hl|[<-|[]]]; [|right; exact Hr].
        left. left. apply in_concat. exists (sort_age l). split; [apply in_map; apply in_rev; exact Hl|apply sort_age_in; exact Hr].
  Qed.

  Lemma major_good : good_cs (vlay ll m) cs.
  Proof.
    pose proof mj_ne as Hne.
    destruct major_shape as (ip & q & lp & Hip & Hiplen & HR).
    assert (H00 : nth_error (vlay ll m) 0 = Some (hd [] ll ++ m)) by (apply vlay_nth_0; exact Hne).
    assert (Hlvl : cs_level cs = (length ll - 1)%nat) by reflexivity.
    (* the real level of a removed table *)
    assert (Hwhere : forall r i li, In r (cs_rem cs) -> nth_error (vlay ll m) i = Some li -> In r li ->
              ((ip < i)%nat) \/ (i = ip /\ In r (firstn q (sort_age lp)))).
    { intros r i li HrR Hi Hr. apply HR in HrR as [(j & lj & Hj & Hlj & Hrj)|HrR].
      - left. destruct (vlay_in _ m _ _ _ Hlj Hrj) as (l2 & G1 & G2).
        assert (i = j) by (eapply level_unique; [exact Hv|exact Hi|exact G1|exact Hr|exact G2]). lia.
      - right. split; [|exact HrR]. assert (Hrl : In r lp) by (apply sort_age_in; eapply in_firstn'; exact HrR).
        destruct (vlay_in _ m _ _ _ Hip Hrl) as (l2 & G1 & G2).
        eapply level_unique; [exact Hv|exact Hi|exact G1|exact Hr|exact G2]. }
    constructor.
    - rewrite Hlvl, vlay_length by exact Hne. lia.
    - intros l t Hl Ht. rewrite Hlvl in Hl. apply HR. left. exists (length ll - 1)%nat, l.
      split; [lia|]. split; [|exact Ht]. destruct (length ll - 1)%nat as [|k] eqn:E; [lia|]. rewrite vlay_nth_S in Hl. exact Hl.
    - intros r Hr. apply HR in Hr as [(j & lj & Hj & Hlj & Hrj)|Hr].
      + destruct (vlay_in _ m _ _ _ Hlj Hrj) as (l2 & G1 & G2). exists j, l2. rewrite Hlvl. split; [|auto].
        assert (j < length ll)%nat by (apply nth_error_Some; congruence). lia.
      + assert (Hrl : In r lp) by (apply sort_age_in; eapply in_firstn'; exact Hr).
        destruct (vlay_in _ m _ _ _ Hip Hrl) as (l2 & G1 & G2). exists ip, l2. rewrite Hlvl. split; [lia|auto].
    - unfold major. cbn [cs_add cs_rem]. apply write_run_spec; [exact Htarget|].
      (* the merge input holds a non-empty table *)
      assert (Hupr : exists l, In l (rev (removelast ll)) /\ l <> []) by (destruct Hup as (l & H1 & H2); exists l; split; [apply in_rev in H1; exact H1|exact H2]).
      destruct (pick_levels_nonempty tsize (c_maxamp cfg) _ (eligible tsize ll) (base_size tsize ll) Hupr) as (t & l & Ht1 & Hl & Ht2).
      apply in_rev in Hl.
      assert (Hlin : In l ll) by (rewrite (app_removelast_last [] Hne); apply in_or_app; left; exact Hl).
      apply In_nth_error in Hlin as (i & Hi).
      assert (Htne : t <> []).
      { destruct i as [|i].
        - apply Hne0. destruct ll; [congruence|]. cbn in Hi. injection Hi as ->. exact Ht2.
        - rewrite <- (vlay_nth_S ll m) in Hi. destruct (v_deep _ Hv _ _ Hi) as [_ Hd]. apply Hd. exact Ht2. }
      destruct t as [|e t]; [congruence|]. intros Hnil.
      match type of Hnil with merge_all ?X = _ => destruct (Mx_merge_all X) as (_ & _ & H3) end.
      destruct (H3 e) as (x & Hx & _); [exists (e :: t); split; [apply in_or_app; left; exact Ht1|left; reflexivity]|].
      rewrite Hnil in Hx. discriminate.
    - (* closed *)
      intros i j li lj r t Hij Hi Hj Hr HrR Ht. apply HR. left.
      assert (ip <= i)%nat by (destruct (Hwhere _ _ _ HrR Hi Hr) as [H|[H _]]; lia).
      exists j, lj. split; [lia|]. split; [|exact Ht]. destruct j as [|j]; [lia|]. rewrite vlay_nth_S in Hj. exact Hj.
    - (* level 0: the picked level-0 tables are older than the others *)
      intros l r t e e' Hl Hr HrR Ht HtR He He'. rewrite H00 in Hl. injection Hl as <-.
      destruct (Hwhere _ _ _ HrR H00 Hr) as [H|[Hip0 Hrq]]; [lia|]. subst ip.
      assert (Hlp : lp = hd [] ll) by (destruct ll; [congruence|cbn in Hip; injection Hip as ->; reflexivity]).
      assert (Hrl0 : In r (hd [] ll)) by (rewrite <- Hlp; apply sort_age_in; eapply in_firstn'; exact Hrq).
      pose proof (v_sep _ Hv _ H00) as Hsep.
      apply in_app_or in Ht as [Ht|Ht]; [|apply sep_app in Hsep as (_ & _ & Hsep); eapply Hsep; eauto].
      assert (Hts : In t (skipn q (sort_age lp))).
      { assert (In t (sort_age lp)) by (apply sort_age_in; rewrite Hlp; exact Ht).
        rewrite <- (firstn_skipn q (sort_age lp)) in H. apply in_app_or in H as [H|H]; [|exact H].
        exfalso. apply HtR. apply HR. right. exact H. }
      pose proof (asorted_split _ _ _ _ (sort_age_sorted lp) Hrq Hts) as Hage.
      assert (Hrt : r <> t) by (intros ->; contradiction).
      apply sep_app in Hsep as (Hsep & _ & _).
      destruct (sep_two _ _ _ Hsep Hrl0 Ht Hrt) as [H|H]; [eapply H; eauto|exfalso].
      pose proof (Hne0 _ Hrl0) as Hr1. pose proof (Hne0 _ Ht) as Ht1.
      destruct r as [|er r]; [congruence|]. destruct t as [|et t]; [congruence|]. cbn in Hage.
      specialize (H er et (or_introl eq_refl) (or_introl eq_refl)). lia.
    - intros j l t Hj Hl Ht. rewrite Hlvl in Hj. assert (j < length (vlay ll m))%nat by (apply nth_error_Some; congruence).
      rewrite vlay_length in H by exact Hne. lia.
  Qed.
End Major.

(* ---------- Compactor.Compact ---------- *)

Section Compact.
  Variables (tsize : table -> N) (cfg : ccfg).

  Lemma lvl_size_pos l : 0 < lvl_size tsize l -> l <> [].
  Proof. intros H ->. cbn in H. lia. Qed.

  Lemma eligible_pos ll : 0 < eligible tsize ll -> exists l, In l (removelast ll) /\ l <> [].
  Proof.
    unfold eligible. induction (removelast ll) as [|l r IH]; cbn; [lia|]. intros H.
    destruct (N.eq_dec (lvl_size tsize l) 0) as [E|E].
    - destruct IH as (l' & H1 & H2); [lia|]. exists l'. auto.
    - exists l. split; [left; reflexivity|apply lvl_size_pos; lia].
  Qed.

  Lemma minor_loop_spec fuel ll mcl cs mcl' :
    minor_loop tsize fuel cfg ll mcl = (Some cs, mcl') ->
    exists i, (S i < length ll)%nat /\ cs = merge_levels cfg ll i /\ mcl' = S i /\ (mcl <= i)%nat /\ 0 < lvl_size tsize (nth i ll []).
  Proof.
    revert mcl. induction fuel as [|f IH]; intros mcl H; cbn [minor_loop] in H; [discriminate|].
    destruct (Nat.ltb mcl (length ll - 1)) eqn:L; [|discriminate]. apply Nat.ltb_lt in L.
    destruct (c_smallest cfg * N.of_nat mcl <? lvl_size tsize (nth mcl ll [])) eqn:S.
    - injection H as <- <-. apply N.ltb_lt in S. exists mcl. repeat split; auto; lia.
    - destruct (IH _ H) as (i & H1 & H2 & H3 & H4 & H5). exists i. repeat split; auto. lia.
  Qed.

  Theorem compact_good ll m mcl cs mcl' :
    LLInv (vlay ll m) -> (2 <= length ll)%nat -> 1 <= c_target cfg -> 1 <= c_trigger cfg ->
    (forall t, In t (hd [] ll) -> t <> []) ->
    compact tsize cfg mcl ll = (Some cs, mcl') -> good_cs (vlay ll m) cs.
  Proof.
    intros Hv Hlen Htarget Htrig Hne0 H. unfold compact in H.
    destruct (Nat.eqb mcl 0 && (N.of_nat (length (hd [] ll)) <? c_trigger cfg)) eqn:E1; [discriminate|].
    destruct (c_maxamp cfg <? pct (eligible tsize ll) (base_size tsize ll)) eqn:E2.
    - injection H as <- <-. apply N.ltb_lt in E2. apply major_good; [exact Hv|exact Hlen|exact Htarget|exact Hne0|]. apply eligible_pos.
      unfold pct in E2. destruct (eligible tsize ll =? 0) eqn:E0; [lia|]. apply N.eqb_neq in E0. lia.
    - unfold minor in H. destruct mcl as [|k].
      + injection H as <- <-. cbn in E1. apply N.ltb_ge in E1. apply (merge_levels_good tsize); [exact Hv|lia|exact Htarget|].
        destruct ll as [|l0 ll']; [cbn in Hlen; lia|]. cbn [hd] in *. cbn [nth].
        destruct l0 as [|t l0]; [cbn in E1; lia|]. pose proof (Hne0 t (or_introl eq_refl)) as Ht.
        destruct t as [|e t]; [congruence|]. exists (e :: t), e. split; left; reflexivity.
      + destruct (minor_loop_spec _ _ _ _ _ H) as (i & H1 & -> & _ & H4 & H5). apply (merge_levels_good tsize); [exact Hv|lia|exact Htarget|].
        pose proof (lvl_size_pos _ H5) as Hl. destruct (nth i ll []) as [|t l] eqn:En; [congruence|].
        assert (Hi : nth_error ll i = Some (t :: l)) by (rewrite <- En; apply nth_nth_error; lia).
        destruct i as [|i]; [lia|]. rewrite <- (vlay_nth_S ll m) in Hi. destruct (v_deep _ Hv _ _ Hi) as [_ Hd].
        pose proof (Hd t (or_introl eq_refl)) as Ht. destruct t as [|e t]; [congruence|]. exists (e :: t), e. split; left; reflexivity.
  Qed.
End Compact.
