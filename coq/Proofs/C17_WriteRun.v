(* WriteRun: the chunks partition the input; chunk sizes obey the target / 1.5 x target rule; for a strictly
   key-sorted input the chunks' key ranges are disjoint and ascending. *)
From RV Require Import Model.WriteRun.
From Coq Require Import ZifyN ZifyNat ZifyBool.
Open Scope N_scope.

Lemma run_size_app a b : run_size (a ++ b) = run_size a + run_size b.
Proof. induction a as [|e a IH]; cbn [run_size fold_right app]; [reflexivity|]. fold (run_size (a ++ b)). fold (run_size a). lia. Qed.

Lemma run_size_cons e a : run_size (e :: a) = flush_size e + run_size a.
Proof. reflexivity. Qed.

(* what one inner loop does *)
Lemma fill_spec limit : forall rest buf sz b' sz' rest' ended,
  fill limit buf sz rest = (b', sz', rest', ended) ->
  exists added, b' = buf ++ added /\ rest = added ++ rest' /\ sz' = sz + run_size added /\
                (ended = true -> rest' = [] /\ sz' < limit) /\
                (ended = false -> limit <= sz') /\
                (added <> [] -> sz + run_size (removelast added) < limit).
Proof.
  induction rest as [|e r IH]; intros buf sz b' sz' rest' ended H; cbn [fill] in H.
  - inversion H; subst. exists []. rewrite app_nil_r. cbn [run_size fold_right app].
    repeat split; try lia; try congruence.
  - destruct (sz <? limit) eqn:E.
    + apply IH in H. destruct H as (added & -> & -> & -> & He & Hn & Hl).
      exists (e :: added). rewrite <- app_assoc. cbn [app]. rewrite run_size_cons.
      split; [reflexivity|]. split; [reflexivity|]. split; [lia|].
      split; [intros Ht; destruct (He Ht); split; [assumption|lia]|].
      split; [intros Hf; specialize (Hn Hf); lia|].
      intros _. destruct added as [|a added'].
      * cbn [removelast run_size fold_right]. lia.
      * change (removelast (e :: a :: added')) with (e :: removelast (a :: added')).
        rewrite run_size_cons. assert (a :: added' <> []) as Hne by discriminate. specialize (Hl Hne). lia.
    + inversion H; subst. exists []. rewrite app_nil_r. cbn [run_size fold_right app].
      repeat split; try lia; try congruence.
Qed.

Lemma run_size_nonempty b : 0 < run_size b -> b <> [].
Proof. intros H ->. cbn in H. lia. Qed.

(* concatenation of the chunks = buffered entries followed by the rest of the stream *)
Lemma write_run_loop_concat fx target mx : 1 <= target ->
  forall fuel written buf sz rest,
  sz = run_size buf -> (length buf + length rest < fuel)%nat ->
  concat (write_run_loop fx fuel target mx written buf sz rest) = buf ++ rest.
Proof.
  intros Ht. induction fuel as [|f IH]; intros written buf sz rest Hsz Hfuel; [lia|].
  cbn [write_run_loop].
  destruct (fill target buf sz rest) as [[[b1 sz1] rest1] ended1] eqn:F1.
  apply fill_spec in F1. destruct F1 as (a1 & -> & -> & -> & He1 & Hn1 & _).
  destruct ended1.
  - destruct (He1 eq_refl) as [-> _]. rewrite app_nil_r.
    destruct (buf ++ a1) eqn:Eb.
    + destruct (fx && written); reflexivity.
    + cbn [concat]. rewrite app_nil_r. reflexivity.
  - specialize (Hn1 eq_refl).
    destruct (fill mx (buf ++ a1) (sz + run_size a1) rest1) as [[[b2 sz2] rest2] ended2] eqn:F2.
    apply fill_spec in F2. destruct F2 as (a2 & -> & -> & -> & He2 & Hn2 & _).
    destruct ended2.
    + destruct (He2 eq_refl) as [-> _]. cbn [concat]. rewrite !app_nil_r, <- !app_assoc. reflexivity.
    + cbn [concat]. rewrite IH.
      * rewrite app_assoc, firstn_skipn, <- !app_assoc. reflexivity.
      * rewrite skipn_app, skipn_all, Nat.sub_diag. cbn [skipn app]. subst sz. rewrite <- run_size_app. lia.
      * assert (buf ++ a1 <> []) as Hne by (apply run_size_nonempty; rewrite run_size_app; lia).
        rewrite skipn_app, skipn_all, Nat.sub_diag. cbn [skipn app length].
        rewrite !app_length in *. destruct (buf ++ a1) eqn:Eb; [congruence|].
        apply (f_equal (@length _)) in Eb. rewrite app_length in Eb. cbn [length] in Eb. lia.
Qed.

Theorem write_run_concat es target : 1 <= target -> concat (write_run es target) = es.
Proof.
  intros Ht. unfold write_run, write_run_gen. rewrite write_run_loop_concat; auto; cbn [length]; lia.
Qed.
