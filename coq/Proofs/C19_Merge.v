(* C19: k-way merge (Model/MergeSort.v) on top of the binary heap (Model/Heap.v).
   The heap facts are taken through an interface (section hypotheses) and discharged at the end of the file
   from Proofs/C19_Heap.v. *)
From Coq Require Import List Arith Bool Lia Permutation Sorted.
From RV Require Import Model.Heap Model.MergeSort.
From RV Require Proofs.C19_Heap.   (* only used by the closed instantiations at the end of the file *)
Import ListNotations.

(* ------------------------------------------------------------------------- *)
(* Specification vocabulary                                                    *)
(* ------------------------------------------------------------------------- *)
Section Vocabulary.
  Context {T : Type} (cmp : T -> T -> comparison).

  Definition cmp_ok : Prop :=
    (forall a b, cmp b a = CompOpp (cmp a b)) /\
    (forall a b c, cmp a b <> Gt -> cmp b c <> Gt -> cmp a c <> Gt).

  Definition ltT (a b : T) : bool := match cmp a b with Lt => true | _ => false end.

  (* non-decreasing / strictly increasing *)
  Definition sortedT (l : list T) : Prop := StronglySorted (fun a b => cmp a b <> Gt) l.
  Definition ssortedT (l : list T) : Prop := StronglySorted (fun a b => cmp a b = Lt) l.

  Context (pick : T -> T -> T) (eqT : T -> T -> bool).

  (* the sequential group-fold that Merge applies to the popped sequence *)
  Fixpoint dedup_from (prev : T) (l : list T) : option (list T) :=
    match l with
    | [] => Some [prev]
    | x :: r =>
        match cmp prev x with
        | Eq =>
            let pk := pick prev x in
            if eqT pk prev then dedup_from prev r
            else if eqT pk x then dedup_from x r
            else None
        | _ => option_map (cons prev) (dedup_from x r)
        end
    end.

  Definition dedup (l : list T) : option (list T) :=
    match l with
    | [] => Some []
    | x :: r => dedup_from x r
    end.
End Vocabulary.

(* ------------------------------------------------------------------------- *)
(* Facts about the three-way comparison                                        *)
(* ------------------------------------------------------------------------- *)
Section CmpFacts.
  Context {T : Type} (cmp : T -> T -> comparison).
  Hypothesis Hok : cmp_ok cmp.

  Lemma cmp_opp : forall a b, cmp b a = CompOpp (cmp a b).
  Proof. exact (proj1 Hok). Qed.

  Lemma cmp_le_trans : forall a b c, cmp a b <> Gt -> cmp b c <> Gt -> cmp a c <> Gt.
  Proof. exact (proj2 Hok). Qed.

  Lemma cmp_refl : forall a, cmp a a = Eq.
  Proof.
    intros a. pose proof (cmp_opp a a) as H.
    destruct (cmp a a); simpl in H; try discriminate; reflexivity.
  Qed.

  Lemma cmp_eq_sym : forall a b, cmp a b = Eq -> cmp b a = Eq.
  Proof. intros a b H. rewrite cmp_opp, H. reflexivity. Qed.

  Lemma cmp_lt_gt : forall a b, cmp a b = Lt -> cmp b a = Gt.
  Proof. intros a b H. rewrite cmp_opp, H. reflexivity. Qed.

  Lemma cmp_gt_lt : forall a b, cmp a b = Gt -> cmp b a = Lt.
  Proof. intros a b H. rewrite cmp_opp, H. reflexivity. Qed.

  Lemma cmp_nlt_nge : forall a b, cmp a b <> Lt -> cmp b a <> Gt.
  Proof. intros a b H. rewrite cmp_opp. destruct (cmp a b); simpl; congruence. Qed.

  Lemma cmp_nge_nlt : forall a b, cmp a b <> Gt -> cmp b a <> Lt.
  Proof. intros a b H. rewrite cmp_opp. destruct (cmp a b); simpl; congruence. Qed.

  Lemma cmp_eq_trans : forall a b c, cmp a b = Eq -> cmp b c = Eq -> cmp a c = Eq.
  Proof.
    intros a b c Hab Hbc.
    assert (H1 : cmp a c <> Gt) by (apply cmp_le_trans with b; congruence).
    assert (H2 : cmp c a <> Gt).
    { apply cmp_le_trans with b; rewrite cmp_opp; [rewrite Hbc | rewrite Hab]; simpl; congruence. }
    rewrite (cmp_opp a c) in H2.
    destruct (cmp a c); simpl in H2; congruence.
  Qed.

  Lemma cmp_lt_le_trans : forall a b c, cmp a b = Lt -> cmp b c <> Gt -> cmp a c = Lt.
  Proof.
    intros a b c Hab Hbc.
    assert (H1 : cmp a c <> Gt) by (apply cmp_le_trans with b; congruence).
    destruct (cmp a c) eqn:Hac; try congruence.
    exfalso.
    assert (H2 : cmp b a <> Gt).
    { apply cmp_le_trans with c; [exact Hbc|]. rewrite cmp_opp, Hac. simpl; congruence. }
    rewrite (cmp_lt_gt _ _ Hab) in H2. congruence.
  Qed.

  Lemma cmp_le_lt_trans : forall a b c, cmp a b <> Gt -> cmp b c = Lt -> cmp a c = Lt.
  Proof.
    intros a b c Hab Hbc.
    assert (H1 : cmp a c <> Gt) by (apply cmp_le_trans with b; congruence).
    destruct (cmp a c) eqn:Hac; try congruence.
    exfalso.
    assert (H2 : cmp c b <> Gt).
    { apply cmp_le_trans with a; [|exact Hab]. rewrite cmp_opp, Hac. simpl; congruence. }
    rewrite (cmp_lt_gt _ _ Hbc) in H2. congruence.
  Qed.

  Lemma cmp_lt_trans : forall a b c, cmp a b = Lt -> cmp b c = Lt -> cmp a c = Lt.
  Proof. intros a b c Hab Hbc. apply cmp_lt_le_trans with b; congruence. Qed.

  (* Eq is compatible with the comparison on both sides *)
  Lemma cmp_eq_compat_l : forall a a' b, cmp a a' = Eq -> cmp a b = cmp a' b.
  Proof.
    intros a a' b He.
    pose proof (cmp_eq_sym _ _ He) as He'.
    destruct (cmp a b) eqn:Hab.
    - symmetry. apply cmp_eq_trans with a; assumption.
    - symmetry. apply cmp_le_lt_trans with a; congruence.
    - symmetry. apply cmp_gt_lt in Hab.
      assert (H : cmp b a' = Lt) by (apply cmp_lt_le_trans with a; congruence).
      apply cmp_lt_gt; exact H.
  Qed.

  Lemma cmp_eq_compat_r : forall a b b', cmp b b' = Eq -> cmp a b = cmp a b'.
  Proof.
    intros a b b' He.
    rewrite (cmp_opp b a), (cmp_opp b' a).
    f_equal. apply cmp_eq_compat_l; exact He.
  Qed.

  Lemma ltT_swo : swo (ltT cmp).
  Proof.
    split.
    - intros a b H. unfold ltT in *.
      destruct (cmp a b) eqn:Hab; try discriminate.
      rewrite (cmp_lt_gt _ _ Hab). reflexivity.
    - intros a b c Hab Hbc. unfold ltT in *.
      assert (H1 : cmp b a <> Gt) by (apply cmp_nlt_nge; destruct (cmp a b); congruence).
      assert (H2 : cmp c b <> Gt) by (apply cmp_nlt_nge; destruct (cmp b c); congruence).
      pose proof (cmp_nge_nlt _ _ (cmp_le_trans _ _ _ H2 H1)) as H3.
      destruct (cmp a c); congruence.
  Qed.

  Lemma ilt_swo : swo (ilt cmp).
  Proof.
    destruct ltT_swo as [Ha Ht].
    split.
    - intros a b. apply (Ha (snd a) (snd b)).
    - intros a b c. apply (Ht (snd a) (snd b) (snd c)).
  Qed.

  Lemma cmp_eq_iff_ltT : forall a b, cmp a b = Eq <-> (ltT cmp a b = false /\ ltT cmp b a = false).
  Proof.
    intros a b. unfold ltT. rewrite (cmp_opp a b).
    destruct (cmp a b); simpl; split.
    - intros _; split; reflexivity.
    - intros _; reflexivity.
    - intros H; discriminate H.
    - intros [H1 H2]; discriminate H1.
    - intros H; discriminate H.
    - intros [H1 H2]; discriminate H2.
  Qed.

  Lemma ilt_false_le : forall (a b : nat * T), ilt cmp a b = false -> cmp (snd b) (snd a) <> Gt.
  Proof.
    intros a b H. apply cmp_nlt_nge. unfold ilt in H.
    destruct (cmp (snd a) (snd b)); congruence.
  Qed.
End CmpFacts.

(* ------------------------------------------------------------------------- *)
(* List facts: upd / nth / concat                                              *)
(* ------------------------------------------------------------------------- *)
Section ListFacts.
  Context {A : Type}.

  Lemma upd_length : forall (l : list A) i v, length (upd i v l) = length l.
  Proof.
    induction l as [|a l IH]; intros i v; destruct i as [|i]; simpl; try reflexivity.
    rewrite IH. reflexivity.
  Qed.

  Lemma nth_upd_eq : forall (l : list A) i v d, i < length l -> nth i (upd i v l) d = v.
  Proof.
    induction l as [|a l IH]; intros i v d Hi; simpl in *; [lia|].
    destruct i as [|i]; simpl; [reflexivity|]. apply IH. lia.
  Qed.

  Lemma nth_upd_neq : forall (l : list A) i j v d, i <> j -> nth j (upd i v l) d = nth j l d.
  Proof.
    induction l as [|a l IH]; intros i j v d Hij; [destruct i; reflexivity|].
    destruct i as [|i]; destruct j as [|j]; simpl; try reflexivity; try congruence.
    apply IH. congruence.
  Qed.

  Lemma nth_ne_default_lt : forall {B : Type} (l : list B) i d, nth i l d <> d -> i < length l.
  Proof.
    intros B l i d H. destruct (lt_dec i (length l)) as [Hlt|Hge]; [exact Hlt|].
    exfalso. apply H. apply nth_overflow. lia.
  Qed.

  Lemma concat_upd_perm : forall (its : list (list A)) i x r,
      nth i its [] = x :: r -> Permutation (concat its) (x :: concat (upd i r its)).
  Proof.
    induction its as [|it its IH]; intros i x r Hn.
    - destruct i; simpl in Hn; discriminate.
    - destruct i as [|i]; simpl in *.
      + subst it. simpl. apply Permutation_refl.
      + apply (IH i x r) in Hn.
        eapply Permutation_trans; [apply Permutation_app_head; exact Hn|].
        apply Permutation_sym. apply Permutation_middle.
  Qed.

  Lemma in_concat_nth : forall (its : list (list A)) y,
      In y (concat its) <-> exists j, In y (nth j its []).
  Proof.
    intros its y. rewrite in_concat. split.
    - intros [it [Hit Hy]].
      destruct (In_nth _ _ [] Hit) as [j [Hj Hnth]].
      exists j. rewrite Hnth. exact Hy.
    - intros [j Hy].
      assert (Hj : j < length its).
      { destruct (lt_dec j (length its)) as [Hlt|Hge]; [exact Hlt|]. exfalso.
        rewrite nth_overflow in Hy by lia. exact Hy. }
      exists (nth j its []). split; [apply nth_In; exact Hj | exact Hy].
  Qed.
End ListFacts.

(* ------------------------------------------------------------------------- *)
(* The group-fold [dedup] on a non-decreasing sequence                         *)
(* ------------------------------------------------------------------------- *)
Section DedupFacts.
  Context {T : Type} (cmp : T -> T -> comparison) (pick : T -> T -> T) (eqT : T -> T -> bool).

  Lemma dedup_from_subset : forall l prev out,
      dedup_from cmp pick eqT prev l = Some out -> forall x, In x out -> In x (prev :: l).
  Proof.
    induction l as [|x0 r IH]; intros prev out H x Hx.
    - simpl in H. inversion H; subst. exact Hx.
    - simpl in H.
      assert (Hcons : option_map (cons prev) (dedup_from cmp pick eqT x0 r) = Some out ->
                      In x (prev :: x0 :: r)).
      { intros H'. destruct (dedup_from cmp pick eqT x0 r) as [o|] eqn:E; [|discriminate H'].
        simpl in H'. inversion H'; subst out. destruct Hx as [Hx|Hx].
        - left. exact Hx.
        - right. apply (IH x0 o E x Hx). }
      destruct (cmp prev x0); [|exact (Hcons H)|exact (Hcons H)].
      destruct (eqT (pick prev x0) prev).
      + destruct (IH prev out H x Hx) as [E|Hin]; [left; exact E | right; right; exact Hin].
      + destruct (eqT (pick prev x0) x0); [|discriminate H].
        right. apply (IH x0 out H x Hx).
  Qed.

  Section WithOk.
    Hypothesis Hok : cmp_ok cmp.
    Hypothesis HeqT : forall a b, eqT a b = true <-> a = b.

    Lemma eqT_refl : forall a, eqT a a = true.
    Proof. intros a. apply HeqT. reflexivity. Qed.

    Lemma sortedT_skip : forall a b l, sortedT cmp (a :: b :: l) -> sortedT cmp (a :: l).
    Proof.
      intros a b l H. apply StronglySorted_inv in H. destruct H as [Hs Hf].
      apply StronglySorted_inv in Hs. destruct Hs as [Hs _].
      apply SSorted_cons; [exact Hs|]. inversion Hf; subst. assumption.
    Qed.

    Lemma sortedT_head_le : forall a l, sortedT cmp (a :: l) -> forall z, In z (a :: l) -> cmp a z <> Gt.
    Proof.
      intros a l H z [Hz|Hz].
      - subst z. rewrite (cmp_refl cmp Hok). discriminate.
      - apply StronglySorted_inv in H. destruct H as [_ Hf].
        rewrite Forall_forall in Hf. apply Hf. exact Hz.
    Qed.

    Lemma dedup_from_spec :
      (forall a b, pick a b = a \/ pick a b = b) ->
      forall l prev, sortedT cmp (prev :: l) ->
      exists out, dedup_from cmp pick eqT prev l = Some out /\ ssortedT cmp out /\
                  (forall y, In y (prev :: l) -> exists x, In x out /\ cmp x y = Eq).
    Proof.
      intros Hpick.
      induction l as [|x0 r IH]; intros prev Hs.
      - exists [prev]. split; [reflexivity|]. split.
        + apply SSorted_cons; [apply SSorted_nil | apply Forall_nil].
        + intros y [Hy|[]]. subst y. exists prev. split; [left; reflexivity | apply (cmp_refl cmp Hok)].
      - pose proof (sortedT_skip _ _ _ Hs) as Hs1.
        assert (Hs2 : sortedT cmp (x0 :: r)) by (apply StronglySorted_inv in Hs; apply Hs).
        assert (Hle : cmp prev x0 <> Gt) by (apply (sortedT_head_le _ _ Hs); right; left; reflexivity).
        simpl. destruct (cmp prev x0) eqn:Ec; [| |congruence].
        + (* same key: fold *)
          destruct (eqT (pick prev x0) prev) eqn:E1.
          * destruct (IH prev Hs1) as [out [Hd [Hss Hcov]]].
            exists out. split; [exact Hd|]. split; [exact Hss|].
            intros y [Hy|[Hy|Hy]].
            -- apply Hcov. left. exact Hy.
            -- subst y. destruct (Hcov prev (or_introl eq_refl)) as [x [Hx Hxe]].
               exists x. split; [exact Hx|]. apply (cmp_eq_trans cmp Hok) with prev; assumption.
            -- apply Hcov. right. exact Hy.
          * assert (Epk : pick prev x0 = x0).
            { destruct (Hpick prev x0) as [E|E]; [|exact E].
              rewrite E, eqT_refl in E1. discriminate E1. }
            rewrite Epk, eqT_refl.
            destruct (IH x0 Hs2) as [out [Hd [Hss Hcov]]].
            exists out. split; [exact Hd|]. split; [exact Hss|].
            intros y [Hy|Hy].
            -- subst y. destruct (Hcov x0 (or_introl eq_refl)) as [x [Hx Hxe]].
               exists x. split; [exact Hx|].
               apply (cmp_eq_trans cmp Hok) with x0; [exact Hxe|].
               apply (cmp_eq_sym cmp Hok). exact Ec.
            -- apply Hcov. exact Hy.
        + (* new key: emit prev *)
          destruct (IH x0 Hs2) as [out [Hd [Hss Hcov]]].
          exists (prev :: out). rewrite Hd. split; [reflexivity|]. split.
          * apply SSorted_cons; [exact Hss|]. apply Forall_forall. intros z Hz.
            apply (cmp_lt_le_trans cmp Hok) with x0; [exact Ec|].
            apply (sortedT_head_le _ _ Hs2). apply (dedup_from_subset _ _ _ Hd). exact Hz.
          * intros y [Hy|Hy].
            -- subst y. exists prev. split; [left; reflexivity | apply (cmp_refl cmp Hok)].
            -- destruct (Hcov y Hy) as [x [Hx Hxe]]. exists x. split; [right; exact Hx | exact Hxe].
    Qed.

    Lemma dedup_spec :
      (forall a b, pick a b = a \/ pick a b = b) ->
      forall l, sortedT cmp l ->
      exists out, dedup cmp pick eqT l = Some out /\ ssortedT cmp out /\
                  (forall x, In x out -> In x l) /\
                  (forall y, In y l -> exists x, In x out /\ cmp x y = Eq).
    Proof.
      intros Hpick l Hs. destruct l as [|a l].
      - exists []. split; [reflexivity|]. split; [apply SSorted_nil|].
        split; intros x F; destruct F.
      - destruct (dedup_from_spec Hpick l a Hs) as [out [Hd [Hss Hcov]]].
        exists out. split; [exact Hd|]. split; [exact Hss|]. split; [|exact Hcov].
        apply (dedup_from_subset _ _ _ Hd).
    Qed.

    (* the survivor of each key group is maximal w.r.t. [newer] *)
    Section Newest.
      Context (newer : T -> T -> bool).
      Hypothesis Hnewer : swo newer.
      Hypothesis Hpick : forall a b, pick a b = if newer a b then a else b.

      Lemma newer_irrefl : forall a, newer a a = false.
      Proof.
        intros a. destruct (newer a a) eqn:E; [|reflexivity].
        rewrite (proj1 Hnewer a a E) in E. discriminate E.
      Qed.

      Lemma dedup_from_newest : forall l prev out,
          sortedT cmp (prev :: l) -> dedup_from cmp pick eqT prev l = Some out ->
          forall x y, In x out -> In y (prev :: l) -> cmp x y = Eq -> newer y x = false.
      Proof.
        destruct Hnewer as [Hasym Htrans].
        induction l as [|x0 r IH]; intros prev out Hs Hd x y Hx Hy Exy.
        - simpl in Hd. inversion Hd; subst out.
          destruct Hx as [Hx|[]]. destruct Hy as [Hy|[]]. subst. apply newer_irrefl.
        - pose proof (sortedT_skip _ _ _ Hs) as Hs1.
          assert (Hs2 : sortedT cmp (x0 :: r)) by (apply StronglySorted_inv in Hs; apply Hs).
          assert (Hle : cmp prev x0 <> Gt) by (apply (sortedT_head_le _ _ Hs); right; left; reflexivity).
          simpl in Hd. destruct (cmp prev x0) eqn:Ec; [| |congruence].
          + rewrite Hpick in Hd. destruct (newer prev x0) eqn:En.
            * (* prev survives *)
              rewrite eqT_refl in Hd.
              destruct Hy as [Hy|[Hy|Hy]].
              -- apply (IH prev out Hs1 Hd x y Hx); [left; exact Hy | exact Exy].
              -- subst y.
                 assert (Exp : cmp x prev = Eq).
                 { apply (cmp_eq_trans cmp Hok) with x0; [exact Exy|].
                   apply (cmp_eq_sym cmp Hok). exact Ec. }
                 apply Htrans with prev.
                 ++ apply Hasym. exact En.
                 ++ apply (IH prev out Hs1 Hd x prev Hx); [left; reflexivity | exact Exp].
              -- apply (IH prev out Hs1 Hd x y Hx); [right; exact Hy | exact Exy].
            * (* x0 survives *)
              assert (Hd' : dedup_from cmp pick eqT x0 r = Some out).
              { destruct (eqT x0 prev) eqn:E1.
                - apply HeqT in E1. subst x0. exact Hd.
                - rewrite eqT_refl in Hd. exact Hd. }
              destruct Hy as [Hy|Hy].
              -- subst y.
                 assert (Ex0 : cmp x x0 = Eq) by (apply (cmp_eq_trans cmp Hok) with prev; assumption).
                 apply Htrans with x0; [exact En|].
                 apply (IH x0 out Hs2 Hd' x x0 Hx); [left; reflexivity | exact Ex0].
              -- apply (IH x0 out Hs2 Hd' x y Hx Hy Exy).
          + destruct (dedup_from cmp pick eqT x0 r) as [o|] eqn:Hd'; [|discriminate Hd].
            simpl in Hd. inversion Hd; subst out.
            assert (Hlt : forall z, In z (x0 :: r) -> cmp prev z = Lt).
            { intros z Hz. apply (cmp_lt_le_trans cmp Hok) with x0; [exact Ec|].
              apply (sortedT_head_le _ _ Hs2). exact Hz. }
            destruct Hx as [Hx|Hx]; destruct Hy as [Hy|Hy].
            * subst. apply newer_irrefl.
            * subst x. rewrite (Hlt y Hy) in Exy. discriminate Exy.
            * subst y. apply (dedup_from_subset _ _ _ Hd') in Hx.
              apply (cmp_eq_sym cmp Hok) in Exy. rewrite (Hlt x Hx) in Exy. discriminate Exy.
            * apply (IH x0 o Hs2 Hd' x y Hx Hy Exy).
      Qed.

      Lemma dedup_newest : forall l out,
          sortedT cmp l -> dedup cmp pick eqT l = Some out ->
          forall x y, In x out -> In y l -> cmp x y = Eq -> newer y x = false.
      Proof.
        intros l out Hs Hd. destruct l as [|a l].
        - intros x y _ F. destruct F.
        - apply (dedup_from_newest l a out Hs Hd).
      Qed.
    End Newest.
  End WithOk.
End DedupFacts.

(* ------------------------------------------------------------------------- *)
(* The merge proofs, over an abstract heap interface                           *)
(* ------------------------------------------------------------------------- *)
Section MergeProofs.
  Context {T : Type} (cmp : T -> T -> comparison).

  (* heap interface (instantiated from Proofs/C19_Heap.v at the end of this file) *)
  Hypothesis H_push_perm : forall (x : nat * T) l, Permutation (push (ilt cmp) x l) (x :: l).
  Hypothesis H_pop_perm : forall (l : list (nat * T)) x l',
      pop (ilt cmp) l = (Some x, l') -> Permutation l (x :: l').
  Hypothesis H_pop_none : forall (l l' : list (nat * T)),
      pop (ilt cmp) l = (None, l') -> l = [] /\ l' = [].
  Hypothesis H_pop_min : swo (ilt cmp) -> forall (l : list (nat * T)) x l',
      heap_ok (ilt cmp) l -> pop (ilt cmp) l = (Some x, l') -> forall y, In y l -> ilt cmp y x = false.
  Hypothesis H_push_ok : swo (ilt cmp) -> forall (x : nat * T) l,
      heap_ok (ilt cmp) l -> heap_ok (ilt cmp) (push (ilt cmp) x l).
  Hypothesis H_pop_ok : swo (ilt cmp) -> forall (l : list (nat * T)) o l',
      heap_ok (ilt cmp) l -> pop (ilt cmp) l = (o, l') -> heap_ok (ilt cmp) l'.

  (* ---- pull / refill ---- *)
  Lemma pull_some : forall i (its : list (list T)) x its',
      pull i its = (Some x, its') -> exists r, nth i its [] = x :: r /\ its' = upd i r its.
  Proof.
    intros i its x its' H. unfold pull in H.
    destruct (nth i its []) as [|a r] eqn:E; inversion H; subst. exists r. split; reflexivity.
  Qed.

  Lemma pull_none : forall i (its : list (list T)) its',
      pull i its = (None, its') -> nth i its [] = [] /\ its' = its.
  Proof.
    intros i its its' H. unfold pull in H.
    destruct (nth i its []) as [|a r] eqn:E; inversion H; subst. split; reflexivity.
  Qed.

  Lemma refill_cases : forall idx (h1 : list (nat * T)) its h2 its',
      refill cmp idx h1 its = (h2, its') ->
      (nth idx its [] = [] /\ h2 = h1 /\ its' = its) \/
      (exists y r, nth idx its [] = y :: r /\ h2 = push (ilt cmp) (idx, y) h1 /\ its' = upd idx r its).
  Proof.
    intros idx h1 its h2 its' H. unfold refill in H.
    destruct (pull idx its) as [[y|] its1] eqn:E.
    - apply pull_some in E. destruct E as [r [E1 E2]]. inversion H; subst.
      right. exists y, r. repeat split; assumption.
    - apply pull_none in E. destruct E as [E1 E2]. inversion H; subst.
      left. repeat split; assumption.
  Qed.

  Lemma merge_init_cons : forall i rest (h : list (nat * T)) its,
      merge_init cmp (i :: rest) h its =
      let '(h1, its1) := refill cmp i h its in merge_init cmp rest h1 its1.
  Proof.
    intros i rest h its. simpl. unfold refill.
    destruct (pull i its) as [[y|] its1]; reflexivity.
  Qed.

  Lemma refill_perm : forall idx (h1 : list (nat * T)) its h2 its',
      refill cmp idx h1 its = (h2, its') ->
      Permutation (map snd h2 ++ concat its') (map snd h1 ++ concat its).
  Proof.
    intros idx h1 its h2 its' H.
    destruct (refill_cases _ _ _ _ _ H) as [[E1 [E2 E3]] | [y [r [E1 [E2 E3]]]]]; subst.
    - apply Permutation_refl.
    - pose proof (Permutation_map snd (H_push_perm (idx, y) h1)) as P1. simpl in P1.
      pose proof (concat_upd_perm _ _ _ _ E1) as P2.
      eapply Permutation_trans; [apply Permutation_app_tail; exact P1|].
      eapply Permutation_trans; [|apply Permutation_app_head; apply Permutation_sym; exact P2].
      simpl. apply Permutation_middle.
  Qed.

  Lemma refill_size : forall idx (h1 : list (nat * T)) its h2 its',
      refill cmp idx h1 its = (h2, its') ->
      length h2 + total its' = length h1 + total its.
  Proof.
    intros idx h1 its h2 its' H.
    pose proof (Permutation_length (refill_perm _ _ _ _ _ H)) as L.
    rewrite !app_length, !map_length in L. unfold total. exact L.
  Qed.

  Lemma merge_init_perm : forall idxs (h : list (nat * T)) its h' its',
      merge_init cmp idxs h its = (h', its') ->
      Permutation (map snd h' ++ concat its') (map snd h ++ concat its).
  Proof.
    induction idxs as [|i rest IH]; intros h its h' its' H.
    - simpl in H. inversion H; subst. apply Permutation_refl.
    - rewrite merge_init_cons in H.
      destruct (refill cmp i h its) as [h1 its1] eqn:E.
      eapply Permutation_trans; [apply (IH _ _ _ _ H)|].
      apply (refill_perm _ _ _ _ _ E).
  Qed.

  (* ---- invariant A: every iterator (outside the not-yet-visited set S) that still has elements
          has an entry on the heap ---- *)
  Definition InvA (S : list nat) (h : list (nat * T)) (its : list (list T)) : Prop :=
    forall i, ~ In i S -> nth i its [] <> [] -> exists x, In (i, x) h.

  Lemma refill_invA : forall i rest (h : list (nat * T)) its h1 its1,
      InvA (i :: rest) h its -> refill cmp i h its = (h1, its1) -> InvA rest h1 its1.
  Proof.
    intros i rest h its h1 its1 HA H j Hj Hne.
    destruct (refill_cases _ _ _ _ _ H) as [[E1 [E2 E3]] | [y [r [E1 [E2 E3]]]]]; subst.
    - apply HA; [|exact Hne].
      intros [Heq|Hin]; [subst j; congruence | exact (Hj Hin)].
    - destruct (Nat.eq_dec j i) as [Heq|Hneq].
      + subst j. exists y.
        apply (Permutation_in _ (Permutation_sym (H_push_perm (i, y) h))). left; reflexivity.
      + rewrite nth_upd_neq in Hne by congruence.
        destruct (HA j) as [x Hx]; [|exact Hne|].
        * intros [Heq|Hin]; [congruence | exact (Hj Hin)].
        * exists x.
          apply (Permutation_in _ (Permutation_sym (H_push_perm (i, y) h))). right; exact Hx.
  Qed.

  Lemma pop_invA : forall (h : list (nat * T)) its idx item h1,
      InvA [] h its -> pop (ilt cmp) h = (Some (idx, item), h1) -> InvA [idx] h1 its.
  Proof.
    intros h its idx item h1 HA Hp j Hj Hne.
    destruct (HA j) as [x Hx]; [intros F; exact F | exact Hne |].
    exists x.
    pose proof (Permutation_in _ (H_pop_perm _ _ _ Hp) Hx) as Hin.
    destruct Hin as [Heq|Hin]; [|exact Hin].
    exfalso. apply Hj. left. congruence.
  Qed.

  Lemma step_invA : forall (h : list (nat * T)) its idx item h1 h2 its',
      InvA [] h its -> pop (ilt cmp) h = (Some (idx, item), h1) ->
      refill cmp idx h1 its = (h2, its') -> InvA [] h2 its'.
  Proof.
    intros h its idx item h1 h2 its' HA Hp Hr.
    eapply refill_invA; [|exact Hr]. eapply pop_invA; eassumption.
  Qed.

  Lemma merge_init_invA : forall idxs (h : list (nat * T)) its h' its',
      InvA idxs h its -> merge_init cmp idxs h its = (h', its') -> InvA [] h' its'.
  Proof.
    induction idxs as [|i rest IH]; intros h its h' its' HA H.
    - simpl in H. inversion H; subst. exact HA.
    - rewrite merge_init_cons in H.
      destruct (refill cmp i h its) as [h1 its1] eqn:E.
      apply (IH _ _ _ _ (refill_invA _ _ _ _ _ _ HA E) H).
  Qed.

  Lemma invA_start : forall (its : list (list T)), InvA (seq 0 (length its)) [] its.
  Proof.
    intros its i Hi Hne. exfalso.
    apply nth_ne_default_lt in Hne. apply Hi. apply in_seq. lia.
  Qed.

  Lemma invA_empty : forall (its : list (list T)), InvA [] [] its -> concat its = [].
  Proof.
    intros its HA. destruct (concat its) as [|z c] eqn:E; [reflexivity|]. exfalso.
    assert (Hz : In z (concat its)) by (rewrite E; left; reflexivity).
    apply in_concat_nth in Hz. destruct Hz as [j Hj].
    destruct (HA j) as [x Hx]; [intros F; exact F | | exact Hx].
    intros E2. rewrite E2 in Hj. exact Hj.
  Qed.

  (* ---- 1. MergeSorted yields a permutation of the inputs ---- *)
  Lemma loop_perm : forall fuel (h : list (nat * T)) its,
      InvA [] h its -> length h + total its < fuel ->
      Permutation (merge_sorted_loop cmp fuel h its) (map snd h ++ concat its).
  Proof.
    induction fuel as [|f IH]; intros h its HA Hf; [lia|].
    simpl. destruct (pop (ilt cmp) h) as [[[idx item]|] h1] eqn:Hp.
    - destruct (refill cmp idx h1 its) as [h2 its'] eqn:Hr.
      pose proof (H_pop_perm _ _ _ Hp) as Pp.
      pose proof (Permutation_length Pp) as Lp. simpl in Lp.
      pose proof (refill_size _ _ _ _ _ Hr) as Lr.
      assert (IH' : Permutation (merge_sorted_loop cmp f h2 its') (map snd h2 ++ concat its')).
      { apply IH; [eapply step_invA; eassumption | lia]. }
      eapply Permutation_trans; [apply perm_skip; exact IH'|].
      eapply Permutation_trans; [apply perm_skip; apply (refill_perm _ _ _ _ _ Hr)|].
      apply Permutation_sym.
      apply (Permutation_app_tail (concat its) (Permutation_map snd Pp)).
    - destruct (H_pop_none _ _ Hp) as [E1 E2]. subst h.
      rewrite (invA_empty _ HA). simpl. apply perm_nil.
  Qed.

  Theorem merge_sorted_perm : forall its, Permutation (merge_sorted cmp its) (concat its).
  Proof.
    intros its. unfold merge_sorted.
    destruct (merge_init cmp (seq 0 (length its)) [] its) as [h its'] eqn:Hi.
    pose proof (merge_init_perm _ _ _ _ _ Hi) as P. simpl in P.
    pose proof (Permutation_length P) as L. rewrite app_length, map_length in L.
    eapply Permutation_trans; [|exact P].
    apply loop_perm.
    - eapply merge_init_invA; [apply invA_start | exact Hi].
    - unfold total. lia.
  Qed.

  (* ---- invariant S: heap order; iterators sorted; a heap entry (i, x) is <= everything left in iterator i ---- *)
  Definition InvS (h : list (nat * T)) (its : list (list T)) : Prop :=
    heap_ok (ilt cmp) h /\
    (forall j, sortedT cmp (nth j its [])) /\
    (forall i x, In (i, x) h -> forall y, In y (nth i its []) -> cmp x y <> Gt).

  Section Sorted.
    Hypothesis Hok : cmp_ok cmp.

    Let Hswo : swo (ilt cmp) := ilt_swo cmp Hok.

    Lemma refill_invS : forall i (h : list (nat * T)) its h1 its1,
        InvS h its -> refill cmp i h its = (h1, its1) -> InvS h1 its1.
    Proof.
      intros i h its h1 its1 [Hh [Hs Hb]] H.
      destruct (refill_cases _ _ _ _ _ H) as [[E1 [E2 E3]] | [y [r [E1 [E2 E3]]]]]; subst.
      - repeat split; assumption.
      - assert (Hi : i < length its).
        { apply nth_ne_default_lt with (d := @nil T). rewrite E1. discriminate. }
        pose proof (Hs i) as Hsi. rewrite E1 in Hsi.
        apply StronglySorted_inv in Hsi. destruct Hsi as [Hsr Hyr].
        rewrite Forall_forall in Hyr.
        split; [|split].
        + apply H_push_ok; assumption.
        + intros j. destruct (Nat.eq_dec j i) as [Heq|Hneq].
          * subst j. rewrite nth_upd_eq by exact Hi. exact Hsr.
          * rewrite nth_upd_neq by congruence. apply Hs.
        + intros k x Hin z Hz.
          apply (Permutation_in _ (H_push_perm (i, y) h)) in Hin.
          destruct Hin as [Heq|Hin].
          * inversion Heq; subst k x. rewrite nth_upd_eq in Hz by exact Hi.
            apply Hyr. exact Hz.
          * destruct (Nat.eq_dec k i) as [Heq|Hneq].
            -- subst k. rewrite nth_upd_eq in Hz by exact Hi.
               apply (Hb i x Hin). rewrite E1. right. exact Hz.
            -- rewrite nth_upd_neq in Hz by congruence. apply (Hb k x Hin). exact Hz.
    Qed.

    Lemma pop_invS : forall (h : list (nat * T)) its e h1,
        InvS h its -> pop (ilt cmp) h = (Some e, h1) -> InvS h1 its.
    Proof.
      intros h its e h1 [Hh [Hs Hb]] Hp.
      split; [|split].
      - eapply H_pop_ok; eassumption.
      - exact Hs.
      - intros i x Hin. apply Hb.
        apply (Permutation_in _ (Permutation_sym (H_pop_perm _ _ _ Hp))). right. exact Hin.
    Qed.

    Lemma merge_init_invS : forall idxs (h : list (nat * T)) its h' its',
        InvS h its -> merge_init cmp idxs h its = (h', its') -> InvS h' its'.
    Proof.
      induction idxs as [|i rest IH]; intros h its h' its' HS H.
      - simpl in H. inversion H; subst. exact HS.
      - rewrite merge_init_cons in H.
        destruct (refill cmp i h its) as [h1 its1] eqn:E.
        apply (IH _ _ _ _ (refill_invS _ _ _ _ _ HS E) H).
    Qed.

    Lemma invS_start : forall (its : list (list T)),
        (forall it, In it its -> sortedT cmp it) -> InvS [] its.
    Proof.
      intros its Hs. split; [|split].
      - intros i j a b _ Ha. destruct i; discriminate Ha.
      - intros j. destruct (lt_dec j (length its)) as [Hlt|Hge].
        + apply Hs. apply nth_In. exact Hlt.
        + rewrite nth_overflow by lia. apply SSorted_nil.
      - intros i x F. destruct F.
    Qed.

    (* the popped element is a global minimum of everything still to come *)
    Lemma pop_global_min : forall (h : list (nat * T)) its idx item h1,
        InvA [] h its -> InvS h its -> pop (ilt cmp) h = (Some (idx, item), h1) ->
        forall z, In z (map snd h ++ concat its) -> cmp item z <> Gt.
    Proof.
      intros h its idx item h1 HA [Hh [Hs Hb]] Hp.
      assert (Hheap : forall e, In e h -> cmp item (snd e) <> Gt).
      { intros e He.
        pose proof (H_pop_min Hswo _ _ _ Hh Hp e He) as Hlt.
        apply (ilt_false_le cmp Hok) in Hlt. exact Hlt. }
      intros z Hz. apply in_app_or in Hz. destruct Hz as [Hz|Hz].
      - apply in_map_iff in Hz. destruct Hz as [e [Ee He]]. subst z. apply Hheap. exact He.
      - apply in_concat_nth in Hz. destruct Hz as [j Hj].
        destruct (HA j) as [x Hx]; [intros F; exact F | |].
        { intros E. rewrite E in Hj. exact Hj. }
        apply (cmp_le_trans cmp Hok) with x.
        + apply (Hheap (j, x) Hx).
        + apply (Hb j x Hx z Hj).
    Qed.

    Lemma loop_sorted : forall fuel (h : list (nat * T)) its,
        InvA [] h its -> InvS h its ->
        sortedT cmp (merge_sorted_loop cmp fuel h its) /\
        (forall z, In z (merge_sorted_loop cmp fuel h its) -> In z (map snd h ++ concat its)).
    Proof.
      induction fuel as [|f IH]; intros h its HA HS.
      - simpl. split; [apply SSorted_nil | intros z F; destruct F].
      - simpl. destruct (pop (ilt cmp) h) as [[[idx item]|] h1] eqn:Hp.
        + destruct (refill cmp idx h1 its) as [h2 its'] eqn:Hr.
          pose proof (H_pop_perm _ _ _ Hp) as Pp.
          destruct (IH h2 its') as [IHs IHi].
          { eapply step_invA; eassumption. }
          { eapply refill_invS; [|exact Hr]. eapply pop_invS; eassumption. }
          assert (Hsub : forall z, In z (merge_sorted_loop cmp f h2 its') ->
                                   In z (map snd h ++ concat its)).
          { intros z Hz. apply IHi in Hz.
            apply (Permutation_in _ (refill_perm _ _ _ _ _ Hr)) in Hz.
            apply in_app_or in Hz. apply in_or_app. destruct Hz as [Hz|Hz]; [left|right; exact Hz].
            apply (Permutation_in _ (Permutation_sym (Permutation_map snd Pp))).
            simpl. right. exact Hz. }
          split.
          * apply SSorted_cons; [exact IHs|].
            apply Forall_forall. intros z Hz.
            apply (pop_global_min _ _ _ _ _ HA HS Hp). apply Hsub. exact Hz.
          * intros z [Hz|Hz]; [|apply Hsub; exact Hz].
            subst z. apply in_or_app. left.
            apply (Permutation_in _ (Permutation_sym (Permutation_map snd Pp))).
            simpl. left. reflexivity.
        + split; [apply SSorted_nil | intros z F; destruct F].
    Qed.

    (* ---- 2. MergeSorted of non-decreasing inputs is non-decreasing ---- *)
    Theorem merge_sorted_sorted : forall its,
        (forall it, In it its -> sortedT cmp it) -> sortedT cmp (merge_sorted cmp its).
    Proof.
      intros its Hs. unfold merge_sorted.
      destruct (merge_init cmp (seq 0 (length its)) [] its) as [h its'] eqn:Hi.
      apply loop_sorted.
      - eapply merge_init_invA; [apply invA_start | exact Hi].
      - eapply merge_init_invS; [apply invS_start; exact Hs | exact Hi].
    Qed.
  End Sorted.

  (* ---- 3. Merge = dedup applied to the MergeSorted sequence ---- *)
  Lemma loop_dedup : forall pick eqT fuel (h : list (nat * T)) its,
      length h + total its < fuel ->
      (forall p, merge_loop cmp pick eqT fuel h its (Some p) =
                 dedup_from cmp pick eqT p (merge_sorted_loop cmp fuel h its)) /\
      merge_loop cmp pick eqT fuel h its None = dedup cmp pick eqT (merge_sorted_loop cmp fuel h its).
  Proof.
    intros pick eqT. induction fuel as [|f IH]; intros h its Hf; [lia|].
    simpl. destruct (pop (ilt cmp) h) as [[[idx item]|] h1] eqn:Hp.
    - destruct (refill cmp idx h1 its) as [h2 its'] eqn:Hr.
      pose proof (Permutation_length (H_pop_perm _ _ _ Hp)) as Lp. simpl in Lp.
      pose proof (refill_size _ _ _ _ _ Hr) as Lr.
      destruct (IH h2 its') as [IHs IHn]; [lia|].
      split.
      + intros p. simpl. rewrite !IHs. reflexivity.
      + simpl. apply IHs.
    - split; [intros p|]; reflexivity.
  Qed.

  Theorem merge_is_dedup : forall pick eqT its,
      merge cmp pick eqT its = dedup cmp pick eqT (merge_sorted cmp its).
  Proof.
    intros pick eqT its. unfold merge, merge_sorted.
    destruct (merge_init cmp (seq 0 (length its)) [] its) as [h its'] eqn:Hi.
    pose proof (Permutation_length (merge_init_perm _ _ _ _ _ Hi)) as L.
    simpl in L. rewrite app_length, map_length in L.
    apply loop_dedup. unfold total. lia.
  Qed.

  (* ---- 4. Merge of non-decreasing inputs: strictly increasing output, one representative per key ---- *)
  Theorem merge_dedup_spec : forall pick eqT,
      cmp_ok cmp ->
      (forall a b, eqT a b = true <-> a = b) ->
      (forall a b, pick a b = a \/ pick a b = b) ->
      forall its, (forall it, In it its -> sortedT cmp it) ->
      exists out, merge cmp pick eqT its = Some out /\ ssortedT cmp out /\
                  (forall x, In x out -> In x (concat its)) /\
                  (forall y, In y (concat its) -> exists x, In x out /\ cmp x y = Eq).
  Proof.
    intros pick eqT Hok HeqT Hpick its Hs.
    pose proof (merge_sorted_sorted Hok its Hs) as Hsorted.
    pose proof (merge_sorted_perm its) as Hperm.
    destruct (dedup_spec cmp pick eqT Hok HeqT Hpick _ Hsorted) as [out [Hd [Hss [Hsub Hcov]]]].
    exists out. rewrite merge_is_dedup. split; [exact Hd|]. split; [exact Hss|]. split.
    - intros x Hx. apply (Permutation_in _ Hperm). apply Hsub. exact Hx.
    - intros y Hy. apply Hcov. apply (Permutation_in _ (Permutation_sym Hperm)). exact Hy.
  Qed.

  (* ---- 5. with pick = "the newer of the two", the survivor of a key group is a newest element of the group ---- *)
  (* (the premise on [pick] is implied by the definition of [pick] from [newer]; it is kept so that the premises are
     literally those of merge_dedup_spec) *)
  Theorem merge_keeps_newest : forall pick eqT,
      cmp_ok cmp ->
      (forall a b, eqT a b = true <-> a = b) ->
      (forall a b, pick a b = a \/ pick a b = b) ->
      forall (newer : T -> T -> bool), swo newer ->
      (forall a b, pick a b = if newer a b then a else b) ->
      forall its out, (forall it, In it its -> sortedT cmp it) ->
      merge cmp pick eqT its = Some out ->
      forall x y, In x out -> In y (concat its) -> cmp x y = Eq -> newer y x = false.
  Proof.
    intros pick eqT Hok HeqT _ newer Hnewer Hpick its out Hs Hm x y Hx Hy Exy.
    pose proof (merge_sorted_sorted Hok its Hs) as Hsorted.
    pose proof (merge_sorted_perm its) as Hperm.
    rewrite merge_is_dedup in Hm.
    apply (dedup_newest cmp pick eqT Hok HeqT newer Hnewer Hpick _ out Hsorted Hm x y Hx); [|exact Exy].
    apply (Permutation_in _ (Permutation_sym Hperm)). exact Hy.
  Qed.
End MergeProofs.

(* ------------------------------------------------------------------------- *)
(* Closed versions: the heap interface discharged by Proofs/C19_Heap.v         *)
(* ------------------------------------------------------------------------- *)
Section Closed.
  Context {T : Type} (cmp : T -> T -> comparison).

  Let Hpush_perm := @C19_Heap.push_perm (nat * T) (ilt cmp).
  Let Hpop_perm := @C19_Heap.pop_perm (nat * T) (ilt cmp).
  Let Hpop_none := @C19_Heap.pop_none (nat * T) (ilt cmp).
  Let Hpop_min := @C19_Heap.pop_min (nat * T) (ilt cmp).
  Let Hpush_ok := @C19_Heap.push_ok (nat * T) (ilt cmp).
  Let Hpop_ok := @C19_Heap.pop_ok (nat * T) (ilt cmp).

  Theorem merge_sorted_perm_closed : forall its, Permutation (merge_sorted cmp its) (concat its).
  Proof. exact (merge_sorted_perm cmp Hpush_perm Hpop_perm Hpop_none). Qed.

  Theorem merge_sorted_sorted_closed : cmp_ok cmp -> forall its,
      (forall it, In it its -> sortedT cmp it) -> sortedT cmp (merge_sorted cmp its).
  Proof. exact (merge_sorted_sorted cmp Hpush_perm Hpop_perm Hpop_min Hpush_ok Hpop_ok). Qed.

  Theorem merge_is_dedup_closed : forall pick eqT its,
      merge cmp pick eqT its = dedup cmp pick eqT (merge_sorted cmp its).
  Proof. exact (merge_is_dedup cmp Hpush_perm Hpop_perm). Qed.

  Theorem merge_dedup_spec_closed : forall pick eqT,
      cmp_ok cmp ->
      (forall a b, eqT a b = true <-> a = b) ->
      (forall a b, pick a b = a \/ pick a b = b) ->
      forall its, (forall it, In it its -> sortedT cmp it) ->
      exists out, merge cmp pick eqT its = Some out /\ ssortedT cmp out /\
                  (forall x, In x out -> In x (concat its)) /\
                  (forall y, In y (concat its) -> exists x, In x out /\ cmp x y = Eq).
  Proof. exact (merge_dedup_spec cmp Hpush_perm Hpop_perm Hpop_none Hpop_min Hpush_ok Hpop_ok). Qed.

  Theorem merge_keeps_newest_closed : forall pick eqT,
      cmp_ok cmp ->
      (forall a b, eqT a b = true <-> a = b) ->
      (forall a b, pick a b = a \/ pick a b = b) ->
      forall (newer : T -> T -> bool), swo newer ->
      (forall a b, pick a b = if newer a b then a else b) ->
      forall its out, (forall it, In it its -> sortedT cmp it) ->
      merge cmp pick eqT its = Some out ->
      forall x y, In x out -> In y (concat its) -> cmp x y = Eq -> newer y x = false.
  Proof. exact (merge_keeps_newest cmp Hpush_perm Hpop_perm Hpop_none Hpop_min Hpush_ok Hpop_ok). Qed.
End Closed.

Print Assumptions merge_sorted_perm_closed.
Print Assumptions merge_sorted_sorted_closed.
Print Assumptions merge_is_dedup_closed.
Print Assumptions merge_dedup_spec_closed.
Print Assumptions merge_keeps_newest_closed.
