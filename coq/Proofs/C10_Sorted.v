(* C10: strictly sorted lists of byte strings: the facts about sins / sdel / smem / filter the timer store relies on. *)
From RV Require Import Base.Bytes Model.TimerStore.
From Coq Require Import Permutation.
Open Scope N_scope.

Definition slt (a b : bytes) : Prop := bcmp a b = Lt.

Fixpoint ssorted (l : list bytes) : Prop :=
  match l with
  | [] => True
  | x :: r => Forall (slt x) r /\ ssorted r
  end.

Lemma slt_trans a b c : slt a b -> slt b c -> slt a c.
Proof. apply bcmp_lt_trans. Qed.

Lemma slt_irrefl a : ~ slt a a.
Proof. unfold slt. rewrite bcmp_refl. discriminate. Qed.

Lemma bcmp_gt_lt a b : bcmp a b = Gt -> slt b a.
Proof. intros H. unfold slt. rewrite bcmp_antisym, H. reflexivity. Qed.

Lemma slt_gt a b : slt a b -> bcmp b a = Gt.
Proof. intros H. rewrite bcmp_antisym, H. reflexivity. Qed.

Lemma Forall_slt_trans a b l : slt a b -> Forall (slt b) l -> Forall (slt a) l.
Proof. intros Hab H. eapply Forall_impl; [|exact H]. intros c Hc. eapply slt_trans; eauto. Qed.

Lemma ssorted_app_inv l1 l2 : ssorted (l1 ++ l2) -> ssorted l1 /\ ssorted l2 /\ (forall a b, In a l1 -> In b l2 -> slt a b).
Proof.
  induction l1 as [|x l1 IH]; cbn; intros H.
  - repeat split; auto. intros a b [].
  - destruct H as [Hx Hs]. destruct (IH Hs) as (S1 & S2 & C).
    apply Forall_app in Hx as [Hx1 Hx2].
    repeat split; auto.
    intros a b [<-|Ha] Hb; [|auto]. rewrite Forall_forall in Hx2. auto.
Qed.

Lemma ssorted_app l1 l2 : ssorted l1 -> ssorted l2 -> (forall a b, In a l1 -> In b l2 -> slt a b) -> ssorted (l1 ++ l2).
Proof.
  induction l1 as [|x l1 IH]; cbn; intros S1 S2 C; auto.
  destruct S1 as [Hx S1]. split.
  - apply Forall_app. split; auto. apply Forall_forall. intros b Hb. apply C; auto.
  - apply IH; auto.
Qed.

Lemma ssorted_NoDup l : ssorted l -> NoDup l.
Proof.
  induction l as [|x l IH]; cbn; intros H; constructor.
  - destruct H as [Hx _]. rewrite Forall_forall in Hx. intros Hin. apply (slt_irrefl x). auto.
  - apply IH, H.
Qed.

(* ---------- sins ---------- *)
Lemma In_sins v l x : In x (sins v l) <-> x = v \/ In x l.
Proof.
  induction l as [|y l IH]; cbn.
  - intuition.
  - destruct (bcmp v y) eqn:E; cbn.
    + apply bcmp_eq in E. subst y. intuition.
    + intuition.
    + rewrite IH. intuition.
Qed.

Lemma sins_sorted v l : ssorted l -> ssorted (sins v l).
Proof.
  induction l as [|y l IH]; cbn; intros H.
  - auto.
  - destruct H as [Hy Hs]. destruct (bcmp v y) eqn:E; cbn.
    + apply bcmp_eq in E. subst y. auto.
    + split; [|split; auto]. constructor; [exact E|]. eapply Forall_slt_trans; eauto.
    + split; [|auto]. apply Forall_forall. intros x Hx. apply In_sins in Hx as [->|Hx].
      * apply bcmp_gt_lt, E.
      * rewrite Forall_forall in Hy. auto.
Qed.

Lemma sins_last v l : Forall (fun x => slt x v) l -> sins v l = l ++ [v].
Proof.
  induction l as [|y l IH]; cbn; intros H; auto.
  inversion H as [|? ? Hy Hl]; subst. rewrite (slt_gt _ _ Hy). f_equal. auto.
Qed.

Lemma sins_present v l : ssorted l -> In v l -> sins v l = l.
Proof.
  induction l as [|y l IH]; cbn; intros Hs Hin; [contradiction|].
  destruct Hs as [Hy Hs]. destruct Hin as [->|Hin].
  - rewrite bcmp_refl. reflexivity.
  - rewrite Forall_forall in Hy. rewrite (slt_gt _ _ (Hy _ Hin)). f_equal. auto.
Qed.

(* ---------- smem ---------- *)
Lemma smem_In v l : ssorted l -> (smem v l = true <-> In v l).
Proof.
  induction l as [|y l IH]; cbn; intros Hs.
  - split; [discriminate|contradiction].
  - destruct Hs as [Hy Hs]. destruct (bcmp v y) eqn:E.
    + apply bcmp_eq in E. subst. intuition.
    + split; [discriminate|]. intros [->|Hin].
      * rewrite bcmp_refl in E. discriminate.
      * rewrite Forall_forall in Hy. specialize (Hy _ Hin). unfold slt in Hy.
        pose proof (bcmp_lt_trans _ _ _ E Hy) as C. rewrite bcmp_refl in C. discriminate.
    + rewrite IH by auto. split; [auto|]. intros [->|Hin]; auto. rewrite bcmp_refl in E. discriminate.
Qed.

(* ---------- sdel ---------- *)
Lemma In_sdel v l x : ssorted l -> (In x (sdel v l) <-> In x l /\ x <> v).
Proof.
  induction l as [|y l IH]; cbn; intros Hs.
  - intuition.
  - destruct Hs as [Hy Hs]. rewrite Forall_forall in Hy. destruct (bcmp v y) eqn:E; cbn.
    + apply bcmp_eq in E. subst y. split.
      * intros Hin. split; auto. intros ->. apply (slt_irrefl v). auto.
      * intros [[->|Hin] Hne]; [congruence|auto].
    + split.
      * intros Hin. split; auto. intros ->. destruct Hin as [->|Hin].
        -- rewrite bcmp_refl in E. discriminate.
        -- specialize (Hy _ Hin). pose proof (bcmp_lt_trans _ _ _ E Hy) as C. rewrite bcmp_refl in C. discriminate.
      * intuition.
    + rewrite IH by auto. split.
      * intros [->|[Hin Hne]]; split; auto. intros ->. rewrite bcmp_refl in E. discriminate.
      * intros [[->|Hin] Hne]; auto.
Qed.

Lemma sdel_sorted v l : ssorted l -> ssorted (sdel v l).
Proof.
  induction l as [|y l IH]; cbn; intros Hs; auto.
  destruct Hs as [Hy Hs]. destruct (bcmp v y) eqn:E; cbn; auto.
  split; auto. apply Forall_forall. intros x Hx. apply In_sdel in Hx as [Hx _]; auto.
  rewrite Forall_forall in Hy. auto.
Qed.

Lemma sdel_absent v l : ssorted l -> ~ In v l -> sdel v l = l.
Proof.
  induction l as [|y l IH]; cbn; intros Hs Hn; auto.
  destruct Hs as [Hy Hs]. destruct (bcmp v y) eqn:E; auto.
  - apply bcmp_eq in E. subst. exfalso. auto.
  - f_equal. apply IH; auto.
Qed.

Lemma sdel_head v l : sdel v (v :: l) = l.
Proof. cbn. rewrite bcmp_refl. reflexivity. Qed.

(* ---------- filter ---------- *)
Lemma filter_sorted P l : ssorted l -> ssorted (filter P l).
Proof.
  induction l as [|y l IH]; cbn; intros Hs; auto.
  destruct Hs as [Hy Hs]. destruct (P y); cbn; auto.
  split; auto. apply Forall_forall. intros x Hx. apply filter_In in Hx as [Hx _].
  rewrite Forall_forall in Hy. auto.
Qed.

Lemma filter_sins P v l : ssorted l -> filter P (sins v l) = if P v then sins v (filter P l) else filter P l.
Proof.
  induction l as [|y l IH]; cbn; intros Hs.
  - destruct (P v); reflexivity.
  - destruct Hs as [Hy Hs]. destruct (bcmp v y) eqn:E; cbn.
    + apply bcmp_eq in E. subst y. destruct (P v) eqn:Pv; cbn; [rewrite bcmp_refl|]; reflexivity.
    + destruct (P v) eqn:Pv; destruct (P y) eqn:Py; cbn; try rewrite E; try reflexivity.
      (* P v, not P y: v goes in front of filter P l, all of which are > y > v *)
      assert (F : Forall (slt v) (filter P l)).
      { apply Forall_forall. intros x Hx. apply filter_In in Hx as [Hx _]. rewrite Forall_forall in Hy.
        eapply slt_trans; [exact E|auto]. }
      destruct (filter P l) as [|z r]; [reflexivity|]. cbn. inversion F; subst.
      match goal with H : slt v z |- _ => rewrite H end. reflexivity.
    + rewrite IH by auto. destruct (P v) eqn:Pv; destruct (P y) eqn:Py; cbn; try rewrite E; reflexivity.
Qed.

Lemma filter_sdel P v l : ssorted l -> filter P (sdel v l) = if P v then sdel v (filter P l) else filter P l.
Proof.
  induction l as [|y l IH]; cbn; intros Hs.
  - destruct (P v); reflexivity.
  - destruct Hs as [Hy Hs]. destruct (bcmp v y) eqn:E; cbn.
    + apply bcmp_eq in E. subst y. destruct (P v) eqn:Pv; cbn; [rewrite bcmp_refl|]; reflexivity.
    + destruct (P v) eqn:Pv; destruct (P y) eqn:Py; cbn; try rewrite E; try reflexivity.
      assert (F : Forall (slt v) (filter P l)).
      { apply Forall_forall. intros x Hx. apply filter_In in Hx as [Hx _]. rewrite Forall_forall in Hy.
        eapply slt_trans; [exact E|auto]. }
      destruct (filter P l) as [|z r]; [reflexivity|]. cbn. inversion F; subst.
      match goal with H : slt v z |- _ => rewrite H end. reflexivity.
    + rewrite IH by auto. destruct (P v) eqn:Pv; destruct (P y) eqn:Py; cbn; try rewrite E; reflexivity.
Qed.

(* ---------- sins / sdel on a concatenation ---------- *)
Lemma sins_app_left v l1 l2 x :
  ssorted (l1 ++ l2) -> In x l1 -> bcmp v x <> Gt -> sins v (l1 ++ l2) = sins v l1 ++ l2.
Proof.
  induction l1 as [|y l1 IH]; cbn; intros Hs Hin Hle; [contradiction|].
  destruct Hs as [Hy Hs]. destruct (bcmp v y) eqn:E; cbn; auto.
  f_equal. destruct Hin as [->|Hin]; [contradiction|]. eapply IH; eauto.
Qed.

Lemma sins_app_right v l1 l2 :
  Forall (fun x => slt x v) l1 -> sins v (l1 ++ l2) = l1 ++ sins v l2.
Proof.
  induction l1 as [|y l1 IH]; cbn; intros H; auto.
  inversion H as [|? ? Hy Hl]; subst. rewrite (slt_gt _ _ Hy). f_equal. auto.
Qed.

Lemma sdel_app v l1 l2 :
  ssorted (l1 ++ l2) -> sdel v (l1 ++ l2) = if smem v l1 then sdel v l1 ++ l2 else l1 ++ sdel v l2.
Proof.
  induction l1 as [|y l1 IH]; cbn; intros Hs; auto.
  destruct Hs as [Hy Hs]. destruct (bcmp v y) eqn:E; cbn.
  - reflexivity.
  - (* v < y: v is nowhere *)
    f_equal. f_equal. symmetry. apply sdel_absent.
    + apply ssorted_app_inv in Hs. tauto.
    + intros Hin. rewrite Forall_forall in Hy. assert (slt y v) by (apply Hy, in_or_app; auto).
      pose proof (bcmp_lt_trans _ _ _ E H) as C. rewrite bcmp_refl in C. discriminate.
  - rewrite IH by auto. destruct (smem v l1); reflexivity.
Qed.

Lemma removelast_last_sorted (l : list bytes) : l <> [] -> l = removelast l ++ [last l []].
Proof. intros H. apply app_removelast_last. exact H. Qed.
