(* Whole-table facts: the bounded region of a written table is the serialised run; ScanPrefix is the filter of the
   run; the footer written by the table writer is read back by loadFooter (re-opening from the Document). *)
From RV Require Import Model.SstTable Proofs.C17_Codec.
From Coq Require Import ZifyN ZifyNat ZifyBool.
Open Scope N_scope.

Lemma body_of_write_table tp es : body_of (write_table tp es) = ser_entries es.
Proof. unfold body_of, write_table, ser_table. cbn [t_esize t_file]. apply firstn_blen. Qed.

Lemma body_of_reopen t : body_of (reopen t) = body_of t.
Proof. reflexivity. Qed.

Lemma filter_map_norm p es :
  filter (fun e => is_prefix p (e_key e)) (map norm es) = map norm (filter (fun e => is_prefix p (e_key e)) es).
Proof.
  induction es as [|e es IH]; [reflexivity|]. cbn [map filter].
  replace (e_key (norm e)) with (e_key e) by (unfold norm; destruct (e_del e); reflexivity).
  destruct (is_prefix p (e_key e)); cbn [map]; rewrite IH; reflexivity.
Qed.

(* ScanPrefix of a fresh table: exactly the entries whose key has the prefix, in order, tombstones included *)
Theorem table_scan_is_filter tp es p :
  Forall entry_ok es -> table_scan_prefix (write_table tp es) p = Some (scan_spec es p).
Proof.
  intros H. unfold table_scan_prefix. cbn [table_meta write_table t_meta].
  change (body_of _) with (body_of (write_table tp es)).
  rewrite body_of_write_table, (parse_serialize es H). unfold scan_spec. rewrite filter_map_norm. reflexivity.
Qed.

(* ---------- search index block ---------- *)
Lemma rd_offsets_w : forall offs r, Forall (fun o => o < 4294967296) offs ->
  rd_offsets (length offs) (flat_map w_u32 offs ++ r) = Some (offs, r).
Proof.
  induction offs as [|o offs IH]; intros r H; [reflexivity|].
  inversion H as [|? ? Ho Hs]; subst. cbn [length rd_offsets flat_map]. rewrite <- app_assoc, rd_u32_wu32, (u32_small _ Ho).
  rewrite (IH r Hs). reflexivity.
Qed.

Lemma flat_map_w_u32_len offs : blen (flat_map w_u32 offs) = 4 * blen offs.
Proof.
  induction offs as [|o offs IH]; [reflexivity|]. cbn [flat_map]. rewrite blen_app, IH. unfold blen. rewrite w_u32_len. cbn [length]. lia.
Qed.

Lemma idx_decode_encode offs r :
  Forall (fun o => o < 4294967296) offs -> blen offs < 4294967296 ->
  idx_decode (idx_encode offs ++ r) = Some (offs, r).
Proof.
  intros H Hl. unfold idx_decode, idx_encode. rewrite <- app_assoc, rd_u32_wu32, (u32_small _ Hl).
  rewrite blen_app, flat_map_w_u32_len. replace (blen offs * 4 <=? 4 * blen offs + blen r) with true by lia.
  unfold blen at 1. rewrite Nat2N.id. apply rd_offsets_w. exact H.
Qed.

Lemma sample_u32 sp : forall l c, Forall (fun o => o < 4294967296) (sample sp c l).
Proof.
  induction l as [|x l IH]; intros c; cbn [sample]; [constructor|].
  destruct c; [constructor; [apply u32_lt|apply IH]|apply IH].
Qed.

Lemma sample_len sp : forall l c, (length (sample sp c l) <= length l)%nat.
Proof.
  induction l as [|x l IH]; intros c; cbn [sample length]; [lia|].
  destruct c; cbn [length]; [specialize (IH (sp - 1)%nat)|specialize (IH c)]; lia.
Qed.

Lemma entry_offsets_len : forall es o, length (entry_offsets o es) = length es.
Proof. induction es as [|e es IH]; intros o; cbn [entry_offsets length]; [reflexivity|]. rewrite IH. reflexivity. Qed.

Lemma index_of_ok tp es : blen (ser_entries es) < 4294967296 ->
  Forall (fun o => o < 4294967296) (index_of tp es) /\ blen (index_of tp es) < 4294967296.
Proof.
  intros H. split; [apply sample_u32|].
  unfold index_of, blen. pose proof (sample_len (tp_spacing tp) (entry_offsets 0 es) 0) as H1. rewrite entry_offsets_len in H1.
  pose proof (ser_entries_len es) as H2. unfold blen in H. lia.
Qed.

(* loadFooter on the file the writer produced gives back the writer's bloom filter and index, provided the bloom
   block round-trips (Proofs/C17_Bloom.v: bf_decode_encode with bloom_of_wf) *)
Lemma load_footer_write_table tp es :
  blen (ser_entries es) < 4294967296 ->
  (forall r, bf_decode (bf_encode (bloom_of tp es) ++ r) = Some (bloom_of tp es, r)) ->
  load_footer (reopen (write_table tp es)) = Some (bloom_of tp es, index_of tp es).
Proof.
  intros Hsz Hbf.
  change (reopen (write_table tp es)) with
    (mkT (ser_table tp es) (blen (ser_table tp es)) (blen (ser_entries es)) (first_key es) (last_key es)
         (first_seq es) (max_seq es) None).
  unfold load_footer. cbn [t_size t_file].
  set (body := ser_entries es). set (bfb := bf_encode (bloom_of tp es)). set (ixb := idx_encode (index_of tp es)).
  assert (Hfile : ser_table tp es = (body ++ bfb ++ ixb) ++ (w_u64 (blen body) ++ w_u32 1)).
  { unfold ser_table. fold body bfb ixb. rewrite <- !app_assoc. reflexivity. }
  rewrite Hfile.
  assert (Hlen : blen ((body ++ bfb ++ ixb) ++ w_u64 (blen body) ++ w_u32 1) = blen (body ++ bfb ++ ixb) + 12).
  { rewrite blen_app. f_equal. }
  rewrite Hlen. replace (12 <=? blen (body ++ bfb ++ ixb) + 12) with true by lia.
  replace (blen (body ++ bfb ++ ixb) + 12 - 12) with (blen (body ++ bfb ++ ixb)) by lia.
  rewrite skipn_blen, rd_u64_wu64, u64_small by (fold body in Hsz; lia).
  replace (blen body <=? blen (body ++ bfb ++ ixb) + 12) with true by (rewrite blen_app; lia).
  rewrite <- !app_assoc, skipn_blen. unfold bfb. rewrite Hbf. unfold ixb.
  destruct (index_of_ok tp es Hsz) as [Hi Hl]. rewrite (idx_decode_encode _ _ Hi Hl). reflexivity.
Qed.
