(* The replay machine of Model/LsmReplay.v - rotation decisions and Compact's change sets are data, change sets only have to
   be legal - refines the sorted map.  This is the statement the correspondence check ties to the code: it does not depend on
   byte sizes, the compaction policy or the size accounting. *)
From Coq Require Import List NArith Bool Lia.
From RV Require Import Base.Bytes Model.LsmBase Model.LsmCompaction Model.Lsm Model.LsmReplay
  Proofs.C07_Sorted Proofs.C07_Spec Proofs.C18_Layout Proofs.C18_Apply Proofs.C18_Compact Proofs.C18_Main Proofs.C07_Refine.
Import ListNotations.
Open Scope N_scope.

(* ---------- good_csb is sound ---------- *)

Lemma in_firstn_nth {A} n (l : list A) x : In x (firstn n l) -> exists j, (j < n)%nat /\ nth_error l j = Some x.
Proof.
  revert l. induction n as [|n IH]; intros l H; [destruct H|]. destruct l as [|y l]; [destruct H|]. cbn in H. destruct H as [<-|H].
  - exists 0%nat. split; [lia|reflexivity].
  - destruct (IH _ H) as (j & Hj & Hn). exists (S j). split; [lia|exact Hn].
Qed.
Lemma nth_error_firstn_in {A} n (l : list A) k x : nth_error l k = Some x -> (k < n)%nat -> In x (firstn n l).
Proof.
  revert l k. induction n as [|n IH]; intros l k H Hk; [lia|]. destruct l as [|y l]; [destruct k; discriminate|].
  destruct k as [|k]; cbn in H |- *; [injection H as ->; left; reflexivity|right; eapply IH; eauto; lia].
Qed.
Lemma nth_error_skipn_in {A} n (l : list A) k x : nth_error l k = Some x -> (n <= k)%nat -> In x (skipn n l).
Proof.
  revert l k. induction n as [|n IH]; intros l k H Hk; [cbn; eapply nth_error_In; eauto|].
  destruct l as [|y l]; [destruct k; discriminate|]. destruct k as [|k]; [lia|]. cbn in H |- *. eapply IH; eauto. lia.
Qed.

Lemma in_rem_in cs t : in_rem cs t = true <-> In t (cs_rem cs).
Proof. apply tmem_in. Qed.
Lemma lvl_has_rem_false cs l t : lvl_has_rem cs l = false -> In t l -> ~ In t (cs_rem cs).
Proof.
  unfold lvl_has_rem. intros H Ht HR. assert (existsb (in_rem cs) l = true); [|congruence].
  apply existsb_exists. exists t. split; [exact Ht|apply in_rem_in; exact HR].
Qed.
Lemma lvl_has_rem_true cs l r : In r l -> In r (cs_rem cs) -> lvl_has_rem cs l = true.
Proof. intros H1 H2. apply existsb_exists. exists r. split; [exact H1|apply in_rem_in; exact H2]. Qed.
Lemma all_rem_in cs l t : all_rem cs l = true -> In t l -> In t (cs_rem cs).
Proof. unfold all_rem. rewrite forallb_forall. intros H Ht. apply in_rem_in. auto. Qed.

Lemma closedb_sound cs ll : forall b i j li lj r t,
  closedb cs b ll = true -> (i < j)%nat -> (b + j <= cs_level cs)%nat ->
  nth_error ll i = Some li -> nth_error ll j = Some lj -> In r li -> In r (cs_rem cs) -> In t lj -> In t (cs_rem cs).
Proof.
  induction ll as [|l rest IH]; intros b i j li lj r t Hc Hij Hj Hi Hlj Hr HrR Ht; [destruct i; discriminate|].
  cbn [closedb] in Hc. apply andb_true_iff in Hc as [Hc1 Hc2]. destruct j as [|j]; [lia|]. cbn in Hlj. destruct i as [|i].
  - cbn in Hi. injection Hi as <-. rewrite (lvl_has_rem_true _ _ _ Hr HrR) in Hc1.
    rewrite forallb_forall in Hc1. eapply all_rem_in; [apply Hc1|exact Ht].
    eapply nth_error_firstn_in; [exact Hlj|lia].
  - cbn in Hi. eapply (IH (S b) i j); eauto; lia.
Qed.

Theorem good_csb_sound ll cs : good_csb ll cs = true -> good_cs ll cs.
Proof.
  unfold good_csb. intros H. repeat (apply andb_true_iff in H as [H ?]).
  rename H into G1, H0 into G9, H1 into G8, H2 into G7, H3 into G6, H4 into G5, H5 into G4, H6 into G3, H7 into G2.
  apply Nat.leb_le in G1. apply Nat.ltb_lt in G2. constructor.
  - lia.
  - intros l t Hl Ht. eapply all_rem_in; [exact G3|]. rewrite (nth_error_nth _ _ [] Hl). exact Ht.
  - intros r Hr. rewrite forallb_forall in G4. specialize (G4 r Hr). apply existsb_exists in G4 as (l & Hl & Hm).
    apply tmem_in in Hm. apply in_firstn_nth in Hl as (j & Hj & Hn). exists j, l. repeat split; auto. lia.
  - split; [apply table_eqb_eq; exact G5|]. intros a Ha Hnil. rewrite forallb_forall in G6. specialize (G6 a Ha). subst a. discriminate.
  - intros i j li lj r t Hij Hi Hj Hr HrR Ht. eapply (closedb_sound cs ll 0 i j); eauto; lia.
  - intros l r t e e' Hl Hr HrR Ht HtR He He'. destruct ll as [|l0 ll']; [discriminate|]. cbn in Hl. injection Hl as ->. cbn [hd] in G8.
    rewrite forallb_forall in G8. specialize (G8 r Hr). rewrite (proj2 (in_rem_in cs r) HrR) in G8.
    rewrite forallb_forall in G8. specialize (G8 t Ht). destruct (in_rem cs t) eqn:E; [apply in_rem_in in E; contradiction|].
    unfold seq_below in G8. rewrite forallb_forall in G8. specialize (G8 e He). rewrite forallb_forall in G8. specialize (G8 e' He').
    apply N.ltb_lt. exact G8.
  - intros j l t Hj Hl Ht. rewrite forallb_forall in G9. assert (Hin : In l (skipn (S (cs_level cs)) ll)) by (eapply nth_error_skipn_in; eauto; lia).
    specialize (G9 l Hin). apply negb_true_iff in G9. eapply lvl_has_rem_false; eauto.
Qed.

(* ---------- the refinement ---------- *)

Definition okcfg : dbcfg := mkDbCfg 0 0 2 (mkCfg 1 0 0 1).
Lemma okcfg_ok : cfg_ok okcfg.
Proof. unfold cfg_ok, okcfg. cbn. repeat split; lia. Qed.

Definition robs_good (m : smap) (pend : option bytes) (a : ract) (o : obs) : Prop :=
  match a with
  | RGet2 => exists k r, pend = Some k /\ o = OGet r /\ get_matches r (sm_get k m)
  | RScan2 => exists p, pend = Some p /\ o = OScan (sm_scan p m)
  | _ => True
  end.
Definition rnext_pend (pend : option bytes) (a : ract) : option bytes :=
  match a with RGet1 k => Some k | RScan1 p => Some p | RGet2 | RScan2 => None | _ => pend end.
Fixpoint robs_ok (m : smap) (pend : option bytes) (acts : list ract) (os : list obs) : Prop :=
  match acts, os with
  | [], [] => True
  | a :: ar, o :: or => robs_good m pend a o /\ robs_ok (rspec_step m a) (rnext_pend pend a) ar or
  | _, _ => False
  end.

Lemma rwrite_ok st k v del rot :
  DBInv st -> rd st = RNone -> (del = true -> v = []) ->
  DBInv (rwrite st k v del rot) /\ absm (rwrite st k v del rot) = (if del then sm_del k (absm st) else sm_put k v (absm st)) /\
  rd (rwrite st k v del rot) = RNone.
Proof.
  intros HI Hrd Hv. destruct st as [M ms wb ll sq fp f cp c mc r]. unfold DBInv in *. cbn in HI, Hrd. subst r.
  pose proof (i_mts _ _ _ _ _ _ HI) as HM. pose proof (app_removelast_last [] HM) as HMeq.
  assert (exists S actv, M = S ++ [actv]) as (S & actv & HMeq2) by (eexists _, _; exact HMeq). clear HMeq HM. subst M.
  set (e := mkE k (sq + 1) del v).
  assert (Hseq : eseq e = sq + 1) by reflexivity.
  pose proof (w_inv1 S actv ll sq f c e HI Hseq) as H1. pose proof (w_inv2 S actv ll sq f c e HI Hseq) as H2.
  pose proof (w_view1 S actv ll sq f c e HI Hseq) as Hv1. pose proof (w_view2 S actv ll sq f c e HI Hseq) as Hv2.
  assert (Habs : forall M', view (vlay ll M') = view (vlay ll (S ++ [mt_put e actv])) ->
            kvs (without_deletes (view (vlay ll M'))) =
            (if del then sm_del k (kvs (without_deletes (view (vlay ll (S ++ [actv])))))
             else sm_put k v (kvs (without_deletes (view (vlay ll (S ++ [actv]))))))).
  { intros M' HM'. rewrite HM'.
    assert (Hso : ksorted (kvs (without_deletes (view (vlay ll (S ++ [actv])))))) by (apply kvs_sorted, sorted_filter, merge_all_sorted).
    apply kv_ext; [apply kvs_sorted, sorted_filter, merge_all_sorted|destruct del; [apply sm_del_sorted|apply sm_put_sorted]; exact Hso|].
    intros k'. rewrite sm_get_live by apply merge_all_sorted. rewrite Hv1. cbn [ekey e].
    destruct del.
    - rewrite sm_del_get by exact Hso. rewrite sm_get_live by apply merge_all_sorted. destruct (beqb k k'); reflexivity.
    - rewrite sm_put_get by exact Hso. rewrite sm_get_live by apply merge_all_sorted. destruct (beqb k k'); reflexivity. }
  unfold rwrite, active. cbn [mts msize walb lv seqn fpend ft cpend ct mcl rd]. rewrite !last_last, !removelast_last. fold e.
  destruct rot; cbn [mts lv seqn ft ct rd]; unfold absm, vll; cbn [mts lv].
  - split; [exact H2|]. split; [apply Habs; exact Hv2|reflexivity].
  - split; [exact H1|]. split; [apply Habs; reflexivity|reflexivity].
Qed.

(* ---------- a legal flush ---------- *)

Lemma seq_below_sound r t : seq_below r t = true -> forall e e', In e r -> In e' t -> eseq e < eseq e'.
Proof.
  unfold seq_below. rewrite forallb_forall. intros H e e' He He'. specialize (H e He). rewrite forallb_forall in H.
  apply N.ltb_lt. exact (H e' He').
Qed.
Lemma sepb_sound cs : sepb cs = true -> sep cs.
Proof.
  induction cs as [|x r IH]; cbn; [auto|]. intros H. apply andb_true_iff in H as [H1 H2]. split; [|auto].
  intros y e e' Hy He He'. rewrite forallb_forall in H1. eapply seq_below_sound; eauto.
Qed.
Lemma entry_in_sound e ts : entry_in e ts = true -> exists t, In t ts /\ In e t.
Proof.
  unfold entry_in. intros H. apply existsb_exists in H as (t & Ht & H). apply existsb_exists in H as (x & Hx & E).
  apply entry_eqb_eq in E. subst x. exists t. auto.
Qed.

Lemma f2o_inv snap rest outs ll sq c r :
  rest <> [] -> Inv (snap ++ rest) ll sq (FSwap snap) c r ->
  forallb (fun t => nonemptyb t && sortedb t) outs = true ->
  merge_all outs = merge_all snap ->
  (forall t e, In t outs -> In e t -> exists t0, In t0 snap /\ In e t0) ->
  sep (hd [] ll ++ outs ++ rest) ->
  Inv rest (add_l0 outs ll) sq FIdle c r /\ view (vlay (add_l0 outs ll) rest) = view (vlay ll (snap ++ rest)).
Proof.
  intros Hrest HI Hout Hmerge Hsrc Hsep. destruct HI as [i_ll0 i_len0 i_mts0 i_real0 i_sealed0 i_seq0 i_ft0 i_ct0 i_rd0].
  pose proof (len_ne _ i_len0) as Hne.
  set (M := snap ++ rest) in *. set (M' := outs ++ rest).
  assert (Houts : forall t, In t outs -> t <> [] /\ sorted t).
  { intros t Ht. rewrite forallb_forall in Hout. specialize (Hout t Ht). apply andb_true_iff in Hout as [H1 H2].
    split; [destruct t; [discriminate|discriminate]|apply sortedb_sorted; exact H2]. }
  assert (HinM : forall t, In t snap -> In t M) by (intros t Ht; apply in_or_app; left; exact Ht).
  assert (HrestM : forall t, In t rest -> In t M) by (intros t Ht; apply in_or_app; right; exact Ht).
  assert (Hlay : vlay (add_l0 outs ll) rest = vlay ll M') by (apply vlay_add_l0; exact Hne).
  (* the new reader layout is valid *)
  assert (Hv' : LLInv (vlay ll M')).
  { apply (LLInv_new_mem ll M M' Hne i_ll0).
    - intros t Ht. apply in_app_or in Ht as [Ht|Ht]; [apply Houts; exact Ht|].
      apply (v_sorted _ i_ll0 (hd [] ll ++ M)); [left; reflexivity|apply in_or_app; right; apply HrestM; exact Ht].
    - exact Hsep.
    - intros t e Ht He. left. apply in_app_or in Ht as [Ht|Ht].
      + destruct (Hsrc t e Ht He) as (t0 & H1 & H2). exists t0. split; [apply in_or_app; right; apply HinM; exact H1|exact H2].
      + exists t. split; [apply in_or_app; right; apply HrestM; exact Ht|exact He]. }
  (* entries: nothing new, nothing lost that is not dominated *)
  assert (Hsub : forall e, ents (vlay ll M') e -> ents (vlay ll M) e).
  { intros e He. apply ents_vlay in He; [|exact Hne]. apply ents_vlay; [exact Hne|]. destruct He as [He|(t & Ht & He)]; [left; exact He|right].
    apply in_app_or in Ht as [Ht|Ht].
    - destruct (Hsrc t e Ht He) as (t0 & H1 & H2). exists t0. auto.
    - exists t. auto. }
  assert (Hview : view (vlay ll M') = view (vlay ll M)).
  { eapply Mx_same; [apply ents_view|apply ents_view| | |].
    - intros e e' He He'. apply (LLInv_uniq _ i_ll0); [destruct He as [He|He]|destruct He' as [He'|He']]; auto.
    - intros e He. exists e. repeat split; [apply Hsub; exact He|lia].
    - intros e He. apply ents_vlay in He; [|exact Hne]. destruct He as [He|(t & Ht & He)].
      + exists e. repeat split; [apply ents_vlay; [exact Hne|left; exact He]|lia].
      + apply in_app_or in Ht as [Ht|Ht].
        * destruct (Mx_merge_all snap) as (_ & _ & H3). destruct (H3 e (ex_intro _ t (conj Ht He))) as (m & Hm & Hle).
          rewrite <- Hmerge in Hm. apply tbl_get_some in Hm as [Hm1 Hm2].
          destruct (Mx_merge_all outs) as (_ & H2 & _). destruct (H2 m Hm1) as (o & Ho & Hmo).
          exists m. repeat split; [|exact Hm2|exact Hle]. apply ents_vlay; [exact Hne|right]. exists o. split; [apply in_or_app; left; exact Ho|exact Hmo].
        * exists e. repeat split; [|lia]. apply ents_vlay; [exact Hne|right]. exists t. split; [apply in_or_app; right; exact Ht|exact He]. }
  split; [|rewrite Hlay; exact Hview]. constructor.
  - rewrite Hlay. exact Hv'.
  - destruct ll; [congruence|exact i_len0].
  - exact Hrest.
  - intros l t Hl Ht. destruct ll as [|l0 ll0]; [congruence|]. cbn in Hl. destruct Hl as [<-|Hl].
    + apply in_app_or in Ht as [Ht|Ht]; [apply (i_real0 l0); [left; reflexivity|exact Ht]|apply Houts; exact Ht].
    + apply (i_real0 l); [right; exact Hl|exact Ht].
  - intros t Ht. apply i_sealed0. apply removelast_app_in2; assumption.
  - intros e He. rewrite Hlay in He. apply i_seq0. apply Hsub. exact He.
  - intros s [=].
  - intros cs Hc. rewrite Hlay. destruct (i_ct0 cs Hc) as [Hg Hd].
    assert (Hd' : forall t, In t M' -> ~ In t (cs_rem cs)).
    { intros t Ht HR. apply in_app_or in Ht as [Ht|Ht]; [|exact (Hd t (HrestM _ Ht) HR)].
      destruct (Houts t Ht) as [Hnil _]. destruct t as [|e t]; [congruence|].
      destruct (Hsrc _ e Ht (or_introl eq_refl)) as (t0 & Ht0 & He0).
      destruct (g_sub _ _ Hg _ HR) as (j & l & _ & Hl & Hin). destruct j as [|j].
      - rewrite vlay_nth_0 in Hl by exact Hne. injection Hl as <-. apply in_app_or in Hin as [Hin|Hin]; [|exact (Hd _ Hin HR)].
        pose proof (v_sep _ i_ll0 _ (vlay_nth_0 ll M Hne)) as Hs. apply sep_app in Hs as (_ & _ & Hs).
        specialize (Hs (e :: t) t0 e e Hin (HinM _ Ht0) (or_introl eq_refl) He0). lia.
      - pose proof (v_ord _ i_ll0 0%nat (S j) _ l t0 (e :: t) e e ltac:(lia) (vlay_nth_0 ll M Hne) Hl
                      ltac:(apply in_or_app; right; apply HinM; exact Ht0) Hin He0 (or_introl eq_refl) eq_refl). lia. }
    split; [|intros t Ht; apply Hd'; apply in_or_app; right; exact Ht].
    apply (good_cs_new_mem ll M M' cs Hne Hg Hd Hd').
    intros r0 t e0 e' Hr HrR Ht He0 He'.
    assert (Hold : forall t0, In t0 M -> In e' t0 -> eseq e0 < eseq e').
    { intros t0 Ht0 He't0. apply (g_l0 _ _ Hg (hd [] ll ++ M) r0 t0 e0 e'); [apply vlay_nth_0; exact Hne|apply in_or_app; left; exact Hr|exact HrR|apply in_or_app; right; exact Ht0|exact (Hd _ Ht0)|exact He0|exact He't0]. }
    apply in_app_or in Ht as [Ht|Ht].
    + destruct (Hsrc t e' Ht He') as (t0 & H1 & H2). apply (Hold t0); [apply HinM; exact H1|exact H2].
    + apply (Hold t); [apply HrestM; exact Ht|exact He'].
  - destruct r as [|k [e|]|p mres]; cbn [rd_inv] in *.
    + exact I.
    + rewrite Hlay, Hview. exact i_rd0.
    + intros t e Ht. apply i_rd0. apply HrestM. exact Ht.
    + rewrite Hlay, Hview. destruct i_rd0 as (H1 & H2 & H3). split; [exact H1|]. split; [exact H2|].
      intros k m Hp Hg. destruct (H3 k m Hp Hg) as [H|H]; [left; exact H|right; apply ents_add_l0; exact H].
Qed.

Lemma set_ct_inv st n c' :
  DBInv st -> (forall cs, c' = CSwap cs -> good_cs (vll st) cs /\ forall t, In t (mts st) -> ~ In t (cs_rem cs)) ->
  DBInv (set_ct st n c') /\ absm (set_ct st n c') = absm st /\ rd (set_ct st n c') = rd st.
Proof.
  intros HI Hc. destruct st as [M ms wb ll sq fp f cp c mc r]. unfold DBInv, absm, vll, set_ct in *. cbn in *.
  split; [|auto]. destruct HI. constructor; auto.
Qed.

Theorem rstep_ok st a st' o :
  DBInv st -> rstep true st a = Some (st', o) ->
  DBInv st' /\ absm st' = rspec_step (absm st) a /\ robs_good (absm st) (pend_of (rd st)) a o /\
  pend_of (rd st') = rnext_pend (pend_of (rd st)) a.
Proof.
  intros HI Hs. pose proof okcfg_ok as Hok.
  destruct a; cbn [rstep] in Hs.
  - destruct (rd st) eqn:Hrd; try discriminate. injection Hs as <- <-.
    destruct (rwrite_ok st k v false rot HI Hrd ltac:(intros; discriminate)) as (H1 & H2 & H3). rewrite H3. cbn. auto.
  - destruct (rd st) eqn:Hrd; try discriminate. injection Hs as <- <-.
    destruct (rwrite_ok st k [] true rot HI Hrd ltac:(intros; reflexivity)) as (H1 & H2 & H3). rewrite H3. cbn. auto.
  - change (step dummy_cfg st (AGet1 k)) with (step okcfg st (AGet1 k)) in Hs. exact (step_ok _ _ _ _ _ Hok HI Hs).
  - change (step dummy_cfg st AGet2) with (step okcfg st AGet2) in Hs. exact (step_ok _ _ _ _ _ Hok HI Hs).
  - change (step dummy_cfg st (AScan1 p)) with (step okcfg st (AScan1 p)) in Hs. exact (step_ok _ _ _ _ _ Hok HI Hs).
  - change (step dummy_cfg st AScan2) with (step okcfg st AScan2) in Hs. exact (step_ok _ _ _ _ _ Hok HI Hs).
  - change (step dummy_cfg st AF1) with (step okcfg st AF1) in Hs. exact (step_ok _ _ _ _ _ Hok HI Hs).
  - change (step dummy_cfg st AF2) with (step okcfg st AF2) in Hs. exact (step_ok _ _ _ _ _ Hok HI Hs).
  - (* RC1 *)
    assert (Hgo : forall n,
              match ocs with
              | None => Some (set_ct st n CIdle, OComp false)
              | Some cs => if negb true || (good_csb (rlayout st) cs && forallb (fun t => negb (in_rem cs t)) (mts st))
                           then Some (set_ct st n (CSwap cs), OComp true) else None
              end = Some (st', o) ->
              DBInv st' /\ absm st' = absm st /\ rd st' = rd st).
    { intros n Hgo. destruct ocs as [cs|].
      - cbn [negb orb] in Hgo. destruct (good_csb (rlayout st) cs && forallb (fun t => negb (in_rem cs t)) (mts st)) eqn:E; [|discriminate].
        injection Hgo as <- <-. apply andb_true_iff in E as [E1 E2]. apply set_ct_inv; [exact HI|]. intros cs' [= <-]. split.
        + apply good_csb_sound. exact E1.
        + intros t Ht. rewrite forallb_forall in E2. specialize (E2 t Ht). apply negb_true_iff in E2. apply tmem_false. exact E2.
      - injection Hgo as <- <-. apply set_ct_inv; [exact HI|]. intros cs [=]. }
    assert (Hres : DBInv st' /\ absm st' = absm st /\ rd st' = rd st).
    { destruct (ct st); [destruct (cpend st); [discriminate|]| |discriminate]; eapply Hgo; eauto. }
    destruct Hres as (H1 & H2 & H3). rewrite H3. cbn. auto.
  - (* RC1F *)
    assert (Hres : DBInv st' /\ absm st' = absm st /\ rd st' = rd st).
    { destruct (ct st); [destruct (cpend st); [discriminate|]| |discriminate]; injection Hs as <- <-; (apply set_ct_inv; [exact HI|intros cs [=]]). }
    destruct Hres as (H1 & H2 & H3). rewrite H3. cbn. auto.
  - change (step dummy_cfg st AC2) with (step okcfg st AC2) in Hs. exact (step_ok _ _ _ _ _ Hok HI Hs).
  - (* RF2o *)
    destruct st as [M ms wb ll sq fp f cp c mc r]. cbn [ft mts msize walb lv seqn fpend cpend ct mcl rd] in Hs.
    destruct f as [|snap]; [discriminate|]. cbn [negb orb] in Hs.
    destruct (flush_okb (mkDb M ms wb ll sq fp (FSwap snap) cp c mc r) snap outs) eqn:E; [|discriminate]. injection Hs as <- <-.
    unfold DBInv, absm, vll in *. cbn [mts lv seqn ft ct rd fpend cpend msize walb mcl] in *.
    destruct (i_ft _ _ _ _ _ _ HI snap eq_refl) as (rest & HM & Hrest). subst M.
    assert (Hsk : skipn (length snap) (snap ++ rest) = rest) by (rewrite skipn_app, Nat.sub_diag, skipn_all; reflexivity).
    unfold flush_okb in E. cbn [lv mts] in E. rewrite Hsk in E.
    apply andb_true_iff in E as [E E4]. apply andb_true_iff in E as [E E3]. apply andb_true_iff in E as [E1 E2].
    rewrite Hsk.
    destruct (f2o_inv snap rest outs ll sq c r Hrest HI E1) as [J1 J2].
    + apply table_eqb_eq. exact E2.
    + intros t e Ht He. rewrite forallb_forall in E3. specialize (E3 t Ht). rewrite forallb_forall in E3. specialize (E3 e He).
      apply entry_in_sound in E3. exact E3.
    + apply sepb_sound. exact E4.
    + split; [exact J1|]. rewrite J2. split; [reflexivity|]. split; [exact I|reflexivity].
Qed.

Lemma rinit_inv n : (2 <= n)%nat -> DBInv (rinit n) /\ absm (rinit n) = [].
Proof.
  intros Hn. assert (Hc : cfg_ok (mkDbCfg 0 0 n (mkCfg 1 0 0 1))) by (unfold cfg_ok; cbn; repeat split; lia).
  split; [exact (init_inv _ Hc)|exact (absm_init _ Hc)].
Qed.

Lemma rrun_refines acts : forall s0 st os,
  DBInv s0 -> rrun s0 acts = Some (st, os) -> robs_ok (absm s0) (pend_of (rd s0)) acts os /\ DBInv st.
Proof.
  induction acts as [|a acts IH]; intros s0 st os HI Hr; cbn [rrun] in Hr.
  - injection Hr as <- <-. split; [exact I|exact HI].
  - destruct (rstep true s0 a) as [[s1 o]|] eqn:Hs; [|discriminate].
    destruct (rrun s1 acts) as [[s2 os']|] eqn:Hr'; [|discriminate]. injection Hr as <- <-.
    destruct (rstep_ok _ _ _ _ HI Hs) as (H1 & H2 & H3 & H4). destruct (IH _ _ _ H1 Hr') as [H5 H6].
    split; [|exact H6]. cbn [robs_ok]. split; [exact H3|]. rewrite <- H2, <- H4. exact H5.
Qed.

Theorem replay_refines_proof n acts st os :
  (2 <= n)%nat -> rrun (rinit n) acts = Some (st, os) -> robs_ok [] None acts os.
Proof.
  intros Hn Hr. destruct (rinit_inv n Hn) as [HI Ha]. destruct (rrun_refines acts _ _ _ HI Hr) as [H _].
  rewrite Ha in H. exact H.
Qed.

(* ---------- C18 without the compaction policy: ANY legal change set preserves validity and every read ---------- *)

Theorem legal_cs_preserves_proof ll cs :
  valid ll -> good_csb ll cs = true ->
  valid (apply_cs cs ll) /\ (forall k, ll_get k (apply_cs cs ll) = ll_get k ll) /\
  (forall p, ll_scan p (apply_cs cs ll) = ll_scan p ll) /\ view (apply_cs cs ll) = view ll /\
  (forall e, ents (apply_cs cs ll) e -> ents ll e).
Proof.
  intros (Hv & Hlen & Hne) Hb. pose proof (good_csb_sound _ _ Hb) as Hg.
  assert (Hv2 : valid (apply_cs cs ll)).
  { split; [apply apply_LLInv; assumption|]. split; [rewrite length_apply; exact Hlen|].
    intros l t Hl Ht. apply In_nth_error in Hl as (i & Hi). rewrite nth_error_apply in Hi.
    destruct (nth_error ll i) as [l1|] eqn:E; [|discriminate]. cbn in Hi. injection Hi as <-.
    apply in_newlvl in Ht. destruct Ht as [[Ht _]|[_ Ht]].
    - apply (Hne l1); [eapply nth_error_In; exact E|exact Ht].
    - apply (g_add _ _ Hg). exact Ht. }
  pose proof (apply_view _ _ Hv Hg) as Hview.
  split; [exact Hv2|]. split; [intros k; rewrite !ll_get_ok; [rewrite Hview; reflexivity|exact Hv|apply Hv2]|].
  assert (Hval : valid ll) by (split; [exact Hv|split; [exact Hlen|exact Hne]]).
  split; [intros p; rewrite !ll_scan_newest; [rewrite Hview; reflexivity|exact Hval|exact Hv2]|].
  split; [exact Hview|]. intros e He. eapply ents_apply_sub; eauto.
Qed.
