(* C08, database level: the representation invariant of Model/Ckpt.v, its preservation by every action of a database
   object, the characterisation of reads from it, and checkpoint -> restore exactness. Stdlib only. *)
From Coq Require Import List NArith Bool Lia Sorted.
From Coq Require Import ZifyN ZifyNat ZifyBool.
Import ListNotations.
From RV Require Import Base.Bytes Model.Ckpt.
Open Scope N_scope.

(* ------------------------------------------------------------------ list helpers (absent from the 8.16 standard library) *)
Lemma nth_error_skipn {A} (p : nat) (l : list A) i : nth_error (skipn p l) i = nth_error l (p + i).
Proof. revert l. induction p; intro l; [reflexivity|]. destruct l; [destruct i; reflexivity|]. cbn. apply IHp. Qed.
Lemma nth_error_firstn {A} (p : nat) (l : list A) i : (i < p)%nat -> nth_error (firstn p l) i = nth_error l i.
Proof. revert l i. induction p; intros l i H; [lia|]. destruct l; [reflexivity|]. destruct i; [reflexivity|]. cbn. apply IHp. lia. Qed.
Lemma firstn_In {A} (l : list A) n x : In x (firstn n l) -> In x l.
Proof. revert l. induction n; intros l H; [destruct H|]. destruct l; [destruct H|]. destruct H as [H|H]; [left; exact H|right; apply IHn; exact H]. Qed.
Lemma skipn_In {A} (l : list A) n x : In x (skipn n l) -> In x l.
Proof. revert l. induction n; intros l H; [exact H|]. destruct l; [destruct H|]. right. apply IHn. exact H. Qed.

(* ------------------------------------------------------------------ keys *)
Lemma beqb_refl k : beqb k k = true.
Proof. unfold beqb. rewrite bcmp_refl. reflexivity. Qed.
Lemma beqb_false_cmp k x : bcmp k x <> Eq -> beqb k x = false.
Proof. unfold beqb. destruct (bcmp k x); congruence. Qed.
Lemma beqb_sym k x : beqb k x = beqb x k.
Proof. unfold beqb. rewrite (bcmp_antisym k x). destruct (bcmp k x); reflexivity. Qed.
Lemma bcmp_gt_lt a b : bcmp a b = Gt -> bcmp b a = Lt.
Proof. intro H. rewrite (bcmp_antisym a b), H. reflexivity. Qed.

(* ------------------------------------------------------------------ memtables *)
Definition key_lt (x y : entry) : Prop := bcmp (e_key x) (e_key y) = Lt.
Definition mt_sorted (m : list entry) : Prop := StronglySorted key_lt m.

Lemma mt_put_in m e x : In x (mt_put m e) -> x = e \/ In x m.
Proof.
  induction m as [|y m IH]; cbn [mt_put]; intro H.
  - destruct H as [H|[]]; auto.
  - destruct (bcmp (e_key e) (e_key y)).
    + destruct H as [H|H]; [auto|right; right; exact H].
    + destruct H as [H|H]; [auto|right; exact H].
    + destruct H as [H|H]; [right; left; exact H|]. destruct (IH H); [auto|right; right; assumption].
Qed.

Lemma mt_put_sorted m e : mt_sorted m -> mt_sorted (mt_put m e).
Proof.
  induction m as [|y m IH]; cbn [mt_put]; intro S.
  - constructor; constructor.
  - inversion S as [|? ? S' F]; subst.
    destruct (bcmp (e_key e) (e_key y)) eqn:C.
    + apply bcmp_eq in C. constructor; [exact S'|].
      eapply Forall_impl; [|exact F]. intros z Hz. unfold key_lt in *. rewrite C. exact Hz.
    + constructor; [exact S|]. constructor; [exact C|].
      eapply Forall_impl; [|exact F]. intros z Hz. unfold key_lt in *. eapply bcmp_lt_trans; eassumption.
    + constructor; [apply IH; exact S'|].
      apply Forall_forall. intros z Hz. destruct (mt_put_in _ _ _ Hz) as [->|Hz'].
      * unfold key_lt. apply bcmp_gt_lt. exact C.
      * rewrite Forall_forall in F. apply F. exact Hz'.
Qed.

Lemma mt_find_none_lt m k : mt_sorted m -> (forall x, In x m -> bcmp k (e_key x) = Lt) -> mt_find m k = None.
Proof.
  induction m as [|y m IH]; intros S H; [reflexivity|]. cbn [mt_find].
  rewrite beqb_false_cmp by (rewrite (H y (or_introl eq_refl)); discriminate).
  inversion S; subst. apply IH; [assumption|]. intros x Hx. apply H. right. exact Hx.
Qed.

Lemma mt_find_put m e k : mt_sorted m -> mt_find (mt_put m e) k = if beqb k (e_key e) then Some e else mt_find m k.
Proof.
  induction m as [|y m IH]; intro S; cbn [mt_put mt_find]; [reflexivity|].
  inversion S as [|? ? S' F]; subst.
  destruct (bcmp (e_key e) (e_key y)) eqn:C; cbn [mt_find].
  - apply bcmp_eq in C. destruct (beqb k (e_key e)) eqn:B; [reflexivity|]. rewrite <- C, B. reflexivity.
  - reflexivity.
  - destruct (beqb k (e_key y)) eqn:By.
    + apply beqb_eq in By. subst k. rewrite beqb_false_cmp; [reflexivity|].
      rewrite (bcmp_antisym (e_key e) (e_key y)), C. discriminate.
    + apply IH. exact S'.
Qed.

Lemma newest_sorted m k : mt_sorted m -> newest m k = mt_find m k.
Proof.
  induction m as [|y m IH]; intro S; [reflexivity|]. cbn [newest mt_find].
  inversion S as [|? ? S' F]; subst. destruct (beqb k (e_key y)) eqn:B.
  - apply beqb_eq in B. subst k. rewrite IH by exact S'.
    rewrite mt_find_none_lt; [reflexivity|exact S'|]. rewrite Forall_forall in F. exact F.
  - apply IH. exact S'.
Qed.

Definition build (ws : list entry) : list entry := fold_left mt_put ws [].
Fixpoint lastw (ws : list entry) (k : bytes) : option entry :=
  match ws with
  | [] => None
  | e :: ws' => match lastw ws' k with Some x => Some x | None => if beqb k (e_key e) then Some e else None end
  end.

Lemma lastw_app a b k : lastw (a ++ b) k = match lastw b k with Some x => Some x | None => lastw a k end.
Proof. induction a as [|e a IH]; cbn [app lastw]; [destruct (lastw b k); reflexivity|]. rewrite IH. destruct (lastw b k); reflexivity. Qed.

Lemma build_snoc ws e : build (ws ++ [e]) = mt_put (build ws) e.
Proof. unfold build. rewrite fold_left_app. reflexivity. Qed.

Lemma build_sorted ws : mt_sorted (build ws).
Proof. induction ws as [|e ws IH] using rev_ind; [constructor|]. rewrite build_snoc. apply mt_put_sorted. exact IH. Qed.

Lemma build_in ws x : In x (build ws) -> In x ws.
Proof.
  induction ws as [|e ws IH] using rev_ind; [intros []|]. rewrite build_snoc. intro H.
  apply in_or_app. destruct (mt_put_in _ _ _ H) as [->|H']; [right; left; reflexivity|left; apply IH; exact H'].
Qed.

Lemma newest_build ws k : newest (build ws) k = lastw ws k.
Proof.
  rewrite newest_sorted by apply build_sorted.
  induction ws as [|e ws IH] using rev_ind; [reflexivity|].
  rewrite build_snoc, mt_find_put by apply build_sorted. rewrite lastw_app. cbn [lastw].
  destruct (beqb k (e_key e)); [reflexivity|]. exact IH.
Qed.

Lemma lastw_in ws k e : lastw ws k = Some e -> In e ws /\ e_key e = k.
Proof.
  induction ws as [|x ws IH]; cbn [lastw]; [discriminate|].
  destruct (lastw ws k) eqn:L.
  - intro H. inversion H; subst. destruct (IH eq_refl). split; [right|]; assumption.
  - destruct (beqb k (e_key x)) eqn:B; [|discriminate]. intro H. inversion H; subst. split; [left; reflexivity|]. apply beqb_eq in B. auto.
Qed.

(* ------------------------------------------------------------------ newest over concatenations *)
Definition pick (a b : option entry) : option entry :=
  match a, b with
  | Some x, Some y => if e_seq x <? e_seq y then Some y else Some x
  | Some x, None => Some x
  | None, o => o
  end.

Lemma newest_app a b k : newest (a ++ b) k = pick (newest a k) (newest b k).
Proof.
  induction a as [|x a IH]; cbn [app newest]; [destruct (newest b k); reflexivity|].
  destruct (beqb k (e_key x)); [|exact IH]. rewrite IH.
  destruct (newest a k) as [y|], (newest b k) as [z|]; cbn [pick]; try reflexivity.
  - destruct (e_seq y <? e_seq z) eqn:A, (e_seq x <? e_seq y) eqn:B, (e_seq x <? e_seq z) eqn:C;
      cbn [pick]; rewrite ?A, ?B, ?C; try reflexivity; exfalso; lia.
  - destruct (e_seq x <? e_seq y); reflexivity.
Qed.

Lemma newest_in es k e : newest es k = Some e -> In e es /\ e_key e = k.
Proof.
  revert e. induction es as [|x es IH]; cbn [newest]; [discriminate|]. intro e.
  destruct (beqb k (e_key x)) eqn:B.
  - destruct (newest es k) as [y|] eqn:N.
    + destruct (e_seq x <? e_seq y); intro H; inversion H; subst.
      * destruct (IH _ eq_refl). split; [right|]; assumption.
      * apply beqb_eq in B. split; [left; reflexivity|auto].
    + intro H; inversion H; subst. apply beqb_eq in B. split; [left; reflexivity|auto].
  - intro H. destruct (IH _ H). split; [right|]; assumption.
Qed.

(* when every entry of [a] is at least as new as every entry of [b], the left part wins *)
Lemma newest_app_left a b k :
  (forall x y, In x a -> In y b -> e_seq y <= e_seq x) ->
  newest (a ++ b) k = match newest a k with Some x => Some x | None => newest b k end.
Proof.
  intro H. rewrite newest_app. destruct (newest a k) as [x|] eqn:A; [|reflexivity].
  destruct (newest b k) as [y|] eqn:B; [|reflexivity]. cbn [pick].
  apply newest_in in A. apply newest_in in B. specialize (H x y (proj1 A) (proj1 B)).
  destruct (e_seq x <? e_seq y) eqn:C; [lia|reflexivity].
Qed.

(* ------------------------------------------------------------------ sequences of writes *)
Definition contig (ws : list entry) (a : N) : Prop :=
  forall i e, nth_error ws i = Some e -> e_seq e = a + 1 + N.of_nat i.

Lemma contig_app_r ws e a : contig ws a -> e_seq e = a + 1 + N.of_nat (length ws) -> contig (ws ++ [e]) a.
Proof.
  intros C E i x H. destruct (Nat.lt_ge_cases i (length ws)) as [L|L].
  - rewrite nth_error_app1 in H by exact L. apply C. exact H.
  - rewrite nth_error_app2 in H by exact L. destruct (i - length ws)%nat eqn:D; cbn in H.
    + inversion H; subst. rewrite E. f_equal. lia.
    + destruct n; discriminate.
Qed.

Lemma contig_skipn ws a p : contig ws a -> contig (skipn p ws) (a + N.of_nat p).
Proof.
  intros C i e H. rewrite nth_error_skipn in H. rewrite (C _ _ H). lia.
Qed.

Lemma contig_in ws a e : contig ws a -> In e ws -> a < e_seq e /\ e_seq e <= a + N.of_nat (length ws).
Proof.
  intros C H. apply In_nth_error in H. destruct H as [i H]. rewrite (C _ _ H).
  assert (i < length ws)%nat by (apply nth_error_Some; congruence). lia.
Qed.

Lemma contig_app_split u v a e f : contig (u ++ v) a -> In e u -> In f v -> e_seq e < e_seq f.
Proof.
  intros C He Hf. apply In_nth_error in He. destruct He as [i He]. apply In_nth_error in Hf. destruct Hf as [j Hf].
  assert (i < length u)%nat by (apply nth_error_Some; congruence).
  rewrite (C i e) by (rewrite nth_error_app1; assumption).
  rewrite (C (length u + j)%nat f) by (rewrite nth_error_app2 by lia; replace (length u + j - length u)%nat with j by lia; exact Hf).
  lia.
Qed.

Definition normal (e : entry) : Prop := e_del e = true -> e_val e = [].

(* ------------------------------------------------------------------ the representation invariant *)
Definition segs_ok (w : walw) (seq : N) : Prop :=
  Forall (fun g => Forall (fun e => e_seq e <= sg_latest g) (sg_es g)) (w_sealed w) /\
  (w_active w <> [] -> w_latest w = seq).

Definition ends_ok (ts : list table) : Prop := Forall (fun t => forall e, In e (t_es t) -> e_seq e <= t_end t) ts.

(* witnesses: [a] = sequence number before the first WAL entry; [pre] = WAL entries already covered by tables;
   [cs] = the writes of each sealed memtable, oldest first; [ca] = the writes of the active memtable *)
Record Rep (d : dbc) (a : N) (pre : list entry) (cs : list (list entry)) (ca : list entry) : Prop := mkRep {
  rp_wal : wal_content (d_wal d) = pre ++ concat cs ++ ca;
  rp_contig : contig (pre ++ concat cs ++ ca) a;
  rp_pre : a + N.of_nat (length pre) = d_latest d;
  rp_seq : d_latest d + N.of_nat (length (concat cs ++ ca)) = d_seq d;
  rp_sealed : d_sealed d = map build cs;
  rp_active : d_active d = build ca;
  rp_nonempty : Forall (fun c => c <> []) cs;
  rp_tables : Forall (fun e => e_seq e <= d_latest d) (tables_entries (d_tables d));
  rp_ends : ends_ok (d_tables d);
  rp_normal : Forall normal (pre ++ concat cs ++ ca);
  rp_segs : segs_ok (d_wal d) (d_seq d)
}.
Definition Inv (d : dbc) : Prop := exists a pre cs ca, Rep d a pre cs ca.

Lemma inv_new mem wm : Inv (db_new mem wm).
Proof.
  exists 0, [], [], []. constructor; cbn;
    try solve [reflexivity | constructor | intros i e H; destruct i; discriminate
              | split; [constructor | intro H; exfalso; apply H; reflexivity]].
Qed.

(* the suffix of the WAL that the memtables hold *)
Lemma rep_suffix_bounds d a pre cs ca : Rep d a pre cs ca ->
  (forall e, In e pre -> e_seq e <= d_latest d) /\ (forall e, In e (concat cs ++ ca) -> d_latest d < e_seq e /\ e_seq e <= d_seq d).
Proof.
  intro R. destruct R. split.
  - intros e H. assert (In e (pre ++ concat cs ++ ca)) as H' by (apply in_or_app; left; exact H).
    apply In_nth_error in H. destruct H as [i H].
    assert (i < length pre)%nat by (apply nth_error_Some; congruence).
    rewrite (rp_contig0 i e) by (rewrite nth_error_app1; assumption). lia.
  - intros e H. apply In_nth_error in H. destruct H as [j H].
    assert (j < length (concat cs ++ ca))%nat by (apply nth_error_Some; congruence).
    rewrite (rp_contig0 (length pre + j)%nat e)
      by (rewrite nth_error_app2 by lia; replace (length pre + j - length pre)%nat with j by lia; exact H).
    lia.
Qed.

(* ------------------------------------------------------------------ reads from the invariant *)
Lemma flat_id {A} (l : list (list A)) : flat_map (fun m => m) l = concat l.
Proof. induction l; cbn; [reflexivity|]. rewrite IHl. reflexivity. Qed.

(* newest over the memtables (active, then sealed newest first) is the last write of the key in the WAL suffix *)
Lemma newest_chunks (cs : list (list entry)) (ca : list entry) a0 k :
  contig (concat cs ++ ca) a0 ->
  newest (build ca ++ concat (rev (map build cs))) k = lastw (concat cs ++ ca) k.
Proof.
  revert ca. induction cs as [|c cs IH] using rev_ind; intros ca C.
  - cbn. rewrite app_nil_r. apply newest_build.
  - rewrite map_app, rev_app_distr. cbn [map rev app concat].
    rewrite concat_app. cbn [concat]. rewrite app_nil_r.
    rewrite newest_app_left.
    + rewrite newest_build. rewrite lastw_app.
      destruct (lastw ca k) as [x|]; [reflexivity|].
      specialize (IH c). rewrite concat_app in C. cbn [concat] in C. rewrite app_nil_r in C.
      assert (contig (concat cs ++ c) a0) as C'.
      { intros i e H. apply C. rewrite nth_error_app1; [exact H|]. apply nth_error_Some. congruence. }
      rewrite <- (IH C'). reflexivity.
    + intros x y Hx Hy. apply build_in in Hx.
      assert (In y (concat cs ++ c)) as Hy'.
      { apply in_app_or in Hy. apply in_or_app. destruct Hy as [Hy|Hy].
        - right. apply build_in. exact Hy.
        - left. rewrite <- flat_id in Hy. apply in_flat_map in Hy. destruct Hy as [m [Hm Hy]].
          apply in_rev in Hm. apply in_map_iff in Hm. destruct Hm as [c0 [<- Hc0]]. apply build_in in Hy.
          apply in_concat. exists c0. split; assumption. }
      rewrite concat_app in C. cbn [concat] in C. rewrite app_nil_r, <- app_assoc in C.
      rewrite app_assoc in C. pose proof (contig_app_split _ _ _ _ _ C Hy' Hx). lia.
Qed.

Definition view (suffix : list entry) (ts : list table) (k : bytes) : option bytes :=
  value_of (match lastw suffix k with Some x => Some x | None => newest (tables_entries ts) k end).

Theorem db_get_char d a pre cs ca k : Rep d a pre cs ca -> db_get d k = view (concat cs ++ ca) (d_tables d) k.
Proof.
  intro R. pose proof (rep_suffix_bounds _ _ _ _ _ R) as [_ Hs]. destruct R.
  unfold db_get, view, db_entries. rewrite rp_sealed0, rp_active0, flat_id, app_assoc.
  rewrite newest_app_left.
  - rewrite <- map_rev. rewrite map_rev.
    rewrite (newest_chunks cs ca (a + N.of_nat (length pre))); [reflexivity|].
    replace (concat cs ++ ca) with (skipn (length pre) (pre ++ concat cs ++ ca)).
    + apply contig_skipn. exact rp_contig0.
    + rewrite skipn_app, skipn_all, Nat.sub_diag. reflexivity.
  - intros x y Hx Hy. rewrite Forall_forall in rp_tables0. specialize (rp_tables0 y Hy).
    assert (In x (concat cs ++ ca)) as Hx'.
    { apply in_app_or in Hx. apply in_or_app. destruct Hx as [Hx|Hx].
      - right. apply build_in. exact Hx.
      - left. apply in_concat in Hx. destruct Hx as [m [Hm Hx]]. apply in_rev in Hm.
        apply in_map_iff in Hm. destruct Hm as [c0 [<- Hc0]]. apply build_in in Hx. apply in_concat. exists c0. split; assumption. }
    destruct (Hs x Hx'). lia.
Qed.

(* ------------------------------------------------------------------ preservation: rotate, write, checkpoint *)
Lemma wal_content_cut w : wal_content (wal_cut w) = wal_content w.
Proof. unfold wal_content, wal_cut. cbn. rewrite flat_map_app. cbn. rewrite !app_nil_r. reflexivity. Qed.
Lemma wal_content_rotate w : wal_content (wal_rotate w) = wal_content w.
Proof. unfold wal_content, wal_rotate. cbn. rewrite flat_map_app. cbn. rewrite !app_nil_r. reflexivity. Qed.

Lemma segs_ok_seal w seq : segs_ok w seq -> Forall (fun e => e_seq e <= seq) (w_active w) ->
  Forall (fun g => Forall (fun e => e_seq e <= sg_latest g) (sg_es g)) (w_sealed w ++ [mkSeg (w_active w) (w_latest w)]).
Proof.
  intros [S L] F. apply Forall_app. split; [exact S|]. constructor; [|constructor]. cbn.
  destruct (w_active w) eqn:A; [constructor|]. rewrite L by congruence. exact F.
Qed.

Lemma rep_active_bound d a pre cs ca : Rep d a pre cs ca -> Forall (fun e => e_seq e <= d_seq d) (w_active (d_wal d)).
Proof.
  intro R. pose proof (rep_suffix_bounds _ _ _ _ _ R) as [Hp Hs]. destruct R.
  apply Forall_forall. intros e He.
  assert (In e (pre ++ concat cs ++ ca)) as H.
  { rewrite <- rp_wal0. unfold wal_content. apply in_or_app. right. exact He. }
  apply in_app_or in H. destruct H as [H|H]; [specialize (Hp e H); lia|destruct (Hs e H); assumption].
Qed.

Lemma rep_rotate d a pre cs ca : Rep d a pre cs ca -> ca <> [] -> Rep (db_rotate d) a pre (cs ++ [ca]) [].
Proof.
  intros R NE. pose proof (rep_active_bound _ _ _ _ _ R) as AB. destruct R.
  assert (concat (cs ++ [ca]) ++ [] = concat cs ++ ca) as E by (rewrite concat_app; cbn; rewrite !app_nil_r; reflexivity).
  constructor; cbn [db_rotate d_wal d_latest d_seq d_sealed d_active d_tables]; rewrite ?E; try assumption.
  - rewrite wal_content_cut. exact rp_wal0.
  - rewrite rp_sealed0, map_app, rp_active0. reflexivity.
  - reflexivity.
  - apply Forall_app. split; [assumption|constructor; [exact NE|constructor]].
  - split; [apply (segs_ok_seal _ (d_seq d)); assumption|]. cbn. congruence.
Qed.

Lemma rep_put d a pre cs ca e :
  Rep d a pre cs ca -> e_seq e = d_seq d + 1 -> normal e ->
  Rep (mkDb (d_seq d + 1) (mt_put (d_active d) e) (d_sealed d) (d_tables d) (d_latest d) (wal_put (d_wal d) e) (d_mem d) (d_walmax d))
      a pre cs (ca ++ [e]).
Proof.
  intros R E NE. destruct R.
  assert (pre ++ concat cs ++ ca ++ [e] = (pre ++ concat cs ++ ca) ++ [e]) as A by (rewrite <- !app_assoc; reflexivity).
  constructor; cbn [d_wal d_latest d_seq d_sealed d_active d_tables]; try assumption.
  - unfold wal_content, wal_put. cbn. unfold wal_content in rp_wal0. rewrite app_assoc, rp_wal0, <- !app_assoc. reflexivity.
  - rewrite A. apply contig_app_r; [assumption|]. rewrite E, <- rp_seq0, <- rp_pre0, !app_length. lia.
  - rewrite <- rp_seq0, app_assoc, !app_length. cbn. lia.
  - rewrite rp_active0. symmetry. apply build_snoc.
  - rewrite A. apply Forall_app. split; [assumption|constructor; [exact NE|constructor]].
  - destruct rp_segs0 as [S L]. split; [exact S|]. cbn. intros _. exact E.
Qed.

Lemma rep_write d a pre cs ca k del v :
  Rep d a pre cs ca ->
  exists cs' ca', Rep (fst (db_write d k del v)) a pre cs' ca' /\
                  concat cs' ++ ca' = concat cs ++ ca ++ [mkE k (d_seq d + 1) del (if del then [] else v)].
Proof.
  intro R. unfold db_write. set (e := mkE k (d_seq d + 1) del (if del then [] else v)).
  assert (Rep (mkDb (d_seq d + 1) (mt_put (d_active d) e) (d_sealed d) (d_tables d) (d_latest d) (wal_put (d_wal d) e) (d_mem d) (d_walmax d)) a pre cs (ca ++ [e])) as R1.
  { apply rep_put; [exact R|reflexivity|]. unfold normal, e. cbn. intros ->. reflexivity. }
  destruct (_ || _).
  - exists (cs ++ [ca ++ [e]]), []. split.
    + cbn [fst]. apply (rep_rotate _ _ _ _ _ R1). destruct ca; discriminate.
    + rewrite concat_app. cbn. rewrite !app_nil_r. reflexivity.
  - exists cs, (ca ++ [e]). split; [exact R1|reflexivity].
Qed.

(* the same for a write whose rotation decision is given (observed), whatever it is *)
Lemma rep_write_at d a pre cs ca k del v rot :
  Rep d a pre cs ca ->
  exists cs' ca', Rep (db_write_at d k del v rot) a pre cs' ca' /\
                  concat cs' ++ ca' = concat cs ++ ca ++ [mkE k (d_seq d + 1) del (if del then [] else v)].
Proof.
  intro R. unfold db_write_at, db_put. set (e := mkE k (d_seq d + 1) del (if del then [] else v)).
  assert (Rep (mkDb (d_seq d + 1) (mt_put (d_active d) e) (d_sealed d) (d_tables d) (d_latest d) (wal_put (d_wal d) e) (d_mem d) (d_walmax d)) a pre cs (ca ++ [e])) as R1.
  { apply rep_put; [exact R|reflexivity|]. unfold normal, e. cbn. intros ->. reflexivity. }
  destruct rot.
  - exists (cs ++ [ca ++ [e]]), []. split.
    + apply (rep_rotate _ _ _ _ _ R1). destruct ca; discriminate.
    + rewrite concat_app. cbn. rewrite !app_nil_r. reflexivity.
  - exists cs, (ca ++ [e]). split; [exact R1|reflexivity].
Qed.

Lemma db_write_at_eq d k del v : fst (db_write d k del v) = db_write_at d k del v (snd (db_write d k del v)).
Proof. unfold db_write, db_write_at, db_put. destruct (_ || _); reflexivity. Qed.

Lemma rep_checkpoint d a pre cs ca : Rep d a pre cs ca -> Rep (fst (db_checkpoint d)) a pre cs ca.
Proof.
  intro R. pose proof (rep_active_bound _ _ _ _ _ R) as AB. destruct R.
  constructor; cbn [db_checkpoint fst d_wal d_latest d_seq d_sealed d_active d_tables]; try assumption.
  - rewrite wal_content_rotate. exact rp_wal0.
  - split; [apply (segs_ok_seal _ (d_seq d)); assumption|]. cbn. congruence.
Qed.

(* ------------------------------------------------------------------ preservation: compaction, flush *)
Lemma max_seq_bound es e : In e es -> e_seq e <= max_seq es.
Proof. induction es as [|x es IH]; [intros []|]. intros [->|H]; unfold max_seq in *; cbn [fold_right]; [lia|]. specialize (IH H). lia. Qed.

Lemma tables_latest_bound ts t : In t ts -> t_end t <= tables_latest ts.
Proof. induction ts as [|x ts IH]; [intros []|]. intros [->|H]; unfold tables_latest in *; cbn [fold_right]; [lia|]. specialize (IH H). lia. Qed.

Lemma rep_compact d a pre cs ca removed added :
  Rep d a pre cs ca -> ends_ok added -> tables_latest added <= d_latest d ->
  Rep (db_compact_apply d removed added) a pre cs ca.
Proof.
  intros R EO LE. destruct R.
  assert (N.max (d_latest d) (tables_latest added) = d_latest d) as M by lia.
  constructor; cbn [db_compact_apply d_wal d_latest d_seq d_sealed d_active d_tables]; rewrite ?M; try assumption.
  - unfold tables_entries. rewrite flat_map_app. apply Forall_app. split.
    + apply Forall_forall. intros e He. apply in_flat_map in He. destruct He as [t [Ht He]].
      apply filter_In in Ht. rewrite Forall_forall in rp_tables0. apply rp_tables0. apply in_flat_map. exists t. split; [apply Ht|exact He].
    + apply Forall_forall. intros e He. apply in_flat_map in He. destruct He as [t [Ht He]].
      unfold ends_ok in EO. rewrite Forall_forall in EO. specialize (EO t Ht e He). pose proof (tables_latest_bound _ _ Ht). lia.
  - unfold ends_ok in *. apply Forall_app. split; [|exact EO].
    apply Forall_forall. intros t Ht. apply filter_In in Ht. rewrite Forall_forall in rp_ends0. apply rp_ends0. apply Ht.
Qed.

(* dropping the leading covered segments removes a prefix of entries that are all <= s *)
Lemma drop_covered_spec segs s :
  Forall (fun g => Forall (fun e => e_seq e <= sg_latest g) (sg_es g)) segs ->
  exists p, flat_map sg_es (drop_covered segs s) = skipn p (flat_map sg_es segs) /\
            (forall e, In e (firstn p (flat_map sg_es segs)) -> e_seq e <= s) /\
            (p <= length (flat_map sg_es segs))%nat /\
            Forall (fun g => Forall (fun e => e_seq e <= sg_latest g) (sg_es g)) (drop_covered segs s).
Proof.
  induction segs as [|g segs IH]; intro F.
  - exists 0%nat. cbn. repeat split; [intros e []|lia|constructor].
  - inversion F as [|? ? Fg F']; subst. cbn [drop_covered]. destruct (s <? sg_latest g) eqn:C.
    + exists 0%nat. cbn [skipn firstn]. repeat split; [intros e []|lia|exact F].
    + destruct (IH F') as [p [E [B [L F'']]]]. exists (length (sg_es g) + p)%nat. cbn [flat_map]. repeat split.
      * rewrite skipn_app, skipn_all2 by lia. cbn. replace (length (sg_es g) + p - length (sg_es g))%nat with p by lia. exact E.
      * intros e He. rewrite firstn_app in He. apply in_app_or in He. destruct He as [He|He].
        -- apply firstn_In in He. rewrite Forall_forall in Fg. specialize (Fg e He). lia.
        -- replace (length (sg_es g) + p - length (sg_es g))%nat with p in He by lia. apply B. exact He.
      * rewrite app_length. lia.
      * exact F''.
Qed.

Lemma build_last c x : In x c -> (forall y, In y c -> e_seq y <= e_seq x) -> True.
Proof. trivial. Qed.

Lemma build_contains_last c e : In e (build (c ++ [e])).
Proof.
  rewrite build_snoc. generalize (build c). intro m. induction m as [|y m IH]; cbn [mt_put]; [left; reflexivity|].
  destruct (bcmp (e_key e) (e_key y)); [left; reflexivity|left; reflexivity|right; exact IH].
Qed.

(* the tables a flush writes for the first n sealed memtables *)
Lemma mk_tables_entries dir next ms : tables_entries (mk_tables dir next ms) = concat ms.
Proof.
  revert next. induction ms as [|m ms IH]; intro next; [reflexivity|].
  unfold tables_entries in *. cbn [mk_tables flat_map t_es concat]. rewrite IH. reflexivity.
Qed.
Definition chunks_max (ms : list (list entry)) : N := fold_right (fun m a => N.max (max_seq m) a) 0 ms.
Lemma mk_tables_latest dir next ms : tables_latest (mk_tables dir next ms) = chunks_max ms.
Proof.
  revert next. induction ms as [|m ms IH]; intro next; [reflexivity|].
  unfold tables_latest, chunks_max in *. cbn [mk_tables fold_right t_end]. rewrite IH. reflexivity.
Qed.
Lemma mk_tables_ends dir next ms : ends_ok (mk_tables dir next ms).
Proof.
  revert next. induction ms as [|m ms IH]; intro next; [constructor|]. cbn [mk_tables]. constructor; [|apply IH].
  cbn [t_es t_end]. intros e He. apply max_seq_bound. exact He.
Qed.

Lemma max_seq_le es b : (forall e, In e es -> e_seq e <= b) -> max_seq es <= b.
Proof.
  induction es as [|x es IH]; intro H; unfold max_seq in *; cbn [fold_right]; [lia|].
  assert (e_seq x <= b) by (apply H; left; reflexivity).
  assert (fold_right (fun e a => N.max (e_seq e) a) 0 es <= b) by (apply IH; intros e He; apply H; right; exact He). lia.
Qed.

Lemma max_seq_chunks_bound (cs : list (list entry)) b :
  (forall e, In e (concat cs) -> e_seq e <= b) -> chunks_max (map build cs) <= b.
Proof.
  induction cs as [|c cs IH]; intro H; unfold chunks_max in *; cbn [map fold_right]; [lia|].
  assert (max_seq (build c) <= b).
  { apply max_seq_le. intros e He. apply H. cbn [concat]. apply in_or_app. left. apply build_in. exact He. }
  assert (fold_right (fun m a => N.max (max_seq m) a) 0 (map build cs) <= b).
  { apply IH. intros e He. apply H. cbn [concat]. apply in_or_app. right. exact He. }
  lia.
Qed.

Lemma max_seq_chunks_reach (cs : list (list entry)) c e :
  In (c ++ [e]) cs -> e_seq e <= chunks_max (map build cs).
Proof.
  induction cs as [|c0 cs IH]; [intros []|]. unfold chunks_max in *. cbn [map fold_right]. intros [->|H].
  - pose proof (max_seq_bound _ _ (build_contains_last c e)). lia.
  - specialize (IH H). lia.
Qed.

Theorem rep_flush_swap d a pre cs ca n dir next :
  Rep d a pre cs ca -> (n <= length cs)%nat ->
  exists a' pre', Rep (db_flush_swap d n (mk_tables dir next (firstn n (d_sealed d)))) a' pre' (skipn n cs) ca.
Proof.
  intros R Hn. pose proof (rep_suffix_bounds _ _ _ _ _ R) as [Hp Hs]. destruct R.
  set (ts := mk_tables dir next (firstn n (d_sealed d))).
  set (fl := concat (firstn n cs)).
  assert (concat cs = fl ++ concat (skipn n cs)) as Ecs by (unfold fl; rewrite <- concat_app, firstn_skipn; reflexivity).
  (* the new LatestSeqNum is exactly the boundary after the flushed chunks *)
  assert (N.max (d_latest d) (tables_latest ts) = d_latest d + N.of_nat (length fl)) as EL.
  { unfold ts. rewrite mk_tables_latest, rp_sealed0, firstn_map.
    assert (chunks_max (map build (firstn n cs)) <= d_latest d + N.of_nat (length fl)) as UB.
    { apply max_seq_chunks_bound. intros e He. fold fl in He.
      apply In_nth_error in He. destruct He as [j He].
      assert (j < length fl)%nat by (apply nth_error_Some; congruence).
      rewrite (rp_contig0 (length pre + j)%nat e).
      - lia.
      - rewrite nth_error_app2 by lia. replace (length pre + j - length pre)%nat with j by lia.
        rewrite Ecs, <- app_assoc. rewrite nth_error_app1 by assumption. exact He. }
    destruct (firstn n cs) as [|c0 cs0] eqn:F using rev_ind.
    - subst fl. unfold chunks_max. cbn [map fold_right concat length]. lia.
    - try clear IHl.
      assert (In c0 cs) as Hc0 by (apply (firstn_In cs n); rewrite F; apply in_or_app; right; left; reflexivity).
      rewrite Forall_forall in rp_nonempty0. specialize (rp_nonempty0 c0 Hc0).
      destruct (exists_last rp_nonempty0) as [c1 [e1 ->]].
      assert (e_seq e1 <= chunks_max (map build (cs0 ++ [c1 ++ [e1]]))) as LB
        by (eapply max_seq_chunks_reach; apply in_or_app; right; left; reflexivity).
      (* e1 is the last entry of fl: its sequence number is latest + |fl| *)
      assert (fl = concat cs0 ++ c1 ++ [e1]) as Efl by (unfold fl; rewrite concat_app; cbn [concat]; rewrite app_nil_r; reflexivity).
      assert (e_seq e1 = d_latest d + N.of_nat (length fl)) as E1.
      { rewrite (rp_contig0 (length pre + (length fl - 1))%nat e1).
        - rewrite Efl, !app_length. cbn. lia.
        - rewrite nth_error_app2 by lia. replace (length pre + (length fl - 1) - length pre)%nat with (length fl - 1)%nat by lia.
          rewrite Ecs, <- app_assoc, nth_error_app1 by (rewrite Efl, !app_length; cbn; lia).
          rewrite Efl, !app_assoc, nth_error_app2 by (rewrite !app_length; cbn; lia).
          replace (length ((concat cs0 ++ c1) ++ [e1]) - 1 - length (concat cs0 ++ c1))%nat with 0%nat by (rewrite !app_length; cbn; lia).
          reflexivity. }
      lia. }
  (* truncation *)
  destruct rp_segs0 as [SO LA].
  destruct (drop_covered_spec (w_sealed (d_wal d)) (d_latest d + N.of_nat (length fl)) SO) as [p [EP [BP [LP SO']]]].
  set (W := pre ++ concat cs ++ ca) in *.
  assert (flat_map sg_es (w_sealed (d_wal d)) ++ w_active (d_wal d) = W) as EW by exact rp_wal0.
  assert (p <= length pre + length fl)%nat as PB.
  { destruct (Nat.le_gt_cases p (length pre + length fl)) as [|G]; [assumption|exfalso].
    (* the entry at index |pre|+|fl| is in the dropped prefix but is greater than the bound *)
    assert (length pre + length fl < length (flat_map sg_es (w_sealed (d_wal d))))%nat as L1 by lia.
    destruct (nth_error (flat_map sg_es (w_sealed (d_wal d))) (length pre + length fl)) as [e|] eqn:N;
      [|apply nth_error_None in N; lia].
    assert (In e (firstn p (flat_map sg_es (w_sealed (d_wal d))))) as Hin.
    { apply (nth_error_In _ (length pre + length fl)). rewrite nth_error_firstn by lia. exact N. }
    specialize (BP e Hin).
    assert (nth_error W (length pre + length fl) = Some e) as NW by (rewrite <- EW, nth_error_app1 by lia; exact N).
    rewrite (rp_contig0 _ _ NW) in BP. lia. }
  exists (a + N.of_nat p), (skipn p (pre ++ fl)).
  assert (W = (pre ++ fl) ++ concat (skipn n cs) ++ ca) as EW2 by (unfold W; rewrite Ecs, <- !app_assoc; reflexivity).
  assert (skipn p W = skipn p (pre ++ fl) ++ concat (skipn n cs) ++ ca) as ESK.
  { rewrite EW2, skipn_app. rewrite app_length. replace (p - (length pre + length fl))%nat with 0%nat by lia. reflexivity. }
  constructor; cbn [db_flush_swap d_wal d_latest d_seq d_sealed d_active d_tables]; fold ts; rewrite ?EL.
  - unfold wal_content, wal_truncate. cbn. rewrite EP, <- ESK, <- EW.
    rewrite skipn_app. replace (p - length (flat_map sg_es (w_sealed (d_wal d))))%nat with 0%nat by lia. reflexivity.
  - rewrite <- ESK. apply contig_skipn. exact rp_contig0.
  - rewrite skipn_length, app_length. lia.
  - rewrite <- rp_seq0, Ecs, <- !app_assoc, !app_length. lia.
  - rewrite rp_sealed0, skipn_map. reflexivity.
  - exact rp_active0.
  - apply Forall_forall. intros c Hc. rewrite Forall_forall in rp_nonempty0. apply rp_nonempty0. eapply skipn_In. exact Hc.
  - unfold tables_entries. rewrite flat_map_app. apply Forall_app. split.
    + eapply Forall_impl; [|exact rp_tables0]. cbn. intros e He. lia.
    + fold (tables_entries ts). unfold ts. rewrite mk_tables_entries, rp_sealed0, firstn_map.
      apply Forall_forall. intros e He. apply in_concat in He. destruct He as [m [Hm He]].
      apply in_map_iff in Hm. destruct Hm as [c0 [<- Hc0]]. apply build_in in He.
      assert (In e fl) as Hfl by (unfold fl; apply in_concat; exists c0; split; assumption).
      apply In_nth_error in Hfl. destruct Hfl as [j Hj].
      assert (j < length fl)%nat by (apply nth_error_Some; congruence).
      rewrite (rp_contig0 (length pre + j)%nat e); [lia|].
      unfold W. rewrite nth_error_app2 by lia. replace (length pre + j - length pre)%nat with j by lia.
      rewrite Ecs, <- app_assoc, nth_error_app1 by assumption. exact Hj.
  - unfold ends_ok. apply Forall_app. split; [exact rp_ends0|apply mk_tables_ends].
  - rewrite <- ESK. apply Forall_forall. intros e He. rewrite Forall_forall in rp_normal0. apply rp_normal0. eapply skipn_In. exact He.
  - split; [exact SO'|exact LA].
Qed.

(* ------------------------------------------------------------------ restore *)
(* the writes a replay performs: owned entries of the log, re-stamped with fresh sequence numbers s+1, s+2, ... *)
Fixpoint restamp (s : N) (es : list entry) : list entry :=
  match es with [] => [] | e :: es' => mkE (e_key e) (s + 1) (e_del e) (if e_del e then [] else e_val e) :: restamp (s + 1) es' end.

Lemma restamp_length s es : length (restamp s es) = length es.
Proof. revert s. induction es; intro s; cbn; [reflexivity|]. rewrite IHes. reflexivity. Qed.

Lemma lastw_restamp s es k :
  value_of (lastw (restamp s es) k) = value_of (lastw es k) /\ (lastw (restamp s es) k = None <-> lastw es k = None).
Proof.
  revert s. induction es as [|e es IH]; intro s; cbn [restamp lastw]; [split; [reflexivity|tauto]|].
  destruct (IH (s + 1)) as [V Nn]. cbn [e_key].
  destruct (lastw (restamp (s + 1) es) k) eqn:A, (lastw es k) eqn:B.
  - split; [exact V|split; discriminate].
  - exfalso. destruct Nn as [_ Nn]. specialize (Nn eq_refl). discriminate.
  - exfalso. destruct Nn as [Nn _]. specialize (Nn eq_refl). discriminate.
  - destruct (beqb k (e_key e)); [|split; [reflexivity|tauto]]. split; [|split; discriminate].
    cbn. destruct (e_del e); reflexivity.
Qed.

Lemma lastw_filter o es k : owns o k = true -> lastw (filter (fun e => owns o (e_key e)) es) k = lastw es k.
Proof.
  intro O. induction es as [|e es IH]; [reflexivity|]. cbn [filter lastw].
  destruct (owns o (e_key e)) eqn:OE.
  - cbn [lastw]. rewrite IH. reflexivity.
  - rewrite IH. destruct (lastw es k); [reflexivity|].
    destruct (beqb k (e_key e)) eqn:B; [|reflexivity]. apply beqb_eq in B. subst. congruence.
Qed.

Fixpoint replay_core (o : own) (d : dbc) (es : list entry) : dbc :=
  match es with
  | [] => d
  | e :: es' => if owns o (e_key e) then replay_core o (fst (db_write d (e_key e) (e_del e) (e_val e))) es'
                else replay_core o d es'
  end.

Lemma db_replay_core o es d : fst (db_replay o d es) = replay_core o d es.
Proof.
  unfold db_replay. generalize 0%nat. revert d. induction es as [|e es IH]; intros d n; [reflexivity|].
  cbn [fold_left replay_core fst snd]. destruct (owns o (e_key e)); [|apply IH].
  destruct (db_write d (e_key e) (e_del e) (e_val e)) as [d1 r]. cbn [fst]. apply IH.
Qed.

Lemma db_write_fields d k del v :
  (d_seq (fst (db_write d k del v)) = d_seq d + 1) /\ (d_tables (fst (db_write d k del v)) = d_tables d) /\
  (d_latest (fst (db_write d k del v)) = d_latest d).
Proof. unfold db_write. destruct (_ || _); cbn; auto. Qed.

Lemma rep_replay o es : forall d a pre cs ca,
  Rep d a pre cs ca ->
  exists cs' ca', Rep (replay_core o d es) a pre cs' ca' /\
                  (concat cs' ++ ca' = concat cs ++ ca ++ restamp (d_seq d) (filter (fun e => owns o (e_key e)) es)) /\
                  (d_tables (replay_core o d es) = d_tables d) /\ (d_latest (replay_core o d es) = d_latest d).
Proof.
  induction es as [|e es IH]; intros d a pre cs ca R.
  - exists cs, ca. cbn. rewrite app_nil_r. auto.
  - cbn [replay_core filter]. destruct (owns o (e_key e)) eqn:O; [|apply IH; exact R].
    destruct (rep_write d a pre cs ca (e_key e) (e_del e) (e_val e) R) as [cs1 [ca1 [R1 E1]]].
    destruct (db_write_fields d (e_key e) (e_del e) (e_val e)) as [Sq [Tb Lt]].
    destruct (IH _ a pre cs1 ca1 R1) as [cs2 [ca2 [R2 [E2 [T2 L2]]]]].
    exists cs2, ca2. split; [exact R2|split; [|split]].
    + rewrite E2, Sq. cbn [restamp]. rewrite app_assoc, E1, <- !app_assoc. reflexivity.
    + rewrite T2. exact Tb.
    + rewrite L2. exact Lt.
Qed.

(* the reader positions itself exactly after the covered prefix: no panic, no end-of-file error *)
Lemma wal_read_ok d a pre cs ca : Rep d a pre cs ca -> wal_read (wal_content (d_wal d)) (d_latest d) = ROk (concat cs ++ ca).
Proof.
  intro R. destruct R. rewrite rp_wal0. unfold wal_read.
  destruct (pre ++ concat cs ++ ca) as [|e0 rest] eqn:W.
  - destruct pre; [|discriminate]. cbn in W. rewrite W. reflexivity.
  - assert (e_seq e0 = a + 1) as E0 by (rewrite (rp_contig0 0%nat e0 eq_refl); lia).
    rewrite E0. destruct (d_latest d + 1 <? a + 1) eqn:C; [lia|].
    replace (N.to_nat (d_latest d + 1 - (a + 1))) with (length pre) by lia.
    assert (length pre <= length (e0 :: rest))%nat by (rewrite <- W, app_length; lia).
    destruct (length (e0 :: rest) <? length pre)%nat eqn:C2; [apply Nat.ltb_lt in C2; lia|].
    rewrite <- W, skipn_app, skipn_all, Nat.sub_diag. reflexivity.
Qed.

Lemma rep_fresh mem wm ts walid :
  ends_ok ts ->
  Rep (mkDb (tables_latest ts) [] [] ts (tables_latest ts) (wal_new (walid + 1)) mem wm) (tables_latest ts) [] [] [].
Proof.
  intro EO. constructor; cbn [d_wal d_latest d_seq d_sealed d_active d_tables wal_new wal_content w_sealed w_active flat_map app concat map length].
  - reflexivity.
  - intros i e H. destruct i; discriminate.
  - cbn. lia.
  - cbn. lia.
  - reflexivity.
  - reflexivity.
  - constructor.
  - apply Forall_forall. intros e He. apply in_flat_map in He. destruct He as [t [Ht He]].
    unfold ends_ok in EO. rewrite Forall_forall in EO. specialize (EO t Ht e He). pose proof (tables_latest_bound _ _ Ht). lia.
  - exact EO.
  - constructor.
  - split; [constructor|]. cbn. intro H. exfalso. apply H. reflexivity.
Qed.

(* ---- checkpoint -> restore at the level of one database object ---- *)
Theorem checkpoint_restore_exact d o mem wm :
  Inv d ->
  let cap := snd (db_checkpoint d) in
  exists es, wal_read (cp_wal cap) (cp_after cap) = ROk es /\
    let r := fst (db_restore mem wm o (cp_tables cap) (cp_walid cap) es) in
    Inv r /\ (forall k, owns o k = true -> db_get r k = db_get d k).
Proof.
  intros [a [pre [cs [ca R]]]]. cbn [db_checkpoint snd cp_wal cp_after cp_tables cp_walid].
  exists (concat cs ++ ca). split; [apply (wal_read_ok _ _ _ _ _ R)|].
  unfold db_restore. rewrite db_replay_core.
  pose proof (rep_fresh mem wm (d_tables d) (w_id (d_wal d)) (rp_ends _ _ _ _ _ R)) as R0.
  destruct (rep_replay o (concat cs ++ ca) _ _ _ _ _ R0) as [cs' [ca' [R' [E' [T' L']]]]].
  cbn [concat app d_seq d_tables d_latest] in E', T', L'.
  split; [exists (tables_latest (d_tables d)), [], cs', ca'; exact R'|].
  intros k O. rewrite (db_get_char _ _ _ _ _ k R'), (db_get_char _ _ _ _ _ k R). unfold view. rewrite T', E'.
  destruct (lastw_restamp (tables_latest (d_tables d)) (filter (fun e => owns o (e_key e)) (concat cs ++ ca)) k) as [V Nn].
  rewrite (lastw_filter o _ k O) in V, Nn.
  destruct (lastw (restamp (tables_latest (d_tables d)) (filter (fun e => owns o (e_key e)) (concat cs ++ ca))) k) as [x|] eqn:A,
           (lastw (concat cs ++ ca) k) as [y|] eqn:B.
  - exact V.
  - exfalso. destruct Nn as [_ Nn]. specialize (Nn eq_refl). discriminate.
  - exfalso. destruct Nn as [Nn _]. specialize (Nn eq_refl). discriminate.
  - reflexivity.
Qed.

(* ------------------------------------------------------------------ writes are visible: Put/Delete on any database with the invariant *)
Theorem db_write_get d k del v k' :
  Inv d ->
  db_get (fst (db_write d k del v)) k' = if beqb k' k then (if del then None else Some v) else db_get d k'.
Proof.
  intros [a [pre [cs [ca R]]]].
  destruct (rep_write d a pre cs ca k del v R) as [cs1 [ca1 [R1 E1]]].
  destruct (db_write_fields d k del v) as [_ [Tb _]].
  rewrite (db_get_char _ _ _ _ _ k' R1), (db_get_char _ _ _ _ _ k' R). unfold view. rewrite Tb, E1.
  rewrite app_assoc, lastw_app. cbn [lastw e_key]. destruct (beqb k' k); [|reflexivity].
  cbn [value_of e_del e_val]. destruct del; reflexivity.
Qed.

(* the same whatever the rotation decision: contents never depend on WHEN a memtable is rotated *)
Theorem db_write_at_get d k del v rot k' :
  Inv d ->
  db_get (db_write_at d k del v rot) k' = if beqb k' k then (if del then None else Some v) else db_get d k'.
Proof.
  intros [a [pre [cs [ca R]]]].
  destruct (rep_write_at d a pre cs ca k del v rot R) as [cs1 [ca1 [R1 E1]]].
  assert (d_tables (db_write_at d k del v rot) = d_tables d) as Tb by (unfold db_write_at; destruct rot; reflexivity).
  rewrite (db_get_char _ _ _ _ _ k' R1), (db_get_char _ _ _ _ _ k' R). unfold view. rewrite Tb, E1.
  rewrite app_assoc, lastw_app. cbn [lastw e_key]. destruct (beqb k' k); [|reflexivity].
  cbn [value_of e_del e_val]. destruct del; reflexivity.
Qed.

Theorem rotation_point_irrelevant d k del v rot rot' k' :
  Inv d -> db_get (db_write_at d k del v rot) k' = db_get (db_write_at d k del v rot') k'.
Proof. intro I. rewrite !db_write_at_get by exact I. reflexivity. Qed.

(* ------------------------------------------------------------------ every schedule of actions of one database object *)
Inductive action :=
| AWrite (k : bytes) (del : bool) (v : bytes)      (* Put / Delete, including the rotation it may trigger *)
| ACheckpoint                                       (* locked part of Checkpoint: WAL rotation *)
| AFlush (n : nat) (dir next : N)                   (* swap of a flush task that had snapshotted the first n sealed memtables *)
| ACompact (removed : list fname) (added : list table)   (* apply of a compaction change set *)
| AWriteAt (k : bytes) (del : bool) (v : bytes) (rot : bool).   (* Put / Delete with ANY rotation decision (whatever policy decides when a buffer is full) *)

Definition act_ok (d : dbc) (a : action) : Prop :=
  match a with
  | AFlush n _ _ => (n <= length (d_sealed d))%nat
  | ACompact _ added => ends_ok added /\ tables_latest added <= d_latest d
  | _ => True
  end.
Definition do_action (d : dbc) (a : action) : dbc :=
  match a with
  | AWrite k del v => fst (db_write d k del v)
  | ACheckpoint => fst (db_checkpoint d)
  | AFlush n dir next => db_flush_swap d n (mk_tables dir next (firstn n (d_sealed d)))
  | ACompact removed added => db_compact_apply d removed added
  | AWriteAt k del v rot => db_write_at d k del v rot
  end.

Theorem inv_step d a : Inv d -> act_ok d a -> Inv (do_action d a).
Proof.
  intros [a0 [pre [cs [ca R]]]] OK. destruct a as [k del v| |n dir next|removed added|k del v rot]; cbn [do_action act_ok] in *.
  - destruct (rep_write d a0 pre cs ca k del v R) as [cs1 [ca1 [R1 _]]]. exists a0, pre, cs1, ca1. exact R1.
  - exists a0, pre, cs, ca. apply rep_checkpoint. exact R.
  - assert (n <= length cs)%nat as Hn by (rewrite (rp_sealed _ _ _ _ _ R), map_length in OK; exact OK).
    destruct (rep_flush_swap d a0 pre cs ca n dir next R Hn) as [a' [pre' R']]. exists a', pre', (skipn n cs), ca. exact R'.
  - destruct OK as [EO LE]. exists a0, pre, cs, ca. apply rep_compact; assumption.
  - destruct (rep_write_at d a0 pre cs ca k del v rot R) as [cs1 [ca1 [R1 _]]]. exists a0, pre, cs1, ca1. exact R1.
Qed.

(* the databases that can exist: a new one, one more action, or a restore from a checkpoint of one that can exist
   (with any ownership filter and any sizes) - this closes chains checkpoint -> restore -> write -> checkpoint -> restore *)
Inductive reach : dbc -> Prop :=
| reach_new mem wm : reach (db_new mem wm)
| reach_act d a : reach d -> act_ok d a -> reach (do_action d a)
| reach_restore d o mem wm es :
    reach d -> wal_read (cp_wal (snd (db_checkpoint d))) (cp_after (snd (db_checkpoint d))) = ROk es ->
    reach (fst (db_restore mem wm o (cp_tables (snd (db_checkpoint d))) (cp_walid (snd (db_checkpoint d))) es)).

Theorem reach_inv d : reach d -> Inv d.
Proof.
  induction 1 as [mem wm|d a _ IH OK|d o mem wm es _ IH RD].
  - apply inv_new.
  - apply inv_step; assumption.
  - destruct (checkpoint_restore_exact d o mem wm IH) as [es' [RD' [I _]]]. cbn zeta in *.
    rewrite RD in RD'. inversion RD'; subst. exact I.
Qed.

Theorem checkpoint_exact_db d o mem wm :
  reach d ->
  exists es, wal_read (cp_wal (snd (db_checkpoint d))) (cp_after (snd (db_checkpoint d))) = ROk es /\
    let r := fst (db_restore mem wm o (cp_tables (snd (db_checkpoint d))) (cp_walid (snd (db_checkpoint d))) es) in
    reach r /\ (forall k, owns o k = true -> db_get r k = db_get d k) /\
    (forall k del v k', db_get (fst (db_write r k del v)) k' = if beqb k' k then (if del then None else Some v) else db_get r k').
Proof.
  intro RC. destruct (checkpoint_restore_exact d o mem wm (reach_inv d RC)) as [es [RD [I G]]]. cbn zeta in *.
  exists es. split; [exact RD|]. split; [apply reach_restore; assumption|]. split; [exact G|].
  intros k del v k'. apply db_write_get. exact I.
Qed.

(* the log reader never panics and never runs into end-of-file on a checkpoint of a reachable database *)
Theorem replay_never_fails d : reach d ->
  exists es, wal_read (cp_wal (snd (db_checkpoint d))) (cp_after (snd (db_checkpoint d))) = ROk es.
Proof. intro RC. destruct (checkpoint_exact_db d OwnAll 0 0 RC) as [es [RD _]]. exists es. exact RD. Qed.
