(* Entry-level model of the DKV building blocks (C07/C18).
   A table (dkv/sst/table.go) and a memtable (dkv/memtable/memtable.go) are both a key-sorted list of
   entries (key, seq, tombstone, value): Get = find, ScanPrefix = filter on the prefix.  The byte format,
   bloom filter and search index (C17) and the zip tree / heap / k-way merge (C19) are below this level:
   what is assumed of them is exactly "Get = find, scan = filter, MergeEntries = per key the entry with the
   greatest sequence number, ascending by key".  Definitions only. *)
From Coq Require Import List NArith Bool.
From RV Require Import Base.Bytes.
Import ListNotations.
Open Scope N_scope.

Record entry := mkE { ekey : bytes; eseq : N; edel : bool; eval : bytes }.
Definition table := list entry.

(* ---------- one table / one memtable ---------- *)

Definition keyeq (k : bytes) (e : entry) : bool := beqb (ekey e) k.
Definition tbl_get (k : bytes) (t : table) : option entry := find (keyeq k) t.
Definition has_prefix (p : bytes) (e : entry) : bool := is_prefix p (ekey e).
Definition tbl_scan (p : bytes) (t : table) : table := filter (has_prefix p) t.

(* memtable.Put / Delete: zip tree insert, an existing node of the key is replaced *)
Fixpoint mt_put (e : entry) (m : table) : table :=
  match m with
  | [] => [e]
  | x :: r => match bcmp (ekey e) (ekey x) with
              | Lt => e :: m
              | Eq => e :: r
              | Gt => x :: mt_put e r
              end
  end.

(* kv.keepNewest a b *)
Definition newer (a b : entry) : entry := if eseq b <? eseq a then a else b.

(* kv.MergeEntries at specification level: insertion into a key-sorted list keeping the newest per key *)
Fixpoint ins (e : entry) (l : table) : table :=
  match l with
  | [] => [e]
  | x :: r => match bcmp (ekey e) (ekey x) with
              | Lt => e :: l
              | Eq => newer x e :: r
              | Gt => x :: ins e r
              end
  end.
Definition merge_into (l acc : table) : table := fold_right ins acc l.
Definition merge_all (ls : list table) : table := fold_right merge_into [] ls.

(* kv.WithoutDeletes *)
Definition live (e : entry) : bool := negb (edel e).
Definition without_deletes (t : table) : table := filter live t.

(* ---------- key ranges of a table (startKey / endKey) ---------- *)

Definition first_key (t : table) : bytes := match t with [] => [] | e :: _ => ekey e end.
Definition last_key (t : table) : bytes := last (map ekey t) [].

(* Table.RangeContainsKey *)
Definition range_contains (k : bytes) (t : table) : bool := bleb (first_key t) k && bleb k (last_key t).
(* Table.RangeContainsPrefix (= RangePrefixCompare == 0) *)
Definition range_contains_prefix (p : bytes) (t : table) : bool :=
  (bleb (first_key t) p && bleb p (last_key t)) || is_prefix p (first_key t) || is_prefix p (last_key t).

(* ---------- memtable list (dkv/memtable/list.go): oldest first, the last one is the active table ---------- *)

Fixpoint first_some {A} (l : list (option A)) : option A :=
  match l with [] => None | Some x :: _ => Some x | None :: r => first_some r end.

(* List.Get after repair D1: newest table first *)
Definition ml_get (k : bytes) (mts : list table) : option entry := first_some (map (tbl_get k) (rev mts)).
(* List.ScanPrefixEntries after repair D2: tombstones kept *)
Definition ml_scan_entries (p : bytes) (mts : list table) : table := merge_all (map (tbl_scan p) mts).

(* ---------- level list (dkv/sst/level_list.go): per level an insertion-ordered list of tables ---------- *)

Definition levels := list (list table).

(* the loop over the level-0 hits in LevelList.Get after repair D4 *)
Definition l0_pick (acc : option entry) (h : option entry) : option entry :=
  match h with
  | None => acc
  | Some v => match acc with
              | None => Some v
              | Some n => if eseq n <? eseq v then Some v else acc
              end
  end.

(* deeperTablesForKey: SearchUnique with RangeKeyCompare on one level.  SearchUnique (C19, repaired D3) is modelled
   by its specification on range-sorted disjoint levels: the table whose range holds the key. *)
Definition lvl_get (k : bytes) (lvl : list table) : option entry :=
  match find (range_contains k) lvl with Some t => tbl_get k t | None => None end.

Definition ll_get (k : bytes) (ll : levels) : option entry :=
  match fold_left l0_pick (map (tbl_get k) (filter (range_contains k) (hd [] ll))) None with
  | Some e => Some e
  | None => first_some (map (lvl_get k) (tl ll))
  end.

(* AllTablesForPrefix + ScanPrefixEntries; the binary search of levels >= 1 is modelled by its specification
   on range-sorted disjoint levels: all tables whose range meets the prefix. *)
Definition ll_scan_entries (p : bytes) (ll : levels) : table :=
  merge_all (map (tbl_scan p) (filter (range_contains_prefix p) (concat ll))).
Definition ll_scan (p : bytes) (ll : levels) : table := without_deletes (ll_scan_entries p ll).

(* ---------- change sets (changeset.go, NewWithChangeSet) ---------- *)

Definition entry_eqb (a b : entry) : bool :=
  beqb (ekey a) (ekey b) && (eseq a =? eseq b) && Bool.eqb (edel a) (edel b) && beqb (eval a) (eval b).
Fixpoint table_eqb (a b : table) : bool :=
  match a, b with
  | [], [] => true
  | x :: a', y :: b' => entry_eqb x y && table_eqb a' b'
  | _, _ => false
  end.
Definition tmem (t : table) (ts : list table) : bool := existsb (table_eqb t) ts.

Record changeset := mkCS { cs_level : nat; cs_add : list table; cs_rem : list table }.

(* removal is by table identity in the code (pointers); tables of a valid layout are pairwise different as
   values, so the model removes by value - the tables present are filtered first, the additions appended after *)
Fixpoint apply_from (i : nat) (cs : changeset) (ll : levels) : levels :=
  match ll with
  | [] => []
  | lvl :: r =>
      let kept := filter (fun t => negb (tmem t (cs_rem cs))) lvl in
      (if Nat.eqb i (cs_level cs) then kept ++ cs_add cs else kept) :: apply_from (S i) cs r
  end.
Definition apply_cs (cs : changeset) (ll : levels) : levels := apply_from 0 cs ll.

(* a flush's change set: tables added to level 0 *)
Definition add_l0 (ts : list table) (ll : levels) : levels :=
  match ll with [] => [] | l0 :: r => (l0 ++ ts) :: r end.

(* ---------- sizes ---------- *)

Definition blen (b : bytes) : N := N.of_nat (length b).
(* sst.FlushSize / KVFlushSize (uint32 wrap-around of keys+values >= 4 GiB is outside the model) *)
Definition flush_size (e : entry) : N := 17 + blen (ekey e) + blen (eval e).
Definition run_size (es : table) : N := fold_right (fun e a => flush_size e + a) 0 es.
(* bytes of one entry in a table file: 4+key, 8 seq, 1 tombstone, 4+value unless deleted *)
Definition disk_size (e : entry) : N := 13 + blen (ekey e) + (if edel e then 0 else 4 + blen (eval e)).
(* Table.Size(): entries + bloom filter (8 + 512*8) + search index (4 + 4 per 16 entries) + footer 12 *)
Definition table_size (t : table) : N :=
  fold_right (fun e a => disk_size e + a) 0 t + 4104 + 4 + 4 * ((N.of_nat (length t) + 15) / 16) + 12.

(* ---------- TableWriter.WriteRun (table_writer.go, after repair 15120f6) ---------- *)

Definition max_buffer (target : N) : N := target + target / 2. (* floor(target * 1.5) *)

(* one inner loop: pull while the buffer is smaller than the limit; the flag says next() reported the end *)
Fixpoint fill (limit : N) (buf rest : table) : table * table * bool :=
  match rest with
  | [] => (buf, [], run_size buf <? limit)
  | e :: r => if run_size buf <? limit then fill limit (buf ++ [e]) r else (buf, rest, false)
  end.

Fixpoint wr_loop (fuel : nat) (target : N) (written : bool) (buf rest : table) : list table :=
  match fuel with
  | O => (* unreachable for target >= 1 (a target of 0 makes the real loop spin for ever): flush everything *)
      match buf ++ rest with [] => if written then [] else [[]] | l => [l] end
  | S f =>
      let '(b1, rest1, ended1) := fill target buf rest in
      if ended1 then
        match b1 with
        | [] => if written then [] else [b1]
        | _ => [b1]
        end
      else
        let cut := length b1 in
        let '(b2, rest2, ended2) := fill (max_buffer target) b1 rest1 in
        if ended2 then [b2]
        else firstn cut b2 :: wr_loop f target true (skipn cut b2) rest2
  end.
Definition write_run (es : table) (target : N) : list table := wr_loop (S (length es)) target false [] es.

(* ---------- executable validity checks (used by the correspondence check and in non-vacuity examples) ---------- *)

Fixpoint sortedb (t : table) : bool :=
  match t with
  | [] => true
  | x :: r => match r with [] => true | y :: _ => bltb (ekey x) (ekey y) end && sortedb r
  end.
