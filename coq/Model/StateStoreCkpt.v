(* The operator's DKV as the PAIR of the two database models of this development, driven in lockstep:
     - c07c18's LSM state machine (Model/Lsm.v) answers the reads, under any schedule of flush / compaction
       half-steps (Model/StateStoreLsm.v);
     - c08c09's durability model (Model/Ckpt.v: sequence numbers, WAL segments, memtable rotation, tables with end
       sequence numbers) records the same writes and is the one that is checkpointed and reopened: Checkpoint captures
       the level set and the WAL content, reopening loads the captured tables and replays the WAL after LatestSeqNum.
   A redeploy takes the database C08's reopening yields as the durable side, and loads the map that was served at the
   barrier into a new LSM (a reload of the contents, entry by entry, through DB.Put with its rotations); that this
   map IS the content of the reopened durable database is C08's theorem (Proofs/C03_Restore.v). Definitions only. *)
From Coq Require Import List NArith Bool.
From RV Require Import Base.Bytes Model.StateStoreLsm.
From RV Require Model.LsmBase Model.LsmCompaction Model.Lsm Model.Ckpt.
Import ListNotations.
Open Scope N_scope.

(* a new LSM filled with the given map through DB.Put *)
Definition lsm_load (cfg : Lsm.dbcfg) (m : list (bytes * bytes)) : Lsm.db :=
  fold_left (fun st kv => fst (Lsm.write cfg st (fst kv) (snd kv) false)) m (Lsm.init cfg).

(* Checkpoint (locked part) of the durable side, then DB.Start on the captured tables and WAL, owning every key *)
Definition ckpt_reopen (d : Ckpt.dbc) : Ckpt.dbc :=
  let cap := snd (Ckpt.db_checkpoint d) in
  match Ckpt.wal_read (Ckpt.cp_wal cap) (Ckpt.cp_after cap) with
  | Ckpt.ROk es => fst (Ckpt.db_restore (Ckpt.d_mem d) (Ckpt.d_walmax d) Ckpt.OwnAll (Ckpt.cp_tables cap) (Ckpt.cp_walid cap) es)
  | _ => d                                   (* the reader panics / hits EOF: excluded by C08 replay_never_fails *)
  end.

Definition pair_raw := (lsm_raw * Ckpt.dbc)%type.

Definition pair_put (cfg : Lsm.dbcfg) (k v : bytes) (x : pair_raw) : pair_raw :=
  (raw_put cfg k v (fst x), fst (Ckpt.db_write (snd x) k false v)).
Definition pair_del (cfg : Lsm.dbcfg) (k : bytes) (x : pair_raw) : pair_raw :=
  (raw_del cfg k (fst x), fst (Ckpt.db_write (snd x) k true [])).
Definition pair_scan (cfg : Lsm.dbcfg) (p : bytes) (x : pair_raw) : list (bytes * bytes) * pair_raw :=
  (fst (raw_scan cfg p (fst x)), (snd (raw_scan cfg p (fst x)), snd x)).
(* [served] is the map the LSM side of the saved state serves (its abstract content) *)
Definition pair_restore (cfg : Lsm.dbcfg) (served : Lsm.db -> list (bytes * bytes)) (cur saved : pair_raw) : pair_raw :=
  ((lsm_load cfg (served (fst (fst saved))), snd (fst cur)), ckpt_reopen (snd saved)).
