(* Models of the three source splitters:
   - connectors/embedded/source_splitter.go  (sliceu.Partition of split indices over the runners)
   - connectors/httpapi/source_splitter.go   (one split "only" for the first runner, cursor = last non-empty split state)
   - connectors/kinesis/source_splitter.go   (Start / discovery tick / NotifySplitsFinished / Checkpoint over a SplitTracker)
   The Kinesis stream is a list of shards in creation order (kinesisfake: ListShards with ExclusiveStartShardId = x
   returns the shards created after x); shard ids are positions+1, see SplitTracker.v. *)
From Coq Require Import List NArith Bool.
From RV Require Import Model.SplitTracker.
Import ListNotations.
Open Scope N_scope.

(* ---------- sliceu.Partition (round robin) ---------- *)

Fixpoint app_at {A} (groups : list (list A)) (gi : nat) (x : A) : list (list A) :=
  match groups, gi with
  | [], _ => []
  | g :: r, O => (g ++ [x]) :: r
  | g :: r, S k => g :: app_at r k x
  end.

Fixpoint partition_go {A} (l : list A) (gi maxg : nat) (groups : list (list A)) : list (list A) :=
  match l with
  | [] => groups
  | x :: r => partition_go r (if Nat.ltb gi maxg then S gi else O) maxg (app_at groups gi x)
  end.

(* groupCount >= 1 (Partition panics otherwise) *)
Definition partition {A} (l : list A) (group_count : nat) : list (list A) :=
  partition_go l 0 (group_count - 1) (repeat [] group_count).

Fixpoint iota_from (s : N) (n : nat) : list N :=
  match n with O => [] | S k => s :: iota_from (s + 1) k end.

(* embedded: runner r (position in sourceRunnerIDs) gets group r; splits are 0..split_count-1 *)
Definition embedded_assign (split_count runners : nat) : list (list N) :=
  partition (iota_from 0 split_count) runners.

(* embedded, restored: the cursor handed out for a split is the one of its last checkpointed reader state *)
Definition embedded_cursor (states : list (N * N)) (split : N) : option N :=
  match find (fun c => fst c =? split) (rev states) with Some c => Some (snd c) | None => None end.

(* httpapi: (runner index, cursor) of the single split; cursor = last non-empty split state, [] if none *)
Definition httpapi_cursor (split_states : list (list N)) : list N :=
  fold_left (fun c d => match d with [] => c | _ => d end) split_states [].
Definition httpapi_assign (runners : nat) (split_states : list (list N)) : list (N * list N) :=
  match runners with O => [] | _ => [(0, httpapi_cursor split_states)] end.

(* ---------- Kinesis: uniformlyAssignShard ---------- *)

(* big.Rat.Float64 of p / 2^128 followed by int(): round p to 53 significant bits (nearest, ties to even), floor *)
Definition round53 (p : N) : N :=
  let l := N.size p in
  if l <=? 53 then p
  else let sh := l - 53 in
       let m := N.shiftr p sh in
       let rem := N.land p (N.shiftl 1 sh - 1) in
       let half := N.shiftl 1 (sh - 1) in
       let m' := if (half <? rem) || ((rem =? half) && N.odd m) then m + 1 else m in
       N.shiftl m' sh.

Definition runner_index (lo hi n : N) : N :=
  let mid := (lo + hi) / 2 in
  let idx := N.shiftr (round53 (mid * n)) 128 in
  N.min idx (n - 1).

(* ---------- Kinesis splitter ---------- *)

Record ksplitter := mkK { trk : tracker; cursors : list (N * N) (* shard id -> checkpointed cursor, 0 = none *) }.

Definition cursor_of (cs : list (N * N)) (i : N) : N :=
  match find (fun c => fst c =? i) cs with Some c => snd c | None => 0 end.

(* s.cursors is a Go map: later split states overwrite earlier ones *)
Definition load_cursors (split_states : list (N * N)) : list (N * N) := rev split_states.

(* listAllShards(exclusiveStart) on the stream *)
Definition list_after (stream : list shard) (after : N) : list shard :=
  filter (fun s => after <? sid s) stream.

(* one assignment call: (runner index, shard id, cursor), grouped by runner in runner order *)
Definition assignment := list (N * N * N).

(* [f] chooses the runner of a shard; WHICH runner is not part of the property, only that it is one index < n *)
Definition assign_out_with (f : shard -> N) (n : N) (cs : list (N * N)) (shards : list shard) : assignment :=
  flat_map (fun r => map (fun s => (r, sid s, cursor_of cs (sid s)))
                         (filter (fun s => f s =? r) shards))
           (iota_from 0 (N.to_nat n)).

(* the policy of the current code (uniformlyAssignShard); not compared with the implementation *)
Definition assign_out (n : N) (cs : list (N * N)) (shards : list shard) : assignment :=
  assign_out_with (fun s => runner_index (hlo s) (hhi s) n) n cs shards.

(* assignShards: hook call (none when the list is empty) then TrackAssigned *)
Definition assign_shards_gen (mono : bool) (n : N) (k : ksplitter) (shards : list shard) : ksplitter * option assignment :=
  match shards with
  | [] => (k, None)
  | _ => (mkK (track_assigned_gen mono shards (trk k)) (cursors k), Some (assign_out n (cursors k) shards))
  end.

Definition discover (stream : list shard) (k : ksplitter) : ksplitter :=
  mkK (add_splits (list_after stream (last (trk k))) (trk k)) (cursors k).

(* Start(ckpt): ckpt = (assigned shards, last assigned id, split states); a nil checkpoint is ([], 0, []).
   [dedup = true] is the repaired code (assign AvailableSplits); [dedup = false] the code before fix 418067b
   (restored shards ++ AvailableSplits). *)
Definition k_start_gen (mono dedup : bool) (n : N) (stream : list shard)
           (ck_assigned : list shard) (ck_last : N) (split_states : list (N * N)) : ksplitter * option assignment :=
  let t := load_splits ck_assigned ck_last new_tracker in
  let k := discover stream (mkK t (load_cursors split_states)) in
  let pending := if dedup then available (trk k) else ck_assigned ++ available (trk k) in
  assign_shards_gen mono n k pending.

(* ticker case of processShardAssignment *)
Definition k_tick_gen (mono : bool) (n : N) (stream : list shard) (k : ksplitter) : ksplitter * option assignment :=
  let k := discover stream k in
  assign_shards_gen mono n k (available (trk k)).

(* NotifySplitsFinished followed by the splitsDidFinish case *)
Definition k_finish_gen (mono : bool) (n : N) (ids : list N) (k : ksplitter) : ksplitter * option assignment :=
  let k := mkK (remove_splits ids (trk k)) (cursors k) in
  assign_shards_gen mono n k (available (trk k)).

(* Checkpoint() *)
Definition k_checkpoint (k : ksplitter) : list shard * N := (assigned_splits (trk k), last (trk k)).

(* the shards handed out by a step (what assignShards is called with) and the cursors it attaches *)
Definition k_start_pending (stream : list shard) (ck_assigned : list shard) (ck_last : N) (split_states : list (N * N)) : list shard :=
  available (trk (discover stream (mkK (load_splits ck_assigned ck_last new_tracker) (load_cursors split_states)))).
Definition k_tick_pending (stream : list shard) (k : ksplitter) : list shard := available (trk (discover stream k)).
Definition k_finish_pending (ids : list N) (k : ksplitter) : list shard := available (remove_splits ids (trk k)).

Definition k_start := k_start_gen true true.
Definition k_tick := k_tick_gen true.
Definition k_finish := k_finish_gen true.

(* ---------- jobs/job.go start(): which job checkpoint a (re)deployment uses ----------
   The job reads snapshotStore.CurrentCheckpoint() once ([cur_at_read], 0 = none), deploys the operators from it and
   starts the source splitter with the source checkpoint of the SAME job checkpoint, whatever has been published
   meanwhile ([cur_after_deploy]). Result: (id the operators are deployed from, id the splitter is started from). *)
Definition job_start (cur_at_read cur_after_deploy : N) : N * N := (cur_at_read, cur_at_read).
