(* Model of connectors/kinesis/source_reader.go against a stream whose shards hold records numbered by position
   (kinesisfake: the sequence number of a record is its position; AFTER_SEQUENCE_NUMBER n starts at n+1).
   A shard's reader state is its position = number of its records consumed (cursor "" = 0, cursor n = n+1).
   One ReadEvents call polls one shard (round robin) for at most [limit] records. *)
From Coq Require Import List NArith Bool.
From RV Require Import Model.HttpReader.
Import ListNotations.
Open Scope N_scope.

Record kreader := mkKR { kr_shards : list (N * N); kr_idx : nat }.

Definition kr_new := mkKR [] 0.

Definition lookupN (l : list (N * N)) (s : N) : N :=
  match find (fun c => fst c =? s) l with Some c => snd c | None => 0 end.

Fixpoint memN (i : N) (l : list N) : bool := match l with [] => false | x :: r => (x =? i) || memN i r end.

Fixpoint set_nth {A} (l : list A) (i : nat) (v : A) : list A :=
  match l, i with
  | [], _ => []
  | _ :: r, O => v :: r
  | x :: r, S k => x :: set_nth r k v
  end.

Fixpoint del_nth {A} (l : list A) (i : nat) : list A :=
  match l, i with
  | [], _ => []
  | _ :: r, O => r
  | x :: r, S k => x :: del_nth r k
  end.

(* AssignSplits appends *)
Definition kr_assign (splits : list (N * N)) (r : kreader) : kreader := mkKR (kr_shards r ++ splits) (kr_idx r).

(* ReadEvents: (reader, records as (shard, position), shards reported finished) *)
Definition kr_read (limit : N) (avail : list (N * N)) (closed : list N) (r : kreader) : kreader * list (N * N) * list N :=
  match nth_error (kr_shards r) (kr_idx r) with
  | None => (r, [], [])
  | Some (s, p) =>
      let a := lookupN avail s in
      let e := N.max p (N.min (p + limit) a) in
      let recs := map (fun i => (s, i)) (h_range p (N.to_nat (e - p))) in
      if (a <=? e) && memN s closed then
        let sh := del_nth (kr_shards r) (kr_idx r) in
        (mkKR sh (match sh with [] => kr_idx r | _ => Nat.modulo (kr_idx r) (length sh) end), recs, [s])
      else
        (mkKR (set_nth (kr_shards r) (kr_idx r) (s, e)) (Nat.modulo (S (kr_idx r)) (length (kr_shards r))), recs, [])
  end.

(* Checkpoint(): every assigned shard with its position *)
Definition kr_checkpoint (r : kreader) : list (N * N) := kr_shards r.
