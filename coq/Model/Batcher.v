(* Model of /repo/batching/batching.go (EventBatcher) with the timer of /repo/clocks/timer.go.
   Definitions only. Every method of EventBatcher runs under the batcher's mutex, so a concurrent execution is a list of
   atomic actions (modelling assumption: Go mutex semantics).

   state      batch       b.batch
              token       b.batchToken (int64; never overflows: abstracted to Z)
              armed       the token captured by the callback currently set on the timer, None when no callback is set
                          (FakeTimer: Set stores the callback, Stop clears it, Trigger calls it and leaves it set;
                           SystemTimer fires at most once per Set - a subset of what FakeTimer allows)
   params     max_size    MaxSize as given (0 means 1, NewEventBatcher)
              delay       MaxDelay > 0
   actions    BAdd x, BIsFull, BFlush t (t = -1 is CurrentBatch), BFire (the timer callback runs and sends its token on
              BatchTimedOut; what the receiver does with the token is a later BFlush action). *)
From Coq Require Import List NArith ZArith Bool.
Import ListNotations.
Open Scope Z_scope.

Section Batcher.
Context {T : Type}.

Record bstate := mkB { batch : list T; token : Z; armed : option Z }.
Record bparams := mkBP { max_size : N; delay : bool }.

Definition eff_max (p : bparams) : N := if N.eqb (max_size p) 0 then 1%N else max_size p.

Definition b_init : bstate := mkB [] 0 None.

Definition is_nil {A} (l : list A) : bool := match l with [] => true | _ => false end.

Definition current_batch : Z := -1.

Definition b_add (p : bparams) (x : T) (s : bstate) : bstate :=
  mkB (batch s ++ [x]) (token s)
      (if is_nil (batch s) && delay p then Some (token s) else armed s).

Definition b_full (p : bparams) (s : bstate) : bool :=
  N.leb (eff_max p) (N.of_nat (length (batch s))).

Definition b_flush (t : Z) (s : bstate) : list T * bstate :=
  if is_nil (batch s) || (negb (Z.eqb t current_batch) && negb (Z.eqb (token s) t))
  then ([], s)
  else (batch s, mkB [] (token s + 1) None).

Definition b_fire (s : bstate) : option Z := armed s.

Inductive baction := BAdd (x : T) | BIsFull | BFlush (t : Z) | BFire.
Inductive bevent := EAdded | EFull (b : bool) | EFlushed (t : Z) (l : list T) | EFired (t : option Z).

Definition b_step (p : bparams) (a : baction) (s : bstate) : bevent * bstate :=
  match a with
  | BAdd x => (EAdded, b_add p x s)
  | BIsFull => (EFull (b_full p s), s)
  | BFlush t => let r := b_flush t s in (EFlushed t (fst r), snd r)
  | BFire => (EFired (b_fire s), s)
  end.

Fixpoint b_run (p : bparams) (acts : list baction) (s : bstate) : list bevent * bstate :=
  match acts with
  | [] => ([], s)
  | a :: acts' =>
      let r := b_step p a s in
      let r' := b_run p acts' (snd r) in
      (fst r :: fst r', snd r')
  end.

(* projections used by the specification *)
Definition added_of (acts : list baction) : list T :=
  flat_map (fun a => match a with BAdd x => [x] | _ => [] end) acts.
Definition flushed_of (evs : list bevent) : list (list T) :=
  flat_map (fun e => match e with EFlushed _ l => [l] | _ => [] end) evs.

End Batcher.
Arguments bstate : clear implicits.
Arguments baction : clear implicits.
Arguments bevent : clear implicits.
