(* Model of /repo/batching/batching.go (EventBatcher) with the timer of /repo/clocks/timer.go.
   Definitions only. Every method of EventBatcher runs under the batcher's mutex, so a concurrent execution is a list of
   atomic actions (modelling assumption: Go mutex semantics).

   state      batch       b.batch
              token       b.batchToken (int64; never overflows: abstracted to Z)
              armed       the token captured by the callback currently set on the timer, None when no callback is set
                          (FakeTimer: Set stores the callback, Stop clears it, Trigger calls it and leaves it set;
                           SystemTimer fires at most once per Set - a subset of what FakeTimer allows)
   params     max_size    MaxSize as given (0 means 1, NewEventBatcher)
              delay       MaxDelay > 0
   actions    BAdd x, BIsFull, BFlush t (t = -1 is CurrentBatch), BFire (the timer callback runs and sends its token on
              BatchTimedOut; what the receiver does with the token is a later BFlush action). *)
From Coq Require Import List NArith ZArith Bool.
Import ListNotations.
Open Scope Z_scope.

Section Batcher.
Context {T : Type}.

Record bstate := mkB { batch : list T; token : Z; armed : option Z }.
Record bparams := mkBP { max_size : N; delay : bool }.

Definition eff_max (p : bparams) : N := if N.eqb (max_size p) 0 then 1%N else max_size p.

Definition b_init : bstate := mkB [] 0 None.

Definition is_nil {A} (l : list A) : bool := match l with [] => true | _ => false end.

Definition current_batch : Z := -1.

Definition b_add (p : bparams) (x : T) (s : bstate) : bstate :=
  mkB (batch s ++ [x]) (token s)
      (if is_nil (batch s) && delay p then Some (token s) else armed s).

Definition b_full (p : bparams) (s : bstate) : bool :=
  N.leb (eff_max p) (N.of_nat (length (batch s))).

Definition b_flush (t : Z) (s : bstate) : list T * bstate :=
  if is_nil (batch s) || (negb (Z.eqb t current_batch) && negb (Z.eqb (token s) t))
  then ([], s)
  else (batch s, mkB [] (token s + 1) None).

Definition b_fire (s : bstate) : option Z := armed s.

Inductive baction := BAdd (x : T) | BIsFull | BFlush (t : Z) | BFire.
Inductive bevent := EAdded | EFull (b : bool) | EFlushed (t : Z) (l : list T) | EFired (t : option Z).

Definition b_step (p : bparams) (a : baction) (s : bstate) : bevent * bstate :=
  match a with
  | BAdd x => (EAdded, b_add p x s)
  | BIsFull => (EFull (b_full p s), s)
  | BFlush t => let r := b_flush t s in (EFlushed t (fst r), snd r)
  | BFire => (EFired (b_fire s), s)
  end.

Fixpoint b_run (p : bparams) (acts : list baction) (s : bstate) : list bevent * bstate :=
  match acts with
  | [] => ([], s)
  | a :: acts' =>
      let r := b_step p a s in
      let r' := b_run p acts' (snd r) in
      (fst r :: fst r', snd r')
  end.

(* projections used by the specification *)
Definition added_of (acts : list baction) : list T :=
  flat_map (fun a => match a with BAdd x => [x] | _ => [] end) acts.
Definition flushed_of (evs : list bevent) : list (list T) :=
  flat_map (fun e => match e with EFlushed _ l => [l] | _ => [] end) evs.

(* ---- late time-out callbacks ----
   With a real timer (time.AfterFunc) a callback that has already been started or queued when timer.Stop is called still runs:
   Stop returns false and the callback of batch k may send its token after batch k was flushed and after a new Add armed the
   timer for batch k+1. The expiry is therefore split:
     XExpire      the callback currently set on the timer is committed to run; it carries the token captured when it was set
                  (`currentBatchToken := b.batchToken` in Add) - nothing else happens yet
     XDeliver i   the i-th committed callback runs: it sends the token it CAPTURED on BatchTimedOut (it does not read the batcher)
   BFire is XExpire immediately followed by XDeliver of that callback. Committing and delivering do not change the batcher. *)
Record bxstate := mkBX { bx_b : bstate; bx_committed : list Z }.
Definition bx_init : bxstate := mkBX b_init [].

Inductive bxaction := XB (a : baction) | XExpire | XDeliver (i : nat).
Inductive bxevent := XE (e : bevent) | XExpired (t : option Z) | XDelivered (t : option Z).

Fixpoint drop_nth {A} (i : nat) (l : list A) : list A :=
  match l, i with
  | [], _ => []
  | _ :: l', O => l'
  | y :: l', S i' => y :: drop_nth i' l'
  end.

Definition bx_step (p : bparams) (a : bxaction) (s : bxstate) : bxevent * bxstate :=
  match a with
  | XB a' => let r := b_step p a' (bx_b s) in (XE (fst r), mkBX (snd r) (bx_committed s))
  | XExpire =>
      match armed (bx_b s) with
      | Some t => (XExpired (Some t), mkBX (bx_b s) (bx_committed s ++ [t]))
      | None => (XExpired None, s)
      end
  | XDeliver i =>
      match nth_error (bx_committed s) i with
      | Some t => (XDelivered (Some t), mkBX (bx_b s) (drop_nth i (bx_committed s)))
      | None => (XDelivered None, s)
      end
  end.

Fixpoint bx_run (p : bparams) (acts : list bxaction) (s : bxstate) : list bxevent * bxstate :=
  match acts with
  | [] => ([], s)
  | a :: acts' =>
      let r := bx_step p a s in
      let r' := bx_run p acts' (snd r) in
      (fst r :: fst r', snd r')
  end.

(* the batcher actions / events inside an extended history *)
Definition xb_actions (acts : list bxaction) : list baction :=
  flat_map (fun a => match a with XB a' => [a'] | _ => [] end) acts.
Definition xb_events (evs : list bxevent) : list bevent :=
  flat_map (fun e => match e with XE e' => [e'] | _ => [] end) evs.

End Batcher.
Arguments bstate : clear implicits.
Arguments baction : clear implicits.
Arguments bevent : clear implicits.
Arguments bxstate : clear implicits.
Arguments bxaction : clear implicits.
Arguments bxevent : clear implicits.
