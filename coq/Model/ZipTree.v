(* dkv/ziptree/ziptree.go as a functional tree.  Ranks are inputs (the code draws rand.Uint32 per insert); tree shape and
   ranks are not observable through the exported methods.  Node.Meta is carried inside the value by the harness (nil). *)
From RV Require Import Base.Bytes.
Open Scope N_scope.

Inductive tree :=
| Leaf
| Node (l : tree) (k v : bytes) (rank : N) (r : tree).

(* the "unzipping" loop at the end of insert: splits the replaced subtree along the search path of [k] into the
   nodes below [k] (hung along right pointers) and the nodes above [k] (hung along left pointers).
   [insert] is only called by Put when [k] is absent, so the treatment of an equal key is immaterial (sent right here). *)
Fixpoint unzip (k : bytes) (t : tree) : tree * tree :=
  match t with
  | Leaf => (Leaf, Leaf)
  | Node l k' v' rk r =>
      match bcmp k' k with
      | Lt => let '(a, b) := unzip k r in (Node l k' v' rk a, b)
      | _ => let '(a, b) := unzip k l in (a, Node b k' v' rk r)
      end
  end.

(* insert: descend while the new rank is smaller (ties: while the new key is greater), then take that node's place *)
Fixpoint insert (k v : bytes) (rank : N) (t : tree) : tree :=
  match t with
  | Leaf => Node Leaf k v rank Leaf
  | Node l k' v' rk r =>
      if (rank <? rk) || ((rank =? rk) && match bcmp k k' with Gt => true | _ => false end)
      then match bcmp k k' with
           | Lt => Node (insert k v rank l) k' v' rk r
           | _ => Node l k' v' rk (insert k v rank r)
           end
      else let '(a, b) := unzip k t in Node a k v rank b
  end.

Fixpoint get (k : bytes) (t : tree) : option bytes :=
  match t with
  | Leaf => None
  | Node l k' v' _ r =>
      match bcmp k k' with
      | Gt => get k r
      | Lt => get k l
      | Eq => Some v'
      end
  end.

(* in-place replacement of Put: keeps rank and children; None when the key is absent *)
Fixpoint replace (k v : bytes) (t : tree) : option (tree * bytes) :=
  match t with
  | Leaf => None
  | Node l k' v' rk r =>
      match bcmp k k' with
      | Eq => Some (Node l k v rk r, v')
      | Lt => match replace k v l with Some (l', old) => Some (Node l' k' v' rk r, old) | None => None end
      | Gt => match replace k v r with Some (r', old) => Some (Node l k' v' rk r', old) | None => None end
      end
  end.

(* Put: returns the new tree and the replaced value (None = inserted); [rank] is consumed only by an insert *)
Definition put (k v : bytes) (rank : N) (t : tree) : tree * option bytes :=
  match replace k v t with
  | Some (t', old) => (t', Some old)
  | None => (insert k v rank t, None)
  end.

(* AscendPrefix: the explicit stack walk *)
Fixpoint ap_descend (p : bytes) (t : tree) (stack : list tree) : list tree :=
  match t with
  | Leaf => stack
  | Node l k _ _ r =>
      if beqb k p then t :: stack
      else match bcmp p k with
           | Lt => ap_descend p l (t :: stack)
           | _ => ap_descend p r stack
           end
  end.

Fixpoint push_left_spine (t : tree) (stack : list tree) : list tree :=
  match t with
  | Leaf => stack
  | Node l _ _ _ _ => push_left_spine l (t :: stack)
  end.

Fixpoint ap_walk (fuel : nat) (p : bytes) (stack : list tree) : list (bytes * bytes) :=
  match fuel with
  | O => []
  | S f =>
      match stack with
      | [] => []
      | Leaf :: _ => []                         (* never pushed *)
      | Node _ k v _ r :: st =>
          if is_prefix p k then (k, v) :: ap_walk f p (push_left_spine r st) else []
      end
  end.

Fixpoint size (t : tree) : nat :=
  match t with Leaf => O | Node l _ _ _ r => S (size l + size r) end.

Definition ascend_prefix (p : bytes) (t : tree) : list (bytes * bytes) :=
  ap_walk (S (size t)) p (ap_descend p t []).

(* ---- specification vocabulary ---- *)
Fixpoint inorder (t : tree) : list (bytes * bytes) :=
  match t with Leaf => [] | Node l k v _ r => inorder l ++ (k, v) :: inorder r end.

Fixpoint all_keys (P : bytes -> Prop) (t : tree) : Prop :=
  match t with Leaf => True | Node l k _ _ r => all_keys P l /\ P k /\ all_keys P r end.

Fixpoint bst (t : tree) : Prop :=
  match t with
  | Leaf => True
  | Node l k _ _ r => bst l /\ bst r /\ all_keys (fun x => bcmp x k = Lt) l /\ all_keys (fun x => bcmp k x = Lt) r
  end.

(* zip-tree heap order on ranks (ties: the smaller key is the ancestor); not needed for map semantics *)
Definition rank_of (t : tree) : option (N * bytes) := match t with Leaf => None | Node _ k _ rk _ => Some (rk, k) end.
Fixpoint zip_heap (t : tree) : Prop :=
  match t with
  | Leaf => True
  | Node l k _ rk r =>
      zip_heap l /\ zip_heap r /\
      match rank_of l with Some (rl, _) => rl < rk | None => True end /\
      match rank_of r with Some (rr, _) => rr <= rk | None => True end
  end.

(* reference: sorted association list *)
Fixpoint al_get (k : bytes) (m : list (bytes * bytes)) : option bytes :=
  match m with [] => None | (k', v) :: m' => if beqb k k' then Some v else al_get k m' end.
Fixpoint al_put (k v : bytes) (m : list (bytes * bytes)) : list (bytes * bytes) :=
  match m with
  | [] => [(k, v)]
  | (k', v') :: m' =>
      match bcmp k k' with
      | Lt => (k, v) :: m
      | Eq => (k, v) :: m'
      | Gt => (k', v') :: al_put k v m'
      end
  end.
