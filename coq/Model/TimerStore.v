(* workers/operator/timer_store.go over the SPECIFICATION of the DKV underneath and of util/ds.

   * the DKV (dkv.DB Put/Delete/ScanPrefix, values are nil) = a strictly sorted list of keys: [sins] / [sdel] /
     [db_scan] (ascending).  The real LSM is C07/C18's subject; it is driven for real by the engine `timers`.
   * util/ds/sorted_cache.go = a strictly sorted list (google/btree by its specification) + the byteSize counter with
     the accounting of the code (uint64 wrap-around of byteSize is not modelled: 2^64 bytes of cache are unreachable).
   * util/ds/partitioned_priority_queue.go + heap.go at the level "partitions ordered by their Peek": Peek of the queue
     is the Peek of a partition whose Peek is minimal under the comparator (bytes 3..11 = the timestamp), empty
     partitions last.  Which of several partitions with EQUAL timestamps is at the heap root depends on the heap layout
     and is not modelled: the model takes the first one; the check compares ties as multisets.  The heap's
     comparisons call Peek, hence loadFromDB, on partitions at moments the model does not reproduce; this is
     unobservable: loadFromDB is idempotent and the group's DB content only changes through operations on that partition,
     each of which starts with loadFromDB.  The model loads every partition at every queue Peek.

   [quirks] keeps the code as it was before the repairs recognisable (DESIGN section 8):
     q_load_marks_all   D12  loadFromDB set allDataInCache = true also when it stopped because the cache was full
     q_push_beyond_max  D13  Push inserted into the cache also beyond its last item while the DB held uncached items
     q_dup_double_count D14  SortedCache.Push did not subtract the size of a replaced value
   [quirks_now] is the current code (all repaired). *)
From RV Require Import Base.Bytes.
Open Scope N_scope.

Record quirks := { q_load_marks_all : bool; q_push_beyond_max : bool; q_dup_double_count : bool }.
Definition quirks_now : quirks := {| q_load_marks_all := false; q_push_beyond_max := false; q_dup_double_count := false |}.
Definition quirks_D12 : quirks := {| q_load_marks_all := true; q_push_beyond_max := false; q_dup_double_count := false |}.
Definition quirks_D13 : quirks := {| q_load_marks_all := false; q_push_beyond_max := true; q_dup_double_count := false |}.
Definition quirks_D14 : quirks := {| q_load_marks_all := false; q_push_beyond_max := false; q_dup_double_count := true |}.
Definition quirks_orig : quirks := {| q_load_marks_all := true; q_push_beyond_max := true; q_dup_double_count := true |}.

Definition blen (b : bytes) : N := N.of_nat (length b).

(* ---------- strictly sorted lists of byte strings: btree.ReplaceOrInsert / Delete, DB.Put / Delete ---------- *)
Fixpoint sins (v : bytes) (l : list bytes) : list bytes :=
  match l with
  | [] => [v]
  | x :: l' => match bcmp v x with Lt => v :: l | Eq => v :: l' | Gt => x :: sins v l' end
  end.
Fixpoint sdel (v : bytes) (l : list bytes) : list bytes :=
  match l with
  | [] => []
  | x :: l' => match bcmp v x with Lt => l | Eq => l' | Gt => x :: sdel v l' end
  end.
Fixpoint smem (v : bytes) (l : list bytes) : bool :=
  match l with
  | [] => false
  | x :: l' => match bcmp v x with Lt => false | Eq => true | Gt => smem v l' end
  end.

(* the DKV specification *)
Definition db := list bytes.
Definition db_put (k : bytes) (d : db) : db := sins k d.
Definition db_delete (k : bytes) (d : db) : db := sdel k d.
Definition db_scan (prefix : bytes) (d : db) : list bytes := filter (is_prefix prefix) d.

(* ---------- ds.SortedCache ---------- *)
Record cache := { c_items : list bytes; c_size : N; c_max : N }.
Definition cache_new (mx : N) : cache := {| c_items := []; c_size := 0; c_max := mx |}.
Definition c_push (q : quirks) (v : bytes) (c : cache) : cache :=
  {| c_items := sins v (c_items c);
     (* byteSize += len(v); a replaced value (equal to v) is subtracted again by the repaired code *)
     c_size := if smem v (c_items c) && negb (q_dup_double_count q) then c_size c else c_size c + blen v;
     c_max := c_max c |}.
Definition c_pop (c : cache) : option bytes * cache :=
  match c_items c with
  | [] => (None, c)
  | x :: l => (Some x, {| c_items := l; c_size := c_size c - blen x; c_max := c_max c |})
  end.
Definition c_pop_last (c : cache) : cache :=
  match c_items c with
  | [] => c
  | _ => {| c_items := removelast (c_items c); c_size := c_size c - blen (last (c_items c) []); c_max := c_max c |}
  end.
Definition c_peek (c : cache) : option bytes := hd_error (c_items c).
Definition c_delete (v : bytes) (c : cache) : cache :=
  if smem v (c_items c)
  then {| c_items := sdel v (c_items c); c_size := c_size c - blen v; c_max := c_max c |}
  else c.
Definition c_empty (c : cache) : bool := match c_items c with [] => true | _ => false end.
Definition c_full (c : cache) : bool := c_max c <=? c_size c.

(* ---------- KeyGroupPriorityQueue ---------- *)
Record kgq := { k_cache : cache; k_all : bool; k_prefix : bytes }.
Definition kgq_new (kg : N) (cache_size : N) : kgq :=
  {| k_cache := cache_new cache_size; k_all := false; k_prefix := be16 kg ++ [1] |}.

(* loadFromDB before the repair:   for e in scan { cache.Push(e); if cache.IsFull() { break } };  all = true *)
Fixpoint load_old (q : quirks) (es : list bytes) (c : cache) : cache :=
  match es with
  | [] => c
  | e :: r => let c' := c_push q e c in if c_full c' then c' else load_old q r c'
  end.
(* repaired:  all := true; for e in scan { if cache.IsFull() && !cache.IsEmpty() { all = false; break }; cache.Push(e) } *)
Fixpoint load_new (q : quirks) (es : list bytes) (c : cache) : cache * bool :=
  match es with
  | [] => (c, true)
  | e :: r => if c_full c && negb (c_empty c) then (c, false) else load_new q r (c_push q e c)
  end.

Definition kq_load (q : quirks) (d : db) (p : kgq) : kgq :=
  if negb (c_empty (k_cache p)) || k_all p then p
  else
    let es := db_scan (k_prefix p) d in
    if q_load_marks_all q
    then {| k_cache := load_old q es (k_cache p); k_all := true; k_prefix := k_prefix p |}
    else let '(c, ex) := load_new q es (k_cache p) in {| k_cache := c; k_all := ex; k_prefix := k_prefix p |}.

(* for cache.IsFull() && !cache.IsEmpty() { cache.PopLast(); allDataInCache = false } *)
Fixpoint evict (fuel : nat) (c : cache) (all : bool) : cache * bool :=
  match fuel with
  | O => (c, all)
  | S f => if c_full c && negb (c_empty c) then evict f (c_pop_last c) false else (c, all)
  end.

(* repaired Push: data is cached only when everything is cached or when it does not sort after the last cached item *)
Definition within_cache (v : bytes) (c : cache) : bool :=
  match c_items c with
  | [] => false
  | _ => bleb v (last (c_items c) [])
  end.

Definition kq_peek (q : quirks) (d : db) (p : kgq) : option bytes * kgq :=
  let p := kq_load q d p in (c_peek (k_cache p), p).

Definition kq_push (q : quirks) (v : bytes) (d : db) (p : kgq) : kgq * db :=
  let p := kq_load q d p in
  let p' :=
    if q_push_beyond_max q || k_all p || within_cache v (k_cache p) then
      let c := c_push q v (k_cache p) in
      let '(c', all) := evict (S (length (c_items c))) c (k_all p) in
      {| k_cache := c'; k_all := all; k_prefix := k_prefix p |}
    else p in
  (p', db_put v d).

Definition kq_delete (q : quirks) (v : bytes) (d : db) (p : kgq) : kgq * db :=
  let p := kq_load q d p in
  ({| k_cache := c_delete v (k_cache p); k_all := k_all p; k_prefix := k_prefix p |}, db_delete v d).

Definition kq_pop (q : quirks) (d : db) (p : kgq) : option bytes * kgq * db :=
  let p := kq_load q d p in
  match c_pop (k_cache p) with
  | (Some x, c) => (Some x, {| k_cache := c; k_all := k_all p; k_prefix := k_prefix p |}, db_delete x d)
  | (None, _) => (None, p, d)
  end.

(* ---------- timer keys: <2 bytes key group><0x01><8 bytes uint64(UnixNano) big endian><subject key> ---------- *)
(* timestamps are Z nanoseconds since the Unix epoch; uint64(t.UnixNano()) wraps negatives *)
Definition time_u64 (t : Z) : N := Z.to_N (t mod 2 ^ 64)%Z.
(* time.Unix(0, int64(u)) *)
Definition u64_time (u : N) : Z := if u <? 2 ^ 63 then Z.of_N u else (Z.of_N u - 2 ^ 64)%Z.

Definition timer_key (kg : N) (t : Z) (subject : bytes) : bytes := be16 kg ++ [1] ++ be64 (time_u64 t) ++ subject.
Definition key_kg (k : bytes) : N := be_decode (firstn 2 k).
Definition key_ts_bytes (k : bytes) : bytes := firstn 8 (skipn 3 k).
Definition key_time (k : bytes) : Z := u64_time (be_decode (key_ts_bytes k)).
Definition key_subject (k : bytes) : bytes := skipn 11 k.

(* ---------- TimerStore: partitions for the key groups [start, start+size) over one DB ---------- *)
Record tstore := { ts_parts : list kgq; ts_start : N }.

Definition tstore_new (start size max_cache : N) : tstore :=
  {| ts_parts := map (fun i => kgq_new (start + N.of_nat i) (max_cache / size)) (seq 0 (N.to_nat size));
     ts_start := start |}.

(* getPartitionIndex; None = the Go code indexes outside the partition slice and panics *)
Definition part_index (s : tstore) (k : bytes) : option nat :=
  let kg := key_kg k in
  if kg <? ts_start s then None
  else let i := N.to_nat (kg - ts_start s) in if (i <? length (ts_parts s))%nat then Some i else None.

Fixpoint upd {A} (i : nat) (x : A) (l : list A) : list A :=
  match l, i with
  | [], _ => []
  | _ :: l', O => x :: l'
  | y :: l', S i' => y :: upd i' x l'
  end.

(* heapCompare(a, b) < 0 on the Peeks *)
Definition peek_lt (a b : option bytes) : bool :=
  match a, b with
  | None, _ => false
  | Some _, None => true
  | Some x, Some y => bltb (key_ts_bytes x) (key_ts_bytes y)
  end.
Fixpoint min_peek (best : option bytes) (l : list (option bytes)) : option bytes :=
  match l with
  | [] => best
  | o :: l' => min_peek (if peek_lt o best then o else best) l'
  end.

(* PartitionedPriorityQueue.Peek (GetEarliest) *)
Definition ts_peek (q : quirks) (d : db) (s : tstore) : option bytes * tstore :=
  let ps := map (kq_load q d) (ts_parts s) in
  (min_peek None (map (fun p => c_peek (k_cache p)) ps), {| ts_parts := ps; ts_start := ts_start s |}).

Definition ts_push (q : quirks) (k : bytes) (d : db) (s : tstore) : tstore * db :=
  match part_index s k with
  | None => (s, d)
  | Some i =>
      match nth_error (ts_parts s) i with
      | None => (s, d)
      | Some p => let '(p', d') := kq_push q k d p in ({| ts_parts := upd i p' (ts_parts s); ts_start := ts_start s |}, d')
      end
  end.

Definition ts_delete (q : quirks) (k : bytes) (d : db) (s : tstore) : tstore * db :=
  match part_index s k with
  | None => (s, d)
  | Some i =>
      match nth_error (ts_parts s) i with
      | None => (s, d)
      | Some p => let '(p', d') := kq_delete q k d p in ({| ts_parts := upd i p' (ts_parts s); ts_start := ts_start s |}, d')
      end
  end.

(* TimerStore.Pop (not used by the registry): the root partition's Pop *)
Definition ts_pop (q : quirks) (d : db) (s : tstore) : option bytes * tstore * db :=
  let '(o, s1) := ts_peek q d s in
  match o with
  | None => (None, s1, d)
  | Some k => let '(s2, d2) := ts_delete q k d s1 in (Some k, s2, d2)
  end.
