(* dkv/mergesort/merge.go Merge (k-way merge on the heap with de-duplication by [pick]) and
   util/iteru/merge_sorted.go MergeSorted (k-way merge keeping everything).  Iterators are lists; iter.Pull = taking the head.
   [cmp] is the three-way comparison, [eqT] is Go's == on T.  The consumer is assumed to drain the sequence. *)
From Coq Require Import List Arith Bool.
From RV Require Import Model.Heap.
Import ListNotations.

Section Merge.
  Context {T : Type} (cmp : T -> T -> comparison) (pick : T -> T -> T) (eqT : T -> T -> bool).

  Definition ilt (a b : nat * T) : bool := match cmp (snd a) (snd b) with Lt => true | _ => false end.

  Definition pull (i : nat) (its : list (list T)) : option T * list (list T) :=
    match nth i its [] with
    | [] => (None, its)
    | x :: r => (Some x, upd i r its)
    end.

  (* first element of every iterator goes on the heap, in iterator order *)
  Fixpoint merge_init (idxs : list nat) (h : list (nat * T)) (its : list (list T)) : list (nat * T) * list (list T) :=
    match idxs with
    | [] => (h, its)
    | i :: rest =>
        match pull i its with
        | (Some x, its') => merge_init rest (push ilt (i, x) h) its'
        | (None, its') => merge_init rest h its'
        end
    end.

  Definition refill (idx : nat) (h : list (nat * T)) (its : list (list T)) : list (nat * T) * list (list T) :=
    match pull idx its with
    | (Some y, its') => (push ilt (idx, y) h, its')
    | (None, its') => (h, its')
    end.

  (* None = panic("pick must return one of the provided arguments") *)
  Fixpoint merge_loop (fuel : nat) (h : list (nat * T)) (its : list (list T)) (prev : option T) : option (list T) :=
    match fuel with
    | O => Some []
    | S f =>
        match pop ilt h with
        | (None, _) => Some (match prev with Some p => [p] | None => [] end)
        | (Some (idx, item), h1) =>
            let '(h2, its') := refill idx h1 its in
            match prev with
            | None => merge_loop f h2 its' (Some item)
            | Some p =>
                match cmp p item with
                | Eq =>
                    let pk := pick p item in
                    if eqT pk p then merge_loop f h2 its' (Some p)
                    else if eqT pk item then merge_loop f h2 its' (Some item)
                    else None
                | _ => option_map (cons p) (merge_loop f h2 its' (Some item))
                end
            end
        end
    end.

  Definition total (its : list (list T)) : nat := length (concat its).

  Definition merge (its : list (list T)) : option (list T) :=
    let '(h, its') := merge_init (seq 0 (length its)) [] its in
    merge_loop (S (total its)) h its' None.

  Fixpoint merge_sorted_loop (fuel : nat) (h : list (nat * T)) (its : list (list T)) : list T :=
    match fuel with
    | O => []
    | S f =>
        match pop ilt h with
        | (None, _) => []
        | (Some (idx, item), h1) =>
            let '(h2, its') := refill idx h1 its in
            item :: merge_sorted_loop f h2 its'
        end
    end.

  Definition merge_sorted (its : list (list T)) : list T :=
    let '(h, its') := merge_init (seq 0 (length its)) [] its in
    merge_sorted_loop (S (total its)) h its'.
End Merge.
