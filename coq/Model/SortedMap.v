(* util/ds/sorted_map.go: map m + key slice [list], sorted before every ordered read (the isSorted flag is never set to
   true in the code, so every ensureSorted sorts; sorting a duplicate-free slice is deterministic).  Keys: byte strings
   (Go string order = bytes.Compare); values: N. slices.BinarySearch / slices.SortFunc are the Go standard library and are
   modelled by their specification (position in the sorted slice / insertion sort). *)
From RV Require Import Base.Bytes.
Open Scope N_scope.

Fixpoint map_get (k : bytes) (m : list (bytes * N)) : option N :=
  match m with [] => None | (k', v) :: m' => if beqb k k' then Some v else map_get k m' end.
Fixpoint map_set (k : bytes) (v : N) (m : list (bytes * N)) : list (bytes * N) :=
  match m with [] => [(k, v)] | (k', v') :: m' => if beqb k k' then (k, v) :: m' else (k', v') :: map_set k v m' end.
Fixpoint map_del (k : bytes) (m : list (bytes * N)) : list (bytes * N) :=
  match m with [] => [] | (k', v') :: m' => if beqb k k' then m' else (k', v') :: map_del k m' end.

Fixpoint sort_ins (k : bytes) (l : list bytes) : list bytes :=
  match l with [] => [k] | x :: l' => if bleb k x then k :: l else x :: sort_ins k l' end.
Definition sort_keys (l : list bytes) : list bytes := fold_right sort_ins [] l.

Record smap := { keys : list bytes; m : list (bytes * N) }.
Definition smap_empty : smap := {| keys := []; m := [] |}.

Definition smap_set (k : bytes) (v : N) (s : smap) : smap * bool :=
  match map_get k (m s) with
  | Some _ => ({| keys := keys s; m := map_set k v (m s) |}, false)
  | None => ({| keys := keys s ++ [k]; m := map_set k v (m s) |}, true)
  end.
Definition smap_get (k : bytes) (s : smap) : option N := map_get k (m s).
Definition smap_has (k : bytes) (s : smap) : bool := match map_get k (m s) with Some _ => true | None => false end.
Definition ensure_sorted (s : smap) : smap := {| keys := sort_keys (keys s); m := m s |}.
Definition smap_keys (s : smap) : smap * list bytes := let s' := ensure_sorted s in (s', keys s').
Definition smap_values (s : smap) : smap * list N :=
  let s' := ensure_sorted s in (s', map (fun k => match map_get k (m s') with Some v => v | None => 0 end) (keys s')).
Definition smap_all (s : smap) : smap * list (bytes * N) :=
  let s' := ensure_sorted s in (s', map (fun k => (k, match map_get k (m s') with Some v => v | None => 0 end)) (keys s')).
(* Delete: binary search in the sorted key slice *)
Definition smap_delete (k : bytes) (s : smap) : smap * bool :=
  let s' := ensure_sorted s in
  if existsb (beqb k) (keys s')
  then ({| keys := filter (fun x => negb (beqb k x)) (keys s'); m := map_del k (m s') |}, true)
  else (s', false).
Definition smap_size (s : smap) : nat := length (keys s).

(* ---- specification vocabulary: the reference is an association list sorted by key ---- *)
Fixpoint rm_put (k : bytes) (v : N) (m : list (bytes * N)) : list (bytes * N) :=
  match m with
  | [] => [(k, v)]
  | (k', v') :: m' => match bcmp k k' with Lt => (k, v) :: m | Eq => (k, v) :: m' | Gt => (k', v') :: rm_put k v m' end
  end.
Definition rm_del (k : bytes) (m : list (bytes * N)) := filter (fun kv => negb (beqb k (fst kv))) m.
Definition rm_get (k : bytes) (m : list (bytes * N)) : option N := map_get k m.
