(* partitioning/key_space.go AssignRanges (as repaired by 35e5e8b: every recorded range is a candidate),
   util/sliceu Pick, and the use made of both by jobs/assembly.go Deploy. *)
From RV Require Export Model.KeySpace.
Open Scope N_scope.

(* inner loop: for fromIdx, fromRange := range from { if toRange.Overlaps(fromRange) { append fromIdx } } *)
Fixpoint assign_scan (toR : kgrange) (fromIdx : N) (from : list kgrange) : list N :=
  match from with
  | [] => []
  | f :: from' =>
      if overlaps toR f then fromIdx :: assign_scan toR (fromIdx + 1) from'
      else assign_scan toR (fromIdx + 1) from'
  end.

(* outer loop: assignments[toIdx] for every toIdx *)
Definition assign_ranges (to from : list kgrange) : list (list N) :=
  map (fun t => assign_scan t 0 from) to.

(* the code before 35e5e8b (D20), kept for the history lemma: a two-pointer scan that assumed `from` ascending.
     fromIdx := 0
     for toIdx, toRange := range to {
       for fromIdx < len(from) && from[fromIdx].End <= toRange.Start { fromIdx++ }
       j := fromIdx
       for j < len(from) && from[j].Start < toRange.End {
         if toRange.Overlaps(from[j]) { append j }
         j++ } }                                                                                   *)
Fixpoint old_skip (toR : kgrange) (fromIdx : N) (rest : list kgrange) : N * list kgrange :=
  match rest with
  | f :: rest' => if snd f <=? fst toR then old_skip toR (fromIdx + 1) rest' else (fromIdx, rest)
  | [] => (fromIdx, [])
  end.
Fixpoint old_take (toR : kgrange) (j : N) (rest : list kgrange) : list N :=
  match rest with
  | f :: rest' =>
      if fst f <? snd toR then
        (if overlaps toR f then [j] else []) ++ old_take toR (j + 1) rest'
      else []
  | [] => []
  end.
Fixpoint assign_old_outer (to : list kgrange) (fromIdx : N) (rest : list kgrange) : list (list N) :=
  match to with
  | [] => []
  | t :: to' =>
      let '(i, rest') := old_skip t fromIdx rest in
      old_take t i rest' :: assign_old_outer to' i rest'
  end.
Definition assign_ranges_old (to from : list kgrange) : list (list N) := assign_old_outer to 0 from.

(* sliceu.Pick(s, idxList): s[idx] for each idx (an index out of range panics in Go: None) *)
Fixpoint pick {A} (s : list A) (idxs : list N) : option (list A) :=
  match idxs with
  | [] => Some []
  | i :: idxs' =>
      match nth_error s (N.to_nat i), pick s idxs' with
      | Some x, Some r => Some (x :: r)
      | _, _ => None
      end
  end.

(* jobs/assembly.go Deploy: the recorded operator checkpoints (in acknowledgement order) carry their key-group
   range; new operator i of n gets Pick(recorded, AssignRanges(KeyGroupRanges(count,n), recorded ranges)[i]) *)
Definition deploy_assign {A} (count n : N) (recorded : list (kgrange * A)) : list (option (list (kgrange * A))) :=
  map (pick recorded) (assign_ranges (kg_ranges count n) (map fst recorded)).
