(* Model of the source runner's event loop (workers/sourcerunner/source_runner.go processEvents /
   createCheckpoint) driving a reader whose cursor for a split is the number of records read from it.
   All reads, split assignments and cursor snapshots happen on the loop goroutine, one select case at a
   time; everything the loop emits goes through the FIFO outputStream, so the barrier of checkpoint N is
   queued behind every record read before the snapshot and ahead of every record read after it.
   Operators receive the records routed to them and every barrier, in outputStream order. *)
From Coq Require Import List NArith Bool.
Import ListNotations.
Open Scope N_scope.

Inductive ev := Rec (split idx : N) | Bar (id : N).

(* one select case of processEvents *)
Inductive step :=
| SAssign (splits : list (N * N))      (* splitsWereAssigned: (split, cursor); reader.AssignSplits *)
| SRead (batch : list (N * N))         (* readFunc(): (split, number of records) in reader order *)
| SCkpt (id : N).                      (* checkpointBarrier: reader.Checkpoint(), job notified, barrier queued *)

Record rstate := mkR {
  curs : list (N * N);                 (* reader: split -> cursor, in assignment order *)
  out : list ev;                       (* outputStream, oldest first *)
  reports : list (N * list (N * N))    (* OnSourceRunnerCheckpointComplete calls: id, split states *)
}.

Definition init := mkR [] [] [].

Definition get_cur (cs : list (N * N)) (s : N) : option N :=
  match find (fun c => fst c =? s) cs with Some c => Some (snd c) | None => None end.

Fixpoint set_cur (cs : list (N * N)) (s v : N) : list (N * N) :=
  match cs with
  | [] => []
  | c :: r => if fst c =? s then (s, v) :: r else c :: set_cur r s v
  end.

Fixpoint recs (s from : N) (n : nat) : list ev :=
  match n with O => [] | S k => Rec s from :: recs s (from + 1) k end.

(* the scripted reader: records of an unassigned split are not produced *)
Fixpoint read_batch (cs : list (N * N)) (batch : list (N * N)) : list (N * N) * list ev :=
  match batch with
  | [] => (cs, [])
  | (s, n) :: r =>
      match get_cur cs s with
      | None => read_batch cs r
      | Some c => let '(cs', evs) := read_batch (set_cur cs s (c + n)) r in
                  (cs', recs s c (N.to_nat n) ++ evs)
      end
  end.

(* AssignSplits appends; a split already assigned keeps its first entry for reads *)
Definition do_step (st : rstate) (x : step) : rstate :=
  match x with
  | SAssign splits => mkR (curs st ++ splits) (out st) (reports st)
  | SRead batch => let '(cs, evs) := read_batch (curs st) batch in mkR cs (out st ++ evs) (reports st)
  | SCkpt id => mkR (curs st) (out st ++ [Bar id]) (reports st ++ [(id, curs st)])
  end.

Definition run (steps : list step) : rstate := fold_left do_step steps init.

(* what operator j receives: every barrier and the records routed to it *)
Definition op_stream (route : N -> N -> N) (j : N) (o : list ev) : list ev :=
  filter (fun e => match e with Bar _ => true | Rec s i => route s i =? j end) o.

(* events ahead of / behind the first barrier with the given id *)
Fixpoint before_bar (id : N) (o : list ev) : list ev :=
  match o with
  | [] => []
  | Bar b :: r => if b =? id then [] else Bar b :: before_bar id r
  | e :: r => e :: before_bar id r
  end.
Fixpoint after_bar (id : N) (o : list ev) : list ev :=
  match o with
  | [] => []
  | Bar b :: r => if b =? id then r else after_bar id r
  | _ :: r => after_bar id r
  end.

(* ---------- split assignment rounds (HandleAssignSplits -> splitsWereAssigned -> loop) ----------
   The channel has one slot. A HandleAssignSplits call returns (acknowledges the round to the job) only once
   its round is in the slot; while the slot is full the caller stays parked and nothing is acknowledged.
   The loop takes the slot and hands the round to reader.AssignSplits. *)
Inductive astep :=
| AOffer (round : list (N * N))   (* a HandleAssignSplits call tries to complete *)
| ATake.                          (* the loop's splitsWereAssigned case *)

Record astate := mkA {
  slot : option (list (N * N));
  acked : list (list (N * N));      (* rounds whose call returned nil, in that order *)
  delivered : list (list (N * N))   (* rounds given to reader.AssignSplits, in that order *)
}.

Definition a_init := mkA None [] [].

Definition a_step (st : astate) (x : astep) : astate :=
  match x, slot st with
  | AOffer r, None => mkA (Some r) (acked st ++ [r]) (delivered st)
  | AOffer _, Some _ => st                                   (* still parked: not acknowledged *)
  | ATake, Some r => mkA None (acked st) (delivered st ++ [r])
  | ATake, None => st
  end.

Definition a_run (steps : list astep) : astate := fold_left a_step steps a_init.
