(* C11, operator side.  Model of
     workers/operator/timer_registry.go  (upstream table, composite watermark, AdvanceWatermark, SetTimer guard)
     workers/operator/operator.go        (handleUserEvent, handleWatermark, processEventBatch: the Watermark
                                          field of ProcessEventBatchRequest, SetTimer of the returned timers)
   The timer store is abstract here (its cache / DKV internals belong to C10): a duplicate-free list of
   (timestamp, key) kept in the store's order, which is the byte order of the big-endian uint64(UnixNano)
   (binu.PutTimeBytes), i.e. pre-epoch timers sort AFTER all others.  Order among equal timestamps is left
   open by the code (heap of key-group partitions); the correspondence check compares modulo that order.

   Definitions only; proofs in Proofs/C11_Upstream.v. *)
From Coq Require Import ZArith NArith List Bool.
From RV Require Import Model.Wmark.
Import ListNotations.
Open Scope Z_scope.

(* ---- upstream table: map[string]time.Time, sender ids abstracted to N ---- *)
Definition ups := list (N * Z).

Fixpoint ups_set (u : ups) (s : N) (t : Z) : ups :=
  match u with
  | [] => [(s, t)]
  | (s', t') :: r => if (s =? s')%N then (s, t) :: r else (s', t') :: ups_set r s t
  end.

(* NewTimerRegistry: upstreams[id] = time.Unix(0, 0) for every configured source runner id *)
Definition ups_init (ids : list N) : ups := fold_left (fun u i => ups_set u i epoch) ids [].

(* iteru.MinFunc(maps.Values(upstreams), time.Time.Compare); None = panic on an empty table *)
Definition ups_min (u : ups) : option Z :=
  match u with
  | [] => None
  | (_, t) :: r => Some (fold_left Z.min (map snd r) t)
  end.

(* ---- abstract timer store ---- *)
Definition two64 : Z := 18446744073709551616.
Definition two63 : Z := 9223372036854775808.
Definition u64 (t : Z) : Z := t mod two64.                           (* uint64(t.UnixNano()) *)
Definition swrap64 (t : Z) : Z := (t + two63) mod two64 - two63.     (* time.Unix(0, int64(uint64(UnixNano))) *)

Definition timer := (Z * N)%type.   (* decoded timestamp (int64 ns), key id *)

Definition timer_eqb (a b : timer) : bool := (fst a =? fst b) && (snd a =? snd b)%N.

(* insert keeping the list ordered by u64 of the timestamp (after equal timestamps); no-op if present
   (a second Put of the same db key addresses the same entry) *)
Fixpoint tins_sorted (x : timer) (l : list timer) : list timer :=
  match l with
  | [] => [x]
  | y :: r => if u64 (fst x) <? u64 (fst y) then x :: l else y :: tins_sorted x r
  end.

Definition tins (x : timer) (l : list timer) : list timer :=
  if existsb (timer_eqb x) l then l else tins_sorted x l.

(* ---- TimerRegistry ---- *)
Record reg := { r_ups : ups; r_wm : Z; r_timers : list timer }.

(* the cached watermark starts at the epoch, the minimum of the freshly initialised table (since the repair
   9b0e491; before it the field was left at the zero time.Time, year 1: reg_new_before_fix) *)
Definition reg_new (ids : list N) : reg :=
  {| r_ups := ups_init ids; r_wm := epoch; r_timers := [] |}.
Definition reg_new_before_fix (ids : list N) : reg :=
  {| r_ups := ups_init ids; r_wm := go_zero_time; r_timers := [] |}.

(* SetTimer: if !r.watermark.Before(t) { return }; r.store.Put(key, t) *)
Definition set_timer (r : reg) (k : N) (t : Z) : reg :=
  if r_wm r <? t then {| r_ups := r_ups r; r_wm := r_wm r; r_timers := tins (swrap64 t, k) (r_timers r) |} else r.

(* first half of AdvanceWatermark (eager): table update, composite, cache *)
Definition reg_note (r : reg) (s : N) (p : pbts) : reg :=
  let u := ups_set (r_ups r) s (as_time p) in
  let c := match ups_min u with Some c => c | None => epoch (* unreachable: u contains s; MinFunc would panic *) end in
  {| r_ups := u; r_wm := c; r_timers := r_timers r |}.

(* the returned iterator, fully drained with no interleaved SetTimer: GetEarliest / After(composite) / Delete *)
Fixpoint fire (c : Z) (ts : list timer) : list timer * list timer :=
  match ts with
  | [] => ([], [])
  | (t, k) :: rest =>
      if c <? t then ([], ts)
      else let '(f, keep) := fire c rest in ((t, k) :: f, keep)
  end.

Definition advance (r : reg) (s : N) (p : pbts) : reg * list timer :=
  let r1 := reg_note r s p in
  let '(f, keep) := fire (r_wm r1) (r_timers r1) in
  ({| r_ups := r_ups r1; r_wm := r_wm r1; r_timers := keep |}, f).

(* the consumer of the iterator stops after k timers (yield returns false: a handler error in the middle of the
   advance): the table and the cached composite STAY advanced, the due timers not handed out stay in the store
   (they fire with the next advance) *)
Definition advance_stop (r : reg) (s : N) (p : pbts) (k : nat) : reg * list timer :=
  let r1 := reg_note r s p in
  let '(f, keep) := fire (r_wm r1) (r_timers r1) in
  ({| r_ups := r_ups r1; r_wm := r_wm r1; r_timers := skipn k f ++ keep |}, firstn k f).

(* API-level history of one registry *)
Inductive rop := RAdv (s : N) (p : pbts) | RSet (k : N) (t : Z) | RAdvStop (s : N) (p : pbts) (k : nat).

Definition reg_step (r : reg) (o : rop) : reg * list timer :=
  match o with
  | RAdv s p => advance r s p
  | RSet k t => (set_timer r k t, [])
  | RAdvStop s p k => advance_stop r s p k
  end.

Fixpoint reg_run (r : reg) (ops : list rop) : reg :=
  match ops with
  | [] => r
  | o :: rest => reg_run (fst (reg_step r o)) rest
  end.

(* per operation: fired timers and the cached watermark afterwards *)
Fixpoint reg_trace (r : reg) (ops : list rop) : list (list timer * Z) :=
  match ops with
  | [] => []
  | o :: rest => let '(r', f) := reg_step r o in (f, r_wm r') :: reg_trace r' rest
  end.

(* ---- SPECIFICATION of the composite watermark, from the message history alone ----
   msgs = the watermark messages handled so far, oldest first, as (sender, instant).
   A configured runner that has not reported counts as the epoch; an unknown sender takes part from its
   first message on; only the most recent message of a sender counts.  The composite is the minimum over all
   participants (the epoch when there is no participant at all: no configured runner, no message yet). *)
Definition last_of (msgs : list (N * Z)) (s : N) : option Z :=
  fold_left (fun acc m => if (fst m =? s)%N then Some (snd m) else acc) msgs None.

Definition latest (msgs : list (N * Z)) (s : N) : Z :=
  match last_of msgs s with Some t => t | None => epoch end.

Definition participants (ids : list N) (msgs : list (N * Z)) : list N := ids ++ map fst msgs.

Definition zmin_list (d : Z) (l : list Z) : Z := fold_left Z.min l d.

Definition spec_composite (ids : list N) (msgs : list (N * Z)) : Z :=
  match map (latest msgs) (participants ids msgs) with
  | [] => epoch
  | x :: r => zmin_list x r
  end.

Fixpoint rop_msgs (ops : list rop) : list (N * Z) :=
  match ops with
  | [] => []
  | RAdv s p :: r => (s, as_time p) :: rop_msgs r
  | RSet _ _ :: r => rop_msgs r
  | RAdvStop s p _ :: r => (s, as_time p) :: rop_msgs r
  end.

(* ---- Operator: event batcher + handler call + timers, single-threaded event loop ----
   MaxDelay = 0 (no batch timeout): a batch is handed to the handler exactly when it is full. *)
Inductive hevent :=
| HK (id : N) (key : N) (timers : list pbts)     (* keyed event; the payload scripts the timers the handler sets *)
| HT (key : N) (ts : Z).                          (* TimerExpired *)

(* the handler: any function from (Watermark told, events of the batch) to key results (key, new timers);
   None = ProcessEventBatch returns an error *)
Definition handler := Z * Z -> list hevent -> option (list (N * list pbts)).

Record call := { c_told : Z * Z; c_events : list hevent }.

Record opst := { o_reg : reg; o_batch : list hevent }.

Definition op_new (ids : list N) : opst := {| o_reg := reg_new ids; o_batch := [] |}.

Definition apply_results (r : reg) (res : list (N * list pbts)) : reg :=
  fold_left (fun r kr => fold_left (fun r p => set_timer r (fst kr) (as_time p)) (snd kr) r) res r.

(* processEventBatch(CurrentBatch); the flag says whether the handler succeeded.  On an error the batch is gone
   (it was flushed before the call), nothing the handler returned is applied, and the error propagates. *)
Definition process_batch (h : handler) (st : opst) : opst * list call * bool :=
  match o_batch st with
  | [] => (st, [], true)
  | evs =>
      let told := pb_new (r_wm (o_reg st)) in
      let cl := {| c_told := told; c_events := evs |} in
      match h told evs with
      | Some res => ({| o_reg := apply_results (o_reg st) res; o_batch := [] |}, [cl], true)
      | None => ({| o_reg := o_reg st; o_batch := [] |}, [cl], false)
      end
  end.

(* eventBatcher.Add; if IsFull { processEventBatch } *)
Definition add_event (h : handler) (m : nat) (st : opst) (e : hevent) : opst * list call * bool :=
  let st1 := {| o_reg := o_reg st; o_batch := o_batch st ++ [e] |} in
  if Nat.leb m (length (o_batch st1)) then process_batch h st1 else (st1, [], true).

(* handleWatermark: the iterator is consumed lazily, a full batch is processed in the middle of it, and the
   timers the handler sets there go into the same store.  c is the composite captured by the iterator.  A handler
   error makes handleWatermark return from inside the loop: the iterator stops, the due timers not yet handed
   out stay in the store, and the cached composite stays where reg_note put it. *)
Fixpoint fire_loop (h : handler) (m : nat) (c : Z) (fuel : nat) (st : opst) : opst * list call :=
  match fuel with
  | O => (st, [])
  | S fuel' =>
      match r_timers (o_reg st) with
      | [] => (st, [])
      | (t, k) :: rest =>
          if c <? t then (st, [])
          else
            let r := o_reg st in
            let st1 := {| o_reg := {| r_ups := r_ups r; r_wm := r_wm r; r_timers := rest |}; o_batch := o_batch st |} in
            let '(st2, calls, ok) := add_event h m st1 (HT k t) in
            if ok then
              let '(st3, calls') := fire_loop h m c fuel' st2 in
              (st3, calls ++ calls')
            else (st2, calls)
      end
  end.

Inductive oop :=
| OEv (s : N) (id : N) (key : N) (timers : list pbts)
| OWm (s : N) (p : pbts)
| OComplete (s : N)    (* SourceComplete from runner s (at least one other runner stays active) *)
| ODeploy (ids : list N).  (* HandleDeploy on the live operator (redeploy): new database, NEW timer registry for the
                              deployment's source runners; the event batcher (pending batch) is the operator's own *)

Definition op_step (h : handler) (m : nat) (st : opst) (o : oop) : opst * list call :=
  match o with
  | OEv _ id key timers => fst (add_event h m st (HK id key timers))
  | OWm s p =>
      let r1 := reg_note (o_reg st) s p in
      fire_loop h m (r_wm r1) (S (length (r_timers r1))) {| o_reg := r1; o_batch := o_batch st |}
  | OComplete _ =>
      (* handleSourceComplete: the pending batch is processed, the runner is marked inactive; its last report
         STAYS in the upstream table - a finished runner still counts in the minimum *)
      fst (process_batch h st)
  | ODeploy ids => ({| o_reg := reg_new ids; o_batch := o_batch st |}, [])
  end.

(* calls grouped per incoming event *)
Fixpoint op_trace (h : handler) (m : nat) (st : opst) (ops : list oop) : list (list call) :=
  match ops with
  | [] => []
  | o :: rest => let '(st', calls) := op_step h m st o in calls :: op_trace h m st' rest
  end.

Fixpoint oop_msgs (ops : list oop) : list (N * Z) :=
  match ops with
  | [] => []
  | OWm s p :: r => (s, as_time p) :: oop_msgs r
  | OEv _ _ _ _ :: r => oop_msgs r
  | OComplete _ :: r => oop_msgs r
  | ODeploy _ :: r => oop_msgs r
  end.

(* SPECIFICATION across deployments: the current deployment's configured runners and the watermark messages it
   has handled; a (re)deploy starts a new deployment in which nobody has reported yet. *)
Definition dstep (d : list N * list (N * Z)) (o : oop) : list N * list (N * Z) :=
  match o with
  | ODeploy ids => (ids, [])
  | OWm s p => (fst d, snd d ++ [(s, as_time p)])
  | _ => d
  end.
Definition drun (d : list N * list (N * Z)) (ops : list oop) : list N * list (N * Z) := fold_left dstep ops d.

(* the composite watermark the operator must be at after the history `pre`, started with configured runners ids0 *)
Definition spec_at (ids0 : list N) (pre : list oop) : Z :=
  let d := drun (ids0, []) pre in spec_composite (fst d) (snd d).
