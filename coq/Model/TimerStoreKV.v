(* workers/operator/timer_store.go + timer_registry.go over an ABSTRACT DKV (the record [StateStore.KV] of C03: put /
   delete / prefix scan / restore, every operation returns the next DKV state, so that an instance can run background
   work - flushes, compactions - between and inside the operations).  The same transcription as Model/TimerStore.v and
   Model/TimerRegistry.v (whose cache, partition, key and registry definitions are used as they are), with the hard-wired
   sorted list [db] replaced by the DKV state [kv_st K]:
     db.Put(key, nil)        kv_put K key [] s
     db.Delete(key)          kv_del K key s
     db.ScanPrefix(prefix)   kv_scan K prefix s   (the keys of the yielded entries; an instance that reports a read fault
                             - [None] - is outside this model: the LSM instance never does)
     checkpoint + restore    kv_restore K s s     (the database captured now, re-opened)
   Proofs/C10_OverLsm.v shows that over every DKV that refines the sorted map this model computes exactly what the list
   model computes, and instantiates it with the LSM model of C07 (Proofs/C03_OverLsm.v [lsm_kv]).  Definitions only. *)
From RV Require Import Base.Bytes Model.TimerStore Model.TimerRegistry.
From RV Require Model.StateStore.
Open Scope N_scope.

Section OverKV.
Variable K : StateStore.KV.
Notation kst := (StateStore.kv_st K).

Definition scan_keys (p : bytes) (s : kst) : list bytes * kst :=
  let '(o, s') := StateStore.kv_scan K p s in
  (match o with Some l => map fst l | None => [] end, s').

(* loadFromDB once the scan has produced [es] *)
Definition kq_loaded (q : quirks) (es : list bytes) (p : kgq) : kgq :=
  if q_load_marks_all q
  then {| k_cache := load_old q es (k_cache p); k_all := true; k_prefix := k_prefix p |}
  else let '(c, ex) := load_new q es (k_cache p) in {| k_cache := c; k_all := ex; k_prefix := k_prefix p |}.

Definition kq_load_kv (q : quirks) (s : kst) (p : kgq) : kgq * kst :=
  if negb (c_empty (k_cache p)) || k_all p then (p, s)
  else let '(es, s') := scan_keys (k_prefix p) s in (kq_loaded q es p, s').

(* Push / Delete on a loaded partition: the cache part *)
Definition kq_push_cache (q : quirks) (v : bytes) (p : kgq) : kgq :=
  if q_push_beyond_max q || k_all p || within_cache v (k_cache p) then
    let c := c_push q v (k_cache p) in
    let '(c', all) := evict (S (length (c_items c))) c (k_all p) in
    {| k_cache := c'; k_all := all; k_prefix := k_prefix p |}
  else p.
Definition kq_delete_cache (v : bytes) (p : kgq) : kgq :=
  {| k_cache := c_delete v (k_cache p); k_all := k_all p; k_prefix := k_prefix p |}.

Definition kq_push_kv (q : quirks) (v : bytes) (s : kst) (p : kgq) : kgq * kst :=
  let '(p1, s1) := kq_load_kv q s p in (kq_push_cache q v p1, StateStore.kv_put K v [] s1).
Definition kq_delete_kv (q : quirks) (v : bytes) (s : kst) (p : kgq) : kgq * kst :=
  let '(p1, s1) := kq_load_kv q s p in (kq_delete_cache v p1, StateStore.kv_del K v s1).

(* every partition is loaded (see Model/TimerStore.v on why that is what the heap's comparisons amount to) *)
Fixpoint load_all (q : quirks) (ps : list kgq) (s : kst) : list kgq * kst :=
  match ps with
  | [] => ([], s)
  | p :: r => let '(p', s1) := kq_load_kv q s p in let '(r', s2) := load_all q r s1 in (p' :: r', s2)
  end.

Definition ts_peek_kv (q : quirks) (s : kst) (t : tstore) : option bytes * tstore * kst :=
  let '(ps, s') := load_all q (ts_parts t) s in
  (min_peek None (map (fun p => c_peek (k_cache p)) ps), {| ts_parts := ps; ts_start := ts_start t |}, s').

Definition ts_push_kv (q : quirks) (k : bytes) (s : kst) (t : tstore) : tstore * kst :=
  match part_index t k with
  | None => (t, s)
  | Some i =>
      match nth_error (ts_parts t) i with
      | None => (t, s)
      | Some p => let '(p', s') := kq_push_kv q k s p in ({| ts_parts := upd i p' (ts_parts t); ts_start := ts_start t |}, s')
      end
  end.
Definition ts_delete_kv (q : quirks) (k : bytes) (s : kst) (t : tstore) : tstore * kst :=
  match part_index t k with
  | None => (t, s)
  | Some i =>
      match nth_error (ts_parts t) i with
      | None => (t, s)
      | Some p => let '(p', s') := kq_delete_kv q k s p in ({| ts_parts := upd i p' (ts_parts t); ts_start := ts_start t |}, s')
      end
  end.

(* ---------- the registry ---------- *)
Definition sys_kv := (registry * kst)%type.

Definition store_set_kv (q : quirks) (kgf : bytes -> N) (wm : Z) (key : bytes) (t : Z) (ts : tstore) (s : kst) : tstore * kst :=
  if negb (wm <? t)%Z then (ts, s) else ts_push_kv q (timer_key (kgf key) t key) s ts.

Definition set_timer_kv (q : quirks) (kgf : bytes -> N) (key : bytes) (t : Z) (st : sys_kv) : sys_kv :=
  let '(r, s) := st in
  let '(ts', s') := store_set_kv q kgf (r_wm r) key t (r_store r) s in
  ({| r_store := ts'; r_ups := r_ups r; r_wm := r_wm r |}, s').

Definition during_sets_kv (q : quirks) (kgf : bytes -> N) (wm : Z) (n : nat) (during : list (nat * bytes * Z)) (ts : tstore) (s : kst) : tstore * kst :=
  fold_left (fun x e => let '(a, k, t) := e in if Nat.eqb a n then store_set_kv q kgf wm k t (fst x) (snd x) else x) during (ts, s).

Fixpoint fire_kv (q : quirks) (kgf : bytes -> N) (fuel : nat) (wm : Z) (n : nat) (during : list (nat * bytes * Z))
         (ts : tstore) (s : kst) (acc : list (bytes * Z)) : list (bytes * Z) * tstore * kst :=
  match fuel with
  | O => (rev acc, ts, s)
  | S f =>
      let '(o, ts1, s1) := ts_peek_kv q s ts in
      match o with
      | None => (rev acc, ts1, s1)
      | Some k =>
          if (wm <? key_time k)%Z then (rev acc, ts1, s1)
          else let '(ts2, s2) := ts_delete_kv q k s1 ts1 in
               let '(ts3, s3) := during_sets_kv q kgf wm (S n) during ts2 s2 in
               fire_kv q kgf f wm (S n) during ts3 s3 ((key_subject k, key_time k) :: acc)
      end
  end.

(* The loop of a drained iterator ends by itself; the bound that makes the Gallina loop structurally terminating is the
   number of entries of the database (as in Model/TimerRegistry.v), obtained here by a scan of everything. *)
Definition advance_kv (q : quirks) (kgf : bytes -> N) (stop : option nat) (sender : N) (wm : Z) (during : list (nat * bytes * Z)) (st : sys_kv) : list (bytes * Z) * sys_kv :=
  let '(r, s) := st in
  let ups := ups_set sender wm (r_ups r) in
  let cw := ups_min ups in
  let '(all, s0) := scan_keys [] s in
  let fuel := match stop with None => S (length all + length during) | Some k => k end in
  let '(out, ts', s') := fire_kv q kgf fuel cw O during (r_store r) s0 [] in
  (out, ({| r_store := ts'; r_ups := ups; r_wm := cw |}, s')).

Definition sys_new_kv (c : config) (s : kst) : sys_kv :=
  (registry_new (tstore_new (cf_start c) (cf_size c) (cf_cache c)) (cf_srids c), s).

Definition step_kv (c : config) (o : op) (st : sys_kv) : list (list (bytes * Z)) * sys_kv :=
  match o with
  | SetTimer k t => ([], set_timer_kv (cf_q c) (cf_kgf c) k t st)
  | Advance s wm => let '(out, st') := advance_kv (cf_q c) (cf_kgf c) None s wm [] st in ([out], st')
  | AdvanceSet s wm during => let '(out, st') := advance_kv (cf_q c) (cf_kgf c) None s wm during st in ([out], st')
  | AdvancePartial s wm k during => let '(out, st') := advance_kv (cf_q c) (cf_kgf c) (Some k) s wm during st in ([out], st')
  | Restore => ([], sys_new_kv c (StateStore.kv_restore K (snd st) (snd st)))
  end.

Fixpoint run_kv (c : config) (ops : list op) (st : sys_kv) : list (list (bytes * Z)) * sys_kv :=
  match ops with
  | [] => ([], st)
  | o :: r => let '(out, st1) := step_kv c o st in let '(outs, st2) := run_kv c r st1 in (out ++ outs, st2)
  end.

End OverKV.
